(** Bond labels. A scalar order is kept in half-units (2 * Python value), so
    1, 1.0 and 1.5 compare exactly: 1 -> 2, 1.5 -> 3, 2 -> 4 ...
    A Python tuple label (g, h) and a list label [g, h] are different values
    (tuple == list is False in Python); both occur in the code base. *)
From Coq Require Import ZArith Bool.
Open Scope Z_scope.

Inductive label :=
| Scalar (o : Z)
| Pair (g h : Z)     (* Python tuple (g, h) *)
| LPair (g h : Z).   (* Python list [g, h] *)

Definition label_eqb (a b : label) : bool :=
  match a, b with
  | Scalar x, Scalar y => x =? y
  | Pair g h, Pair g' h' => (g =? g') && (h =? h')
  | LPair g h, LPair g' h' => (g =? g') && (h =? h')
  | _, _ => false
  end.

Lemma label_eqb_eq a b : label_eqb a b = true <-> a = b.
Proof.
  destruct a, b; simpl; try (split; [discriminate|congruence]);
    rewrite ?andb_true_iff, ?Z.eqb_eq; split; try intros [-> ->]; try intros ->;
    try congruence; try (intros [= -> ->]; auto); auto.
Qed.

Lemma label_eqb_refl a : label_eqb a a = true.
Proof. apply label_eqb_eq; reflexivity. Qed.

(* first / second component the way Python's bond[0] / bond[1] reads them *)
Definition lab_fst (l : label) : option Z :=
  match l with Scalar _ => None | Pair g _ | LPair g _ => Some g end.
Definition lab_snd (l : label) : option Z :=
  match l with Scalar _ => None | Pair _ h | LPair _ h => Some h end.
