(** Model of networkx.Graph with dict insertion order.
    graph = association list  node id -> (attributes, adjacency list);
    both levels keep insertion order, exactly like Graph._node / Graph._adj.
    Every function mirrors the networkx 3.x method of the same name. *)
From Coq Require Import ZArith List Bool String.
From FGV Require Import Base.Util Base.Bond.
Import ListNotations.
Open Scope Z_scope.

(* the node attribute dict, restricted to the keys FGUtils uses *)
Record nattr := mkNA {
  a_sym : option string;            (* "symbol" *)
  a_aam : option Z;                 (* "aam" *)
  a_labels : option (list string);  (* "labels" *)
  a_islab : option bool;            (* "is_labeled" *)
  a_idxmap : option (Z * Z)         (* "idx_map" *)
}.

Definition na_empty : nattr := mkNA None None None None None.
Definition na_sym (s : string) : nattr := mkNA (Some s) None None None None.

(* dict.update *)
Definition na_update (old new : nattr) : nattr :=
  mkNA (or_else (a_sym new) (a_sym old)) (or_else (a_aam new) (a_aam old))
       (or_else (a_labels new) (a_labels old)) (or_else (a_islab new) (a_islab old))
       (or_else (a_idxmap new) (a_idxmap old)).

Definition adjl := list (Z * label).
Definition graph := list (Z * (nattr * adjl)).

Definition empty_graph : graph := [].

Definition nodes (g : graph) : list Z := map fst g.
Definition nodes_data (g : graph) : list (Z * nattr) := map (fun '(n, (a, _)) => (n, a)) g.
Definition has_node (g : graph) (n : Z) : bool := is_some (alookup n g).
Definition node_attr (g : graph) (n : Z) : option nattr :=
  match alookup n g with Some (a, _) => Some a | None => None end.
Definition adj (g : graph) (n : Z) : adjl :=
  match alookup n g with Some (_, ad) => ad | None => [] end.
Definition neighbors (g : graph) (n : Z) : list Z := map fst (adj g n).
Definition edge_label (g : graph) (u v : Z) : option label := alookup v (adj g u).
Definition has_edge (g : graph) (u v : Z) : bool := is_some (edge_label g u v).
Definition sym_of (g : graph) (n : Z) : option string :=
  match node_attr g n with Some a => a_sym a | None => None end.
Definition number_of_nodes (g : graph) : Z := Z.of_nat (List.length g).

Definition add_node (g : graph) (n : Z) (a : nattr) : graph :=
  match alookup n g with
  | Some (a0, ad) => aset n (na_update a0 a, ad) g
  | None => g ++ [(n, (a, []))]
  end.

(* replace the whole attribute dict entry for one key without touching the rest:
   graph.nodes[n][key] = value is add_node with a one-key dict *)
Definition ensure_node (g : graph) (n : Z) : graph :=
  match alookup n g with Some _ => g | None => g ++ [(n, (na_empty, []))] end.

Definition set_adj (g : graph) (u v : Z) (l : label) : graph :=
  match alookup u g with
  | Some (a, ad) => aset u (a, aset v l ad) g
  | None => g
  end.

Definition add_edge (g : graph) (u v : Z) (l : label) : graph :=
  let g1 := ensure_node (ensure_node g u) v in
  set_adj (set_adj g1 u v l) v u l.

Definition remove_node (g : graph) (n : Z) : graph :=
  map (fun '(m, (a, ad)) => (m, (a, adel n ad))) (adel n g).

Definition del_adj (g : graph) (u v : Z) : graph :=
  match alookup u g with
  | Some (a, ad) => aset u (a, adel v ad) g
  | None => g
  end.

Definition remove_edge (g : graph) (u v : Z) : graph := del_adj (del_adj g u v) v u.

(* Graph.edges(data=True): every edge once, from the endpoint met first in node order *)
Fixpoint edges_aux (seen : list Z) (g : graph) : list (Z * Z * label) :=
  match g with
  | [] => []
  | (n, (_, ad)) :: t =>
      map (fun '(v, l) => (n, v, l)) (filter (fun '(v, _) => negb (zmem v seen)) ad)
      ++ edges_aux (n :: seen) t
  end.
Definition edges (g : graph) : list (Z * Z * label) := edges_aux [] g.

(* Graph.edges(n, data=True) *)
Definition incident (g : graph) (n : Z) : list (Z * Z * label) :=
  map (fun '(v, l) => (n, v, l)) (adj g n).

(* every adjacency entry, both directions: for u in _adj: for v in _adj[u] *)
Definition adj_pairs (g : graph) : list (Z * Z * label) :=
  flat_map (fun '(u, (_, ad)) => map (fun '(v, l) => (u, v, l)) ad) g.

Definition add_nodes_from (g : graph) (l : list (Z * nattr)) : graph :=
  fold_left (fun acc '(n, a) => add_node acc n a) l g.
Definition add_edges_from (g : graph) (l : list (Z * Z * label)) : graph :=
  fold_left (fun acc '(u, v, lb) => add_edge acc u v lb) l g.

(* Graph.copy() *)
Definition copy (g : graph) : graph :=
  add_edges_from (add_nodes_from empty_graph (nodes_data g)) (adj_pairs g).

(* nx.compose(G, H) = compose_all([G, H]): for each graph in turn
   R.add_nodes_from(G.nodes(data=True)); R.add_edges_from(G.edges(data=True)) *)
Definition compose (g h : graph) : graph :=
  add_edges_from
    (add_nodes_from
       (add_edges_from (add_nodes_from empty_graph (nodes_data g)) (edges g))
       (nodes_data h))
    (edges h).

(* H._node.update(...): the attribute dict of an existing node is replaced as a whole *)
Definition set_attr (g : graph) (n : Z) (a : nattr) : graph :=
  match alookup n g with
  | Some (_, ad) => aset n (a, ad) g
  | None => g
  end.

(* nx.relabel_nodes(G, mapping, copy=True) with mapping.get(n, n) given as a function:
   H.add_nodes_from(f n for n in G); H._node.update((f n, d.copy()) for n, d in G.nodes.items());
   H.add_edges_from((f u, f v, d.copy()) for (u, v, d) in G.edges(data=True)) *)
Definition relabel (f : Z -> Z) (g : graph) : graph :=
  let h0 := add_nodes_from empty_graph (map (fun '(n, _) => (f n, na_empty)) (nodes_data g)) in
  let h1 := fold_left (fun acc '(n, a) => set_attr acc (f n) a) (nodes_data g) h0 in
  add_edges_from h1 (map (fun '(u, v, l) => (f u, f v, l)) (edges g)).

(* mapping given as a dict *)
Definition relabel_map (m : list (Z * Z)) (g : graph) : graph :=
  relabel (fun n => match alookup n m with Some x => x | None => n end) g.

(* well-formedness: unique node ids, unique neighbours per adjacency list, every
   neighbour is a node, adjacency symmetric with equal labels *)
Definition wf_node (g : graph) (e : Z * (nattr * adjl)) : bool :=
  let '(n, (_, ad)) := e in
  nodupb (map fst ad)
  && forallb (fun '(v, l) => option_eqb label_eqb (edge_label g v n) (Some l)) ad.
Definition wfb (g : graph) : bool := nodupb (nodes g) && forallb (wf_node g) g.

(* executable equality of attribute records / graphs, used by generated case files *)
Definition nattr_eqb (a b : nattr) : bool :=
  option_eqb String.eqb (a_sym a) (a_sym b)
  && option_eqb Z.eqb (a_aam a) (a_aam b)
  && option_eqb (list_eqb String.eqb) (a_labels a) (a_labels b)
  && option_eqb Bool.eqb (a_islab a) (a_islab b)
  && option_eqb (fun x y => (fst x =? fst y) && (snd x =? snd y)) (a_idxmap a) (a_idxmap b).

Definition adjl_eqb (x y : adjl) : bool :=
  list_eqb (fun a b => (fst a =? fst b) && label_eqb (snd a) (snd b)) x y.

(* exact equality, including all iteration orders *)
Definition graph_eqb (g h : graph) : bool :=
  list_eqb (fun a b => (fst a =? fst b) && nattr_eqb (fst (snd a)) (fst (snd b))
                       && adjl_eqb (snd (snd a)) (snd (snd b))) g h.

(* equality as labelled graphs: same node -> attributes map, same edge -> label map *)
Definition graph_sub (g h : graph) : bool :=
  forallb (fun '(n, (a, ad)) =>
             option_eqb nattr_eqb (Some a) (node_attr h n)
             && forallb (fun '(v, l) => option_eqb label_eqb (Some l) (edge_label h n v)) ad) g.
Definition graph_equivb (g h : graph) : bool := graph_sub g h && graph_sub h g.
