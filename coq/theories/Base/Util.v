(** Shared list / association-list helpers. Association lists keep Python dict
    insertion order: update in place, append when absent. *)
From Coq Require Import ZArith List Bool Lia.
Import ListNotations.
Open Scope Z_scope.

Fixpoint alookup {A} (k : Z) (l : list (Z * A)) : option A :=
  match l with
  | [] => None
  | (k', a) :: t => if k =? k' then Some a else alookup k t
  end.

Fixpoint aset {A} (k : Z) (a : A) (l : list (Z * A)) : list (Z * A) :=
  match l with
  | [] => [(k, a)]
  | (k', a') :: t => if k =? k' then (k, a) :: t else (k', a') :: aset k a t
  end.

Fixpoint adel {A} (k : Z) (l : list (Z * A)) : list (Z * A) :=
  match l with
  | [] => []
  | (k', a') :: t => if k =? k' then adel k t else (k', a') :: adel k t
  end.

Definition akeys {A} (l : list (Z * A)) : list Z := map fst l.

Fixpoint zmem (k : Z) (l : list Z) : bool :=
  match l with [] => false | x :: t => (k =? x) || zmem k t end.

Definition is_some {A} (o : option A) : bool := match o with Some _ => true | None => false end.

Definition or_else {A} (o d : option A) : option A := match o with Some _ => o | None => d end.

Fixpoint zmax_list (d : Z) (l : list Z) : Z :=
  match l with [] => d | x :: t => zmax_list (Z.max d x) t end.

Fixpoint zmin_list (d : Z) (l : list Z) : Z :=
  match l with [] => d | x :: t => zmin_list (Z.min d x) t end.

Definition option_eqb {A} (eqb : A -> A -> bool) (x y : option A) : bool :=
  match x, y with
  | Some a, Some b => eqb a b
  | None, None => true
  | _, _ => false
  end.

Fixpoint list_eqb {A} (eqb : A -> A -> bool) (x y : list A) : bool :=
  match x, y with
  | [], [] => true
  | a :: x', b :: y' => eqb a b && list_eqb eqb x' y'
  | _, _ => false
  end.

Fixpoint nodupb (l : list Z) : bool :=
  match l with [] => true | x :: t => negb (zmem x t) && nodupb t end.

(* indices (0-based) of the [false] entries: used by generated case files to
   report which cases disagree without printing large terms *)
Fixpoint false_idx_aux (i : nat) (l : list bool) : list nat :=
  match l with
  | [] => []
  | b :: t => if b then false_idx_aux (S i) t else i :: false_idx_aux (S i) t
  end.
Definition false_idx (l : list bool) : list nat := false_idx_aux 0 l.
