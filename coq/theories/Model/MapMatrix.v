(** Model of fgutils/permutation.py: MappingMatrix.__init__ / is_mapping. Definitions only.
    The private index dict (symbol -> row number, built from a Python set, hence in hash order)
    is internal; the matrix is modelled as the list of (pattern symbol, structure symbol) cells
    that were set to 1, and the key set of the dict as a list. *)
From Coq Require Import ZArith List Bool String.
From FGV Require Import Base.Util Base.Sym Model.Permute.
Import ListNotations.
Open Scope Z_scope.

Record matrix := mkMatrix {
  mm_syms : list string;               (* keys of __s2i *)
  mm_valid : list (string * string)    (* cells holding 1 *)
}.

Definition sym_mem (x : string) (l : list string) : bool := existsb (String.eqb x) l.
Definition cell_mem (ps ss : string) (l : list (string * string)) : bool :=
  existsb (fun c => String.eqb ps (fst c) && String.eqb ss (snd c)) l.

(* inner loop "for ss in structure_symbols"; None = AssertionError *)
Fixpoint mm_row (mp : mapper) (ps : string) (ssyms : list string) (acc : list (string * string))
  : option (list (string * string)) :=
  match ssyms with
  | [] => Some acc
  | ss :: t =>
      let ms := permute mp [ps] [ss] in
      if (1 <? List.length ms)%nat then None                 (* assert len(mappings) <= 1 *)
      else match ms with
           | [] => mm_row mp ps t acc
           | m :: _ => if (List.length m =? 1)%nat           (* assert len(mappings[0]) == 1 *)
                       then mm_row mp ps t (acc ++ [(ps, ss)])
                       else None
           end
  end.

Fixpoint mm_fill (mp : mapper) (psyms ssyms : list string) (acc : list (string * string))
  : option (list (string * string)) :=
  match psyms with
  | [] => Some acc
  | ps :: t => match mm_row mp ps ssyms acc with
               | None => None
               | Some acc' => mm_fill mp t ssyms acc'
               end
  end.

Definition mm_init (mp : mapper) (psyms ssyms : list string) : option matrix :=
  option_map (mkMatrix (psyms ++ ssyms)) (mm_fill mp psyms ssyms []).

(* None = KeyError *)
Definition is_mapping (m : matrix) (ps ss : string) : option bool :=
  if sym_mem ps (mm_syms m) && sym_mem ss (mm_syms m)
  then Some (cell_mem ps ss (mm_valid m)) else None.
