(** Model of fgutils/permutation.py: MappingMatrix.__init__ / is_mapping. Definitions only.
    The private index dict (symbol -> row number, built from a Python set, hence in hash order)
    is internal; the matrix is modelled as the list of (pattern symbol, structure symbol) cells
    that were set to 1, and the key set of the dict as a list. *)
From Coq Require Import ZArith List Bool String.
From FGV Require Import Base.Util Base.Sym Model.Permute.
Import ListNotations.
Open Scope Z_scope.

Record matrix := mkMatrix {
  mm_syms : list string;               (* keys of __s2i *)
  mm_valid : list (string * string)    (* cells holding 1 *)
}.

Definition sym_mem (x : string) (l : list string) : bool := existsb (String.eqb x) l.
Definition cell_mem (ps ss : string) (l : list (string * string)) : bool :=
  existsb (fun c => String.eqb ps (fst c) && String.eqb ss (snd c)) l.

(* inner loop "for ss in structure_symbols"; None = AssertionError *)
Fixpoint mm_row (mp : mapper) (ps : string) (ssyms : list string) (acc : list (string * string))
  : option (list (string * string)) :=
  match ssyms with
  | [] => Some acc
  | ss :: t =>
      let ms := permute mp [ps] [ss] in
      if (1 <? List.length ms)%nat then None                 (* assert len(mappings) <= 1 *)
      else match ms with
           | [] => mm_row mp ps t acc
           | m :: _ => if (List.length m =? 1)%nat           (* assert len(mappings[0]) == 1 *)
                       then mm_row mp ps t (acc ++ [(ps, ss)])
                       else None
           end
  end.

Fixpoint mm_fill (mp : mapper) (psyms ssyms : list string) (acc : list (string * string))
  : option (list (string * string)) :=
  match psyms with
  | [] => Some acc
  | ps :: t => match mm_row mp ps ssyms acc with
               | None => None
               | Some acc' => mm_fill mp t ssyms acc'
               end
  end.

Definition mm_init (mp : mapper) (psyms ssyms : list string) : option matrix :=
  option_map (mkMatrix (psyms ++ ssyms)) (mm_fill mp psyms ssyms []).

(* None = KeyError *)
Definition is_mapping (m : matrix) (ps ss : string) : option bool :=
  if sym_mem ps (mm_syms m) && sym_mem ss (mm_syms m)
  then Some (cell_mem ps ss (mm_valid m)) else None.

(** * MappingMatrix.min_mapping_symbol

    The row/column numbering of the matrix is the private dict [__s2i], filled by enumerating a
    Python [set] of the registered symbols: its order depends on the string hashes
    (PYTHONHASHSEED).  The order is a PARAMETER [ord] of the model (a duplicate-free listing of the
    registered symbols); everything the code computes with numpy float64 is computed with integers
    (all values are products of list lengths, far below 2^53).  *)

Inductive mms_result :=
| MMSValueError                               (* "Pattern has more symbols than structure." *)
| MMSKeyError                                 (* a symbol that is not registered in __s2i *)
| MMSOk (r : option (string * string)).

(* __valid_mappings[s2i[i], s2i[j]] *)
Definition vcell (m : matrix) (i j : string) : Z := if cell_mem i j (mm_valid m) then 1 else 0.

(* _setup_vec(symbols): Counter -> vector; the vector is read through the symbol of each row.
   None = KeyError on self.__s2i[s] *)
Definition setup_vec (m : matrix) (syms : list string) : option (string -> Z) :=
  if forallb (fun x => sym_mem x (mm_syms m)) syms then Some (fun c => count_sym c syms) else None.

Definition zsum {A} (f : A -> Z) (l : list A) : Z := fold_right (fun a acc => f a + acc) 0 l.

(* np.matmul(self.__valid_mappings, ss_vec)[i] *)
Definition row_total (ord : list string) (m : matrix) (ssv : string -> Z) (i : string) : Z :=
  zsum (fun j => vcell m i j * ssv j) ord.
(* np.matmul(ps_vec.T, self.__valid_mappings)[j] *)
Definition col_total (ord : list string) (m : matrix) (psv : string -> Z) (j : string) : Z :=
  zsum (fun i => psv i * vcell m i j) ord.
(* m_cnt[i, j] = (column vector x row vector)[i, j] * valid[i, j] *)
Definition m_cnt (ord : list string) (m : matrix) (psv ssv : string -> Z) (c : string * string) : Z :=
  row_total ord m ssv (fst c) * col_total ord m psv (snd c) * vcell m (fst c) (snd c).

(* the cells in row-major order of the numbering *)
Definition all_cells (ord : list string) : list (string * string) :=
  flat_map (fun i => map (pair i) ord) ord.

Fixpoint zmin_of (d : Z) (l : list Z) : Z :=
  match l with [] => d | x :: t => zmin_of (Z.min d x) t end.

Definition min_mapping_symbol (ord : list string) (m : matrix) (ps ss : list string) : mms_result :=
  if (List.length ss <? List.length ps)%nat then MMSValueError
  else
    match setup_vec m ps with
    | None => MMSKeyError
    | Some psv =>
        match setup_vec m ss with
        | None => MMSKeyError
        | Some ssv =>
            let cnt := m_cnt ord m psv ssv in
            let cells := all_cells ord in
            match filter (fun x => negb (x =? 0)) (map cnt cells) with    (* m_cnt[np.nonzero(m_cnt)] *)
            | [] => MMSOk None
            | x :: t =>
                let mn := zmin_of x t in                                   (* np.min(non_zero) *)
                MMSOk (find (fun c => cnt c =? mn) cells)                  (* first cell of np.where(m_cnt == min) *)
            end
        end
    end.
