(** Model of fgutils/algorithm/subgraph_enumeration.py (called with DAG=None):
    is_existing_extension, is_valid_extension, enumerateCIS,
    _node_induced_connected_subgraphs, node_induced_connected_subgraphs.
    Definitions only; one Gallina function per Python function, statement by statement.

    - A generator is modelled by the LIST of the values it yields, in order
      ([list(generator)]); an exception raised while the generator is consumed makes the
      whole result the corresponding [Err] value.
    - np.inf is [None] in [dist := option Z].
    - The array P (parents) is written but never read by the code; it is dropped. Every
      index used on P is used on D (same length) in the statement just before, so P cannot
      raise where D does not.
    - The DAG argument is optional bookkeeping (default None) and is not modelled; with
      DAG=None the [elif] branch of enumerateCIS has no effect.
    - Python list indexing (negative indices wrap, IndexError outside) is [lget]/[lset]. *)
From Coq Require Import ZArith List Bool.
From FGV Require Import Base.Util Base.Bond Base.NX.
Import ListNotations.
Open Scope Z_scope.

(** * Results with Python exceptions *)

Inductive err :=
| EAssert   (* AssertionError: "Wanted to increase dist ..." *)
| EIndex    (* IndexError *)
| EKey      (* KeyError *)
| ENode     (* networkx.NetworkXError: node not in the graph *)
| EFuel.    (* not a Python outcome: the model's recursion fuel ran out *)

Inductive res (A : Type) := Ok (a : A) | Err (e : err).
Arguments Ok {A} a.
Arguments Err {A} e.

Definition bind {A B} (r : res A) (f : A -> res B) : res B :=
  match r with Ok a => f a | Err e => Err e end.
Notation "x <- a ;; b" := (bind a (fun x => b)) (at level 61, a at next level, right associativity).

Definition of_opt {A} (e : err) (o : option A) : res A :=
  match o with Some a => Ok a | None => Err e end.

(* [r for x in l] where evaluating r may raise: the first exception wins *)
Fixpoint rmap {A B} (f : A -> res B) (l : list A) : res (list B) :=
  match l with
  | [] => Ok []
  | x :: t => y <- f x ;; ys <- rmap f t ;; Ok (y :: ys)
  end.

(* concatenation of the yields of consecutive sub-generators *)
Fixpoint rconcat {A} (l : list (res (list A))) : res (list A) :=
  match l with
  | [] => Ok []
  | r :: t => a <- r ;; b <- rconcat t ;; Ok (a ++ b)
  end.

(** * Python lists *)

Definition pyidx (len : nat) (i : Z) : option nat :=
  let j := if i <? 0 then i + Z.of_nat len else i in
  if (0 <=? j) && (j <? Z.of_nat len) then Some (Z.to_nat j) else None.

(* l[i] *)
Definition lget {A} (l : list A) (i : Z) : res A :=
  match pyidx (List.length l) i with
  | Some k => of_opt EIndex (nth_error l k)
  | None => Err EIndex
  end.

Fixpoint set_nth {A} (l : list A) (k : nat) (a : A) : list A :=
  match l, k with
  | [], _ => []
  | _ :: t, O => a :: t
  | x :: t, S k' => x :: set_nth t k' a
  end.

(* l[i] = a *)
Definition lset {A} (l : list A) (i : Z) (a : A) : res (list A) :=
  match pyidx (List.length l) i with
  | Some k => Ok (set_nth l k a)
  | None => Err EIndex
  end.

(** * Distances: ints and np.inf *)

Definition dist := option Z.

(* a > b *)
Definition dgt (a b : dist) : bool :=
  match a, b with
  | None, Some _ => true
  | Some x, Some y => y <? x
  | _, None => false
  end.

(* a == b *)
Definition deq (a b : dist) : bool :=
  match a, b with
  | None, None => true
  | Some x, Some y => x =? y
  | _, _ => false
  end.

(* a <= b *)
Definition dle (a b : dist) : bool :=
  match a, b with
  | _, None => true
  | None, Some _ => false
  | Some x, Some y => x <=? y
  end.

(* a + 1 *)
Definition dsucc (a : dist) : dist := option_map (fun x => x + 1) a.

(** * The extension tests *)

(* x = U[-1]; return not (D[v] == D[x] and v > x) *)
Definition is_existing_extension (U : list Z) (v : Z) (D : list dist) : res bool :=
  x <- lget U (-1) ;;
  dv <- lget D v ;;
  dx <- lget D x ;;
  Ok (negb (deq dv dx && (v >? x))).

(* s = U[0]; x = U[-1]; if v < s: return False; if D[v] > D[x]: return True;
   return not is_existing_extension(U, v, D) *)
Definition is_valid_extension (U : list Z) (v : Z) (D : list dist) : res bool :=
  s <- lget U 0 ;;
  x <- lget U (-1) ;;
  if v <? s then Ok false
  else
    dv <- lget D v ;;
    dx <- lget D x ;;
    if dgt dv dx then Ok true
    else e <- is_existing_extension U v D ;; Ok (negb e).

(** * enumerateCIS *)

(* G.neighbors(v) *)
Definition nbrs (G : graph) (v : Z) : res (list Z) :=
  if has_node G v then Ok (neighbors G v) else Err ENode.

(* for u in new_C: assert D[v] + 1 <= _D[u]; _D[u] = D[v] + 1     ([dv] is D[v]: D itself is
   not modified by the loop, and D[v] was already read without error by is_valid_extension) *)
Fixpoint assign_new (D_ : list dist) (dv : dist) (new_C : list Z) : res (list dist) :=
  match new_C with
  | [] => Ok D_
  | u :: t =>
      du <- lget D_ u ;;
      if dle (dsucc dv) du
      then D2 <- lset D_ u (dsucc dv) ;; assign_new D2 dv t
      else Err EAssert
  end.

(* the body of [for v in C] : the list of everything yielded during this iteration *)
Definition ext_body (rec : list Z -> list Z -> list dist -> res (list (list Z)))
           (G : graph) (U C : list Z) (D : list dist) (v : Z) : res (list (list Z)) :=
  if zmem v U then Ok []                                  (* if v in U: continue *)
  else
    b <- is_valid_extension U v D ;;
    if b then
      ns <- nbrs G v ;;
      let new_C := filter (fun u => negb (zmem u C) && negb (zmem u U)) ns in
      dv <- lget D v ;;
      D' <- assign_new D dv new_C ;;                      (* _D = deepcopy(D); loop *)
      rec (U ++ [v]) (C ++ new_C) D'                      (* yield from enumerateCIS(...) *)
    else Ok [].                                           (* elif ...: only touches DAG *)

(* yield U; for v in C: ...     C and D are not modified while the loop runs (C + new_C and
   deepcopy build new objects), so the iterations are independent of each other. *)
Fixpoint enumerateCIS (fuel : nat) (G : graph) (U C : list Z) (D : list dist)
  : res (list (list Z)) :=
  match fuel with
  | O => Err EFuel
  | S f =>
      rest <- rconcat (map (ext_body (enumerateCIS f G) G U C D) C) ;;
      Ok (U :: rest)
  end.

(** * _node_induced_connected_subgraphs *)

(* for c in C: D[c] = 1 *)
Fixpoint init_dist (D : list dist) (C : list Z) : res (list dist) :=
  match C with
  | [] => Ok D
  | c :: t => D2 <- lset D c (Some 1) ;; init_dist D2 t
  end.

Definition nics_inner (G : graph) (anchor : Z) : res (list (list Z)) :=
  let U := [anchor] in
  C <- nbrs G anchor ;;                                   (* C = list(G.neighbors(anchor)) *)
  let D := repeat (@None Z) (List.length (nodes G)) in    (* [np.inf] * len(G.nodes) *)
  D1 <- lset D anchor (Some 0) ;;                         (* D[anchor] = 0 *)
  D2 <- init_dist D1 C ;;
  enumerateCIS (S (List.length (nodes G))) G U C D2.

(** * node_induced_connected_subgraphs *)

(* nmap = {anchor: 0}; for n in G.nodes: if n == anchor: continue; else: nmap[n] = len(nmap) *)
Definition build_nmap (anchor : Z) (ns : list Z) : list (Z * Z) :=
  fold_left (fun nmap n => if n =? anchor then nmap
                           else aset n (Z.of_nat (List.length nmap)) nmap)
            ns [(anchor, 0)].

(* {v: k for k, v in nmap.items()} *)
Definition invert_map (m : list (Z * Z)) : list (Z * Z) :=
  fold_left (fun acc kv => aset (snd kv) (fst kv) acc) m [].

(* mapping.get(n, n) *)
Definition map_get (m : list (Z * Z)) (n : Z) : Z :=
  match alookup n m with Some k => k | None => n end.

Definition node_induced_connected_subgraphs (G : graph) (anchor : Z) : res (list (list Z)) :=
  let nmap := build_nmap anchor (nodes G) in
  let nmap_inv := invert_map nmap in
  let H := relabel (map_get nmap) G in                    (* nx.relabel_nodes(G, nmap, copy=True) *)
  subs <- nics_inner H 0 ;;
  rmap (fun sub => rmap (fun u => of_opt EKey (alookup u nmap_inv)) sub) subs.

(** * Executable equality of results (used by generated case files) *)

Definition err_eqb (a b : err) : bool :=
  match a, b with
  | EAssert, EAssert | EIndex, EIndex | EKey, EKey | ENode, ENode | EFuel, EFuel => true
  | _, _ => false
  end.

Definition res_eqb {A} (eqb : A -> A -> bool) (x y : res A) : bool :=
  match x, y with
  | Ok a, Ok b => eqb a b
  | Err e, Err f => err_eqb e f
  | _, _ => false
  end.

Definition yields_eqb : res (list (list Z)) -> res (list (list Z)) -> bool :=
  res_eqb (list_eqb (list_eqb Z.eqb)).
