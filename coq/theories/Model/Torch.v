(** Model of fgutils/torch/utils.py and fgutils/torch/graph.py (C18). Definitions only.

    Tensors are nested lists:
      x          : list (list Z)        node feature rows (atomic numbers)
      edge_index : list (Z * Z)         the COLUMNS of the 2 x m tensor, i.e. edge_index.T.tolist()
      edge_attr  : option (list (list Z))   rows, numbers in HALF units (1 -> 2, 1.5 -> 3); None = absent
      batch      : option (list Z)      the PyG batch vector; None for a single Data object
    An empty tensor (whatever its shape) is the empty list; in every modelled code path an empty
    edge tensor is the one-dimensional torch.tensor([]) (size(0) = 0).

    torch / torch_geometric are external. The list functions standing for tensor indexing,
    unique, nonzero, where, matmul, eye, Batch.from_data_list are ORACLE assumptions that the
    harness validates on every run by comparing these tensors with the real ones.

    Python exceptions are error values; [Unmodelled] marks inputs outside the modelled domain
    (negative indices, which torch wraps around; edge feature rows whose width is not 2, which
    would give tuple labels of another length; batch members without edge_attr). No theorem is
    true by virtue of an [Unmodelled] result. *)
From Coq Require Import ZArith List Bool String.
From FGV Require Import Base.Util Base.Bond Base.NX Gen.PeriodicTable.
Import ListNotations.
Open Scope Z_scope.

(** * error values *)

Inductive err := KeyError | TypeError | AssertionError | IndexError | AttributeError | RuntimeError | Unmodelled.

Inductive res (A : Type) := Ok (a : A) | Err (e : err).
Arguments Ok {A} a.
Arguments Err {A} e.

Definition bind {A B} (r : res A) (f : A -> res B) : res B :=
  match r with Ok a => f a | Err e => Err e end.

(* a Python loop / comprehension that may raise: the first exception wins *)
Fixpoint mapM {A B} (f : A -> res B) (l : list A) : res (list B) :=
  match l with
  | [] => Ok []
  | a :: t => bind (f a) (fun b => bind (mapM f t) (fun bs => Ok (b :: bs)))
  end.

Definition err_eqb (a b : err) : bool :=
  match a, b with
  | KeyError, KeyError | TypeError, TypeError | AssertionError, AssertionError
  | IndexError, IndexError | AttributeError, AttributeError | RuntimeError, RuntimeError
  | Unmodelled, Unmodelled => true
  | _, _ => false
  end.

Definition res_eqb {A} (eqb : A -> A -> bool) (x y : res A) : bool :=
  match x, y with
  | Ok a, Ok b => eqb a b
  | Err e, Err e' => err_eqb e e'
  | _, _ => false
  end.

(** * small list vocabulary *)

(* [0; 1; ...; n-1] *)
Definition znats (n : nat) : list Z := map Z.of_nat (seq 0 n).

(* enumerate(l) *)
Definition enumerate {A} (l : list A) : list (Z * A) := combine (znats (List.length l)) l.

(* l[i] for a tensor / list index i >= 0 *)
Definition nth_res {A} (l : list A) (i : Z) : res A :=
  if i <? 0 then Err Unmodelled
  else match nth_error l (Z.to_nat i) with Some a => Ok a | None => Err IndexError end.

(* a dict built by inserting (key, value) pairs one after the other *)
Definition zdict_of {A} (l : list (Z * A)) : list (Z * A) :=
  fold_left (fun acc '(k, a) => aset k a acc) l [].

Fixpoint slookup {A} (k : string) (l : list (string * A)) : option A :=
  match l with
  | [] => None
  | (k', a) :: t => if String.eqb k k' then Some a else slookup k t
  end.
Fixpoint sset {A} (k : string) (a : A) (l : list (string * A)) : list (string * A) :=
  match l with
  | [] => [(k, a)]
  | (k', a') :: t => if String.eqb k k' then (k, a) :: t else (k', a') :: sset k a t
  end.
Definition sdict_of {A} (l : list (string * A)) : list (string * A) :=
  fold_left (fun acc '(k, a) => sset k a acc) l [].

(* torch.unique on a 1-d or 2-d integer tensor: the distinct values in ascending order *)
Fixpoint insert_u (v : Z) (l : list Z) : list Z :=
  match l with
  | [] => [v]
  | w :: t => if v <? w then v :: l else if v =? w then l else w :: insert_u v t
  end.
Definition unique_sorted (l : list Z) : list Z := fold_right insert_u [] l.

(* (t == b).nonzero().squeeze() as a list of positions *)
Definition nonzero_eq (b : Z) (l : list Z) : list Z :=
  map fst (filter (fun p => snd p =? b) (enumerate l)).

Definition zmaximum (l : list Z) : option Z :=
  match l with [] => None | a :: t => Some (zmax_list a t) end.

(** * fgutils/chem/ps.py: the three tables *)

(* the dict literal: a repeated key keeps its first position and its last value *)
Definition atomic_data : list (string * Z) :=
  sdict_of (map (fun '(n, s) => (s, n)) atomic_data_src).
(* atomic_sym2num = {sym: d["num"] for sym, d in atomic_data.items()} *)
Definition atomic_sym2num : list (string * Z) :=
  sdict_of (map (fun '(s, n) => (s, n)) atomic_data).
(* atomic_num2sym = {num: sym for sym, num in atomic_sym2num.items()} *)
Definition atomic_num2sym : list (Z * string) :=
  zdict_of (map (fun '(s, n) => (n, s)) atomic_sym2num).

(** * tensors *)

Record tdata := mkT {
  t_x : list (list Z);
  t_ei : list (Z * Z);
  t_ea : option (list (list Z));
  t_batch : option (list Z)
}.

Definition zrow_eqb (a b : list Z) : bool := list_eqb Z.eqb a b.
Definition zpair_eqb (a b : Z * Z) : bool := (fst a =? fst b) && (snd a =? snd b).
Definition tdata_eqb (a b : tdata) : bool :=
  list_eqb zrow_eqb (t_x a) (t_x b)
  && list_eqb zpair_eqb (t_ei a) (t_ei b)
  && option_eqb (list_eqb zrow_eqb) (t_ea a) (t_ea b)
  && option_eqb (list_eqb Z.eqb) (t_batch a) (t_batch b).

(** * its -> torch *)

(* _default_node_feature_trans_its2torch: [atomic_sym2num[d["symbol"]]] *)
Definition node_feature_its2torch (a : nattr) : res (list Z) :=
  match a_sym a with
  | None => Err KeyError
  | Some s => match slookup s atomic_sym2num with Some z => Ok [z] | None => Err KeyError end
  end.

(* _default_edge_feature_trans_its2torch: g_b, h_b = d["bond"]; [g_b, h_b]
   (None components are outside the label type) *)
Definition edge_feature_its2torch (l : label) : res (list Z) :=
  match l with
  | Pair g h | LPair g h => Ok [g; h]
  | Scalar _ => Err TypeError
  end.

(* node_idx = {n: i for i, n in enumerate(its.nodes)}  (node ids are unique dict keys) *)
Definition node_idx (g : graph) : list (Z * Z) := combine (nodes g) (znats (List.length g)).

(* one pass of the edge loop: ((u, v), edge_attr) *)
Definition edge_entry (idx : list (Z * Z)) (e : Z * Z * label) : res (Z * Z * list Z) :=
  let '(u, v, l) := e in
  match alookup u idx, alookup v idx with
  | Some i, Some j => bind (edge_feature_its2torch l) (fun f => Ok (i, j, f))
  | _, _ => Err KeyError
  end.

(* _its_to_torch with the default transforms *)
Definition its_to_torch1 (g : graph) : res tdata :=
  bind (mapM (fun e : Z * (nattr * adjl) => node_feature_its2torch (fst (snd e))) g) (fun x =>
  bind (mapM (edge_entry (node_idx g)) (edges g)) (fun es =>
  Ok (mkT x
          (flat_map (fun '(i, j, _) => [(i, j); (j, i)]) es)
          (Some (flat_map (fun '(_, _, f) => [f; f]) es))
          None))).

(* Batch.from_data_list: x and edge_attr concatenated, edge_index shifted by the running node
   count, batch = member number repeated per node *)
Definition shift (off : Z) (p : Z * Z) : Z * Z := (fst p + off, snd p + off).

Fixpoint batch_go (off i : Z) (ts : list tdata)
  : list (list Z) * list (Z * Z) * list (list Z) * list Z :=
  match ts with
  | [] => ([], [], [], [])
  | t :: r =>
      let n := List.length (t_x t) in
      let '(x, ei, ea, b) := batch_go (off + Z.of_nat n) (i + 1) r in
      (t_x t ++ x,
       map (shift off) (t_ei t) ++ ei,
       match t_ea t with Some a => a | None => [] end ++ ea,
       repeat i n ++ b)
  end.

Definition batch_from_data_list (ts : list tdata) : res tdata :=
  if forallb (fun t => is_some (t_ea t) && negb (is_some (t_batch t))) ts
  then let '(x, ei, ea, b) := batch_go 0 0 ts in Ok (mkT x ei (Some ea) (Some b))
  else Err Unmodelled.

(* its_to_torch on a list *)
Definition its_to_torch_list (gs : list graph) : res tdata :=
  bind (mapM its_to_torch1 gs) batch_from_data_list.
(* (Batch.from_data_list([]) is not modelled: the harness passes 1..4 members) *)

(** * torch -> its *)

(* _default_node_feature_trans_torch2its: atomic_num2sym[int(x[0])] *)
Definition node_feature_torch2its (xi : list Z) : res string :=
  match xi with
  | [] => Err IndexError
  | z :: _ => match alookup z atomic_num2sym with Some s => Ok s | None => Err KeyError end
  end.

(* bond=tuple(eattr.tolist()) *)
Definition label_of_attr (f : list Z) : res label :=
  match f with
  | [g; h] => Ok (Pair g h)
  | _ => Err Unmodelled
  end.

(* _build_its. The two asserts: edge_index.size(0) == 2 fails exactly for the empty
   1-d tensor; edge_attrs.size(0) == edge_index.size(1) (AttributeError if edge_attr is None). *)
Definition build_its (syms : list string) (ei : list (Z * Z)) (oea : option (list (list Z))) : res graph :=
  match ei with
  | [] => Err AssertionError
  | _ :: _ =>
      match oea with
      | None => Err AttributeError
      | Some ea =>
          if negb (Nat.eqb (List.length ea) (List.length ei)) then Err AssertionError
          else
            bind (mapM label_of_attr ea) (fun labels =>
            let g0 := fold_left (fun g '(i, s) => add_node g i (na_sym s)) (enumerate syms) empty_graph in
            Ok (fold_left (fun g '((u, v), l) => add_edge g u v l) (combine ei labels) g0))
      end
  end.

(* _its_from_torch_data *)
Definition its_from_torch_data (t : tdata) : res graph :=
  bind (mapM node_feature_torch2its (t_x t)) (fun syms => build_its syms (t_ei t) (t_ea t)).

(* the body of the loop over batch_indices in _its_from_torch_databatch; [off] is
   node_idx_offset *)
Fixpoint databatch_loop (x : list (list Z)) (ei : list (Z * Z)) (oea : option (list (list Z))) (batch : list Z)
                        (bidx : list Z) (off : Z) : res (list graph) :=
  match bidx with
  | [] => Ok []
  | b :: r =>
      let node_indices := nonzero_eq b batch in
      (* squeeze() of a single index is 0-d: "iteration over a 0-d tensor" *)
      if Nat.eqb (List.length node_indices) 1 then Err TypeError else
      bind (mapM (fun i => bind (nth_res x i) node_feature_torch2its) node_indices) (fun syms =>
      match oea with
      | None => Err TypeError    (* zip(..., None) *)
      | Some ea =>
          let cols := filter (fun c : (Z * Z) * list Z => zmem (fst (fst c)) node_indices) (combine ei ea) in
          bind (build_its syms (map (fun c : (Z * Z) * list Z => shift (- off) (fst c)) cols)
                          (Some (map snd cols))) (fun g =>
          match zmaximum node_indices with
          | None => Err RuntimeError
          | Some m => bind (databatch_loop x ei oea batch r (m + 1)) (fun gs => Ok (g :: gs))
          end)
      end)
  end.

(* _its_from_torch_databatch *)
Definition its_from_torch_databatch (t : tdata) (batch : list Z) : res (list graph) :=
  match zmaximum batch with
  | None => Err RuntimeError
  | Some m =>
      let batch_indices := unique_sorted batch in
      if negb (Z.of_nat (List.length batch_indices) =? m + 1) then Err AssertionError
      else databatch_loop (t_x t) (t_ei t) (t_ea t) batch batch_indices 0
  end.

Inductive its_out := One (g : graph) | Many (gs : list graph).

(* its_from_torch *)
Definition its_from_torch (t : tdata) : res its_out :=
  match t_batch t with
  | Some b => bind (its_from_torch_databatch t b) (fun gs => Ok (Many gs))
  | None => bind (its_from_torch_data t) (fun g => Ok (One g))
  end.

Definition its_out_eqb (a b : its_out) : bool :=
  match a, b with
  | One g, One h => graph_eqb g h
  | Many gs, Many hs => list_eqb graph_eqb gs hs
  | _, _ => false
  end.

(** * fgutils/torch/graph.py *)

Definition any_negative (l : list Z) : bool := existsb (fun n => n <? 0) l.

Definition map_get (m : list (Z * Z)) (u : Z) : Z := match alookup u m with Some i => i | None => -1 end.

(* node_induced_subgraph(graph, nodes) *)
Definition node_induced_subgraph (t : tdata) (ns : list Z) : res tdata :=
  if any_negative ns then Err Unmodelled else
  let node_map := zdict_of (combine ns (znats (List.length ns))) in
  let sel := filter (fun c : Z * (Z * Z) => zmem (fst (snd c)) ns && zmem (snd (snd c)) ns)
                    (enumerate (t_ei t)) in
  let new_ei := map (fun c : Z * (Z * Z) => (map_get node_map (fst (snd c)), map_get node_map (snd (snd c)))) sel in
  bind (match ns with [] => Err IndexError (* float index tensor *) | _ => mapM (nth_res (t_x t)) ns end) (fun new_x =>
  match t_ea t with
  | None => Ok (mkT new_x new_ei None None)
  | Some ea =>
      match sel with
      | [] => Err IndexError     (* indexing with the float tensor torch.tensor([]) *)
      | _ => bind (mapM (fun c : Z * (Z * Z) => nth_res ea (fst c)) sel) (fun new_ea =>
             Ok (mkT new_x new_ei (Some new_ea) None))
      end
  end).

(* edge_induced_subgraph(graph, edges): [es] are column numbers of edge_index *)
Definition edge_induced_subgraph (t : tdata) (es : list Z) : res tdata :=
  if any_negative es then Err Unmodelled else
  match es with
  | [] => Err IndexError       (* torch.tensor([]) is a float tensor *)
  | _ =>
      bind (mapM (nth_res (t_ei t)) es) (fun cols =>
      let sel := unique_sorted (flat_map (fun p : Z * Z => [fst p; snd p]) cols) in
      let node_map := zdict_of (combine sel (znats (List.length sel))) in
      let new_ei := map (fun p : Z * Z => (map_get node_map (fst p), map_get node_map (snd p))) cols in
      if any_negative sel then Err Unmodelled else
      bind (mapM (nth_res (t_x t)) sel) (fun new_x =>
      match t_ea t with
      | None => Ok (mkT new_x new_ei None None)
      | Some ea => bind (mapM (nth_res ea) es) (fun new_ea => Ok (mkT new_x new_ei (Some new_ea) None))
      end))
  end.

(** * get_adjacency_matrix / prune *)

Definition matrix := list (list Z).

Definition arc_mem (u v : Z) (ei : list (Z * Z)) : bool :=
  existsb (fun p => (fst p =? u) && (snd p =? v)) ei.

Definition mget (m : matrix) (i j : nat) : Z := nth j (nth i m []) 0.

(* sum_{w < n} f w *)
Fixpoint sumf (f : nat -> Z) (n : nat) : Z :=
  match n with O => 0 | S k => sumf f k + f k end.

Definition eye (n : nat) : matrix :=
  map (fun i => map (fun j => if Nat.eqb i j then 1 else 0) (seq 0 n)) (seq 0 n).

(* torch.matmul(D, A) for an (r x n) and an (n x n) matrix *)
Definition matmul (n : nat) (d a : matrix) : matrix :=
  map (fun row => map (fun j => sumf (fun w => nth w row 0 * mget a w j) n) (seq 0 n)) d.

Fixpoint vadd (a b : list Z) : list Z :=
  match a, b with
  | x :: a', y :: b' => (x + y) :: vadd a' b'
  | _, _ => []
  end.
Fixpoint madd (a b : matrix) : matrix :=
  match a, b with
  | x :: a', y :: b' => vadd x y :: madd a' b'
  | _, _ => []
  end.

Definition index_ok (n : nat) (i : Z) : res unit :=
  if i <? 0 then Err Unmodelled else if i <? Z.of_nat n then Ok tt else Err IndexError.

(* A = zeros((n, n)); A[edges[0, :], edges[1, :]] = 1 *)
Definition get_adjacency_matrix (t : tdata) : res matrix :=
  let n := List.length (t_x t) in
  bind (mapM (fun p : Z * Z => bind (index_ok n (fst p)) (fun _ => index_ok n (snd p))) (t_ei t)) (fun _ =>
  Ok (map (fun i => map (fun j => if arc_mem (Z.of_nat i) (Z.of_nat j) (t_ei t) then 1 else 0) (seq 0 n)) (seq 0 n))).

(* for _ in range(radius): D = D @ A; D_sum += D *)
Fixpoint power_sum (n : nat) (a : matrix) (k : nat) (d dsum : matrix) : matrix :=
  match k with
  | O => dsum
  | S k' => let d' := matmul n d a in power_sum n a k' d' (madd dsum d')
  end.

(* D_sum[start_nodes].sum(axis=0) *)
Definition center_paths (n : nat) (dsum : matrix) (start : list Z) : list Z :=
  map (fun v => fold_right Z.add 0 (map (fun s => mget dsum (Z.to_nat s) v) start)) (seq 0 n).

(* torch.where(center_paths > 0)[0] *)
Definition positive_positions (cp : list Z) : list Z :=
  map fst (filter (fun p => 0 <? snd p) (enumerate cp)).

Definition reachable_nodes (t : tdata) (start : list Z) (radius : Z) : res (list Z) :=
  let n := List.length (t_x t) in
  bind (get_adjacency_matrix t) (fun a =>
  let dsum := power_sum n a (Z.to_nat radius) (eye n) (eye n) in
  bind (mapM (index_ok n) start) (fun _ =>
  Ok (positive_positions (center_paths n dsum start)))).

(* prune(sample, start_nodes, radius); y and id are passed through unchanged and not modelled.
   The edge loop runs over zip(edge_index columns, edge_attr rows). *)
Definition prune (t : tdata) (start : list Z) (radius : Z) : res tdata :=
  bind (reachable_nodes t start radius) (fun reach =>
  let node_map := zdict_of (combine reach (znats (List.length reach))) in
  let keep := fun p : Z * Z => zmem (fst p) reach && zmem (snd p) reach in
  let renum := fun p : Z * Z => (map_get node_map (fst p), map_get node_map (snd p)) in
  match t_ea t with
  | None =>
      bind (mapM (nth_res (t_x t)) reach) (fun new_x =>
      Ok (mkT new_x (map renum (filter keep (t_ei t))) None None))
  | Some ea =>
      let cols := filter (fun c : (Z * Z) * list Z => keep (fst c)) (combine (t_ei t) ea) in
      bind (mapM (nth_res (t_x t)) reach) (fun new_x =>
      Ok (mkT new_x (map (fun c : (Z * Z) * list Z => renum (fst c)) cols) (Some (map snd cols)) None))
  end).

Definition matrix_eqb (a b : matrix) : bool := list_eqb zrow_eqb a b.

(* prune_rc(sample, radius):
     rc_edge_idx = (sample.edge_attr[:, 0] != sample.edge_attr[:, 1]).nonzero().squeeze()
     rc_node_idx = sample.edge_index[0, rc_edge_idx].unique()
     return prune(sample, rc_node_idx, radius=radius)
   Modelled for samples that carry >= 1 edge column with two-column edge attributes (anything else raises
   NotImplementedError / AttributeError before any work: Unmodelled). *)
Definition rc_col (c : (Z * Z) * list Z) : bool := negb (nth 0 (snd c) 0 =? nth 1 (snd c) 0).

Definition rc_start_nodes (t : tdata) : res (list Z) :=
  match t_ea t with
  | Some ((_ :: _) as ea) =>
      if forallb (fun r : list Z => Nat.eqb (List.length r) 2) ea && Nat.eqb (List.length ea) (List.length (t_ei t))
      then Ok (unique_sorted (map (fun c : (Z * Z) * list Z => fst (fst c)) (filter rc_col (combine (t_ei t) ea))))
      else Err Unmodelled
  | _ => Err Unmodelled
  end.

Definition prune_rc (t : tdata) (radius : Z) : res tdata :=
  bind (rc_start_nodes t) (fun st => prune t st radius).

