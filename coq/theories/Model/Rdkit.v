(** Model of fgutils.rdkit.{_get_rdkit_atom_sym, graph_to_mol, mol_to_graph} and of the part of
    RDKit's RWMol they use. Definitions only.

    RDKit itself is not modelled; an RWMol is the abstract record [rwmol]:
      atoms : (symbol reported by GetSymbol, atom-map number; 0 = unset), in index order
      bonds : (begin index, end index, bond-type name), in insertion order
    AddAtom appends and returns the new index, SetAtomMapNum overwrites the number of one atom,
    AddBond appends and raises on a self bond or on a pair that is already bonded, GetAtoms and
    GetBonds iterate in insertion order. Chem.Atom(symbol) is a function argument
    [ca : string -> option string] (None = RDKit raises, Some s = the symbol GetSymbol reports);
    the theorems hold for every such function, the case files use the table [chem_atom].
    This view is an oracle assumption: the harness compares it with the real molecule on every run. *)
From Coq Require Import ZArith List Bool String.
From FGV Require Import Base.Util Base.Bond Base.NX Gen.RdkitMaps.
Import ListNotations.
Local Open Scope string_scope.
Open Scope Z_scope.

(** * Python exceptions as values *)

Inductive pyerr := KeyError | ValueError | TypeError | RuntimeError | OverflowError.

Inductive res (A : Type) : Type :=
| Ok (a : A)
| Err (e : pyerr).
Arguments Ok {A} a.
Arguments Err {A} e.

Definition bind {A B} (r : res A) (f : A -> res B) : res B :=
  match r with Ok a => f a | Err e => Err e end.

Definition pyerr_eqb (a b : pyerr) : bool :=
  match a, b with
  | KeyError, KeyError | ValueError, ValueError | TypeError, TypeError
  | RuntimeError, RuntimeError | OverflowError, OverflowError => true
  | _, _ => false
  end.

Definition res_eqb {A} (eqb : A -> A -> bool) (x y : res A) : bool :=
  match x, y with
  | Ok a, Ok b => eqb a b
  | Err e, Err f => pyerr_eqb e f
  | _, _ => false
  end.

(** * string-keyed dict lookup *)

Fixpoint slookup {A} (k : string) (l : list (string * A)) : option A :=
  match l with
  | [] => None
  | (k', a) :: t => if String.eqb k k' then Some a else slookup k t
  end.

(** * the three tables, as functions of the table so that the reference tables of the
      specification can be plugged into the same lookups *)

(* sym_map.get(symbol, symbol) *)
Definition norm_with (tbl : list (string * string)) (s : string) : string :=
  match slookup s tbl with Some x => x | None => s end.

(* bond_order_map[d[BOND_KEY]] in graph_to_mol: the key is hashed, so a tuple or a float that
   is not a key raises KeyError and a list raises TypeError (unhashable) *)
Definition to_type_with (tbl : list (Z * string)) (l : label) : res string :=
  match l with
  | Scalar o => match alookup o tbl with Some t => Ok t | None => Err KeyError end
  | Pair _ _ => Err KeyError
  | LPair _ _ => Err TypeError
  end.

(* edge_attributes = {BOND_KEY: 1}; if bond_type in bond_order_map.keys(): ... *)
Definition to_order_with (tbl : list (string * Z)) (dflt : Z) (t : string) : Z :=
  match slookup t tbl with Some o => o | None => dflt end.

Definition norm : string -> string := norm_with sym_map.
Definition to_type : label -> res string := to_type_with g2m_bond_map.
Definition to_order : string -> Z := to_order_with m2g_bond_map default_bond.

(** * the RWMol view *)

Record rwmol := mkMol {
  m_atoms : list (string * Z);
  m_bonds : list (Z * Z * string)
}.

Definition empty_mol : rwmol := mkMol [] [].

(* idx = rw_mol.AddAtom(atom) *)
Definition add_atom (m : rwmol) (sym : string) : rwmol * Z :=
  (mkMol (m_atoms m ++ [(sym, 0)]) (m_bonds m), Z.of_nat (List.length (m_atoms m))).

Fixpoint set_nth_map (l : list (string * Z)) (i : nat) (k : Z) : list (string * Z) :=
  match l, i with
  | [], _ => []
  | (s, _) :: t, O => (s, k) :: t
  | x :: t, S i' => x :: set_nth_map t i' k
  end.

(* rw_mol.GetAtomWithIdx(idx).SetAtomMapNum(k) *)
Definition set_map_num (m : rwmol) (idx k : Z) : rwmol :=
  mkMol (set_nth_map (m_atoms m) (Z.to_nat idx) k) (m_bonds m).

Definition bonded (m : rwmol) (i j : Z) : bool :=
  existsb (fun '(b, e, _) => ((b =? i) && (e =? j)) || ((b =? j) && (e =? i))) (m_bonds m).

(* rw_mol.AddBond(i, j, t): RDKit raises RuntimeError ("attempt to add self-bond",
   "bond already exists") *)
Definition add_bond (m : rwmol) (i j : Z) (t : string) : res rwmol :=
  if i =? j then Err RuntimeError
  else if bonded m i j then Err RuntimeError
  else Ok (mkMol (m_atoms m) (m_bonds m ++ [(i, j, t)])).

(* SetAtomMapNum takes a C int *)
Definition int_max : Z := 2147483647.

(** * graph_to_mol *)

Definition is_true (o : option bool) : bool := match o with Some true => true | _ => false end.

(* one round of   for n, d in g.nodes(data=True):   on the state (rw_mol, idx_map) *)
Definition node_step (ca : string -> option string) (ignore_aam : bool)
           (st : rwmol * list (Z * Z)) (n : Z) (d : nattr) : res (rwmol * list (Z * Z)) :=
  let '(m, idx_map) := st in
  match a_sym d with
  | None => Err KeyError                                   (* d[SYMBOL_KEY] *)
  | Some s =>
      let atom_symbol := norm s in
      if is_true (a_islab d) then
        match a_labels d with
        | None => Err KeyError                             (* ",".join(d[LABELS_KEY]) *)
        | Some _ => Err ValueError                         (* "Graph contains labeled nodes" *)
        end
      else
        match ca atom_symbol with
        | None => Err RuntimeError                         (* Chem.rdchem.Atom(atom_symbol) *)
        | Some sym =>
            let '(m1, idx) := add_atom m sym in
            let idx_map1 := aset n idx idx_map in
            match (if ignore_aam then None else a_aam d) with
            | Some k =>
                if 0 <=? k then
                  if k <=? int_max then Ok (set_map_num m1 idx k, idx_map1)
                  else Err OverflowError
                else Ok (m1, idx_map1)
            | None => Ok (m1, idx_map1)
            end
        end
  end.

Fixpoint node_loop (ca : string -> option string) (ignore_aam : bool)
         (st : rwmol * list (Z * Z)) (l : list (Z * nattr)) : res (rwmol * list (Z * Z)) :=
  match l with
  | [] => Ok st
  | (n, d) :: t => bind (node_step ca ignore_aam st n d) (fun st' => node_loop ca ignore_aam st' t)
  end.

(* one round of   for n1, n2, d in g.edges(data=True): *)
Definition edge_step (idx_map : list (Z * Z)) (m : rwmol) (e : Z * Z * label) : res rwmol :=
  let '(n1, n2, l) := e in
  match alookup n1 idx_map with
  | None => Err KeyError
  | Some idx1 =>
      match alookup n2 idx_map with
      | None => Err KeyError
      | Some idx2 => bind (to_type l) (fun t => add_bond m idx1 idx2 t)
      end
  end.

Fixpoint edge_loop (idx_map : list (Z * Z)) (m : rwmol) (l : list (Z * Z * label)) : res rwmol :=
  match l with
  | [] => Ok m
  | e :: t => bind (edge_step idx_map m e) (fun m' => edge_loop idx_map m' t)
  end.

Definition graph_to_mol (ca : string -> option string) (g : graph) (ignore_aam : bool) : res rwmol :=
  bind (node_loop ca ignore_aam (empty_mol, []) (nodes_data g))
       (fun '(m, idx_map) => edge_loop idx_map m (edges g)).

(** * mol_to_graph *)

Definition enumerate {A} (l : list A) : list (Z * A) :=
  combine (map Z.of_nat (seq 0 (List.length l))) l.

Definition atom_attr (sym : string) (mapnum : Z) : nattr :=
  mkNA (Some sym) (if 0 <? mapnum then Some mapnum else None) None None None.

Definition mol_to_graph (m : rwmol) : graph :=
  let g1 := fold_left (fun g '(idx, (sym, mapnum)) => add_node g idx (atom_attr sym mapnum))
                      (enumerate (m_atoms m)) empty_graph in
  fold_left (fun g '(b, e, t) => add_edge g b e (Scalar (to_order t))) (m_bonds m) g1.

(** * the round trip  mol_to_graph(graph_to_mol(g, ignore_aam)) *)

Definition bridge (ca : string -> option string) (g : graph) (ignore_aam : bool) : res graph :=
  bind (graph_to_mol ca g ignore_aam) (fun m => Ok (mol_to_graph m)).

(** * Chem.Atom: the symbols RDKit's periodic table knows (atomic numbers 0..118) and the two
      aliases it still accepts. Oracle table, compared with RDKit by the harness on every run. *)

Definition elements : list string :=
  ["*"; "H"; "He"; "Li"; "Be"; "B"; "C"; "N"; "O"; "F"; "Ne"; "Na"; "Mg"; "Al"; "Si"; "P"; "S";
   "Cl"; "Ar"; "K"; "Ca"; "Sc"; "Ti"; "V"; "Cr"; "Mn"; "Fe"; "Co"; "Ni"; "Cu"; "Zn"; "Ga";
   "Ge"; "As"; "Se"; "Br"; "Kr"; "Rb"; "Sr"; "Y"; "Zr"; "Nb"; "Mo"; "Tc"; "Ru"; "Rh"; "Pd";
   "Ag"; "Cd"; "In"; "Sn"; "Sb"; "Te"; "I"; "Xe"; "Cs"; "Ba"; "La"; "Ce"; "Pr"; "Nd"; "Pm";
   "Sm"; "Eu"; "Gd"; "Tb"; "Dy"; "Ho"; "Er"; "Tm"; "Yb"; "Lu"; "Hf"; "Ta"; "W"; "Re"; "Os";
   "Ir"; "Pt"; "Au"; "Hg"; "Tl"; "Pb"; "Bi"; "Po"; "At"; "Rn"; "Fr"; "Ra"; "Ac"; "Th"; "Pa";
   "U"; "Np"; "Pu"; "Am"; "Cm"; "Bk"; "Cf"; "Es"; "Fm"; "Md"; "No"; "Lr"; "Rf"; "Db"; "Sg";
   "Bh"; "Hs"; "Mt"; "Ds"; "Rg"; "Cn"; "Nh"; "Fl"; "Mc"; "Lv"; "Ts"; "Og"].

Definition element_aliases : list (string * string) := [("Uut", "Nh"); ("Uup", "Mc")].

Definition chem_atom (s : string) : option string :=
  if existsb (String.eqb s) elements then Some s else slookup s element_aliases.

(** * executable equalities for the case files *)

Definition rwmol_eqb (a b : rwmol) : bool :=
  list_eqb (fun x y => String.eqb (fst x) (fst y) && (snd x =? snd y)) (m_atoms a) (m_atoms b)
  && list_eqb (fun x y => (fst (fst x) =? fst (fst y)) && (snd (fst x) =? snd (fst y))
                          && String.eqb (snd x) (snd y)) (m_bonds a) (m_bonds b).
