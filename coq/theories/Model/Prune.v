(** Model of fgutils.its.get_rc, fgutils.utils.get_unreachable_nodes and
    fgutils.its.prune_its_to_rc (ITS.prune is prune_its_to_rc on the wrapped graph).
    Statement by statement on Base/NX.v graphs. Definitions only.

    Matrices are lists of rows over Z (mathematical integers: numpy's int64 wrap-around is
    not modelled, see ASSUMPTIONS of harness/props/c11.py). *)
From Coq Require Import ZArith List Bool String.
From FGV Require Import Base.Util Base.Bond Base.NX Model.Matrix.
Import ListNotations.
Open Scope Z_scope.

(** Python exceptions that the three functions can raise on the modelled domain *)
Inductive err := TypeError | KeyError | NetworkXError | ValueError.
Inductive res (A : Type) := Ok (a : A) | Err (e : err).
Arguments Ok {A} a.
Arguments Err {A} e.

Definition err_eqb (a b : err) : bool :=
  match a, b with
  | TypeError, TypeError | KeyError, KeyError | NetworkXError, NetworkXError
  | ValueError, ValueError => true
  | _, _ => false
  end.

Definition res_eqb {A} (eqb : A -> A -> bool) (x y : res A) : bool :=
  match x, y with
  | Ok a, Ok b => eqb a b
  | Err e, Err f => err_eqb e f
  | _, _ => false
  end.

(** * get_rc *)

(* edge_label[0] != edge_label[1]; None = 'int' object is not subscriptable *)
Definition lab_differs (l : label) : option bool :=
  match l with
  | Scalar _ => None
  | Pair g h | LPair g h => Some (negb (g =? h))
  end.

(* for n1, n2, d in ITS.edges(data=True): ...   (rc is the graph built so far) *)
Fixpoint rc_loop (its : graph) (es : list (Z * Z * label)) (rc : graph) : res graph :=
  match es with
  | [] => Ok rc
  | (n1, n2, l) :: t =>
      match lab_differs l with
      | None => Err TypeError
      | Some false => rc_loop its t rc
      | Some true =>
          (* ITS.nodes[n1][SYMBOL_KEY] : KeyError when the node carries no symbol *)
          match sym_of its n1 with
          | None => Err KeyError
          | Some s1 =>
              let rc1 := add_node rc n1 (na_sym s1) in
              match sym_of its n2 with
              | None => Err KeyError
              | Some s2 =>
                  let rc2 := add_node rc1 n2 (na_sym s2) in
                  rc_loop its t (add_edge rc2 n1 n2 l)
              end
          end
      end
  end.

Definition get_rc (its : graph) : res graph := rc_loop its (edges its) empty_graph.

(** * get_unreachable_nodes *)

(* nx.adjacency_matrix(g, nodelist=N, weight=None).toarray() *)
Definition adj_matrix (g : graph) (N : list Z) : matrix :=
  map (fun u => map (fun v => if has_edge g u v then 1 else 0) N) N.

Definition get_unreachable_nodes (g : graph) (start : list Z) (radius : nat) : res (list Z) :=
  let N := zsort (nodes g) in
  match N with
  | [] => Err NetworkXError       (* nx.adjacency_matrix: "Graph has no nodes or edges" *)
  | _ :: _ =>
      let n := List.length N in
      let A := adj_matrix g N in
      let Dsum := iter_sum radius A (ident n) (ident n) in
      match select_rows start N Dsum with
      | None => Err KeyError
      | Some rows =>
          (* .sum(axis=0): an empty selection sums to the zero vector *)
          let center_paths := fold_left vec_add rows (zero_vec n) in
          Ok (map fst (filter (fun p => snd p =? 0) (combine N center_paths)))
      end
  end.

(** * prune_its_to_rc *)

(* for v in its.neighbors(u): if v not in unreachable_nodes: add H; new_node_id += 1 *)
Fixpoint hyd_loop (unr : list Z) (vs : list Z) (p : graph) (nid : Z) : graph * Z :=
  match vs with
  | [] => (p, nid)
  | v :: t =>
      if zmem v unr then hyd_loop unr t p nid
      else hyd_loop unr t (add_edge (add_node p nid (na_sym "H"%string)) nid v (Pair 2 2)) (nid + 1)
  end.

(* for u in unreachable_nodes: [hydrogens]; its_pruned.remove_node(u) *)
Fixpoint prune_loop (its : graph) (ih : bool) (unr : list Z) (us : list Z) (p : graph) (nid : Z)
  : graph :=
  match us with
  | [] => p
  | u :: t =>
      let '(p1, nid1) := if ih then hyd_loop unr (neighbors its u) p nid else (p, nid) in
      prune_loop its ih unr t (remove_node p1 u) nid1
  end.

Definition prune_its_to_rc (its : graph) (radius : nat) (insert_hydrogens : bool) : res graph :=
  match get_rc its with
  | Err e => Err e
  | Ok rc =>
      match get_unreachable_nodes its (nodes rc) radius with
      | Err e => Err e
      | Ok unr =>
          let its_pruned := copy its in
          match nodes its with
          | [] => Err ValueError        (* max() of an empty sequence *)
          | x :: t =>
              let new_node_id := zmax_list x t + 1 in
              Ok (prune_loop its insert_hydrogens unr unr its_pruned new_node_id)
          end
      end
  end.
