(** The interface of the graph class behind Parser.graph (networkx.Graph or
    networkx.MultiGraph): the five operations the parser uses. Definitions only. *)
From Coq Require Import ZArith List Bool String.
From FGV Require Import Base.Util Base.Bond Base.NX Model.NXMulti.
Import ListNotations.
Open Scope Z_scope.

(* the graph class behind self.graph *)
Record gops (G : Type) := mkOps {
  g_empty : G;
  g_add_node : G -> Z -> nattr -> G;
  g_add_edge : G -> Z -> Z -> label -> option G;     (* None = fuel of MultiGraph.new_edge_key *)
  g_nnodes : G -> Z;                                 (* number_of_nodes() *)
  g_sym : G -> Z -> option string                    (* nodes[n]["symbol"]; None = KeyError *)
}.
Arguments g_empty {G}. Arguments g_add_node {G}. Arguments g_add_edge {G}.
Arguments g_nnodes {G}. Arguments g_sym {G}.

Definition simple_ops : gops graph :=
  mkOps graph empty_graph add_node (fun g u v l => Some (add_edge g u v l)) number_of_nodes sym_of.

Definition msym_of (g : mgraph) (n : Z) : option string :=
  match mnode_attr g n with Some a => a_sym a | None => None end.
Definition multi_ops : gops mgraph :=
  mkOps mgraph mempty madd_node madd_edge mnumber_of_nodes msym_of.

