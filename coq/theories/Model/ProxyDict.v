(** Model of the JSON-style construction paths of fgutils.proxy:
    ProxyGroup.from_dict_single, ProxyGroup.from_dict, Proxy.from_dict (= Proxy( **config) after the
    groups have been converted), normalising the accepted dict forms to the [config] record of
    Model/ProxyGen.v. Definitions only; the isinstance cascades are mirrored one by one, with the
    exceptions the construction raises.

    The pattern parser is not part of this model: [P] is whatever stands for a pattern in the
    configuration (the pattern string in the correspondence check) and [parse] turns it into the
    MultiGraph the proxy's parser returns at offset 0. *)
From Coq Require Import ZArith List Bool String.
From FGV Require Import Base.Util Base.Bond Base.NX Base.NXMulti Model.ProxyGen.
Import ListNotations.
Open Scope Z_scope.

Inductive jerr :=
| JTypeError        (* ProxyGraph( **x) with x not a mapping / without "pattern"; iterating a non-iterable *)
| JNoPattern        (* ValueError("Missing config 'pattern'.") : "pattern": null *)
| JNoGraphs         (* ValueError("Group '..' has no graphs.") *)
| JAttributeError   (* group_config.get on a value that is neither str, list nor dict *)
| JIndexError.      (* Proxy.groups setter on an empty dict: list(value.values())[0] *)

Inductive jres (A : Type) :=
| JOk (a : A)
| JErr (e : jerr).
Arguments JOk {A} a.
Arguments JErr {A} e.

Section Dict.
Variable P : Type.
Variable parse : P -> mgraph.

(* one graph description *)
Inductive jgraph :=
| JGStr (p : P)                          (* "<pattern>" *)
| JGDict (pattern : option (option P))   (* {"pattern": .., "anchor": .., <any_key>: ..}; None = key absent, *)
         (anchor : option (list Z))      (*   Some None = null; anchor absent = the default [0] *)
         (extra : list string)           (*   names of further keys: "name" and graph properties *)
| JGOther.                               (* any other value *)

(* the value under "graphs" *)
Inductive jgraphs :=
| JSOne (g : jgraph)                     (* a bare string or dict (or another non-list value) *)
| JSList (l : list jgraph).

(* the value under a group name *)
Inductive jgroup :=
| JCStr (p : P)                          (* "group": "<pattern>" *)
| JCList (l : list jgraph)               (* "group": [ ... ] *)
| JCDict (graphs : option jgraphs)       (* "group": {"graphs": ...}; None = no "graphs" key *)
| JCOther.

(* "core": <pattern> | [<pattern>, ...] *)
Inductive jcore :=
| JKStr (p : P)
| JKList (l : list P).

(* if isinstance(graph_config, str): graph_config = {"pattern": graph_config}
   graphs.append(ProxyGraph( **graph_config)) *)
Definition graph_of (g : jgraph) : jres pgraph :=
  match g with
  | JGStr p => JOk (mkPG (parse p) [0])
  | JGDict None _ _ => JErr JTypeError
  | JGDict (Some None) _ _ => JErr JNoPattern
  | JGDict (Some (Some p)) anchor _ => JOk (mkPG (parse p) (match anchor with Some a => a | None => [0] end))
  | JGOther => JErr JTypeError
  end.

(* for graph_config in graph_configs: ...   (the first exception leaves the loop) *)
Fixpoint graphs_of (l : list jgraph) : jres (list pgraph) :=
  match l with
  | [] => JOk []
  | g :: t =>
      match graph_of g with
      | JErr e => JErr e
      | JOk pg => match graphs_of t with JErr e => JErr e | JOk r => JOk (pg :: r) end
      end
  end.

(* ProxyGroup.from_dict_single(name, config):
     graph_configs = config.get("graphs", [])
     if isinstance(graph_configs, str): graph_configs = [graph_configs]
     if isinstance(graph_configs, dict): graph_configs = [graph_configs]
     ... return ProxyGroup(name, graphs)          (ValueError when graphs is empty) *)
Definition from_dict_single (name : string) (graphs : option jgraphs) : jres pgroup :=
  let graph_configs := match graphs with
                       | None => []
                       | Some (JSOne JGOther) => [JGOther]     (* iterating it raises TypeError *)
                       | Some (JSOne g) => [g]
                       | Some (JSList l) => l
                       end in
  match graphs_of graph_configs with
  | JErr e => JErr e
  | JOk [] => JErr JNoGraphs
  | JOk gl => JOk (mkGrp name gl)
  end.

(* ProxyGroup.from_dict(config): for name, group_config in config.items():
     if isinstance(group_config, str): group_config = [group_config]
     if isinstance(group_config, list): group_config = {"graphs": group_config}
     groups[name] = ProxyGroup.from_dict_single(name, group_config) *)
Definition group_of (name : string) (gc : jgroup) : jres pgroup :=
  match gc with
  | JCStr p => from_dict_single name (Some (JSList [JGStr p]))
  | JCList l => from_dict_single name (Some (JSList l))
  | JCDict graphs => from_dict_single name graphs
  | JCOther => JErr JAttributeError
  end.

Fixpoint from_dict (l : list (string * jgroup)) : jres groups :=
  match l with
  | [] => JOk []
  | (name, gc) :: t =>
      match group_of name gc with
      | JErr e => JErr e
      | JOk grp => match from_dict t with JErr e => JErr e | JOk r => JOk ((name, grp) :: r) end
      end
  end.

(* Proxy.from_dict(config): config["groups"] = ProxyGroup.from_dict(config["groups"]); Proxy( **config)
   Proxy.__init__: self.core = ProxyGroup("__core__", core, unique=True)   (strings -> ProxyGraph(s))
                   self.groups = groups    (dict: isinstance(list(value.values())[0], ProxyGroup))
   enable_aam absent = True *)
Definition proxy_from_dict (core : jcore) (gl : list (string * jgroup)) (enable_aam : option bool) : jres config :=
  match from_dict gl with
  | JErr e => JErr e
  | JOk gs =>
      let cores := match core with JKStr p => [p] | JKList l => l end in
      match cores with
      | [] => JErr JNoGraphs
      | _ =>
          match gs with
          | [] => JErr JIndexError
          | _ => JOk (mkCfg (map (fun p => mkPG (parse p) [0]) cores) gs
                            (match enable_aam with Some b => b | None => true end))
          end
      end
  end.

(** the canonical dict form of a configuration written with patterns of type P:
    every group as {"graphs": [{"pattern": p, "anchor": a}, ...]}, the core as a list *)
Definition canon_group (graphs : list (P * list Z)) : jgroup :=
  JCDict (Some (JSList (map (fun pa => JGDict (Some (Some (fst pa))) (Some (snd pa)) []) graphs))).
Definition canon_groups (gl : list (string * list (P * list Z))) : list (string * jgroup) :=
  map (fun kg => (fst kg, canon_group (snd kg))) gl.
(* the configuration it denotes *)
Definition denote_groups (gl : list (string * list (P * list Z))) : groups :=
  map (fun kg => (fst kg, mkGrp (fst kg) (map (fun pa => mkPG (parse (fst pa)) (snd pa)) (snd kg)))) gl.

End Dict.

Arguments JGStr {P} p.
Arguments JGDict {P} pattern anchor extra.
Arguments JGOther {P}.
Arguments JSOne {P} g.
Arguments JSList {P} l.
Arguments JCStr {P} p.
Arguments JCList {P} l.
Arguments JCDict {P} graphs.
Arguments JCOther {P}.
Arguments JKStr {P} p.
Arguments JKList {P} l.

(** * executable comparison, used by generated case files *)

(* patterns are written as strings in the case files; the table maps each to its parsed MultiGraph *)
Fixpoint jparse (tbl : list (string * mgraph)) (p : string) : mgraph :=
  match tbl with
  | [] => []
  | (k, g) :: t => if String.eqb p k then g else jparse t p
  end.

Definition pgraph_eqb (a b : pgraph) : bool :=
  mgraph_eqb (pg_graph a) (pg_graph b) && list_eqb Z.eqb (pg_anchor a) (pg_anchor b).
Definition pgroup_eqb (a b : pgroup) : bool :=
  String.eqb (gr_name a) (gr_name b) && list_eqb pgraph_eqb (gr_graphs a) (gr_graphs b).
Definition cfg_eqb (a b : config) : bool :=
  list_eqb pgraph_eqb (cfg_core a) (cfg_core b)
  && list_eqb (fun x y => String.eqb (fst x) (fst y) && pgroup_eqb (snd x) (snd y)) (cfg_groups a) (cfg_groups b)
  && Bool.eqb (cfg_aam a) (cfg_aam b).

Definition jerr_eqb (a b : jerr) : bool :=
  match a, b with
  | JTypeError, JTypeError | JNoPattern, JNoPattern | JNoGraphs, JNoGraphs
  | JAttributeError, JAttributeError | JIndexError, JIndexError => true
  | _, _ => false
  end.

(* the proxy built from the dict holds the configuration [cfg] (what the harness dumps from the live
   object) and enumerates what the implementation yielded *)
Definition dict_agree (r : jres config) (cfg : config) (out : list graph * gstatus) : bool :=
  match r with
  | JOk c => cfg_eqb c cfg && gen_eqb (proxy_all c) out
  | JErr _ => false
  end.
Definition dict_err_agree (r : jres config) (e : jerr) : bool :=
  match r with
  | JOk _ => false
  | JErr e' => jerr_eqb e' e
  end.
(* the same for a ReactionProxy built over groups that come from a dict *)
Definition rdict_agree (r : jres config) (cfg : config) (out : list (graph * graph) * gstatus) : bool :=
  match r with
  | JOk c => cfg_eqb c cfg && rgen_eqb (reaction_all c) out
  | JErr _ => false
  end.
