(** The default configuration of FGConfigProvider / FGQuery, assembled from the generated
    data (Gen/FGDefault.v, regenerated from fgutils/fgconfig.py on every run) by the model of
    FGConfig.__init__.  Definitions only. *)
From Coq Require Import ZArith List Bool String.
From FGV Require Import Base.Util Base.Bond Base.NX Model.Permute Model.FGTree Gen.FGDefault.
Import ListNotations.
Open Scope Z_scope.

(* for fgc in config: self.config_list.append(FGConfig(name=.., pattern=.., ...)) *)
Fixpoint zip_configs (raw : list (string * string * option (list Z) * list string))
                     (gs : list (graph * list graph)) : list fgconfig :=
  match raw, gs with
  | (name, pattern_str, group_atoms, _) :: rt, (p, antis) :: gt =>
      fgconfig_init name pattern_str p group_atoms antis None default_len_exclude :: zip_configs rt gt
  | _, _ => []
  end.

Definition default_configs : list fgconfig := zip_configs default_raw default_graphs.

(* PermutationMapper(wildcard="R", ignore_case=True) *)
Definition default_mapper : mapper := mk_mapper (Some default_wildcard) default_ignore_case [].
