(** Model of fgutils.utils.add_implicit_hydrogens, statement by statement. Definitions only.
    The constants (valence_dict, exclusion list, cap and factor of the count formula) come
    from Gen/Tables.v, which is regenerated from the Python source on every run.
    Result: [None] = the Python raises (TypeError from sum() over a tuple/list bond label, or
    ValueError from max() of an empty node view -- the latter is proved unreachable). *)
From Coq Require Import ZArith List Bool String.
From FGV Require Import Base.Util Base.StrMap Base.Bond Base.NX Gen.Tables.
Import ListNotations.
Open Scope Z_scope.

(** * valence_table *)

(* valence_table = {}
   for v, elmts in valence_dict.items():
       for elmt in elmts:
           valence_table[elmt] = v *)
Definition build_valence_table (d : list (Z * list string)) : list (string * Z) :=
  fold_left (fun tbl '(v, elmts) => fold_left (fun tbl' elmt => sset elmt v tbl') elmts tbl) d [].

Definition valence_table : list (string * Z) := build_valence_table valence_dict.

(** * the candidate list *)

(* n_sym not in [...]  where n_sym may be None (node without "symbol"): None is in no list of strings *)
Definition sym_excluded (s : option string) : bool :=
  match s with Some x => smem x h_excluded | None => false end.

(* nodes = [(n_id, n_sym) for n_id, n_sym in graph.nodes(data=SYMBOL_KEY) if n_sym not in ["R", "H"]] *)
Definition candidates (g : graph) : list (Z * option string) :=
  filter (fun c => negb (sym_excluded (snd c))) (map (fun '(n, (a, _)) => (n, a_sym a)) g).

(** * one iteration of the main loop *)

(* sum([b for _, _, b in graph.edges(n_id, data=BOND_KEY)]) over the adjacency of n_id, in half
   units; 0 + tuple / 0 + list raises TypeError. (graph.edges(n) reports each entry of
   graph._adj[n] once, a self-loop included.) *)
Fixpoint sum_half (ad : adjl) : option Z :=
  match ad with
  | [] => Some 0
  | (_, Scalar o) :: t => match sum_half t with Some s => Some (o + s) | None => None end
  | _ :: _ => None
  end.

(* int(np.min([8, 2 * valence]) - valence - bond_cnt); everything doubled to stay integral,
   int() truncates toward zero = Z.quot *)
Definition h_count (valence bond_half : Z) : Z :=
  Z.quot (2 * (Z.min h_cap (h_factor * valence) - valence) - bond_half) 2.

(* max(graph.nodes); ValueError on an empty graph *)
Definition max_node (g : graph) : option Z :=
  match nodes g with [] => None | x :: t => Some (zmax_list x t) end.

(* for h_id in range(next_id, next_id + h_cnt):
       graph.add_node(h_id, symbol="H"); graph.add_edge(n_id, h_id, bond=1)
   [cnt] = number of iterations of the range *)
Fixpoint add_hs (g : graph) (n_id h_id : Z) (cnt : nat) : graph :=
  match cnt with
  | O => g
  | S c => add_hs (add_edge (add_node g h_id (na_sym "H")) n_id h_id (Scalar 2)) n_id (h_id + 1) c
  end.

Definition step (g : graph) (c : Z * option string) : option graph :=
  let '(n_id, n_sym) := c in
  match n_sym with
  | None => Some g                                   (* None not in valence_table.keys(): continue *)
  | Some sym =>
      match slookup sym valence_table with
      | None => Some g                               (* continue *)
      | Some valence =>
          match sum_half (adj g n_id) with
          | None => None                             (* TypeError *)
          | Some bond_cnt =>
              let h_cnt := h_count valence bond_cnt in
              match max_node g with
              | None => None                         (* ValueError *)
              | Some m => Some (add_hs g n_id (m + 1) (Z.to_nat h_cnt))
              end
          end
      end
  end.

Fixpoint main_loop (g : graph) (cs : list (Z * option string)) : option graph :=
  match cs with
  | [] => Some g
  | c :: t => match step g c with Some g' => main_loop g' t | None => None end
  end.

(* the function mutates its argument and returns it *)
Definition add_implicit_hydrogens (g : graph) : option graph := main_loop g (candidates g).
