(** Integer matrices as lists of rows, with exactly the numpy operations that
    fgutils.utils.get_unreachable_nodes (and the torch variant) use, plus sorting of
    node ids. Entries are mathematical integers. Definitions only. *)
From Coq Require Import ZArith List Bool.
Import ListNotations.
Open Scope Z_scope.

(* sorted(g.nodes) *)
Fixpoint zinsert (x : Z) (l : list Z) : list Z :=
  match l with
  | [] => [x]
  | y :: t => if x <=? y then x :: l else y :: zinsert x t
  end.
Definition zsort (l : list Z) : list Z := fold_right zinsert [] l.

(* node_idx[n]  (node_idx = {n: i for i, n in enumerate(nodes)}; nodes has no repetition) *)
Fixpoint index_of (s : Z) (N : list Z) : option nat :=
  match N with
  | [] => None
  | x :: t => if s =? x then Some O else option_map S (index_of s t)
  end.

Definition matrix := list (list Z).

Fixpoint vec_add (x y : list Z) : list Z :=
  match x, y with
  | a :: x', b :: y' => (a + b) :: vec_add x' y'
  | _, _ => []
  end.
Definition vec_scale (c : Z) (x : list Z) : list Z := map (Z.mul c) x.
Definition zero_vec (n : nat) : list Z := repeat 0 n.

(* row vector times matrix:  sum_k d[k] * A[k]  (n = number of columns of A) *)
Fixpoint row_mul (n : nat) (d : list Z) (A : matrix) : list Z :=
  match d, A with
  | c :: d', a :: A' => vec_add (vec_scale c a) (row_mul n d' A')
  | _, _ => zero_vec n
  end.

Definition width (A : matrix) : nat := match A with [] => O | a :: _ => List.length a end.

(* np.matmul(D, A) *)
Definition mat_mul (D A : matrix) : matrix := map (fun d => row_mul (width A) d A) D.

(* D_sum += D *)
Fixpoint mat_add (X Y : matrix) : matrix :=
  match X, Y with
  | x :: X', y :: Y' => vec_add x y :: mat_add X' Y'
  | _, _ => []
  end.

(* np.identity(n) *)
Fixpoint ident (n : nat) : matrix :=
  match n with
  | O => []
  | S m => (1 :: zero_vec m) :: map (cons 0) (ident m)
  end.

(* for _ in range(radius): D = D @ A; D_sum += D *)
Fixpoint iter_sum (r : nat) (A D Dsum : matrix) : matrix :=
  match r with
  | O => Dsum
  | S r' => let D' := mat_mul D A in iter_sum r' A D' (mat_add Dsum D')
  end.

(* D_sum[[node_idx[n] for n in start_nodes]] : None = KeyError *)
Fixpoint select_rows (S : list Z) (N : list Z) (M : matrix) : option (list (list Z)) :=
  match S with
  | [] => Some []
  | s :: t =>
      match index_of s N with
      | None => None
      | Some i =>
          match select_rows t N M with
          | None => None
          | Some rows => Some (nth i M [] :: rows)
          end
      end
  end.
