(** Model of fgutils.proxy above replace_node: GraphSampler, ProxyGroup.sample_graphs,
    _is_group_node, _get_next_group_node, replace_next_node, build_graphs, Proxy.__generate
    (as the LIST of everything the generator yields, plus how it ends) and ReactionProxy.get_next.
    Definitions only. One Gallina function per Python function, statement by statement.

    What is data here: the pattern parser is not modelled. A ProxyGraph reaches the model as
    (the MultiGraph the real Parser(use_multigraph=True) returns for its pattern at idx_offset 0,
    its anchor list). [parser.parse(pattern, idx_offset=m)] is modelled as [mshift m] of that graph
    (every node id, in every dict, + m; all dict orders and edge keys unchanged); the harness checks
    this equation on every pattern it uses.

    Samplers: groups use the default GraphSampler(unique=False) (all graphs, every time); the core
    group uses GraphSampler(unique=True) (one not yet returned graph per call, then None). Custom
    samplers are outside the model.

    Every node the parser creates carries "is_labeled" and "labels". A node without them can still
    arise (an anchor index beyond the pattern makes add_edge create a bare node): reading the
    missing key raises KeyError, modelled as GKey. *)
From Coq Require Import ZArith List Bool String.
From FGV Require Import Base.Util Base.Bond Base.NX Base.NXMulti Model.Aam Model.Proxy Model.Its.
Import ListNotations.
Open Scope Z_scope.

(** * configuration *)

(* ProxyGraph(pattern, anchor): pattern parsed at offset 0, anchor *)
Record pgraph := mkPG { pg_graph : mgraph; pg_anchor : list Z }.
(* ProxyGroup(name, graphs) with the default sampler *)
Record pgroup := mkGrp { gr_name : string; gr_graphs : list pgraph }.
(* Proxy.__groups : dict[str, ProxyGroup]  (keys are unique in a dict: first match = the entry) *)
Definition groups := list (string * pgroup).
(* Proxy(core, groups, enable_aam): core = the graphs of the core group *)
Record config := mkCfg { cfg_core : list pgraph; cfg_groups : groups; cfg_aam : bool }.

Fixpoint glookup (name : string) (gs : groups) : option pgroup :=
  match gs with
  | [] => None
  | (k, grp) :: t => if String.eqb name k then Some grp else glookup name t
  end.

(* lbl in groups.keys() *)
Definition in_groups (gs : groups) (name : string) : bool := is_some (glookup name gs).

(** * the parser at an index offset (assumption, validated by the harness) *)
Definition mshift (m : Z) (g : mgraph) : mgraph :=
  map (fun '(n, (a, ad)) => (n + m, (a, map (fun '(v, kd) => (v + m, kd)) ad))) g.

(** * errors and results *)
Inductive gerr :=
| GMulti            (* RuntimeError("Multiple group labels found on node") *)
| GName             (* ValueError("Dictionary key does not match group name") *)
| GKey              (* KeyError: a node without "is_labeled" / "labels" is inspected *)
| GRepl (e : perr)  (* an exception of replace_node (Model/Proxy.v) *)
| GFuel.            (* the working-set loop ran out of fuel: the real loop does not terminate *)

Inductive gres (A : Type) :=
| GOk (a : A)
| GErr (e : gerr).
Arguments GOk {A} a.
Arguments GErr {A} e.

(* how the generator ends: StopIteration after the last graph, or an exception leaves it *)
Inductive gstatus :=
| GDone
| GFail (e : gerr).

(** * GraphSampler *)

(* GraphSampler(unique=False).sample(graphs): return graphs *)
Definition sample_all (graphs : list pgraph) : option (list pgraph) := Some graphs.

(* GraphSampler(unique=True).sample(graphs): for g in graphs: if g not in self.__hist:
   self.__hist.append(g); return [g]  ...  return None.
   ProxyGraph has no __eq__: "in" compares object identity. The graph objects of a list are
   pairwise distinct objects (assumption), so the history is a prefix of the list and is
   represented by its length. *)
Definition sample_unique (hist : nat) (graphs : list pgraph) : option (list pgraph) * nat :=
  match nth_error graphs hist with
  | Some g => (Some [g], S hist)
  | None => (None, hist)
  end.

(** * _is_group_node, _get_next_group_node *)

Definition node_labels (a : nattr) : list string :=
  match a_labels a with Some l => l | None => [] end.

(* d[IS_LABELED_KEY] and any([lbl in groups.keys() for lbl in d[LABELS_KEY]])
   None = KeyError (the right operand is only evaluated when is_labeled is true) *)
Definition group_attr_e (gs : groups) (a : nattr) : option bool :=
  match a_islab a with
  | None => None
  | Some false => Some false
  | Some true =>
      match a_labels a with
      | None => None
      | Some ls => Some (existsb (in_groups gs) ls)
      end
  end.

(* the same as a total test (used by the specification): a node that raises is not a group node *)
Definition is_group_attr (gs : groups) (a : nattr) : bool :=
  match group_attr_e gs a with Some b => b | None => false end.

(* d = g.nodes[idx]; return ... *)
Definition is_group_node (gs : groups) (g : mgraph) (idx : Z) : option bool :=
  match mnode_attr g idx with
  | Some a => group_attr_e gs a
  | None => None   (* KeyError on g.nodes[idx]: idx comes from g.nodes, not reachable *)
  end.

(* for anchor, d in g.nodes(data=True): if _is_group_node(g, anchor, groups): return anchor
   return None *)
Fixpoint next_group_node (gs : groups) (g : mgraph) (l : mgraph) : gres (option Z) :=
  match l with
  | [] => GOk None
  | e :: t =>
      match is_group_node gs g (fst e) with
      | None => GErr GKey
      | Some true => GOk (Some (fst e))
      | Some false => next_group_node gs g t
      end
  end.
Definition get_next_group_node (gs : groups) (g : mgraph) : gres (option Z) := next_group_node gs g g.

(** * replace_next_node *)

(* result_graphs = []; for sub_graph in sub_graphs: _graph = graph.copy();
   _graph = replace_node(_graph, anchor, sub_graph, parser); result_graphs.append(_graph)
   with replace_node's own first statements
     idx_offset = len(graph.nodes); h = parser.parse(pattern, idx_offset=idx_offset) *)
Fixpoint replace_each (g : mgraph) (anchor : Z) (subs : list pgraph) : gres (list mgraph) :=
  match subs with
  | [] => GOk []
  | sg :: t =>
      let _graph := mcopy g in
      let h := mshift (mnumber_of_nodes _graph) (pg_graph sg) in
      match replace_node_multi _graph anchor h (pg_anchor sg) with
      | PErr e => GErr (GRepl e)
      | POk g' =>
          match replace_each g anchor t with
          | GErr e => GErr e
          | GOk r => GOk (g' :: r)
          end
      end
  end.

Definition replace_next_node (gs : groups) (g : mgraph) : gres (option (list mgraph)) :=
  match get_next_group_node gs g with
  | GErr e => GErr e
  | GOk None => GOk None
  | GOk (Some anchor) =>
      let anchor_labels := match mnode_attr g anchor with Some a => node_labels a | None => [] end in
      let group_labels := filter (in_groups gs) anchor_labels in
      match group_labels with
      | [group_name] =>
          match glookup group_name gs with
          | None => GErr GMulti   (* not reachable: group_name passed the filter *)
          | Some grp =>
              if negb (String.eqb (gr_name grp) group_name) then GErr GName else
              match sample_all (gr_graphs grp) with
              | None => GOk (Some [])   (* not reachable with the default sampler *)
              | Some sub_graphs =>
                  match replace_each g anchor sub_graphs with
                  | GErr e => GErr e
                  | GOk r => GOk (Some r)
                  end
              end
          end
      | _ => GErr GMulti
      end
  end.

(** * build_graphs *)

(* one pass of  for ws_graph in working_set:  returns (graphs appended to result_set,
   the new _working_set), both in order *)
Fixpoint build_round (gs : groups) (ws : list mgraph) : gres (list mgraph * list mgraph) :=
  match ws with
  | [] => GOk ([], [])
  | g :: t =>
      match replace_next_node gs g with
      | GErr e => GErr e
      | GOk r =>
          match build_round gs t with
          | GErr e => GErr e
          | GOk (res, nws) =>
              match r with
              | None => GOk (g :: res, nws)
              | Some l => GOk (res, l ++ nws)
              end
          end
      end
  end.

(* while len(working_set) > 0: ...   fuel = number of passes allowed *)
Fixpoint build_loop (fuel : nat) (gs : groups) (ws rs : list mgraph) : gres (list mgraph) :=
  match ws with
  | [] => GOk rs
  | _ :: _ =>
      match fuel with
      | O => GErr GFuel
      | S f =>
          match build_round gs ws with
          | GErr e => GErr e
          | GOk (res, nws) => build_loop f gs nws (rs ++ res)
          end
      end
  end.

(* the fuel: an upper bound on the number of substitutions along one path of the choice tree,
   computed from the configuration.  gweight d name = 1 + the largest weight of a graph of that
   group, the weight of a graph = sum of gweight (d-1) over its group nodes. For an acyclic
   configuration a depth d > number of groups never reaches 0 at a group node (proved in
   Proofs/ProxyGenProofs.v: the fuel suffices); for a cyclic configuration the Python loop does
   not terminate and the model answers GErr GFuel. *)
(* the group a group node is expanded with: group_labels[0] *)
Definition node_group (gs : groups) (a : nattr) : option string :=
  if is_group_attr gs a then hd_error (filter (in_groups gs) (node_labels a)) else None.

Definition pweight (gw : string -> nat) (gs : groups) (g : mgraph) : nat :=
  fold_right (fun e acc =>
                (match node_group gs (fst (snd e)) with Some nm => gw nm | None => O end + acc)%nat) O g.

Fixpoint gweight (d : nat) (gs : groups) (nm : string) : nat :=
  match d with
  | O => O
  | S d' =>
      match glookup nm gs with
      | None => O
      | Some grp => S (list_max (map (fun sg => pweight (gweight d' gs) gs (pg_graph sg)) (gr_graphs grp)))
      end
  end.

Definition build_fuel (gs : groups) (g : mgraph) : nat :=
  S (pweight (gweight (S (List.length gs)) gs) gs g).

(* result_set = []; working_set = [parser(core.pattern)]; while ...; return result_set *)
Definition build_graphs (gs : groups) (core : pgraph) : gres (list mgraph) :=
  build_loop (build_fuel gs (pg_graph core)) gs [pg_graph core] [].

(** * Proxy.__generate *)

(* for n in graph.nodes: graph.nodes[n][AAM_KEY] = n + 1 *)
Definition set_aam_all (g : mgraph) : mgraph :=
  map (fun '(n, (a, ad)) => (n, (set_aam a (n + 1), ad))) g.

(* if self.enable_aam: ...; if isinstance(graph, nx.MultiGraph): graph = nx.Graph(graph) *)
Definition finish (aam : bool) (g : mgraph) : graph :=
  to_simple (if aam then set_aam_all g else g).

(* for core_graph in core_graphs: graphs = build_graphs(...); for graph in graphs: ...; yield graph
   returns what is yielded and whether the loop ended normally *)
Fixpoint gen_for (cfg : config) (core_graphs : list pgraph) : list graph * gstatus :=
  match core_graphs with
  | [] => ([], GDone)
  | c :: t =>
      match build_graphs (cfg_groups cfg) c with
      | GErr e => ([], GFail e)
      | GOk graphs =>
          let '(ys, st) := gen_for cfg t in (map (finish (cfg_aam cfg)) graphs ++ ys, st)
      end
  end.

(* core_graphs = self.core.sample_graphs()
   while core_graphs is not None: <for ...>; core_graphs = self.core.sample_graphs() *)
Fixpoint generate_loop (fuel : nat) (cfg : config) (hist : nat) : list graph * gstatus :=
  match fuel with
  | O => ([], GFail GFuel)
  | S f =>
      match sample_unique hist (cfg_core cfg) with
      | (None, _) => ([], GDone)
      | (Some core_graphs, hist') =>
          match gen_for cfg core_graphs with
          | (ys, GDone) => let '(zs, st) := generate_loop f cfg hist' in (ys ++ zs, st)
          | (ys, st) => (ys, st)
          end
      end
  end.

(* everything  [g for g in Proxy(core, groups, enable_aam)]  yields, in order, and how iteration ends
   (each call of the sampler returns one more core graph: one more pass than core graphs) *)
Definition proxy_all (cfg : config) : list graph * gstatus :=
  generate_loop (S (List.length (cfg_core cfg))) cfg 0.

(** * ReactionProxy.get_next = split_its(super().get_next()) *)
Definition reaction_all (cfg : config) : list (graph * graph) * gstatus :=
  let '(l, st) := proxy_all cfg in (map split_its l, st).

(** * executable comparison, used by generated case files *)
Definition gerr_eqb (a b : gerr) : bool :=
  match a, b with
  | GMulti, GMulti | GName, GName | GFuel, GFuel | GKey, GKey => true
  | GRepl e, GRepl f => perr_eqb e f
  | _, _ => false
  end.
Definition gstatus_eqb (a b : gstatus) : bool :=
  match a, b with
  | GDone, GDone => true
  | GFail e, GFail f => gerr_eqb e f
  | _, _ => false
  end.
Definition gen_eqb (x y : list graph * gstatus) : bool :=
  list_eqb graph_eqb (fst x) (fst y) && gstatus_eqb (snd x) (snd y).
Definition rgen_eqb (x y : list (graph * graph) * gstatus) : bool :=
  list_eqb (fun a b => graph_eqb (fst a) (fst b) && graph_eqb (snd a) (snd b)) (fst x) (fst y)
  && gstatus_eqb (snd x) (snd y).
(* comparison of a slice  results[i : i+k]  (sharded evaluation of long enumerations) *)
Definition gen_slice_eqb (x : list graph * gstatus) (i k : nat) (total : nat) (slice : list graph) : bool :=
  gstatus_eqb (snd x) GDone && Nat.eqb (List.length (fst x)) total
  && list_eqb graph_eqb (firstn k (skipn i (fst x))) slice.
Definition pair_eqb (a b : graph * graph) : bool := graph_eqb (fst a) (fst b) && graph_eqb (snd a) (snd b).
(* slices / picks of reaction_all, splitting only the selected graphs:
   firstn k (skipn i (map split_its l)) = map split_its (firstn k (skipn i l)), likewise for pick *)
Definition rgen_slice_eqb (x : list graph * gstatus) (i k : nat) (total : nat)
                          (slice : list (graph * graph)) : bool :=
  gstatus_eqb (snd x) GDone && Nat.eqb (List.length (fst x)) total
  && list_eqb pair_eqb (map split_its (firstn k (skipn i (fst x)))) slice.
(* comparison at a list of (increasing) indices *)
Fixpoint pick {A} (l : list A) (pos : nat) (idx : list nat) : list (option A) :=
  match idx with
  | [] => []
  | i :: t =>
      match skipn (i - pos) l with
      | [] => None :: pick [] i t
      | a :: r => Some a :: pick (a :: r) i t
      end
  end.
Definition rgen_pick_eqb (x : list graph * gstatus) (idx : list nat) (total : nat)
                         (picked : list (graph * graph)) : bool :=
  gstatus_eqb (snd x) GDone && Nat.eqb (List.length (fst x)) total
  && list_eqb (option_eqb pair_eqb) (map (option_map split_its) (pick (fst x) 0 idx)) (map Some picked).
