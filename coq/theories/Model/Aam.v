(** Model of fgutils.utils.initialize_aam / complete_aam (and ITS.__init__,
    which is complete_aam(graph, offset="min")). Definitions only. *)
From Coq Require Import ZArith List Bool String.
From FGV Require Import Base.Util Base.Bond Base.NX.
Import ListNotations.
Open Scope Z_scope.

Inductive offset := OffNone | OffInt (z : Z) | OffMin.

Definition set_aam (a : nattr) (k : Z) : nattr :=
  mkNA (a_sym a) (Some k) (a_labels a) (a_islab a) (a_idxmap a).

(* mappings = [d[AAM_KEY] for _, d in graph.nodes(data=True) if AAM_KEY in d] *)
Definition existing_maps (g : graph) : list Z :=
  flat_map (fun '(_, (a, _)) => match a_aam a with Some k => [k] | None => [] end) g.

Definition start_of (off : offset) (m : list Z) : Z :=
  match off with
  | OffNone => 1
  | OffInt z => z
  | OffMin => match m with [] => 1 | x :: t => zmin_list x t end
  end.

(* while next_mapping in mappings: next_mapping += 1     (None = out of fuel) *)
Fixpoint next_free (fuel : nat) (next : Z) (m : list Z) : option Z :=
  match fuel with
  | O => None
  | S f => if zmem next m then next_free f (next + 1) m else Some next
  end.

(* the for-loop over graph.nodes(data=True); attribute dicts are updated in place *)
Fixpoint complete_loop (g : graph) (next : Z) (m : list Z) : option graph :=
  match g with
  | [] => Some []
  | (n, (a, ad)) :: t =>
      match a_aam a with
      | Some _ => option_map (cons (n, (a, ad))) (complete_loop t next m)
      | None =>
          match next_free (S (List.length m)) next m with
          | None => None
          | Some k => option_map (cons (n, (set_aam a k, ad))) (complete_loop t k (m ++ [k]))
          end
      end
  end.

Definition complete_aam (g : graph) (off : offset) : option graph :=
  let m := existing_maps g in complete_loop g (start_of off m) m.

(* initialize_aam: None = RuntimeError (a node already carries a map number).
   The loop raises at the first mapped node; nodes before it were already written,
   but the exception is the observable result. *)
Definition initialize_aam (g : graph) (off : Z) : option graph :=
  if forallb (fun '(_, (a, _)) => negb (is_some (a_aam a))) g
  then Some (map (fun '(n, (a, ad)) => (n, (set_aam a (n + off), ad))) g)
  else None.
