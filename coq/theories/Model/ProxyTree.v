(** Model of fgutils.proxy.build_group_tree(core, groups, parser) (definitions only).
    The tree is an nx.Graph whose nodes are the strings "{group.name}_#{len(tree.nodes)}"; it is
    represented by its node list with the adjacency list of every node, both in dict order
    (tree._adj). _add_node recurses through EVERY label of every labelled node of every graph of a
    group: groups[k] raises KeyError for a label that is not a group name. A cyclic group graph makes
    the Python recursion overflow; the model runs out of fuel (TFuel). The parser is not modelled:
    the groups carry the parsed patterns (labels and is_labeled do not depend on the graph class). *)
From Coq Require Import ZArith List Bool String DecimalString Arith.
From FGV Require Import Base.Util Base.Bond Base.NX Base.NXMulti Model.ProxyGen.
Import ListNotations.
Open Scope string_scope.

Definition string_of_nat (n : nat) : string := NilEmpty.string_of_uint (Nat.to_uint n).

(* "{}_#{}".format(group.name, len(tree.nodes)) *)
Definition node_name (name : string) (idx : nat) : string := name ++ "_#" ++ string_of_nat idx.

(* for g in group.graphs: for _, d in parser(g.pattern).nodes(data=True): if d["is_labeled"]: for k in d["labels"] *)
Definition tree_refs (grp : pgroup) : list string :=
  flat_map (fun sg => flat_map (fun e => match a_islab (fst (snd e)) with
                                         | Some true => node_labels (fst (snd e))
                                         | _ => []
                                         end) (pg_graph sg)) (gr_graphs grp).

(* group_dict = {}; for g in groups: group_dict[g.name] = g      (a later group of the same name wins) *)
Fixpoint tlookup (k : string) (gl : list pgroup) : option pgroup :=
  match gl with
  | [] => None
  | g :: t => match tlookup k t with
              | Some g' => Some g'
              | None => if String.eqb k (gr_name g) then Some g else None
              end
  end.

Inductive terr :=
| TKeyError (k : string)     (* groups[k] for a label that names no group *)
| TFuel.                     (* RecursionError in Python: cyclic group references *)
Inductive tres (A : Type) :=
| TOk (a : A)
| TErr (e : terr).
Arguments TOk {A} a.
Arguments TErr {A} e.

Definition tentry := (string * list string)%type.

(* _add_node: returns the entries of the subtree in the order the nodes are added (pre-order) and the
   number of tree nodes afterwards. The adjacency list of a node: its children in order (each
   tree.add_edge(node_name, child) happens when the child's subtree is complete), then its parent. *)
Fixpoint add_node (fuel : nat) (gl : list pgroup) (grp : pgroup) (idx : nat) (parent : option string)
  : tres (list tentry * nat) :=
  match fuel with
  | O => TErr TFuel
  | S f =>
      let name := node_name (gr_name grp) idx in
      let r := fold_left
                 (fun st k =>
                    match st with
                    | TErr e => TErr e
                    | TOk (sub, kids, nxt) =>
                        match tlookup k gl with
                        | None => TErr (TKeyError k)
                        | Some g' =>
                            match add_node f gl g' nxt (Some name) with
                            | TErr e => TErr e
                            | TOk (es, nxt') => TOk ((sub ++ es)%list, (kids ++ [node_name (gr_name g') nxt])%list, nxt')
                            end
                        end
                    end)
                 (tree_refs grp) (TOk ([], [], S idx)) in
      match r with
      | TErr e => TErr e
      | TOk (sub, kids, nxt) =>
          TOk ((name, (kids ++ match parent with Some p => [p] | None => [] end)%list) :: sub, nxt)
      end
  end.

Definition tree_fuel (gl : list pgroup) : nat := S (S (List.length gl)).

(* build_group_tree(ProxyGroup(core_name, core graphs), list of the configured groups) *)
Definition group_tree (core_name : string) (cfg : config) : tres (list tentry) :=
  let gl := map snd (cfg_groups cfg) in
  match add_node (tree_fuel gl) gl (mkGrp core_name (cfg_core cfg)) 0 None with
  | TErr e => TErr e
  | TOk (es, _) => TOk es
  end.

(* leaves: nodes without children. The root has no parent entry; every other node has exactly one. *)
Definition tree_leaves (es : list tentry) : nat :=
  match es with
  | [] => O
  | (_, adj) :: t =>
      ((match adj with [] => 1 | _ => 0 end)
       + List.length (filter (fun e => Nat.eqb (List.length (snd e)) 1) t))%nat
  end.

(* what the tree counts: a group whose graphs carry no labels is one leaf (however many graphs it
   has); otherwise the leaves of the referenced groups ADD UP over all graphs, labelled nodes and labels *)
Fixpoint tleaves (d : nat) (gl : list pgroup) (grp : pgroup) : nat :=
  match d with
  | O => O
  | S d' =>
      match tree_refs grp with
      | [] => 1%nat
      | refs => list_sum (map (fun k => match tlookup k gl with Some g' => tleaves d' gl g' | None => O end) refs)
      end
  end.
Fixpoint tnodes (d : nat) (gl : list pgroup) (grp : pgroup) : nat :=
  match d with
  | O => O
  | S d' => S (list_sum (map (fun k => match tlookup k gl with Some g' => tnodes d' gl g' | None => O end)
                             (tree_refs grp)))
  end.

(** executable comparison, used by generated case files *)
Definition tentry_eqb (a b : tentry) : bool := String.eqb (fst a) (fst b) && list_eqb String.eqb (snd a) (snd b).
Definition tree_agree (r : tres (list tentry)) (expected : option (list tentry)) (key : string) : bool :=
  match r, expected with
  | TOk es, Some ex => list_eqb tentry_eqb es ex
  | TErr (TKeyError k), None => String.eqb k key
  | _, _ => false
  end.
