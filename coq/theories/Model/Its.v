(** Model of fgutils.its: get_its (with _add_its_nodes, _add_its_edges), split_its, ITS(graph).
    One Gallina function per Python function, statement by statement, on Base/NX.v graphs.
    Definitions only.

    Modelled domain: node ids and map numbers are integers; every node of G and H carries
    "symbol" (d[SYMBOL_KEY] would raise KeyError otherwise); every edge of G and H carries a
    scalar "bond" (a tuple there would simply be nested into the ITS label, which the
    first-order [label] type cannot hold): see [order_of]. *)
From Coq Require Import ZArith List Bool String.
From FGV Require Import Base.Util Base.Bond Base.NX Model.Aam.
Import ListNotations.
Open Scope Z_scope.

(** * the eta maps: collections.defaultdict(lambda: None) *)

(* d[k] on a defaultdict(lambda: None) whose key may itself be None. A miss returns None
   (and stores None under k, which later reads cannot distinguish from a miss). Keys written
   by get_its are always integers, so d[None] is None. *)
Definition dget (d : list (Z * Z)) (k : option Z) : option Z :=
  match k with Some k => alookup k d | None => None end.

(* one iteration of
     for n, d in G.nodes(data=True):
         if AAM_KEY in d.keys() and d[AAM_KEY] >= 0:
             eta[n] = d[AAM_KEY]; eta_inv[d[AAM_KEY]] = n
   a later node with the same map number overwrites eta_inv *)
Definition eta_step (acc : list (Z * Z) * list (Z * Z)) (e : Z * (nattr * adjl))
  : list (Z * Z) * list (Z * Z) :=
  let '(eta, inv) := acc in
  let '(n, (a, _)) := e in
  match a_aam a with
  | Some k => if 0 <=? k then (aset n k eta, aset k n inv) else acc
  | None => acc
  end.

Definition build_eta (g : graph) : list (Z * Z) * list (Z * Z) := fold_left eta_step g ([], []).

Record etas := mkEtas {
  eta_G : list (Z * Z); eta_G_inv : list (Z * Z);
  eta_H : list (Z * Z); eta_H_inv : list (Z * Z) }.

(** * _add_its_nodes *)

(* {SYMBOL_KEY: d[SYMBOL_KEY], IDX_MAP_KEY: (a, b), AAM_KEY: n_ITS} *)
Definition its_node_attr (sym : option string) (k : Z) (im : Z * Z) : nattr :=
  mkNA sym (Some k) None None (Some im).

(* for n, d in G.nodes(data=True): ... *)
Definition its_node_step_G (eta : etas) (its : graph) (e : Z * (nattr * adjl)) : graph :=
  let '(n, (a, _)) := e in
  let n_ITS := dget (eta_G eta) (Some n) in
  let n_H := dget (eta_H_inv eta) n_ITS in
  match n_ITS, n_H with
  | Some k, Some nH => add_node its k (its_node_attr (a_sym a) k (n, nH))
  | _, _ => its
  end.

(* for n, d in H.nodes(data=True): ... and n_ITS not in ITS.nodes *)
Definition its_node_step_H (eta : etas) (its : graph) (e : Z * (nattr * adjl)) : graph :=
  let '(n, (a, _)) := e in
  let n_ITS := dget (eta_H eta) (Some n) in
  let n_G := dget (eta_G_inv eta) n_ITS in
  match n_ITS, n_G with
  | Some k, Some nG =>
      if negb (has_node its k) then add_node its k (its_node_attr (a_sym a) k (nG, n)) else its
  | _, _ => its
  end.

Definition add_its_nodes (its G H : graph) (eta : etas) : graph :=
  fold_left (its_node_step_H eta) H (fold_left (its_node_step_G eta) G its).

(** * _add_its_edges *)

(* d[BOND_KEY] of a molecule edge: a scalar order (half units) on the modelled domain *)
Definition order_of (l : label) : Z := match l with Scalar o => o | _ => 0 end.

(* ITS.has_edge(u, v) where u or v may be None: None is never a node, the answer is False *)
Definition ohas_edge (g : graph) (u v : option Z) : bool :=
  match u, v with Some u, Some v => has_edge g u v | _, _ => false end.

(* k is not None and k > 0 *)
Definition opos (k : option Z) : bool := match k with Some k => 0 <? k | None => false end.

(* e = 0; if X.has_edge(a, b): e = X[a][b][BOND_KEY] *)
Definition order_in (x : graph) (a b : Z) : Z :=
  match edge_label x a b with Some l => order_of l | None => 0 end.

(* for n1, n2, d in G.edges(data=True): ... *)
Definition its_edge_step_G (eta : etas) (H : graph) (its : graph) (e : Z * Z * label) : graph :=
  let '(n1, n2, lb) := e in
  let e_G := order_of lb in
  let n_ITS1 := dget (eta_G eta) (Some n1) in
  let n_ITS2 := dget (eta_G eta) (Some n2) in
  let n_H1 := dget (eta_H_inv eta) n_ITS1 in
  let n_H2 := dget (eta_H_inv eta) n_ITS2 in
  match n_H1, n_H2 with
  | Some h1, Some h2 =>
      let e_H := order_in H h1 h2 in
      if negb (ohas_edge its n_ITS1 n_ITS2) && opos n_ITS1 && opos n_ITS2 then
        match n_ITS1, n_ITS2 with
        | Some k1, Some k2 => add_edge its k1 k2 (Pair e_G e_H)
        | _, _ => its   (* not reachable: opos holds *)
        end
      else its
  | _, _ => its   (* continue *)
  end.

(* for n1, n2, d in H.edges(data=True): ... *)
Definition its_edge_step_H (eta : etas) (G : graph) (its : graph) (e : Z * Z * label) : graph :=
  let '(n1, n2, lb) := e in
  let e_H := order_of lb in
  let n_ITS1 := dget (eta_H eta) (Some n1) in
  let n_ITS2 := dget (eta_H eta) (Some n2) in
  let n_G1 := dget (eta_G_inv eta) n_ITS1 in
  let n_G2 := dget (eta_G_inv eta) n_ITS2 in
  match n_G1, n_G2 with
  | Some g1, Some g2 =>
      (* n_G1 is not None implies n_ITS1 is not None, so the comparison n_ITS1 > 0 is defined *)
      if negb (has_edge G g1 g2) && opos n_ITS1 && opos n_ITS2 then
        match n_ITS1, n_ITS2 with
        | Some k1, Some k2 => add_edge its k1 k2 (Pair 0 e_H)
        | _, _ => its
        end
      else its
  | _, _ => its
  end.

Definition add_its_edges (its G H : graph) (eta : etas) : graph :=
  fold_left (its_edge_step_H eta G) (edges H) (fold_left (its_edge_step_G eta H) (edges G) its).

(** * get_its *)

Definition mk_etas (G H : graph) : etas :=
  let '(eg, egi) := build_eta G in
  let '(eh, ehi) := build_eta H in
  mkEtas eg egi eh ehi.

Definition get_its (G H : graph) : graph :=
  let eta := mk_etas G H in
  let its := empty_graph in
  let its := add_its_nodes its G H eta in
  add_its_edges its G H eta.

(** * split_its *)

(* def _set_rc_edge(g, u, v, b): if b == 0: g.remove_edge(u, v) else: g[u][v][BOND_KEY] = b
   The assignment writes into the attribute dict shared by both directions of an existing
   edge; add_edge on an existing edge does exactly that (position kept, both directions). *)
Definition set_rc_edge (g : graph) (u v b : Z) : graph :=
  if b =? 0 then remove_edge g u v else add_edge g u v (Scalar b).

(* one iteration of: for u, v, d in graph.edges(data=True):
     bond = d[BOND_KEY]
     if isinstance(bond, tuple) or isinstance(bond, list):
         _set_rc_edge(g, u, v, bond[0]); _set_rc_edge(h, u, v, bond[1]) *)
Definition split_step (acc : graph * graph) (e : Z * Z * label) : graph * graph :=
  let '(g, h) := acc in
  let '(u, v, lb) := e in
  match lb with
  | Scalar _ => (g, h)
  | Pair a b | LPair a b => (set_rc_edge g u v a, set_rc_edge h u v b)
  end.

Definition split_its (its : graph) : graph * graph :=
  let g := copy its in
  let h := copy its in
  fold_left split_step (edges its) (g, h).

(** * class ITS *)

(* ITS.__init__: complete_aam(graph, offset="min") in place *)
Definition ITS_init (g : graph) : option graph := complete_aam g OffMin.

(* ITS.from_smiles after RDKit has produced (g, h): cls(get_its(g, h)) *)
Definition ITS_from_graphs (G H : graph) : option graph := ITS_init (get_its G H).

(* ITS.split *)
Definition ITS_split (its : graph) : graph * graph := split_its its.
