(** Model of fgutils.synthesis.rule_application (and fgutils.its.split_its), statement by
    statement on the networkx model of Base/NX.v. Definitions only.

    External oracles (NOT modelled, supplied as inputs and validated by the harness):
    - networkx' VF2 [GraphMatcher(g, rule.l, ...).subgraph_monomorphisms_iter()]: the list
      [monos] of mappings exactly as VF2 yields them, each a dict g-node -> rule-node in dict order;
    - [nx.weisfeiler_lehman_graph_hash(its, ...)]: the list [wls] of digests, one per mapping
      (the digest networkx computes for the candidate ITS graph built from that mapping).

    Modelled domain: the bond attribute of every reactant edge is a number ([Scalar], half
    units); node ids are ints; [unique] is the object True or False. *)
From Coq Require Import ZArith List Bool String.
From FGV Require Import Base.Util Base.Bond Base.NX Model.Aam.
Import ListNotations.
Open Scope Z_scope.

(** * fgutils.its.split_its *)

(* g[u][v][BOND_KEY] = b for an existing edge (the attribute dict is shared by both
   directions; dict positions do not move). nx.set_edge_attributes has the same effect per
   entry and skips absent edges (KeyError -> pass). *)
Definition set_edge_label (g : graph) (u v : Z) (l : label) : graph :=
  if has_edge g u v then set_adj (set_adj g u v l) v u l else g.

(* def _set_rc_edge(g, u, v, b): if b == 0: g.remove_edge(u, v) else: g[u][v][BOND_KEY] = b *)
Definition set_rc_edge (g : graph) (u v b : Z) : graph :=
  if b =? 0 then remove_edge g u v else set_edge_label g u v (Scalar b).

Definition split_step (st : graph * graph) (e : Z * Z * label) : graph * graph :=
  let '(g, h) := st in
  let '(u, v, lb) := e in
  match lb with
  | Pair a b | LPair a b => (set_rc_edge g u v a, set_rc_edge h u v b)   (* isinstance tuple / list *)
  | Scalar _ => (g, h)
  end.

(* g = graph.copy(); h = graph.copy(); for u, v, d in graph.edges(data=True): ... *)
Definition split_its (its : graph) : graph * graph :=
  fold_left split_step (edges its) (copy its, copy its).

(** * class ReactionRule *)

Record rrule := mkRule { rc : graph; rl : graph; rr : graph }.

(* self.rc = rc_graph; self.l, self.r = split_its(rc_graph) *)
Definition reaction_rule (rcg : graph) : rrule :=
  let '(l, r) := split_its rcg in mkRule rcg l r.

(** * apply_rule: the ITS graph built for one mapping *)

Definition mapping := list (Z * Z).       (* g node -> rule node, dict order *)

(* a dict keyed by node pairs (u, v): update in place, append when absent *)
Definition pkey_eqb (a b : Z * Z) : bool := (fst a =? fst b) && (snd a =? snd b).
Fixpoint pset (k : Z * Z) (x : label) (d : list (Z * Z * label)) : list (Z * Z * label) :=
  match d with
  | [] => [(k, x)]
  | (k', x') :: t => if pkey_eqb k k' then (k, x) :: t else (k', x') :: pset k x t
  end.

(* the number stored in a bond attribute (modelled domain: scalars) *)
Definition ord (l : label) : Z := match l with Scalar o => o | _ => 0 end.

(* its2g_mapping = {v: k for k, v in g2its_mapping.items()} *)
Definition invert (m : mapping) : list (Z * Z) :=
  fold_left (fun acc '(k, v) => aset v k acc) m [].

(* first loop: for u, v, d in its.edges(data=True) *)
Definition attr_step (rule : rrule) (m : mapping) (attrs : list (Z * Z * label))
                     (e : Z * Z * label) : list (Z * Z * label) :=
  let '(u, v, d) := e in
  let g_its_nodes := map fst m in
  let h_bond :=
    if zmem u g_its_nodes && zmem v g_its_nodes then
      match alookup u m, alookup v m with
      | Some ur, Some vr =>
          match edge_label (rr rule) ur vr with
          | Some lr => lr                                  (* rule.r.has_edge(ur, vr) *)
          | None => if has_edge (rl rule) ur vr then Scalar 0 else d
          end
      | _, _ => d
      end
    else d in
  pset (u, v) (LPair (ord d) (ord h_bond)) attrs.

(* second loop: for ur, vr, d in rule.r.edges(data=True); None = KeyError in its2g_mapping[..] *)
Definition add_step (its2g : list (Z * Z)) (st : option (graph * list (Z * Z * label)))
                    (e : Z * Z * label) : option (graph * list (Z * Z * label)) :=
  match st with
  | None => None
  | Some (its, attrs) =>
      let '(ur, vr, d) := e in
      match alookup ur its2g, alookup vr its2g with
      | Some u, Some v =>
          match edge_label its u v with
          | Some lb => Some (its, pset (u, v) (LPair (ord lb) (ord d)) attrs)
          | None => Some (add_edge its u v (LPair 0 (ord d)), attrs)
          end
      | _, _ => None
      end
  end.

(* nx.set_edge_attributes(its, its_edge_attrs, BOND_KEY) *)
Definition set_edge_attributes (its : graph) (attrs : list (Z * Z * label)) : graph :=
  fold_left (fun acc '(u, v, l) => set_edge_label acc u v l) attrs its.

(* the body of the for loop up to (and including) nx.set_edge_attributes *)
Definition its_of (g : graph) (rule : rrule) (m : mapping) : option graph :=
  let its2g := invert m in
  let its := copy g in
  let attrs := fold_left (attr_step rule m) (edges its) [] in
  match fold_left (add_step its2g) (edges (rr rule)) (Some (its, attrs)) with
  | None => None
  | Some (its', attrs') => Some (set_edge_attributes its' attrs')
  end.

(** * nx.is_connected: None = NetworkXPointlessConcept (null graph).
    _plain_bfs from the first node; the level-by-level sweep is run once per node, which
    reaches every node at distance < number of nodes. *)
Definition expand (g : graph) (seen : list Z) : list Z :=
  fold_left (fun acc v =>
               fold_left (fun acc2 w => if zmem w acc2 then acc2 else acc2 ++ [w]) (neighbors g v) acc)
            seen seen.

Fixpoint sweep (k : nat) (g : graph) (seen : list Z) : list Z :=
  match k with O => seen | S k' => sweep k' g (expand g seen) end.

Definition is_connected (g : graph) : option bool :=
  match g with
  | [] => None
  | (s, _) :: _ => Some (Nat.eqb (List.length (sweep (List.length g) g [s])) (List.length g))
  end.

(** * apply_rule *)

Inductive key := KIdx (i : nat) | KWl (s : string).
Definition key_eqb (a b : key) : bool :=
  match a, b with
  | KIdx i, KIdx j => Nat.eqb i j
  | KWl s, KWl t => String.eqb s t
  | _, _ => false
  end.
Definition key_mem (k : key) (d : list (key * graph)) : bool := existsb (fun e => key_eqb k (fst e)) d.

Inductive ar_result :=
| AROk (l : list graph)     (* the .graph of each returned ITS object, in order *)
| ARKeyError                (* its2g_mapping[..] fails *)
| ARNullGraph               (* nx.is_connected on a graph without nodes *)
| ARFuel.                   (* complete_aam out of fuel: proved impossible *)

(* if n is not None and len(its_graphs) >= n *)
Definition limit_hit (n : option Z) (d : list (key * graph)) : bool :=
  match n with Some k => k <=? Z.of_nat (List.length d) | None => false end.

Fixpoint apply_loop (g : graph) (rule : rrule) (n : option Z) (unique connected_only : bool)
                    (cands : list (mapping * string)) (its_graphs : list (key * graph)) : ar_result :=
  match cands with
  | [] => AROk (map snd its_graphs)
  | (m, wl_hash) :: rest =>
      if limit_hit n its_graphs then AROk (map snd its_graphs)          (* break *)
      else
        match its_of g rule m with
        | None => ARKeyError
        | Some its =>
            let continue_ := apply_loop g rule n unique connected_only rest in
            let store (k : key) :=
              (* its_graphs[k] = ITS(its); ITS.__init__ = complete_aam(graph, offset="min") *)
              match complete_aam its OffMin with
              | Some its' => continue_ (its_graphs ++ [(k, its')])
              | None => ARFuel
              end in
            let body (_ : unit) :=
              if unique then
                if key_mem (KWl wl_hash) its_graphs then continue_ its_graphs
                else store (KWl wl_hash)
              else store (KIdx (List.length its_graphs)) in
            if connected_only then
              match is_connected its with
              | None => ARNullGraph
              | Some false => continue_ its_graphs                      (* continue *)
              | Some true => body tt
              end
            else body tt
        end
  end.

Definition apply_rule (g : graph) (rule : rrule) (monos : list mapping) (wls : list string)
                      (n : option Z) (unique connected_only : bool) : ar_result :=
  apply_loop g rule n unique connected_only (combine monos wls) [].

(** * DPORule.to_rc_graph *)

Record dpo_rule := mkDPO { d_id : string; d_left : graph; d_context : graph; d_right : graph }.

Inductive gml_err :=
| EIndex             (* lines.pop(0) / lines[0] on an empty list: IndexError *)
| EStart | ERuleId | ENodeOrEdge
| EGraphLeft | EGraphContext | EGraphRight
| EEndLine | EMoreLines
| EBondKey           (* _BOND_MAP[bond]: KeyError *)
| ENotInContext      (* ValueError "Node .. is not in context." *)
| ESymbolKey         (* d[SYMBOL_KEY] while formatting that message: KeyError *)
| EAssertContext     (* assert len(self.context.edges) == 0 *)
| ETypeError.        (* rc.edges[u, v][BOND_KEY][1] = .. on a label that is not a list *)

Inductive gres (A : Type) := GOk (a : A) | GErr (e : gml_err).
Arguments GOk {A} a.
Arguments GErr {A} e.

(* for n, d in self.left.nodes(data=True): if not rc.has_node(n): raise ValueError(.. d[SYMBOL_KEY]) *)
Fixpoint check_left_nodes (rcg : graph) (l : list (Z * nattr)) : option gml_err :=
  match l with
  | [] => None
  | (n, a) :: t =>
      if has_node rcg n then check_left_nodes rcg t
      else Some (match a_sym a with Some _ => ENotInContext | None => ESymbolKey end)
  end.

Definition right_step (st : gres graph) (e : Z * Z * label) : gres graph :=
  match st with
  | GErr x => GErr x
  | GOk rcg =>
      let '(u, v, d) := e in
      match edge_label rcg u v with
      | Some (LPair a _) => GOk (set_edge_label rcg u v (LPair a (ord d)))   (* [BOND_KEY][1] = d *)
      | Some _ => GErr ETypeError
      | None => GOk (add_edge rcg u v (LPair 0 (ord d)))
      end
  end.

Definition to_rc_graph (r : dpo_rule) : gres graph :=
  let rc0 := add_nodes_from empty_graph (nodes_data (d_context r)) in
  match edges (d_context r) with
  | _ :: _ => GErr EAssertContext
  | [] =>
      match check_left_nodes rc0 (nodes_data (d_left r)) with
      | Some e => GErr e
      | None =>
          let rc1 := fold_left (fun acc '(u, v, d) => add_edge acc u v (LPair (ord d) 0))
                               (edges (d_left r)) rc0 in
          fold_left right_step (edges (d_right r)) (GOk rc1)
      end
  end.

(** * parse_gml_dpo_rule over pre-lexed lines.
    One record per text line holding the answers of the six real classifier functions
    (_is_start, _match_id, _match_graph, _match_edge, _match_node, _is_end); the regular
    expressions themselves are outside the model. *)
Record lline := mkLine {
  l_start : bool;
  l_id : option string;
  l_graph : option string;
  l_edge : option (Z * Z * string);
  l_node : option (Z * string);
  l_end : bool
}.

(* while not _is_end(lines[0]): line = lines.pop(0); ...   then lines.pop(0) *)
Fixpoint graph_lines (lines : list lline) (nds : list (Z * string)) (eds : list (Z * Z * string))
  : gres (list (Z * string) * list (Z * Z * string) * list lline) :=
  match lines with
  | [] => GErr EIndex
  | ln :: t =>
      if l_end ln then GOk (nds, eds, t)
      else match l_edge ln with
           | Some e => graph_lines t nds (eds ++ [e])
           | None => match l_node ln with
                     | Some nd => graph_lines t (nds ++ [nd]) eds
                     | None => GErr ENodeOrEdge
                     end
           end
  end.

Fixpoint slookup (k : string) (l : list (string * Z)) : option Z :=
  match l with
  | [] => None
  | (k', x) :: t => if String.eqb k k' then Some x else slookup k t
  end.

(* for u, v, bond in edges: g.add_edge(u, v, **{BOND_KEY: _BOND_MAP[bond]}) *)
Fixpoint add_gml_edges (bond_map : list (string * Z)) (g : graph) (eds : list (Z * Z * string)) : gres graph :=
  match eds with
  | [] => GOk g
  | (u, v, b) :: t =>
      match slookup b bond_map with
      | Some o => add_gml_edges bond_map (add_edge g u v (Scalar o)) t
      | None => GErr EBondKey
      end
  end.

(* _parse_graph: returns (graph_name, g) and the remaining lines *)
Definition parse_graph (bond_map : list (string * Z)) (lines : list lline)
  : gres (option string * graph * list lline) :=
  match lines with
  | [] => GErr EIndex
  | hd :: t =>
      match graph_lines t [] [] with
      | GErr e => GErr e
      | GOk (nds, eds, rest) =>
          let g0 := fold_left (fun acc '(n, sym) => add_node acc n (na_sym sym)) nds empty_graph in
          match add_gml_edges bond_map g0 eds with
          | GErr e => GErr e
          | GOk g => GOk (l_graph hd, g, rest)
          end
      end
  end.

Definition name_is (o : option string) (s : string) : bool :=
  match o with Some x => String.eqb x s | None => false end.

Definition parse_gml_dpo_rule (bond_map : list (string * Z)) (lines : list lline) : gres dpo_rule :=
  match lines with
  | [] => GErr EIndex
  | start_line :: l1 =>
      if negb (l_start start_line) then GErr EStart else
      match l1 with
      | [] => GErr EIndex
      | id_line :: l2 =>
          match l_id id_line with
          | None => GErr ERuleId
          | Some rule_id =>
              match parse_graph bond_map l2 with
              | GErr e => GErr e
              | GOk (nm1, lft, l3) =>
                  if negb (name_is nm1 "left") then GErr EGraphLeft else
                  match parse_graph bond_map l3 with
                  | GErr e => GErr e
                  | GOk (nm2, context, l4) =>
                      if negb (name_is nm2 "context") then GErr EGraphContext else
                      match parse_graph bond_map l4 with
                      | GErr e => GErr e
                      | GOk (nm3, rgt, l5) =>
                          if negb (name_is nm3 "right") then GErr EGraphRight else
                          match l5 with
                          | [] => GErr EIndex
                          | end_line :: l6 =>
                              if negb (l_end end_line) then GErr EEndLine else
                              match l6 with
                              | _ :: _ => GErr EMoreLines
                              | [] => GOk (mkDPO rule_id lft context rgt)
                              end
                          end
                      end
                  end
              end
          end
      end
  end.

(* ReactionRule.from_gml(src) for a GML string: (name, ReactionRule(dpo_rule.to_rc_graph())) *)
Definition from_gml (bond_map : list (string * Z)) (lines : list lline) : gres (string * rrule) :=
  match parse_gml_dpo_rule bond_map lines with
  | GErr e => GErr e
  | GOk d =>
      match to_rc_graph d with
      | GErr e => GErr e
      | GOk rcg => GOk (d_id d, reaction_rule rcg)
      end
  end.
