(** Model of fgutils/permutation.py: generate_mapping_permutations, PermutationMapper.
    Definitions only. Positions are Z; "mapped to nothing" is -1 as in the code. *)
From Coq Require Import ZArith List Bool String.
From FGV Require Import Base.Util Base.Sym.
Import ListNotations.
Open Scope Z_scope.

(* every element together with the remaining ones, in order *)
Fixpoint selects {A} (l : list A) : list (A * list A) :=
  match l with
  | [] => []
  | x :: t => (x, t) :: map (fun '(y, r) => (y, x :: r)) (selects t)
  end.

(* itertools.permutations(l) in its (lexicographic by position) order; fuel = length l *)
Fixpoint perms_fuel {A} (fuel : nat) (l : list A) : list (list A) :=
  match fuel with
  | O => [[]]
  | S f => match l with
           | [] => [[]]
           | _ => flat_map (fun '(x, r) => map (cons x) (perms_fuel f r)) (selects l)
           end
  end.
Definition perms {A} (l : list A) : list (list A) := perms_fuel (List.length l) l.

Definition enumerate {A} (l : list A) : list (Z * A) :=
  combine (map Z.of_nat (seq 0 (List.length l))) l.

Definition sym_eqb_opt (w : option string) (p : string) : bool :=
  match w with Some w' => String.eqb p w' | None => false end.

(* the inner loop for one structure permutation: None = no match *)
Fixpoint match_perm (w : option string) (i : Z) (pattern : list string) (sp : list (Z * string))
  : option (list (Z * Z)) :=
  match pattern with
  | [] => Some []
  | p :: pt =>
      match sp with
      | (si, s) :: st =>
          if sym_eqb_opt w p || String.eqb p s
          then option_map (cons (i, si)) (match_perm w (i + 1) pt st)
          else None
      | [] => None
      end
  end.

Definition generate_mapping_permutations (pattern structure : list string) (w : option string)
  : list (list (Z * Z)) :=
  match pattern with
  | [] => []     (* is_match = len(pattern) > 0 *)
  | _ => flat_map (fun sp => match match_perm w 0 pattern sp with Some m => [m] | None => [] end)
                  (perms (enumerate structure))
  end.

Record mapper := mkMapper {
  m_wildcard : option string;
  m_ignore_case : bool;
  m_cmtn : list string    (* can_map_to_nothing, as stored by __init__ (already sorted) *)
}.

(* __init__: sorted(cmtn, key=lambda x: 1 if _is_wildcard(x) else 0), stable, where _is_wildcard(x) is
   x == wildcard, compared after lower-casing both when ignore_case is set (None wildcard: never) *)
Definition cmtn_key (w : option string) (ic : bool) (x : string) : bool :=
  match w with
  | Some w' => if ic then String.eqb (lower x) (lower w') else String.eqb x w'
  | None => false
  end.
Definition mk_mapper (w : option string) (ic : bool) (cmtn : list string) : mapper :=
  mkMapper w ic (filter (fun x => negb (cmtn_key w ic x)) cmtn ++ filter (cmtn_key w ic) cmtn).

Definition count_sym (c : string) (l : list string) : Z :=
  Z.of_nat (List.length (filter (String.eqb c) l)).

(* the padding loop: returns the padded structure and the list of added positions *)
Fixpoint pad (w : option string) (pattern : list string) (cmtn : list string)
             (structure : list string) (adds : list Z) : list string * list Z :=
  match cmtn with
  | [] => (structure, adds)
  | c :: ct =>
      let num := if sym_eqb_opt w c
                 then Z.of_nat (List.length pattern) - Z.of_nat (List.length structure)
                 else count_sym c pattern - count_sym c structure in
      let n := Z.to_nat num in
      let base := Z.of_nat (List.length structure) in
      pad w pattern ct (structure ++ repeat c n)
          (adds ++ map (fun i => base + Z.of_nat i) (seq 0 n))
  end.

Definition list_zz_eqb (x y : list (Z * Z)) : bool :=
  list_eqb (fun a b => (fst a =? fst b) && (snd a =? snd b)) x y.

Fixpoint dedup (seen : list (list (Z * Z))) (l : list (list (Z * Z))) : list (list (Z * Z)) :=
  match l with
  | [] => []
  | m :: t => if existsb (list_zz_eqb m) seen then dedup seen t else m :: dedup (seen ++ [m]) t
  end.

Definition permute (mp : mapper) (pattern structure : list string) : list (list (Z * Z)) :=
  let ic := m_ignore_case mp in
  let lw := fun s => if ic then lower s else s in
  let w := option_map lw (m_wildcard mp) in
  let pattern := map lw pattern in
  let structure := map lw structure in
  let cmtn := map lw (m_cmtn mp) in
  let '(structure', adds) := pad w pattern cmtn structure [] in
  let ms := generate_mapping_permutations pattern structure' w in
  let ms := map (map (fun '(pi, si) => if zmem si adds then (pi, -1) else (pi, si))) ms in
  dedup [] ms.
