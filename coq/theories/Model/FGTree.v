(** Model of fgutils/fgconfig.py: FGConfig.__init__ (without the parser call), pattern_len,
    FGTreeNode.order_id / add_child, sort_by_pattern_len, is_subgroup, search_parents,
    build_config_tree_from_list.  Definitions only.

    FGTreeNode objects are mutable and shared (a node can have several parents), so the
    tree is a TABLE: node i is the i-th created node (= the i-th configuration in sort
    order); its children and parents are lists of indices into the table.  Recursion
    through the tree carries fuel; running out of it is the distinct value [Bad FuelErr],
    which Proofs/FGTreeProofs.v shows is never produced. *)
From Coq Require Import ZArith List Bool String Ascii.
From FGV Require Import Base.Util Base.StrMap Base.Bond Base.NX Base.Sym Model.Permute Model.Match.
Import ListNotations.
Open Scope Z_scope.

(** * Results: a value or the class of the Python exception *)
Inductive err :=
| KeyErr | IndexErr        (* raised inside the sub-graph matcher *)
| AssertErr                (* an `assert` failed *)
| ValueErr                 (* np.max of an empty list *)
| TypeErr                  (* add_implicit_hydrogens on a non-numeric bond label *)
| InternalErr              (* a tree index outside the table: unreachable *)
| FuelErr.                 (* out of fuel: unreachable *)

Inductive res (A : Type) :=
| Good (a : A)
| Bad (e : err).
Arguments Good {A} a.
Arguments Bad {A} e.

Definition bind {A B} (x : res A) (f : A -> res B) : res B :=
  match x with Good a => f a | Bad e => Bad e end.
Notation "x <- e ;; f" := (bind e (fun x => f)) (at level 61, e at next level, right associativity).
Notation "' p <- e ;; f" := (bind e (fun p => f)) (at level 61, p pattern, e at next level, right associativity).

Definition of_match {A} (r : result A) : res A :=
  match r with
  | Ok a => Good a
  | Raise KeyError => Bad KeyErr
  | Raise IndexError => Bad IndexErr
  | OutOfFuel => Bad FuelErr
  end.

(** * sorted(l, key=...) and sorted(l, key=..., reverse=True)

    Python's sort is stable in both directions: elements with equal keys keep their
    original relative order.  [ltb x y] is  key x < key y. *)
Section Sort.
  Context {A : Type}.
  Variable ltb : A -> A -> bool.

  (* [x] stood before every element of [l]: it goes in front of the first element that is
     not smaller than it *)
  Fixpoint insert_asc (x : A) (l : list A) : list A :=
    match l with
    | [] => [x]
    | y :: t => if ltb y x then y :: insert_asc x t else x :: y :: t
    end.
  Definition sorted_asc (l : list A) : list A := fold_right insert_asc [] l.

  (* reverse=True: in front of the first element that is not greater than it *)
  Fixpoint insert_desc (x : A) (l : list A) : list A :=
    match l with
    | [] => [x]
    | y :: t => if ltb x y then y :: insert_desc x t else x :: y :: t
    end.
  Definition sorted_desc (l : list A) : list A := fold_right insert_desc [] l.
End Sort.

(** * FGConfig *)
Record fgconfig := mkFG {
  fg_name : string;
  fg_pattern_str : string;
  fg_pattern : graph;             (* self.pattern = parser.parse(pattern_str): supplied by the harness *)
  fg_group_atoms : list Z;
  fg_anti : list graph;           (* self.anti_pattern, sorted by size, largest first *)
  fg_max_size : Z;                (* self.max_pattern_size *)
  fg_len_excl : list string       (* self.len_exclude_nodes *)
}.

Definition graph_size_ltb (x y : graph) : bool := number_of_nodes x <? number_of_nodes y.

(* FGConfig.__init__ after parsing: [pattern] and [antis] are the parsed graphs (anti-patterns in
   the order given), group_atoms / depth as passed (None = default) *)
Definition fgconfig_init (name pattern_str : string) (pattern : graph) (group_atoms : option (list Z))
                         (antis : list graph) (depth : option Z) (len_excl : list string) : fgconfig :=
  let anti := sorted_desc graph_size_ltb antis in
  mkFG name pattern_str pattern
       (match group_atoms with Some l => l | None => nodes pattern end)
       anti
       (match depth with
        | Some d => d
        | None => zmax_list (number_of_nodes pattern) (map number_of_nodes anti)
        end)
       len_excl.

(* n_sym not in [...]: a node without "symbol" yields None, which is in no list of strings *)
Definition sym_in (s : option string) (l : list string) : bool :=
  match s with Some x => smem x l | None => false end.

(* the property pattern_len *)
Definition pattern_len (c : fgconfig) : Z :=
  Z.of_nat (List.length (filter (fun '(_, (a, _)) => negb (sym_in (a_sym a) (fg_len_excl c))) (fg_pattern c))).

Definition number_of_edges (g : graph) : Z := Z.of_nat (List.length (edges g)).

(* the sort key (pattern_len, len(pattern), pattern.number_of_edges(), pattern_str), used by
   sort_by_pattern_len and FGTreeNode.order_id *)
Definition skey : Type := Z * Z * Z * string.
Definition order_key (c : fgconfig) : skey :=
  (pattern_len c, number_of_nodes (fg_pattern c), number_of_edges (fg_pattern c), fg_pattern_str c).

(* Python str "<": lexicographic by code point *)
Definition str_ltb (a b : string) : bool :=
  match String.compare a b with Lt => true | _ => false end.

(* Python tuple "<": decided by the first position where the tuples differ *)
Definition key_ltb (a b : skey) : bool :=
  let '(a1, a2, a3, a4) := a in
  let '(b1, b2, b3, b4) := b in
  if negb (a1 =? b1) then a1 <? b1
  else if negb (a2 =? b2) then a2 <? b2
  else if negb (a3 =? b3) then a3 <? b3
  else str_ltb a4 b4.

Definition cfg_ltb (a b : fgconfig) : bool := key_ltb (order_key a) (order_key b).

Definition sort_by_pattern_len (l : list fgconfig) : list fgconfig := sorted_asc cfg_ltb l.

(** * is_subgroup *)
Definition to_graph (mp : mapper) (G P : graph) : res bool := of_match (map_subgraph_to_graph G P mp).

(* for anti_pattern in parent.anti_pattern: if map_subgraph_to_graph(child.pattern, anti_pattern): return False *)
Fixpoint anti_veto (mp : mapper) (child : graph) (antis : list graph) : res bool :=
  match antis with
  | [] => Good true
  | ap :: t =>
      r <- to_graph mp child ap ;;
      if r then Good false else anti_veto mp child t
  end.

Definition is_subgroup (mp : mapper) (parent child : fgconfig) : res bool :=
  p2c <- to_graph mp (fg_pattern child) (fg_pattern parent) ;;
  c2p <- to_graph mp (fg_pattern parent) (fg_pattern child) ;;
  if p2c then
    if c2p then Bad AssertErr            (* "... matches in both directions." *)
    else anti_veto mp (fg_pattern child) (fg_anti parent)
  else Good false.

(** * The tree, for any item type, any "is_subgroup" and any key order *)
Section Tree.
  Context {A : Type}.
  Variable sub : A -> A -> res bool.     (* is_subgroup parent child *)
  Variable kltb : A -> A -> bool.        (* order_id a < order_id b *)

  Record tnode := mkNode {
    n_cfg : A;
    n_children : list nat;     (* self.children: kept sorted by order_id, largest first *)
    n_parents : list nat       (* self.parents: appended in the iteration order of a Python set
                                  of objects, so only its SET of members is meaningful *)
  }.

  Record tree := mkTree {
    t_nodes : list tnode;      (* node i = the i-th FGTreeNode created *)
    t_roots : list nat         (* the list `roots` *)
  }.

  Definition empty_tree : tree := mkTree [] [].

  (* a Python set kept as a duplicate-free list in discovery order *)
  Definition nat_mem (x : nat) (l : list nat) : bool := existsb (Nat.eqb x) l.
  Definition set_add (x : nat) (s : list nat) : list nat := if nat_mem x s then s else s ++ [x].
  Definition set_update (s xs : list nat) : list nat := fold_left (fun acc x => set_add x acc) xs s.

  (* the body of  "for root in roots"  of search_parents; [below r] is the recursive call on
     root.children *)
  Fixpoint sp_loop (ns : list tnode) (below : tnode -> res (list nat)) (child : A)
                   (l : list nat) (parents : list nat) : res (list nat) :=
    match l with
    | [] => Good parents
    | r :: t =>
        match nth_error ns r with
        | None => Bad InternalErr
        | Some nd =>
            b <- sub (n_cfg nd) child ;;
            if b then
              ps <- below nd ;;
              sp_loop ns below child t
                      (match ps with
                       | [] => set_add r parents          (* _parents is None *)
                       | _ => set_update parents ps
                       end)
            else sp_loop ns below child t parents
        end
    end.

  (* search_parents(roots, child, mapper); the empty list stands for None *)
  Fixpoint search_parents (fuel : nat) (ns : list tnode) (roots : list nat) (child : A) : res (list nat) :=
    match fuel with
    | O => Bad FuelErr
    | S f => sp_loop ns (fun nd => search_parents f ns (n_children nd) child) child roots []
    end.

  (* comparison of two nodes by order_id *)
  Definition idx_ltb (ns : list tnode) (i j : nat) : bool :=
    match nth_error ns i, nth_error ns j with
    | Some a, Some b => kltb (n_cfg a) (n_cfg b)
    | _, _ => false
    end.

  Fixpoint update_nth {B} (i : nat) (f : B -> B) (l : list B) : list B :=
    match l, i with
    | [], _ => []
    | x :: t, O => f x :: t
    | x :: t, S j => x :: update_nth j f t
    end.

  (* parent.add_child(child):
       child.parents.append(self); self.children.append(child)
       self.parents = sorted(self.parents, key=order_id, reverse=True)
       self.children = sorted(self.children, key=order_id, reverse=True) *)
  Definition add_child (ns : list tnode) (p c : nat) : list tnode :=
    let ns1 := update_nth c (fun nd => mkNode (n_cfg nd) (n_children nd) (n_parents nd ++ [p])) ns in
    update_nth p (fun nd => mkNode (n_cfg nd)
                                   (sorted_desc (idx_ltb ns1) (n_children nd ++ [c]))
                                   (sorted_desc (idx_ltb ns1) (n_parents nd))) ns1.

  (* one iteration of the loop of build_config_tree_from_list *)
  Definition insert_node (st : tree) (c : A) : res tree :=
    let idx := List.length (t_nodes st) in
    ps <- search_parents (S idx) (t_nodes st) (t_roots st) c ;;
    let ns := (t_nodes st ++ [mkNode c [] []])%list in
    match ps with
    | [] => Good (mkTree ns (t_roots st ++ [idx])%list)
    | _ => Good (mkTree (fold_left (fun acc p => add_child acc p idx) ps ns) (t_roots st))
    end.

  Fixpoint insert_all (st : tree) (l : list A) : res tree :=
    match l with
    | [] => Good st
    | c :: t => st' <- insert_node st c ;; insert_all st' t
    end.

  Definition build_tree (l : list A) : res tree := insert_all empty_tree (sorted_asc kltb l).
End Tree.

Arguments mkNode {A} _ _ _.
Arguments mkTree {A} _ _.

(* build_config_tree_from_list(config_list, mapper) *)
Definition build_config_tree_from_list (mp : mapper) (l : list fgconfig) : res (tree (A := fgconfig)) :=
  build_tree (is_subgroup mp) cfg_ltb l.
