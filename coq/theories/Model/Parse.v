(** Model of fgutils/parse.py: tokenize and the Parser state machine. Definitions only.
    One function per Python function, statement by statement; the lexer tables come from
    Gen/Lexer.v (regenerated from the source on every run). The machine is written once,
    over a record of graph operations, and instantiated with networkx.Graph (Base/NX.v)
    and networkx.MultiGraph (Model/NXMulti.v). Text is ASCII. *)
From Coq Require Import ZArith List Bool Ascii String.
From FGV Require Import Base.Util Base.Bond Base.NX Base.Sym Base.Regex Base.Str Gen.Lexer Model.NXMulti Model.GraphOps.
Import ListNotations.
Open Scope string_scope.
Open Scope Z_scope.

(** ** tokenize *)

Definition token := (string * string)%type.     (* (ttype, value); the column is only used in messages *)

(* for m in re.finditer(token_re, pattern): ... if value == "": break ... yield
   finditer searches: where no alternative matches (only a newline: MISMATCH is "."), the
   scan resumes one character later. Every non-empty match consumes >= 1 character, so
   fuel = length + 1 suffices ([tokenize_total] in Proofs/ParseProofs.v).  None = out of fuel *)
Fixpoint tokenize_fuel (fuel : nat) (s : string) : option (list token) :=
  match fuel with
  | O => None
  | S f =>
      match s with
      | EmptyString => Some []
      | String _ t =>
          match first_match token_spec s with
          | None => tokenize_fuel f t
          | Some (name, m, rest) =>
              match m with
              | EmptyString => Some []                       (* break *)
              | _ => option_map (cons (name, m)) (tokenize_fuel f rest)
              end
          end
      end
  end.

Definition tokenize (s : string) : option (list token) := tokenize_fuel (S (String.length s)) s.

(** ** the parser *)

Inductive perr := ESyntax | EIndex | EKey | EValue | EFuel.
Inductive result (A : Type) := Ok (a : A) | Err (e : perr).
Arguments Ok {A} a.
Arguments Err {A} e.

Section Machine.
Context {G : Type}.
Variable ops : gops G.
Variable init_aam : bool.

Record pstate := mkPS {
  ps_graph : G;
  ps_anchor : option Z;
  ps_branches : list (option Z);        (* self.branches, top of the stack (= end of the Python list) first *)
  ps_rings : list (string * Z);          (* dict keyed by the ring label text *)
  ps_bond : label;                       (* self.bond_order (half units) *)
  ps_implicit : bool;                    (* self.bond_is_implicit *)
  ps_its : bool
}.

(* __clear + what parse() does before the loop is in [init_state] below *)

(* __set_bond_order *)
Definition set_bond (its : bool) (v : label) : label :=
  match v with
  | Scalar o => if its && negb (o =? 0) then Pair o o else Scalar o
  | _ => v
  end.

(* self.bond_order != 0    (a tuple is never equal to 0) *)
Definition bond_nonzero (l : label) : bool :=
  match l with Scalar o => negb (o =? 0) | _ => true end.

Definition with_graph (st : pstate) (g : G) : pstate :=
  mkPS g (ps_anchor st) (ps_branches st) (ps_rings st) (ps_bond st) (ps_implicit st) (ps_its st).

(* the common tail of add_node / ring closure:
     if implicit and both symbols lower-case: set_bond_order(1.5)
     if bond_order != 0: add_edge(u, v, bond=bond_order)
   returns the new graph *)
Definition connect (st : pstate) (g : G) (u v : Z) (su sv : string) : option G :=
  let bo := if ps_implicit st && islower su && islower sv
            then set_bond (ps_its st) (Scalar 3) else ps_bond st in
  if bond_nonzero bo then g_add_edge ops g u v bo else Some g.

(* __process_token_add_node *)
Definition step_add_node (ttype value : string) (idx : Z) (st : pstate) : result pstate :=
  let is_labeled := String.eqb ttype "NODE_LABEL" in
  let labels := if is_labeled then split_on "," (rstrip "}" (lstrip "{" value)) else [] in
  let value := if is_labeled then "#" else value in
  let attrs := mkNA (Some value) (if init_aam then Some (idx + 1) else None)
                    (Some labels) (Some is_labeled) None in
  let g1 := g_add_node ops (ps_graph st) idx attrs in
  match ps_anchor st with
  | None => Ok (mkPS g1 (Some idx) (ps_branches st) (ps_rings st) (ps_bond st) (ps_implicit st) (ps_its st))
  | Some a =>
      match g_sym ops g1 a with
      | None => Err EKey
      | Some anchor_sym =>
          match connect st g1 a idx anchor_sym value with
          | None => Err EFuel
          | Some g2 =>
              Ok (mkPS g2 (Some idx) (ps_branches st) (ps_rings st)
                       (set_bond (ps_its st) (Scalar 2)) true (ps_its st))
          end
      end
  end.

(* __process_token_rc_bond *)
Definition rc_value (s : string) : option Z :=
  match s with EmptyString => Some 1 | _ => py_int s end.

Definition step_rc_bond (value : string) (st : pstate) : result pstate :=
  match split_on "," (remove_char ">" (remove_char "<" value)) with
  | [g; h] =>
      match rc_value g, rc_value h with
      | Some gz, Some hz =>
          Ok (mkPS (ps_graph st) (ps_anchor st) (ps_branches st) (ps_rings st)
                   (set_bond (ps_its st) (Pair (2 * gz) (2 * hz))) (ps_implicit st) (ps_its st))
      | _, _ => Err EValue
      end
  | _ => Err ESyntax
  end.

(* __process_token_ring *)
Definition step_ring (value : string) (st : pstate) : result pstate :=
  match slookup value (ps_rings st) with
  | Some ring_anchor =>
      match ps_anchor st with
      | None => Err EKey                                   (* self.graph.nodes[None] *)
      | Some a =>
          match g_sym ops (ps_graph st) a, g_sym ops (ps_graph st) ring_anchor with
          | Some anchor_sym, Some ring_anchor_sym =>
              match connect st (ps_graph st) a ring_anchor anchor_sym ring_anchor_sym with
              | None => Err EFuel
              | Some g2 =>
                  Ok (mkPS g2 (ps_anchor st) (ps_branches st) (sdel value (ps_rings st))
                           (set_bond (ps_its st) (Scalar 2)) true (ps_its st))
              end
          | _, _ => Err EKey
          end
      end
  | None =>
      match ps_anchor st with
      | None => Err ESyntax
      | Some a =>
          Ok (mkPS (ps_graph st) (ps_anchor st) (ps_branches st) (sset value a (ps_rings st))
                   (ps_bond st) (ps_implicit st) (ps_its st))
      end
  end.

(* __process_token; a False return (MISMATCH / unknown type) raises SyntaxError in parse() *)
Definition step (tok : token) (idx : Z) (st : pstate) : result pstate :=
  let '(ttype, value) := tok in
  if String.eqb ttype "ATOM" || String.eqb ttype "WILDCARD" || String.eqb ttype "NODE_LABEL"
  then step_add_node ttype value idx st
  else if String.eqb ttype "BOND" then
    match slookup value bond_order_table with
    | None => Err EKey
    | Some o =>
        Ok (mkPS (ps_graph st) (ps_anchor st) (ps_branches st) (ps_rings st)
                 (set_bond (ps_its st) (Scalar o)) false (ps_its st))
    end
  else if String.eqb ttype "RC_BOND" then
    match step_rc_bond value st with
    | Ok st' => Ok (mkPS (ps_graph st') (ps_anchor st') (ps_branches st') (ps_rings st')
                         (ps_bond st') false (ps_its st'))
    | Err e => Err e
    end
  else if String.eqb ttype "BRANCH_START" then
    Ok (mkPS (ps_graph st) (ps_anchor st) (ps_anchor st :: ps_branches st) (ps_rings st)
             (ps_bond st) (ps_implicit st) (ps_its st))
  else if String.eqb ttype "BRANCH_END" then
    match ps_branches st with
    | [] => Err EIndex                                      (* pop from empty list *)
    | a :: r => Ok (mkPS (ps_graph st) a r (ps_rings st) (ps_bond st) (ps_implicit st) (ps_its st))
    end
  else if String.eqb ttype "RING_NUM" then step_ring value st
  else Err ESyntax.

(* the for-loop of parse() *)
Fixpoint run (off : Z) (toks : list token) (st : pstate) : result pstate :=
  match toks with
  | [] => Ok st
  | tok :: rest =>
      let idx := g_nnodes ops (ps_graph st) + off in
      match step tok idx st with
      | Ok st' => run off rest st'
      | Err e => Err e
      end
  end.

Definition init_state (its : bool) : pstate :=
  mkPS (g_empty ops) None [] [] (set_bond its (Scalar 2)) true its.

Definition has_rc_token (toks : list token) : bool :=
  existsb (fun t => String.eqb (fst t) "RC_BOND") toks.

Definition parse_tokens (off : Z) (toks : list token) : result G :=
  match run off toks (init_state (has_rc_token toks)) with
  | Ok st => Ok (ps_graph st)
  | Err e => Err e
  end.

Definition parse (off : Z) (pattern : string) : result G :=
  match tokenize pattern with
  | None => Err EFuel
  | Some toks => parse_tokens off toks
  end.

End Machine.

(* fgutils.parse.parse(pattern, idx_offset=off, init_aam=aam) / Parser(use_multigraph=False) *)
Definition parse_simple (aam : bool) (off : Z) (pattern : string) : result graph :=
  parse simple_ops aam off pattern.
(* Parser(use_multigraph=True, init_aam=aam).parse(pattern, off) *)
Definition parse_multi (aam : bool) (off : Z) (pattern : string) : result mgraph :=
  parse multi_ops aam off pattern.

Definition perr_eqb (a b : perr) : bool :=
  match a, b with
  | ESyntax, ESyntax | EIndex, EIndex | EKey, EKey | EValue, EValue | EFuel, EFuel => true
  | _, _ => false
  end.
Definition result_eqb {A} (eqb : A -> A -> bool) (x y : result A) : bool :=
  match x, y with
  | Ok a, Ok b => eqb a b
  | Err e, Err f => perr_eqb e f
  | _, _ => false
  end.
Definition token_eqb (a b : token) : bool := String.eqb (fst a) (fst b) && String.eqb (snd a) (snd b).
