(** Model of networkx.weisfeiler_lehman_graph_hash(G, edge_attr="bond", node_attr="symbol",
    iterations=k) for undirected simple graphs (networkx 3.6, algorithms/graph_hashing.py) and of
    fgutils.utils.mol_compare. Definitions only.

    Labels are strings exactly as in the Python code; the digest
        _hash_label(label, digest_size) = blake2b(label.encode("ascii"), ...).hexdigest()
    is the section variable [H : string -> string], so every statement holds for ANY digest.
    [sorted] is a stable insertion sort for the given comparison. *)
From Coq Require Import ZArith List Bool String Ascii Decimal DecimalString.
From FGV Require Import Base.Util Base.Bond Base.NX Model.Rdkit.
Import ListNotations.
Local Open Scope string_scope.
Open Scope Z_scope.

(** * sorted(...) *)

Section Sort.
  Context {A : Type}.
  Variable le : A -> A -> bool.

  Fixpoint insert (x : A) (l : list A) : list A :=
    match l with
    | [] => [x]
    | y :: t => if le x y then x :: y :: t else y :: insert x t
    end.

  Fixpoint isort (l : list A) : list A :=
    match l with
    | [] => []
    | x :: t => insert x (isort t)
    end.
End Sort.

(** * str(...) of the Python values that occur *)

(* str(n) for an int *)
Definition dec (z : Z) : string := NilZero.string_of_int (Z.to_int z).

(* str(x) for a bond order given in half units: an even value is the int x, an odd one the
   float x.5 *)
Definition ostr (h : Z) : string :=
  if Z.even h then dec (h / 2)
  else (if h <? 0 then "-" else "") ++ dec (Z.abs h / 2) ++ ".5".

(* str(G[node][nbr]["bond"]) *)
Definition estr (l : label) : string :=
  match l with
  | Scalar o => ostr o
  | Pair g h => "(" ++ ostr g ++ ", " ++ ostr h ++ ")"
  | LPair g h => "[" ++ ostr g ++ ", " ++ ostr h ++ "]"
  end.

(* repr of a (label, count) item and str(tuple(items)); labels are assumed free of quotes and
   backslashes (hex digests and element symbols are) *)
Definition repr_item (x : string * Z) : string :=
  "('" ++ fst x ++ "', " ++ dec (snd x) ++ ")".

Definition str_tuple (l : list (string * Z)) : string :=
  match l with
  | [] => "()"
  | [x] => "(" ++ repr_item x ++ ",)"
  | _ => "(" ++ String.concat ", " (map repr_item l) ++ ")"
  end.

(** * Counter *)

(* c[k] += 1, keeping dict insertion order *)
Fixpoint counter_add (k : string) (c : list (string * Z)) : list (string * Z) :=
  match c with
  | [] => [(k, 1)]
  | (k', n) :: t => if String.eqb k k' then (k', n + 1) :: t else (k', n) :: counter_add k t
  end.

(* Counter(values) *)
Definition counter (l : list string) : list (string * Z) :=
  fold_left (fun c k => counter_add k c) l [].

(* sorted(counter.items(), key=lambda x: x[0]) *)
Definition sorted_items (c : list (string * Z)) : list (string * Z) :=
  isort (fun a b => String.leb (fst a) (fst b)) c.

(** * the hash *)

(* node_labels[n]; every node and every neighbour of a node of a networkx graph is a key, so
   the default is never used for a well-formed graph *)
Definition lab_of (labels : list (Z * string)) (n : Z) : string :=
  match alookup n labels with Some s => s | None => "" end.

(* _init_node_labels: {u: str(dd["symbol"]) for u, dd in G.nodes(data=True)}; None = KeyError *)
Fixpoint init_labels (l : list (Z * nattr)) : option (list (Z * string)) :=
  match l with
  | [] => Some []
  | (n, d) :: t =>
      match a_sym d, init_labels t with
      | Some s, Some r => Some ((n, s) :: r)
      | _, _ => None
      end
  end.

Section WL.
  Variable H : string -> string.

  (* _neighborhood_aggregate_undirected *)
  Definition aggregate (g : graph) (labels : list (Z * string)) (node : Z) : string :=
    let label_list := map (fun '(nbr, l) => estr l ++ lab_of labels nbr) (adj g node) in
    lab_of labels node ++ String.concat "" (isort String.leb label_list).

  (* weisfeiler_lehman_step *)
  Definition wl_step (g : graph) (labels : list (Z * string)) : list (Z * string) :=
    map (fun node => (node, H (aggregate g labels node))) (nodes g).

  (* for _ in range(iterations): ...; subgraph_hash_counts.extend(sorted(counter.items(), ...)) *)
  Fixpoint wl_iter (g : graph) (k : nat) (labels : list (Z * string)) (acc : list (string * Z))
    : list (string * Z) :=
    match k with
    | O => acc
    | S k' =>
        let labels' := wl_step g labels in
        wl_iter g k' labels' (acc ++ sorted_items (counter (map snd labels')))
    end.

  Definition wl_hash (g : graph) (iterations : Z) : res string :=
    if iterations <=? 0 then Err ValueError
    else match init_labels (nodes_data g) with
         | None => Err KeyError
         | Some l0 => Ok (H (str_tuple (wl_iter g (Z.to_nat iterations) l0 [])))
         end.

  (* fgutils.utils.mol_compare: the vector of 1/0 as booleans *)
  Fixpoint compare_loop (th : string) (cands : list graph) : res (list bool) :=
    match cands with
    | [] => Ok []
    | c :: t =>
        bind (wl_hash c 3) (fun ch =>
        bind (compare_loop th t) (fun r => Ok (String.eqb ch th :: r)))
    end.

  Definition mol_compare (cands : list graph) (target : graph) : res (list bool) :=
    bind (wl_hash target 3) (fun th => compare_loop th cands).
End WL.

(* an injective stand-in digest for the case files *)
Definition wrap_digest (s : string) : string := "<" ++ s ++ ">".
