(** Model of networkx.MultiGraph with dict insertion order, restricted to what the parser
    uses (add_node, add_edge without an explicit key, number_of_nodes, nodes[n]).
    mgraph = association list  node id -> (attributes, adjacency);  adjacency = association
    list  neighbour -> keydict;  keydict = association list  edge key -> label  (the edge
    data dict is {"bond": label}). In networkx both directions share ONE keydict object;
    here the two copies are always updated together. Definitions only. *)
From Coq Require Import ZArith List Bool String.
From FGV Require Import Base.Util Base.Bond Base.NX.
Import ListNotations.
Open Scope Z_scope.

Definition keydict := list (Z * label).
Definition madjl := list (Z * keydict).
Definition mgraph := list (Z * (nattr * madjl)).

Definition mempty : mgraph := [].

Definition mnodes (g : mgraph) : list Z := map fst g.
Definition mnodes_data (g : mgraph) : list (Z * nattr) := map (fun '(n, (a, _)) => (n, a)) g.
Definition mnode_attr (g : mgraph) (n : Z) : option nattr :=
  match alookup n g with Some (a, _) => Some a | None => None end.
Definition madj (g : mgraph) (n : Z) : madjl :=
  match alookup n g with Some (_, ad) => ad | None => [] end.
Definition mkeydict (g : mgraph) (u v : Z) : option keydict := alookup v (madj g u).
Definition mnumber_of_nodes (g : mgraph) : Z := Z.of_nat (List.length g).

(* MultiGraph.add_node = Graph.add_node *)
Definition madd_node (g : mgraph) (n : Z) (a : nattr) : mgraph :=
  match alookup n g with
  | Some (a0, ad) => aset n (na_update a0 a, ad) g
  | None => g ++ [(n, (a, []))]
  end.

Definition mensure_node (g : mgraph) (n : Z) : mgraph :=
  match alookup n g with Some _ => g | None => g ++ [(n, (na_empty, []))] end.

(* key = len(keydict); while key in keydict: key += 1      (None = out of fuel) *)
Fixpoint next_key (fuel : nat) (key : Z) (keys : list Z) : option Z :=
  match fuel with
  | O => None
  | S f => if zmem key keys then next_key f (key + 1) keys else Some key
  end.

(* MultiGraph.new_edge_key(u, v) *)
Definition new_edge_key (g : mgraph) (u v : Z) : option Z :=
  match mkeydict g u v with
  | None => Some 0
  | Some kd => next_key (S (List.length kd)) (Z.of_nat (List.length kd)) (map fst kd)
  end.

Definition mset_adj (g : mgraph) (u v : Z) (kd : keydict) : mgraph :=
  match alookup u g with
  | Some (a, ad) => aset u (a, aset v kd ad) g
  | None => g
  end.

(* MultiGraph.add_edge(u, v, bond=l) with key=None.   None = out of fuel in new_edge_key
   (never happens: Proofs/ParseProofs.v, [madd_edge_some]) *)
Definition madd_edge (g : mgraph) (u v : Z) (l : label) : option mgraph :=
  let g1 := mensure_node (mensure_node g u) v in
  match new_edge_key g1 u v with
  | None => None
  | Some key =>
      let kd := match mkeydict g1 u v with
                | Some kd0 => aset key l kd0      (* keydict[key] = datadict, in place *)
                | None => [(key, l)]              (* fresh keydict stored under both ends *)
                end in
      Some (mset_adj (mset_adj g1 u v kd) v u kd)
  end.

(* MultiGraph.edges(keys=True, data=True): every edge once, from the endpoint met first *)
Fixpoint medges_aux (seen : list Z) (g : mgraph) : list (Z * Z * Z * label) :=
  match g with
  | [] => []
  | (n, (_, ad)) :: t =>
      flat_map (fun '(v, kd) => if zmem v seen then [] else map (fun '(k, l) => (n, v, k, l)) kd) ad
      ++ medges_aux (n :: seen) t
  end.
Definition medges (g : mgraph) : list (Z * Z * Z * label) := medges_aux [] g.

(* labels of the parallel edges between u and v, in key order of insertion *)
Definition mlabels (g : mgraph) (u v : Z) : list label :=
  match mkeydict g u v with Some kd => map snd kd | None => [] end.

Definition keydict_eqb (x y : keydict) : bool :=
  list_eqb (fun a b => (fst a =? fst b) && label_eqb (snd a) (snd b)) x y.
Definition madjl_eqb (x y : madjl) : bool :=
  list_eqb (fun a b => (fst a =? fst b) && keydict_eqb (snd a) (snd b)) x y.

(* exact equality, including all iteration orders and edge keys *)
Definition mgraph_eqb (g h : mgraph) : bool :=
  list_eqb (fun a b => (fst a =? fst b) && nattr_eqb (fst (snd a)) (fst (snd b))
                       && madjl_eqb (snd (snd a)) (snd (snd b))) g h.

(* equality as labelled multigraphs: same node -> attributes map, and for every ordered pair
   the same key -> label map *)
Definition keydict_sub (x y : keydict) : bool :=
  forallb (fun '(k, l) => option_eqb label_eqb (Some l) (alookup k y)) x.
Definition mgraph_sub (g h : mgraph) : bool :=
  forallb (fun '(n, (a, ad)) =>
             option_eqb nattr_eqb (Some a) (mnode_attr h n)
             && forallb (fun '(v, kd) =>
                           match mkeydict h n v with
                           | Some kd' => keydict_sub kd kd' && keydict_sub kd' kd
                           | None => false
                           end) ad) g.
Definition mgraph_equivb (g h : mgraph) : bool := mgraph_sub g h && mgraph_sub h g.
