(** Model of fgutils.proxy: relabel_graph and replace_node, for networkx.Graph (Base/NX.v) and
    networkx.MultiGraph (Base/NXMulti.v). Definitions only. The pattern parser is not part of
    this model: [h] is the graph parser.parse(pattern, idx_offset=len(graph.nodes)) returned. *)
From Coq Require Import ZArith List Bool String.
From FGV Require Import Base.Util Base.Bond Base.NX Base.NXMulti.
Import ListNotations.
Open Scope Z_scope.

(** * relabel_graph *)

(* sorted(g.nodes) : ids are distinct Python ints *)
Fixpoint zinsert (x : Z) (l : list Z) : list Z :=
  match l with
  | [] => [x]
  | y :: t => if x <=? y then x :: l else y :: zinsert x t
  end.
Definition zsort (l : list Z) : list Z := fold_right zinsert [] l.

(* mapping = {}; for i, u in enumerate(sorted(g.nodes)): mapping[u] = i + offset *)
Definition relabel_mapping (ns : list Z) (offset : Z) : list (Z * Z) :=
  let s := zsort ns in
  combine s (map (fun i => Z.of_nat i + offset) (seq 0 (List.length s))).

(* return nx.relabel_nodes(g, mapping)        (copy=True) *)
Definition relabel_graph (g : graph) (offset : Z) : graph :=
  relabel_map (relabel_mapping (nodes g) offset) g.

Definition relabel_graph_multi (g : mgraph) (offset : Z) : option mgraph :=
  mrelabel_map (relabel_mapping (mnodes g) offset) g.

(** * replace_node *)

Inductive perr :=
| ENoNode     (* graph.edges(node, ...) on a node that is not in the graph: NetworkXError *)
| EIndex      (* replacement_graph.anchor[...] on an empty anchor list: IndexError *)
| EFuel.      (* a fuelled loop of the MultiGraph model ran out of fuel (proved unreachable) *)

Inductive pres (A : Type) :=
| POk (a : A)
| PErr (e : perr).
Arguments POk {A} a.
Arguments PErr {A} e.

(* anchor_idx = i; if len(anchor) <= i: anchor_idx = len(anchor) - 1;  anchor[anchor_idx] *)
Definition anchor_at (anchors : list Z) (i : nat) : option Z :=
  let n := List.length anchors in
  let a := if (n <=? i)%nat then Z.of_nat n - 1 else Z.of_nat i in
  if a <? 0 then None else nth_error anchors (Z.to_nat a).

(* for i, (_, v, d) in enumerate(incident_edges):
       graph.add_edge(idx_offset + anchor[anchor_idx], v, **d) *)
Fixpoint attach (g : graph) (off : Z) (anchors : list Z) (inc : list (Z * Z * label)) (i : nat)
  : pres graph :=
  match inc with
  | [] => POk g
  | (_, v, l) :: t =>
      match anchor_at anchors i with
      | None => PErr EIndex
      | Some a => attach (add_edge g (off + a) v l) off anchors t (S i)
      end
  end.

Definition replace_node (g : graph) (node : Z) (h : graph) (anchors : list Z) : pres graph :=
  let idx_offset := number_of_nodes g in
  if negb (has_node g node) then PErr ENoNode else
  let incident_edges := incident g node in
  let g1 := compose g h in
  match (if 0 <? number_of_nodes h then attach g1 idx_offset anchors incident_edges 0 else POk g1) with
  | PErr e => PErr e
  | POk g2 => POk (relabel_graph (remove_node g2 node) 0)
  end.

(* on a MultiGraph add_edge without key always creates a new parallel edge *)
Fixpoint mattach (g : mgraph) (off : Z) (anchors : list Z) (inc : list (Z * Z * label)) (i : nat)
  : pres mgraph :=
  match inc with
  | [] => POk g
  | (_, v, l) :: t =>
      match anchor_at anchors i with
      | None => PErr EIndex
      | Some a =>
          match madd_edge g (off + a) v l with
          | None => PErr EFuel
          | Some g' => mattach g' off anchors t (S i)
          end
      end
  end.

Definition replace_node_multi (g : mgraph) (node : Z) (h : mgraph) (anchors : list Z) : pres mgraph :=
  let idx_offset := mnumber_of_nodes g in
  if negb (mhas_node g node) then PErr ENoNode else
  let incident_edges := mincident g node in
  let g1 := mcompose g h in
  match (if 0 <? mnumber_of_nodes h then mattach g1 idx_offset anchors incident_edges 0 else POk g1) with
  | PErr e => PErr e
  | POk g2 =>
      match relabel_graph_multi (mremove_node g2 node) 0 with
      | None => PErr EFuel
      | Some g3 => POk g3
      end
  end.

(* executable comparison of results, used by generated case files *)
Definition perr_eqb (a b : perr) : bool :=
  match a, b with
  | ENoNode, ENoNode | EIndex, EIndex | EFuel, EFuel => true
  | _, _ => false
  end.
Definition pres_eqb {A} (eqb : A -> A -> bool) (x y : pres A) : bool :=
  match x, y with
  | POk a, POk b => eqb a b
  | PErr e, PErr f => perr_eqb e f
  | _, _ => false
  end.
