(** Operation sequences on the networkx model, used only by the correspondence run that
    validates Base/NX.v against the real networkx (harness/nxtie.py). Definitions only. *)
From Coq Require Import ZArith List Bool String.
From FGV Require Import Base.Util Base.Bond Base.NX.
Import ListNotations.
Open Scope Z_scope.

Inductive op :=
| OAddNode (n : Z) (a : nattr)
| OAddEdge (u v : Z) (l : label)
| ORemoveNode (n : Z)        (* only issued for existing nodes *)
| ORemoveEdge (u v : Z)      (* only issued for existing edges *)
| OCopy
| OCompose (h : graph)       (* nx.compose(current, h) *)
| OComposeL (h : graph)      (* nx.compose(h, current) *)
| ORelabel (m : list (Z * Z)).

Definition apply_op (g : graph) (o : op) : graph :=
  match o with
  | OAddNode n a => add_node g n a
  | OAddEdge u v l => add_edge g u v l
  | ORemoveNode n => remove_node g n
  | ORemoveEdge u v => remove_edge g u v
  | OCopy => copy g
  | OCompose h => compose g h
  | OComposeL h => compose h g
  | ORelabel m => relabel_map m g
  end.

Definition run_ops (ops : list op) : graph := fold_left apply_op ops empty_graph.

Definition edge3_eqb (a b : Z * Z * label) : bool :=
  (fst (fst a) =? fst (fst b)) && (snd (fst a) =? snd (fst b)) && label_eqb (snd a) (snd b).

(* everything observable: the graph with all dict orders, edges(), and edges(n) for every node *)
Definition observe_ok (g : graph) (expect : graph) (es : list (Z * Z * label))
                      (inc : list (Z * list (Z * Z * label))) : bool :=
  graph_eqb g expect && list_eqb edge3_eqb (edges g) es
  && list_eqb (fun a b => (fst a =? fst b) && list_eqb edge3_eqb (snd a) (snd b))
              (map (fun n => (n, incident g n)) (nodes g)) inc
  && wfb g.
