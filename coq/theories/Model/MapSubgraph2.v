(** Model of fgutils.algorithm.subgraph.map_subgraph2. Definitions only.
    Uses the matcher model Model/Match.v (map_anchored_subgraph), the nx.is_connected model of
    Model/Rule.v for the connected-components test and Model/MapMatrix.v.  [ord] is the
    hash-dependent row numbering of the MappingMatrix (see Model/MapMatrix.v). The print call is
    not modelled. *)
From Coq Require Import ZArith List Bool String.
From FGV Require Import Base.Util Base.Bond Base.NX Base.Sym Model.Permute Model.MapMatrix Model.Match Model.Rule.
Import ListNotations.
Open Scope Z_scope.

Inductive ms2_result :=
| MS2Disconnected                 (* ValueError("Do not use map_subgraph2 for disconnected subgraphs.") *)
| MS2TooLarge                     (* ValueError("Pattern has more symbols than structure.") *)
| MS2KeyError                     (* a node without symbol / a symbol the given matrix does not know *)
| MS2AssertionError               (* assert mapping_sym is not None (or an assertion of MappingMatrix.__init__) *)
| MS2Raise (e : exn)              (* raised by map_anchored_subgraph *)
| MS2Fuel                         (* matcher out of fuel: proved impossible *)
| MS2Ok (l : list (bool * list (Z * Z))).

(* len(list(nx.connected_components(subgraph))) > 1 : at least one node and not connected *)
Definition more_than_one_component (P : graph) : bool :=
  match is_connected P with
  | None => false
  | Some b => negb b
  end.

(* [d["symbol"] for _, d in g.nodes(data=True)]; None = KeyError *)
Definition labels_of (g : graph) : option (list string) := option_map (map snd) (with_syms g (nodes g)).

Section Sub2.
  Variable ord : list string.
  Variable G P : graph.
  Variable mp : mapper.

  (* for v, vd in graph.nodes(data=True): if vd["symbol"] != s: continue; ... *)
  Fixpoint inner_loop (s : string) (u : Z) (vs : list Z) (acc : list (bool * list (Z * Z))) : ms2_result :=
    match vs with
    | [] => MS2Ok acc
    | v :: t =>
        match sym_of G v with
        | None => MS2KeyError
        | Some sv =>
            if negb (String.eqb sv s) then inner_loop s u t acc
            else
              match map_anchored_subgraph G P mp v u with
              | Ok (true, m, _) => inner_loop s u t (acc ++ [(true, m)])
              | Ok (false, _, _) => inner_loop s u t acc
              | Raise e => MS2Raise e
              | OutOfFuel => MS2Fuel
              end
        end
    end.

  (* for u, ud in subgraph.nodes(data=True): if ud["symbol"] != p: continue; ... *)
  Fixpoint outer_loop (p s : string) (us : list Z) (acc : list (bool * list (Z * Z))) : ms2_result :=
    match us with
    | [] => MS2Ok acc
    | u :: t =>
        match sym_of P u with
        | None => MS2KeyError
        | Some su =>
            if negb (String.eqb su p) then outer_loop p s t acc
            else
              match inner_loop s u (nodes G) acc with
              | MS2Ok acc' => outer_loop p s t acc'
              | other => other
              end
        end
    end.

  Definition map_subgraph2 (matrix : option matrix) : ms2_result :=
    if more_than_one_component P then MS2Disconnected
    else
      match labels_of G with
      | None => MS2KeyError
      | Some g_labels =>
          match labels_of P with
          | None => MS2KeyError
          | Some sub_labels =>
              match (match matrix with Some m => Some m | None => mm_init mp sub_labels g_labels end) with
              | None => MS2AssertionError
              | Some m =>
                  match min_mapping_symbol ord m sub_labels g_labels with
                  | MMSValueError => MS2TooLarge
                  | MMSKeyError => MS2KeyError
                  | MMSOk None => MS2AssertionError
                  | MMSOk (Some (p, s)) => outer_loop p s (nodes P) []
                  end
              end
          end
      end.
End Sub2.
