(** Model of fgutils/algorithm/subgraph.py (the repaired breadth-first backtracking matcher):
    _get_neighbors, map_anchored_subgraph with its inner generator _search and _fit,
    map_subgraph, map_subgraph_to_graph.  Definitions only.

    The generator _search is modelled by the function returning its FIRST yielded
    (mapping, used) pair -- that is all _fit consumes.  Exceptions raised on the way to
    that first result are part of the value ([Raise]); running out of fuel is a third,
    distinct value ([OutOfFuel]) which Proofs/MatchProofs.v shows is never produced. *)
From Coq Require Import ZArith List Bool String.
From FGV Require Import Base.Util Base.Bond Base.NX Base.Sym Model.Permute.
Import ListNotations.
Open Scope Z_scope.

Inductive exn := KeyError | IndexError.

Inductive result (A : Type) :=
| Ok (a : A)
| Raise (e : exn)
| OutOfFuel.
Arguments Ok {A} a.
Arguments Raise {A} e.
Arguments OutOfFuel {A}.

(* the dict  subgraph node -> graph node | None, in insertion order *)
Definition mapping := list (Z * option Z).

(* Python list indexing l[i] (negative indices count from the end); None = IndexError *)
Definition py_index {A} (l : list A) (i : Z) : option A :=
  let n := Z.of_nat (List.length l) in
  if 0 <=? i then nth_error l (Z.to_nat i)
  else if 0 <=? n + i then nth_error l (Z.to_nat (n + i))
  else None.

(* [(n, graph.nodes[n]["symbol"]) for n in l]; None = KeyError *)
Fixpoint with_syms (g : graph) (l : list Z) : option (list (Z * string)) :=
  match l with
  | [] => Some []
  | n :: t =>
      match sym_of g n with
      | None => None
      | Some s => option_map (cons (n, s)) (with_syms g t)
      end
  end.

(* _get_neighbors(graph, idx, excluded_nodes): graph.neighbors order = adjacency dict order *)
Definition get_neighbors (g : graph) (idx : Z) (excluded : list Z) : option (list (Z * string)) :=
  with_syms g (filter (fun n => negb (zmem n excluded)) (neighbors g idx)).

(* first value produced by  "for x in l: yield from F(x)"  *)
Fixpoint first_result {A B} (F : A -> result (option B)) (l : list A) : result (option B) :=
  match l with
  | [] => Ok None
  | x :: t =>
      match F x with
      | Ok None => first_result F t
      | r => r
      end
  end.

Section Anchored.
  Variable G : graph.      (* graph *)
  Variable P : graph.      (* subgraph (the pattern) *)
  Variable mp : mapper.

  (* the loop  "for pnn_idx in subgraph.neighbors(pidx)"  of _search *)
  Inductive scan_res :=
  | ScanRaise (e : exn)
  | ScanStop                               (* "return": a ring-closing bond is missing or differs *)
  | ScanOk (pnn : list (Z * string)).      (* pnode_neighbors *)

  Fixpoint scan (idx pidx : Z) (m : mapping) (l : list Z) : scan_res :=
    match l with
    | [] => ScanOk []
    | q :: t =>
        match alookup q m with
        | None =>                                   (* pnn_idx not in mapping.keys() *)
            match sym_of P q with
            | None => ScanRaise KeyError
            | Some s =>
                match scan idx pidx m t with
                | ScanOk r => ScanOk ((q, s) :: r)
                | other => other
                end
            end
        | Some None => scan idx pidx m t            (* mapped to nothing *)
        | Some (Some nn) =>                         (* ring closure: both ends are mapped *)
            match edge_label G idx nn with
            | None => ScanStop                      (* not graph.has_edge(idx, nn_idx) *)
            | Some gl =>
                match edge_label P pidx q with
                | None => ScanRaise KeyError
                | Some pl => if label_eqb gl pl then scan idx pidx m t else ScanStop
                end
            end
        end
    end.

  (* the loop  "for pnn_i, nn_i in n_mapping"; Ok None = _is_valid became False *)
  Fixpoint assign (idx pidx : Z) (pnn nn : list (Z * string)) (a : list (Z * Z))
                  (m : mapping) (used : list Z) (todo : list (Z * Z))
    : result (option (mapping * list Z * list (Z * Z))) :=
    match a with
    | [] => Ok (Some (m, used, todo))
    | (pi, ni) :: t =>
        match py_index pnn pi with
        | None => Raise IndexError
        | Some (q, _) =>
            if ni =? -1 then assign idx pidx pnn nn t (aset q None m) used todo
            else
              match py_index nn ni with
              | None => Raise IndexError
              | Some (n, _) =>
                  match edge_label P pidx q with
                  | None => Raise KeyError
                  | Some pl =>
                      match edge_label G idx n with
                      | None => Raise KeyError
                      | Some gl =>
                          if label_eqb gl pl
                          then assign idx pidx pnn nn t (aset q (Some n) m) (n :: used) (todo ++ [(n, q)])
                          else Ok None
                      end
                  end
              end
        end
    end.

  (* _search(todo, mapping, used): first yielded (mapping, used), Ok None = nothing yielded *)
  Fixpoint search (fuel : nat) (todo : list (Z * Z)) (m : mapping) (used : list Z)
    : result (option (mapping * list Z)) :=
    match fuel with
    | O => OutOfFuel
    | S f =>
        match todo with
        | [] => Ok (Some (m, used))
        | (idx, pidx) :: todo' =>
            match scan idx pidx m (neighbors P pidx) with
            | ScanRaise e => Raise e
            | ScanStop => Ok None
            | ScanOk [] => search f todo' m used
            | ScanOk pnn =>
                match get_neighbors G idx used with
                | None => Raise KeyError
                | Some nn =>
                    first_result
                      (fun a =>
                         match assign idx pidx pnn nn a m used todo' with
                         | Ok (Some (m', used', todo'')) => search f todo'' m' used'
                         | Ok None => Ok None
                         | Raise e => Raise e
                         | OutOfFuel => OutOfFuel
                         end)
                      (permute mp (map snd pnn) (map snd nn))
                end
            end
        end
    end.

  Definition search_fuel : nat := S (List.length P).

  (* mappings = [(n, pn) for pn, n in _mapping.items() if n is not None] *)
  Definition pairs_of (m : mapping) : list (Z * Z) :=
    flat_map (fun '(pn, n) => match n with Some n' => [(n', pn)] | None => [] end) m.

  (* value: (is_valid, mapping, (visited graph nodes, visited subgraph nodes)); the two
     visited collections are Python sets, here lists read as sets *)
  Definition match_out : Type := bool * list (Z * Z) * (list Z * list Z).

  Definition fit (idx pidx : Z) : result match_out :=
    match search search_fuel [(idx, pidx)] [(pidx, Some idx)] [idx] with
    | Ok (Some (m, used)) => Ok (true, pairs_of m, (used, akeys m))
    | Ok None => Ok (false, [(idx, pidx)], ([idx], [pidx]))
    | Raise e => Raise e
    | OutOfFuel => OutOfFuel
    end.

  Definition init_ok (l : list (list (Z * Z))) : bool :=     (* init_mapping == [[(0, 0)]] *)
    match l with
    | [[(0, 0)]] => true
    | _ => false
    end.

  Definition map_anchored_subgraph (anchor subgraph_anchor : Z) : result match_out :=
    match sym_of G anchor with
    | None => Raise KeyError
    | Some sym =>
        match sym_of P subgraph_anchor with
        | None => Raise KeyError
        | Some psym =>
            if init_ok (permute mp [psym] [sym])
            then fit anchor subgraph_anchor
            else Ok (false, [], ([anchor], [subgraph_anchor]))
        end
    end.

  (* the loop  "for pidx in subgraph.nodes"  of map_subgraph *)
  Fixpoint anchors_loop (anchor : Z) (l : list Z) : result (list (bool * list (Z * Z))) :=
    match l with
    | [] => Ok []
    | pidx :: t =>
        match map_anchored_subgraph anchor pidx with
        | Ok (b, m, _) =>
            match anchors_loop anchor t with
            | Ok r => Ok ((b, m) :: r)
            | other => other
            end
        | Raise e => Raise e
        | OutOfFuel => OutOfFuel
        end
    end.

  Definition map_subgraph (anchor : Z) (subgraph_anchor : option Z)
    : result (list (bool * list (Z * Z))) :=
    match subgraph_anchor with
    | None =>
        match P with
        | [] => Ok [(true, [])]
        | _ =>
            match anchors_loop anchor (nodes P) with
            | Ok [] => Ok [(false, [])]
            | r => r
            end
        end
    | Some pa =>
        match map_anchored_subgraph anchor pa with
        | Ok (b, m, _) => Ok [(b, m)]
        | Raise e => Raise e
        | OutOfFuel => OutOfFuel
        end
    end.

  (* for i in range(len(graph)): ... *)
  Fixpoint to_graph_loop (l : list Z) : result bool :=
    match l with
    | [] => Ok false
    | i :: t =>
        match map_subgraph i None with
        | Ok rs => if existsb fst rs then Ok true else to_graph_loop t
        | Raise e => Raise e
        | OutOfFuel => OutOfFuel
        end
    end.

  Definition map_subgraph_to_graph : result bool :=
    to_graph_loop (map Z.of_nat (seq 0 (List.length G))).
End Anchored.
