(** Operation sequences on the networkx.MultiGraph model, used only by the correspondence run
    that validates Base/NXMulti.v against the real networkx (harness/nxtie_multi.py).
    Definitions only. *)
From Coq Require Import ZArith List Bool String.
From FGV Require Import Base.Util Base.Bond Base.NX Base.NXMulti.
Import ListNotations.
Open Scope Z_scope.

Inductive mop :=
| MAddNode (n : Z) (a : nattr)
| MAddEdge (u v : Z) (l : label)            (* key=None *)
| MAddEdgeKey (u v k : Z) (l : label)       (* explicit key *)
| MRemoveNode (n : Z)                       (* only issued for existing nodes *)
| MCopy
| MCompose (h : mgraph)                     (* nx.compose(current, h) *)
| MComposeL (h : mgraph)                    (* nx.compose(h, current) *)
| MRelabel (m : list (Z * Z)).

Definition mapply_op (g : option mgraph) (o : mop) : option mgraph :=
  match g with
  | None => None
  | Some g =>
      match o with
      | MAddNode n a => Some (madd_node g n a)
      | MAddEdge u v l => madd_edge g u v l
      | MAddEdgeKey u v k l => Some (madd_edge_key g u v k l)
      | MRemoveNode n => Some (mremove_node g n)
      | MCopy => Some (mcopy g)
      | MCompose h => Some (mcompose g h)
      | MComposeL h => Some (mcompose h g)
      | MRelabel m => mrelabel_map m g
      end
  end.

Definition mrun_ops (ops : list mop) : option mgraph := fold_left mapply_op ops (Some mempty).

Definition edge4_eqb (a b : Z * Z * Z * label) : bool :=
  (fst (fst (fst a)) =? fst (fst (fst b))) && (snd (fst (fst a)) =? snd (fst (fst b)))
  && (snd (fst a) =? snd (fst b)) && label_eqb (snd a) (snd b).
Definition medge3_eqb (a b : Z * Z * label) : bool :=
  (fst (fst a) =? fst (fst b)) && (snd (fst a) =? snd (fst b)) && label_eqb (snd a) (snd b).

(* everything observable: the graph with all dict orders and keys, edges(keys, data),
   edges(n, data) for every node, and the collapse nx.Graph(M) *)
Definition mobserve_ok (g : option mgraph) (expect : mgraph) (es : list (Z * Z * Z * label))
                       (inc : list (Z * list (Z * Z * label))) (simple : graph) : bool :=
  match g with
  | None => false
  | Some g =>
      mgraph_eqb g expect && list_eqb edge4_eqb (medges g) es
      && list_eqb (fun a b => (fst a =? fst b) && list_eqb medge3_eqb (snd a) (snd b))
                  (map (fun n => (n, mincident g n)) (mnodes g)) inc
      && graph_eqb (to_simple g) simple
      && mwfb g
  end.
