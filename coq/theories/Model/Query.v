(** Model of fgutils/query.py: is_functional_group, FGQuery.__find_best_node_rec,
    FGQuery.__get_functional_groups, FGQuery.get (graph argument) and the tree cache of
    FGConfigProvider.get_tree.  Definitions only. *)
From Coq Require Import ZArith List Bool String.
From FGV Require Import Base.Util Base.StrMap Base.Bond Base.NX Base.Sym Model.Permute Model.Match
                        Model.Hydrogens Model.FGTree Gen.FGDefault.
Import ListNotations.
Open Scope Z_scope.

(* np.max(list(graph.nodes)): ValueError on an empty graph *)
Definition max_id_of (g : graph) : res Z :=
  match nodes g with
  | [] => Bad ValueErr
  | x :: t => Good (zmax_list x t)
  end.

(* sorted(l) for a list of ints *)
Definition sort_ids (l : list Z) : list Z := sorted_asc Z.ltb l.

(** * is_functional_group *)

(* fg_indices = [m_id for m_id, fg_id in _mapping if fg_id in config.group_atoms and m_id <= max_id] *)
Definition fg_indices_of (group_atoms : list Z) (max_id : Z) (m : list (Z * Z)) : list Z :=
  map fst (filter (fun '(m_id, fg_id) => zmem fg_id group_atoms && (m_id <=? max_id)) m).

(* for _is_fg, _mapping in mappings: ...   returns (is_fg, fg_indices); [cur] is the value of
   fg_indices before the loop (it is overwritten by every successful mapping) *)
Fixpoint pattern_loop (index : Z) (group_atoms : list Z) (max_id : Z)
                      (ms : list (bool * list (Z * Z))) (cur : list Z) : bool * list Z :=
  match ms with
  | [] => (false, cur)
  | (b, m) :: t =>
      if b then
        let idx := fg_indices_of group_atoms max_id m in
        if zmem index idx then (true, idx)                      (* break *)
        else pattern_loop index group_atoms max_id t idx
      else pattern_loop index group_atoms max_id t cur
  end.

(* for _is_fg, _ in mappings: is_fg = is_fg and not _is_fg; if not is_fg: break *)
Fixpoint anti_inner (ms : list (bool * list (Z * Z))) (is_fg : bool) : bool :=
  match ms with
  | [] => is_fg
  | (b, _) :: t =>
      let v := is_fg && negb b in
      if v then anti_inner t v else v
  end.

(* the loop over the anti-patterns (largest first); the inner break does not leave it *)
Fixpoint anti_loop (mp : mapper) (g : graph) (index : Z) (aps : list graph) (is_fg : bool) : res bool :=
  match aps with
  | [] => Good is_fg
  | ap :: t =>
      ms <- of_match (map_subgraph g ap mp index None) ;;
      anti_loop mp g index t (anti_inner ms is_fg)
  end.

Definition is_functional_group (mp : mapper) (g : graph) (index : Z) (c : fgconfig) (max_id : option Z)
  : res (bool * list Z) :=
  mx <- match max_id with Some m => Good m | None => max_id_of g end ;;
  ms <- of_match (map_subgraph g (fg_pattern c) mp index None) ;;
  let '(is_fg, fg_idx) := pattern_loop index (fg_group_atoms c) mx ms [] in
  is_fg' <- (if is_fg
             then anti_loop mp g index (sorted_desc graph_size_ltb (fg_anti c)) is_fg
             else Good false) ;;
  Good (is_fg', sort_ids fg_idx).

(** * __find_best_node_rec *)

(* the body of  "for node in nodes";  [below nd] is the recursive call on node.children *)
Fixpoint fb_loop (mp : mapper) (ns : list (tnode (A := fgconfig))) (g : graph) (idx : Z) (max_id : option Z)
                 (below : tnode (A := fgconfig) -> res (option nat * list Z))
                 (l : list nat) (best : option nat) (ind : list Z) : res (option nat * list Z) :=
  match l with
  | [] => Good (best, ind)
  | i :: t =>
      match nth_error ns i with
      | None => Bad InternalErr
      | Some nd =>
          '(is_fg, fg_idx) <- is_functional_group mp g idx (n_cfg nd) max_id ;;
          if is_fg then
            '(r_node, r_idx) <- below nd ;;
            match r_node with
            | None => fb_loop mp ns g idx max_id below t (Some i) fg_idx
            | Some _ => fb_loop mp ns g idx max_id below t r_node r_idx
            end
          else fb_loop mp ns g idx max_id below t best ind
      end
  end.

Fixpoint find_best_node_rec (fuel : nat) (mp : mapper) (ns : list (tnode (A := fgconfig))) (nodes : list nat)
                            (g : graph) (idx : Z) (max_id : option Z) : res (option nat * list Z) :=
  match fuel with
  | O => Bad FuelErr
  | S f =>
      fb_loop mp ns g idx max_id
              (fun nd => find_best_node_rec f mp ns (n_children nd) g idx max_id)
              nodes None []
  end.

(** * __get_functional_groups *)

(* [n_id for n_id, n_sym in graph.nodes(data=SYMBOL_KEY) if n_sym not in ["H", "C"]] *)
Definition candidate_excluded : list string := default_candidate_excluded.   (* generated from query.py *)
Definition fg_candidates (g : graph) : list Z :=
  map fst (filter (fun '(_, (a, _)) => negb (sym_in (a_sym a) candidate_excluded)) g).

(* list.remove(x): the first occurrence *)
Fixpoint remove_first (x : Z) (l : list Z) : list Z :=
  match l with
  | [] => []
  | y :: t => if x =? y then t else y :: remove_first x t
  end.

(* for i in indices: if i in fg_candidate_ids: ...remove(i)  elif i in unidentified_ids: ...remove(i) *)
Definition strike (indices : list Z) (cands unident : list Z) : list Z * list Z :=
  fold_left (fun '(c, u) i =>
               if zmem i c then (remove_first i c, u)
               else if zmem i u then (c, remove_first i u)
               else (c, u))
            indices (cands, unident).

Definition groups := list (string * list Z).

(* the while loop; every iteration pops one candidate, so fuel = 1 + number of candidates *)
Fixpoint worklist (fuel : nat) (mp : mapper) (tr : tree (A := fgconfig)) (g : graph) (max_id : option Z)
                  (cands unident : list Z) (acc : groups) : res groups :=
  match fuel with
  | O => Bad FuelErr
  | S f =>
      match cands with
      | [] => Good acc
      | atom_id :: rest =>
          '(node, indices) <- find_best_node_rec (S (List.length (t_nodes tr))) mp (t_nodes tr) (t_roots tr)
                                                 g atom_id max_id ;;
          match node with
          | None => worklist f mp tr g max_id rest (unident ++ [atom_id])%list acc
          | Some i =>
              match nth_error (t_nodes tr) i with
              | None => Bad InternalErr
              | Some nd =>
                  if zmem atom_id indices then
                    let '(c', u') := strike indices rest unident in
                    worklist f mp tr g max_id c' u' (acc ++ [(fg_name (n_cfg nd), indices)])%list
                  else Bad AssertErr            (* assert atom_id in indices *)
              end
          end
      end
  end.

(* everything after  roots = self.config_provider.get_tree() *)
Definition get_functional_groups_with (mp : mapper) (tr : tree (A := fgconfig)) (req_h : bool) (g : graph)
  : res groups :=
  let cands := fg_candidates g in
  '(max_id, g') <- (if req_h then
                      mx <- max_id_of g ;;
                      match add_implicit_hydrogens g with      (* on copy.deepcopy(graph): same dict orders *)
                      | Some g' => Good (Some mx, g')
                      | None => Bad TypeErr
                      end
                    else Good (None, g)) ;;
  worklist (S (List.length cands)) mp tr g' max_id cands [] [].

(** * The query object: FGQuery + its FGConfigProvider.  The only state that changes is the
      provider's cached tree (name-mangled __tree_roots). *)
Record fgquery := mkQuery {
  q_mapper : mapper;
  q_configs : list fgconfig;
  q_req_h : bool;
  q_tree : option (tree (A := fgconfig))
}.

(* FGQuery(mapper, config, require_implicit_hydrogen) with a list of FGConfig objects *)
Definition fresh_query (mp : mapper) (cfgs : list fgconfig) (req_h : bool) : fgquery :=
  mkQuery mp cfgs req_h None.

(* FGConfigProvider.get_tree: build on first use, keep afterwards; a failed build caches nothing *)
Definition get_tree (q : fgquery) : res (tree (A := fgconfig)) * fgquery :=
  match q_tree q with
  | Some tr => (Good tr, q)
  | None =>
      match build_config_tree_from_list (q_mapper q) (q_configs q) with
      | Good tr => (Good tr, mkQuery (q_mapper q) (q_configs q) (q_req_h q) (Some tr))
      | Bad e => (Bad e, q)
      end
  end.

(* FGQuery.get(graph): the answer and the object afterwards *)
Definition get (q : fgquery) (g : graph) : res groups * fgquery :=
  let '(rt, q') := get_tree q in
  (tr <- rt ;; get_functional_groups_with (q_mapper q) tr (q_req_h q) g, q').

(* the answer of a fresh object *)
Definition query (mp : mapper) (cfgs : list fgconfig) (req_h : bool) (g : graph) : res groups :=
  fst (get (fresh_query mp cfgs req_h) g).
