(** Abbreviations used by the harness when it writes graphs as Coq terms (harness/proxycfg.py):
    plain constructors under short names, so that long enumerations elaborate quickly.
    Definitions only; every abbreviation unfolds to the constructor term it stands for. *)
From Coq Require Import ZArith List Bool String.
From FGV Require Import Base.Util Base.Bond Base.NX Base.NXMulti.
Import ListNotations.
Open Scope Z_scope.

(* node attribute dicts as the parser writes them: symbol, labels, is_labeled (+ aam) *)
Definition na (s : string) : nattr := mkNA (Some s) None (Some []) (Some false) None.
Definition nam (s : string) (k : Z) : nattr := mkNA (Some s) (Some k) (Some []) (Some false) None.
Definition nl (s : string) (ls : list string) : nattr := mkNA (Some s) None (Some ls) (Some true) None.
Definition nlm (s : string) (ls : list string) (k : Z) : nattr := mkNA (Some s) (Some k) (Some ls) (Some true) None.

(* simple graph: node entry, adjacency entries *)
Definition Nd (n : Z) (a : nattr) (ad : adjl) : Z * (nattr * adjl) := (n, (a, ad)).
Definition Es (v o : Z) : Z * label := (v, Scalar o).
Definition Ep (v g h : Z) : Z * label := (v, Pair g h).

(* multigraph: node entry, adjacency entries with the single key 0, general key dicts *)
Definition Md (n : Z) (a : nattr) (ad : madjl) : Z * (nattr * madjl) := (n, (a, ad)).
Definition Ms (v o : Z) : Z * keyd := (v, [(0, Scalar o)]).
Definition Mp (v g h : Z) : Z * keyd := (v, [(0, Pair g h)]).
Definition Mk (v : Z) (kd : keyd) : Z * keyd := (v, kd).
