(** Facts about [add_nodes_from], [add_edges_from] and [copy] of the networkx model:
    for a well-formed graph, [copy g] has the same nodes (in the same order), attributes and
    edge labels as g and is well-formed. *)
From Coq Require Import ZArith List Bool String Lia.
From FGV Require Import Base.Util Base.UtilFacts Base.Bond Base.NX Base.NXFacts.
Import ListNotations.
Open Scope Z_scope.

(** * add_nodes_from *)

Lemma add_nodes_from_cons g n a l :
  add_nodes_from g ((n, a) :: l) = add_nodes_from (add_node g n a) l.
Proof. reflexivity. Qed.

Lemma edge_label_add_nodes_from l : forall g u v,
  edge_label (add_nodes_from g l) u v = edge_label g u v.
Proof.
  induction l as [|[n a] t IH]; intros g u v; [reflexivity|].
  rewrite add_nodes_from_cons, IH. apply edge_label_add_node.
Qed.

Lemma adj_add_nodes_from l : forall g m, adj (add_nodes_from g l) m = adj g m.
Proof.
  induction l as [|[n a] t IH]; intros g m; [reflexivity|].
  rewrite add_nodes_from_cons, IH. apply adj_add_node.
Qed.

Lemma wf_add_nodes_from l : forall g, wf g -> wf (add_nodes_from g l).
Proof.
  induction l as [|[n a] t IH]; intros g H; [exact H|].
  rewrite add_nodes_from_cons. apply IH. apply wf_add_node. exact H.
Qed.

Lemma node_attr_add_nodes_from_fresh l : forall g n,
  NoDup (map fst l) ->
  (forall k, In k (map fst l) -> node_attr g k = None) ->
  node_attr (add_nodes_from g l) n =
  match alookup n l with Some a => Some a | None => node_attr g n end.
Proof.
  induction l as [|[k a] t IH]; intros g n Hnd Hfresh; [reflexivity|].
  rewrite add_nodes_from_cons. simpl in Hnd. inversion Hnd as [|? ? Hni Hnt]; subst.
  rewrite IH.
  - simpl. rewrite node_attr_add_node. destruct (Z.eqb_spec n k) as [->|Hne].
    + rewrite (Hfresh k) by (left; reflexivity).
      destruct (alookup k t) eqn:El; [|reflexivity].
      exfalso. apply Hni. eapply alookup_Some_key. exact El.
    + reflexivity.
  - exact Hnt.
  - intros k' Hk'. rewrite node_attr_add_node. destruct (Z.eqb_spec k' k) as [->|Hne].
    + contradiction.
    + apply Hfresh. right. exact Hk'.
Qed.

Lemma nodes_add_nodes_from_fresh l : forall g,
  NoDup (map fst l) ->
  (forall k, In k (map fst l) -> has_node g k = false) ->
  nodes (add_nodes_from g l) = nodes g ++ map fst l.
Proof.
  induction l as [|[k a] t IH]; intros g Hnd Hfresh; [simpl; rewrite app_nil_r; reflexivity|].
  rewrite add_nodes_from_cons. simpl in Hnd. inversion Hnd as [|? ? Hni Hnt]; subst.
  rewrite IH.
  - rewrite nodes_add_node, (Hfresh k) by (left; reflexivity). rewrite <- app_assoc. reflexivity.
  - exact Hnt.
  - intros k' Hk'. rewrite has_node_add_node. destruct (Z.eqb_spec k' k) as [->|Hne].
    + contradiction.
    + apply Hfresh. right. exact Hk'.
Qed.

Lemma alookup_nodes_data g n : alookup n (nodes_data g) = node_attr g n.
Proof.
  unfold nodes_data, node_attr. induction g as [|[k [a ad]] t IH]; simpl; [reflexivity|].
  destruct (n =? k); [reflexivity|exact IH].
Qed.

Lemma map_fst_nodes_data g : map fst (nodes_data g) = nodes g.
Proof.
  unfold nodes_data, nodes. rewrite map_map. apply map_ext. intros [k [a ad]]. reflexivity.
Qed.

(** * add_edges_from *)

Lemma add_edges_from_cons g u v lb l :
  add_edges_from g ((u, v, lb) :: l) = add_edges_from (add_edge g u v lb) l.
Proof. reflexivity. Qed.

Lemma wf_add_edges_from l : forall g, wf g -> wf (add_edges_from g l).
Proof.
  induction l as [|[[u v] lb] t IH]; intros g H; [exact H|].
  rewrite add_edges_from_cons. apply IH. apply wf_add_edge. exact H.
Qed.

(* endpoints already present: nodes and attributes stay *)
Lemma node_attr_add_edges_from l : forall g n,
  (forall u v lb, In (u, v, lb) l -> has_node g u = true /\ has_node g v = true) ->
  node_attr (add_edges_from g l) n = node_attr g n.
Proof.
  induction l as [|[[u v] lb] t IH]; intros g n Hin; [reflexivity|].
  rewrite add_edges_from_cons. destruct (Hin u v lb (or_introl eq_refl)) as (Hu & Hv).
  rewrite IH.
  - rewrite node_attr_add_edge. destruct (node_attr g n) eqn:En; [reflexivity|].
    destruct (Z.eqb_spec n u) as [->|Hnu].
    + apply node_attr_has_node in Hu. destruct Hu as (a & Ha). congruence.
    + destruct (Z.eqb_spec n v) as [->|Hnv]; [|reflexivity].
      apply node_attr_has_node in Hv. destruct Hv as (a & Ha). congruence.
  - intros u' v' lb' H'. rewrite !has_node_add_edge.
    destruct (Hin u' v' lb' (or_intror H')) as (-> & ->). rewrite !orb_true_r. split; reflexivity.
Qed.

Lemma nodes_add_edges_from l : forall g,
  (forall u v lb, In (u, v, lb) l -> has_node g u = true /\ has_node g v = true) ->
  nodes (add_edges_from g l) = nodes g.
Proof.
  induction l as [|[[u v] lb] t IH]; intros g Hin; [reflexivity|].
  rewrite add_edges_from_cons. destruct (Hin u v lb (or_introl eq_refl)) as (Hu & Hv).
  rewrite IH.
  - rewrite nodes_add_edge. cbv zeta. rewrite Hu, Hv. reflexivity.
  - intros u' v' lb' H'. rewrite !has_node_add_edge.
    destruct (Hin u' v' lb' (or_intror H')) as (-> & ->). rewrite !orb_true_r. split; reflexivity.
Qed.

(* the label that the last matching entry of the list leaves on {x,y} *)
Fixpoint last_label (l : list (Z * Z * label)) (x y : Z) (d : option label) : option label :=
  match l with
  | [] => d
  | (u, v, lb) :: t =>
      last_label t x y (if ((x =? u) && (y =? v)) || ((x =? v) && (y =? u)) then Some lb else d)
  end.

Lemma edge_label_add_edges_from l : forall g x y,
  edge_label (add_edges_from g l) x y = last_label l x y (edge_label g x y).
Proof.
  induction l as [|[[u v] lb] t IH]; intros g x y; [reflexivity|].
  rewrite add_edges_from_cons, IH, edge_label_add_edge. reflexivity.
Qed.

(* a list whose entries all agree with a symmetric label function f *)
Lemma last_label_consistent (f : Z -> Z -> option label) l x y d :
  (forall u v lb, In (u, v, lb) l -> f u v = Some lb /\ f v u = Some lb) ->
  last_label l x y d =
  if existsb (fun '(u, v, _) => ((x =? u) && (y =? v)) || ((x =? v) && (y =? u))) l
  then f x y else d.
Proof.
  revert d. induction l as [|[[u v] lb] t IH]; intros d Hc; [reflexivity|].
  simpl. rewrite IH by (intros u' v' lb' H'; apply Hc; right; exact H').
  destruct (Hc u v lb (or_introl eq_refl)) as (H1 & H2).
  destruct (existsb _ t) eqn:Ex.
  - rewrite orb_true_r. reflexivity.
  - rewrite orb_false_r.
    destruct (Z.eqb_spec x u) as [->|Hxu]; destruct (Z.eqb_spec y v) as [->|Hyv]; simpl.
    + symmetry. exact H1.
    + destruct (Z.eqb_spec u v) as [->|]; simpl; [|reflexivity].
      destruct (Z.eqb_spec y v) as [->|]; [contradiction|reflexivity].
    + destruct (Z.eqb_spec x v) as [->|]; simpl; [|reflexivity].
      destruct (Z.eqb_spec v u) as [->|]; [contradiction|reflexivity].
    + destruct (Z.eqb_spec x v) as [->|]; simpl; [|reflexivity].
      destruct (Z.eqb_spec y u) as [->|]; [|reflexivity]. symmetry. exact H2.
Qed.

(** * adj_pairs *)

Lemma in_adj_pairs g u v l :
  In (u, v, l) (adj_pairs g) <-> exists a ad, In (u, (a, ad)) g /\ In (v, l) ad.
Proof.
  unfold adj_pairs. rewrite in_flat_map. split.
  - intros ([u' [a ad]] & Hin & Hm). apply in_map_iff in Hm.
    destruct Hm as ([v' l'] & Heq & Hin2). injection Heq as -> -> ->. exists a, ad. auto.
  - intros (a & ad & H1 & H2). exists (u, (a, ad)). split; [exact H1|].
    apply in_map_iff. exists (v, l). auto.
Qed.

Lemma in_adj_pairs_wf g u v l : wf g -> In (u, v, l) (adj_pairs g) <-> edge_label g u v = Some l.
Proof.
  intros Hwf. rewrite in_adj_pairs. pose proof Hwf as (Hnd & _). split.
  - intros (a & ad & H1 & H2). apply In_adj_edge_label; [exact Hwf|].
    rewrite (In_entry_adj g u a ad Hnd H1). exact H2.
  - intros H. pose proof (edge_label_In_adj _ _ _ _ H) as Hin. unfold adj in Hin.
    destruct (alookup u g) as [[a ad]|] eqn:E0; [|contradiction].
    exists a, ad. split; [apply alookup_In; exact E0|exact Hin].
Qed.

(** * copy *)

Section Copy.
  Variable g : graph.
  Hypothesis Hwf : wf g.

  Let g0 := add_nodes_from empty_graph (nodes_data g).

  Lemma copy_g0_node_attr n : node_attr g0 n = node_attr g n.
  Proof.
    unfold g0. rewrite node_attr_add_nodes_from_fresh.
    - rewrite alookup_nodes_data. destruct (node_attr g n); reflexivity.
    - rewrite map_fst_nodes_data. apply Hwf.
    - intros k _. reflexivity.
  Qed.

  Lemma copy_g0_has_node n : has_node g0 n = has_node g n.
  Proof.
    apply eq_true_iff_eq. rewrite !node_attr_has_node, copy_g0_node_attr. reflexivity.
  Qed.

  Lemma copy_pairs_present u v lb :
    In (u, v, lb) (adj_pairs g) -> has_node g0 u = true /\ has_node g0 v = true.
  Proof.
    intros H. apply (in_adj_pairs_wf g u v lb Hwf) in H. rewrite !copy_g0_has_node.
    eapply wf_edge_nodes; eauto.
  Qed.

  Theorem node_attr_copy n : node_attr (copy g) n = node_attr g n.
  Proof.
    unfold copy. fold g0. rewrite node_attr_add_edges_from; [apply copy_g0_node_attr|].
    apply copy_pairs_present.
  Qed.

  Theorem has_node_copy n : has_node (copy g) n = has_node g n.
  Proof.
    apply eq_true_iff_eq. rewrite !node_attr_has_node, node_attr_copy. reflexivity.
  Qed.

  Theorem nodes_copy : nodes (copy g) = nodes g.
  Proof.
    unfold copy. fold g0. rewrite nodes_add_edges_from by apply copy_pairs_present.
    unfold g0. rewrite nodes_add_nodes_from_fresh.
    - rewrite map_fst_nodes_data. reflexivity.
    - rewrite map_fst_nodes_data. apply Hwf.
    - intros k _. reflexivity.
  Qed.

  Theorem edge_label_copy u v : edge_label (copy g) u v = edge_label g u v.
  Proof.
    unfold copy. fold g0. rewrite edge_label_add_edges_from.
    unfold g0. rewrite edge_label_add_nodes_from.
    rewrite (last_label_consistent (edge_label g)).
    - change (edge_label empty_graph u v) with (@None label).
      destruct (existsb _ (adj_pairs g)) eqn:Ex; [reflexivity|].
      destruct (edge_label g u v) as [l|] eqn:El; [|reflexivity].
      exfalso. apply (in_adj_pairs_wf g u v l Hwf) in El.
      assert (Ht : existsb (fun '(u0, v0, _) => (u =? u0) && (v =? v0) || (u =? v0) && (v =? u0))
                     (adj_pairs g) = true).
      { apply existsb_exists. exists (u, v, l). split; [exact El|].
        rewrite !Z.eqb_refl. reflexivity. }
      congruence.
    - intros u' v' lb H. apply (in_adj_pairs_wf g u' v' lb Hwf) in H.
      split; [exact H|]. destruct Hwf as (_ & _ & Hs). apply Hs. exact H.
  Qed.

  Theorem wf_copy : wf (copy g).
  Proof.
    unfold copy. apply wf_add_edges_from. apply wf_add_nodes_from. apply wf_empty.
  Qed.
End Copy.
