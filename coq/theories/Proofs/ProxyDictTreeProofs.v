(** Proofs about the construction paths (Model/ProxyDict.v) and build_group_tree (Model/ProxyTree.v). *)
From Coq Require Import ZArith List Bool String Lia Arith.
From FGV Require Import Base.Util Base.Bond Base.NX Base.NXMulti Model.Proxy Model.ProxyGen Model.ProxyDict Model.ProxyTree
  Spec.ProxyGenSpec Spec.ProxyGenCheck.
Import ListNotations.

(** * the canonical dict form denotes the configuration it was written from *)

Section Canon.
Variable P : Type.
Variable parse : P -> mgraph.

Lemma graphs_of_canon (graphs : list (P * list Z)) :
  graphs_of P parse (map (fun pa => JGDict (Some (Some (fst pa))) (Some (snd pa)) []) graphs)
  = JOk (map (fun pa => mkPG (parse (fst pa)) (snd pa)) graphs).
Proof. induction graphs as [|[p a] t IH]; simpl; [reflexivity|]. rewrite IH. reflexivity. Qed.

Lemma group_of_canon name (graphs : list (P * list Z)) :
  graphs <> [] ->
  group_of P parse name (canon_group P graphs) = JOk (mkGrp name (map (fun pa => mkPG (parse (fst pa)) (snd pa)) graphs)).
Proof.
  intros Hne. unfold canon_group, group_of, from_dict_single. rewrite graphs_of_canon.
  destruct graphs; [congruence|reflexivity].
Qed.

Theorem from_dict_canon (gl : list (string * list (P * list Z))) :
  Forall (fun kg => snd kg <> []) gl ->
  from_dict P parse (canon_groups P gl) = JOk (denote_groups P parse gl).
Proof.
  induction gl as [|[k graphs] t IH]; intros H; [reflexivity|].
  inversion H as [|? ? H1 H2]; subst. simpl in H1.
  change (canon_groups P ((k, graphs) :: t)) with ((k, canon_group P graphs) :: canon_groups P t).
  cbn [from_dict]. rewrite (group_of_canon k graphs H1), (IH H2). reflexivity.
Qed.

Theorem proxy_from_dict_canon cores (gl : list (string * list (P * list Z))) aam :
  cores <> [] -> gl <> [] -> Forall (fun kg => snd kg <> []) gl ->
  proxy_from_dict P parse (JKList cores) (canon_groups P gl) (Some aam)
  = JOk (mkCfg (map (fun p => mkPG (parse p) [0%Z]) cores) (denote_groups P parse gl) aam).
Proof.
  intros Hc Hg Hall. unfold proxy_from_dict. rewrite (from_dict_canon gl Hall).
  destruct cores; [congruence|]. destruct gl; [congruence|]. reflexivity.
Qed.

End Canon.

(* With the parsed graphs themselves as patterns, writing a configuration in canonical dict form and
   normalising it is the identity: for every configuration whose groups are stored under their own
   names and have graphs, and whose core graphs carry the default anchor. *)
Definition dict_groups_of (gs : groups) : list (string * list (mgraph * list Z)) :=
  map (fun kg => (fst kg, map (fun pg => (pg_graph pg, pg_anchor pg)) (gr_graphs (snd kg)))) gs.

Definition dict_representable (cfg : config) : Prop :=
  cfg_core cfg <> [] /\ cfg_groups cfg <> []
  /\ Forall (fun c => pg_anchor c = [0%Z]) (cfg_core cfg)
  /\ Forall (fun kg => gr_name (snd kg) = fst kg /\ gr_graphs (snd kg) <> []) (cfg_groups cfg).

Lemma denote_dict_groups gs :
  Forall (fun kg => gr_name (snd kg) = fst kg /\ gr_graphs (snd kg) <> []) gs ->
  denote_groups mgraph (fun g => g) (dict_groups_of gs) = gs.
Proof.
  induction gs as [|[k [n graphs]] t IH]; intros H; [reflexivity|].
  inversion H as [|? ? [H1 _] H2]; subst. simpl in *. rewrite (IH H2). subst.
  f_equal. f_equal. f_equal. rewrite map_map. rewrite <- (map_id graphs) at 2. apply map_ext. intros [g a]. reflexivity.
Qed.

Theorem from_dict_identity cfg :
  dict_representable cfg ->
  proxy_from_dict mgraph (fun g => g) (JKList (map pg_graph (cfg_core cfg)))
                  (canon_groups mgraph (dict_groups_of (cfg_groups cfg))) (Some (cfg_aam cfg))
  = JOk cfg.
Proof.
  intros [Hc [Hg [Ha Hn]]]. rewrite proxy_from_dict_canon.
  - rewrite (denote_dict_groups _ Hn). destruct cfg as [core gs aam]. simpl in *. f_equal. f_equal.
    rewrite map_map. rewrite <- (map_id core) at 2. apply map_ext_in. intros [g a] Hin.
    rewrite Forall_forall in Ha. specialize (Ha _ Hin). simpl in *. subst. reflexivity.
  - destruct (cfg_core cfg); [congruence|discriminate].
  - unfold dict_groups_of. destruct (cfg_groups cfg); [congruence|discriminate].
  - unfold dict_groups_of. apply Forall_forall. intros [k l] Hin. apply in_map_iff in Hin.
    destruct Hin as [[k' grp] [Heq Hin]]. inversion Heq; subst. simpl.
    rewrite Forall_forall in Hn. destruct (Hn _ Hin) as [_ Hne]. simpl in Hne.
    destruct (gr_graphs grp); [congruence|discriminate].
Qed.

(** * build_group_tree: what the tree counts *)

Definition L1 (es : list tentry) : nat := List.length (filter (fun e => Nat.eqb (List.length (snd e)) 1) es).

Definition step (f : nat) (gl : list pgroup) (name : string)
  (st : tres (list tentry * list string * nat)) (k : string) : tres (list tentry * list string * nat) :=
  match st with
  | TErr e => TErr e
  | TOk (sub, kids, nxt) =>
      match tlookup k gl with
      | None => TErr (TKeyError k)
      | Some g' =>
          match add_node f gl g' nxt (Some name) with
          | TErr e => TErr e
          | TOk (es, nxt') => TOk ((sub ++ es)%list, (kids ++ [node_name (gr_name g') nxt])%list, nxt')
          end
      end
  end.

Lemma add_node_unfold f gl grp idx parent :
  add_node (S f) gl grp idx parent =
  match fold_left (step f gl (node_name (gr_name grp) idx)) (tree_refs grp) (TOk ([], [], S idx)) with
  | TErr e => TErr e
  | TOk (sub, kids, nxt) =>
      TOk ((node_name (gr_name grp) idx, (kids ++ match parent with Some p => [p] | None => [] end)%list) :: sub, nxt)
  end.
Proof. reflexivity. Qed.

Lemma fold_step_err f gl name refs e : fold_left (step f gl name) refs (TErr e) = TErr e.
Proof. induction refs as [|k t IH]; [reflexivity|]. simpl. exact IH. Qed.

Definition sumk (F : pgroup -> nat) (gl : list pgroup) (refs : list string) : nat :=
  list_sum (map (fun k => match tlookup k gl with Some g' => F g' | None => O end) refs).

Lemma L1_app a b : L1 (a ++ b) = (L1 a + L1 b)%nat.
Proof. unfold L1. rewrite filter_app, app_length. reflexivity. Qed.

Section Counts.
Variable f : nat.
Variable gl : list pgroup.
Hypothesis IH : forall grp idx p es nxt,
  add_node f gl grp idx (Some p) = TOk (es, nxt) ->
  List.length es = tnodes f gl grp /\ nxt = (idx + List.length es)%nat /\ L1 es = tleaves f gl grp.

Lemma fold_step_counts name refs : forall sub kids nxt sub' kids' nxt',
  fold_left (step f gl name) refs (TOk (sub, kids, nxt)) = TOk (sub', kids', nxt') ->
  List.length kids' = (List.length kids + List.length refs)%nat
  /\ List.length sub' = (List.length sub + sumk (tnodes f gl) gl refs)%nat
  /\ L1 sub' = (L1 sub + sumk (tleaves f gl) gl refs)%nat
  /\ nxt' = (nxt + sumk (tnodes f gl) gl refs)%nat.
Proof.
  induction refs as [|k t IHr]; intros sub kids nxt sub' kids' nxt' H.
  - simpl in H. inversion H; subst. unfold sumk. simpl. repeat split; lia.
  - simpl in H. unfold sumk. simpl. fold (sumk (tnodes f gl) gl t). fold (sumk (tleaves f gl) gl t).
    destruct (tlookup k gl) as [g'|] eqn:Ek; [|rewrite fold_step_err in H; discriminate].
    destruct (add_node f gl g' nxt (Some name)) as [[es nx]|e] eqn:Ea; [|rewrite fold_step_err in H; discriminate].
    destruct (IH g' nxt name es nx Ea) as [H1 [H2 H3]].
    destruct (IHr _ _ _ _ _ _ H) as [K1 [K2 [K3 K4]]].
    rewrite app_length in K1, K2. rewrite L1_app in K3. simpl in K1. repeat split; lia.
Qed.

End Counts.

Lemma add_node_counts fuel gl : forall grp idx parent es nxt,
  add_node fuel gl grp idx parent = TOk (es, nxt) ->
  List.length es = tnodes fuel gl grp /\ nxt = (idx + List.length es)%nat
  /\ match parent with
     | Some _ => L1 es = tleaves fuel gl grp
     | None => tree_leaves es = tleaves fuel gl grp
     end.
Proof.
  induction fuel as [|f IHf]; intros grp idx parent es nxt H; [discriminate|].
  assert (IH : forall grp idx p es nxt, add_node f gl grp idx (Some p) = TOk (es, nxt) ->
            List.length es = tnodes f gl grp /\ nxt = (idx + List.length es)%nat /\ L1 es = tleaves f gl grp).
  { intros g i p e n E. exact (IHf g i (Some p) e n E). }
  rewrite add_node_unfold in H.
  destruct (fold_left (step f gl (node_name (gr_name grp) idx)) (tree_refs grp) (TOk ([], [], S idx)))
    as [[[sub kids] nx]|e] eqn:Ef; [|discriminate].
  inversion H; subst. clear H.
  destruct (fold_step_counts f gl IH _ _ _ _ _ _ _ _ Ef) as [K1 [K2 [K3 K4]]].
  simpl in K1, K2, K3. cbn [tnodes tleaves]. fold (sumk (tnodes f gl) gl (tree_refs grp)).
  split; [simpl; lia|]. split; [simpl; lia|].
  assert (Hkids : kids = [] <-> tree_refs grp = []).
  { split; intros E; [rewrite E in K1|rewrite E in K1]; simpl in K1.
    - destruct (tree_refs grp); [reflexivity|simpl in K1; lia].
    - destruct kids; [reflexivity|simpl in K1; lia]. }
  destruct parent as [p|].
  - unfold L1 at 1. simpl. fold (L1 sub). rewrite app_length. simpl.
    destruct (tree_refs grp) as [|r rs] eqn:Er.
    + rewrite (proj2 Hkids eq_refl). simpl. unfold sumk in K3. simpl in K3. unfold L1 in K3. simpl in K3. lia.
    + assert (Hk : kids <> []) by (intros E; apply Hkids in E; discriminate).
      destruct kids as [|k0 kt]; [congruence|]. simpl.
      replace (Nat.eqb (List.length kt + 1) 0) with false by (symmetry; apply Nat.eqb_neq; lia).
      simpl. fold (L1 sub). rewrite K3. unfold L1. simpl. reflexivity.
  - unfold tree_leaves. rewrite app_nil_r. fold (L1 sub).
    destruct (tree_refs grp) as [|r rs] eqn:Er.
    + rewrite (proj2 Hkids eq_refl). unfold sumk in K3. simpl in K3. unfold L1 in K3. simpl in K3. unfold L1. lia.
    + assert (Hk : kids <> []) by (intros E; apply Hkids in E; discriminate).
      destruct kids as [|k0 kt]; [congruence|]. rewrite K3. unfold L1. simpl. reflexivity.
Qed.

(* the model of build_group_tree: node count and leaf count of the tree it returns *)
Theorem group_tree_counts core_name cfg es :
  group_tree core_name cfg = TOk es ->
  let gl := map snd (cfg_groups cfg) in
  let core := mkGrp core_name (cfg_core cfg) in
  List.length es = tnodes (tree_fuel gl) gl core /\ tree_leaves es = tleaves (tree_fuel gl) gl core.
Proof.
  unfold group_tree. intros H.
  destruct (add_node (tree_fuel (map snd (cfg_groups cfg))) (map snd (cfg_groups cfg))
                     (mkGrp core_name (cfg_core cfg)) 0 None) as [[es' nxt]|e] eqn:E; [|discriminate].
  inversion H; subst. destruct (add_node_counts _ _ _ _ _ _ _ E) as [H1 [_ H3]]. split; assumption.
Qed.

(** * the docstring claim "the number of leaves is the number of possible samples" is false *)

Open Scope string_scope.
Open Scope Z_scope.

Definition tr_atom (s : string) : pgraph := mkPG [(0, (mkNA (Some s) None (Some []) (Some false) None, []))] [0].
Definition tr_lab (ls : list string) : nattr := mkNA (Some "#") None (Some ls) (Some true) None.

(* Proxy("C{g}", ProxyGroup("g", ["C", "O", "N"])): 3 samples, the tree core_#0 - g_#1 has 1 leaf *)
Definition tree_cfg1 : config :=
  mkCfg [mkPG [(0, (mkNA (Some "C") None (Some []) (Some false) None, [(1, [(0, Scalar 2)])]));
               (1, (tr_lab ["g"], [(0, [(0, Scalar 2)])]))] [0]]
        [("g", mkGrp "g" [tr_atom "C"; tr_atom "O"; tr_atom "N"])] true.

(* Proxy("{g}{g}", ProxyGroup("g", ["C", "O"])): 2 * 2 = 4 samples, the tree has 1 + 1 = 2 leaves *)
Definition tree_cfg2 : config :=
  mkCfg [mkPG [(0, (tr_lab ["g"], [(1, [(0, Scalar 2)])])); (1, (tr_lab ["g"], [(0, [(0, Scalar 2)])]))] [0]]
        [("g", mkGrp "g" [tr_atom "C"; tr_atom "O"])] true.

Theorem group_tree_claim_refuted :
  (cfg_hypb tree_cfg1 = true
   /\ group_tree "core" tree_cfg1 = TOk [("core_#0", ["g_#1"]); ("g_#1", ["core_#0"])]
   /\ tree_leaves [("core_#0", ["g_#1"]); ("g_#1", ["core_#0"])] = 1%nat
   /\ count_cfg tree_cfg1 = 3%nat /\ List.length (fst (proxy_all tree_cfg1)) = 3%nat)
  /\ (cfg_hypb tree_cfg2 = true
      /\ group_tree "core" tree_cfg2
         = TOk [("core_#0", ["g_#1"; "g_#2"]); ("g_#1", ["core_#0"]); ("g_#2", ["core_#0"])]
      /\ tree_leaves [("core_#0", ["g_#1"; "g_#2"]); ("g_#1", ["core_#0"]); ("g_#2", ["core_#0"])] = 2%nat
      /\ count_cfg tree_cfg2 = 4%nat /\ List.length (fst (proxy_all tree_cfg2)) = 4%nat).
Proof. vm_compute. repeat split; reflexivity. Qed.
