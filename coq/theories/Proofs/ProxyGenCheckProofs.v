(** Soundness of the decidable hypotheses of the C14 theorems (cfg_okb, rankedb, acyclicb). *)
From Coq Require Import ZArith List Bool String Lia Permutation Arith.
From FGV Require Import Base.Util Base.UtilFacts Base.Bond Base.NX Base.NXFacts Base.NXMulti Model.Aam Model.Proxy
  Model.Its Model.ProxyGen Spec.ProxySpec Spec.ProxyCheck Spec.ProxyGenSpec Spec.ProxyGenCheck
  Proofs.ProxyGenUtil.
Import ListNotations.
Open Scope Z_scope.

Lemma list_eqb_eq {A} (eqb : A -> A -> bool) :
  (forall a b, eqb a b = true -> a = b) -> forall x y, list_eqb eqb x y = true -> x = y.
Proof.
  intros H. induction x as [|a x IH]; destruct y as [|b y]; simpl; try discriminate; [reflexivity|].
  intros E. apply andb_true_iff in E. destruct E as [E1 E2]. f_equal; [apply H; exact E1|apply IH; exact E2].
Qed.

Lemma keyd_eqb_eq x y : keyd_eqb x y = true -> x = y.
Proof.
  apply list_eqb_eq. intros [k l] [k' l']. simpl. intros E. apply andb_true_iff in E. destruct E as [E1 E2].
  apply Z.eqb_eq in E1. apply label_eqb_eq in E2. subst. reflexivity.
Qed.

Lemma mwfb_mwf g : mwfb g = true -> mwf g.
Proof.
  unfold mwfb. intros H. apply andb_true_iff in H. destruct H as [Hnd Hall].
  apply nodupb_NoDup in Hnd. rewrite forallb_forall in Hall.
  assert (Hentry : forall u a ad, alookup u g = Some (a, ad) -> mwf_node g (u, (a, ad)) = true).
  { intros u a ad E. apply Hall. apply alookup_In. exact E. }
  split; [exact Hnd|]. split.
  - intros u. unfold madj. destruct (alookup u g) as [[a ad]|] eqn:E; [|constructor].
    specialize (Hentry u a ad E). simpl in Hentry. apply andb_true_iff in Hentry.
    destruct Hentry as [H1 _]. apply nodupb_NoDup. exact H1.
  - intros u v kd Hk. unfold mkd in *. unfold madj in Hk at 1. destruct (alookup u g) as [[a ad]|] eqn:E; [|discriminate].
    specialize (Hentry u a ad E). simpl in Hentry. apply andb_true_iff in Hentry.
    destruct Hentry as [_ H2]. rewrite forallb_forall in H2.
    specialize (H2 (v, kd) (alookup_In _ _ _ Hk)). simpl in H2.
    apply andb_true_iff in H2. destruct H2 as [H2 H3]. apply andb_true_iff in H2. destruct H2 as [H21 H22].
    split; [destruct kd; [discriminate|congruence]|]. split; [apply nodupb_NoDup; exact H22|].
    destruct (alookup u (madj g v)) as [kd'|]; simpl in H3; [|discriminate].
    apply keyd_eqb_eq in H3. congruence.
Qed.

Lemma ids_rangeb_sound ns lo hi : ids_rangeb ns lo hi = true -> ids_range ns lo hi.
Proof.
  unfold ids_rangeb. intros H. apply andb_true_iff in H. destruct H as [H1 H2].
  rewrite forallb_forall in H1, H2. intros x. split.
  - intros Hin. specialize (H1 x Hin). lia.
  - intros Hx. apply zmem_In. apply H2. apply in_zseq. exact Hx.
Qed.

Lemma anchors_okb_sound anchors k : anchors_okb anchors k = true -> anchors_ok anchors k.
Proof.
  unfold anchors_okb, anchors_ok. intros H Hk. apply orb_true_iff in H. destruct H as [H|H].
  - apply negb_true_iff in H. lia.
  - apply andb_true_iff in H. destruct H as [H1 H2]. split.
    + destruct anchors; [discriminate|congruence].
    + apply Forall_forall. rewrite forallb_forall in H2. intros a Ha. specialize (H2 a Ha). lia.
Qed.

Lemma attr_okb_sound gs a : attr_okb gs a = true -> attr_ok gs a.
Proof.
  unfold attr_okb, attr_ok. intros H. apply andb_true_iff in H. destruct H as [H1 H2]. split.
  - destruct (group_attr_e gs a); [congruence|discriminate].
  - intros Hg. rewrite Hg in H2. simpl in H2.
    destruct (filter (in_groups gs) (node_labels a)) as [|nm [|? ?]]; try discriminate.
    destruct (glookup nm gs) as [grp|] eqn:E; [|discriminate].
    exists nm, grp. split; [reflexivity|]. split; [exact E|]. apply String.eqb_eq. exact H2.
Qed.

Lemma pattern_okb_sound gs g : pattern_okb gs g = true -> pattern_ok gs g.
Proof.
  unfold pattern_okb. intros H. apply andb_true_iff in H. destruct H as [H H3].
  apply andb_true_iff in H. destruct H as [H1 H2].
  split; [apply mwfb_mwf; exact H1|]. split; [apply ids_rangeb_sound; exact H2|].
  intros n a ad Hin. unfold nodes_okb in H3. rewrite forallb_forall in H3.
  apply attr_okb_sound. exact (H3 _ Hin).
Qed.

Lemma cfg_okb_sound cfg : cfg_okb cfg = true -> cfg_ok cfg.
Proof.
  unfold cfg_okb, cfg_ok. intros H. apply andb_true_iff in H. destruct H as [H1 H2].
  rewrite forallb_forall in H1, H2. split.
  - apply Forall_forall. intros c Hc. apply pattern_okb_sound. exact (H1 c Hc).
  - apply Forall_forall. intros kg Hkg. apply Forall_forall. intros sg Hsg.
    specialize (H2 kg Hkg). rewrite forallb_forall in H2. specialize (H2 sg Hsg).
    unfold pgraph_okb in H2. apply andb_true_iff in H2. destruct H2 as [H21 H22].
    split; [apply pattern_okb_sound; exact H21|apply anchors_okb_sound; exact H22].
Qed.

Lemma rankedb_sound gs rks : rankedb gs rks = true -> ranked gs rks.
Proof.
  unfold rankedb, ranked. intros H nm grp E. rewrite forallb_forall in H.
  specialize (H (nm, grp) (glookup_In _ _ _ E)). simpl in H.
  apply andb_true_iff in H. destruct H as [H1 H2]. split; [apply Nat.ltb_lt; exact H1|].
  apply Forall_forall. intros sg Hsg n a ad nm' Hin Hng.
  rewrite forallb_forall in H2. apply Nat.ltb_lt. apply H2.
  unfold group_refs. apply in_flat_map. exists sg. split; [exact Hsg|].
  unfold graph_refs. apply in_flat_map. exists (n, (a, ad)). split; [exact Hin|].
  simpl. rewrite Hng. left. reflexivity.
Qed.

Lemma acyclicb_sound gs : acyclicb gs = true -> acyclic gs.
Proof.
  unfold acyclicb, acyclic. destruct (compute_ranks gs) as [rks|]; [|discriminate].
  intros H. exists rks. apply rankedb_sound. exact H.
Qed.

Theorem cfg_hypb_sound cfg : cfg_hypb cfg = true -> cfg_ok cfg /\ acyclic (cfg_groups cfg).
Proof.
  unfold cfg_hypb. intros H. apply andb_true_iff in H. destruct H as [H1 H2].
  split; [apply cfg_okb_sound; exact H1|apply acyclicb_sound; exact H2].
Qed.
