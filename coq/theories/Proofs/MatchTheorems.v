(** Top-level statements about map_anchored_subgraph / map_subgraph_to_graph (C03, C04),
    assembled from Proofs/MatchProofs.v (fuel, soundness) and Proofs/MatchComplete.v
    (totality, completeness). *)
From Coq Require Import ZArith List Bool String Lia.
From FGV Require Import Base.Util Base.UtilFacts Base.Bond Base.NX Base.Sym Model.Permute Model.Match
  Spec.Embedding Spec.PermuteAssign Spec.MatchCheck Proofs.NXLookup Proofs.EmbeddingFacts Proofs.MatchBasics
  Proofs.PermuteShape Proofs.MatchProofs Proofs.MatchComplete.
Import ListNotations.
Open Scope Z_scope.
Open Scope list_scope.

(** * the anchor test  permute([psym], [sym]) == [[(0, 0)]]  without can_map_to_nothing *)

Lemma permute_singleton w ic p s :
  permute (mkMapper w ic []) [p] [s] = if adm w ic p s then [[(0, 0)]] else [].
Proof.
  unfold permute, adm, fold_case. simpl.
  unfold generate_mapping_permutations, perms, enumerate. simpl.
  destruct w as [w0|]; simpl.
  - destruct (((if ic then lower p else p) =? (if ic then lower w0 else w0))%string
              || ((if ic then lower p else p) =? (if ic then lower s else s))%string)%bool; reflexivity.
  - destruct ((if ic then lower p else p) =? (if ic then lower s else s))%string; reflexivity.
Qed.

(** * the returned pair list *)

Lemma In_pairs_of m n p : In (n, p) (pairs_of m) <-> In (p, Some n) m.
Proof.
  unfold pairs_of. rewrite in_flat_map. split.
  - intros ([q [n'|]] & Hin & H); simpl in H; [|destruct H].
    destruct H as [H|[]]. injection H as <- <-. exact Hin.
  - intros H. exists (p, Some n). split; [exact H|]. simpl. auto.
Qed.

Lemma pairs_of_snd_keys m p : In p (map snd (pairs_of m)) -> In p (akeys m).
Proof.
  intros H. apply in_map_iff in H. destruct H as ([n q] & <- & H). apply In_pairs_of in H.
  apply (in_map fst) in H. exact H.
Qed.

Lemma pairs_of_snd_nodup m : NoDup (akeys m) -> NoDup (map snd (pairs_of m)).
Proof.
  induction m as [|[p [n|]] t IH]; simpl; intros H; [constructor| |];
    inversion H as [|? ? Hni Hnd]; subst.
  - constructor; [|apply IH; exact Hnd]. intros Hin. apply Hni. apply pairs_of_snd_keys. exact Hin.
  - apply IH. exact Hnd.
Qed.

Lemma pairs_of_mapsto m n p : NoDup (akeys m) -> (In (n, p) (pairs_of m) <-> alookup p m = Some (Some n)).
Proof.
  intros Hnd. rewrite In_pairs_of. split; [apply NoDup_alookup; exact Hnd | apply alookup_In].
Qed.

Lemma pair_fun_pairs_of m p n :
  NoDup (akeys m) -> (pair_fun (pairs_of m) p = Some n <-> alookup p m = Some (Some n)).
Proof.
  intros Hnd. rewrite <- pairs_of_mapsto by exact Hnd. split.
  - apply pair_fun_In.
  - apply pair_fun_NoDup. apply pairs_of_snd_nodup. exact Hnd.
Qed.

Section Results.
  Variables G P : graph.
  Variable mp : mapper.
  Variables (w : option string) (ic : bool).
  Hypothesis Hw : m_wildcard mp = w.
  Hypothesis Hic : m_ignore_case mp = ic.
  Hypothesis HwfP : wfb P = true.
  Hypothesis HwfG : wfb G = true.
  Hypothesis Hsound : permute_sound_for mp.

  Notation SInv := (SInv G P w ic).
  Notation mapsto := MatchProofs.mapsto.

  (** ** what a final state of the search says about the returned pairs *)

  Lemma sinv_edges m used p q l n n' :
    SInv [] m used -> mapsto m p n -> mapsto m q n' -> edge_label P p q = Some l ->
    edge_label G n n' = Some l.
  Proof.
    intros I Hp Hq Hl. destruct (si_done _ _ _ _ _ _ _ I _ _ Hp) as [[]|Hd].
    assert (Hqn : In q (neighbors P p)) by (apply neighbors_edge_label; eauto).
    destruct (Hd q Hqn) as (v & Hv & Hlab). unfold mapsto, MatchProofs.mapsto in Hq. rewrite Hq in Hv.
    injection Hv as <-. destruct (Hlab n' eq_refl) as (lab & H1 & H2). congruence.
  Qed.

  Lemma sinv_fst_nodup m used : SInv [] m used -> NoDup (map fst (pairs_of m)).
  Proof.
    intros I. pose proof (si_keys _ _ _ _ _ _ _ I) as Hk.
    apply NoDup_fst_of_pairs; [apply pairs_of_snd_nodup; exact Hk|].
    intros h p q Hp Hq. apply (pairs_of_mapsto _ _ _ Hk) in Hp, Hq.
    eapply (si_inj _ _ _ _ _ _ _ I); eauto.
  Qed.

  Theorem sinv_partial m used a pa :
    SInv [] m used -> mapsto m pa a ->
    PartialEmbedding w ic G a P pa (pairs_of m) /\
    (forall n p q, In (n, p) (pairs_of m) -> In q (neighbors P p) -> In q (akeys m)) /\
    (forall p, In p (map snd (pairs_of m)) -> In p (akeys m)).
  Proof.
    intros I Ha. pose proof (si_keys _ _ _ _ _ _ _ I) as Hk.
    split; [constructor|split].
    - apply pairs_of_snd_nodup. exact Hk.
    - eapply sinv_fst_nodup; eauto.
    - apply (pairs_of_mapsto _ _ _ Hk). exact Ha.
    - intros n p Hin. apply (pairs_of_mapsto _ _ _ Hk) in Hin. split.
      + eapply (si_nodes _ _ _ _ _ _ _ I); eauto.
      + eapply (si_adm _ _ _ _ _ _ _ I); eauto.
    - intros n p n' q l Hp Hq Hl. apply (pairs_of_mapsto _ _ _ Hk) in Hp, Hq.
      eapply sinv_edges; eauto.
    - intros n p q Hin Hq. apply (pairs_of_mapsto _ _ _ Hk) in Hin.
      destruct (si_done _ _ _ _ _ _ _ I _ _ Hin) as [[]|Hd].
      destruct (Hd q Hq) as (v & Hv & _). eapply alookup_Some_key; eauto.
    - apply pairs_of_snd_keys.
  Qed.

  Lemma reach_mapped m used pa a :
    SInv [] m used -> all_some m -> mapsto m pa a ->
    forall p, reach P pa p -> exists n, mapsto m p n.
  Proof.
    intros I A Ha p R. induction R as [|p q R [n Hn] Hq]; [eauto|].
    destruct (si_done _ _ _ _ _ _ _ I _ _ Hn) as [[]|Hd].
    destruct (Hd q Hq) as ([n'|] & Hv & _); [exists n'; exact Hv|].
    exfalso. exact (A q Hv).
  Qed.

  Theorem sinv_embedding m used a pa :
    SInv [] m used -> all_some m -> mapsto m pa a -> connected_from P pa ->
    covers P (pairs_of m) /\ Embedding w ic G a P pa (pair_fun (pairs_of m)).
  Proof.
    intros I A Ha Hconn. pose proof (si_keys _ _ _ _ _ _ _ I) as Hk.
    assert (Npa : In pa (nodes P)) by (eapply (si_nodes _ _ _ _ _ _ _ I); eauto).
    assert (Htot : forall p, In p (nodes P) -> exists n, mapsto m p n).
    { intros p Hp. eapply reach_mapped; eauto. }
    split.
    - split; [apply pairs_of_snd_nodup; exact Hk|]. split; [eapply sinv_fst_nodup; eauto|].
      intros p. split.
      + intros Hin. apply pairs_of_snd_keys in Hin. destruct (In_alookup _ _ Hin) as [v Hv].
        eapply (si_nodes _ _ _ _ _ _ _ I); eauto.
      + intros Hp. destruct (Htot p Hp) as [n Hn]. apply (pairs_of_mapsto _ _ _ Hk) in Hn.
        apply (in_map snd) in Hn. exact Hn.
    - constructor.
      + split; [exact Npa|]. apply pair_fun_pairs_of; assumption.
      + intros p Hp. destruct (Htot p Hp) as [n Hn]. exists n. apply pair_fun_pairs_of; assumption.
      + intros p q n _ _ Hp Hq. apply (pair_fun_pairs_of _ _ _ Hk) in Hp, Hq.
        eapply (si_inj _ _ _ _ _ _ _ I); eauto.
      + intros p n _ Hp. apply (pair_fun_pairs_of _ _ _ Hk) in Hp. eapply (si_adm _ _ _ _ _ _ _ I); eauto.
      + intros p q l n n' Hl Hp Hq. apply (pair_fun_pairs_of _ _ _ Hk) in Hp, Hq.
        eapply sinv_edges; eauto.
  Qed.

  (** ** unfolding a call of map_anchored_subgraph *)

  Lemma anchored_success a pa pairs vis :
    map_anchored_subgraph G P mp a pa = Ok (true, pairs, vis) ->
    exists sym psym m used,
      sym_of G a = Some sym /\ sym_of P pa = Some psym /\
      init_ok (permute mp [psym] [sym]) = true /\
      search G P mp (search_fuel P) [(a, pa)] [(pa, Some a)] [a] = Ok (Some (m, used)) /\
      pairs = pairs_of m /\ vis = (used, akeys m).
  Proof.
    unfold map_anchored_subgraph, fit.
    destruct (sym_of G a) as [sym|]; [|discriminate].
    destruct (sym_of P pa) as [psym|]; [|discriminate].
    destruct (init_ok (permute mp [psym] [sym])) eqn:Ei; [|discriminate].
    destruct (search G P mp (search_fuel P) [(a, pa)] [(pa, Some a)] [a]) as [[[m used]|]|e|] eqn:Es;
      try discriminate.
    intros [= <- <-]. exists sym, psym, m, used. auto 10.
  Qed.

  Lemma init_adm psym sym : init_ok (permute mp [psym] [sym]) = true -> adm w ic psym sym = true.
  Proof.
    intros H. assert (Hin : In [(0, 0)] (permute mp [psym] [sym])).
    { destruct (permute mp [psym] [sym]) as [|x [|y t]]; try discriminate.
      - destruct x as [|[[|?|?] [|?|?]] [|? ?]]; try discriminate. left. reflexivity.
      - destruct x as [|[[|?|?] [|?|?]] [|? ?]]; discriminate. }
    destruct (Hsound _ _ _ Hin) as (_ & _ & Ha).
    destruct (Ha 0 0 (or_introl eq_refl)) as [?|[_ H0]]; [discriminate|].
    unfold snth in H0. simpl in H0. rewrite Hw, Hic in H0. exact H0.
  Qed.

  Lemma initial_inv a pa sym psym :
    sym_of G a = Some sym -> sym_of P pa = Some psym -> adm w ic psym sym = true ->
    SInv [(a, pa)] [(pa, Some a)] [a].
  Proof.
    intros Hs Hp Ha.
    assert (Hone : forall p v, alookup p [(pa, Some a)] = Some v -> p = pa /\ v = Some a).
    { intros p v. simpl. destruct (Z.eqb_spec p pa); [intros [= <-]; auto|discriminate]. }
    constructor.
    - simpl. constructor; [intros []|constructor].
    - intros p v H. destruct (Hone _ _ H) as [-> _]. eapply sym_of_node; eauto.
    - intros p q n H1 H2. destruct (Hone _ _ H1) as [-> _]. destruct (Hone _ _ H2) as [-> _]. reflexivity.
    - intros p n H. destruct (Hone _ _ H) as [_ [= <-]]. left. reflexivity.
    - intros p n H. destruct (Hone _ _ H) as [-> [= <-]]. eauto.
    - intros n p [[= <- <-]|[]]. unfold MatchProofs.mapsto. simpl. rewrite Z.eqb_refl. reflexivity.
    - intros p n H. destruct (Hone _ _ H) as [-> [= <-]]. left. left. reflexivity.
  Qed.

  (* every success of the anchored matcher ends in a final state satisfying the invariant *)
  Lemma anchored_final a pa pairs vis :
    map_anchored_subgraph G P mp a pa = Ok (true, pairs, vis) ->
    exists m used, SInv [] m used /\ mapsto m pa a /\ pairs = pairs_of m /\ vis = (used, akeys m) /\
                   (permute_total_for mp -> all_some m).
  Proof.
    intros H. apply anchored_success in H.
    destruct H as (sym & psym & m & used & Hs & Hp & Hi & Hsearch & -> & ->).
    pose proof (initial_inv a pa sym psym Hs Hp (init_adm _ _ Hi)) as I0.
    destruct (search_sound G P mp HwfP w ic Hw Hic HwfG Hsound _ _ _ _ _ _ I0 Hsearch) as [I He].
    exists m, used. split; [exact I|]. split.
    - apply He. simpl. rewrite Z.eqb_refl. reflexivity.
    - split; [reflexivity|]. split; [reflexivity|]. intros Htot.
      eapply (search_all_some G P mp HwfP Htot); [|exact Hsearch].
      intros p. simpl. destruct (p =? pa); discriminate.
  Qed.

  (** ** C04, general mapper: the pairs embed the part of the pattern they cover, and the
      covered part together with the nodes mapped to nothing is closed under pattern adjacency *)
  Theorem anchored_partial a pa pairs vg vp :
    map_anchored_subgraph G P mp a pa = Ok (true, pairs, (vg, vp)) ->
    PartialEmbedding w ic G a P pa pairs /\
    (forall n p q, In (n, p) pairs -> In q (neighbors P p) -> In q vp) /\
    (forall p, In p (map snd pairs) -> In p vp).
  Proof.
    intros H. destruct (anchored_final _ _ _ _ H) as (m & used & I & Ha & -> & Hv & _).
    injection Hv as -> ->. eapply sinv_partial; eauto.
  Qed.

  (** ** C04 when nothing is mapped to nothing and the pattern is connected *)
  Theorem anchored_sound a pa pairs vis :
    permute_total_for mp -> connected_from P pa ->
    map_anchored_subgraph G P mp a pa = Ok (true, pairs, vis) ->
    covers P pairs /\ Embedding w ic G a P pa (pair_fun pairs).
  Proof.
    intros Htot Hconn H. destruct (anchored_final _ _ _ _ H) as (m & used & I & Ha & -> & _ & A).
    eapply sinv_embedding; eauto.
  Qed.

  (** ** fuel and totality of the anchored call *)

  Theorem anchored_total a pa :
    has_syms P -> has_syms G -> In a (nodes G) -> In pa (nodes P) ->
    exists o, map_anchored_subgraph G P mp a pa = Ok o.
  Proof.
    intros HsP HsG Na Npa. unfold map_anchored_subgraph, fit.
    destruct (HsG a Na) as [sym ->]. destruct (HsP pa Npa) as [psym ->].
    destruct (init_ok _); [|eauto].
    destruct (search_total G P mp HwfP HwfG HsP HsG Hsound (search_fuel P) [(a, pa)] [(pa, Some a)] [a])
      as [[[m used]|] ->]; eauto.
    apply mu_initial. exact Npa.
  Qed.
End Results.

(* the fuel handed to the search suffices: for every mapper, host, anchors *)
Theorem anchored_fuel_ok G P mp a pa :
  wfb P = true -> map_anchored_subgraph G P mp a pa <> OutOfFuel.
Proof.
  intros HwfP. unfold map_anchored_subgraph, fit.
  destruct (sym_of G a) as [sym|]; [|discriminate].
  destruct (sym_of P pa) as [psym|] eqn:Ep; [|discriminate].
  destruct (init_ok _); [|discriminate].
  pose proof (search_fuel_ok G P mp HwfP (search_fuel P) [(a, pa)] [(pa, Some a)] [a]) as H.
  destruct (search G P mp (search_fuel P) [(a, pa)] [(pa, Some a)] [a]) as [[[m used]|]|e|];
    try discriminate.
  exfalso. apply H; [|reflexivity]. apply mu_initial. eapply sym_of_node; eauto.
Qed.

Lemma anchors_loop_fuel_ok G P mp a l : wfb P = true -> anchors_loop G P mp a l <> OutOfFuel.
Proof.
  intros HwfP. induction l as [|p t IH]; simpl; [discriminate|].
  pose proof (anchored_fuel_ok G P mp a p HwfP) as H.
  destruct (map_anchored_subgraph G P mp a p) as [[[b m] v]|e|]; [|discriminate|contradiction].
  destruct (anchors_loop G P mp a t); [discriminate|discriminate|contradiction].
Qed.

Theorem map_subgraph_fuel_ok G P mp a spa : wfb P = true -> map_subgraph G P mp a spa <> OutOfFuel.
Proof.
  intros HwfP. unfold map_subgraph. destruct spa as [pa|].
  - pose proof (anchored_fuel_ok G P mp a pa HwfP) as H.
    destruct (map_anchored_subgraph G P mp a pa) as [[[b m] v]|e|]; [discriminate|discriminate|contradiction].
  - destruct P as [|x t] eqn:EP; [discriminate|]. rewrite <- EP in *.
    pose proof (anchors_loop_fuel_ok G P mp a (nodes P) HwfP) as H.
    destruct (anchors_loop G P mp a (nodes P)) as [[|r rs]|e|]; [discriminate|discriminate|discriminate|contradiction].
Qed.

Theorem map_subgraph_to_graph_fuel_ok G P mp : wfb P = true -> map_subgraph_to_graph G P mp <> OutOfFuel.
Proof.
  intros HwfP. unfold map_subgraph_to_graph. induction (map Z.of_nat (seq 0 (List.length G))) as [|i t IH];
    [simpl; discriminate|]. cbn [to_graph_loop].
  pose proof (map_subgraph_fuel_ok G P mp i None HwfP) as H.
  destruct (map_subgraph G P mp i None) as [rs|e|]; cbn iota; [|discriminate|contradiction].
  destruct (existsb fst rs); [discriminate|exact IH].
Qed.

(** * the statements for a mapper without can_map_to_nothing *)

Section Nil.
  Variables (w : option string) (ic : bool).
  Hypothesis Hspec : permute_spec_holds w ic.
  Variables G P : graph.
  Hypothesis HwfG : wfb G = true.
  Hypothesis HwfP : wfb P = true.

  Let mp := mkMapper w ic [].

  Theorem C04_sound_thm a pa pairs vis :
    connected_from P pa ->
    map_anchored_subgraph G P mp a pa = Ok (true, pairs, vis) ->
    covers P pairs /\ Embedding w ic G a P pa (pair_fun pairs).
  Proof.
    destruct Hspec as (Hs & Ht & _). intros Hc H.
    eapply (anchored_sound G P mp w ic eq_refl eq_refl HwfP HwfG Hs); eauto.
  Qed.

  Theorem C04_sound_checker_thm a pa pairs vis :
    connected_from P pa ->
    map_anchored_subgraph G P mp a pa = Ok (true, pairs, vis) ->
    is_embedding w ic G a P pa pairs = true.
  Proof.
    intros Hc H. destruct (C04_sound_thm _ _ _ _ Hc H) as [(H1 & H2 & H3) HE].
    apply is_embedding_complete; auto. intros n. apply wfb_neighbors_nodup. exact HwfP.
  Qed.

  Theorem C03_thm a pa f :
    has_syms G -> Embedding w ic G a P pa f ->
    exists pairs vis, map_anchored_subgraph G P mp a pa = Ok (true, pairs, vis).
  Proof.
    destruct Hspec as (Hs & Ht & Hc). intros HsG E.
    destruct (emb_anchor _ _ _ _ _ _ _ E) as [Npa Fpa].
    destruct (emb_adm _ _ _ _ _ _ _ E pa a Npa Fpa) as (psym & sym & Hp & Hg & Hadm).
    unfold map_anchored_subgraph, fit. rewrite Hg, Hp. unfold mp at 1. rewrite permute_singleton, Hadm.
    simpl init_ok. cbv iota.
    destruct (search_complete G P mp w ic eq_refl eq_refl HwfP HwfG HsG Hs Hc a pa f E
                (search_fuel P) [(a, pa)] [(pa, Some a)] [a]) as [[m used] Hr].
    - apply mu_initial. exact Npa.
    - constructor.
      + intros p v. simpl. destruct (Z.eqb_spec p pa) as [->|]; [|discriminate].
        intros [= <-]. split; [exact Npa | symmetry; exact Fpa].
      + intros n [<-|[]]. exists pa. simpl. rewrite Z.eqb_refl. reflexivity.
      + intros n p [[= <- <-]|[]]. simpl. rewrite Z.eqb_refl. reflexivity.
    - rewrite Hr. eauto.
  Qed.

  Theorem C04_exact_thm a pa pairs vis :
    has_syms G ->
    map_anchored_subgraph G P mp a pa = Ok (false, pairs, vis) ->
    ~ exists f, Embedding w ic G a P pa f.
  Proof.
    intros HsG H [f E]. destruct (C03_thm a pa f HsG E) as (pairs' & vis' & H'). congruence.
  Qed.

  (** ** un-anchored matching on hosts with ids 0..n-1 *)

  Lemma anchors_loop_spec a l :
    (forall p, In p l -> exists o, map_anchored_subgraph G P mp a p = Ok o) ->
    exists rs, anchors_loop G P mp a l = Ok rs /\
      forall p b m v, In p l -> map_anchored_subgraph G P mp a p = Ok (b, m, v) -> In (b, m) rs.
  Proof.
    induction l as [|p t IH]; simpl; intros H.
    - exists []. split; [reflexivity|]. intros p b m v [].
    - destruct (H p (or_introl eq_refl)) as [[[b m] v] Hp]. rewrite Hp.
      destruct IH as (rs & -> & Hrs); [intros; apply H; right; assumption|].
      exists ((b, m) :: rs). split; [reflexivity|].
      intros p' b' m' v' [<-|Hin] Hp'.
      + rewrite Hp in Hp'. injection Hp' as <- <- <-. left. reflexivity.
      + right. eapply Hrs; eauto.
  Qed.

  Theorem C03_unanchored_thm :
    has_syms G -> has_syms P ->
    (forall i, In i (nodes G) <-> 0 <= i < Z.of_nat (List.length G)) ->
    (exists a pa f, Embedding w ic G a P pa f) ->
    map_subgraph_to_graph G P mp = Ok true.
  Proof.
    destruct Hspec as (Hs & Ht & Hc). intros HsG HsP Hids (a & pa & f & E).
    destruct (emb_anchor _ _ _ _ _ _ _ E) as [Npa Fpa].
    assert (Na : In a (nodes G)).
    { destruct (emb_adm _ _ _ _ _ _ _ E pa a Npa Fpa) as (_ & s & _ & Hg & _). eapply sym_of_node; eauto. }
    unfold map_subgraph_to_graph.
    assert (Hin : In a (map Z.of_nat (seq 0 (List.length G)))).
    { apply Hids in Na. apply in_map_iff. exists (Z.to_nat a). split; [lia|]. apply in_seq. lia. }
    assert (Hall : forall i, In i (map Z.of_nat (seq 0 (List.length G))) -> In i (nodes G)).
    { intros i Hi. apply Hids. apply in_map_iff in Hi. destruct Hi as (k & <- & Hk). apply in_seq in Hk. lia. }
    induction (map Z.of_nat (seq 0 (List.length G))) as [|i t IH]; [destruct Hin|].
    simpl. unfold map_subgraph.
    destruct P as [|x r] eqn:EP; [destruct Npa|]. rewrite <- EP in *.
    destruct (anchors_loop_spec i (nodes P)) as (rs & Hrs & Hmem).
    { intros p Hp. apply (anchored_total G P mp HwfP HwfG Hs); auto.
      apply Hall. left. reflexivity. }
    rewrite Hrs.
    assert (Hne : rs <> []).
    { destruct (anchored_total G P mp HwfP HwfG Hs i pa HsP HsG
                  (Hall i (or_introl eq_refl)) Npa) as [[[b m] v] Hp].
      intros ->. exact (Hmem pa b m v Npa Hp). }
    destruct rs as [|r0 rs']; [contradiction|].
    destruct (existsb fst (r0 :: rs')) eqn:Eex; [reflexivity|].
    destruct Hin as [->|Hin].
    - exfalso. destruct (C03_thm a pa f HsG E) as (pairs & vis & Hok).
      pose proof (Hmem pa true pairs vis Npa Hok) as Hm.
      assert (existsb fst (r0 :: rs') = true) by (apply existsb_exists; exists (true, pairs); auto).
      congruence.
    - apply IH; [exact Hin | intros; apply Hall; right; assumption].
  Qed.
End Nil.

(** * soundness of the decidable checks that the harness runs on implementation outputs *)

Theorem c04_anchored_okb_sound w ic G a P pa b pairs vis :
  wfb P = true ->
  c04_anchored_okb w ic true G a P pa (Ok (b, pairs, vis)) = true ->
  (b = true -> covers P pairs /\ Embedding w ic G a P pa (pair_fun pairs)) /\
  (b = false -> ~ exists f, Embedding w ic G a P pa f).
Proof.
  intros HwfP H. unfold c04_anchored_okb in H. simpl in H. apply andb_true_iff in H. destruct H as [H1 H2].
  split.
  - intros ->. simpl in H1. apply is_embedding_sound. exact H1.
  - intros ->. simpl in H2. intros Hex. apply (exists_embedding_exact w ic G a P pa HwfP) in Hex.
    rewrite Hex in H2. discriminate.
Qed.

Theorem c03_anchored_okb_sound w ic G a P pa o :
  wfb P = true ->
  c03_anchored_okb w ic G a P pa o = true ->
  (exists f, Embedding w ic G a P pa f) -> exists pairs vis, o = Ok (true, pairs, vis).
Proof.
  intros HwfP H Hex. apply (exists_embedding_exact w ic G a P pa HwfP) in Hex.
  unfold c03_anchored_okb in H. rewrite Hex in H. simpl in H.
  destruct o as [[[b m] v]|e|]; simpl in H; try discriminate. subst b. eauto.
Qed.
