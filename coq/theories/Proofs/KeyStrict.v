(** key_strict (concrete part of C07): if pattern P embeds into pattern G then
    (pattern_len, number of nodes, number of edges) of P is componentwise <= that of G, and if the
    three agree then G embeds into P as well.  Hence "strictly below" increases the sort key. *)
From Coq Require Import ZArith List Bool String Ascii Lia Permutation.
From FGV Require Import Base.Util Base.UtilFacts Base.StrMap Base.Bond Base.NX Base.NXFacts Base.Sym
                        Model.FGTree Spec.Embedding Proofs.EmbeddingOrder Proofs.GraphCount.
Import ListNotations.
Open Scope Z_scope.

(** * lists *)
Lemma NoDup_map_on {A B} (g : A -> B) l :
  NoDup l -> (forall x y, In x l -> In y l -> g x = g y -> x = y) -> NoDup (map g l).
Proof.
  induction 1 as [|x t Hx Ht IH]; intros Hinj; simpl; [constructor|].
  constructor.
  - intros Hin. apply in_map_iff in Hin. destruct Hin as [y [E Hy]].
    assert (y = x) by (apply Hinj; [right; exact Hy|left; reflexivity|exact E]). subst y. contradiction.
  - apply IH. intros a b Ha Hb. apply Hinj; right; assumption.
Qed.

Lemma filter_map_fst {A} (Fe : Z * A -> bool) (Fn : Z -> bool) (l : list (Z * A)) :
  (forall e, In e l -> Fe e = Fn (fst e)) -> map fst (filter Fe l) = filter Fn (map fst l).
Proof.
  induction l as [|e t IH]; intros H; simpl; auto.
  rewrite (H e (or_introl eq_refl)). destruct (Fn (fst e)); simpl; rewrite IH; auto;
    intros e' He'; apply H; right; exact He'.
Qed.

(** * symbols: only "R" and "r" lower-case to "r" *)
Lemma lower_ascii_r c : lower_ascii c = "r"%char -> c = "R"%char \/ c = "r"%char.
Proof.
  destruct c as [[] [] [] [] [] [] [] []]; vm_compute; intros H; try discriminate H; auto.
Qed.

Lemma lower_r s : lower s = "r"%string -> s = "R"%string \/ s = "r"%string.
Proof.
  destruct s as [|c t]; simpl; [discriminate|]. intros H. inversion H as [[Hc Ht]].
  destruct t; [|discriminate]. destruct (lower_ascii_r c Hc) as [->| ->]; auto.
Qed.

(* under the wildcard "R": a pattern symbol that is neither "R" nor "r" only admits symbols that are
   not "R", and it is admitted back *)
Lemma adm_nonwild ic ps s :
  ps <> "R"%string -> ps <> "r"%string -> adm (Some "R"%string) ic ps s = true ->
  s <> "R"%string /\ adm (Some "R"%string) ic s ps = true.
Proof.
  intros H1 H2 Ha. unfold adm in *. apply orb_true_iff in Ha.
  assert (Hnw : String.eqb (fold_case ic ps) (fold_case ic "R") = false).
  { destruct (String.eqb (fold_case ic ps) (fold_case ic "R")) eqn:E; auto.
    apply String.eqb_eq in E. destruct ic; simpl in E.
    - destruct (lower_r ps E); contradiction.
    - contradiction. }
  destruct Ha as [Ha|Ha]; [congruence|]. apply String.eqb_eq in Ha. split.
  - intros ->. rewrite Ha, String.eqb_refl in Hnw. discriminate.
  - apply orb_true_iff. right. rewrite Ha. apply String.eqb_refl.
Qed.

Lemma adm_wild ic s : adm (Some "R"%string) ic "R" s = true.
Proof. unfold adm. rewrite String.eqb_refl. reflexivity. Qed.

Definition nonR (g : graph) (n : Z) : bool := negb (sym_in (sym_of g n) ["R"%string]).

Lemma sym_of_entry g n a ad : NoDup (nodes g) -> In (n, (a, ad)) g -> sym_of g n = a_sym a.
Proof.
  intros Hnd Hin. unfold sym_of, node_attr. rewrite (NoDup_alookup n (a, ad) g Hnd Hin). reflexivity.
Qed.

Lemma pattern_len_nodes c :
  NoDup (nodes (fg_pattern c)) -> fg_len_excl c = ["R"%string] ->
  pattern_len c = Z.of_nat (List.length (filter (nonR (fg_pattern c)) (nodes (fg_pattern c)))).
Proof.
  intros Hnd He. unfold pattern_len. rewrite He. f_equal.
  rewrite <- (map_length fst). f_equal. unfold nodes.
  apply (filter_map_fst _ (nonR (fg_pattern c))).
  intros [n [a ad]] Hin. unfold nonR. simpl. rewrite (sym_of_entry _ n a ad Hnd Hin). reflexivity.
Qed.

Lemma nonR_spec g n : nonR g n = true <-> sym_of g n <> Some "R"%string.
Proof.
  unfold nonR, sym_in. destruct (sym_of g n) as [s|]; simpl.
  - rewrite orb_false_r, negb_true_iff. split.
    + intros H E. inversion E; subst. rewrite String.eqb_refl in H. discriminate.
    + intros H. destruct (String.eqb s "R") eqn:E; auto. apply String.eqb_eq in E. subst. congruence.
  - split; auto. discriminate.
Qed.

Section Count.
  Variable ic : bool.
  Let w : option string := Some "R"%string.
  Variables P G : graph.
  Variables a pa : Z.
  Variable f : Z -> option Z.
  Hypothesis Hemb : Embedding w ic G a P pa f.
  Hypothesis HndP : NoDup (nodes P).
  Hypothesis HndG : NoDup (nodes G).
  Hypothesis no_r : forall n, sym_of P n <> Some "r"%string.

  Definition img (p : Z) : Z := match f p with Some n => n | None => 0 end.

  Lemma img_spec p : In p (nodes P) -> f p = Some (img p) /\ In (img p) (nodes G).
  Proof.
    intros Hp. destruct (emb_total _ _ _ _ _ _ _ Hemb p Hp) as [n Hn]. unfold img. rewrite Hn. split; auto.
    destruct (emb_adm _ _ _ _ _ _ _ Hemb p n Hp Hn) as [ps [s [_ [Hs _]]]]. eapply sym_of_node; eauto.
  Qed.

  Lemma img_inj p q : In p (nodes P) -> In q (nodes P) -> img p = img q -> p = q.
  Proof.
    intros Hp Hq E. destruct (img_spec p Hp) as [H1 _]. destruct (img_spec q Hq) as [H2 _].
    rewrite E in H1. eapply (emb_inj _ _ _ _ _ _ _ Hemb); eauto.
  Qed.

  Lemma img_nodes_NoDup : NoDup (map img (nodes P)).
  Proof. apply NoDup_map_on; auto. intros x y. apply img_inj. Qed.

  Lemma img_nodes_incl : incl (map img (nodes P)) (nodes G).
  Proof. intros n Hn. apply in_map_iff in Hn. destruct Hn as [p [<- Hp]]. apply img_spec. exact Hp. Qed.

  Lemma nodes_le : (List.length (nodes P) <= List.length (nodes G))%nat.
  Proof. rewrite <- (map_length img). apply NoDup_incl_length; [apply img_nodes_NoDup|apply img_nodes_incl]. Qed.

  Lemma img_nonR p : In p (nodes P) -> nonR P p = true -> nonR G (img p) = true.
  Proof.
    intros Hp Hn. destruct (img_spec p Hp) as [Hf _].
    destruct (emb_adm _ _ _ _ _ _ _ Hemb p (img p) Hp Hf) as [ps [s [Hps [Hs Ha]]]].
    apply nonR_spec. rewrite Hs. intros E. inversion E; subst s.
    apply nonR_spec in Hn. rewrite Hps in Hn.
    assert (H1 : ps <> "R"%string) by congruence.
    assert (H2 : ps <> "r"%string) by (intros ->; apply (no_r p); exact Hps).
    destruct (adm_nonwild ic ps "R" H1 H2 Ha) as [H _]. congruence.
  Qed.

  Lemma nonR_le :
    (List.length (filter (nonR P) (nodes P)) <= List.length (filter (nonR G) (nodes G)))%nat.
  Proof.
    rewrite <- (map_length img). apply NoDup_incl_length.
    - apply NoDup_map_on; [apply NoDup_filter; exact HndP|].
      intros x y Hx Hy. apply filter_In in Hx, Hy. apply img_inj; tauto.
    - intros n Hn. apply in_map_iff in Hn. destruct Hn as [p [<- Hp]]. apply filter_In in Hp.
      apply filter_In. split; [apply img_spec; tauto|apply img_nonR; tauto].
  Qed.
End Count.

Lemma edges_NoDup g : wf g -> NoDup (edges g).
Proof.
  intros [Hnd [Had _]]. eapply NoDup_map_inv. apply (edges_aux_NoDup g [] Hnd).
  intros n a ad Hin. rewrite <- (In_entry_adj g n a ad Hnd Hin). apply Had.
Qed.

Lemma edges_pair_unique g u v l l' : wf g -> In (u, v, l) (edges g) -> In (u, v, l') (edges g) -> l = l'.
Proof.
  intros Hwf H1 H2. apply (in_edges_label g u v l Hwf) in H1. apply (in_edges_label g u v l' Hwf) in H2. congruence.
Qed.

Section Edges.
  Variable ic : bool.
  Let w : option string := Some "R"%string.
  Variables P G : graph.
  Variables a pa : Z.
  Variable f : Z -> option Z.
  Hypothesis Hemb : Embedding w ic G a P pa f.
  Hypothesis HwP : wf P.
  Hypothesis HwG : wf G.

  Let HndP : NoDup (nodes P) := proj1 HwP.
  Local Notation img := (img f).

  Definition in_pairs (x y : Z) (l : list (Z * Z * label)) : bool :=
    existsb (fun e => (fst (fst e) =? x) && (snd (fst e) =? y)) l.

  Lemma in_pairs_spec x y l : in_pairs x y l = true <-> exists lb, In (x, y, lb) l.
  Proof.
    unfold in_pairs. rewrite existsb_exists. split.
    - intros [[[x' y'] lb] [Hin H]]. simpl in H. apply andb_true_iff in H. destruct H as [H1 H2].
      apply Z.eqb_eq in H1, H2. subst. exists lb. exact Hin.
    - intros [lb Hin]. exists (x, y, lb). split; auto. simpl. rewrite !Z.eqb_refl. reflexivity.
  Qed.

  Definition phi (e : Z * Z * label) : Z * Z * label :=
    let '(u, v, l) := e in
    if in_pairs (img u) (img v) (edges G) then (img u, img v, l) else (img v, img u, l).

  Lemma edge_nodes u v l : In (u, v, l) (edges P) -> In u (nodes P) /\ In v (nodes P) /\ edge_label P u v = Some l.
  Proof.
    intros H. pose proof (in_edges_label P u v l HwP H) as E.
    pose proof (proj2 (proj2 HwP) _ _ _ E) as E'.
    split; [apply has_node_In; eapply edge_label_has_node; eauto|].
    split; [apply has_node_In; eapply edge_label_has_node; eauto|exact E].
  Qed.

  Lemma img_edge u v l : In (u, v, l) (edges P) -> edge_label G (img u) (img v) = Some l.
  Proof.
    intros H. destruct (edge_nodes u v l H) as [Hu [Hv E]].
    destruct (img_spec ic P G a pa f Hemb u Hu) as [Hfu _]. destruct (img_spec ic P G a pa f Hemb v Hv) as [Hfv _].
    eapply (emb_edges _ _ _ _ _ _ _ Hemb); eauto.
  Qed.

  Lemma phi_in e : In e (edges P) -> In (phi e) (edges G).
  Proof.
    destruct e as [[u v] l]. intros H. pose proof (img_edge u v l H) as E. unfold phi.
    destruct (in_pairs (img u) (img v) (edges G)) eqn:Ep.
    - apply in_pairs_spec in Ep. destruct Ep as [lb Hin].
      pose proof (in_edges_label G _ _ _ HwG Hin) as E2. rewrite E in E2. inversion E2; subst lb. exact Hin.
    - destruct (edges_complete G _ _ _ HwG E) as [Hin|Hin]; auto.
      assert (in_pairs (img u) (img v) (edges G) = true) by (apply in_pairs_spec; exists l; exact Hin). congruence.
  Qed.

  Lemma phi_inj e1 e2 : In e1 (edges P) -> In e2 (edges P) -> phi e1 = phi e2 -> e1 = e2.
  Proof.
    destruct e1 as [[u v] l], e2 as [[u' v'] l']. intros H1 H2 E.
    destruct (edge_nodes u v l H1) as [Hu [Hv _]]. destruct (edge_nodes u' v' l' H2) as [Hu' [Hv' _]].
    pose proof (img_inj ic P G a pa f Hemb) as Hinj.
    unfold phi in E.
    destruct (in_pairs (img u) (img v) (edges G)), (in_pairs (img u') (img v') (edges G)); inversion E as [[E1 E2 E3]].
    - apply Hinj in E1; auto. apply Hinj in E2; auto. subst. reflexivity.
    - apply Hinj in E1; auto. apply Hinj in E2; auto. subst u v l'.
      assert (v' = u') by (eapply (edges_once P v' u' l l HndP); eauto). subst. reflexivity.
    - apply Hinj in E1; auto. apply Hinj in E2; auto. subst u' v' l'.
      assert (u = v) by (eapply (edges_once P u v l l HndP); eauto). subst. reflexivity.
    - apply Hinj in E1; auto. apply Hinj in E2; auto. subst. reflexivity.
  Qed.

  Lemma edges_le : (List.length (edges P) <= List.length (edges G))%nat.
  Proof.
    rewrite <- (map_length phi). apply NoDup_incl_length.
    - apply NoDup_map_on; [apply edges_NoDup; exact HwP|]. intros x y. apply phi_inj.
    - intros e He. apply in_map_iff in He. destruct He as [e0 [<- H0]]. apply phi_in. exact H0.
  Qed.

  (* equal numbers: every bond of G is the image of a bond of P *)
  Lemma edges_onto :
    List.length (edges P) = List.length (edges G) ->
    forall x y l, edge_label G x y = Some l ->
    exists u v, edge_label P u v = Some l /\ In u (nodes P) /\ In v (nodes P) /\ img u = x /\ img v = y.
  Proof.
    intros Hlen x y l E.
    assert (Hincl : incl (edges G) (map phi (edges P))).
    { apply NoDup_length_incl.
      - apply NoDup_map_on; [apply edges_NoDup; exact HwP|]. intros e1 e2. apply phi_inj.
      - rewrite map_length. lia.
      - intros e He. apply in_map_iff in He. destruct He as [e0 [<- H0]]. apply phi_in. exact H0. }
    assert (Hsym : forall u v l0, In (u, v, l0) (edges P) -> edge_label P v u = Some l0).
    { intros u v l0 H. apply (proj2 (proj2 HwP)). apply in_edges_label; auto. }
    destruct (edges_complete G x y l HwG E) as [Hin|Hin]; apply Hincl in Hin; apply in_map_iff in Hin;
      destruct Hin as [[[u v] l0] [Ephi H0]]; destruct (edge_nodes u v l0 H0) as [Hu [Hv El]];
      unfold phi in Ephi; destruct (in_pairs (img u) (img v) (edges G)); inversion Ephi; subst.
    - exists u, v. auto.
    - exists v, u. split; [apply Hsym; exact H0|]. auto.
    - exists v, u. split; [apply Hsym; exact H0|]. auto.
    - exists u, v. auto.
  Qed.
End Edges.

Section Inverse.
  Variable ic : bool.
  Let w : option string := Some "R"%string.
  Variables P G : graph.
  Variables a pa : Z.
  Variable f : Z -> option Z.
  Hypothesis Hemb : Embedding w ic G a P pa f.
  Hypothesis HwP : wf P.
  Hypothesis HwG : wf G.
  Hypothesis no_r : forall n, sym_of P n <> Some "r"%string.
  Hypothesis Hn : List.length (nodes P) = List.length (nodes G).
  Hypothesis Hr : List.length (filter (nonR P) (nodes P)) = List.length (filter (nonR G) (nodes G)).
  Hypothesis He : List.length (edges P) = List.length (edges G).

  Let HndP : NoDup (nodes P) := proj1 HwP.
  Let HndG : NoDup (nodes G) := proj1 HwG.
  Local Notation img := (img f).

  Definition ginv (n : Z) : option Z := find (fun p => img p =? n) (nodes P).

  Lemma ginv_spec n p : ginv n = Some p -> In p (nodes P) /\ img p = n.
  Proof. unfold ginv. intros H. apply find_some in H. destruct H as [H1 H2]. apply Z.eqb_eq in H2. auto. Qed.

  Lemma ginv_img p : In p (nodes P) -> ginv (img p) = Some p.
  Proof.
    intros Hp. destruct (ginv (img p)) as [q|] eqn:E.
    - destruct (ginv_spec _ _ E) as [Hq Hi]. f_equal. eapply (img_inj ic P G a pa f Hemb); eauto.
    - unfold ginv in E. pose proof (find_none _ _ E p Hp) as H. simpl in H. rewrite Z.eqb_refl in H. discriminate.
  Qed.

  Lemma img_onto n : In n (nodes G) -> exists p, In p (nodes P) /\ img p = n.
  Proof.
    intros Hin.
    assert (Hincl : incl (nodes G) (map img (nodes P))).
    { apply NoDup_length_incl.
      - apply (img_nodes_NoDup ic P G a pa f Hemb HndP).
      - rewrite map_length. lia.
      - apply (img_nodes_incl ic P G a pa f Hemb). }
    apply Hincl in Hin. apply in_map_iff in Hin. destruct Hin as [p [E Hp]]. exists p. auto.
  Qed.

  Lemma img_onto_nonR n : In n (nodes G) -> nonR G n = true -> exists p, In p (nodes P) /\ nonR P p = true /\ img p = n.
  Proof.
    intros Hin Hnr.
    assert (Hincl : incl (filter (nonR G) (nodes G)) (map img (filter (nonR P) (nodes P)))).
    { apply NoDup_length_incl.
      - apply NoDup_map_on; [apply NoDup_filter; exact HndP|].
        intros x y Hx Hy. apply filter_In in Hx, Hy. apply (img_inj ic P G a pa f Hemb); tauto.
      - rewrite map_length. lia.
      - intros m Hm. apply in_map_iff in Hm. destruct Hm as [p [<- Hp]]. apply filter_In in Hp.
        apply filter_In. split; [apply (img_spec ic P G a pa f Hemb); tauto|].
        apply (img_nonR ic P G a pa f Hemb no_r); tauto. }
    assert (H : In n (filter (nonR G) (nodes G))) by (apply filter_In; auto).
    apply Hincl in H. apply in_map_iff in H. destruct H as [p [E Hp]]. apply filter_In in Hp. exists p. tauto.
  Qed.

  Theorem inverse_embedding : Embedding w ic P pa G a ginv.
  Proof.
    destruct (emb_anchor _ _ _ _ _ _ _ Hemb) as [Hpa Hfa].
    assert (Hia : img pa = a) by (unfold EmbeddingOrder.compose_map, KeyStrict.img; rewrite Hfa; reflexivity).
    constructor.
    - split.
      + rewrite <- Hia. apply (img_spec ic P G a pa f Hemb). exact Hpa.
      + rewrite <- Hia. apply ginv_img. exact Hpa.
    - intros n Hin. destruct (img_onto n Hin) as [p [Hp <-]]. exists p. apply ginv_img. exact Hp.
    - intros n n' p _ _ H1 H2. destruct (ginv_spec _ _ H1) as [_ <-]. destruct (ginv_spec _ _ H2) as [_ <-]. reflexivity.
    - intros n p Hin Hg. destruct (ginv_spec _ _ Hg) as [Hp Hi].
      destruct (img_spec ic P G a pa f Hemb p Hp) as [Hf _]. rewrite Hi in Hf.
      destruct (emb_adm _ _ _ _ _ _ _ Hemb p n Hp Hf) as [ps [s [Hps [Hs Ha]]]].
      exists s, ps. split; [exact Hs|]. split; [exact Hps|].
      destruct (String.eqb ps "R") eqn:Er.
      + apply String.eqb_eq in Er. subst ps.
        (* n cannot be a non-wildcard node: it would be the image of a non-wildcard node *)
        assert (Hs' : s = "R"%string).
        { destruct (nonR G n) eqn:En.
          - destruct (img_onto_nonR n Hin En) as [p' [Hp' [Hnr Hi']]].
            assert (p' = p) by (eapply (img_inj ic P G a pa f Hemb); eauto; congruence). subst p'.
            apply nonR_spec in Hnr. congruence.
          - destruct (nonR_spec G n) as [_ H]. destruct (string_dec s "R") as [|Hne]; auto.
            rewrite H in En; [discriminate|]. rewrite Hs. congruence. }
        subst s. apply adm_wild.
      + apply String.eqb_neq in Er.
        assert (H2 : ps <> "r"%string) by (intros ->; apply (no_r p); exact Hps).
        apply (adm_nonwild ic ps s Er H2 Ha).
    - intros n n' l p p' El Hg Hg'.
      destruct (edges_onto ic P G a pa f Hemb HwP HwG He n n' l El) as [u [v [Euv [Hu [Hv [Hiu Hiv]]]]]].
      assert (Epu : p = u).
      { pose proof (ginv_img u Hu) as Hgu. rewrite Hiu, Hg in Hgu. congruence. }
      assert (Epv : p' = v).
      { pose proof (ginv_img v Hv) as Hgv. rewrite Hiv, Hg' in Hgv. congruence. }
      subst. exact Euv.
  Qed.
End Inverse.

(** * key_strict *)
Theorem strictly_below_increases_key ic (a b : fgconfig) :
  wf (fg_pattern a) -> wf (fg_pattern b) ->
  fg_len_excl a = ["R"%string] -> fg_len_excl b = ["R"%string] ->
  (forall n, sym_of (fg_pattern a) n <> Some "r"%string) ->
  StrictlyBelow (Some "R"%string) ic (fg_pattern a) (fg_pattern b) ->
  cfg_ltb a b = true.
Proof.
  intros HwP HwG Hea Heb Hnor [[a0 [pa [f Hemb]]] Hnot].
  set (P := fg_pattern a) in *. set (G := fg_pattern b) in *.
  pose proof (nodes_le ic P G a0 pa f Hemb (proj1 HwP)) as Hn.
  pose proof (nonR_le ic P G a0 pa f Hemb (proj1 HwP) Hnor) as Hr.
  pose proof (edges_le ic P G a0 pa f Hemb HwP HwG) as He.
  assert (Hneq : ~ (List.length (nodes P) = List.length (nodes G) /\
                    List.length (filter (nonR P) (nodes P)) = List.length (filter (nonR G) (nodes G)) /\
                    List.length (edges P) = List.length (edges G))).
  { intros [E1 [E2 E3]]. apply Hnot. exists pa, a0, (ginv P f).
    apply (inverse_embedding ic P G a0 pa f Hemb HwP HwG Hnor E1 E2 E3). }
  unfold cfg_ltb, order_key, key_ltb.
  rewrite (pattern_len_nodes a (proj1 HwP) Hea), (pattern_len_nodes b (proj1 HwG) Heb).
  fold P G. unfold number_of_nodes, number_of_edges.
  assert (HlP : List.length P = List.length (nodes P)) by (unfold nodes; rewrite map_length; reflexivity).
  assert (HlG : List.length G = List.length (nodes G)) by (unfold nodes; rewrite map_length; reflexivity).
  rewrite HlP, HlG.
  destruct (Z.eqb_spec (Z.of_nat (List.length (filter (nonR P) (nodes P))))
                       (Z.of_nat (List.length (filter (nonR G) (nodes G))))) as [E1|E1]; simpl.
  - destruct (Z.eqb_spec (Z.of_nat (List.length (nodes P))) (Z.of_nat (List.length (nodes G)))) as [E2|E2]; simpl.
    + destruct (Z.eqb_spec (Z.of_nat (List.length (edges P))) (Z.of_nat (List.length (edges G)))) as [E3|E3]; simpl.
      * exfalso. apply Hneq. lia.
      * apply Z.ltb_lt. lia.
    + apply Z.ltb_lt. lia.
  - apply Z.ltb_lt. lia.
Qed.
