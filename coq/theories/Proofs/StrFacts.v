(** Facts about the string helpers of Base/Str.v. *)
From Coq Require Import ZArith List Bool Ascii String Lia.
From FGV Require Import Base.Regex Base.Str.
Import ListNotations.
Open Scope string_scope.
Open Scope Z_scope.

Lemma string_app_assoc (a b c : string) : (a ++ b) ++ c = a ++ (b ++ c).
Proof. induction a; simpl; congruence. Qed.

Lemma string_app_nil_r (a : string) : a ++ "" = a.
Proof. induction a; simpl; congruence. Qed.

Lemma string_length_app (a b : string) : String.length (a ++ b) = (String.length a + String.length b)%nat.
Proof. induction a; simpl; congruence. Qed.

(** ** association lists keyed by strings *)

Section SMap.
Context {A B : Type} (f : A -> B).
Let F := fun e : string * A => (fst e, f (snd e)).

Lemma slookup_map k l : slookup k (map F l) = option_map f (slookup k l).
Proof.
  induction l as [|[k' a] l IH]; simpl; [reflexivity|].
  destruct (String.eqb k k'); [reflexivity|exact IH].
Qed.

Lemma sset_map k v l : sset k (f v) (map F l) = map F (sset k v l).
Proof.
  induction l as [|[k' a] l IH]; simpl; [reflexivity|].
  destruct (String.eqb k k'); simpl; [reflexivity|]. unfold F at 2. simpl. f_equal. exact IH.
Qed.

Lemma sdel_map k l : sdel k (map F l) = map F (sdel k l).
Proof.
  induction l as [|[k' a] l IH]; simpl; [reflexivity|].
  destruct (String.eqb k k'); simpl; [exact IH|]. unfold F at 2. simpl. f_equal. exact IH.
Qed.
End SMap.

Lemma slookup_sset {A} k k' (v : A) l :
  slookup k' (sset k v l) = if String.eqb k' k then Some v else slookup k' l.
Proof.
  induction l as [|[k2 a] l IH]; simpl.
  - destruct (String.eqb k' k); reflexivity.
  - destruct (String.eqb_spec k k2) as [->|Hne]; simpl.
    + destruct (String.eqb k' k2); reflexivity.
    + destruct (String.eqb_spec k' k2) as [->|Hne2].
      * destruct (String.eqb_spec k2 k) as [->|_]; [congruence|reflexivity].
      * exact IH.
Qed.

Lemma slookup_sdel_Some {A} k k' (v : A) l :
  slookup k' (sdel k l) = Some v -> slookup k' l = Some v.
Proof.
  induction l as [|[k2 a] l IH]; simpl; [discriminate|].
  destruct (String.eqb_spec k k2) as [->|Hne]; simpl.
  - intros H. destruct (String.eqb_spec k' k2) as [->|_]; [|exact (IH H)].
    exfalso. clear IH. revert H. induction l as [|[k3 b] l IHl]; simpl; [discriminate|].
    destruct (String.eqb_spec k2 k3) as [->|Hne3]; simpl; [exact IHl|].
    destruct (String.eqb_spec k2 k3); [congruence|exact IHl].
  - destruct (String.eqb k' k2); [auto|exact IH].
Qed.

(** ** characters *)

Lemma all_chars_app p a b : all_chars p (a ++ b) = all_chars p a && all_chars p b.
Proof. induction a; simpl; [reflexivity|]. rewrite IHa, andb_assoc. reflexivity. Qed.

Lemma all_chars_impl (p q : ascii -> bool) s :
  (forall c, p c = true -> q c = true) -> all_chars p s = true -> all_chars q s = true.
Proof.
  intros Hpq. induction s; simpl; [reflexivity|].
  rewrite !andb_true_iff. intros [H1 H2]. split; auto.
Qed.

(** ** strip / remove / split / join *)

Lemma lstrip_head c a t : Ascii.eqb a c = false -> lstrip c (String a t) = String a t.
Proof. intros H. simpl. rewrite H. reflexivity. Qed.

Lemma rstrip_app_char c body :
  all_chars (fun a => negb (Ascii.eqb a c)) body = true ->
  rstrip c (body ++ String c "") = body.
Proof.
  induction body as [|a t IH]; simpl.
  - intros _. rewrite Ascii.eqb_refl. reflexivity.
  - rewrite andb_true_iff, negb_true_iff. intros [Ha Ht]. rewrite (IH Ht).
    destruct t; [rewrite Ha|]; reflexivity.
Qed.

Lemma remove_char_id c s :
  all_chars (fun a => negb (Ascii.eqb a c)) s = true -> remove_char c s = s.
Proof.
  induction s as [|a t IH]; simpl; [reflexivity|].
  rewrite andb_true_iff, negb_true_iff. intros [Ha Ht]. rewrite Ha, (IH Ht). reflexivity.
Qed.

Lemma remove_char_app c a b : remove_char c (a ++ b) = remove_char c a ++ remove_char c b.
Proof. induction a as [|x t IH]; simpl; [reflexivity|]. destruct (Ascii.eqb x c); simpl; congruence. Qed.

Lemma split_on_no_sep c s :
  all_chars (fun a => negb (Ascii.eqb a c)) s = true -> split_on c s = [s].
Proof.
  induction s as [|a t IH]; simpl; [reflexivity|].
  rewrite andb_true_iff, negb_true_iff. intros [Ha Ht]. rewrite Ha, (IH Ht). reflexivity.
Qed.

Lemma split_on_app c x s :
  all_chars (fun a => negb (Ascii.eqb a c)) x = true ->
  split_on c (x ++ String c s) = x :: split_on c s.
Proof.
  induction x as [|a t IH]; simpl.
  - intros _. rewrite Ascii.eqb_refl. reflexivity.
  - rewrite andb_true_iff, negb_true_iff. intros [Ha Ht]. rewrite Ha, (IH Ht). reflexivity.
Qed.

Lemma split_join c ls :
  ls <> [] ->
  forallb (all_chars (fun a => negb (Ascii.eqb a c))) ls = true ->
  split_on c (join (String c "") ls) = ls.
Proof.
  induction ls as [|x t IH]; [congruence|]. intros _. simpl forallb.
  rewrite andb_true_iff. intros [Hx Ht].
  destruct t as [|y t'].
  - simpl. apply split_on_no_sep; exact Hx.
  - change (join (String c "") (x :: y :: t')) with (x ++ String c (join (String c "") (y :: t'))).
    rewrite (split_on_app _ _ _ Hx). f_equal. apply IH; [discriminate|exact Ht].
Qed.

Lemma all_chars_join p ls :
  p ","%char = true -> forallb (all_chars p) ls = true -> all_chars p (join "," ls) = true.
Proof.
  intros Hc. induction ls as [|x t IH]; simpl; [reflexivity|].
  rewrite andb_true_iff. intros [Hx Ht]. destruct t as [|y t'].
  - exact Hx.
  - rewrite all_chars_app, Hx. simpl. rewrite Hc. simpl. apply IH. exact Ht.
Qed.

(** ** decimal reading *)

Lemma int_digits_total s : forall acc,
  all_chars is_digit s = true -> exists z, int_digits acc s = Some z.
Proof.
  induction s as [|c t IH]; simpl; intros acc H.
  - eexists; reflexivity.
  - apply andb_true_iff in H. destruct H as [Hc Ht]. unfold digit_val. unfold is_digit in Hc.
    rewrite Hc. apply IH. exact Ht.
Qed.
