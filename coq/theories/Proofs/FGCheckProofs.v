(** Soundness of the decidable C07 checker (Spec/FGSpec.v): a passing check on a tree means
    that tree is the Hasse diagram of the reference relation. *)
From Coq Require Import ZArith List Bool String Arith Lia Relations.
From FGV Require Import Base.Util Base.StrMap Base.Bond Base.NX Model.Permute Model.Match Model.FGTree
                        Spec.Embedding Spec.EmbSearch Spec.FGCheck Spec.FGSpec Proofs.KeyOrder.
Import ListNotations.
Local Open Scope nat_scope.

Lemma smem_In x l : smem x l = true <-> In x l.
Proof.
  induction l as [|y t IH]; simpl; [split; [discriminate|tauto]|].
  rewrite orb_true_iff, IH, String.eqb_eq. split; intros [H|H]; auto.
Qed.

Lemma str_nodup_NoDup l : str_nodup l = true -> NoDup l.
Proof.
  induction l as [|x t IH]; simpl; [constructor|].
  rewrite andb_true_iff, negb_true_iff. intros [H1 H2]. constructor; auto.
  rewrite <- smem_In. congruence.
Qed.

Lemma str_set_eqb_In x y : str_set_eqb x y = true -> forall a, In a x <-> In a y.
Proof.
  unfold str_set_eqb. rewrite !andb_true_iff, !forallb_forall. intros [[H1 H2] _] a.
  split; intros H; apply smem_In; auto.
Qed.

Lemma anyb_existsb {A} (f : A -> bool) l : anyb f l = existsb f l.
Proof. induction l as [|x t IH]; simpl; auto. rewrite IH. destruct (f x); reflexivity. Qed.

Lemma forallb_seq f n : forallb f (seq 0 n) = true <-> forall i, i < n -> f i = true.
Proof.
  rewrite forallb_forall. split.
  - intros H i Hi. apply H. apply in_seq. lia.
  - intros H i Hi. apply in_seq in Hi. apply H. lia.
Qed.

Lemma existsb_seq_false f n : existsb f (seq 0 n) = false <-> forall i, i < n -> f i = false.
Proof.
  split.
  - intros H i Hi. destruct (f i) eqn:E; auto.
    assert (existsb f (seq 0 n) = true) by (apply existsb_exists; exists i; split; auto; apply in_seq; lia).
    congruence.
  - intros H. destruct (existsb f (seq 0 n)) eqn:E; auto.
    apply existsb_exists in E. destruct E as [i [Hi Hf]]. apply in_seq in Hi. rewrite H in Hf; [discriminate|lia].
Qed.

Section Sound.
  Variable cfgs : list fgconfig.
  Variable v : tview.
  Variable rm : matrix.

  Let n := List.length cfgs.
  Let r (i j : nat) : bool := mget rm i j.

  Lemma link_spec i j : link cfgs v i j = true <-> In (name_of cfgs j) (v_children v (name_of cfgs i)).
  Proof. unfold link. apply smem_In. Qed.

  Lemma name_of_nth i : i < n -> nth_error (map fg_name cfgs) i = Some (name_of cfgs i).
  Proof.
    intros Hi. unfold name_of. rewrite nth_error_map.
    destruct (nth_error cfgs i) eqn:E; auto. apply nth_error_None in E. unfold n in Hi. lia.
  Qed.

  Lemma name_of_inj i j : NoDup (map fg_name cfgs) -> i < n -> j < n -> name_of cfgs i = name_of cfgs j -> i = j.
  Proof.
    intros Hnd Hi Hj E. apply (proj1 (NoDup_nth_error _) Hnd).
    - rewrite map_length. exact Hi.
    - rewrite (name_of_nth i Hi), (name_of_nth j Hj), E. reflexivity.
  Qed.

  Lemma ancestor_sound : forall fuel i j, i < n ->
    ancestor cfgs v fuel i j = true -> clos_trans nat (vlink cfgs v) i j.
  Proof.
    induction fuel as [|f IH]; intros i j Hi H; simpl in H; [discriminate|].
    rewrite anyb_existsb in H. apply existsb_exists in H. destruct H as [k [Hk H]].
    unfold idxs, n_cfgs in Hk. apply in_seq in Hk.
    destruct (link cfgs v i k) eqn:El; [|discriminate].
    assert (Hl : vlink cfgs v i k).
    { split; [exact Hi|]. split; [unfold valid; lia|]. apply link_spec. exact El. }
    destruct (k =? j) eqn:Ekj.
    - apply Nat.eqb_eq in Ekj. subst k. apply t_step. exact Hl.
    - apply t_trans with k; [apply t_step; exact Hl|]. apply IH; auto. fold n. lia.
  Qed.

  Hypothesis Hok : hasse_okb cfgs v rm = true.

  Theorem hasse_okb_sound : hasse_spec cfgs v r.
  Proof.
    unfold hasse_okb in Hok. repeat rewrite andb_true_iff in Hok.
    destruct Hok as [[[[[[[Hnames Hpar] Hself] Hrp] Hro] Hanc] Hlnk] Hroots].
    unfold names_okb in Hnames. apply andb_true_iff in Hnames. destruct Hnames as [Hnd Hset].
    apply str_nodup_NoDup in Hnd.
    (* the reference relation is an order compatible with the keys *)
    unfold ref_orderb, idxs, n_cfgs in Hro. fold n in Hro.
    assert (Hr_key : forall i j, i < n -> j < n -> i <> j -> r i j = true ->
              exists a b, nth_error cfgs i = Some a /\ nth_error cfgs j = Some b /\ cfg_ltb a b = true).
    { intros i j Hi Hj Hij Hr. rewrite forallb_seq in Hro. specialize (Hro i Hi).
      rewrite forallb_seq in Hro. specialize (Hro j Hj).
      apply Nat.eqb_neq in Hij. rewrite Hij in Hro. unfold r in Hr. rewrite Hr in Hro.
      apply andb_true_iff in Hro. destruct Hro as [Hro _]. unfold cfg_i in Hro.
      destruct (nth_error cfgs i) as [a|]; [|discriminate]. destruct (nth_error cfgs j) as [b|]; [|discriminate].
      exists a, b. auto. }
    assert (Hr_trans : forall i j k, i < n -> j < n -> k < n -> i <> j -> k <> i -> k <> j ->
              r i j = true -> r j k = true -> r i k = true).
    { intros i j k Hi Hj Hk Hij Hki Hkj Hr1 Hr2. rewrite forallb_seq in Hro. specialize (Hro i Hi).
      rewrite forallb_seq in Hro. specialize (Hro j Hj).
      apply Nat.eqb_neq in Hij. rewrite Hij in Hro. unfold r in Hr1. rewrite Hr1 in Hro.
      apply andb_true_iff in Hro. destruct Hro as [_ Hro]. rewrite forallb_seq in Hro. specialize (Hro k Hk).
      apply Nat.eqb_neq in Hki, Hkj. rewrite Hki, Hkj in Hro. unfold r in Hr2. rewrite Hr2 in Hro. exact Hro. }
    (* links *)
    unfold idxs, n_cfgs in Hlnk. fold n in Hlnk.
    assert (Hlinks : forall i j, i < n -> j < n -> i <> j ->
              (vlink cfgs v i j <-> r i j = true /\
                 forall k, k < n -> k <> i -> k <> j -> r i k = true -> r k j = true -> False)).
    { intros i j Hi Hj Hij. rewrite forallb_seq in Hlnk. specialize (Hlnk i Hi).
      rewrite forallb_seq in Hlnk. specialize (Hlnk j Hj).
      apply Nat.eqb_neq in Hij. rewrite Hij in Hlnk. simpl in Hlnk. apply eqb_prop in Hlnk.
      unfold vlink, valid. fold n. rewrite <- link_spec, Hlnk. fold (r i j).
      rewrite andb_true_iff, negb_true_iff, existsb_seq_false. split.
      - intros [_ [_ [H1 H2]]]. split; auto. intros k Hk Hki Hkj Hr1 Hr2. specialize (H2 k Hk).
        apply Nat.eqb_neq in Hki, Hkj. rewrite Hki, Hkj in H2. simpl in H2.
        fold (r i k) in H2. fold (r k j) in H2. rewrite Hr1, Hr2 in H2. discriminate.
      - intros [H1 H2]. split; auto. split; auto. split; auto. intros k Hk.
        destruct (k =? i) eqn:Eki; simpl; auto. destruct (k =? j) eqn:Ekj; simpl; auto.
        fold (r i k). fold (r k j). destruct (r i k) eqn:E1; simpl; auto. destruct (r k j) eqn:E2; auto.
        exfalso. apply Nat.eqb_neq in Eki, Ekj. eapply H2; eauto. }
    (* no self link *)
    unfold no_self_ancestorb, idxs, n_cfgs in Hself. fold n in Hself. rewrite forallb_seq in Hself.
    assert (Hnoself : forall i, i < n -> ~ vlink cfgs v i i).
    { intros i Hi [_ [_ Hl]]. specialize (Hself i Hi). apply negb_true_iff in Hself.
      apply link_spec in Hl.
      assert (E : ancestor cfgs v n i i = true).
      { destruct n as [|m] eqn:En; [lia|]. simpl. rewrite anyb_existsb. apply existsb_exists.
        exists i. split; [unfold idxs, n_cfgs; fold n; rewrite En; apply in_seq; lia|].
        rewrite Hl, Nat.eqb_refl. reflexivity. }
      unfold n_cfgs in Hself. fold n in Hself. congruence. }
    (* every chain of links stays inside the reference relation and climbs in the key order *)
    assert (Hchain : forall i j, clos_trans nat (vlink cfgs v) i j -> i < n /\ j < n /\ i <> j /\ r i j = true).
    { induction 1 as [i j Hl|i j k _ IH1 _ IH2].
      - destruct Hl as [Hi [Hj Hl]]. unfold valid in Hi, Hj. fold n in Hi, Hj.
        assert (Hij : i <> j) by (intros ->; apply (Hnoself j Hj); split; auto; split; auto).
        split; auto. split; auto. split; auto.
        exact (proj1 (proj1 (Hlinks i j Hi Hj Hij) (conj Hi (conj Hj Hl)))).
      - destruct IH1 as [Hi [Hj [Hij Hr1]]]. destruct IH2 as [_ [Hk [Hjk Hr2]]].
        destruct (Hr_key i j Hi Hj Hij Hr1) as [a [b [Ea [Eb Hab]]]].
        destruct (Hr_key j k Hj Hk Hjk Hr2) as [b' [c [Eb' [Ec Hbc]]]].
        rewrite Eb in Eb'. inversion Eb'; subst b'.
        assert (Hac : cfg_ltb a c = true) by (eapply cfg_ltb_trans; eauto).
        assert (Hik : i <> k).
        { intros ->. rewrite Ea in Ec. inversion Ec; subst c. rewrite cfg_ltb_irrefl in Hac. discriminate. }
        split; auto. split; auto. split; auto.
        apply (Hr_trans i j k); auto. }
    constructor.
    - exact Hnd.
    - intros nm. symmetry. apply (str_set_eqb_In _ _ Hset).
    - intros i j Hi Hj Hij. apply Hlinks; auto.
    - intros i j Hi Hj. unfold valid in Hi, Hj. fold n in Hi, Hj. split.
      + intros H. apply Hchain in H. tauto.
      + intros [Hij Hr]. unfold idxs, n_cfgs in Hanc. fold n in Hanc.
        rewrite forallb_seq in Hanc. specialize (Hanc i Hi). rewrite forallb_seq in Hanc. specialize (Hanc j Hj).
        apply Nat.eqb_neq in Hij. rewrite Hij in Hanc. simpl in Hanc. apply eqb_prop in Hanc.
        fold (r i j) in Hanc. rewrite Hr in Hanc. apply (ancestor_sound n i j Hi). unfold n_cfgs in Hanc. exact Hanc.
    - intros i H. apply Hchain in H. destruct H as [_ [_ [H _]]]. congruence.
    - intros j Hj. unfold valid in Hj. fold n in Hj.
      rewrite (str_set_eqb_In _ _ Hroots). rewrite in_map_iff. split.
      + intros [j' [E Hj']]. apply filter_In in Hj'. destruct Hj' as [Hj'1 Hj'2].
        unfold idxs, n_cfgs in Hj'1. apply in_seq in Hj'1. fold n in Hj'1.
        assert (j' = j) by (apply name_of_inj; auto; lia). subst j'.
        apply negb_true_iff in Hj'2. unfold idxs, n_cfgs in Hj'2. fold n in Hj'2. rewrite existsb_seq_false in Hj'2.
        intros i Hi Hij. unfold valid in Hi. fold n in Hi. specialize (Hj'2 i Hi).
        apply Nat.eqb_neq in Hij. rewrite Hij in Hj'2. simpl in Hj'2. exact Hj'2.
      + intros H. exists j. split; auto. apply filter_In. split.
        * unfold idxs, n_cfgs. fold n. apply in_seq. lia.
        * apply negb_true_iff. unfold idxs, n_cfgs. fold n. apply existsb_seq_false. intros i Hi.
          destruct (i =? j) eqn:E; simpl; auto. apply Nat.eqb_neq in E. apply H; auto.
    - intros i j Hi Hj. unfold valid in Hi, Hj. fold n in Hi, Hj.
      unfold parents_okb, idxs, n_cfgs in Hpar. fold n in Hpar. rewrite forallb_seq in Hpar.
      rewrite (str_set_eqb_In _ _ (Hpar j Hj)). rewrite in_map_iff. unfold vlink, valid. fold n. split.
      + intros [i' [E Hi']]. apply filter_In in Hi'. destruct Hi' as [Hi'1 Hi'2].
        unfold idxs, n_cfgs in Hi'1. apply in_seq in Hi'1. fold n in Hi'1.
        assert (i' = i) by (apply name_of_inj; auto; lia). subst i'.
        split; auto. split; auto. apply link_spec. exact Hi'2.
      + intros [_ [_ Hl]]. exists i. split; auto. apply filter_In. split.
        * unfold idxs, n_cfgs. fold n. apply in_seq. lia.
        * apply link_spec. exact Hl.
  Qed.
End Sound.
