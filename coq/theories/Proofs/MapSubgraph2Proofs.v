(** C08 extension: map_subgraph2 (Model/MapSubgraph2.v).  Every reported mapping is an embedding of the
    whole pattern (from the matcher theorem C04_sound); the result is the list of successful anchored matches
    for SOME minimal anchor-symbol pair; the matcher never runs out of fuel; the decidable checks are sound. *)
From Coq Require Import ZArith List Bool String Lia.
From FGV Require Import Base.Util Base.UtilFacts Base.Bond Base.NX Base.NXFacts Base.Sym Model.Permute Model.MapMatrix
     Model.Match Model.Rule Model.MapSubgraph2 Spec.Embedding Spec.RuleSpec Spec.PermuteSpec Spec.PermuteCheck
     Spec.MinMappingSpec Proofs.PermuteProofs Proofs.PermuteCheckProofs Proofs.MapMatrixProofs Proofs.MinMappingProofs
     Proofs.RuleConn Proofs.NXCopyFacts16 Proofs.EmbeddingFacts Proofs.PermuteNil Proofs.MatchTheorems.
Import ListNotations.
Open Scope Z_scope.
Open Scope list_scope.

(** * the connected-components test *)

Lemma reachable_trans g u v w : reachable g u v -> reachable g v w -> reachable g u w.
Proof.
  intros Huv Hvw. induction Hvw as [v|v x y Hvx IH Hxy]; [exact Huv|].
  eapply RuleSpec.reach_step; [apply IH; exact Huv | exact Hxy].
Qed.

Lemma reachable_sym g u v : wf g -> reachable g u v -> reachable g v u.
Proof.
  intros Hwf H. induction H as [u|u v w Huv IH Hvw]; [apply RuleSpec.reach_refl|].
  apply (reachable_trans g w v u); [|exact IH].
  eapply RuleSpec.reach_step; [apply RuleSpec.reach_refl|]. rewrite (has_edge_sym g w v Hwf). exact Hvw.
Qed.

Lemma reachable_reach g s v : reachable g s v -> Embedding.reach g s v.
Proof.
  induction 1 as [u|u v w Huv IH Hvw]; [apply Embedding.reach_refl|].
  eapply Embedding.reach_step; [exact IH|]. apply neighbors_has_edge. exact Hvw.
Qed.

(* the test passed: the pattern is connected from every one of its nodes *)
Lemma one_component_connected P : wfb P = true -> more_than_one_component P = false ->
  forall pa, In pa (nodes P) -> connected_from P pa.
Proof.
  intros Hwfb Hc pa Hpa. pose proof (wfb_wf P Hwfb) as Hwf. unfold more_than_one_component in Hc.
  destruct P as [|[s e] t] eqn:EP; [destruct Hpa|]. rewrite <- EP in *.
  destruct (is_connected P) as [b|] eqn:Ec.
  - destruct b; [|discriminate].
    pose proof (proj1 (is_connected_correct P s e t Hwf EP) Ec) as Hall.
    intros p Hp. apply reachable_reach.
    apply (reachable_trans P pa s p); [|apply Hall; exact Hp].
    apply reachable_sym; [exact Hwf|]. apply Hall. exact Hpa.
  - rewrite EP in Ec. discriminate.
Qed.

(** * the two loops *)

Section Loops.
  Variables G P : graph.
  Variable mp : mapper.

  (* what every entry of the result list is *)
  Definition from_anchored (x : bool * list (Z * Z)) : Prop :=
    fst x = true /\ exists a pa vis, In pa (nodes P) /\ map_anchored_subgraph G P mp a pa = Ok (true, snd x, vis).

  Lemma inner_loop_inv s u : In u (nodes P) -> forall vs acc l,
    inner_loop G P mp s u vs acc = MS2Ok l -> (forall x, In x acc -> from_anchored x) -> forall x, In x l -> from_anchored x.
  Proof.
    intros Hu. induction vs as [|v t IH]; intros acc l H Hacc; simpl in H.
    - injection H as <-. exact Hacc.
    - destruct (sym_of G v) as [sv|]; [|discriminate].
      destruct (negb (String.eqb sv s)); [apply (IH _ _ H Hacc)|].
      destruct (map_anchored_subgraph G P mp v u) as [[[b m] vis]|e|] eqn:E; try discriminate.
      destruct b; [|apply (IH _ _ H Hacc)].
      apply (IH _ _ H). intros x Hx. apply in_app_iff in Hx. destruct Hx as [Hx|[<-|[]]]; [apply Hacc; exact Hx|].
      split; [reflexivity|]. exists v, u, vis. auto.
  Qed.

  Lemma outer_loop_inv p s : forall us acc l, (forall u, In u us -> In u (nodes P)) ->
    outer_loop G P mp p s us acc = MS2Ok l -> (forall x, In x acc -> from_anchored x) -> forall x, In x l -> from_anchored x.
  Proof.
    induction us as [|u t IH]; intros acc l Hus H Hacc; simpl in H.
    - injection H as <-. exact Hacc.
    - destruct (sym_of P u) as [su|]; [|discriminate].
      destruct (negb (String.eqb su p)); [apply (IH acc l); auto; intros; apply Hus; right; assumption|].
      destruct (inner_loop G P mp s u (nodes G) acc) as [| | | | | |acc'] eqn:E; try discriminate.
      apply (IH acc' l); [intros; apply Hus; right; assumption | exact H|].
      apply (inner_loop_inv s u (Hus u (or_introl eq_refl)) _ _ _ E Hacc).
  Qed.

  Lemma inner_loop_no_fuel s u : wfb P = true -> forall vs acc, inner_loop G P mp s u vs acc <> MS2Fuel.
  Proof.
    intros HwfP. induction vs as [|v t IH]; intros acc; simpl; [discriminate|].
    destruct (sym_of G v) as [sv|]; [|discriminate].
    destruct (negb (String.eqb sv s)); [apply IH|].
    pose proof (anchored_fuel_ok G P mp v u HwfP) as Hf.
    destruct (map_anchored_subgraph G P mp v u) as [[[b m] vis]|e|]; [|discriminate|contradiction].
    destruct b; apply IH.
  Qed.

  Lemma outer_loop_no_fuel p s : wfb P = true -> forall us acc, outer_loop G P mp p s us acc <> MS2Fuel.
  Proof.
    intros HwfP. induction us as [|u t IH]; intros acc; simpl; [discriminate|].
    destruct (sym_of P u) as [su|]; [|discriminate].
    destruct (negb (String.eqb su p)); [apply IH|].
    pose proof (inner_loop_no_fuel s u HwfP (nodes G) acc) as Hf.
    destruct (inner_loop G P mp s u (nodes G) acc); try discriminate; [contradiction | apply IH].
  Qed.
End Loops.

(** * soundness: every reported mapping is an embedding *)

Theorem map_subgraph2_from_anchored ord G P mp matrix l :
  map_subgraph2 ord G P mp matrix = MS2Ok l ->
  more_than_one_component P = false /\ forall x, In x l -> from_anchored G P mp x.
Proof.
  unfold map_subgraph2. destruct (more_than_one_component P); [discriminate|]. intros H. split; [reflexivity|].
  destruct (labels_of G) as [gl|]; [|discriminate]. destruct (labels_of P) as [sl|]; [|discriminate].
  destruct (match matrix with Some m => Some m | None => mm_init mp sl gl end) as [m|]; [|discriminate].
  destruct (min_mapping_symbol ord m sl gl) as [| |[[p s]|]]; try discriminate.
  apply (outer_loop_inv G P mp p s (nodes P) [] l); [auto | exact H | intros x []].
Qed.

Theorem map_subgraph2_sound w ic ord G P matrix l :
  wfb G = true -> wfb P = true ->
  map_subgraph2 ord G P (mk_mapper w ic []) matrix = MS2Ok l ->
  forall b pairs, In (b, pairs) l ->
    b = true /\ exists a pa, In pa (nodes P) /\ covers P pairs /\ Embedding w ic G a P pa (pair_fun pairs).
Proof.
  intros HG HP H b pairs Hin. destruct (map_subgraph2_from_anchored _ _ _ _ _ _ H) as (Hc & Hall).
  destruct (Hall _ Hin) as (Hb & a & pa & vis & Hpa & Hrun). simpl in Hb, Hrun. split; [exact Hb|].
  exists a, pa. split; [exact Hpa|].
  apply (C04_sound_thm w ic (permute_spec_nil w ic) G P HG HP a pa pairs vis); [|exact Hrun].
  apply one_component_connected; assumption.
Qed.

Theorem map_subgraph2_no_fuel ord G P mp matrix : wfb P = true -> map_subgraph2 ord G P mp matrix <> MS2Fuel.
Proof.
  intros HP. unfold map_subgraph2. destruct (more_than_one_component P); [discriminate|].
  destruct (labels_of G) as [gl|]; [|discriminate]. destruct (labels_of P) as [sl|]; [|discriminate].
  destruct (match matrix with Some m => Some m | None => mm_init mp sl gl end) as [m|]; [|discriminate].
  destruct (min_mapping_symbol ord m sl gl) as [| |[[p s]|]]; try discriminate.
  apply outer_loop_no_fuel. exact HP.
Qed.

(** * the result with the tie-break left open *)

Theorem map_subgraph2_spec_holds ord G P mp :
  (forall gl sl, labels_of G = Some gl -> labels_of P = Some sl -> set_order ord (sl ++ gl)) ->
  map_subgraph2_spec G P mp (map_subgraph2 ord G P mp None).
Proof.
  intros Hord. unfold map_subgraph2_spec, map_subgraph2.
  destruct (more_than_one_component P); [reflexivity|].
  destruct (labels_of G) as [gl|] eqn:EG; [|reflexivity]. destruct (labels_of P) as [sl|] eqn:EP; [|reflexivity].
  specialize (Hord gl sl eq_refl eq_refl).
  destruct (mm_init mp sl gl) as [m|] eqn:Em; [|reflexivity].
  destruct (mm_init_wf _ _ _ _ Em) as (Hwf & Hsyms & Hvalid). rewrite <- Hsyms in Hord.
  pose proof (min_mapping_symbol_spec ord m sl gl Hord Hwf) as S. unfold min_mapping_spec in S.
  destruct (List.length gl <? List.length sl)%nat; [rewrite S; reflexivity|].
  assert (Hreg : registered m sl && registered m gl = true).
  { unfold registered. rewrite Hsyms. apply andb_true_iff. split; apply forallb_forall; intros x Hx;
      apply sym_mem_In, in_or_app; auto. }
  rewrite Hreg in S. cbn [negb] in S.
  destruct (min_mapping_symbol ord m sl gl) as [| |[[p s]|]]; try contradiction.
  - right. exists (p, s). split; [apply S | reflexivity].
  - left. split; [exact S | reflexivity].
Qed.

(** * the decidable checks *)

Lemma pairs_eqb_eq x y : pairs_eqb x y = true <-> x = y.
Proof.
  unfold pairs_eqb. apply list_eqb_eq. intros [a1 a2] [b1 b2]. simpl.
  rewrite andb_true_iff, !Z.eqb_eq. split; [intros [-> ->]; reflexivity | intros [= -> ->]; auto].
Qed.

Lemma results_eqb_eq x y : results_eqb x y = true <-> x = y.
Proof.
  unfold results_eqb. apply list_eqb_eq. intros [a1 a2] [b1 b2]. simpl.
  rewrite andb_true_iff, pairs_eqb_eq, Bool.eqb_true_iff. split; [intros [-> ->]; reflexivity | intros [= -> ->]; auto].
Qed.

Lemma ms2_eqb_eq a b : ms2_eqb a b = true <-> a = b.
Proof.
  destruct a as [| | | |e| |x], b as [| | | |f| |y]; simpl; try (split; [discriminate|congruence]); try tauto.
  - destruct e, f; simpl; split; congruence.
  - rewrite results_eqb_eq. split; [intros ->; reflexivity | intros [= ->]; reflexivity].
Qed.

Theorem map_subgraph2_okb_sound G P mp r :
  map_subgraph2_okb G P mp r = true -> map_subgraph2_spec G P mp r.
Proof.
  unfold map_subgraph2_okb, map_subgraph2_spec.
  destruct (more_than_one_component P); [apply ms2_eqb_eq|].
  destruct (labels_of G) as [gl|]; [|apply ms2_eqb_eq]. destruct (labels_of P) as [sl|]; [|apply ms2_eqb_eq].
  destruct (mm_init mp sl gl) as [m|] eqn:Em; [|apply ms2_eqb_eq].
  destruct (mm_init_wf _ _ _ _ Em) as (Hwf & _ & _).
  destruct (List.length gl <? List.length sl)%nat; [apply ms2_eqb_eq|].
  rewrite orb_true_iff, andb_true_iff, existsb_exists. intros [(Hz & He)|(c & _ & Hc)].
  - left. split; [apply (all_zero_true m sl gl Hwf Hz) | apply ms2_eqb_eq; exact He].
  - right. apply andb_true_iff in Hc. destruct Hc as (Hmin & He). exists c.
    split; [apply (minimal_pairb_true m sl gl c Hwf Hmin) | apply ms2_eqb_eq; exact He].
Qed.

Theorem all_embeddingsb_sound w ic G P l :
  all_embeddingsb w ic G P (MS2Ok l) = true ->
  forall b pairs, In (b, pairs) l ->
    b = true /\ exists a pa, covers P pairs /\ Embedding w ic G a P pa (pair_fun pairs).
Proof.
  simpl. rewrite forallb_forall. intros H b pairs Hin. specialize (H _ Hin). simpl in H.
  apply andb_true_iff in H. destruct H as (Hb & He). split; [exact Hb|].
  apply existsb_exists in He. destruct He as ([a pa] & _ & He). exists a, pa. simpl in He.
  apply is_embedding_sound. exact He.
Qed.
