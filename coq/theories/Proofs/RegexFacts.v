(** The greedy, non-backtracking matcher [re_match] of Base/Regex.v computes what Python's
    backtracking matcher computes, on every regex satisfying [bt_free].
    [bt r s k] is the backtracking semantics in continuation-passing style: it enumerates the
    ways r can match a prefix of s in Python's priority order (first alternative first,
    longest repetition first) and returns the first one the continuation k accepts. *)
From Coq Require Import Ascii String Bool List.
From FGV Require Import Base.Regex Gen.Lexer Spec.LexerRef.
Import ListNotations.
Open Scope string_scope.

Fixpoint bt_star {A} (cs : cset) (s : string) (k : string -> string -> option A) : option A :=
  match s with
  | String c t =>
      if cset_mem cs c then
        match bt_star cs t (fun m r => k (String c m) r) with
        | Some x => Some x
        | None => k EmptyString s            (* give the character back *)
        end
      else k EmptyString s
  | EmptyString => k EmptyString s
  end.

Fixpoint bt {A} (r : regex) (s : string) (k : string -> string -> option A) : option A :=
  match r with
  | RLit l => match strip_prefix l s with Some rest => k l rest | None => None end
  | RSet cs =>
      match s with
      | String c t => if cset_mem cs c then k (String c EmptyString) t else None
      | EmptyString => None
      end
  | RStar cs => bt_star cs s k
  | RPlus cs => bt_star cs s (fun m r => match m with EmptyString => None | _ => k m r end)
  | RCat a b => bt a s (fun m1 r1 => bt b r1 (fun m2 r2 => k (m1 ++ m2) r2))
  | RAlt a b => match bt a s k with Some x => Some x | None => bt b s k end
  end.

(* re.match(r, s): the first way to match, nothing has to follow *)
Definition bt_match (r : regex) (s : string) : option (string * string) :=
  bt r s (fun m rest => Some (m, rest)).

(** the longest repetition is tried first ... *)
Lemma bt_star_first {A} cs s : forall (k : string -> string -> option A) x,
  k (fst (span cs s)) (snd (span cs s)) = Some x -> bt_star cs s k = Some x.
Proof.
  induction s as [|c t IH]; simpl; intros k x; [intros H; exact H|].
  destruct (cset_mem cs c) eqn:E; [|intros H; exact H].
  destruct (span cs t) as [m r] eqn:Es. simpl. intros H.
  rewrite (IH (fun m r => k (String c m) r) x); [reflexivity|]. exact H.
Qed.

(** ... and when the continuation refuses every rest that starts inside the set, giving
    characters back never helps *)
Definition starts_in (cs : cset) (r : string) : Prop :=
  match r with String c _ => cset_mem cs c = true | EmptyString => False end.

Lemma bt_star_only {A} cs s : forall (k : string -> string -> option A),
  (forall m r, starts_in cs r -> k m r = None) ->
  bt_star cs s k = k (fst (span cs s)) (snd (span cs s)).
Proof.
  induction s as [|c t IH]; simpl; intros k Hk; [reflexivity|].
  destruct (cset_mem cs c) eqn:E; [|reflexivity].
  rewrite (IH (fun m r => k (String c m) r)) by (intros m r Hr; apply Hk; exact Hr).
  destruct (span cs t) as [m r]. simpl.
  destruct (k (String c m) r); [reflexivity|]. apply Hk. simpl. exact E.
Qed.

Lemma span_empty_bt {A} cs s (k : string -> string -> option A) :
  fst (span cs s) = EmptyString -> bt_star cs s k = k EmptyString s.
Proof.
  destruct s as [|c t]; simpl; [reflexivity|].
  destruct (cset_mem cs c); [|reflexivity]. destruct (span cs t). simpl. discriminate.
Qed.

Lemma span_empty_rest cs s : fst (span cs s) = EmptyString -> snd (span cs s) = s.
Proof.
  destruct s as [|c t]; simpl; [reflexivity|].
  destruct (cset_mem cs c); [|reflexivity]. destruct (span cs t). simpl. discriminate.
Qed.

(* a sequence starting with a literal refuses a text starting with another character *)
Lemma bt_head_fail {A} b c0 s (k : string -> string -> option A) :
  lit_head b = Some c0 ->
  match s with String c _ => c <> c0 | EmptyString => True end ->
  bt b s k = None.
Proof.
  intros Hh Hs.
  assert (Hlit : forall l t, strip_prefix (String c0 l) s = Some t -> False).
  { intros l t. destruct s as [|c s']; simpl; [discriminate|].
    destruct (Ascii.eqb_spec c0 c); [subst; congruence|discriminate]. }
  destruct b; simpl in Hh; try discriminate.
  - destruct s0 as [|c1 l]; [discriminate|]. injection Hh as ->. cbn [bt].
    destruct (strip_prefix (String c0 l) s) eqn:E; [exfalso; eapply Hlit; exact E|reflexivity].
  - destruct b1; try discriminate. destruct s0 as [|c1 l]; [discriminate|]. injection Hh as ->.
    cbn [bt]. destruct (strip_prefix (String c0 l) s) eqn:E; [exfalso; eapply Hlit; exact E|reflexivity].
Qed.

Lemma follower_refuses {A} cs b (k : string -> string -> option A) :
  follows_ok (RStar cs) b = true ->
  forall m r, starts_in cs r -> bt b r (fun m2 r2 => k (m ++ m2) r2) = None.
Proof.
  unfold follows_ok. simpl. destruct (lit_head b) as [c0|] eqn:Eh; [|discriminate].
  intros Hc m r Hr. apply (bt_head_fail b c0); [exact Eh|].
  destruct r as [|c r']; [exact I|]. simpl in Hr. intros ->. rewrite Hr in Hc. discriminate.
Qed.

(** sequences: with a continuation that always accepts, the first way is the greedy one *)
Lemma seq_bt {A} r : seq_ok r = true ->
  forall s (k : string -> string -> option A), (forall m rest, k m rest <> None) ->
  bt r s k = match re_match r s with Some (m, rest) => k m rest | None => None end.
Proof.
  induction r as [l|cs|cs|cs|a IHa b IHb|a _ b _]; intros Hok s k Hk.
  - simpl. destruct (strip_prefix l s); reflexivity.
  - simpl. destruct s as [|c t]; [reflexivity|]. destruct (cset_mem cs c); reflexivity.
  - (* RPlus, last element *)
    simpl. destruct (span cs s) as [m rest] eqn:Es. destruct m as [|c m'].
    + rewrite span_empty_bt by (rewrite Es; reflexivity). reflexivity.
    + destruct (k (String c m') rest) as [x|] eqn:Ek; [|exfalso; eapply Hk; exact Ek].
      apply bt_star_first. rewrite Es. simpl. exact Ek.
  - (* RStar, last element *)
    simpl. destruct (span cs s) as [m rest] eqn:Es.
    destruct (k m rest) as [x|] eqn:Ek; [|exfalso; eapply Hk; exact Ek].
    apply bt_star_first. rewrite Es. exact Ek.
  - (* RCat a b *)
    simpl in Hok. apply andb_true_iff in Hok. destruct Hok as [Hok Hb].
    apply andb_true_iff in Hok. destruct Hok as [Hsimple Hfol].
    assert (Hb' : forall m1 r1,
               bt b r1 (fun m2 r2 => k (m1 ++ m2) r2) =
               match re_match b r1 with Some (m2, r2) => k (m1 ++ m2) r2 | None => None end).
    { intros m1 r1. apply IHb; [exact Hb|]. intros m2 r2. apply Hk. }
    destruct a as [l0|cs0|cs0|cs0|a1 a2|a1 a2]; try discriminate.
    + cbn [bt re_match]. destruct (strip_prefix l0 s) as [r1|]; [|reflexivity]. rewrite Hb'.
      destruct (re_match b r1) as [[m2 r2]|]; reflexivity.
    + cbn [bt re_match]. destruct s as [|c t]; [reflexivity|]. destruct (cset_mem cs0 c); [|reflexivity].
      rewrite Hb'. destruct (re_match b t) as [[m2 r2]|]; reflexivity.
    + (* RPlus cs0 followed by a literal outside cs0 *)
      cbn [bt re_match]. rewrite bt_star_only.
      * destruct (span cs0 s) as [m r1]. cbn [fst snd]. destruct m; [reflexivity|].
        rewrite Hb'. destruct (re_match b r1) as [[m2 r2]|]; reflexivity.
      * intros m r Hr. destruct m; [reflexivity|]. apply (follower_refuses cs0 b k Hfol). exact Hr.
    + (* RStar cs0 followed by a literal outside cs0 *)
      cbn [bt re_match]. rewrite bt_star_only.
      * destruct (span cs0 s) as [m r1]. cbn [fst snd].
        rewrite Hb'. destruct (re_match b r1) as [[m2 r2]|]; reflexivity.
      * intros m r Hr. apply (follower_refuses cs0 b k Hfol). exact Hr.
  - discriminate.
Qed.

(** the greedy matcher is Python's matcher on every [bt_free] regex *)
Theorem re_match_exact r : bt_free r = true -> forall s, bt_match r s = re_match r s.
Proof.
  unfold bt_match. induction r as [l|cs|cs|cs|a _ b _|a IHa b IHb]; intros Hok s;
    try (rewrite seq_bt; [destruct (re_match _ s) as [[m rest]|]; reflexivity|exact Hok|discriminate]).
  simpl in Hok. apply andb_true_iff in Hok. destruct Hok as [Ha Hb].
  simpl. rewrite (IHa Ha), (IHb Hb). destruct (re_match a s); reflexivity.
Qed.

(* in particular on every regex of the table regenerated from fgutils/parse.py *)
Theorem token_spec_exact : forall e, In e token_spec ->
  forall s, bt_match (snd e) s = re_match (snd e) s.
Proof.
  intros e He. apply re_match_exact.
  pose proof token_spec_bt_free as H. rewrite forallb_forall in H. exact (H e He).
Qed.
