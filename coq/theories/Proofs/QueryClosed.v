(** The premises of the C05 / concrete C07 theorems, discharged from the theorems of the owners of
    Model/Match.v (Proofs/MatchTheorems.v, Proofs/PermuteNil.v, Proofs/EmbeddingFacts.v) and of
    Model/Hydrogens.v (Proofs/HydrogensProofs.v); and the premise-free forms of the theorems. *)
From Coq Require Import ZArith List Bool String Sorted.
From FGV Require Import Base.Util Base.UtilFacts Base.Bond Base.NX Base.NXFacts Base.Sym
                        Model.Permute Model.Match Model.Hydrogens Model.FGTree Model.Query
                        Spec.Embedding Spec.PermuteAssign Spec.HydrogensSpec Spec.FGSpec Spec.QuerySpec
                        Proofs.EmbeddingFacts Proofs.PermuteNil Proofs.MatchTheorems Proofs.HydrogensProofs
                        Proofs.FGTreeProofs Proofs.EmbeddingOrder Proofs.QueryProofs Proofs.SubgroupSem
                        Proofs.ConcreteHasse Proofs.RefBridge.
Import ListNotations.
Open Scope Z_scope.

(** * the matcher *)
Theorem matcher_complete w ic : MatcherComplete w ic.
Proof. exact (C03_thm w ic (permute_spec_nil w ic)). Qed.

Theorem matcher_sound w ic : MatcherSound w ic.
Proof. exact (C04_sound_thm w ic (permute_spec_nil w ic)). Qed.

Theorem is_emb_sound : IsEmbSound.
Proof. exact EmbeddingFacts.is_embedding_sound. Qed.

Theorem is_emb_complete : IsEmbComplete.
Proof. exact EmbeddingFacts.is_embedding_complete. Qed.

(** * hydrogen completion *)
Theorem hyd_wf : HydWf.
Proof. exact addh_wf. Qed.

Theorem hyd_fresh : HydFresh.
Proof. exact addh_fresh. Qed.

(* every node of the completed graph carries a symbol: old nodes keep their attribute dict
   (preserve), new nodes are {symbol: "H"} (new_nodes) *)
Theorem hyd_syms : HydSyms.
Proof.
  intros g g' Hwf Hs H n Hn.
  destruct (addh_preserve g g' Hwf H) as [_ [Hattr _]].
  pose proof (addh_new_nodes g g' Hwf H) as Hnew.
  apply has_node_In in Hn. unfold sym_of.
  destruct (has_node g n) eqn:E.
  - rewrite (Hattr n E). apply has_node_In in E. destruct (Hs n E) as [s Hsym]. exists s. exact Hsym.
  - destruct (Hnew n Hn E) as [Ha _]. rewrite Ha. exists "H"%string. reflexivity.
Qed.

(** * premise-free forms *)
Theorem query_justified_configs_closed w ic cfgs req_h g r :
  wfb g = true -> has_syms g -> (forall c, In c cfgs -> cfg_ok c) ->
  query (mk_mapper w ic []) cfgs req_h g = Good r ->
  exists tr, build_config_tree_from_list (mk_mapper w ic []) cfgs = Good tr /\
             (forall i nd, nth_error (t_nodes tr) i = Some nd -> In (n_cfg nd) cfgs) /\
             C05_statement w ic tr req_h g r.
Proof.
  exact (query_justified_configs w ic (matcher_complete w ic) (matcher_sound w ic) hyd_wf hyd_fresh hyd_syms
                                  cfgs req_h g r).
Qed.

Theorem query_justified_closed w ic tr req_h g r :
  wfb g = true -> has_syms g ->
  (forall i nd, nth_error (t_nodes tr) i = Some nd -> cfg_ok (n_cfg nd)) ->
  get_functional_groups_with (mk_mapper w ic []) tr req_h g = Good r ->
  C05_statement w ic tr req_h g r.
Proof.
  exact (query_justified w ic (matcher_complete w ic) (matcher_sound w ic) hyd_wf hyd_fresh hyd_syms tr req_h g r).
Qed.

Theorem ifg_true_closed w ic G a c mx :
  wfb G = true -> has_syms G -> cfg_ok c -> a <= mx ->
  forall idx, is_functional_group (mk_mapper w ic []) G a c (Some mx) = Good (true, idx) ->
  PatternOnWith w ic G mx c a idx /\ ~ AntiOn w ic G c a /\ StronglySorted Z.lt idx /\ In a idx /\
  (forall x, In x idx -> In x (nodes G) /\ x <= mx).
Proof. exact (ifg_true_sem w ic (matcher_complete w ic) (matcher_sound w ic) G a c mx). Qed.

Theorem ifg_false_closed w ic G a c mx :
  wfb G = true -> has_syms G -> cfg_ok c -> a <= mx ->
  forall idx, is_functional_group (mk_mapper w ic []) G a c (Some mx) = Good (false, idx) ->
  ~ Witnessed w ic G c a.
Proof. exact (ifg_false_sem w ic (matcher_complete w ic) (matcher_sound w ic) G a c mx). Qed.

Theorem is_subgroup_sem_closed w ic a b t :
  cfg_parsed a -> cfg_parsed b ->
  is_subgroup (mk_mapper w ic []) a b = Good t ->
  (t = true <-> StrictlyBelow w ic (fg_pattern a) (fg_pattern b) /\ ~ vetoed w ic a b).
Proof. exact (is_subgroup_sem w ic (matcher_complete w ic) (matcher_sound w ic) a b t). Qed.

Theorem configs_hasse_concrete_closed ic (l : list fgconfig) :
  NoDup (map order_key l) ->
  (forall c, In c l -> cfg_plain ic c) ->
  (forall a b, In a l -> In b l -> exists t, is_subgroup (mk_mapper (Some "R"%string) ic []) a b = Good t) ->
  (forall a b, In a l -> In b l ->
     (subb_of (Some "R"%string) ic a b = true <-> StrictlyBelow (Some "R"%string) ic (fg_pattern a) (fg_pattern b))) /\
  exists t, build_config_tree_from_list (mk_mapper (Some "R"%string) ic []) l = Good t /\
            hasse_of (subb_of (Some "R"%string) ic) cfg_ltb l t.
Proof.
  exact (configs_hasse_concrete ic (matcher_complete (Some "R"%string) ic) (matcher_sound (Some "R"%string) ic) l).
Qed.

Theorem ref_sub_exact_closed w ic (a b : fgconfig) :
  wf (fg_pattern a) -> (forall ap, In ap (fg_anti a) -> wf ap) ->
  (ref_sub w ic a b = true <->
   Embeds w ic (fg_pattern a) (fg_pattern b) /\
   forall ap, In ap (fg_anti a) -> ~ Embeds w ic ap (fg_pattern b)).
Proof. exact (ref_sub_exact is_emb_sound is_emb_complete w ic a b). Qed.

Theorem embedsb_exact_closed w ic P G : wf P -> (embedsb w ic P G = true <-> Embeds w ic P G).
Proof. exact (embedsb_exact is_emb_sound is_emb_complete w ic P G). Qed.
