(** The tables regenerated from fgutils/rdkit.py equal the hand-written reference tables, and
    the two bond tables are inverse to each other on every supported order. *)
From Coq Require Import ZArith List Bool String.
From FGV Require Import Base.Util Base.Bond Base.NX Gen.RdkitMaps Model.Rdkit Spec.RdkitRef.
Import ListNotations.
Local Open Scope string_scope.
Open Scope Z_scope.

Lemma rdkit_maps_ok :
  g2m_bond_map = ref_g2m_bond_map /\ m2g_bond_map = ref_m2g_bond_map
  /\ default_bond = ref_default_bond /\ sym_map = ref_sym_map.
Proof. repeat split; reflexivity. Qed.

Lemma norm_ref s : norm s = ref_norm s.
Proof. unfold norm, ref_norm. destruct rdkit_maps_ok as (_ & _ & _ & ->). reflexivity. Qed.

Lemma to_type_ref l : to_type l = ref_to_type l.
Proof. unfold to_type, ref_to_type. destruct rdkit_maps_ok as (-> & _). reflexivity. Qed.

Lemma to_order_ref t : to_order t = ref_to_order t.
Proof.
  unfold to_order, ref_to_order. destruct rdkit_maps_ok as (_ & -> & -> & _). reflexivity.
Qed.

(* over the reference tables: writing an order as a bond type and reading it back is the identity
   exactly on the supported orders, and nothing else is accepted *)
Lemma ref_bond_maps_inverse o :
  In o supported_orders -> exists t, ref_to_type (Scalar o) = Ok t /\ ref_to_order t = o.
Proof.
  simpl. intros [<-|[<-|[<-|[<-|[<-|[]]]]]]; eexists; split; reflexivity.
Qed.

Lemma ref_to_type_supported l t : ref_to_type l = Ok t -> supported_label l = true /\
  exists o, l = Scalar o /\ ref_to_order t = o.
Proof.
  destruct l as [o|g h|g h]; simpl; try discriminate.
  unfold ref_to_type, to_type_with, ref_g2m_bond_map. cbn [alookup].
  destruct (o =? 2) eqn:E2; [apply Z.eqb_eq in E2; subst; intros [= <-]; split; [reflexivity|eexists; split; reflexivity]|].
  destruct (o =? 4) eqn:E4; [apply Z.eqb_eq in E4; subst; intros [= <-]; split; [reflexivity|eexists; split; reflexivity]|].
  destruct (o =? 6) eqn:E6; [apply Z.eqb_eq in E6; subst; intros [= <-]; split; [reflexivity|eexists; split; reflexivity]|].
  destruct (o =? 8) eqn:E8; [apply Z.eqb_eq in E8; subst; intros [= <-]; split; [reflexivity|eexists; split; reflexivity]|].
  destruct (o =? 3) eqn:E3; [apply Z.eqb_eq in E3; subst; intros [= <-]; split; [reflexivity|eexists; split; reflexivity]|].
  discriminate.
Qed.

(* the same statements about the tables the implementation uses *)
Theorem bond_maps_inverse o :
  In o supported_orders -> exists t, to_type (Scalar o) = Ok t /\ to_order t = o.
Proof.
  intros H. destruct (ref_bond_maps_inverse o H) as (t & H1 & H2). exists t.
  rewrite to_type_ref, to_order_ref. auto.
Qed.

Theorem to_type_supported l t :
  to_type l = Ok t -> supported_label l = true /\ exists o, l = Scalar o /\ to_order t = o.
Proof.
  rewrite to_type_ref. intros H. destruct (ref_to_type_supported l t H) as (H1 & o & H2 & H3).
  split; [exact H1|]. exists o. rewrite to_order_ref. auto.
Qed.

Lemma supported_label_to_type l :
  supported_label l = true -> exists o t, l = Scalar o /\ to_type l = Ok t /\ to_order t = o.
Proof.
  destruct l as [o|g h|g h]; simpl; try discriminate. intros H.
  assert (Hin : In o supported_orders).
  { unfold supported_orders in *. simpl in H. simpl.
    repeat (apply orb_true_iff in H; destruct H as [H|H]; [apply Z.eqb_eq in H; subst; tauto|]).
    discriminate. }
  destruct (bond_maps_inverse o Hin) as (t & H1 & H2). exists o, t. auto.
Qed.

(* the normalisation touches only the six aromatic symbols and is idempotent *)
Lemma ref_norm_idem s : ref_norm (ref_norm s) = ref_norm s.
Proof.
  unfold ref_norm, norm_with, ref_sym_map. cbn [slookup].
  repeat match goal with
  | |- context [if String.eqb s ?c then _ else _] =>
      destruct (String.eqb s c) eqn:?; [reflexivity|]
  end. cbn [slookup].
  repeat match goal with
  | H : String.eqb s ?c = false |- _ => rewrite H; clear H
  end. reflexivity.
Qed.
