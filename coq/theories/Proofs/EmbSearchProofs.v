(** The pruned reference search of Spec/EmbSearch.v is exact with respect to [is_embedding]:
    it answers true exactly when some list of pairs passes [is_embedding] (and the extra test). *)
From Coq Require Import ZArith List Bool String Lia Permutation.
From FGV Require Import Base.Util Base.UtilFacts Base.Bond Base.NX Base.NXFacts Base.Sym Spec.Embedding Spec.EmbSearch.
Import ListNotations.
Open Scope Z_scope.

Lemma anyb_exists {A} (f : A -> bool) l : anyb f l = true <-> exists x, In x l /\ f x = true.
Proof.
  induction l as [|y t IH]; simpl.
  - split; [discriminate|intros [x [[] _]]].
  - destruct (f y) eqn:E.
    + split; auto. intros _. exists y. auto.
    + rewrite IH. split; intros [x [Hx Hf]]; exists x; auto.
      destruct Hx as [->|Hx]; [congruence|auto].
Qed.

Lemma pfun_In m p h : pair_fun m p = Some h -> In (h, p) m.
Proof.
  unfold pair_fun. destruct (find (fun hp => snd hp =? p) m) as [[h' p']|] eqn:E; simpl; [|discriminate].
  intros [= <-]. apply find_some in E. destruct E as [Hin Hp]. simpl in Hp. apply Z.eqb_eq in Hp. subst p'. exact Hin.
Qed.

Lemma pfun_NoDup m p h : NoDup (map snd m) -> In (h, p) m -> pair_fun m p = Some h.
Proof.
  unfold pair_fun. induction m as [|[h' p'] t IH]; intros Hnd Hin; [destruct Hin|].
  simpl in *. inversion Hnd as [|? ? Hn Ht]; subst.
  destruct (Z.eqb_spec p' p) as [->|Hne].
  - destruct Hin as [E|Hin]; [inversion E; reflexivity|].
    exfalso. apply Hn. apply in_map_iff. exists (h, p). auto.
  - destruct Hin as [E|Hin]; [inversion E; congruence|]. apply IH; auto.
Qed.

Lemma pfun_perm m m' q : Permutation m m' -> NoDup (map snd m) -> pair_fun m q = pair_fun m' q.
Proof.
  intros Hp Hnd.
  assert (Hnd' : NoDup (map snd m')) by (eapply Permutation_NoDup; [apply Permutation_map; exact Hp|exact Hnd]).
  destruct (pair_fun m q) as [h|] eqn:E.
  - symmetry. apply pfun_NoDup; auto. eapply Permutation_in; [exact Hp|]. apply pfun_In. exact E.
  - destruct (pair_fun m' q) as [h'|] eqn:E'; auto.
    apply pfun_In in E'. assert (In (h', q) m) by (eapply Permutation_in; [symmetry; exact Hp|exact E']).
    rewrite (pfun_NoDup m q h' Hnd H) in E. discriminate.
Qed.

Lemma forallb_perm {A} (f : A -> bool) l l' : Permutation l l' -> forallb f l = true -> forallb f l' = true.
Proof. intros Hp. rewrite !forallb_forall. intros H x Hx. apply H. eapply Permutation_in; [symmetry; exact Hp|exact Hx]. Qed.

Lemma existsb_perm {A} (f : A -> bool) l l' : Permutation l l' -> existsb f l = true -> existsb f l' = true.
Proof.
  intros Hp. rewrite !existsb_exists. intros [x [Hx Hf]]. exists x. split; auto. eapply Permutation_in; eauto.
Qed.

Lemma fst_unique (m : list (Z * Z)) h p q : NoDup (map fst m) -> In (h, p) m -> In (h, q) m -> p = q.
Proof.
  induction m as [|[h' p'] t IH]; intros Hnd H1 H2; [destruct H1|].
  simpl in Hnd. inversion Hnd as [|? ? Hn Ht]; subst.
  destruct H1 as [E1|H1], H2 as [E2|H2].
  - congruence.
  - inversion E1; subst. exfalso. apply Hn. apply in_map_iff. exists (h, q). auto.
  - inversion E2; subst. exfalso. apply Hn. apply in_map_iff. exists (h, p). auto.
  - eauto.
Qed.

Lemma remove_z_In x y l : In y (remove_z x l) <-> In y l /\ y <> x.
Proof.
  induction l as [|z t IH]; simpl; [tauto|].
  destruct (Z.eqb_spec x z) as [->|Hne]; simpl; rewrite IH; intuition congruence.
Qed.

Lemma remove_z_NoDup x l : NoDup l -> NoDup (remove_z x l).
Proof.
  induction 1 as [|z t Hz Ht IH]; simpl; [constructor|].
  destruct (x =? z); auto. constructor; auto. rewrite remove_z_In. tauto.
Qed.

Section Exact.
  Variable w : option string.
  Variable ic : bool.
  Variable G P : graph.

  (** * is_embedding does not depend on the order of the pair list *)
  Lemma is_embedding_perm a pa m m' :
    Permutation m m' -> is_embedding w ic G a P pa m = true -> is_embedding w ic G a P pa m' = true.
  Proof.
    intros Hp. unfold is_embedding. rewrite !andb_true_iff.
    intros [[[[[[H1 H2] H3] H4] H5] H6] H7].
    assert (Hnd : NoDup (map snd m)) by (apply nodupb_NoDup; exact H1).
    repeat split.
    - apply nodupb_NoDup. eapply Permutation_NoDup; [apply Permutation_map; exact Hp|exact Hnd].
    - apply nodupb_NoDup. eapply Permutation_NoDup; [apply Permutation_map; exact Hp|apply nodupb_NoDup; exact H2].
    - rewrite forallb_forall in *. intros p Hpn. apply zmem_In.
      eapply Permutation_in; [apply Permutation_map; exact Hp|]. apply zmem_In. apply H3. exact Hpn.
    - eapply forallb_perm; [apply Permutation_map; exact Hp|exact H4].
    - eapply existsb_perm; eauto.
    - eapply forallb_perm; eauto.
    - rewrite forallb_forall in *. intros hp Hin.
      assert (Hin0 : In hp m) by (eapply Permutation_in; [symmetry; exact Hp|exact Hin]).
      specialize (H7 hp Hin0). rewrite forallb_forall in *. intros ql Hql. specialize (H7 ql Hql).
      rewrite <- (pfun_perm m m' (fst ql) Hp Hnd). exact H7.
  Qed.

  (** * soundness *)
  Lemma search_emb_sound accept : forall todo m,
    search_emb w ic G P accept todo m = true -> exists m', accept m' = true.
  Proof.
    induction todo as [|p t IH]; intros m H; simpl in H.
    - exists m. exact H.
    - apply anyb_exists in H. destruct H as [h [_ Hh]].
      destruct (place_okb w ic G P m h p); [|discriminate]. eapply IH; eauto.
  Qed.

  Theorem anchored_embb_sound extra a pa :
    anchored_embb w ic G P extra a pa = true ->
    exists m, is_embedding w ic G a P pa m = true /\ extra m = true.
  Proof.
    unfold anchored_embb. destruct (zmem pa (nodes P) && sym_okb w ic G P a pa); [|discriminate].
    intros H. apply search_emb_sound in H. destruct H as [m Hm].
    exists m. destruct (is_embedding w ic G a P pa m); [auto|discriminate].
  Qed.

  (** * completeness *)
  Section Complete.
    Variable a pa : Z.
    Variable m0 : list (Z * Z).
    Hypothesis Hm0 : is_embedding w ic G a P pa m0 = true.
    Hypothesis HP : NoDup (nodes P).

    Let f := pair_fun m0.
    Definition h_of (p : Z) : Z := match f p with Some h => h | None => 0 end.

    Lemma m0_facts :
      NoDup (map snd m0) /\ NoDup (map fst m0) /\
      (forall p, In p (map snd m0) <-> In p (nodes P)) /\ In (a, pa) m0 /\
      (forall h p, In (h, p) m0 -> sym_okb w ic G P h p = true) /\
      (forall h p q l h', In (h, p) m0 -> In (q, l) (adj P p) -> pair_fun m0 q = Some h' ->
                          option_eqb label_eqb (edge_label G h h') (Some l) = true).
    Proof.
      unfold is_embedding in Hm0. rewrite !andb_true_iff in Hm0.
      destruct Hm0 as [[[[[[H1 H2] H3] H4] H5] H6] H7].
      apply nodupb_NoDup in H1. apply nodupb_NoDup in H2. rewrite forallb_forall in H3, H4, H6, H7.
      split; [exact H1|]. split; [exact H2|]. split; [|split; [|split]].
      - intros p. split; intros H; apply zmem_In; auto.
      - apply existsb_exists in H5. destruct H5 as [[h p] [Hin Hhp]]. simpl in Hhp.
        apply andb_true_iff in Hhp. destruct Hhp as [Ea Ep]. apply Z.eqb_eq in Ea, Ep. subst. exact Hin.
      - intros h p Hin. apply (H6 (h, p) Hin).
      - intros h p q l h' Hin Hq Hf. specialize (H7 (h, p) Hin). simpl in H7. rewrite forallb_forall in H7.
        specialize (H7 (q, l) Hq). simpl in H7. rewrite Hf in H7. exact H7.
    Qed.

    Lemma f_total p : In p (nodes P) -> In (h_of p, p) m0.
    Proof.
      destruct m0_facts as [H1 [_ [H3 _]]]. intros Hp. apply H3 in Hp. apply in_map_iff in Hp.
      destruct Hp as [[h p'] [E Hin]]. simpl in E. subst p'. unfold h_of, f.
      rewrite (pfun_NoDup m0 p h H1 Hin). exact Hin.
    Qed.

    (* the list the search builds *)
    Fixpoint build (todo : list Z) (m : list (Z * Z)) : list (Z * Z) :=
      match todo with [] => m | p :: t => build t ((h_of p, p) :: m) end.

    Lemma build_In todo : forall m hp, In hp (build todo m) <-> In hp m \/ exists p, In p todo /\ hp = (h_of p, p).
    Proof.
      induction todo as [|p t IH]; intros m hp; simpl.
      - split; auto. intros [H|[p [[] _]]]. exact H.
      - rewrite IH. simpl. split.
        + intros [[<-|H]|[q [Hq E]]]; auto.
          * right. exists p. auto.
          * right. exists q. auto.
        + intros [H|[q [[<-|Hq] E]]]; auto. right. exists q. auto.
    Qed.

    Lemma build_snd todo : forall m, map snd (build todo m) = (rev todo ++ map snd m)%list.
    Proof.
      induction todo as [|p t IH]; intros m; simpl; auto.
      rewrite IH. simpl. rewrite <- app_assoc. reflexivity.
    Qed.

    Lemma search_emb_complete accept : forall todo m,
      (forall h p, In (h, p) m -> In (h, p) m0) ->
      (forall p, In p todo -> In p (nodes P) /\ ~ In p (map snd m)) ->
      NoDup todo ->
      accept (build todo m) = true ->
      search_emb w ic G P accept todo m = true.
    Proof.
      destruct m0_facts as [F1 [F2 [F3 [F5 [F6 F7]]]]].
      induction todo as [|p t IH]; intros m Hsub Htodo Hnd Hacc; simpl; [exact Hacc|].
      destruct (Htodo p (or_introl eq_refl)) as [Hp Hpm].
      pose proof (f_total p Hp) as Hin0.
      apply anyb_exists. exists (h_of p). split.
      - pose proof (F6 _ _ Hin0) as Hs. unfold sym_okb in Hs.
        destruct (sym_of P p) as [s1|]; [|discriminate]. destruct (sym_of G (h_of p)) as [s2|] eqn:Es; [|discriminate].
        unfold sym_of, node_attr in Es. destruct (alookup (h_of p) G) as [[at_ ad]|] eqn:El; [|discriminate].
        apply alookup_Some_key in El. exact El.
      - assert (Hplace : place_okb w ic G P m (h_of p) p = true).
        { unfold place_okb.
          destruct (zmem (h_of p) (map fst m)) eqn:Ez.
          - exfalso. apply zmem_In in Ez. apply in_map_iff in Ez. destruct Ez as [[h q] [E Hq]]. simpl in E. subst h.
            apply Hpm. assert (q = p) by (eapply fst_unique; [exact F2|apply Hsub; exact Hq|exact Hin0]).
            subst q. apply in_map_iff. exists (h_of p, p). auto.
          - rewrite (F6 _ _ Hin0). unfold edge_okb. apply forallb_forall. intros [q l] Hq. simpl.
            destruct (pair_fun m q) as [h'|] eqn:Eq; auto.
            apply pfun_In in Eq. apply Hsub in Eq.
            eapply F7; eauto. apply pfun_NoDup; auto. }
        rewrite Hplace. apply IH.
        + intros h q [E|H]; [inversion E; subst; exact Hin0|auto].
        + inversion Hnd as [|? ? Hpt Hndt]; subst. intros q Hq. destruct (Htodo q (or_intror Hq)) as [H1 H2].
          split; auto. simpl. intros [E|H]; [subst q; contradiction|contradiction].
        + inversion Hnd; assumption.
        + exact Hacc.
    Qed.

    Theorem anchored_embb_complete extra :
      extra m0 = true ->
      (forall m m', Permutation m m' -> is_embedding w ic G a P pa m = true -> extra m = extra m') ->
      anchored_embb w ic G P extra a pa = true.
    Proof.
      intros Hex Hinv. destruct m0_facts as [F1 [F2 [F3 [F5 [F6 F7]]]]].
      unfold anchored_embb.
      assert (Hpa : In pa (nodes P)) by (apply F3; apply in_map_iff; exists (a, pa); auto).
      assert (E1 : zmem pa (nodes P) = true) by (apply zmem_In; exact Hpa).
      rewrite E1, (F6 _ _ F5). simpl.
      set (todo := remove_z pa (nodes P)).
      assert (Hperm : Permutation m0 (build todo [(a, pa)])).
      { apply NoDup_Permutation.
        - eapply NoDup_map_inv. exact F1.
        - eapply NoDup_map_inv. rewrite build_snd. simpl.
          change ((rev todo ++ [pa])%list) with (rev (pa :: todo)).
          apply NoDup_rev. constructor.
          + subst todo. rewrite remove_z_In. tauto.
          + apply remove_z_NoDup. exact HP.
        - intros [h p]. rewrite build_In. simpl. split.
          + intros Hin. destruct (Z.eq_dec p pa) as [->|Hne].
            * left. left. f_equal. 
              assert (pair_fun m0 pa = Some h) by (apply pfun_NoDup; auto).
              assert (pair_fun m0 pa = Some a) by (apply pfun_NoDup; auto). congruence.
            * right. exists p. split.
              -- subst todo. apply remove_z_In. split; auto. apply F3. apply in_map_iff. exists (h, p). auto.
              -- f_equal. unfold h_of, f. rewrite (pfun_NoDup m0 p h F1 Hin). reflexivity.
          + intros [[E|[]]|[q [Hq E]]].
            * inversion E; subst. exact F5.
            * inversion E; subst. apply f_total. subst todo. apply remove_z_In in Hq. apply Hq. }
      apply search_emb_complete.
      - intros h p [E|[]]. inversion E; subst. exact F5.
      - intros p Hp. subst todo. apply remove_z_In in Hp. destruct Hp as [Hp Hne]. split; auto.
        simpl. intros [E|[]]. congruence.
      - subst todo. apply remove_z_NoDup. exact HP.
      - rewrite (is_embedding_perm a pa m0 _ Hperm Hm0). rewrite <- (Hinv m0 _ Hperm Hm0). exact Hex.
    Qed.
  End Complete.

  (** * exactness *)
  Theorem anchored_embb_exact extra a pa :
    NoDup (nodes P) ->
    (forall m m', Permutation m m' -> is_embedding w ic G a P pa m = true -> extra m = extra m') ->
    (anchored_embb w ic G P extra a pa = true <->
     exists m, is_embedding w ic G a P pa m = true /\ extra m = true).
  Proof.
    intros HP Hinv. split; [apply anchored_embb_sound|].
    intros [m [H1 H2]]. eapply anchored_embb_complete; eauto.
  Qed.

  (* re-anchoring: the anchor pair is just one of the pairs *)
  Lemma is_embedding_reanchor a pa m h p :
    is_embedding w ic G a P pa m = true -> In (h, p) m -> is_embedding w ic G h P p m = true.
  Proof.
    unfold is_embedding. rewrite !andb_true_iff. intros [[[[[[H1 H2] H3] H4] H5] H6] H7] Hin.
    repeat split; auto. apply existsb_exists. exists (h, p). split; auto. simpl. rewrite !Z.eqb_refl. reflexivity.
  Qed.

  Theorem embeds_anyb_exact :
    NoDup (nodes P) ->
    (embeds_anyb w ic G P = true <-> exists a pa m, is_embedding w ic G a P pa m = true).
  Proof.
    intros HP. unfold embeds_anyb. split.
    - destruct (nodes P) as [|pa0 t] eqn:En; [discriminate|].
      intros H. apply anyb_exists in H. destruct H as [a [_ Ha]].
      apply anchored_embb_sound in Ha. destruct Ha as [m [Hm _]]. exists a, pa0, m. exact Hm.
    - intros [a [pa [m Hm]]].
      destruct (nodes P) as [|pa0 t] eqn:En.
      + exfalso. unfold is_embedding in Hm. rewrite !andb_true_iff in Hm.
        destruct Hm as [[[[[[H1 H2] H3] H4] H5] H6] H7]. rewrite forallb_forall in H4.
        apply existsb_exists in H5. destruct H5 as [[h p] [Hin _]].
        assert (In p (map snd m)) by (apply in_map_iff; exists (h, p); auto).
        specialize (H4 p H). rewrite En in H4. discriminate.
      + (* the image of the first pattern node *)
        assert (Hex : exists h0, In (h0, pa0) m).
        { unfold is_embedding in Hm. rewrite !andb_true_iff in Hm.
          destruct Hm as [[[[[[H1 H2] H3] H4] H5] H6] H7]. rewrite forallb_forall in H3.
          assert (Hz : zmem pa0 (map snd m) = true) by (apply H3; rewrite En; left; reflexivity).
          apply zmem_In in Hz. apply in_map_iff in Hz. destruct Hz as [[h0 p0] [E Hin]]. simpl in E. subst p0.
          exists h0. exact Hin. }
        destruct Hex as [h0 Hin0].
        pose proof (is_embedding_reanchor a pa m h0 pa0 Hm Hin0) as Hm'.
        apply anyb_exists. exists h0. split.
        * unfold is_embedding in Hm. rewrite !andb_true_iff in Hm.
          destruct Hm as [[[[[[H1 H2] H3] H4] H5] H6] H7]. rewrite forallb_forall in H6.
          specialize (H6 (h0, pa0) Hin0). simpl in H6. unfold sym_okb in H6.
          destruct (sym_of P pa0) as [s1|]; [|discriminate]. destruct (sym_of G h0) as [s2|] eqn:Es; [|discriminate].
          unfold sym_of, node_attr in Es. destruct (alookup h0 G) as [[at_ ad]|] eqn:El; [|discriminate].
          apply alookup_Some_key in El. exact El.
        * rewrite <- En in HP. eapply (anchored_embb_complete h0 pa0 m Hm'); auto.
  Qed.
End Exact.
