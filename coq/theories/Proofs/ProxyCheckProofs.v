(** Soundness of the decidable C13 checkers (Spec/ProxyCheck.v) w.r.t. Spec/ProxySpec.v. *)
From Coq Require Import ZArith List Bool String Lia.
From FGV Require Import Base.Util Base.UtilFacts Base.Bond Base.NX Base.NXFacts Base.NXMulti
  Model.Proxy Spec.ProxySpec Spec.ProxyCheck Proofs.NXComposeFacts Proofs.NXMultiFacts Proofs.ProxyProofs.
Import ListNotations.
Open Scope Z_scope.

(** * reflection helpers *)

Lemma In_zseq lo hi x : In x (zseq lo hi) <-> lo <= x < hi.
Proof.
  unfold zseq. rewrite in_map_iff. split.
  - intros (i & <- & Hi). apply in_seq in Hi. lia.
  - intros Hx. exists (Z.to_nat (x - lo)). split; [lia|]. apply in_seq. lia.
Qed.

Lemma forallb_zseq (P : Z -> bool) lo hi :
  forallb P (zseq lo hi) = true -> forall x, lo <= x < hi -> P x = true.
Proof. rewrite forallb_forall. intros H x Hx. apply H. apply In_zseq. exact Hx. Qed.

Lemma ids_rangeb_sound ns lo hi : ids_rangeb ns lo hi = true -> ids_range ns lo hi.
Proof.
  unfold ids_rangeb, ids_range. rewrite andb_true_iff, forallb_forall. intros [H1 H2] x. split.
  - intros Hx. specialize (H1 x Hx). apply andb_true_iff in H1. lia.
  - intros Hx. apply zmem_In. apply (forallb_zseq _ _ _ H2). exact Hx.
Qed.

Lemma option_eqb_sound {A} (eqb : A -> A -> bool) :
  (forall a b, eqb a b = true -> a = b) -> forall x y, option_eqb eqb x y = true -> x = y.
Proof.
  intros H [a|] [b|]; simpl; try discriminate; try reflexivity. intros E. f_equal. apply H. exact E.
Qed.

Lemma list_eqb_sound {A} (eqb : A -> A -> bool) :
  (forall a b, eqb a b = true -> a = b) -> forall x y, list_eqb eqb x y = true -> x = y.
Proof.
  intros H. induction x as [|a x IH]; intros [|b y]; simpl; try discriminate; [reflexivity|].
  rewrite andb_true_iff. intros [E1 E2]. f_equal; [apply H; exact E1|apply IH; exact E2].
Qed.

Lemma nattr_eqb_sound a b : nattr_eqb a b = true -> a = b.
Proof.
  unfold nattr_eqb. rewrite !andb_true_iff. intros ((((H1 & H2) & H3) & H4) & H5).
  destruct a as [s1 m1 l1 i1 x1], b as [s2 m2 l2 i2 x2]; cbn [a_sym a_aam a_labels a_islab a_idxmap] in *.
  apply (option_eqb_sound String.eqb) in H1; [|intros ? ?; apply String.eqb_eq].
  apply (option_eqb_sound Z.eqb) in H2; [|intros ? ?; apply Z.eqb_eq].
  apply (option_eqb_sound (list_eqb String.eqb)) in H3;
    [|apply list_eqb_sound; intros ? ?; apply String.eqb_eq].
  apply (option_eqb_sound Bool.eqb) in H4; [|intros ? ?; apply Bool.eqb_prop].
  apply (option_eqb_sound (fun x y : Z * Z => (fst x =? fst y) && (snd x =? snd y))) in H5.
  - congruence.
  - intros [p q] [p' q']; simpl. rewrite andb_true_iff, !Z.eqb_eq. intros [-> ->]. reflexivity.
Qed.

Lemma label_opt_eqb_sound x y : option_eqb label_eqb x y = true -> x = y.
Proof. apply option_eqb_sound. intros a b. apply label_eqb_eq. Qed.

Lemma anchors_okb_sound anchors k :
  anchors_okb anchors k = true -> 0 < k -> anchors <> [] /\ Forall (fun a => 0 <= a < k) anchors.
Proof.
  unfold anchors_okb. intros H Hk. apply orb_true_iff in H. destruct H as [H|H].
  - apply negb_true_iff in H. destruct (Z.gtb_spec k 0); [discriminate|lia].
  - apply andb_true_iff in H. destruct H as [H1 H2]. split.
    + destruct anchors; [discriminate|congruence].
    + rewrite Forall_forall. rewrite forallb_forall in H2. intros a Ha. specialize (H2 a Ha).
      apply andb_true_iff in H2. lia.
Qed.

(** * simple graphs *)

Lemma replace_preb_sound g node h anchors :
  replace_preb g node h anchors = true -> replace_pre g node h anchors.
Proof.
  unfold replace_preb, replace_pre. cbv zeta. rewrite !andb_true_iff.
  intros ((((((H1 & H2) & H3) & H4) & H5) & H6) & H7).
  split; [apply wfb_wf; exact H1|]. split; [apply wfb_wf; exact H2|].
  split; [apply ids_rangeb_sound; exact H3|]. split; [apply ids_rangeb_sound; exact H4|].
  split; [lia|]. apply anchors_okb_sound. exact H7.
Qed.

Lemma cross_find_Some inc anchors m x y : forall i l,
  cross_find inc i anchors m x y = Some l ->
  exists j w, nth_error inc j = Some (w, y, l) /\ x = m + anchor_of anchors (i + j).
Proof.
  induction inc as [|[[w v] l0] t IH]; intros i l; simpl; [discriminate|].
  destruct ((v =? y) && (m + anchor_of anchors i =? x)) eqn:E.
  - intros [= ->]. apply andb_true_iff in E. destruct E as [E1 E2].
    apply Z.eqb_eq in E1. apply Z.eqb_eq in E2. subst.
    exists 0%nat, w. rewrite Nat.add_0_r. split; reflexivity.
  - intros H. destruct (IH _ _ H) as (j & w' & Hj & Hx). exists (S j), w'. split; [exact Hj|].
    rewrite Hx. f_equal. f_equal. lia.
Qed.

Lemma cross_find_None inc anchors m x y : forall i,
  cross_find inc i anchors m x y = None ->
  forall j w l, nth_error inc j = Some (w, y, l) -> x <> m + anchor_of anchors (i + j).
Proof.
  induction inc as [|[[w v] l0] t IH]; intros i; simpl; [intros _ [|j] ? ? H; discriminate|].
  destruct ((v =? y) && (m + anchor_of anchors i =? x)) eqn:E; [discriminate|].
  intros H [|j] w' l Hj.
  - cbn [nth_error] in Hj. injection Hj as -> -> ->. rewrite Nat.add_0_r.
    apply andb_false_iff in E. destruct E as [E|E].
    + apply Z.eqb_neq in E. congruence.
    + apply Z.eqb_neq in E. congruence.
  - cbn [nth_error] in Hj. replace (i + S j)%nat with (S i + j)%nat by lia. eapply IH; eauto.
Qed.

Theorem replace_okb_sound g node h anchors g' :
  replace_preb g node h anchors = true ->
  replace_okb g node h anchors (POk g') = true ->
  replace_spec g node h anchors g'.
Proof.
  intros Hpre Hok. unfold replace_okb in Hok. rewrite Hpre in Hok. cbv zeta in Hok.
  apply replace_preb_sound in Hpre. destruct Hpre as (Hg & Hh & Rg & Rh & Hnode & Hanch).
  unfold replace_spec. cbv zeta.
  set (m := number_of_nodes g) in *. set (k := number_of_nodes h) in *.
  rewrite !andb_true_iff in Hok.
  destruct Hok as ((((((C1 & C2) & C3) & C4) & C5) & C6) & C7).
  split; [apply wfb_wf; exact C1|].
  split; [apply ids_rangeb_sound; exact C2|].
  split.
  { intros x Hx Hne. pose proof (forallb_zseq _ _ _ C3 x Hx) as H. cbv beta in H.
    apply orb_true_iff in H. destruct H as [H|H]; [apply Z.eqb_eq in H; contradiction|].
    apply (option_eqb_sound nattr_eqb nattr_eqb_sound). exact H. }
  split.
  { intros x Hx. pose proof (forallb_zseq _ _ _ C4 x Hx) as H. cbv beta in H.
    apply (option_eqb_sound nattr_eqb nattr_eqb_sound). exact H. }
  split.
  { intros x y Hx Hy Hxn Hyn. pose proof (forallb_zseq _ _ _ C5 x Hx) as H. cbv beta in H.
    pose proof (forallb_zseq _ _ _ H y Hy) as H'. cbv beta in H'.
    rewrite !orb_true_iff in H'. destruct H' as [[H'|H']|H'];
      [apply Z.eqb_eq in H'; contradiction|apply Z.eqb_eq in H'; contradiction|].
    apply label_opt_eqb_sound. exact H'. }
  split.
  { intros x y Hx Hy. pose proof (forallb_zseq _ _ _ C6 x Hx) as H. cbv beta in H.
    pose proof (forallb_zseq _ _ _ H y Hy) as H'. cbv beta in H'.
    apply label_opt_eqb_sound. exact H'. }
  { intros x y l Hx Hy Hyn. pose proof (forallb_zseq _ _ _ C7 x Hx) as H. cbv beta in H.
    pose proof (forallb_zseq _ _ _ H y Hy) as H'. cbv beta in H'.
    apply orb_true_iff in H'. destruct H' as [H'|H']; [apply Z.eqb_eq in H'; contradiction|].
    apply label_opt_eqb_sound in H'. rewrite H'. split.
    - intros Hc. destruct (cross_find_Some _ _ _ _ _ _ _ Hc) as (j & w & Hj & Hxj).
      rewrite Nat.add_0_l in Hxj. destruct (nth_error_incident _ _ _ _ _ _ Hj) as [-> _].
      exists j. auto.
    - intros (i & Hi & Hxi).
      destruct (cross_find (incident g node) 0 anchors m x y) as [l'|] eqn:Hc.
      + destruct (cross_find_Some _ _ _ _ _ _ _ Hc) as (j & w & Hj & _).
        destruct (nth_error_incident _ _ _ _ _ _ Hj) as [_ Hin'].
        destruct (nth_error_incident _ _ _ _ _ _ Hi) as [_ Hin].
        pose proof (In_adj_edge_label _ _ _ _ Hg Hin) as E1.
        pose proof (In_adj_edge_label _ _ _ _ Hg Hin') as E2. congruence.
      + exfalso. apply (cross_find_None _ _ _ _ _ _ Hc i node l Hi). rewrite Nat.add_0_l. exact Hxi. }
Qed.

(* under the hypotheses the implementation must not raise *)
Lemma replace_okb_error g node h anchors e :
  replace_okb g node h anchors (PErr e) = true -> replace_preb g node h anchors = false.
Proof.
  unfold replace_okb. destruct (replace_preb g node h anchors); [discriminate|reflexivity].
Qed.

(** * multigraphs *)

Lemma lcount_pos_In l ls : lcount l ls <> 0%nat -> In l ls.
Proof.
  unfold lcount. induction ls as [|x t IH]; simpl; [congruence|].
  destruct (label_eqb l x) eqn:E; [intros _; left; symmetry; apply label_eqb_eq; exact E|].
  intros H. right. apply IH. exact H.
Qed.

Lemma lmultiset_eqb_sound a b : lmultiset_eqb a b = true -> forall l, lcount l a = lcount l b.
Proof.
  unfold lmultiset_eqb. rewrite forallb_forall. intros H l.
  destruct (Nat.eq_dec (lcount l a) 0) as [Ea|Ea]; destruct (Nat.eq_dec (lcount l b) 0) as [Eb|Eb].
  - congruence.
  - apply Nat.eqb_eq. apply H. apply in_or_app. right. apply lcount_pos_In. exact Eb.
  - apply Nat.eqb_eq. apply H. apply in_or_app. left. apply lcount_pos_In. exact Ea.
  - apply Nat.eqb_eq. apply H. apply in_or_app. left. apply lcount_pos_In. exact Ea.
Qed.

Lemma replace_multi_preb_sound g node h anchors :
  replace_multi_preb g node h anchors = true -> replace_multi_pre g node h anchors.
Proof.
  unfold replace_multi_preb, replace_multi_pre. cbv zeta. rewrite !andb_true_iff.
  intros ((((((H1 & H2) & H3) & H4) & H5) & H6) & H7).
  split; [apply mwfb_mwf; exact H1|]. split; [apply mwfb_mwf; exact H2|].
  split; [apply ids_rangeb_sound; exact H3|]. split; [apply ids_rangeb_sound; exact H4|].
  split; [lia|]. apply anchors_okb_sound. exact H7.
Qed.

Theorem replace_multi_okb_sound g node h anchors g' :
  replace_multi_preb g node h anchors = true ->
  replace_multi_okb g node h anchors (POk g') = true ->
  replace_multi_spec g node h anchors g'.
Proof.
  intros Hpre Hok. unfold replace_multi_okb in Hok. rewrite Hpre in Hok. cbv zeta in Hok.
  unfold replace_multi_spec. cbv zeta.
  set (m := mnumber_of_nodes g) in *. set (k := mnumber_of_nodes h) in *.
  rewrite !andb_true_iff in Hok.
  destruct Hok as ((((((C1 & C2) & C3) & C4) & C5) & C6) & C7).
  split; [apply mwfb_mwf; exact C1|].
  split; [apply ids_rangeb_sound; exact C2|].
  split.
  { intros x Hx Hne. pose proof (forallb_zseq _ _ _ C3 x Hx) as H. cbv beta in H.
    apply orb_true_iff in H. destruct H as [H|H]; [apply Z.eqb_eq in H; contradiction|].
    apply (option_eqb_sound nattr_eqb nattr_eqb_sound). exact H. }
  split.
  { intros x Hx. pose proof (forallb_zseq _ _ _ C4 x Hx) as H. cbv beta in H.
    apply (option_eqb_sound nattr_eqb nattr_eqb_sound). exact H. }
  split.
  { intros x y l Hx Hy Hxn Hyn. pose proof (forallb_zseq _ _ _ C5 x Hx) as H. cbv beta in H.
    pose proof (forallb_zseq _ _ _ H y Hy) as H'. cbv beta in H'.
    rewrite !orb_true_iff in H'. destruct H' as [[H'|H']|H'];
      [apply Z.eqb_eq in H'; contradiction|apply Z.eqb_eq in H'; contradiction|].
    unfold mcount. apply lmultiset_eqb_sound. exact H'. }
  split.
  { intros x y l Hx Hy. pose proof (forallb_zseq _ _ _ C6 x Hx) as H. cbv beta in H.
    pose proof (forallb_zseq _ _ _ H y Hy) as H'. cbv beta in H'.
    unfold mcount. apply lmultiset_eqb_sound. exact H'. }
  { intros x y l Hx Hy Hyn. pose proof (forallb_zseq _ _ _ C7 x Hx) as H. cbv beta in H.
    pose proof (forallb_zseq _ _ _ H y Hy) as H'. cbv beta in H'.
    apply orb_true_iff in H'. destruct H' as [H'|H']; [apply Z.eqb_eq in H'; contradiction|].
    apply andb_true_iff in H'. destruct H' as [H1 H2].
    unfold mcount. split; apply lmultiset_eqb_sound; assumption. }
Qed.

Lemma replace_multi_okb_error g node h anchors e :
  replace_multi_okb g node h anchors (PErr e) = true -> replace_multi_preb g node h anchors = false.
Proof.
  unfold replace_multi_okb. destruct (replace_multi_preb g node h anchors); [discriminate|reflexivity].
Qed.
