(** C16 proofs, part 7: a rule read from its GML text (as lexed line records) has the reaction
    centre the text describes. *)
From Coq Require Import ZArith List Bool String Lia.
From FGV Require Import Base.Util Base.UtilFacts Base.Bond Base.NX Base.NXFacts Model.Rule Gen.RuleMap
                        Spec.RuleSpec Proofs.NXCopyFacts16 Proofs.RuleSplit.
Import ListNotations.
Open Scope Z_scope.
Open Scope list_scope.

(* the source's bond table is the specification's *)
Lemma rule_bond_map_ok : bond_map = ref_bond_map.
Proof. reflexivity. Qed.

Section Gml.
  Variable bm : list (string * Z).

  Definition order (c : string) : Z := match slookup c bm with Some o => o | None => 0 end.
  Definition sc (e : Z * Z * string) : Z * Z * label := (fst (fst e), snd (fst e), Scalar (order (snd e))).

  (** * parsing the printed lines *)

  Lemma graph_lines_nodes ns rest : forall nds eds,
    graph_lines (map node_line ns ++ end_line :: rest) nds eds = GOk (nds ++ ns, eds, rest).
  Proof.
    induction ns as [|n t IH]; intros nds eds; simpl.
    - rewrite app_nil_r. reflexivity.
    - rewrite IH, <- app_assoc. reflexivity.
  Qed.

  Lemma graph_lines_print es ns rest : forall nds eds,
    graph_lines (map edge_line es ++ map node_line ns ++ end_line :: rest) nds eds
    = GOk (nds ++ ns, eds ++ es, rest).
  Proof.
    induction es as [|e t IH]; intros nds eds; simpl.
    - rewrite graph_lines_nodes, app_nil_r. reflexivity.
    - rewrite IH, <- app_assoc. reflexivity.
  Qed.

  Definition nodes_graph (ns : list (Z * string)) : graph :=
    fold_left (fun acc '(n, sym) => add_node acc n (na_sym sym)) ns empty_graph.

  Lemma add_gml_edges_ok es : forall g,
    (forall e, In e es -> is_some (slookup (snd e) bm) = true) ->
    add_gml_edges bm g es = GOk (add_edges_from g (map sc es)).
  Proof.
    induction es as [|[[u v] c] t IH]; intros g Hes; [reflexivity|].
    simpl add_gml_edges. pose proof (Hes (u, v, c) (or_introl eq_refl)) as Hc. simpl in Hc.
    unfold sc at 1. simpl. unfold order. destruct (slookup c bm) as [o|]; [|discriminate].
    rewrite IH by (intros e He; apply Hes; right; exact He). reflexivity.
  Qed.

  Definition gml_graph (ns : list (Z * string)) (es : list (Z * Z * string)) : graph :=
    add_edges_from (nodes_graph ns) (map sc es).

  Lemma parse_graph_print nm es ns rest :
    (forall e, In e es -> is_some (slookup (snd e) bm) = true) ->
    parse_graph bm (header_line nm :: map edge_line es ++ map node_line ns ++ end_line :: rest)
    = GOk (Some nm, gml_graph ns es, rest).
  Proof.
    intros Hes. unfold parse_graph. rewrite graph_lines_print. simpl app.
    fold (nodes_graph ns). rewrite add_gml_edges_ok by exact Hes. reflexivity.
  Qed.

  Lemma parse_print d :
    (forall e, In e (gd_left d) -> is_some (slookup (snd e) bm) = true) ->
    (forall e, In e (gd_right d) -> is_some (slookup (snd e) bm) = true) ->
    parse_gml_dpo_rule bm (print_gml d)
    = GOk (mkDPO (gd_id d) (gml_graph [] (gd_left d)) (gml_graph (gd_ctx d) []) (gml_graph [] (gd_right d))).
  Proof.
    intros HL HR. unfold print_gml. simpl app. unfold parse_gml_dpo_rule. simpl l_start. simpl l_id. cbv iota.
    simpl negb. cbv iota.
    change (map edge_line (gd_left d) ++ end_line :: header_line "context" :: ?r)
      with (map edge_line (gd_left d) ++ map node_line [] ++ end_line :: header_line "context" :: r).
    rewrite (parse_graph_print "left" (gd_left d) [] _ HL). simpl name_is. simpl negb. cbv iota.
    change (header_line "context" :: map node_line (gd_ctx d) ++ ?r)
      with (header_line "context" :: map edge_line [] ++ map node_line (gd_ctx d) ++ r).
    rewrite (parse_graph_print "context" [] (gd_ctx d) _ (fun e (H : In e []) => match H with end)).
    simpl name_is. simpl negb. cbv iota.
    change (map edge_line (gd_right d) ++ [end_line; end_line])
      with (map edge_line (gd_right d) ++ map node_line [] ++ end_line :: [end_line]).
    rewrite (parse_graph_print "right" (gd_right d) [] _ HR). simpl name_is. simpl negb. cbv iota.
    reflexivity.
  Qed.

  (** * the three graphs *)

  Lemma nodes_graph_form ns :
    NoDup (map fst ns) -> nodes_graph ns = map (fun e => (fst e, (na_sym (snd e), []))) ns.
  Proof.
    intros Hnd. unfold nodes_graph.
    assert (H : forall acc, fold_left (fun acc '(n, sym) => add_node acc n (na_sym sym)) ns acc
                            = add_nodes_from acc (map (fun e => (fst e, na_sym (snd e))) ns)).
    { induction ns as [|[n s] t IH]; intros acc; [reflexivity|]. simpl. rewrite IH; [reflexivity|].
      inversion Hnd; assumption. }
    rewrite H, add_nodes_from_fresh.
    - simpl. rewrite map_map. reflexivity.
    - simpl. rewrite map_map. simpl. exact Hnd.
  Qed.

  Lemma edges_aux_no_adj g : forall seen, (forall e, In e g -> snd (snd e) = []) -> edges_aux seen g = [].
  Proof.
    induction g as [|[n [a ad]] t IH]; intros seen H; [reflexivity|]. simpl.
    pose proof (H _ (or_introl eq_refl)) as Had. simpl in Had. subst ad. simpl.
    apply IH. intros e He. apply H. right. exact He.
  Qed.

  Lemma In_node_attr (g : graph) n a ad : NoDup (nodes g) -> In (n, (a, ad)) g -> node_attr g n = Some a.
  Proof. intros Hnd Hin. unfold node_attr. rewrite (NoDup_alookup n (a, ad) g Hnd Hin). reflexivity. Qed.

  Section Ctx.
    Variable ns : list (Z * string).
    Hypothesis Hnd : NoDup (map fst ns).
    Let Cg := nodes_graph ns.

    Lemma ctx_nodes : nodes Cg = map fst ns.
    Proof. unfold Cg. rewrite nodes_graph_form by exact Hnd. unfold nodes. rewrite map_map. reflexivity. Qed.

    Lemma ctx_edges : edges Cg = [].
    Proof.
      unfold Cg, edges. rewrite nodes_graph_form by exact Hnd. apply edges_aux_no_adj.
      intros e He. apply in_map_iff in He. destruct He as (x & <- & _). reflexivity.
    Qed.

    Lemma ctx_rc0 : add_nodes_from empty_graph (nodes_data Cg) = Cg.
    Proof.
      unfold Cg. rewrite nodes_graph_form by exact Hnd. unfold nodes_data. rewrite map_map.
      rewrite add_nodes_from_fresh.
      - simpl. rewrite map_map. reflexivity.
      - simpl. rewrite map_map. simpl. exact Hnd.
    Qed.

    Lemma ctx_wf : wf Cg.
    Proof.
      unfold Cg. rewrite nodes_graph_form by exact Hnd.
      replace (map (fun e : Z * string => (fst e, (na_sym (snd e), @nil (Z * label)))) ns)
        with (map strip (map (fun e : Z * string => (fst e, (na_sym (snd e), @nil (Z * label)))) ns))
        by (rewrite map_map; reflexivity).
      apply wf_strip. unfold nodes. rewrite map_map. exact Hnd.
    Qed.

    Lemma ctx_edge_label x y : edge_label Cg x y = None.
    Proof.
      unfold Cg. rewrite nodes_graph_form by exact Hnd. unfold edge_label, adj.
      destruct (alookup x _) as [[a ad]|] eqn:E; [|reflexivity].
      apply alookup_In in E. apply in_map_iff in E. destruct E as (e & [= _ _ <-] & _). reflexivity.
    Qed.

    Lemma ctx_attr n s : In (n, s) ns -> node_attr Cg n = Some (na_sym s).
    Proof.
      intros Hin. unfold Cg. rewrite nodes_graph_form by exact Hnd.
      apply (In_node_attr _ n (na_sym s) []).
      - unfold nodes. rewrite map_map. exact Hnd.
      - apply in_map_iff. exists (n, s). auto.
    Qed.
  End Ctx.

  (* graphs built from edges only *)
  Lemma has_node_add_edges_from es : forall h m,
    has_node (add_edges_from h es) m = true ->
    has_node h m = true \/ exists u v l, In (u, v, l) es /\ (m = u \/ m = v).
  Proof.
    induction es as [|[[u v] l] t IH]; intros h m H; [left; exact H|].
    rewrite add_edges_from_cons in H. apply IH in H. destruct H as [H|(u' & v' & l' & Hin & Hm)].
    - rewrite has_node_add_edge in H. apply orb_true_iff in H. destruct H as [H|H]; [|left; exact H].
      right. exists u, v, l. split; [left; reflexivity|].
      apply orb_true_iff in H. destruct H as [H|H]; apply Z.eqb_eq in H; auto.
    - right. exists u', v', l'. split; [right; exact Hin|exact Hm].
  Qed.

  Lemma edge_graph_wf es : wf (gml_graph [] es).
  Proof. unfold gml_graph. apply wf_add_edges_from. apply wf_empty. Qed.

  Lemma edge_graph_label es x y : edge_label (gml_graph [] es) x y = last_label (map sc es) x y.
  Proof.
    unfold gml_graph. rewrite edge_label_add_edges_from. destruct (last_label (map sc es) x y); reflexivity.
  Qed.

  Lemma edge_graph_nodes es m :
    In m (nodes (gml_graph [] es)) -> exists e, In e es /\ (m = fst (fst e) \/ m = snd (fst e)).
  Proof.
    intros H. apply has_node_In in H. unfold gml_graph in H. apply has_node_add_edges_from in H.
    destruct H as [H|(u & v & l & Hin & Hm)]; [discriminate|].
    apply in_map_iff in Hin. destruct Hin as (e & He & Hin). exists e. split; [exact Hin|].
    unfold sc in He. injection He as <- <- _. exact Hm.
  Qed.

  (* with every pair listed once, the label is the listed bond *)
  Lemma last_label_no_match es x y :
    (forall e, In e es -> same_pair x y (fst (fst e)) (snd (fst e)) = false) -> last_label (map sc es) x y = None.
  Proof.
    induction es as [|[[a b] c] t IH]; intros H; [reflexivity|]. simpl.
    rewrite IH by (intros e He; apply H; right; exact He).
    pose proof (H (a, b, c) (or_introl eq_refl)) as Hp. simpl in Hp. rewrite Hp. reflexivity.
  Qed.

  Lemma side_label es x y :
    pairs_distinctb es = true -> (forall e, In e es -> is_some (slookup (snd e) bm) = true) ->
    option_map ord (last_label (map sc es) x y) = side_lookup bm es x y.
  Proof.
    induction es as [|[[a b] c] t IH]; intros Hd Hs; [reflexivity|].
    simpl in Hd. apply andb_true_iff in Hd. destruct Hd as [Hd1 Hd2]. apply negb_true_iff in Hd1.
    simpl side_lookup. change (((x =? a) && (y =? b)) || ((x =? b) && (y =? a))) with (same_pair x y a b).
    simpl map. simpl last_label. destruct (same_pair x y a b) eqn:Hp.
    - rewrite last_label_no_match.
      + simpl. pose proof (Hs (a, b, c) (or_introl eq_refl)) as Hc. simpl in Hc. unfold order.
        destruct (slookup c bm); [reflexivity|discriminate].
      + intros e He. destruct (same_pair x y (fst (fst e)) (snd (fst e))) eqn:Hp2; [|reflexivity].
        exfalso. assert (Hex : existsb (fun e0 => ((fst (fst e0) =? a) && (snd (fst e0) =? b)) || ((fst (fst e0) =? b) && (snd (fst e0) =? a))) t = true).
        { apply existsb_exists. exists e. split; [exact He|].
          change (same_pair (fst (fst e)) (snd (fst e)) a b = true).
          apply same_pair_true in Hp. apply same_pair_true in Hp2. apply same_pair_true.
          destruct Hp as [[-> ->]|[-> ->]], Hp2 as [[<- <-]|[<- <-]]; auto. }
        congruence.
    - rewrite <- IH by (try assumption; intros e He; apply Hs; right; exact He).
      destruct (last_label (map sc t) x y); reflexivity.
  Qed.

  (** * to_rc_graph *)

  Definition comb (l r : option Z) : option label :=
    match l, r with
    | None, None => None
    | _, _ => Some (LPair (match l with Some x => x | None => 0 end) (match r with Some y => y | None => 0 end))
    end.

  Lemma check_left_nodes_ok rcg l :
    (forall n a, In (n, a) l -> has_node rcg n = true) -> check_left_nodes rcg l = None.
  Proof.
    induction l as [|[n a] t IH]; intros H; [reflexivity|]. simpl.
    rewrite (H n a (or_introl eq_refl)). apply IH. intros n' a' H'. apply (H n' a'). right. exact H'.
  Qed.

  Lemma fold_add_edge_map (f : label -> label) es : forall h,
    fold_left (fun acc '(u, v, d) => add_edge acc u v (f d)) es h
    = add_edges_from h (map (fun e => (fst (fst e), snd (fst e), f (snd e))) es).
  Proof.
    induction es as [|[[u v] d] t IH]; intros h; [reflexivity|]. simpl. rewrite IH. reflexivity.
  Qed.

  Section ToRc.
    Variables (Lg Cg Rg : graph).
    Hypothesis HL : wf Lg.
    Hypothesis HR : wf Rg.
    Hypothesis HC : wf Cg.
    Hypothesis HCe : forall x y, edge_label Cg x y = None.
    Hypothesis HLn : forall m, In m (nodes Lg) -> In m (nodes Cg).
    Hypothesis HRn : forall m, In m (nodes Rg) -> In m (nodes Cg).

    Let leftl x y := option_map ord (edge_label Lg x y).
    Let rightl x y := option_map ord (edge_label Rg x y).

    Definition rc1 : graph :=
      add_edges_from Cg (map (fun e => (fst (fst e), snd (fst e), LPair (ord (snd e)) 0)) (edges Lg)).

    Lemma rc1_spec :
      wf rc1 /\ nodes rc1 = nodes Cg /\ (forall n, node_attr rc1 n = node_attr Cg n)
      /\ (forall x y, edge_label rc1 x y = comb (leftl x y) None).
    Proof.
      unfold rc1.
      destruct (add_edges_from_present
                  (map (fun e => (fst (fst e), snd (fst e), LPair (ord (snd e)) 0)) (edges Lg)) Cg) as (N & A & _).
      { intros u v l Hin. apply in_map_iff in Hin. destruct Hin as ([[u' v'] d] & [= <- <- _] & Hin). simpl.
        apply in_edges_label in Hin; [|exact HL]. destruct (wf_edge_nodes Lg u' v' d HL Hin) as (Hu & Hv).
        split; apply has_node_In; apply HLn; apply has_node_In; assumption. }
      split; [apply wf_add_edges_from; exact HC|]. split; [exact N|]. split; [exact A|].
      intros x y. rewrite edge_label_add_edges_from, HCe. unfold leftl.
      destruct (last_label _ x y) as [l|] eqn:E.
      - destruct (last_label_In _ _ _ _ E) as (u & v & Hin & Hp).
        apply in_map_iff in Hin. destruct Hin as ([[u' v'] d] & [= <- <- <-] & Hin). simpl in *.
        apply in_edges_label in Hin; [|exact HL].
        rewrite (same_pair_label Lg x y u' v' d HL Hp Hin). reflexivity.
      - destruct (edge_label Lg x y) as [d|] eqn:E2; [|reflexivity]. exfalso.
        assert (Hpi : pair_in (edges Lg) x y = true).
        { rewrite pair_in_edges by exact HL. unfold has_edge. rewrite E2. reflexivity. }
        apply pair_in_true in Hpi. destruct Hpi as (u & v & l & Hin & Hp).
        pose proof (last_label_None _ _ _ E u v (LPair (ord l) 0)) as Hn.
        rewrite Hn in Hp; [discriminate|]. apply in_map_iff. exists (u, v, l). auto.
    Qed.

    Definition rc_inv (P : list (Z * Z * label)) (cur : graph) : Prop :=
      wf cur /\ nodes cur = nodes Cg /\ (forall n, node_attr cur n = node_attr Cg n)
      /\ (forall x y, edge_label cur x y = comb (leftl x y) (if pair_in P x y then rightl x y else None)).

    Lemma right_fold es : forall P cur,
      (forall u v d, In (u, v, d) es -> edge_label Rg u v = Some d) ->
      rc_inv P cur ->
      exists cur', fold_left right_step es (GOk cur) = GOk cur' /\ rc_inv (P ++ es) cur'.
    Proof.
      induction es as [|[[u v] d] t IH]; intros P cur Hes Hinv.
      - exists cur. rewrite app_nil_r. auto.
      - cbn [fold_left]. pose proof (Hes u v d (or_introl eq_refl)) as Hd.
        replace (P ++ (u, v, d) :: t) with ((P ++ [(u, v, d)]) ++ t) by (rewrite <- app_assoc; reflexivity).
        destruct Hinv as (W & N & A & E).
        assert (Hright : forall x y, same_pair x y u v = true -> rightl x y = Some (ord d)).
        { intros x y Hp. unfold rightl. rewrite (same_pair_label Rg x y u v d HR Hp Hd). reflexivity. }
        assert (Hleft : forall x y, same_pair x y u v = true -> leftl x y = leftl u v).
        { intros x y Hp. unfold leftl. apply same_pair_true in Hp.
          destruct Hp as [[-> ->]|[-> ->]]; [reflexivity|]. rewrite (wf_sym Lg v u HL). reflexivity. }
        unfold right_step at 2. rewrite (E u v).
        destruct (comb (leftl u v) (if pair_in P u v then rightl u v else None)) as [lb|] eqn:Ec.
        + assert (Hlb : exists b, lb = LPair (match leftl u v with Some x => x | None => 0 end) b).
          { unfold comb in Ec. destruct (leftl u v), (if pair_in P u v then rightl u v else None);
              try discriminate; injection Ec as <-; eauto. }
          destruct Hlb as (b & ->).
          apply IH; [intros a b' c H'; apply Hes; right; exact H'|].
          assert (Hhas : has_edge cur u v = true) by (unfold has_edge; rewrite (E u v), Ec; reflexivity).
          split; [apply wf_set_edge_label; exact W|]. split; [rewrite nodes_set_edge_label; exact N|].
          split; [intros n; rewrite node_attr_set_edge_label; apply A|].
          intros x y. rewrite edge_label_set_edge_label by exact W. rewrite Hhas, pair_in_app, pair_in_single. simpl andb.
          destruct (same_pair x y u v) eqn:Hp.
          * rewrite orb_true_r, (Hright x y Hp), (Hleft x y Hp). unfold comb. destruct (leftl u v); reflexivity.
          * rewrite orb_false_r. apply E.
        + assert (Hl : leftl u v = None) by (unfold comb in Ec; destruct (leftl u v); [discriminate|reflexivity]).
          assert (Hu : has_node cur u = true /\ has_node cur v = true).
          { destruct (wf_edge_nodes Rg u v d HR Hd) as (H1 & H2).
            split; apply has_node_In; rewrite N; apply HRn; apply has_node_In; assumption. }
          destruct Hu as (Hu & Hv).
          apply IH; [intros a b' c H'; apply Hes; right; exact H'|].
          split; [apply wf_add_edge; exact W|]. split; [rewrite nodes_add_edge_present by assumption; exact N|].
          split; [intros n; rewrite node_attr_add_edge_present by assumption; apply A|].
          intros x y. rewrite edge_label_add_edge', pair_in_app, pair_in_single.
          destruct (same_pair x y u v) eqn:Hp.
          * rewrite orb_true_r, (Hright x y Hp), (Hleft x y Hp), Hl. reflexivity.
          * rewrite orb_false_r. apply E.
    Qed.

    Lemma to_rc_spec id :
      edges Cg = [] -> add_nodes_from empty_graph (nodes_data Cg) = Cg ->
      exists x, to_rc_graph (mkDPO id Lg Cg Rg) = GOk x
        /\ wf x /\ nodes x = nodes Cg /\ (forall n, node_attr x n = node_attr Cg n)
        /\ (forall a b, edge_label x a b = comb (leftl a b) (rightl a b)).
    Proof.
      intros He H0. unfold to_rc_graph. simpl d_context. simpl d_left. simpl d_right. rewrite He, H0.
      rewrite check_left_nodes_ok.
      - rewrite (fold_add_edge_map (fun d => LPair (ord d) 0)). fold rc1.
        destruct rc1_spec as (W & N & A & E).
        destruct (right_fold (edges Rg) [] rc1) as (x & Hx & (W' & N' & A' & E')).
        { intros u v d Hin. apply in_edges_label; assumption. }
        { split; [exact W|]. split; [exact N|]. split; [exact A|]. intros a b. simpl. apply E. }
        exists x. split; [exact Hx|]. split; [exact W'|]. split; [exact N'|]. split; [exact A'|].
        intros a b. rewrite E'. simpl app. rewrite pair_in_edges by exact HR.
        unfold has_edge, rightl. destruct (edge_label Rg a b); reflexivity.
      - intros n a Hin. apply has_node_In. apply HLn. unfold nodes_data in Hin. unfold nodes.
        apply in_map_iff in Hin. destruct Hin as ([n' [a' ad]] & [= <- <-] & Hin).
        change n' with (fst (n', (a', ad))). apply in_map. exact Hin.
    Qed.
  End ToRc.

  (** * the round trip *)

  Lemma zmem_true k l : zmem k l = true -> In k l.
  Proof. apply zmem_In. Qed.

  Theorem gml_roundtrip_gen d :
    desc_wfb bm d = true ->
    exists rule, from_gml bm (print_gml d) = GOk (gd_id d, rule)
                 /\ wf (rc rule) /\ rc_describes bm d (rc rule).
  Proof.
    unfold desc_wfb, side_wfb. rewrite !andb_true_iff, !forallb_forall.
    intros [[Hnd [HLs HLd]] [HRs HRd]]. apply nodupb_NoDup in Hnd.
    assert (HLb : forall e, In e (gd_left d) -> is_some (slookup (snd e) bm) = true).
    { intros e He. specialize (HLs e He). rewrite !andb_true_iff in HLs. apply HLs. }
    assert (HRb : forall e, In e (gd_right d) -> is_some (slookup (snd e) bm) = true).
    { intros e He. specialize (HRs e He). rewrite !andb_true_iff in HRs. apply HRs. }
    unfold from_gml. rewrite (parse_print d HLb HRb).
    assert (Hctxn : nodes (gml_graph (gd_ctx d) []) = map fst (gd_ctx d)) by (apply ctx_nodes; exact Hnd).
    destruct (to_rc_spec (gml_graph [] (gd_left d)) (gml_graph (gd_ctx d) []) (gml_graph [] (gd_right d))
                (edge_graph_wf _) (edge_graph_wf _)) with (id := gd_id d) as (x & Hx & W & N & A & E).
    - apply ctx_wf. exact Hnd.
    - apply ctx_edge_label. exact Hnd.
    - intros m Hm. rewrite Hctxn. apply edge_graph_nodes in Hm. destruct Hm as (e & He & Hm).
      specialize (HLs e He). rewrite !andb_true_iff in HLs. destruct HLs as [[H1 H2] _].
      destruct Hm as [->| ->]; apply zmem_true; assumption.
    - intros m Hm. rewrite Hctxn. apply edge_graph_nodes in Hm. destruct Hm as (e & He & Hm).
      specialize (HRs e He). rewrite !andb_true_iff in HRs. destruct HRs as [[H1 H2] _].
      destruct Hm as [->| ->]; apply zmem_true; assumption.
    - apply ctx_edges. exact Hnd.
    - apply ctx_rc0. exact Hnd.
    - rewrite Hx. simpl d_id. eexists. split; [reflexivity|]. rewrite rc_reaction_rule.
      split; [exact W|]. split; [rewrite N; exact Hctxn|]. split.
      + intros n s Hin. rewrite A. apply ctx_attr; assumption.
      + intros u v. rewrite E, !edge_graph_label, !side_label by assumption. unfold desc_label, comb.
        destruct (side_lookup bm (gd_left d) u v), (side_lookup bm (gd_right d) u v); reflexivity.
  Qed.
End Gml.

(* for the table of the current source *)
Theorem gml_roundtrip d :
  desc_wfb ref_bond_map d = true ->
  exists rule, from_gml bond_map (print_gml d) = GOk (gd_id d, rule)
               /\ wf (rc rule) /\ rc_describes ref_bond_map d (rc rule).
Proof. rewrite rule_bond_map_ok. apply gml_roundtrip_gen. Qed.
