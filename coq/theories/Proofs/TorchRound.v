(** C18: single-graph conversion and round trip  its_from_torch (its_to_torch g). *)
From Coq Require Import ZArith List Bool String Lia.
From FGV Require Import Base.Util Base.UtilFacts Base.Bond Base.NX Base.NXFacts
  Model.Torch Spec.PeriodicRef Spec.TorchSpec Proofs.TorchTables Proofs.TorchUtil.
Import ListNotations.
Open Scope Z_scope.

(** * its -> torch *)

Lemma edges_endpoints g u v l : wf g -> In (u, v, l) (edges g) -> In u (nodes g) /\ In v (nodes g).
Proof.
  intros Hwf H. apply (in_edges_label g u v l Hwf) in H.
  destruct (wf_edge_nodes g u v l Hwf H) as [Hu Hv]. split; apply has_node_In; assumption.
Qed.

Lemma edge_entry_ok g u v l :
  wf g -> In (u, v, l) (edges g) -> pairlike l = true ->
  edge_entry (node_idx g) (u, v, l) = Ok (zindex u (nodes g), zindex v (nodes g), feat l).
Proof.
  intros Hwf Hin Hp. destruct (edges_endpoints g u v l Hwf Hin) as [Hu Hv].
  unfold edge_entry. rewrite !alookup_node_idx.
  apply zmem_In in Hu. apply zmem_In in Hv. rewrite Hu, Hv.
  destruct l; simpl in *; [discriminate| |]; reflexivity.
Qed.

Definition numof (e : Z * (nattr * adjl)) : Z :=
  match a_sym (fst (snd e)) with
  | Some s => match ref_atomic_number s with Some z => z | None => 0 end
  | None => 0
  end.

Definition col_pos (g : graph) (e : Z * Z * label) : list (Z * Z) :=
  let i := zindex (fst (fst e)) (nodes g) in
  let j := zindex (snd (fst e)) (nodes g) in [(i, j); (j, i)].

Theorem to_torch_ok g :
  wf g -> tabulated g -> pair_labelled g ->
  exists t, its_to_torch1 g = Ok t /\ to_torch_spec g t.
Proof.
  intros Hwf Htab Hpl. unfold its_to_torch1.
  rewrite (mapM_map _ (fun e => [numof e])).
  2:{ intros [n [a ad]] Hin. destruct (Htab n a ad Hin) as (s & z & Hs & Hz).
      unfold node_feature_its2torch, numof. cbn [fst snd]. rewrite Hs, sym2num_ref, Hz. reflexivity. }
  cbn [bind].
  rewrite (mapM_map _ (fun e : Z * Z * label =>
             (zindex (fst (fst e)) (nodes g), zindex (snd (fst e)) (nodes g), feat (snd e)))).
  2:{ intros [[u v] l] Hin. simpl. apply edge_entry_ok; [exact Hwf | exact Hin|].
      apply (Hpl u v l). apply in_edges_label; assumption. }
  cbn [bind]. eexists. split; [reflexivity|].
  unfold to_torch_spec. cbn [t_x t_ei t_ea t_batch]. split; [|split; [|split]].
  - clear Hwf Hpl. induction g as [|[n [a ad]] t IH]; simpl; constructor.
    + destruct (Htab n a ad (or_introl eq_refl)) as (s & z & Hs & Hz).
      exists s, z. simpl. unfold numof. simpl. rewrite Hs, Hz. auto.
    + apply IH. intros n' a' ad' H. apply (Htab n' a' ad'). right. exact H.
  - rewrite flat_map_map. apply flat_map_ext. intros [[u v] l]. reflexivity.
  - f_equal. rewrite flat_map_map. apply flat_map_ext. intros [[u v] l]. reflexivity.
  - reflexivity.
Qed.

(** * torch -> its *)

Lemma torch2its_syms (g : graph) x :
  Forall2 (fun (e : Z * (nattr * adjl)) (row : list Z) =>
             exists s z, a_sym (fst (snd e)) = Some s /\ ref_atomic_number s = Some z /\ row = [z]) g x ->
  exists syms, mapM node_feature_torch2its x = Ok syms /\
               Forall2 (fun (e : Z * (nattr * adjl)) s => a_sym (fst (snd e)) = Some s) g syms.
Proof.
  induction 1 as [|e row g' x' (s & z & Hs & Hz & ->) _ (syms & Hm & Hf)].
  - exists []. split; [reflexivity | constructor].
  - exists (s :: syms). split; [|constructor; assumption].
    simpl. rewrite num2sym_ref. apply ref_inverse in Hz. rewrite Hz. simpl. rewrite Hm. reflexivity.
Qed.

Lemma build_its_ok syms ei ea labels :
  ei <> [] -> List.length ea = List.length ei -> mapM label_of_attr ea = Ok labels ->
  build_its syms ei (Some ea) = Ok (fold_left add_col (combine ei labels) (init_graph syms)).
Proof.
  intros Hne Hlen Hlab. unfold build_its. destruct ei as [|p ei']; [contradiction|].
  rewrite Hlen, Nat.eqb_refl. cbn [negb]. rewrite Hlab. cbn [bind].
  rewrite fold_add_col_eq. reflexivity.
Qed.

Lemma Forall2_nth_error {A B} (R : A -> B -> Prop) l l' i a :
  Forall2 R l l' -> nth_error l i = Some a -> exists b, nth_error l' i = Some b /\ R a b.
Proof.
  intros H. revert i. induction H as [|x y t t' Hxy _ IH]; intros [|i] Hi; simpl in *; try discriminate.
  - injection Hi as <-. eauto.
  - apply IH. exact Hi.
Qed.

Lemma Forall2_length' {A B} (R : A -> B -> Prop) l l' : Forall2 R l l' -> List.length l = List.length l'.
Proof. induction 1; simpl; congruence. Qed.

Lemma nth_error_nodes (g : graph) i e : nth_error g i = Some e -> nth i (nodes g) 0 = fst e.
Proof.
  intros H. unfold nodes. apply (map_nth_error fst) in H. apply nth_error_nth. exact H.
Qed.

Lemma sym_of_entry g i e : NoDup (nodes g) -> nth_error g i = Some e -> sym_of g (fst e) = a_sym (fst (snd e)).
Proof.
  intros Hnd H. apply nth_error_In in H. destruct e as [n [a ad]]. simpl.
  unfold sym_of, node_attr. rewrite (NoDup_alookup n (a, ad) g Hnd H). reflexivity.
Qed.

(* the decoded columns *)
Definition rt_cols (g : graph) (e : Z * Z * label) : list ((Z * Z) * label) :=
  let i := zindex (fst (fst e)) (nodes g) in
  let j := zindex (snd (fst e)) (nodes g) in [((i, j), as_pair (snd e)); ((j, i), as_pair (snd e))].

Lemma label_of_attr_feat l : pairlike l = true -> label_of_attr (feat l) = Ok (as_pair l).
Proof. destruct l; simpl; [discriminate| |]; reflexivity. Qed.

(* a decoded column joining positions i and j carries the label of the edge between the i-th
   and the j-th node *)
Lemma rt_col_joins g c i j :
  wf g -> (i < List.length g)%nat -> (j < List.length g)%nat ->
  In c (flat_map (rt_cols g) (edges g)) -> joins c (Z.of_nat i) (Z.of_nat j) ->
  exists l0, snd c = as_pair l0 /\ edge_label g (nth i (nodes g) 0) (nth j (nodes g) 0) = Some l0.
Proof.
  intros Hwf Hi Hj Hin Hjoin. pose proof Hwf as (Hnd & _ & Hsym).
  assert (Hlen : List.length (nodes g) = List.length g) by (unfold nodes; apply map_length).
  apply in_flat_map in Hin. destruct Hin as ([[u v] l0] & He & Hc).
  destruct (edges_endpoints g u v l0 Hwf He) as [Hu Hv].
  pose proof (in_edges_label g u v l0 Hwf He) as Hl.
  assert (HU : In (nth i (nodes g) 0) (nodes g)) by (apply nth_In; lia).
  assert (HV : In (nth j (nodes g) 0) (nodes g)) by (apply nth_In; lia).
  assert (Pi : zindex (nth i (nodes g) 0) (nodes g) = Z.of_nat i) by (apply zindex_of_nth; [exact Hnd | lia]).
  assert (Pj : zindex (nth j (nodes g) 0) (nodes g) = Z.of_nat j) by (apply zindex_of_nth; [exact Hnd | lia]).
  exists l0. unfold rt_cols in Hc. simpl in Hc.
  assert (Hcases : snd c = as_pair l0 /\
            ((Z.of_nat i = zindex u (nodes g) /\ Z.of_nat j = zindex v (nodes g)) \/
             (Z.of_nat i = zindex v (nodes g) /\ Z.of_nat j = zindex u (nodes g)))).
  { destruct Hc as [<-|[<-|[]]]; (split; [reflexivity|]); unfold joins in Hjoin; simpl in Hjoin; tauto. }
  destruct Hcases as [Hs Hcases]. split; [exact Hs|].
  destruct Hcases as [[E1 E2]|[E1 E2]].
  - rewrite <- Pi in E1. rewrite <- Pj in E2.
    apply zindex_inj in E1; [|assumption..]. apply zindex_inj in E2; [|assumption..]. rewrite E1, E2. exact Hl.
  - rewrite <- Pi in E1. rewrite <- Pj in E2.
    apply zindex_inj in E1; [|assumption..]. apply zindex_inj in E2; [|assumption..]. rewrite E1, E2.
    apply Hsym. exact Hl.
Qed.

Lemma rt_col_range g c :
  wf g -> In c (flat_map (rt_cols g) (edges g)) ->
  0 <= fst (fst c) < Z.of_nat (List.length g) /\ 0 <= snd (fst c) < Z.of_nat (List.length g).
Proof.
  intros Hwf Hin. apply in_flat_map in Hin. destruct Hin as ([[u v] l0] & He & Hc).
  destruct (edges_endpoints g u v l0 Hwf He) as [Hu Hv].
  assert (Hlen : List.length (nodes g) = List.length g) by (unfold nodes; apply map_length).
  pose proof (zindex_range u (nodes g) Hu). pose proof (zindex_range v (nodes g) Hv).
  unfold rt_cols in Hc. simpl in Hc. destruct Hc as [<-|[<-|[]]]; simpl; lia.
Qed.

(** the graph decoded from the tensor form of g *)
Theorem from_torch_of_to_torch g t :
  wf g -> pair_labelled g -> edges g <> [] -> to_torch_spec g t ->
  exists g', its_from_torch t = Ok (One g') /\ roundtrip_spec g g'.
Proof.
  intros Hwf Hpl Hne (Hx & Hei & Hea & Hb).
  pose proof Hwf as (Hnd & _ & Hsym).
  assert (HlenN : List.length (nodes g) = List.length g) by (unfold nodes; apply map_length).
  destruct (torch2its_syms g (t_x t) Hx) as (syms & Hsyms & Hfs).
  pose proof (Forall2_length' _ _ _ Hfs) as Hlsyms.
  unfold its_from_torch. rewrite Hb. unfold its_from_torch_data. rewrite Hsyms. cbn [bind].
  rewrite Hea, Hei.
  assert (Hlab : mapM label_of_attr (flat_map (fun e : Z * Z * label => [feat (snd e); feat (snd e)]) (edges g))
                 = Ok (flat_map (fun e : Z * Z * label => [as_pair (snd e); as_pair (snd e)]) (edges g))).
  { apply mapM_flat_map. intros [[u v] l] Hin. simpl.
    rewrite label_of_attr_feat by (apply (Hpl u v l); apply in_edges_label; assumption). reflexivity. }
  rewrite (build_its_ok syms _ _ (flat_map (fun e : Z * Z * label => [as_pair (snd e); as_pair (snd e)]) (edges g))).
  2:{ destruct (edges g) as [|e0 r]; [contradiction|]. simpl. discriminate. }
  2:{ rewrite !flat_map_length2 by reflexivity. reflexivity. }
  2:{ exact Hlab. }
  cbn [bind].
  rewrite (combine_flat_map _ _ (edges g)) by reflexivity.
  change (flat_map _ (edges g)) with (flat_map (rt_cols g) (edges g)).
  set (cols := flat_map (rt_cols g) (edges g)).
  set (g' := fold_left add_col cols (init_graph syms)).
  assert (Hwf' : wf g') by (apply wf_fold_add_col, init_graph_wf).
  assert (Hnodes : nodes g' = znats (List.length g)).
  { unfold g'. rewrite nodes_fold_add_col; [rewrite init_graph_nodes, <- Hlsyms; reflexivity|].
    intros c Hc. destruct (rt_col_range g c Hwf Hc) as [H1 H2].
    split.
    - replace (fst (fst c)) with (Z.of_nat (Z.to_nat (fst (fst c)))) by lia. apply init_graph_has_node. lia.
    - replace (snd (fst c)) with (Z.of_nat (Z.to_nat (snd (fst c)))) by lia. apply init_graph_has_node. lia. }
  exists g'. split; [reflexivity|].
  unfold roundtrip_spec. cbv zeta. split; [exact Hnodes|]. split; [|split; [|split]].
  - intros i Hi.
    destruct (nth_error g i) as [e|] eqn:Ee; [|apply nth_error_None in Ee; lia].
    destruct (Forall2_nth_error _ _ _ _ _ Hfs Ee) as (s & Hs & Hes).
    exists s. split.
    + rewrite (nth_error_nodes g i e Ee), (sym_of_entry g i e Hnd Ee). exact Hes.
    + unfold g'. apply node_attr_fold_add_col. unfold node_attr. rewrite (init_graph_alookup syms i s Hs). reflexivity.
  - intros i j Hi Hj.
    destruct (edge_label g (nth i (nodes g) 0) (nth j (nodes g) 0)) as [l|] eqn:El; cbn [option_map].
    + unfold g'. apply fold_add_col_some.
      * assert (HU : In (nth i (nodes g) 0) (nodes g)) by (apply nth_In; lia).
        assert (HV : In (nth j (nodes g) 0) (nodes g)) by (apply nth_In; lia).
        assert (Pi : zindex (nth i (nodes g) 0) (nodes g) = Z.of_nat i) by (apply zindex_of_nth; [exact Hnd | lia]).
        assert (Pj : zindex (nth j (nodes g) 0) (nodes g) = Z.of_nat j) by (apply zindex_of_nth; [exact Hnd | lia]).
        destruct (edges_complete g _ _ _ Hwf El) as [He|He].
        -- exists ((Z.of_nat i, Z.of_nat j), as_pair l). split.
           ++ unfold cols. apply in_flat_map. eexists. split; [exact He|].
              unfold rt_cols. simpl. rewrite Pi, Pj. left. reflexivity.
           ++ left. simpl. auto.
        -- exists ((Z.of_nat j, Z.of_nat i), as_pair l). split.
           ++ unfold cols. apply in_flat_map. eexists. split; [exact He|].
              unfold rt_cols. simpl. rewrite Pi, Pj. left. reflexivity.
           ++ right. simpl. auto.
      * intros c Hc Hjoin. destruct (rt_col_joins g c i j Hwf Hi Hj Hc Hjoin) as (l0 & Hs & Hl0).
        rewrite Hs. congruence.
    + unfold g'. rewrite fold_add_col_none.
      * unfold edge_label. rewrite init_graph_adj. reflexivity.
      * intros c Hc Hjoin. destruct (rt_col_joins g c i j Hwf Hi Hj Hc Hjoin) as (l0 & _ & Hl0). congruence.
  - intros x y l Hl. destruct (wf_edge_nodes g' x y l Hwf' Hl) as [H1 H2].
    split; apply has_node_In; assumption.
  - destruct Hwf' as (_ & H2 & _). exact H2.
Qed.

(** * the round trip, for every well-formed ITS graph with tabulated symbols, pair labels and
    at least one edge, whatever its node ids *)
Theorem torch_roundtrip g :
  wf g -> tabulated g -> pair_labelled g -> edges g <> [] ->
  exists t g', its_to_torch1 g = Ok t /\ to_torch_spec g t /\
               its_from_torch t = Ok (One g') /\ roundtrip_spec g g'.
Proof.
  intros Hwf Htab Hpl Hne. destruct (to_torch_ok g Hwf Htab Hpl) as (t & Ht & Hspec).
  destruct (from_torch_of_to_torch g t Hwf Hpl Hne Hspec) as (g' & Hg' & Hrt).
  exists t, g'. auto.
Qed.

(** without an edge the way back is refused (the assert in _build_its): the property excludes it *)
Theorem torch_roundtrip_no_edge g t :
  edges g = [] -> its_to_torch1 g = Ok t -> exists e, its_from_torch t = Err e.
Proof.
  intros He Ht. unfold its_to_torch1 in Ht. rewrite He in Ht.
  destruct (mapM _ g) as [x|e] eqn:Ex; cbn [bind mapM] in Ht; [|discriminate].
  injection Ht as <-. unfold its_from_torch, its_from_torch_data. cbn [t_batch t_x t_ei t_ea flat_map].
  destruct (mapM node_feature_torch2its x) as [syms|e] eqn:Es; cbn [bind build_its]; eauto.
Qed.
