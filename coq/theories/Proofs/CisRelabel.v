(** Facts about the networkx model used by C17: add_node / add_edge / add_edges_from,
    Graph.edges on well-formed graphs, nx.relabel_nodes with an injective mapping, and the
    numbering built by node_induced_connected_subgraphs. *)
From Coq Require Import ZArith List Bool Lia.
From FGV Require Import Base.Util Base.UtilFacts Base.Bond Base.NX Model.Cis Proofs.CisCore.
Import ListNotations.
Open Scope Z_scope.

(** * Association lists *)

Lemma alookup_app {A} k (l1 l2 : list (Z * A)) :
  alookup k (l1 ++ l2) = match alookup k l1 with Some a => Some a | None => alookup k l2 end.
Proof.
  induction l1 as [|[k' a'] t IH]; simpl; [reflexivity|].
  destruct (k =? k'); [reflexivity | exact IH].
Qed.

Lemma aset_fresh {A} k (a : A) l : ~ In k (akeys l) -> aset k a l = l ++ [(k, a)].
Proof.
  induction l as [|[k' a'] t IH]; simpl; intros Hni; [reflexivity|].
  destruct (Z.eqb_spec k k') as [->|Hne]; [exfalso; apply Hni; left; reflexivity|].
  rewrite IH by tauto. reflexivity.
Qed.

Lemma akeys_app {A} (l1 l2 : list (Z * A)) : akeys (l1 ++ l2) = akeys l1 ++ akeys l2.
Proof. apply map_app. Qed.

(** * has_node / nodes / neighbors under the graph constructors *)

Lemma has_node_In' g v : has_node g v = true <-> In v (nodes g).
Proof.
  unfold has_node, nodes. destruct (alookup v g) as [a|] eqn:E; simpl.
  - split; [intros _; eapply alookup_Some_key; exact E | reflexivity].
  - split; [discriminate|]. intros Hin. apply alookup_None in E. contradiction.
Qed.

Lemma neighbors_set_adj g u v l w :
  neighbors (set_adj g u v l) w =
  if (w =? u) && has_node g u then akeys (aset v l (adj g u)) else neighbors g w.
Proof.
  unfold set_adj, neighbors, adj, has_node.
  destruct (alookup u g) as [[a ad]|] eqn:E; simpl.
  - rewrite alookup_aset. destruct (Z.eqb_spec w u) as [->|Hne]; simpl; [reflexivity|reflexivity].
  - rewrite andb_false_r. reflexivity.
Qed.

Lemma nodes_akeys g : nodes g = akeys g.
Proof. reflexivity. Qed.

Lemma neighbors_akeys g u : neighbors g u = akeys (adj g u).
Proof. reflexivity. Qed.

Lemma In_neighbors_set_adj g u v l w x :
  In x (neighbors (set_adj g u v l) w) <->
  In x (neighbors g w) \/ (w = u /\ x = v /\ has_node g u = true).
Proof.
  rewrite neighbors_set_adj.
  destruct (Z.eqb_spec w u) as [->|Hne]; simpl.
  - destruct (has_node g u); simpl.
    + rewrite akeys_aset, neighbors_akeys.
      destruct (zmem v (akeys (adj g u))) eqn:E.
      * apply zmem_In in E.
        split; [tauto|]. intros [Hin|(_ & -> & _)]; assumption.
      * rewrite in_app_iff. simpl.
        split; [intros [Hin|[<-|[]]]; tauto | intros [Hin|(_ & -> & _)]; tauto].
    + split; [tauto|]. intros [Hin|(_ & _ & Hf)]; [exact Hin|discriminate].
  - split; [tauto|]. intros [Hin|(Hf & _)]; [exact Hin|contradiction].
Qed.

Lemma alookup_set_adj_some g u v l w :
  is_some (alookup w (set_adj g u v l)) = is_some (alookup w g).
Proof.
  unfold set_adj. destruct (alookup u g) as [[a ad]|] eqn:E; [|reflexivity].
  rewrite alookup_aset. destruct (Z.eqb_spec w u) as [->|Hne]; [rewrite E; reflexivity|reflexivity].
Qed.

Lemma has_node_set_adj g u v l w : has_node (set_adj g u v l) w = has_node g w.
Proof. apply alookup_set_adj_some. Qed.

Lemma nodes_set_adj g u v l : nodes (set_adj g u v l) = nodes g.
Proof.
  unfold set_adj. destruct (alookup u g) as [[a ad]|] eqn:E; [|reflexivity].
  rewrite !nodes_akeys, akeys_aset.
  replace (zmem u (akeys g)) with true; [reflexivity|].
  symmetry. apply zmem_In. eapply alookup_Some_key. exact E.
Qed.

Lemma neighbors_app_new (g : graph) n (e : nattr) w :
  alookup n g = None -> neighbors (g ++ [(n, (e, ([] : adjl)))]) w = neighbors g w.
Proof.
  intros Hn. unfold neighbors, adj. rewrite alookup_app.
  destruct (alookup w g) as [[a ad]|] eqn:E; [reflexivity|]. simpl.
  destruct (w =? n); reflexivity.
Qed.

Lemma neighbors_ensure_node g n w : neighbors (ensure_node g n) w = neighbors g w.
Proof.
  unfold ensure_node. destruct (alookup n g) eqn:E; [reflexivity|]. apply neighbors_app_new. exact E.
Qed.

Lemma has_node_ensure_node g n w : has_node (ensure_node g n) w = has_node g w || (w =? n).
Proof.
  unfold ensure_node, has_node. destruct (alookup n g) eqn:E.
  - destruct (Z.eqb_spec w n) as [->|Hne]; [rewrite E; reflexivity | rewrite orb_false_r; reflexivity].
  - rewrite alookup_app. destruct (alookup w g); [reflexivity|]. simpl.
    destruct (w =? n); reflexivity.
Qed.

Lemma nodes_ensure_node g n :
  nodes (ensure_node g n) = if has_node g n then nodes g else nodes g ++ [n].
Proof.
  unfold ensure_node, has_node. destruct (alookup n g); simpl; [reflexivity|].
  unfold nodes. rewrite map_app. reflexivity.
Qed.

Lemma In_neighbors_add_edge g a b l w x :
  In x (neighbors (add_edge g a b l) w) <->
  In x (neighbors g w) \/ (w = a /\ x = b) \/ (w = b /\ x = a).
Proof.
  unfold add_edge. rewrite In_neighbors_set_adj, In_neighbors_set_adj.
  rewrite has_node_set_adj, !neighbors_ensure_node, !has_node_ensure_node.
  rewrite !Z.eqb_refl, !orb_true_r. simpl. tauto.
Qed.

Lemma nodes_add_edge g a b l : has_node g a = true -> has_node g b = true ->
  nodes (add_edge g a b l) = nodes g.
Proof.
  intros Ha Hb. unfold add_edge. rewrite !nodes_set_adj, nodes_ensure_node, has_node_ensure_node.
  rewrite Hb. simpl. rewrite nodes_ensure_node, Ha. reflexivity.
Qed.

Lemma has_node_add_edge g a b l w : has_node g w = true -> has_node (add_edge g a b l) w = true.
Proof.
  intros Hw. unfold add_edge. rewrite !has_node_set_adj, !has_node_ensure_node, Hw. reflexivity.
Qed.

Lemma neighbors_add_node g n a w : neighbors (add_node g n a) w = neighbors g w.
Proof.
  unfold add_node. destruct (alookup n g) as [[a0 ad]|] eqn:E.
  - unfold neighbors, adj. rewrite alookup_aset.
    destruct (Z.eqb_spec w n) as [->|Hne]; [rewrite E; reflexivity|reflexivity].
  - apply neighbors_app_new. exact E.
Qed.

Lemma nodes_add_node_fresh g n a : ~ In n (nodes g) -> nodes (add_node g n a) = nodes g ++ [n].
Proof.
  intros Hn. unfold add_node. replace (alookup n g) with (@None (nattr * adjl)).
  - unfold nodes. rewrite map_app. reflexivity.
  - symmetry. apply alookup_None. exact Hn.
Qed.

(** * add_nodes_from / add_edges_from *)

Lemma neighbors_add_nodes_from l : forall g w, neighbors (add_nodes_from g l) w = neighbors g w.
Proof.
  induction l as [|[n a] t IH]; intros g w; [reflexivity|].
  unfold add_nodes_from in *. simpl. rewrite IH. apply neighbors_add_node.
Qed.

Lemma nodes_add_nodes_from l : forall g, NoDup (nodes g ++ map fst l) ->
  nodes (add_nodes_from g l) = nodes g ++ map fst l.
Proof.
  induction l as [|[n a] t IH]; intros g Hnd; [simpl; rewrite app_nil_r; reflexivity|].
  unfold add_nodes_from in *. simpl.
  assert (Hn : ~ In n (nodes g)).
  { intros Hin. apply NoDup_remove_2 in Hnd. apply Hnd. apply in_or_app. left. exact Hin. }
  rewrite IH; rewrite (nodes_add_node_fresh _ _ _ Hn).
  - rewrite <- app_assoc. reflexivity.
  - rewrite <- app_assoc. exact Hnd.
Qed.

Lemma In_neighbors_add_edges_from es : forall g w x,
  In x (neighbors (add_edges_from g es) w) <->
  In x (neighbors g w) \/ exists l, In (w, x, l) es \/ In (x, w, l) es.
Proof.
  induction es as [|[[a b] l] t IH]; intros g w x.
  - simpl. split; [tauto|]. intros [Hin|(l & [[]|[]])]. exact Hin.
  - unfold add_edges_from in *. simpl. rewrite IH, In_neighbors_add_edge. split.
    + intros [[Hin|[(-> & ->)|(-> & ->)]]|(l' & [Hin|Hin])].
      * left. exact Hin.
      * right. exists l. left. left. reflexivity.
      * right. exists l. right. left. reflexivity.
      * right. exists l'. left. right. exact Hin.
      * right. exists l'. right. right. exact Hin.
    + intros [Hin|(l' & [[Heq|Hin]|[Heq|Hin]])].
      * left. left. exact Hin.
      * injection Heq as -> -> ->. left. right. left. split; reflexivity.
      * right. exists l'. left. exact Hin.
      * injection Heq as -> -> ->. left. right. right. split; reflexivity.
      * right. exists l'. right. exact Hin.
Qed.

Lemma nodes_add_edges_from es : forall g,
  (forall a b l, In (a, b, l) es -> In a (nodes g) /\ In b (nodes g)) ->
  nodes (add_edges_from g es) = nodes g.
Proof.
  induction es as [|[[a b] l] t IH]; intros g Hin; [reflexivity|].
  unfold add_edges_from in *. simpl.
  destruct (Hin a b l (or_introl eq_refl)) as (Ha & Hb).
  apply has_node_In' in Ha, Hb.
  rewrite IH.
  - apply nodes_add_edge; assumption.
  - intros a' b' l' H'. rewrite (nodes_add_edge _ _ _ _ Ha Hb). apply (Hin a' b' l'). right. exact H'.
Qed.

(* adjacency lists never contain a neighbour twice *)
Definition adj_nodup (g : graph) : Prop := forall w, NoDup (neighbors g w).

Lemma adj_nodup_set_adj g u v l : adj_nodup g -> adj_nodup (set_adj g u v l).
Proof.
  intros Hg w. rewrite neighbors_set_adj.
  destruct ((w =? u) && has_node g u); [|apply Hg].
  apply NoDup_akeys_aset. apply (Hg u).
Qed.

Lemma adj_nodup_add_edge g a b l : adj_nodup g -> adj_nodup (add_edge g a b l).
Proof.
  intros Hg. unfold add_edge. apply adj_nodup_set_adj, adj_nodup_set_adj.
  intros w. rewrite !neighbors_ensure_node. apply Hg.
Qed.

Lemma adj_nodup_add_edges_from es : forall g, adj_nodup g -> adj_nodup (add_edges_from g es).
Proof.
  induction es as [|[[a b] l] t IH]; intros g Hg; [exact Hg|].
  unfold add_edges_from in *. simpl. apply IH. apply adj_nodup_add_edge. exact Hg.
Qed.

Lemma adj_nodup_add_nodes_from l g : adj_nodup g -> adj_nodup (add_nodes_from g l).
Proof. intros Hg w. rewrite neighbors_add_nodes_from. apply Hg. Qed.

(** * Well-formed graphs *)

Lemma wfb_nodup G : wfb G = true -> NoDup (nodes G).
Proof. unfold wfb. intros Hw. apply andb_true_iff in Hw. apply nodupb_NoDup. tauto. Qed.

Lemma wfb_entry G : wfb G = true -> forall n a ad, In (n, (a, ad)) G ->
  NoDup (map fst ad) /\ forall v l, In (v, l) ad -> exists l', edge_label G v n = Some l'.
Proof.
  unfold wfb. intros Hw n a ad Hin. apply andb_true_iff in Hw. destruct Hw as (_ & Hw).
  rewrite forallb_forall in Hw. specialize (Hw _ Hin). unfold wf_node in Hw.
  apply andb_true_iff in Hw. destruct Hw as (H1 & H2). split; [apply nodupb_NoDup; exact H1|].
  intros v l Hv. rewrite forallb_forall in H2. specialize (H2 _ Hv). simpl in H2.
  destruct (edge_label G v n) as [l'|]; [eauto|discriminate].
Qed.

Lemma wf_adj G u a ad : wfb G = true -> In (u, (a, ad)) G -> adj G u = ad.
Proof.
  intros Hw Hin. unfold adj. rewrite (NoDup_alookup u (a, ad) G); [reflexivity | apply (wfb_nodup _ Hw) | exact Hin].
Qed.

Lemma neighbors_entry (G : graph) u v : In v (neighbors G u) ->
  exists a ad l, In (u, (a, ad)) G /\ adj G u = ad /\ In (v, l) ad.
Proof.
  unfold neighbors, adj. destruct (alookup u G) as [[a ad]|] eqn:E; [|intros []].
  intros Hin. apply in_map_iff in Hin. destruct Hin as ([v' l] & Hv & Hin). simpl in Hv. subst v'.
  exists a, ad, l. split; [apply alookup_In; exact E|]. split; [reflexivity | exact Hin].
Qed.

Lemma wf_sym G u v : wfb G = true -> In v (neighbors G u) -> In u (neighbors G v).
Proof.
  intros Hw Hin. destruct (neighbors_entry _ _ _ Hin) as (a & ad & l & He & _ & Hv).
  destruct (wfb_entry _ Hw _ _ _ He) as (_ & Hs). destruct (Hs v l Hv) as (l' & El).
  unfold edge_label in El. rewrite neighbors_akeys. eapply alookup_Some_key. exact El.
Qed.

Lemma neighbors_src_node (G : graph) u v : In v (neighbors G u) -> In u (nodes G).
Proof.
  intros Hin. destruct (neighbors_entry _ _ _ Hin) as (a & ad & l & He & _).
  apply (in_map fst) in He. exact He.
Qed.

Lemma wf_nbr_node G u v : wfb G = true -> In v (neighbors G u) -> In v (nodes G).
Proof. intros Hw Hin. eapply neighbors_src_node. eapply wf_sym; eauto. Qed.

Lemma wf_adj_nodup G : wfb G = true -> adj_nodup G.
Proof.
  intros Hw u. unfold neighbors, adj. destruct (alookup u G) as [[a ad]|] eqn:E; [|constructor].
  apply alookup_In in E. apply (wfb_entry _ Hw _ _ _ E).
Qed.

(** * Graph.edges *)

Lemma edges_aux_elim suf : forall seen u v l, In (u, v, l) (edges_aux seen suf) ->
  exists a ad, In (u, (a, ad)) suf /\ In (v, l) ad.
Proof.
  induction suf as [|[n [a0 ad0]] t IH]; intros seen u v l Hin; [contradiction|].
  simpl in Hin. apply in_app_or in Hin. destruct Hin as [Hin|Hin].
  - apply in_map_iff in Hin. destruct Hin as ([v' l'] & Heq & Hin). injection Heq as <- <- <-.
    apply filter_In in Hin. exists a0, ad0. split; [left; reflexivity | tauto].
  - destruct (IH _ _ _ _ Hin) as (a & ad & H1 & H2). exists a, ad. split; [right; exact H1 | exact H2].
Qed.

Lemma edges_aux_intro s1 : forall seen u a ad s2 v l,
  In (v, l) ad -> ~ In v seen -> ~ In v (map fst s1) ->
  In (u, v, l) (edges_aux seen (s1 ++ (u, (a, ad)) :: s2)).
Proof.
  induction s1 as [|[n [a0 ad0]] t IH]; intros seen u a ad s2 v l Hv Hseen Hs1.
  - simpl. apply in_or_app. left. apply in_map_iff. exists (v, l). split; [reflexivity|].
    apply filter_In. split; [exact Hv|]. apply negb_true_iff, zmem_false. exact Hseen.
  - simpl. apply in_or_app. right. apply IH; [exact Hv | | ].
    + intros [<-|Hin]; [apply Hs1; left; reflexivity | exact (Hseen Hin)].
    + intros Hin. apply Hs1. right. exact Hin.
Qed.

Lemma NoDup_keys_split {A} (p q : list (Z * A)) u x :
  NoDup (map fst (p ++ (u, x) :: q)) -> ~ In u (map fst p).
Proof.
  rewrite map_app. simpl. intros Hnd Hin. apply NoDup_remove_2 in Hnd. apply Hnd.
  apply in_or_app. left. exact Hin.
Qed.

Lemma edges_adjacent G u v l : wfb G = true -> In (u, v, l) (edges G) -> In v (neighbors G u).
Proof.
  intros Hw Hin. destruct (edges_aux_elim _ _ _ _ _ Hin) as (a & ad & He & Hv).
  unfold neighbors. rewrite (wf_adj _ _ _ _ Hw He). apply (in_map fst) in Hv. exact Hv.
Qed.

Lemma adjacent_edges G u v : wfb G = true -> In v (neighbors G u) ->
  exists l, In (u, v, l) (edges G) \/ In (v, u, l) (edges G).
Proof.
  intros Hw Hin. destruct (neighbors_entry _ _ _ Hin) as (a & ad & l & He & _ & Hv).
  destruct (in_split _ _ He) as (s1 & s2 & EG).
  destruct (in_dec Z.eq_dec v (map fst s1)) as [Hv1|Hv1].
  - (* v comes first: the edge is reported from v *)
    apply in_map_iff in Hv1. destruct Hv1 as ([v' [a' ad']] & Hfst & Hin1). simpl in Hfst. subst v'.
    destruct (in_split _ _ Hin1) as (t1 & t2 & Es1).
    assert (HeV : In (v, (a', ad')) G) by (rewrite EG; apply in_or_app; left; exact Hin1).
    pose proof (wf_sym _ _ _ Hw Hin) as Hsym.
    rewrite neighbors_akeys, (wf_adj _ _ _ _ Hw HeV) in Hsym.
    apply in_map_iff in Hsym. destruct Hsym as ([u' l'] & Hfst & Hu). simpl in Hfst. subst u'.
    exists l'. right. unfold edges. rewrite EG, Es1, <- app_assoc. simpl.
    apply edges_aux_intro; [exact Hu | intros [] |].
    intros Hu1. pose proof (wfb_nodup _ Hw) as Hnd. unfold nodes in Hnd.
    rewrite EG in Hnd. apply NoDup_keys_split in Hnd. apply Hnd.
    rewrite Es1, map_app. apply in_or_app. left. exact Hu1.
  - exists l. left. unfold edges. rewrite EG. apply edges_aux_intro; [exact Hv | intros [] | exact Hv1].
Qed.

(** * nx.relabel_nodes *)

Lemma NoDup_map_inj_on {A B} (f : A -> B) l :
  (forall x y, In x l -> In y l -> f x = f y -> x = y) -> NoDup l -> NoDup (map f l).
Proof.
  intros Hinj Hnd. induction Hnd as [|x t Hni Hnd IH]; simpl; [constructor|].
  constructor.
  - intros Hin. apply in_map_iff in Hin. destruct Hin as (y & Hy & Hin).
    assert (y = x) by (apply Hinj; [right; exact Hin | left; reflexivity | exact Hy]). subst. contradiction.
  - apply IH. intros a b Ha Hb. apply Hinj; right; assumption.
Qed.

Lemma map_fst_relabel_nodes (f : Z -> Z) (G : graph) :
  map fst (map (fun '((n, _) : Z * nattr) => (f n, na_empty)) (nodes_data G)) = map f (nodes G).
Proof.
  unfold nodes_data, nodes. rewrite !map_map. apply map_ext. intros [n [a ad]]. reflexivity.
Qed.

Lemma nodes_set_attr (g : graph) n a : nodes (set_attr g n a) = nodes g.
Proof.
  unfold set_attr. destruct (alookup n g) as [[a0 ad]|] eqn:E; [|reflexivity].
  rewrite !nodes_akeys, akeys_aset.
  replace (zmem n (akeys g)) with true; [reflexivity|].
  symmetry. apply zmem_In. eapply alookup_Some_key. exact E.
Qed.

Lemma neighbors_set_attr (g : graph) n a w : neighbors (set_attr g n a) w = neighbors g w.
Proof.
  unfold set_attr. destruct (alookup n g) as [[a0 ad]|] eqn:E; [|reflexivity].
  unfold neighbors, adj. rewrite alookup_aset.
  destruct (Z.eqb_spec w n) as [->|Hne]; [rewrite E; reflexivity|reflexivity].
Qed.

Lemma set_attr_fold (f : Z -> Z) (l : list (Z * nattr)) : forall g : graph,
  nodes (fold_left (fun acc '(n, a) => set_attr acc (f n) a) l g) = nodes g /\
  forall w, neighbors (fold_left (fun acc '(n, a) => set_attr acc (f n) a) l g) w = neighbors g w.
Proof.
  induction l as [|[n a] t IH]; intros g; [split; reflexivity|].
  simpl. destruct (IH (set_attr g (f n) a)) as (H1 & H2). split.
  - rewrite H1. apply nodes_set_attr.
  - intros w. rewrite H2. apply neighbors_set_attr.
Qed.

Theorem relabel_spec f G : wfb G = true ->
  (forall x y, In x (nodes G) -> In y (nodes G) -> f x = f y -> x = y) ->
  nodes (relabel f G) = map f (nodes G) /\
  (forall w x, In x (neighbors (relabel f G) w) <->
               exists u v, w = f u /\ x = f v /\ In v (neighbors G u)) /\
  adj_nodup (relabel f G).
Proof.
  intros Hw Hinj. unfold relabel.
  set (nd := map (fun '(n, _) => (f n, na_empty)) (nodes_data G)).
  set (h1 := fold_left (fun acc '(n, a) => set_attr acc (f n) a) (nodes_data G)
                       (add_nodes_from empty_graph nd)).
  set (es := map (fun '(u, v, l) => (f u, f v, l)) (edges G)).
  destruct (set_attr_fold f (nodes_data G) (add_nodes_from empty_graph nd)) as (Hh1n & Hh1a).
  fold h1 in Hh1n, Hh1a.
  assert (Hn0 : nodes h1 = map f (nodes G)).
  { rewrite Hh1n. rewrite nodes_add_nodes_from; simpl; unfold nd; rewrite map_fst_relabel_nodes; [reflexivity|].
    apply NoDup_map_inj_on; [exact Hinj | apply wfb_nodup; exact Hw]. }
  split; [|split].
  - rewrite nodes_add_edges_from; [exact Hn0|].
    intros a b l Hin. unfold es in Hin. apply in_map_iff in Hin.
    destruct Hin as ([[u v] l'] & Heq & Hin). injection Heq as <- <- <-.
    apply (edges_adjacent _ _ _ _ Hw) in Hin. rewrite Hn0. split; apply in_map.
    + eapply neighbors_src_node; eauto.
    + eapply wf_nbr_node; eauto.
  - intros w x. rewrite In_neighbors_add_edges_from, Hh1a, neighbors_add_nodes_from. split.
    + intros [[]|(l & [Hin|Hin])]; unfold es in Hin; apply in_map_iff in Hin;
        destruct Hin as ([[u v] l'] & Heq & Hin); injection Heq as <- <- <-;
        apply (edges_adjacent _ _ _ _ Hw) in Hin.
      * exists u, v. tauto.
      * exists v, u. split; [reflexivity|]. split; [reflexivity|]. apply wf_sym; assumption.
    + intros (u & v & -> & -> & Hin). right.
      destruct (adjacent_edges _ _ _ Hw Hin) as (l & [He|He]); exists l; [left|right];
        unfold es; apply in_map_iff; [exists (u, v, l) | exists (v, u, l)]; tauto.
  - apply adj_nodup_add_edges_from. intros w. rewrite Hh1a, neighbors_add_nodes_from. constructor.
Qed.

(** * The numbering nmap and its inverse *)

Fixpoint number_from (s : nat) (keys : list Z) : list (Z * Z) :=
  match keys with
  | [] => []
  | k :: t => (k, Z.of_nat s) :: number_from (S s) t
  end.

Lemma number_from_snoc keys : forall s k,
  number_from s (keys ++ [k]) = number_from s keys ++ [(k, Z.of_nat (s + List.length keys))].
Proof.
  induction keys as [|x t IH]; intros s k; simpl.
  - rewrite Nat.add_0_r. reflexivity.
  - rewrite IH. replace (s + S (List.length t))%nat with (S s + List.length t)%nat by lia. reflexivity.
Qed.

Lemma number_from_length keys : forall s, List.length (number_from s keys) = List.length keys.
Proof. induction keys as [|x t IH]; intros s; simpl; [reflexivity | rewrite IH; reflexivity]. Qed.

Lemma akeys_number_from keys : forall s, akeys (number_from s keys) = keys.
Proof. induction keys as [|x t IH]; intros s; simpl; [reflexivity | rewrite IH; reflexivity]. Qed.

Definition not_anchor (anchor : Z) (n : Z) : bool := negb (n =? anchor).

Lemma build_nmap_gen anchor ns : forall done, NoDup (done ++ ns) -> ~ In anchor done ->
  fold_left (fun nmap n => if n =? anchor then nmap
                           else aset n (Z.of_nat (List.length nmap)) nmap)
            ns (number_from 0 (anchor :: done))
  = number_from 0 (anchor :: done ++ filter (not_anchor anchor) ns).
Proof.
  induction ns as [|n t IH]; intros done Hnd Ha.
  - simpl. rewrite app_nil_r. reflexivity.
  - cbn [fold_left filter]. unfold not_anchor at 1. destruct (Z.eqb_spec n anchor) as [->|Hne]; cbn [negb].
    + apply IH; [eapply NoDup_remove_1; exact Hnd | exact Ha].
    + assert (Hn : ~ In n done).
      { intros Hin. apply NoDup_remove_2 in Hnd. apply Hnd. apply in_or_app. left. exact Hin. }
      rewrite aset_fresh.
      2:{ rewrite akeys_number_from. intros [Heq|Hin]; [congruence | exact (Hn Hin)]. }
      rewrite number_from_length.
      change (anchor :: done) with ([anchor] ++ done) at 1 2.
      replace (number_from 0 ([anchor] ++ done) ++ [(n, Z.of_nat (List.length ([anchor] ++ done)))])
        with (number_from 0 (anchor :: (done ++ [n]))).
      2:{ change (anchor :: done ++ [n]) with (([anchor] ++ done) ++ [n]). rewrite number_from_snoc. reflexivity. }
      rewrite IH.
      * rewrite <- app_assoc. reflexivity.
      * rewrite <- app_assoc. exact Hnd.
      * intros Hin. apply in_app_or in Hin. destruct Hin as [Hin|[Heq|[]]]; [exact (Ha Hin) | congruence].
Qed.

Definition nmap_keys (anchor : Z) (ns : list Z) : list Z := anchor :: filter (not_anchor anchor) ns.

Lemma build_nmap_eq anchor ns : NoDup ns ->
  build_nmap anchor ns = number_from 0 (nmap_keys anchor ns).
Proof. intros Hnd. unfold build_nmap. apply (build_nmap_gen anchor ns [] Hnd). intros []. Qed.

Lemma filter_not_anchor_In anchor ns x : In x (filter (not_anchor anchor) ns) <-> In x ns /\ x <> anchor.
Proof.
  rewrite filter_In. unfold not_anchor. rewrite negb_true_iff, Z.eqb_neq. tauto.
Qed.

Lemma nmap_keys_NoDup anchor ns : NoDup ns -> NoDup (nmap_keys anchor ns).
Proof.
  intros Hnd. constructor; [|apply NoDup_filter; exact Hnd].
  intros Hin. apply filter_not_anchor_In in Hin. tauto.
Qed.

Lemma nmap_keys_In anchor ns x : In anchor ns -> (In x (nmap_keys anchor ns) <-> In x ns).
Proof.
  intros Ha. unfold nmap_keys. simpl. rewrite filter_not_anchor_In.
  destruct (Z.eq_dec x anchor) as [->|Hne]; [tauto|]. split; [intros [Heq|Hin]; [congruence|tauto] | tauto].
Qed.

Lemma nmap_keys_length anchor ns : NoDup ns -> In anchor ns ->
  List.length (nmap_keys anchor ns) = List.length ns.
Proof.
  intros Hnd Ha. unfold nmap_keys. simpl. induction Hnd as [|n t Hni Hnd IH]; [contradiction|].
  cbn [filter]. unfold not_anchor at 1. destruct (Z.eqb_spec n anchor) as [->|Hne]; cbn [negb].
  - simpl. f_equal. f_equal. clear IH Ha Hnd. induction t as [|y t IH]; [reflexivity|].
    cbn [filter]. unfold not_anchor at 1. destruct (Z.eqb_spec y anchor) as [->|Hy]; cbn [negb].
    + exfalso. apply Hni. left. reflexivity.
    + f_equal. apply IH. intros Hin. apply Hni. right. exact Hin.
  - simpl. f_equal. apply IH. destruct Ha as [Heq|Hin]; [congruence | exact Hin].
Qed.

Lemma alookup_number_from keys : forall s i k, NoDup keys -> nth_error keys i = Some k ->
  alookup k (number_from s keys) = Some (Z.of_nat (s + i)).
Proof.
  induction keys as [|x t IH]; intros s i k Hnd Hi; [destruct i; discriminate|].
  inversion Hnd as [|? ? Hni Hnd']; subst. destruct i as [|i]; simpl in Hi |- *.
  - injection Hi as ->. rewrite Z.eqb_refl, Nat.add_0_r. reflexivity.
  - destruct (Z.eqb_spec k x) as [->|Hne]; [exfalso; apply Hni; eapply nth_error_In; exact Hi|].
    rewrite (IH (S s) i k Hnd' Hi). do 2 f_equal. lia.
Qed.

Definition swap (kv : Z * Z) : Z * Z := (snd kv, fst kv).

Lemma In_snd_number_from keys : forall s x, In x (map snd (number_from s keys)) ->
  exists j, x = Z.of_nat j /\ (s <= j < s + List.length keys)%nat.
Proof.
  induction keys as [|k t IH]; intros s x Hin; [contradiction|].
  simpl in Hin. destruct Hin as [<-|Hin].
  - exists s. simpl. split; [reflexivity|lia].
  - destruct (IH _ _ Hin) as (j & -> & Hj). exists j. simpl. split; [reflexivity|lia].
Qed.

Lemma NoDup_snd_number_from keys : forall s, NoDup (map snd (number_from s keys)).
Proof.
  induction keys as [|k t IH]; intros s; simpl; [constructor|]. constructor; [|apply IH].
  intros Hin. apply In_snd_number_from in Hin. destruct Hin as (j & Hj & Hr). lia.
Qed.

Lemma invert_map_gen m : forall acc, NoDup (akeys acc ++ map snd m) ->
  fold_left (fun acc kv => aset (snd kv) (fst kv) acc) m acc = acc ++ map swap m.
Proof.
  induction m as [|[k v] t IH]; intros acc Hnd; simpl; [rewrite app_nil_r; reflexivity|].
  simpl in Hnd. rewrite aset_fresh.
  - rewrite IH; [rewrite <- app_assoc; reflexivity|].
    rewrite akeys_app. simpl. rewrite <- app_assoc. exact Hnd.
  - intros Hin. apply NoDup_remove_2 in Hnd. apply Hnd. apply in_or_app. left. exact Hin.
Qed.

Lemma invert_map_eq keys : invert_map (number_from 0 keys) = map swap (number_from 0 keys).
Proof. unfold invert_map. rewrite invert_map_gen; [reflexivity|]. simpl. apply NoDup_snd_number_from. Qed.

Lemma alookup_swap_number_from keys : forall s j, (s <= j < s + List.length keys)%nat ->
  alookup (Z.of_nat j) (map swap (number_from s keys)) = nth_error keys (j - s).
Proof.
  induction keys as [|k t IH]; intros s j Hj; [simpl in Hj; lia|].
  simpl. destruct (Z.eqb_spec (Z.of_nat j) (Z.of_nat s)) as [Heq|Hne].
  - apply Nat2Z.inj in Heq. subst. rewrite Nat.sub_diag. reflexivity.
  - assert (j <> s) by congruence. rewrite IH by (simpl in Hj; lia).
    replace (j - s)%nat with (S (j - S s)) by lia. reflexivity.
Qed.

(* the two directions of the renaming as functions *)
Section Renaming.
Variable anchor : Z.
Variable ns : list Z.
Hypothesis Hnd : NoDup ns.
Hypothesis Ha : In anchor ns.

Let keys := nmap_keys anchor ns.
Definition fwd (v : Z) : Z := map_get (build_nmap anchor ns) v.
Definition bwd (i : Z) : Z := nth (Z.to_nat i) (nmap_keys anchor ns) 0.

Lemma fwd_spec v : In v ns -> inr (List.length ns) (fwd v) /\ bwd (fwd v) = v.
Proof.
  intros Hv. apply (nmap_keys_In anchor ns v Ha) in Hv.
  destruct (In_nth_error _ _ Hv) as (i & Hi).
  assert (Hlt : (i < List.length ns)%nat).
  { rewrite <- (nmap_keys_length anchor ns Hnd Ha). apply nth_error_Some. congruence. }
  unfold fwd, map_get. rewrite (build_nmap_eq _ _ Hnd).
  rewrite (alookup_number_from _ 0 i v (nmap_keys_NoDup _ _ Hnd) Hi). simpl.
  split; [unfold inr; lia|]. unfold bwd. rewrite Nat2Z.id. apply nth_error_nth. exact Hi.
Qed.

Lemma bwd_spec i : inr (List.length ns) i -> In (bwd i) ns /\ fwd (bwd i) = i.
Proof.
  intros Hi. unfold inr in Hi.
  assert (Hlt : (Z.to_nat i < List.length (nmap_keys anchor ns))%nat).
  { rewrite (nmap_keys_length anchor ns Hnd Ha). lia. }
  destruct (nth_error (nmap_keys anchor ns) (Z.to_nat i)) as [k|] eqn:E.
  2:{ apply nth_error_None in E. lia. }
  assert (Hb : bwd i = k) by (unfold bwd; apply nth_error_nth; exact E).
  rewrite Hb. split.
  - apply (nmap_keys_In anchor ns k Ha). eapply nth_error_In. exact E.
  - unfold fwd, map_get. rewrite (build_nmap_eq _ _ Hnd).
    rewrite (alookup_number_from _ 0 _ k (nmap_keys_NoDup _ _ Hnd) E). simpl. lia.
Qed.

Lemma fwd_anchor : fwd anchor = 0.
Proof.
  unfold fwd, map_get. rewrite (build_nmap_eq _ _ Hnd). unfold nmap_keys. simpl.
  rewrite Z.eqb_refl. reflexivity.
Qed.

Lemma fwd_inj x y : In x ns -> In y ns -> fwd x = fwd y -> x = y.
Proof.
  intros Hx Hy Heq. rewrite <- (proj2 (fwd_spec x Hx)), <- (proj2 (fwd_spec y Hy)), Heq. reflexivity.
Qed.

Lemma nmap_inv_lookup i : inr (List.length ns) i ->
  alookup i (invert_map (build_nmap anchor ns)) = Some (bwd i).
Proof.
  intros Hi. unfold inr in Hi. rewrite (build_nmap_eq _ _ Hnd), invert_map_eq.
  rewrite <- (Z2Nat.id i) at 1 by lia.
  rewrite alookup_swap_number_from.
  2:{ rewrite (nmap_keys_length anchor ns Hnd Ha). lia. }
  rewrite Nat.sub_0_r.
  destruct (nth_error (nmap_keys anchor ns) (Z.to_nat i)) as [k|] eqn:E.
  - f_equal. symmetry. unfold bwd. apply nth_error_nth. exact E.
  - apply nth_error_None in E. rewrite (nmap_keys_length anchor ns Hnd Ha) in E. lia.
Qed.
End Renaming.
