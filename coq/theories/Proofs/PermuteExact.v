(** C08: when the wildcard is processed last among can_map_to_nothing (what __init__'s sort is
    meant to achieve), wildcard positions map to nothing EXACTLY as often as the structure still
    lacks partners after the other symbols got theirs. *)
From Coq Require Import ZArith List Bool String Lia.
From FGV Require Import Base.Util Base.UtilFacts Base.Sym Model.Permute Model.MapMatrix Spec.PermuteSpec
     Proofs.GenFacts Proofs.PermuteProofs Proofs.PermuteCheckProofs.
Import ListNotations.
Open Scope Z_scope.
Open Scope list_scope.

Definition sum_nat {A} (f : A -> nat) (l : list A) : nat := fold_right (fun a acc => (f a + acc)%nat) O l.

Lemma sum_nat_add {A} (f g : A -> nat) l : sum_nat (fun a => (f a + g a)%nat) l = (sum_nat f l + sum_nat g l)%nat.
Proof. induction l as [|a l IH]; simpl; [reflexivity|]. rewrite IH. lia. Qed.

Lemma sum_nat_ext {A} (f g : A -> nat) l : (forall a, In a l -> f a = g a) -> sum_nat f l = sum_nat g l.
Proof.
  induction l as [|a l IH]; simpl; intros H; [reflexivity|]. rewrite (H a) by auto. rewrite IH; [reflexivity|].
  intros b Hb. apply H. auto.
Qed.

Lemma sum_nat_indicator (q : string) D : NoDup D ->
  sum_nat (fun c => if String.eqb c q then 1%nat else O) D = if sym_mem q D then 1%nat else O.
Proof.
  unfold sym_mem. induction 1 as [|c D Hni Hnd IH]; simpl; [reflexivity|]. rewrite IH.
  rewrite (String.eqb_sym q c). destruct (String.eqb_spec c q) as [->|Hne]; simpl; [|reflexivity].
  destruct (existsb (String.eqb q) D) eqn:E; [|reflexivity].
  exfalso. apply Hni. apply existsb_exists in E. destruct E as (x & Hx & He). apply String.eqb_eq in He. subst. exact Hx.
Qed.

(* positions mapped to nothing whose symbol is in D, counted per symbol *)
Lemma nothing_by_symbol (D : list string) (L : list (string * Z)) : NoDup D ->
  sum_nat (fun c => List.length (filter (fun pt : string * Z => String.eqb c (fst pt) && (snd pt =? -1)%Z) L)) D
  = List.length (filter (fun pt : string * Z => (snd pt =? -1)%Z && sym_mem (fst pt) D) L).
Proof.
  intros Hnd. induction L as [|[q t] L IH]; simpl.
  - clear Hnd. induction D as [|c D IH]; simpl; [reflexivity | exact IH].
  - destruct (Z.eqb_spec t (-1)) as [->|Hne].
    + transitivity (sum_nat (fun c => ((if String.eqb c q then 1 else 0)
               + List.length (filter (fun pt : string * Z => String.eqb c (fst pt) && (snd pt =? -1)%Z) L))%nat) D).
      { apply sum_nat_ext. intros c _. destruct (String.eqb c q); reflexivity. }
      rewrite sum_nat_add, (sum_nat_indicator q D Hnd), IH. destruct (sym_mem q D); reflexivity.
    + transitivity (sum_nat (fun c => List.length (filter (fun pt : string * Z => String.eqb c (fst pt) && (snd pt =? -1)%Z) L)) D).
      { apply sum_nat_ext. intros c _. rewrite andb_false_r. reflexivity. }
      rewrite IH. reflexivity.
Qed.

Lemma filter_partition_length {A} (f g h : A -> bool) l :
  (forall x, In x l -> f x = g x || h x) -> (forall x, In x l -> g x && h x = false) ->
  List.length (filter f l) = (List.length (filter g l) + List.length (filter h l))%nat.
Proof.
  induction l as [|x l IH]; simpl; intros H1 H2; [reflexivity|].
  assert (IH' : List.length (filter f l) = (List.length (filter g l) + List.length (filter h l))%nat).
  { apply IH; intros; [apply H1 | apply H2]; auto. }
  rewrite (H1 x) by auto. specialize (H2 x (or_introl eq_refl)) as H2x.
  destruct (g x), (h x); simpl in *; try discriminate; lia.
Qed.

Lemma before_incl w cm : incl (before w cm) cm.
Proof.
  induction cm as [|c t IH]; simpl; [intros x []|]. destruct (String.eqb c w); [intros x []|].
  intros x [->|H]; [left; reflexivity | right; apply IH; exact H].
Qed.

Lemma real_targets_bound W S P ts : Forall2 (target_ok W S) P ts ->
  NoDup (filter (fun t => negb (t =? -1)%Z) ts) ->
  (List.length (filter (fun t => negb (t =? -1)%Z) ts) <= List.length S)%nat.
Proof.
  intros HF Hnd. rewrite <- (seq_length (List.length S) 0).
  rewrite <- (map_length Z.to_nat (filter _ ts)).
  assert (Hr : forall t, In t (filter (fun t => negb (t =? -1)%Z) ts) -> 0 <= t < Z.of_nat (List.length S)).
  { intros t Ht. apply filter_In in Ht. destruct Ht as (Ht & Hne).
    destruct (Forall2_In_r _ _ _ _ HF Ht) as (q & _ & [->|(Hr & _)]); [discriminate | exact Hr]. }
  apply NoDup_incl_length.
  - revert Hnd Hr. generalize (filter (fun t => negb (t =? -1)%Z) ts). intros M. induction M as [|t M IH]; simpl; intros HndM HrM; [constructor|].
    inversion HndM as [|? ? Hni HndM']; subst. constructor; [|apply IH; auto].
    intros Hin. apply in_map_iff in Hin. destruct Hin as (t2 & Heq & Hin2).
    pose proof (HrM t (or_introl eq_refl)). pose proof (HrM t2 (or_intror Hin2)).
    assert (t2 = t) by lia. subst. contradiction.
  - intros k Hk. apply in_map_iff in Hk. destruct Hk as (t & <- & Ht). apply in_seq. specialize (Hr t Ht). lia.
Qed.

Lemma filter_neg_length {A} (f : A -> bool) l :
  (List.length (filter f l) + List.length (filter (fun x => negb (f x)) l) = List.length l)%nat.
Proof. induction l as [|x l IH]; simpl; [reflexivity|]. destruct (f x); simpl; lia. Qed.

Lemma sum_shortage_sum_nat D P S ts (L := combine P ts) :
  (forall c, In c D ->
     Z.of_nat (List.length (filter (fun pt : string * Z => String.eqb c (fst pt) && (snd pt =? -1)%Z) L)) = shortage c P S) ->
  sum_shortage D P S =
  Z.of_nat (sum_nat (fun c => List.length (filter (fun pt : string * Z => String.eqb c (fst pt) && (snd pt =? -1)%Z) L)) D).
Proof.
  induction D as [|c D IH]; simpl; intros H; [reflexivity|]. rewrite Nat2Z.inj_add, <- IH by (intros; apply H; auto).
  rewrite (H c) by auto. reflexivity.
Qed.

Theorem admissible_wild_exact W CM P S ts w :
  admissible W CM P S ts -> W = Some w -> wild_last w CM ->
  nothing_count w P ts = if in_dec string_dec w CM then wild_room w CM P S else 0.
Proof.
  intros Hadm HW Hlast. pose proof Hadm as [A1 A2 A3 A4].
  specialize (A4 w HW). pose proof (nothing_count_nonneg w P ts) as Hnn.
  destruct (in_dec string_dec w CM) as [HwCM|HwCM]; [|lia].
  apply Z.le_antisymm; [exact A4|].
  set (L := combine P ts). set (D := nodup string_dec (before w CM)).
  assert (HD : NoDup D) by apply NoDup_nodup.
  assert (HDw : ~ In w D) by (unfold D; rewrite nodup_In; apply before_notin).
  assert (HDin : forall c, In c D -> In c CM /\ c <> w).
  { intros c Hc. unfold D in Hc. apply nodup_In in Hc. split; [apply (before_incl w CM); exact Hc|].
    intros ->. exact (before_notin w CM Hc). }
  (* nothing positions = wildcard ones + those with a symbol in D *)
  assert (Hsplit : List.length (filter (fun pt : string * Z => snd pt =? -1)%Z L)
                   = (List.length (filter (fun pt : string * Z => String.eqb w (fst pt) && (snd pt =? -1)%Z) L)
                      + List.length (filter (fun pt : string * Z => (snd pt =? -1)%Z && sym_mem (fst pt) D) L))%nat).
  { apply filter_partition_length.
    - intros [q t] Hin. simpl. destruct (Z.eqb_spec t (-1)) as [->|Hne]; [|rewrite andb_false_r; reflexivity].
      simpl. rewrite andb_true_r. destruct (String.eqb_spec w q) as [->|Hwq]; [reflexivity|]. simpl. symmetry.
      apply sym_mem_In. unfold D. apply nodup_In. apply Hlast; [|congruence].
      apply (admissible_nothing_cmtn _ _ _ _ _ _ Hadm Hin).
    - intros [q t] _. simpl. destruct (String.eqb_spec w q) as [<-|Hwq]; [|reflexivity]. simpl.
      destruct (sym_mem w D) eqn:E; [apply sym_mem_In in E; contradiction|]. rewrite !andb_false_r. reflexivity. }
  rewrite <- (nothing_by_symbol D L HD) in Hsplit.
  assert (Hsum : sum_shortage D P S =
                 Z.of_nat (sum_nat (fun c => List.length (filter (fun pt : string * Z => String.eqb c (fst pt) && (snd pt =? -1)%Z) L)) D)).
  { apply sum_shortage_sum_nat. intros c Hc. destruct (HDin c Hc) as (HcCM & Hcw).
    assert (HWc : W <> Some c) by (rewrite HW; congruence). specialize (A3 c HWc).
    destruct (in_dec string_dec c CM); [|contradiction]. exact A3. }
  (* real targets fit into the structure *)
  pose proof (real_targets_bound W S P ts A1 A2) as Hreal.
  pose proof (Forall2_length _ _ _ A1) as Hlen.
  assert (Hcomb : List.length (filter (fun pt : string * Z => snd pt =? -1)%Z L) = List.length (filter (fun t => t =? -1)%Z ts)).
  { unfold L. rewrite <- (map_snd_combine P ts Hlen) at 2. rewrite filter_map_length. reflexivity. }
  pose proof (filter_neg_length (fun t => t =? -1)%Z ts) as Htot.
  unfold wild_room. fold D. rewrite Hsum. unfold nothing_count. fold L. lia.
Qed.

(** * when does the constructor put the wildcard last? *)

Lemma before_app_notin v l1 l2 : ~ In v l1 -> before v (l1 ++ l2) = l1 ++ before v l2.
Proof.
  induction l1 as [|c l1 IH]; simpl; intros H; [reflexivity|].
  destruct (String.eqb_spec c v) as [->|Hne]; [exfalso; apply H; left; reflexivity|].
  f_equal. apply IH. intros Hin. apply H. right. exact Hin.
Qed.

(* after the repair of __init__ (sort key = equality with the wildcard, after the optional lower-casing)
   the constructor ALWAYS puts the wildcard last *)
Lemma cmtn_key_spec w ic x : cmtn_key (Some w) ic x = true <-> lw ic x = lw ic w.
Proof.
  unfold cmtn_key, lw. destruct ic; apply String.eqb_eq.
Qed.

Theorem mk_mapper_wild_last w ic cmtn :
  wild_last (lw ic w) (map (lw ic) (m_cmtn (mk_mapper (Some w) ic cmtn))).
Proof.
  unfold mk_mapper. cbn [m_cmtn]. rewrite map_app. intros c Hc Hne.
  rewrite before_app_notin.
  - apply in_app_iff in Hc. destruct Hc as [Hc|Hc]; [apply in_or_app; left; exact Hc|exfalso].
    apply in_map_iff in Hc. destruct Hc as (x & <- & Hx). apply filter_In in Hx. destruct Hx as (Hx & Hk).
    apply Hne. apply cmtn_key_spec. exact Hk.
  - intros Hin. apply in_map_iff in Hin. destruct Hin as (x & Heq & Hx). apply filter_In in Hx.
    destruct Hx as (Hx & Hk). apply negb_true_iff in Hk. apply cmtn_key_spec in Heq. congruence.
Qed.

(** * on the mapper's results *)

Lemma permute_enumerate_admissible mp p s ts :
  In (enumerate ts) (permute mp p s) ->
  admissible (option_map (lw (m_ignore_case mp)) (m_wildcard mp)) (map (lw (m_ignore_case mp)) (m_cmtn mp))
             (map (lw (m_ignore_case mp)) p) (map (lw (m_ignore_case mp)) s) ts.
Proof.
  intros H. apply permute_In in H. destruct H as (_ & ts' & Heq & Hadm).
  apply (f_equal (map snd)) in Heq. rewrite !enumerate_snd in Heq. subst. exact Hadm.
Qed.

Theorem permute_wild_exact mp p s ts w :
  In (enumerate ts) (permute mp p s) ->
  option_map (lw (m_ignore_case mp)) (m_wildcard mp) = Some w ->
  wild_last w (map (lw (m_ignore_case mp)) (m_cmtn mp)) ->
  nothing_count w (map (lw (m_ignore_case mp)) p) ts =
  if in_dec string_dec w (map (lw (m_ignore_case mp)) (m_cmtn mp))
  then wild_room w (map (lw (m_ignore_case mp)) (m_cmtn mp)) (map (lw (m_ignore_case mp)) p) (map (lw (m_ignore_case mp)) s)
  else 0.
Proof.
  intros Hin HW Hlast. apply (admissible_wild_exact _ _ _ _ _ _ (permute_enumerate_admissible _ _ _ _ Hin) HW Hlast).
Qed.
