(** C18: the edge-induced tensor subgraph of the tensor form of a graph, taken on whole edges in
    Graph.edges() order, IS the tensor form of the edge subgraph (node order and adjacency order
    of the graph), entry for entry. *)
From Coq Require Import ZArith List Bool String Lia.
From FGV Require Import Base.Util Base.UtilFacts Base.Bond Base.NX Base.NXFacts
  Model.Torch Spec.PeriodicRef Spec.TorchSpec Spec.TorchCheck
  Proofs.TorchTables Proofs.TorchUtil Proofs.TorchRound Proofs.TorchBatch Proofs.TorchInduced Proofs.TorchPrune
  Proofs.TorchCheckSound Proofs.TorchInducedGraph.
Import ListNotations.
Open Scope Z_scope.

(** * the model computes the checker's explicit edge-induced tensor *)

Theorem edge_induced_explicit t es :
  es <> [] ->
  (forall e, In e es -> 0 <= e < Z.of_nat (List.length (t_ei t))) ->
  cols_in_range t ->
  (t_ea t = None \/ exists ea, t_ea t = Some ea /\ List.length ea = List.length (t_ei t)) ->
  edge_induced_subgraph t es = Ok (edge_induced_tensor t es).
Proof.
  intros Hne Hes Hrange Hea. unfold edge_induced_subgraph.
  rewrite any_negative_false by (intros v Hv; specialize (Hes v Hv); lia).
  destruct es as [|e0 es'] eqn:Ees; [contradiction|]. rewrite <- Ees in *. clear Hne.
  assert (Hcols : mapM (nth_res (t_ei t)) es = Ok (map (fun e => nth (Z.to_nat e) (t_ei t) (0, 0)) es)).
  { apply mapM_map. intros e He. apply nth_res_ok. apply Hes. exact He. }
  rewrite Hcols. cbn [bind].
  set (cols := map (fun e => nth (Z.to_nat e) (t_ei t) (0, 0)) es).
  set (sel := unique_sorted (flat_map (fun p : Z * Z => [fst p; snd p]) cols)).
  assert (Hsel_eq : sel = chosen_nodes t es).
  { apply ascending_unique.
    - apply unique_sorted_ssorted.
    - unfold chosen_nodes. apply ssorted_filter. apply (ssorted_zr 0).
    - intros v. rewrite (chosen_nodes_spec t es v Hrange Hes). unfold sel.
      rewrite unique_sorted_In, in_flat_map. split.
      + intros (p & Hp & Hv). unfold cols in Hp. apply in_map_iff in Hp. destruct Hp as (e & <- & He).
        exists e. split; [exact He|]. eexists. split.
        * apply (nth_error_nth' (t_ei t) (0, 0)). specialize (Hes e He). lia.
        * simpl in Hv. intuition.
      + intros (e & He & p & Hp & Hv). exists p. split.
        * unfold cols. apply in_map_iff. exists e. split; [apply nth_error_nth; exact Hp | exact He].
        * simpl. intuition. }
  assert (Hsel_range : forall v, In v sel -> 0 <= v < Z.of_nat (List.length (t_x t))).
  { intros v Hv. rewrite Hsel_eq in Hv. unfold chosen_nodes in Hv. apply filter_In in Hv.
    destruct Hv as [Hv _]. apply znats_In in Hv. exact Hv. }
  rewrite any_negative_false by (intros v Hv; specialize (Hsel_range v Hv); lia).
  assert (Hx : mapM (nth_res (t_x t)) sel = Ok (map (fun v => nth (Z.to_nat v) (t_x t) []) sel)).
  { apply mapM_map. intros v Hv. apply nth_res_ok. apply Hsel_range. exact Hv. }
  rewrite Hx. cbn [bind].
  assert (Hss : ssorted sel) by apply unique_sorted_ssorted.
  assert (Hei : map (fun p : Z * Z => (map_get (zdict_of (combine sel (znats (List.length sel)))) (fst p),
                                        map_get (zdict_of (combine sel (znats (List.length sel)))) (snd p))) cols
                = map (fun e => renumber sel (nth (Z.to_nat e) (t_ei t) (0, 0))) es).
  { unfold cols. rewrite map_map. apply map_ext_in. intros e He.
    apply (renum_ok sel _ (ssorted_NoDup sel Hss)). apply both_in_spec.
    split; unfold sel; rewrite unique_sorted_In, in_flat_map;
      exists (nth (Z.to_nat e) (t_ei t) (0, 0));
      (split; [unfold cols; apply (in_map (fun e1 => nth (Z.to_nat e1) (t_ei t) (0, 0))); exact He | simpl; auto]). }
  rewrite Hei. unfold edge_induced_tensor. cbv zeta. rewrite <- Hsel_eq.
  destruct Hea as [Hnone|(ea & Hsome & Hlen)].
  - rewrite Hnone. reflexivity.
  - rewrite Hsome.
    assert (Hattr : mapM (nth_res ea) es = Ok (map (fun e => nth (Z.to_nat e) ea []) es)).
    { apply mapM_map. intros e He. apply nth_res_ok. rewrite Hlen. apply Hes. exact He. }
    rewrite Hattr. reflexivity.
Qed.

(** * the edge subgraph *)

Section ESub.
  Variable ke : Z -> Z -> bool.
  Hypothesis ke_sym : forall u v, ke u v = ke v u.

  Definition einc (e : Z * (nattr * adjl)) : bool :=
    existsb (fun vl : Z * label => ke (fst e) (fst vl)) (snd (snd e)).
  Definition kedge (e : Z * Z * label) : bool := ke (fst (fst e)) (snd (fst e)).
  Definition incg (g : graph) (u : Z) : bool := existsb (fun vl : Z * label => ke u (fst vl)) (adj g u).

  Lemma esub_cons e g :
    nx_edge_subgraph ke (e :: g) =
    if einc e
    then (fst e, (fst (snd e), filter (fun vl : Z * label => ke (fst e) (fst vl)) (snd (snd e)))) :: nx_edge_subgraph ke g
    else nx_edge_subgraph ke g.
  Proof. unfold nx_edge_subgraph. simpl. fold (einc e). destruct (einc e); reflexivity. Qed.

  Lemma nodes_esub g : nodes (nx_edge_subgraph ke g) = map fst (filter einc g).
  Proof.
    induction g as [|e t IH]; [reflexivity|]. rewrite esub_cons. simpl.
    destruct (einc e); simpl; [unfold nodes in *; simpl; f_equal|]; exact IH.
  Qed.

  Lemma nodes_esub_incl g u : In u (nodes (nx_edge_subgraph ke g)) -> In u (nodes g).
  Proof.
    rewrite nodes_esub. intros H. apply in_map_iff in H. destruct H as (e & <- & He).
    apply filter_In in He. unfold nodes. apply in_map. tauto.
  Qed.

  Lemma alookup_filter_ke u v (ad : adjl) :
    alookup v (filter (fun vl : Z * label => ke u (fst vl)) ad) = if ke u v then alookup v ad else None.
  Proof.
    induction ad as [|[w l] t IH]; simpl; [destruct (ke u v); reflexivity|].
    destruct (ke u w) eqn:Ew; simpl.
    - destruct (Z.eqb_spec v w) as [->|Hne]; [rewrite Ew; reflexivity | exact IH].
    - destruct (Z.eqb_spec v w) as [->|Hne]; [rewrite IH, Ew; reflexivity | exact IH].
  Qed.

  Lemma alookup_esub g u :
    NoDup (nodes g) ->
    alookup u (nx_edge_subgraph ke g) =
    match alookup u g with
    | Some x => if existsb (fun vl : Z * label => ke u (fst vl)) (snd x)
                then Some (fst x, filter (fun vl : Z * label => ke u (fst vl)) (snd x)) else None
    | None => None
    end.
  Proof.
    induction g as [|[n [a ad]] t IH]; intros Hnd; [reflexivity|].
    inversion Hnd as [|? ? Hni Hnd']; subst. specialize (IH Hnd').
    rewrite esub_cons. unfold einc. cbn [fst snd].
    destruct (existsb (fun vl : Z * label => ke n (fst vl)) ad) eqn:En.
    - cbn [alookup]. destruct (Z.eqb_spec u n) as [->|Hne]; cbn [fst snd]; [rewrite En; reflexivity | exact IH].
    - cbn [alookup]. destruct (Z.eqb_spec u n) as [->|Hne]; cbn [fst snd]; [|exact IH].
      rewrite En. destruct (alookup n (nx_edge_subgraph ke t)) eqn:E; [|reflexivity].
      exfalso. apply Hni. apply nodes_esub_incl. eapply alookup_Some_key. exact E.
  Qed.

  Lemma adj_esub g u :
    NoDup (nodes g) ->
    adj (nx_edge_subgraph ke g) u = if incg g u then filter (fun vl : Z * label => ke u (fst vl)) (adj g u) else [].
  Proof.
    intros Hnd. unfold adj, incg, adj. rewrite (alookup_esub g u Hnd).
    destruct (alookup u g) as [[a ad]|]; simpl; [|reflexivity].
    destruct (existsb _ ad); reflexivity.
  Qed.

  Lemma edge_label_esub g u v :
    NoDup (nodes g) ->
    edge_label (nx_edge_subgraph ke g) u v = if ke u v then edge_label g u v else None.
  Proof.
    intros Hnd. unfold edge_label. rewrite (adj_esub g u Hnd). destruct (incg g u) eqn:Ei.
    - apply alookup_filter_ke.
    - simpl. destruct (ke u v) eqn:Ek; [|reflexivity].
      destruct (alookup v (adj g u)) as [l|] eqn:El; [|reflexivity].
      exfalso. apply alookup_In in El. unfold incg in Ei.
      assert (Ht : existsb (fun vl : Z * label => ke u (fst vl)) (adj g u) = true).
      { apply existsb_exists. exists (v, l). auto. }
      congruence.
  Qed.

  Lemma filter_ke_NoDup u (ad : adjl) :
    NoDup (map fst ad) -> NoDup (map fst (filter (fun vl : Z * label => ke u (fst vl)) ad)).
  Proof.
    induction ad as [|[w l] t IH]; simpl; intros H; [constructor|]. inversion H as [|? ? Hni Hnd]; subst.
    destruct (ke u w); [|auto]. simpl. constructor; [|auto].
    intros Hin. apply Hni. apply in_map_iff in Hin. destruct Hin as (c & <- & Hc). apply filter_In in Hc.
    apply in_map. tauto.
  Qed.

  Lemma wf_esub g : wf g -> wf (nx_edge_subgraph ke g).
  Proof.
    intros (H1 & H2 & H3). split; [|split].
    - rewrite nodes_esub.
      assert (Hgen : forall l : graph, NoDup (map fst l) -> NoDup (map fst (filter einc l))).
      { induction l as [|e t IH]; simpl; intros H; [constructor|]. inversion H as [|? ? Hni Hnd]; subst.
        destruct (einc e); [|auto]. simpl. constructor; [|auto].
        intros Hin. apply Hni. apply in_map_iff in Hin. destruct Hin as (c & <- & Hc). apply filter_In in Hc.
        apply in_map. tauto. }
      apply Hgen. exact H1.
    - intros u. rewrite (adj_esub g u H1). destruct (incg g u); [apply filter_ke_NoDup; apply H2 | constructor].
    - intros u v l. rewrite !(edge_label_esub g _ _ H1), (ke_sym v u). destruct (ke u v); [apply H3 | discriminate].
  Qed.

  Lemma in_esub n a ad g :
    In (n, (a, ad)) (nx_edge_subgraph ke g) -> exists ad0, In (n, (a, ad0)) g.
  Proof.
    unfold nx_edge_subgraph. rewrite in_map_iff. intros ([n0 [a0 ad0]] & Heq & Hin). simpl in Heq.
    injection Heq as -> -> _. apply filter_In in Hin. exists ad0. tauto.
  Qed.

  Lemma tabulated_esub g : tabulated g -> tabulated (nx_edge_subgraph ke g).
  Proof. intros H n a ad Hin. destruct (in_esub n a ad g Hin) as (ad0 & H0). eapply H; eauto. Qed.

  Lemma pair_labelled_esub g : NoDup (nodes g) -> pair_labelled g -> pair_labelled (nx_edge_subgraph ke g).
  Proof.
    intros Hnd H u v l. rewrite (edge_label_esub g u v Hnd). destruct (ke u v); [apply H | discriminate].
  Qed.

  (* Graph.edges() of the edge subgraph = the chosen edges, in the same order *)
  Lemma edges_aux_esub (inc : Z -> bool) t : forall seen seen',
    (forall e, In e t -> einc e = inc (fst e)) ->
    (forall e, In e t -> forall vl, In vl (snd (snd e)) -> ke (fst e) (fst vl) = true -> inc (fst vl) = true) ->
    (forall v, inc v = true -> zmem v seen' = zmem v seen) ->
    edges_aux seen' (nx_edge_subgraph ke t) = filter kedge (edges_aux seen t).
  Proof.
    induction t as [|[n [a ad]] r IH]; intros seen seen' H1 H2 H3; [reflexivity|].
    rewrite esub_cons. cbn [fst snd edges_aux]. rewrite filter_app.
    assert (H1r : forall e, In e r -> einc e = inc (fst e)) by (intros e He; apply H1; right; exact He).
    assert (H2r : forall e, In e r -> forall vl, In vl (snd (snd e)) -> ke (fst e) (fst vl) = true -> inc (fst vl) = true)
      by (intros e He; apply H2; right; exact He).
    pose proof (H1 _ (or_introl eq_refl)) as Hn. cbn [fst] in Hn.
    pose proof (H2 _ (or_introl eq_refl)) as Had. cbn [fst snd] in Had.
    destruct (einc (n, (a, ad))) eqn:En.
    - cbn [edges_aux]. f_equal.
      + clear IH H1 H2 H1r H2r En. induction ad as [|[v l] q IHq]; [reflexivity|]. simpl.
        assert (Hq : forall vl, In vl q -> ke n (fst vl) = true -> inc (fst vl) = true)
          by (intros vl Hvl; apply Had; right; exact Hvl).
        destruct (ke n v) eqn:Ev; simpl.
        * rewrite (H3 v (Had (v, l) (or_introl eq_refl) Ev)). destruct (zmem v seen); simpl; [apply IHq; exact Hq|].
          unfold kedge at 1. simpl. rewrite Ev. f_equal. apply IHq. exact Hq.
        * destruct (zmem v seen); simpl; [apply IHq; exact Hq|].
          unfold kedge at 1. simpl. rewrite Ev. apply IHq. exact Hq.
      + apply IH; [exact H1r | exact H2r|]. intros v Hv. simpl. rewrite (H3 v Hv). reflexivity.
    - rewrite (filter_none kedge (map _ _)).
      + simpl. apply IH; [exact H1r | exact H2r|]. intros v Hv. simpl. rewrite (H3 v Hv).
        destruct (Z.eqb_spec v n) as [->|Hne]; [congruence | reflexivity].
      + intros e He. apply in_map_iff in He. destruct He as ([v l] & <- & Hv). apply filter_In in Hv.
        destruct Hv as [Hv _]. unfold kedge. simpl. unfold einc in En. simpl in En.
        apply not_true_is_false. intros Hk.
        assert (Ht : existsb (fun vl : Z * label => ke n (fst vl)) ad = true)
          by (apply existsb_exists; exists (v, l); auto).
        congruence.
  Qed.

  Lemma einc_incg g e : wf g -> In e g -> einc e = incg g (fst e).
  Proof.
    intros Hwf He. destruct e as [n [a ad]]. unfold einc, incg. simpl.
    rewrite (adj_of_entry g n a ad Hwf He). reflexivity.
  Qed.

  Lemma edges_esub g : wf g -> edges (nx_edge_subgraph ke g) = filter kedge (edges g).
  Proof.
    intros Hwf. unfold edges. apply (edges_aux_esub (incg g)).
    - intros e He. apply einc_incg; assumption.
    - intros [n [a ad]] He [v l] Hvl Hk. cbn [fst snd] in *.
      assert (Hl : edge_label g n v = Some l).
      { apply In_adj_edge_label; [exact Hwf|]. rewrite (adj_of_entry g n a ad Hwf He). exact Hvl. }
      destruct Hwf as (_ & _ & Hsym). apply Hsym in Hl. apply edge_label_In_adj in Hl.
      unfold incg. apply existsb_exists. exists (n, l). split; [exact Hl|]. simpl. rewrite ke_sym. exact Hk.
    - intros v _. reflexivity.
  Qed.

  Lemma nodes_esub_filter g : wf g -> nodes (nx_edge_subgraph ke g) = filter (incg g) (nodes g).
  Proof.
    intros Hwf. rewrite nodes_esub.
    assert (Hgen : forall l : graph, (forall e, In e l -> einc e = incg g (fst e)) ->
              map fst (filter einc l) = filter (incg g) (map fst l)).
    { induction l as [|e t IH]; intros H; [reflexivity|]. simpl.
      rewrite (H e (or_introl eq_refl)). destruct (incg g (fst e)); simpl; [f_equal|]; apply IH;
        intros e' He'; apply H; right; exact He'. }
    apply Hgen. intros e He. apply einc_incg; assumption.
  Qed.

  Lemma ref_row_esub g :
    map ref_row (nx_edge_subgraph ke g) = map ref_row (filter einc g).
  Proof. unfold nx_edge_subgraph. rewrite map_map. apply map_ext. intros [n [a ad]]. reflexivity. Qed.
End ESub.

(** * the k-th edge occupies columns 2k and 2k+1 *)

Lemma chosen_bound {A} (K : A -> bool) (L : list A) e :
  In e (flat_map (fun p : Z * A => if K (snd p) then [2 * fst p; 2 * fst p + 1] else []) (enumerate L)) ->
  0 <= e < 2 * Z.of_nat (List.length L).
Proof.
  rewrite in_flat_map. intros ([k a] & Hin & He). apply enumerate_In in Hin. destruct Hin as [H0 Hn].
  assert (Z.to_nat k < List.length L)%nat by (apply nth_error_Some; congruence).
  cbn [fst snd] in He. destruct (K a); [|contradiction]. destruct He as [<-|[<-|[]]]; lia.
Qed.

Lemma nth_blocks {A B} (C : A -> list B) (c1 c2 : A -> B) (K : A -> bool) (d : B) (L : list A) :
  (forall a, C a = [c1 a; c2 a]) ->
  map (fun e => nth (Z.to_nat e) (flat_map C L) d)
      (flat_map (fun p : Z * A => if K (snd p) then [2 * fst p; 2 * fst p + 1] else []) (enumerate L))
  = flat_map C (filter K L).
Proof.
  intros HC. induction L as [|a t IH] using rev_ind; [reflexivity|].
  rewrite enumerate_snoc, !flat_map_app, filter_app, flat_map_app, map_app. f_equal.
  - rewrite <- IH. apply map_ext_in. intros e He. apply chosen_bound in He.
    apply app_nth1. rewrite (flat_map_length2 C t) by (intros x; rewrite HC; reflexivity). lia.
  - cbn [flat_map snd fst filter]. rewrite !app_nil_r. destruct (K a); [|reflexivity].
    cbn [flat_map map]. rewrite app_nil_r.
    assert (Hl : List.length (flat_map C t) = (2 * List.length t)%nat)
      by (apply flat_map_length2; intros x; rewrite HC; reflexivity).
    rewrite HC. f_equal; [|f_equal].
    + rewrite app_nth2 by lia. replace (Z.to_nat (2 * Z.of_nat (List.length t)) - List.length (flat_map C t))%nat with 0%nat by lia.
      reflexivity.
    + rewrite app_nth2 by lia. replace (Z.to_nat (2 * Z.of_nat (List.length t) + 1) - List.length (flat_map C t))%nat with 1%nat by lia.
      reflexivity.
Qed.

(** * the theorem *)

Theorem edge_induced_of_graph ke g t :
  wf g -> tabulated g -> pair_labelled g -> (forall u v, ke u v = ke v u) ->
  its_to_torch1 g = Ok t -> edges (nx_edge_subgraph ke g) <> [] ->
  edge_induced_subgraph t (chosen_columns ke g) = its_to_torch1 (nx_edge_subgraph ke g).
Proof.
  intros Hwf Htab Hpl Hsym Ht Hne.
  destruct (to_torch_ok g Hwf Htab Hpl) as (t0 & Ht0 & Hspec). rewrite Ht in Ht0. injection Ht0 as <-.
  pose proof Hwf as (Hnd & _ & Hlsym).
  set (sg := nx_edge_subgraph ke g) in *.
  destruct (to_torch_ok sg (wf_esub ke Hsym g Hwf) (tabulated_esub ke g Htab) (pair_labelled_esub ke g Hnd Hpl))
    as (ts & Hts & Hspec_s).
  rewrite Hts.
  set (N := nodes g). set (E := edges g). set (es := chosen_columns ke g).
  assert (HlenN : List.length N = List.length g) by (unfold N, nodes; apply map_length).
  pose proof (spec_x g t Hspec) as Hxg. pose proof (spec_x sg ts Hspec_s) as Hxs.
  destruct Hspec as (Hx & Hei & Hea & Hb). destruct Hspec_s as (_ & Hei_s & Hea_s & Hb_s).
  change (fun e : Z * Z * label => _) with (col_pos g) in Hei.
  assert (Hlen_x : List.length (t_x t) = List.length g) by (rewrite Hxg, map_length; reflexivity).
  assert (Hlen_ei : List.length (t_ei t) = (2 * List.length E)%nat).
  { rewrite Hei. apply flat_map_length2. reflexivity. }
  assert (HEsub : edges sg = filter (kedge ke) E) by (apply edges_esub; assumption).
  assert (Hedge : forall e, In e E -> In (fst (fst e)) N /\ In (snd (fst e)) N).
  { intros [[u v] l] He. apply (edges_endpoints g u v l Hwf He). }
  (* hypotheses of the explicit form *)
  assert (Hes_range : forall e, In e es -> 0 <= e < Z.of_nat (List.length (t_ei t))).
  { intros e He. unfold es, chosen_columns in He.
    apply (chosen_bound (kedge ke) (edges g)) in He. fold E in He. lia. }
  assert (Hcr : cols_in_range t).
  { intros p Hp. rewrite Hei in Hp. apply in_flat_map in Hp. destruct Hp as (e & He & Hp).
    destruct (Hedge e He) as [Hu Hv].
    pose proof (zindex_range _ N Hu). pose proof (zindex_range _ N Hv).
    unfold col_pos in Hp. cbv zeta in Hp. fold N in Hp. rewrite Hlen_x.
    destruct Hp as [<-|[<-|[]]]; simpl; lia. }
  (* the selected columns and rows *)
  assert (Hsel_cols : map (fun e => nth (Z.to_nat e) (t_ei t) (0, 0)) es = flat_map (col_pos g) (filter (kedge ke) E)).
  { rewrite Hei. unfold es, chosen_columns.
    apply (nth_blocks (col_pos g)
             (fun e => (zindex (fst (fst e)) (nodes g), zindex (snd (fst e)) (nodes g)))
             (fun e => (zindex (snd (fst e)) (nodes g), zindex (fst (fst e)) (nodes g)))
             (kedge ke)). intros a. reflexivity. }
  assert (Hes_ne : es <> []).
  { intros Hnil. rewrite Hnil in Hsel_cols. simpl in Hsel_cols. rewrite <- HEsub in Hsel_cols.
    destruct (edges sg) as [|e r]; [contradiction|]. simpl in Hsel_cols. discriminate. }
  rewrite (edge_induced_explicit t es Hes_ne Hes_range Hcr).
  2:{ right. eexists. split; [exact Hea|]. rewrite Hei, !flat_map_length2 by reflexivity. reflexivity. }
  (* the kept nodes *)
  set (sel := chosen_nodes t es).
  assert (Hinc_iff : forall u, In u N ->
            (incg ke g u = true <-> exists e, In e E /\ kedge ke e = true /\ (u = fst (fst e) \/ u = snd (fst e)))).
  { intros u Hu. unfold incg. rewrite existsb_exists. split.
    - intros ([w l] & Hin & Hk). simpl in Hk.
      assert (Hl : edge_label g u w = Some l) by (apply In_adj_edge_label; assumption).
      destruct (edges_complete g u w l Hwf Hl) as [He|He].
      + exists (u, w, l). split; [exact He|]. split; [exact Hk | left; reflexivity].
      + exists (w, u, l). split; [exact He|]. split; [unfold kedge; simpl; rewrite Hsym; exact Hk | right; reflexivity].
    - intros ([[a b] l] & He & Hk & Hab). unfold kedge in Hk. simpl in Hk, Hab.
      pose proof (in_edges_label g a b l Hwf He) as Hl.
      destruct Hab as [->| ->].
      + exists (b, l). split; [apply edge_label_In_adj; exact Hl | exact Hk].
      + exists (a, l). split; [apply edge_label_In_adj; apply Hlsym; exact Hl | simpl; rewrite Hsym; exact Hk]. }
  assert (Hsel : sel = map (fun u => zindex u N) (filter (incg ke g) N)).
  { rewrite <- (pos_zindex (incg ke g) N Hnd). apply ascending_unique.
    - unfold sel, chosen_nodes. apply ssorted_filter. apply (ssorted_zr 0).
    - unfold pos. apply ssorted_filter_fst. rewrite enumerate_fst. apply (ssorted_zr 0).
    - intros v. rewrite (pos_zindex (incg ke g) N Hnd). unfold sel, chosen_nodes.
      rewrite filter_In, znats_In, existsb_exists, in_map_iff. split.
      + intros (Hv & e & He & Hend). cbv zeta in Hend.
        assert (Hp : In (nth (Z.to_nat e) (t_ei t) (0, 0)) (flat_map (col_pos g) (filter (kedge ke) E))).
        { rewrite <- Hsel_cols. apply (in_map (fun e1 => nth (Z.to_nat e1) (t_ei t) (0, 0))). exact He. }
        apply in_flat_map in Hp. destruct Hp as (ed & Hed & Hp). apply filter_In in Hed. destruct Hed as [Hed Hk].
        destruct (Hedge ed Hed) as [Hu Hw].
        apply orb_true_iff in Hend. rewrite !Z.eqb_eq in Hend.
        unfold col_pos in Hp. cbv zeta in Hp. fold N in Hp.
        assert (Hcase : v = zindex (fst (fst ed)) N \/ v = zindex (snd (fst ed)) N).
        { destruct Hp as [Hp|[Hp|[]]]; rewrite <- Hp in Hend; simpl in Hend; destruct Hend; auto. }
        destruct Hcase as [->| ->].
        * exists (fst (fst ed)). split; [reflexivity|]. apply filter_In. split; [exact Hu|].
          apply (Hinc_iff _ Hu). exists ed. auto.
        * exists (snd (fst ed)). split; [reflexivity|]. apply filter_In. split; [exact Hw|].
          apply (Hinc_iff _ Hw). exists ed. auto.
      + intros (u & <- & Hu). apply filter_In in Hu. destruct Hu as [Hu Hi].
        split; [rewrite Hlen_x, <- HlenN; apply zindex_range; exact Hu|].
        apply (Hinc_iff u Hu) in Hi. destruct Hi as (ed & Hed & Hk & Hend).
        assert (Hc : exists p, In p (flat_map (col_pos g) (filter (kedge ke) E)) /\ fst p = zindex u N).
        { destruct Hend as [->| ->].
          - exists (zindex (fst (fst ed)) N, zindex (snd (fst ed)) N). split; [|reflexivity].
            apply in_flat_map. exists ed. split; [apply filter_In; auto | left; reflexivity].
          - exists (zindex (snd (fst ed)) N, zindex (fst (fst ed)) N). split; [|reflexivity].
            apply in_flat_map. exists ed. split; [apply filter_In; auto | right; left; reflexivity]. }
        destruct Hc as (p & Hp & Hfst). rewrite <- Hsel_cols in Hp. apply in_map_iff in Hp.
        destruct Hp as (e & Hpe & He). exists e. split; [exact He|]. cbv zeta. rewrite Hpe, Hfst, Z.eqb_refl. reflexivity. }
  assert (Hidx : forall u, In u N -> incg ke g u = true -> zindex (zindex u N) sel = zindex u (nodes sg)).
  { intros u Hu Hk. unfold sg. rewrite (nodes_esub_filter ke g Hwf), Hsel. fold N.
    apply (zindex_map_inj (fun x => zindex x N)). intros x y Hx0 Hy0 Exy.
    assert (Hmem : forall z, In z (u :: filter (incg ke g) N) -> In z N).
    { intros z [<-|Hz]; [exact Hu | apply filter_In in Hz; tauto]. }
    apply (zindex_inj x y N); auto. }
  f_equal. destruct ts as [xs eis eas bs]. cbn [t_x t_ei t_ea t_batch] in *.
  unfold edge_induced_tensor. cbv zeta. fold sel. f_equal.
  - (* rows *)
    rewrite Hxs, Hxg. unfold sg. rewrite ref_row_esub, Hsel, <- (pos_zindex (incg ke g) N Hnd).
    unfold N, nodes. rewrite <- (pos_map (incg ke g) fst g), pos_nth. f_equal.
    apply filter_ext_in. intros e He. symmetry. apply einc_incg; assumption.
  - (* columns *)
    rewrite Hei_s, HEsub. rewrite <- (map_map (fun e => nth (Z.to_nat e) (t_ei t) (0, 0)) (renumber sel)).
    rewrite Hsel_cols, map_flat_map. apply flat_map_ext_in'. intros e He.
    apply filter_In in He. destruct He as [He Hk]. destruct (Hedge e He) as [Hu Hv].
    assert (Hiu : incg ke g (fst (fst e)) = true) by (apply (Hinc_iff _ Hu); exists e; auto).
    assert (Hiv : incg ke g (snd (fst e)) = true) by (apply (Hinc_iff _ Hv); exists e; auto).
    unfold col_pos. cbv zeta. cbn [map]. unfold renumber. cbn [fst snd]. fold N.
    rewrite (Hidx _ Hu Hiu), (Hidx _ Hv Hiv). reflexivity.
  - (* feature rows *)
    rewrite Hea_s, Hea, HEsub. cbn [option_map]. f_equal. unfold es, chosen_columns.
    apply (nth_blocks (fun e : Z * Z * label => [feat (snd e); feat (snd e)])
             (fun e => feat (snd e)) (fun e => feat (snd e)) (kedge ke)). intros a. reflexivity.
  - symmetry. exact Hb_s.
Qed.
