(** C17: from the core theorem on the relabelled graph to the public function
    node_induced_connected_subgraphs on an arbitrary well-formed graph. *)
From Coq Require Import ZArith List Bool Lia.
From FGV Require Import Base.Util Base.UtilFacts Base.Bond Base.NX Model.Cis Spec.CisSpec
  Proofs.CisCore Proofs.CisRelabel.
Import ListNotations.
Open Scope Z_scope.

(** * Walks in an undirected graph *)

Lemma walk_trans G S u v w : walk G S u v -> walk G S v w -> walk G S u w.
Proof.
  intros H1 H2. induction H2 as [_|x y Hw IH Hin Hadj]; [exact H1|].
  eapply walk_step; [exact IH | exact Hin | exact Hadj].
Qed.

Lemma walk_start_in G S u v : walk G S u v -> In u S.
Proof. induction 1; assumption. Qed.

Lemma walk_sym G S u v : wfb G = true -> walk G S u v -> walk G S v u.
Proof.
  intros Hw H1. induction H1 as [Hu|x y H1 IH Hin Hadj]; [apply walk_refl; exact Hu|].
  apply (walk_trans _ _ _ x); [|exact IH].
  eapply walk_step; [apply walk_refl; exact Hin | eapply walk_end_in; exact H1 |].
  unfold adjacent in *. apply wf_sym; assumption.
Qed.

Lemma connected_of_anchored G S a : wfb G = true -> In a S ->
  (forall v, In v S -> walk G S a v) -> connected G S.
Proof.
  intros Hw Ha Hall. split; [intros ->; contradiction|].
  intros u v Hu Hv. apply (walk_trans _ _ _ a); [apply walk_sym; [exact Hw | apply Hall; exact Hu] | apply Hall; exact Hv].
Qed.

Lemma walk_nodes G S a v : wfb G = true -> In a (nodes G) -> walk G S a v -> In v (nodes G).
Proof.
  intros Hw Ha H1. destruct H1 as [_|x y _ _ Hadj]; [exact Ha|].
  unfold adjacent in Hadj. eapply wf_nbr_node; eauto.
Qed.

Lemma nth_error_map_inv {A B} (F : A -> B) l i y :
  nth_error (map F l) i = Some y -> exists x, nth_error l i = Some x /\ y = F x.
Proof.
  revert i. induction l as [|a t IH]; intros [|i] Hi; simpl in Hi; try discriminate.
  - injection Hi as <-. exists a. split; reflexivity.
  - apply IH. exact Hi.
Qed.

(** * Transport through the renaming *)

Section Top.
Variable G : graph.
Variable anchor : Z.
Hypothesis Hw : wfb G = true.
Hypothesis Ha : In anchor (nodes G).

Let ns := nodes G.
Let n := List.length (nodes G).
Let f := fwd anchor (nodes G).
Let g := bwd anchor (nodes G).
Let Hnd : NoDup (nodes G) := wfb_nodup G Hw.
Let Hrel := relabel_spec f G Hw (fwd_inj anchor (nodes G) Hnd Ha).
Let H := relabel f G.

Lemma f_spec v : In v (nodes G) -> inr n (f v) /\ g (f v) = v.
Proof. apply fwd_spec; assumption. Qed.

Lemma g_spec i : inr n i -> In (g i) (nodes G) /\ f (g i) = i.
Proof. apply bwd_spec; assumption. Qed.

Lemma f_anchor : f anchor = 0.
Proof. apply fwd_anchor; assumption. Qed.

Lemma g_zero : g 0 = anchor.
Proof. rewrite <- f_anchor. apply f_spec. exact Ha. Qed.

Lemma H_nodes : nodes H = map f (nodes G).
Proof. exact (proj1 Hrel). Qed.

Lemma H_adj w x : In x (neighbors H w) <-> exists u v, w = f u /\ x = f v /\ In v (neighbors G u).
Proof. exact (proj1 (proj2 Hrel) w x). Qed.

Lemma H_canon : canon H n.
Proof.
  split; [|split; [|split]].
  - intros v. rewrite H_nodes, in_map_iff. split.
    + intros (v0 & <- & Hv0). apply f_spec. exact Hv0.
    + intros Hv. exists (g v). destruct (g_spec v Hv) as (H1 & H2). split; assumption.
  - rewrite H_nodes, map_length. reflexivity.
  - intros u v Hin. apply H_adj in Hin. destruct Hin as (u0 & v0 & -> & -> & Hin).
    rewrite H_nodes. apply in_map. eapply wf_nbr_node; eauto.
  - exact (proj2 (proj2 Hrel)).
Qed.

Lemma H_zero : inr n 0.
Proof. rewrite <- f_anchor. apply f_spec. exact Ha. Qed.

Lemma adj_back u' v' : In v' (neighbors H u') -> In (g v') (neighbors G (g u')).
Proof.
  intros Hin. apply H_adj in Hin. destruct Hin as (u & v & -> & -> & Hin).
  rewrite (proj2 (f_spec u (neighbors_src_node _ _ _ Hin))).
  rewrite (proj2 (f_spec v (wf_nbr_node _ _ _ Hw Hin))). exact Hin.
Qed.

Lemma adj_fwd u v : In v (neighbors G u) -> In (f v) (neighbors H (f u)).
Proof. intros Hin. apply H_adj. exists u, v. tauto. Qed.

Lemma walk_back Y' y' : walk H Y' 0 y' -> walk G (map g Y') anchor (g y').
Proof.
  intros H1. induction H1 as [H0|v' w' H1 IH Hin Hadj].
  - rewrite g_zero. apply walk_refl. rewrite <- g_zero. apply in_map. exact H0.
  - eapply walk_step; [exact IH | apply in_map; exact Hin | apply adj_back; exact Hadj].
Qed.

Lemma walk_fwd S v : walk G S anchor v -> walk H (map f S) 0 (f v).
Proof.
  intros H1. induction H1 as [H0|x y H1 IH Hin Hadj].
  - rewrite f_anchor. apply walk_refl. rewrite <- f_anchor. apply in_map. exact H0.
  - eapply walk_step; [exact IH | apply in_map; exact Hin | apply adj_fwd; exact Hadj].
Qed.

Lemma g_inj x y : inr n x -> inr n y -> g x = g y -> x = y.
Proof.
  intros Hx Hy Heq. rewrite <- (proj2 (g_spec x Hx)), <- (proj2 (g_spec y Hy)), Heq. reflexivity.
Qed.

Lemma top_eval out' : nics_inner H 0 = Ok out' ->
  (forall Y, In Y out' -> forall y, In y Y -> inr n y) ->
  node_induced_connected_subgraphs G anchor = Ok (map (map g) out').
Proof.
  intros Hcore Hr. unfold node_induced_connected_subgraphs.
  change (relabel (map_get (build_nmap anchor (nodes G))) G) with H.
  rewrite Hcore. cbn [bind].
  apply rmap_Ok. intros Y HY. apply rmap_Ok. intros y Hy.
  unfold g. rewrite (nmap_inv_lookup anchor (nodes G) Hnd Ha y (Hr Y HY y Hy)). reflexivity.
Qed.

Theorem top_correct : exists out,
  node_induced_connected_subgraphs G anchor = Ok out /\ cis_spec G anchor out.
Proof.
  destruct (core_correct H n H_canon H_zero) as (out' & Hcore & Hsound & Huniq & Hcompl).
  exists (map (map g) out'). split.
  { apply top_eval; [exact Hcore|]. intros Y HY. apply (Hsound Y HY). }
  split; [|split].
  - (* soundness *)
    intros Y HY. apply in_map_iff in HY. destruct HY as (Y' & <- & HY').
    destruct (Hsound Y' HY') as (Hnd' & H0 & Hr & Hwk).
    assert (HancY : In anchor (map g Y')) by (rewrite <- g_zero; apply in_map; exact H0).
    split; [|split; [|split]].
    + apply NoDup_map_inj_on; [|exact Hnd']. intros x y Hx Hy. apply g_inj; apply Hr; assumption.
    + exact HancY.
    + intros y Hy. apply in_map_iff in Hy. destruct Hy as (y' & <- & Hy'). apply g_spec. apply Hr. exact Hy'.
    + apply (connected_of_anchored G _ anchor Hw HancY).
      intros y Hy. apply in_map_iff in Hy. destruct Hy as (y' & <- & Hy'). apply walk_back. apply Hwk. exact Hy'.
  - (* uniqueness *)
    intros i j X Y Hi Hj Hs.
    apply nth_error_map_inv in Hi, Hj. destruct Hi as (X' & Hi & ->), Hj as (Y' & Hj & ->).
    apply (Huniq i j X' Y' Hi Hj).
    pose proof (Hsound X' (nth_error_In _ _ Hi)) as (_ & _ & HrX & _).
    pose proof (Hsound Y' (nth_error_In _ _ Hj)) as (_ & _ & HrY & _).
    intros x. split; intros Hx.
    + assert (Hgx : In (g x) (map g Y')) by (apply Hs; apply in_map; exact Hx).
      apply in_map_iff in Hgx. destruct Hgx as (y & Hy & Hin).
      rewrite <- (g_inj y x (HrY y Hin) (HrX x Hx) Hy). exact Hin.
    + assert (Hgx : In (g x) (map g X')) by (apply Hs; apply in_map; exact Hx).
      apply in_map_iff in Hgx. destruct Hgx as (y & Hy & Hin).
      rewrite <- (g_inj y x (HrX y Hin) (HrY x Hx) Hy). exact Hin.
  - (* completeness *)
    intros S HaS (_ & Hconn).
    assert (HSn : forall v, In v S -> In v (nodes G)).
    { intros v Hv. apply (walk_nodes G S anchor v Hw Ha). apply Hconn; assumption. }
    destruct (Hcompl (map f S)) as (Y' & HY' & Hsame).
    + rewrite <- f_anchor. apply in_map. exact HaS.
    + intros v' Hv'. apply in_map_iff in Hv'. destruct Hv' as (v & <- & Hv). apply walk_fwd. apply Hconn; assumption.
    + exists (map g Y'). split; [apply in_map; exact HY'|].
      intros x. split; intros Hx.
      * apply in_map_iff in Hx. destruct Hx as (y' & <- & Hy'). apply Hsame in Hy'.
        apply in_map_iff in Hy'. destruct Hy' as (s & <- & Hs).
        rewrite (proj2 (f_spec s (HSn s Hs))). exact Hs.
      * rewrite <- (proj2 (f_spec x (HSn x Hx))). apply in_map. apply Hsame. apply in_map. exact Hx.
Qed.
End Top.

(** * The anchor is not a node: networkx raises on G.neighbors(0) *)

Lemma filter_not_anchor_all anchor ns : ~ In anchor ns -> filter (not_anchor anchor) ns = ns.
Proof.
  induction ns as [|x t IH]; intros Hni; [reflexivity|].
  cbn [filter]. unfold not_anchor at 1. destruct (Z.eqb_spec x anchor) as [->|Hne]; cbn [negb].
  - exfalso. apply Hni. left. reflexivity.
  - f_equal. apply IH. intros Hin. apply Hni. right. exact Hin.
Qed.

Theorem no_anchor G anchor : wfb G = true -> ~ In anchor (nodes G) ->
  node_induced_connected_subgraphs G anchor = Err ENode.
Proof.
  intros Hw Hni. pose proof (wfb_nodup G Hw) as Hnd.
  set (f := map_get (build_nmap anchor (nodes G))).
  assert (Hkeys : NoDup (anchor :: nodes G)) by (constructor; assumption).
  assert (Hf : forall v, In v (nodes G) -> exists i, nth_error (nodes G) i = Some v /\ f v = Z.of_nat (S i)).
  { intros v Hv. destruct (In_nth_error _ _ Hv) as (i & Hi). exists i. split; [exact Hi|].
    unfold f, map_get. rewrite (build_nmap_eq _ _ Hnd). unfold nmap_keys.
    rewrite (filter_not_anchor_all _ _ Hni).
    rewrite (alookup_number_from (anchor :: nodes G) 0 (S i) v Hkeys Hi). reflexivity. }
  assert (Hinj : forall x y, In x (nodes G) -> In y (nodes G) -> f x = f y -> x = y).
  { intros x y Hx Hy Heq. destruct (Hf x Hx) as (i & Hi & Ei). destruct (Hf y Hy) as (j & Hj & Ej).
    rewrite Ei, Ej in Heq. apply Nat2Z.inj in Heq. injection Heq as <-. congruence. }
  destruct (relabel_spec f G Hw Hinj) as (Hnodes & _).
  unfold node_induced_connected_subgraphs. fold f. unfold nics_inner, nbrs.
  replace (has_node (relabel f G) 0) with false; [reflexivity|].
  symmetry. destruct (has_node (relabel f G) 0) eqn:E; [|reflexivity].
  apply has_node_In in E. rewrite Hnodes in E. apply in_map_iff in E. destruct E as (v & Hv0 & Hv).
  destruct (Hf v Hv) as (i & _ & Ei). lia.
Qed.

(** * The statement in the form used by Props/C17.v *)

Theorem C17_full : C17_full_statement.
Proof. intros G anchor Hw Ha. apply top_correct; assumption. Qed.

Corollary C17_parts G anchor out : wfb G = true -> In anchor (nodes G) ->
  node_induced_connected_subgraphs G anchor = Ok out ->
  cis_sound G anchor out /\ cis_unique out /\ cis_complete G anchor out.
Proof.
  intros Hw Ha Hout. destruct (top_correct G anchor Hw Ha) as (out' & Hout' & Hspec).
  rewrite Hout in Hout'. injection Hout' as ->. exact Hspec.
Qed.
