(** C18: the node-induced tensor subgraph of the tensor form of a graph IS the tensor form of the
    induced subgraph (node order and adjacency order of the graph), entry for entry. *)
From Coq Require Import ZArith List Bool String Lia.
From FGV Require Import Base.Util Base.UtilFacts Base.Bond Base.NX Base.NXFacts
  Model.Torch Spec.PeriodicRef Spec.TorchSpec Spec.TorchCheck
  Proofs.TorchTables Proofs.TorchUtil Proofs.TorchRound Proofs.TorchBatch Proofs.TorchInduced Proofs.TorchPrune.
Import ListNotations.
Open Scope Z_scope.

(** * the induced subgraph *)

Section Sub.
  Variable keep : Z -> bool.

  Definition keepfst (vl : Z * label) : bool := keep (fst vl).
  Definition keep_edge (e : Z * Z * label) : bool := keep (fst (fst e)) && keep (snd (fst e)).

  Lemma nx_subgraph_cons e g :
    nx_subgraph keep (e :: g) =
    if keep (fst e) then (fst e, (fst (snd e), filter keepfst (snd (snd e)))) :: nx_subgraph keep g
    else nx_subgraph keep g.
  Proof. unfold nx_subgraph. simpl. destruct (keep (fst e)); reflexivity. Qed.

  Lemma alookup_filter_fst v (ad : adjl) :
    alookup v (filter keepfst ad) = if keep v then alookup v ad else None.
  Proof.
    induction ad as [|[w l] t IH]; simpl; [destruct (keep v); reflexivity|].
    unfold keepfst at 1. simpl. destruct (keep w) eqn:Ew; simpl.
    - destruct (Z.eqb_spec v w) as [->|Hne]; [rewrite Ew; reflexivity | exact IH].
    - destruct (Z.eqb_spec v w) as [->|Hne]; [rewrite IH, Ew; reflexivity | exact IH].
  Qed.

  Lemma alookup_sub u g :
    alookup u (nx_subgraph keep g) =
    if keep u then option_map (fun x : nattr * adjl => (fst x, filter keepfst (snd x))) (alookup u g) else None.
  Proof.
    induction g as [|[n [a ad]] t IH]; [simpl; destruct (keep u); reflexivity|].
    rewrite nx_subgraph_cons. cbn [fst snd alookup]. destruct (keep n) eqn:En.
    - cbn [alookup]. destruct (Z.eqb_spec u n) as [->|Hne]; [rewrite En; reflexivity | exact IH].
    - destruct (Z.eqb_spec u n) as [->|Hne]; [rewrite IH, En; reflexivity | exact IH].
  Qed.

  Lemma adj_sub u g : adj (nx_subgraph keep g) u = if keep u then filter keepfst (adj g u) else [].
  Proof.
    unfold adj. rewrite alookup_sub. destruct (keep u); [|reflexivity].
    destruct (alookup u g) as [[a ad]|]; reflexivity.
  Qed.

  Lemma edge_label_sub g u v :
    edge_label (nx_subgraph keep g) u v = if keep u && keep v then edge_label g u v else None.
  Proof.
    unfold edge_label. rewrite adj_sub. destruct (keep u); simpl; [|reflexivity]. apply alookup_filter_fst.
  Qed.

  Lemma nodes_sub g : nodes (nx_subgraph keep g) = filter keep (nodes g).
  Proof.
    induction g as [|e t IH]; [reflexivity|]. rewrite nx_subgraph_cons. unfold nodes in *. simpl.
    destruct (keep (fst e)); simpl; [f_equal|]; exact IH.
  Qed.

  Lemma filter_fst_NoDup (ad : adjl) : NoDup (map fst ad) -> NoDup (map fst (filter keepfst ad)).
  Proof.
    induction ad as [|[w l] t IH]; simpl; intros H; [constructor|]. inversion H as [|? ? Hni Hnd]; subst.
    unfold keepfst at 1. simpl. destruct (keep w); [|auto]. simpl. constructor; [|auto].
    intros Hin. apply Hni. apply in_map_iff in Hin. destruct Hin as (c & <- & Hc). apply filter_In in Hc.
    apply in_map. tauto.
  Qed.

  Lemma wf_sub g : wf g -> wf (nx_subgraph keep g).
  Proof.
    intros (H1 & H2 & H3). split; [rewrite nodes_sub; apply NoDup_filter; exact H1|]. split.
    - intros u. rewrite adj_sub. destruct (keep u); [apply filter_fst_NoDup; apply H2 | constructor].
    - intros u v l. rewrite !edge_label_sub, (andb_comm (keep v)). destruct (keep u && keep v); [apply H3 | discriminate].
  Qed.

  Lemma in_sub n a ad g :
    In (n, (a, ad)) (nx_subgraph keep g) -> exists ad0, In (n, (a, ad0)) g /\ keep n = true.
  Proof.
    unfold nx_subgraph. rewrite in_map_iff. intros ([n0 [a0 ad0]] & Heq & Hin). simpl in Heq.
    injection Heq as -> -> _. apply filter_In in Hin. simpl in Hin. exists ad0. tauto.
  Qed.

  Lemma tabulated_sub g : tabulated g -> tabulated (nx_subgraph keep g).
  Proof. intros H n a ad Hin. destruct (in_sub n a ad g Hin) as (ad0 & H0 & _). eapply H; eauto. Qed.

  Lemma pair_labelled_sub g : pair_labelled g -> pair_labelled (nx_subgraph keep g).
  Proof.
    intros H u v l. rewrite edge_label_sub. destruct (keep u && keep v); [apply H | discriminate].
  Qed.

  (* Graph.edges() of the induced subgraph = the kept edges, in the same order *)
  Lemma edges_aux_sub g : forall seen seen',
    (forall v, keep v = true -> zmem v seen' = zmem v seen) ->
    edges_aux seen' (nx_subgraph keep g) = filter keep_edge (edges_aux seen g).
  Proof.
    induction g as [|[n [a ad]] t IH]; intros seen seen' Hag; [reflexivity|].
    rewrite nx_subgraph_cons. cbn [fst snd edges_aux]. rewrite filter_app.
    destruct (keep n) eqn:En.
    - cbn [edges_aux]. f_equal.
      + clear IH. induction ad as [|[v l] r IHr]; [reflexivity|]. simpl.
        unfold keepfst at 1. simpl. destruct (keep v) eqn:Ev; simpl.
        * rewrite (Hag v Ev). destruct (zmem v seen); simpl; [exact IHr|].
          unfold keep_edge at 1. simpl. rewrite En, Ev. simpl. f_equal. exact IHr.
        * destruct (zmem v seen); simpl; [exact IHr|].
          unfold keep_edge at 1. simpl. rewrite En, Ev. simpl. exact IHr.
      + apply IH. intros v Hv. simpl. rewrite (Hag v Hv). reflexivity.
    - rewrite (filter_none keep_edge (map _ _)).
      + simpl. apply IH. intros v Hv. simpl. rewrite (Hag v Hv).
        destruct (Z.eqb_spec v n) as [->|Hne]; [congruence | reflexivity].
      + intros e He. apply in_map_iff in He. destruct He as ([v l] & <- & _).
        unfold keep_edge. simpl. rewrite En. reflexivity.
  Qed.

  Lemma edges_sub g : edges (nx_subgraph keep g) = filter keep_edge (edges g).
  Proof. unfold edges. apply edges_aux_sub. intros v _. reflexivity. Qed.
End Sub.

(** * positions of the elements satisfying a predicate *)

Definition pos {A} (P : A -> bool) (l : list A) : list Z :=
  map fst (filter (fun c : Z * A => P (snd c)) (enumerate l)).

Lemma pos_snoc {A} (P : A -> bool) l a :
  pos P (l ++ [a]) = pos P l ++ (if P a then [Z.of_nat (List.length l)] else []).
Proof.
  unfold pos. rewrite enumerate_snoc, filter_app, map_app. simpl. destruct (P a); reflexivity.
Qed.

Lemma pos_In {A} (P : A -> bool) l v : In v (pos P l) -> 0 <= v < Z.of_nat (List.length l).
Proof.
  unfold pos. rewrite in_map_iff. intros ([v' a] & <- & Hc). apply filter_In in Hc. destruct Hc as [Hc _].
  apply enumerate_In in Hc. destruct Hc as [H0 Hn]. simpl.
  assert (Z.to_nat v' < List.length l)%nat by (apply nth_error_Some; congruence). lia.
Qed.

Lemma pos_map {A B} (P : B -> bool) (f : A -> B) l : pos (fun x => P (f x)) l = pos P (map f l).
Proof.
  induction l as [|a t IH] using rev_ind; [reflexivity|].
  rewrite map_app. simpl. rewrite !pos_snoc, IH, map_length. reflexivity.
Qed.

Lemma pos_nth {A B} (P : A -> bool) (f : A -> B) d l :
  map (fun v => nth (Z.to_nat v) (map f l) d) (pos P l) = map f (filter P l).
Proof.
  induction l as [|a t IH] using rev_ind; [reflexivity|].
  rewrite pos_snoc, filter_app, !map_app. f_equal.
  - rewrite <- IH. apply map_ext_in. intros v Hv. apply pos_In in Hv.
    rewrite app_nth1 by (rewrite map_length; lia). reflexivity.
  - simpl. destruct (P a); [|reflexivity]. simpl. f_equal.
    rewrite Nat2Z.id, app_nth2 by (rewrite map_length; lia). rewrite map_length, Nat.sub_diag. reflexivity.
Qed.

Lemma zindex_from_app k u l1 l2 :
  zindex_from k u (l1 ++ l2) =
  if zmem u l1 then zindex_from k u l1 else zindex_from (k + Z.of_nat (List.length l1)) u l2.
Proof.
  revert k. induction l1 as [|w t IH]; intros k; simpl; [f_equal; lia|].
  destruct (Z.eqb_spec u w) as [->|Hne]; simpl; [reflexivity|].
  rewrite IH. destruct (zmem u t); [reflexivity|]. f_equal. lia.
Qed.

Lemma pos_zindex P l : NoDup l -> pos P l = map (fun u => zindex u l) (filter P l).
Proof.
  induction l as [|a t IH] using rev_ind; intros Hnd; [reflexivity|].
  assert (Hnd' : NoDup t /\ ~ In a t).
  { apply NoDup_remove in Hnd. rewrite app_nil_r in Hnd. exact Hnd. }
  destruct Hnd' as [Ht Ha].
  rewrite pos_snoc, filter_app, map_app, (IH Ht). f_equal.
  - apply map_ext_in. intros u Hu. apply filter_In in Hu. destruct Hu as [Hu _].
    unfold zindex. rewrite zindex_from_app. apply zmem_In in Hu. rewrite Hu. reflexivity.
  - simpl. destruct (P a); [|reflexivity]. simpl. f_equal.
    unfold zindex. rewrite zindex_from_app. apply zmem_false in Ha. rewrite Ha. simpl.
    rewrite Z.eqb_refl. reflexivity.
Qed.

Lemma zindex_map_inj (f : Z -> Z) u l :
  (forall x y, In x (u :: l) -> In y (u :: l) -> f x = f y -> x = y) ->
  zindex (f u) (map f l) = zindex u l.
Proof.
  unfold zindex. generalize 0. induction l as [|w t IH]; intros k Hinj; [reflexivity|]. simpl.
  destruct (Z.eqb_spec u w) as [->|Hne].
  - rewrite Z.eqb_refl. reflexivity.
  - destruct (Z.eqb_spec (f u) (f w)) as [E|_].
    + exfalso. apply Hne. apply Hinj; [left; reflexivity | right; left; reflexivity | exact E].
    + apply IH. intros x y Hx Hy. apply Hinj; simpl in *; tauto.
Qed.

Lemma kept_positions_pos keep g : kept_positions keep g = pos keep (nodes g).
Proof. reflexivity. Qed.

(** * rows *)

Lemma spec_x g t : to_torch_spec g t -> t_x t = map ref_row g.
Proof.
  intros (Hx & _). induction Hx as [|e row g' x' (s & z & Hs & Hz & ->) _ IH]; [reflexivity|].
  simpl. rewrite IH. f_equal. unfold ref_row. rewrite Hs, Hz. reflexivity.
Qed.

Lemma ref_row_sub keep g :
  map ref_row (nx_subgraph keep g) = map ref_row (filter (fun e : Z * (nattr * adjl) => keep (fst e)) g).
Proof. unfold nx_subgraph. rewrite map_map. apply map_ext. intros [n [a ad]]. reflexivity. Qed.

Lemma filter_flat_map {A B} (Q : B -> bool) (K : A -> bool) (C : A -> list B) l :
  (forall a, In a l -> filter Q (C a) = if K a then C a else []) ->
  filter Q (flat_map C l) = flat_map C (filter K l).
Proof.
  induction l as [|a t IH]; intros H; [reflexivity|]. simpl.
  rewrite filter_app, (H a) by (left; reflexivity). rewrite IH by (intros b Hb; apply H; right; exact Hb).
  destruct (K a); reflexivity.
Qed.

Lemma map_flat_map {A B C} (f : B -> C) (g : A -> list B) l :
  map f (flat_map g l) = flat_map (fun a => map f (g a)) l.
Proof. induction l as [|a t IH]; [reflexivity|]. simpl. rewrite map_app, IH. reflexivity. Qed.

Lemma flat_map_ext_in' {A B} (f g : A -> list B) l :
  (forall a, In a l -> f a = g a) -> flat_map f l = flat_map g l.
Proof.
  induction l as [|a t IH]; intros H; [reflexivity|]. simpl.
  rewrite (H a) by (left; reflexivity). rewrite IH by (intros b Hb; apply H; right; exact Hb). reflexivity.
Qed.

(** * the theorem *)

Theorem node_induced_of_graph keep g t :
  wf g -> tabulated g -> pair_labelled g -> its_to_torch1 g = Ok t ->
  edges (nx_subgraph keep g) <> [] ->
  node_induced_subgraph t (kept_positions keep g) = its_to_torch1 (nx_subgraph keep g).
Proof.
  intros Hwf Htab Hpl Ht Hne.
  destruct (to_torch_ok g Hwf Htab Hpl) as (t0 & Ht0 & Hspec). rewrite Ht in Ht0. injection Ht0 as <-.
  set (sg := nx_subgraph keep g) in *.
  destruct (to_torch_ok sg (wf_sub keep g Hwf) (tabulated_sub keep g Htab) (pair_labelled_sub keep g Hpl))
    as (ts & Hts & Hspec_s).
  rewrite Hts.
  pose proof Hwf as (Hnd & _).
  set (N := nodes g). set (ns := kept_positions keep g).
  assert (HlenN : List.length N = List.length g) by (unfold N, nodes; apply map_length).
  assert (Hns : ns = map (fun u => zindex u N) (filter keep N)).
  { unfold ns. rewrite kept_positions_pos. apply pos_zindex. exact Hnd. }
  assert (Hss : ssorted ns).
  { unfold ns, kept_positions. apply ssorted_filter_fst. rewrite enumerate_fst. apply (ssorted_zr 0). }
  pose proof (ssorted_NoDup ns Hss) as Hndns.
  assert (Hin_ns : forall u, In u N -> (In (zindex u N) ns <-> keep u = true)).
  { intros u Hu. rewrite Hns, in_map_iff. split.
    - intros (u' & E & Hu'). apply filter_In in Hu'. destruct Hu' as [Hu' Hk].
      apply zindex_inj in E; [subst; exact Hk | exact Hu' | exact Hu].
    - intros Hk. exists u. split; [reflexivity|]. apply filter_In. auto. }
  assert (Hidx : forall u, In u N -> keep u = true -> zindex (zindex u N) ns = zindex u (nodes sg)).
  { intros u Hu Hk. unfold sg. rewrite nodes_sub, Hns. fold N.
    apply (zindex_map_inj (fun x => zindex x N)). intros x y Hx Hy E.
    assert (Hmem : forall z, In z (u :: filter keep N) -> In z N).
    { intros z [<-|Hz]; [exact Hu | apply filter_In in Hz; tauto]. }
    apply (zindex_inj x y N); auto. }
  destruct Hspec as (Hx & Hei & Hea & Hb).
  pose proof (spec_x g t (conj Hx (conj Hei (conj Hea Hb)))) as Hxg.
  pose proof (spec_x sg ts Hspec_s) as Hxs.
  destruct Hspec_s as (_ & Hei_s & Hea_s & Hb_s).
  (* per-edge facts *)
  assert (Hedge : forall e, In e (edges g) ->
            In (fst (fst e)) N /\ In (snd (fst e)) N).
  { intros [[u v] l] He. apply (edges_endpoints g u v l Hwf He). }
  assert (Hboth : forall e, In e (edges g) ->
            both_in ns (zindex (fst (fst e)) N, zindex (snd (fst e)) N) = keep_edge keep e
            /\ both_in ns (zindex (snd (fst e)) N, zindex (fst (fst e)) N) = keep_edge keep e).
  { intros e He. destruct (Hedge e He) as [Hu Hv]. unfold both_in, keep_edge. simpl.
    assert (E1 : zmem (zindex (fst (fst e)) N) ns = keep (fst (fst e))).
    { destruct (keep (fst (fst e))) eqn:Ek.
      - apply zmem_In. apply Hin_ns; assumption.
      - apply zmem_false. intros Hin. apply Hin_ns in Hin; [congruence | exact Hu]. }
    assert (E2 : zmem (zindex (snd (fst e)) N) ns = keep (snd (fst e))).
    { destruct (keep (snd (fst e))) eqn:Ek.
      - apply zmem_In. apply Hin_ns; assumption.
      - apply zmem_false. intros Hin. apply Hin_ns in Hin; [congruence | exact Hv]. }
    rewrite E1, E2. split; [reflexivity | apply andb_comm]. }
  (* the kept columns *)
  assert (Hfilt_ei : filter (both_in ns) (t_ei t) = flat_map (col_pos g) (filter (keep_edge keep) (edges g))).
  { rewrite Hei. change (fun e : Z * Z * label => _) with (col_pos g).
    apply filter_flat_map. intros e He. destruct (Hboth e He) as [B1 B2].
    unfold col_pos. cbv zeta. cbn [filter]. fold N. rewrite B1, B2. destruct (keep_edge keep e); reflexivity. }
  assert (Hsub_ne : filter (keep_edge keep) (edges g) <> []).
  { rewrite <- (edges_sub keep g). exact Hne. }
  assert (Hlen_x : List.length (t_x t) = List.length g) by (rewrite Hxg, map_length; reflexivity).
  (* the model call *)
  rewrite (node_induced_ok t ns Hndns).
  2:{ intros Hnil. apply Hsub_ne. destruct (filter (keep_edge keep) (edges g)) as [|e r] eqn:Ef; [reflexivity|].
      exfalso. assert (He : In e (filter (keep_edge keep) (edges g))) by (rewrite Ef; left; reflexivity).
      apply filter_In in He. destruct He as [He Hk]. destruct (Hedge e He) as [Hu _].
      unfold keep_edge in Hk. apply andb_true_iff in Hk. destruct Hk as [Hk _].
      assert (Hin : In (zindex (fst (fst e)) N) ns) by (apply Hin_ns; assumption).
      rewrite Hnil in Hin. contradiction. }
  2:{ intros v Hv. unfold ns in Hv. rewrite kept_positions_pos in Hv. apply pos_In in Hv.
      rewrite Hlen_x. fold N in Hv. lia. }
  2:{ right. eexists. split; [exact Hea|]. split.
      - rewrite Hei, !flat_map_length2 by reflexivity. reflexivity.
      - rewrite Hfilt_ei. destruct (filter (keep_edge keep) (edges g)) as [|e r]; [contradiction|]. simpl. discriminate. }
  f_equal. destruct ts as [xs eis eas bs]. cbn [t_x t_ei t_ea t_batch] in *. unfold induced_tensor. f_equal.
  - (* rows *)
    rewrite Hxs, Hxg. unfold sg. rewrite ref_row_sub. unfold ns. rewrite kept_positions_pos.
    unfold N, nodes. rewrite <- (pos_map keep fst g). apply pos_nth.
  - (* columns *)
    rewrite Hei_s, Hfilt_ei. unfold sg. rewrite edges_sub. rewrite map_flat_map.
    apply flat_map_ext_in'. intros e He. apply filter_In in He. destruct He as [He Hk].
    destruct (Hedge e He) as [Hu Hv]. unfold keep_edge in Hk. apply andb_true_iff in Hk. destruct Hk as [Hku Hkv].
    unfold col_pos. cbv zeta. cbn [map]. unfold renumber. cbn [fst snd]. fold N.
    rewrite (Hidx _ Hu Hku), (Hidx _ Hv Hkv). reflexivity.
  - (* feature rows *)
    rewrite Hea_s, Hea. cbn [option_map]. f_equal. rewrite Hei.
    rewrite (combine_flat_map _ _ (edges g)) by reflexivity.
    rewrite (filter_flat_map _ (keep_edge keep)).
    + unfold sg. rewrite edges_sub, map_flat_map. apply flat_map_ext. intros e. reflexivity.
    + intros e He. destruct (Hboth e He) as [B1 B2]. cbn [combine filter fst]. fold N.
      rewrite B1, B2. destruct (keep_edge keep e); reflexivity.
  - symmetry. exact Hb_s.
Qed.
