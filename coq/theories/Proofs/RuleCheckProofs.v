(** C16 proofs, part 6: soundness of the decidable checkers the harness runs
    (check "vf2" on the oracle's enumeration, check "spec" on the implementation's results). *)
From Coq Require Import ZArith List Bool String Lia Sorting.Permutation.
From FGV Require Import Base.Util Base.UtilFacts Base.Bond Base.NX Base.NXFacts Model.Aam Model.Rule
                        Spec.AamSpec Spec.AamCheck Spec.RuleSpec Spec.RuleCheck
                        Proofs.AamProofs Proofs.NXCopyFacts16 Proofs.RuleSplit Proofs.RuleIts
                        Proofs.RuleLoop Proofs.RuleMonos.
Import ListNotations.
Open Scope Z_scope.

(** * check "vf2" *)

Lemma mapping_eqb_sound a b : mapping_eqb a b = true -> a = b.
Proof. apply list_eqb_sound. intros x y H. apply pkey_eqb_true. exact H. Qed.

Lemma mapping_eqb_refl a : mapping_eqb a a = true.
Proof.
  unfold mapping_eqb. induction a as [|p t IH]; simpl; [reflexivity|]. rewrite IH, andb_true_r.
  apply pkey_eqb_true. reflexivity.
Qed.

Lemma pair_mem_In p l : pair_mem p l = true <-> In p l.
Proof.
  unfold pair_mem. rewrite existsb_exists. split.
  - intros (q & Hq & He). apply pkey_eqb_true in He. subst. exact Hq.
  - intros H. exists p. split; [exact H|apply pkey_eqb_true; reflexivity].
Qed.

Lemma mapping_mem_In m l : mapping_mem m l = true <-> In m l.
Proof.
  unfold mapping_mem. rewrite existsb_exists. split.
  - intros (q & Hq & He). apply mapping_eqb_sound in He. subst. exact Hq.
  - intros H. exists m. split; [exact H|apply mapping_eqb_refl].
Qed.

Lemma mappings_nodupb_NoDup l : mappings_nodupb l = true -> NoDup l.
Proof.
  induction l as [|m t IH]; simpl; [constructor|]. rewrite andb_true_iff, negb_true_iff.
  intros [H1 H2]. constructor; [|apply IH; exact H2].
  intros Hin. apply mapping_mem_In in Hin. congruence.
Qed.

Lemma NoDup_fst_NoDup {A B} (l : list (A * B)) : NoDup (map fst l) -> NoDup l.
Proof.
  induction l as [|p t IH]; simpl; intros H; [constructor|]. inversion H; subst. constructor; [|auto].
  intros Hin. apply H2. apply in_map. exact Hin.
Qed.

Lemma same_pairsb_perm m c : same_pairsb m c = true -> Permutation m c.
Proof.
  unfold same_pairsb. rewrite !andb_true_iff, !forallb_forall. intros [[[H1 H2] H3] H4].
  apply nodupb_NoDup in H1. apply nodupb_NoDup in H2.
  apply NoDup_Permutation; [apply NoDup_fst_NoDup; exact H1|apply NoDup_fst_NoDup; exact H2|].
  intros p. split; intros Hp; apply pair_mem_In; auto.
Qed.

Theorem vf2_okb_sound L g monos wls :
  NoDup (nodes g) -> vf2_okb L g monos wls = true ->
  monos_valid L g monos /\ List.length wls = List.length monos.
Proof.
  intros Hg. unfold vf2_okb. rewrite !andb_true_iff, !forallb_forall.
  intros [[[[H1 H2] H3] H4] H5]. split; [|apply Nat.eqb_eq in H1; auto].
  exists (map (canon L) monos). split.
  - clear H1 H3 H4 H5. induction monos as [|m t IH]; simpl; [constructor|]. constructor.
    + apply same_pairsb_perm. apply H2. left. reflexivity.
    + apply IH. intros m' Hm'. apply H2. right. exact Hm'.
  - apply NoDup_Permutation; [apply mappings_nodupb_NoDup; exact H3|apply all_monos_NoDup; exact Hg|].
    intros c. split; intros Hc; apply mapping_mem_In; auto.
Qed.

(** * one result against one embedding *)

Lemma attr_rel_nodes g res : Forall2 attr_rel g res -> nodes res = nodes g.
Proof.
  induction 1 as [|e e' t t' Hr Ht IH]; [reflexivity|]. unfold nodes in *. simpl. rewrite IH.
  destruct Hr as (Hk & _). rewrite Hk. reflexivity.
Qed.

Lemma aam_okb_sound g res : aam_okb g res = true -> aam_completed g res.
Proof.
  unfold aam_okb, aam_completed. rewrite !andb_true_iff. intros [[H1 H2] H3]. split; [|split].
  - revert H1. apply forall2b_sound. intros e e' H. rewrite !andb_true_iff in H. destruct H as [[E1 E2] E3].
    split; [apply Z.eqb_eq; exact E1|]. split; [apply same_but_aamb_sound; exact E2|].
    intros k Hk. rewrite Hk in E3. revert E3. apply option_eqb_sound. intros x y; apply Z.eqb_eq.
  - unfold all_mappedb in H2. rewrite forallb_forall in H2. apply Forall_forall. intros e He.
    specialize (H2 e He). destruct (a_aam (fst (snd e))); [eauto|discriminate].
  - intros i k Hn. exact (nth_checks_sound _ _ _ _ H3 i k Hn).
Qed.

Lemma edge_label_non_node g x y : wf g -> (~ In x (nodes g) \/ ~ In y (nodes g)) -> edge_label g x y = None.
Proof.
  intros Hwf H. destruct (edge_label g x y) as [l|] eqn:E; [|reflexivity]. exfalso.
  destruct (wf_edge_nodes g x y l Hwf E) as (Hx & Hy). apply has_node_In in Hx. apply has_node_In in Hy. tauto.
Qed.

Theorem its_matchb_sound g rcg f res :
  wf g -> (forall u, In u (map fst f) -> In u (nodes g)) ->
  its_matchb g rcg f res = true -> wf res /\ result_ok g rcg f res.
Proof.
  intros Hg Hf. unfold its_matchb. rewrite !andb_true_iff. intros [[H1 H2] H3].
  apply wfb_wf in H1. apply aam_okb_sound in H2. split; [exact H1|].
  pose proof (attr_rel_nodes g res (proj1 H2)) as Hn.
  split; [exact Hn|]. split; [exact H2|].
  intros x y. destruct (in_dec Z.eq_dec x (nodes g)) as [Hx|Hx].
  - destruct (in_dec Z.eq_dec y (nodes g)) as [Hy|Hy].
    + rewrite forallb_forall in H3. specialize (H3 x Hx). rewrite forallb_forall in H3. specialize (H3 y Hy).
      revert H3. apply option_eqb_sound. apply label_eqb_sound.
    + rewrite (edge_label_non_node res x y H1) by (rewrite Hn; auto).
      unfold expected_label, rc_between. rewrite (edge_label_non_node g x y Hg) by auto.
      destruct (alookup x f); [|reflexivity].
      destruct (alookup y f) eqn:Ey; [|reflexivity]. exfalso. apply Hy. apply Hf.
      eapply alookup_Some_key. exact Ey.
  - rewrite (edge_label_non_node res x y H1) by (rewrite Hn; auto).
    unfold expected_label, rc_between. rewrite (edge_label_non_node g x y Hg) by auto.
    destruct (alookup x f) eqn:Ex; [|reflexivity]. exfalso. apply Hx. apply Hf.
    eapply alookup_Some_key. exact Ex.
Qed.

(** * matching results with embeddings *)

Lemma remove_first_spec {A} (p : A -> bool) l x l' :
  remove_first p l = Some (x, l') -> p x = true /\ Permutation l (x :: l').
Proof.
  revert x l'. induction l as [|a t IH]; intros x l'; simpl; [discriminate|].
  destruct (p a) eqn:E.
  - intros [= <- <-]. split; [exact E|apply Permutation_refl].
  - destruct (remove_first p t) as [[y t']|]; [|discriminate]. intros [= <- <-].
    destruct (IH y t' eq_refl) as (Hp & Hperm). split; [exact Hp|].
    eapply Permutation_trans; [apply perm_skip; exact Hperm|apply perm_swap].
Qed.

Lemma match_results_sound g rcg results : forall E fs rest,
  match_results g rcg E results = Some (fs, rest) ->
  Permutation (fs ++ rest) E /\ Forall2 (fun f res => its_matchb g rcg f res = true) fs results.
Proof.
  induction results as [|res t IH]; intros E fs rest; simpl.
  - intros [= <- <-]. split; [apply Permutation_refl|constructor].
  - destruct (remove_first (fun f => its_matchb g rcg f res) E) as [[f E']|] eqn:Er; [|discriminate].
    destruct (match_results g rcg E' t) as [[fs' rest']|] eqn:Em; [|discriminate].
    intros [= <- <-]. destruct (remove_first_spec _ _ _ _ Er) as (Hp & Hperm).
    destruct (IH _ _ _ Em) as (I1 & I2). split; [|constructor; assumption].
    simpl. eapply Permutation_trans; [apply perm_skip; exact I1|apply Permutation_sym; exact Hperm].
Qed.

(** * check "spec", unique=False: one result per embedding *)

Section SpecSound.
  Variables (g rcg : graph).
  Hypothesis Hg : wf g.
  Hypothesis Hrc : wf rcg.
  Let L := rl (reaction_rule rcg).

  Definition matches (f : mapping) (res : graph) : Prop :=
    embedding L g f /\ wf res /\ result_ok g rcg f res.

  Lemma L_nodup' : NoDup (nodes L).
  Proof. destruct (rule_left_spec rcg Hrc) as ((H & _) & _). exact H. Qed.

  Lemma matches_of E fs results :
    (forall f, In f E -> embedding L g f) -> (forall f, In f fs -> In f E) ->
    Forall2 (fun f res => its_matchb g rcg f res = true) fs results ->
    Forall2 matches fs results.
  Proof.
    intros HE Hsub H. induction H as [|f res fs' rs' Hm Ht IH]; [constructor|]. constructor.
    - assert (Hemb : embedding L g f) by (apply HE; apply Hsub; left; reflexivity).
      split; [exact Hemb|]. apply its_matchb_sound; [exact Hg| |exact Hm].
      destruct Hemb as (_ & _ & _ & _ & H4 & _). intros u Hu. apply in_map_iff in Hu.
      destruct Hu as ([u' a] & <- & Hin). apply (H4 u' a Hin).
    - apply IH. intros f' Hf'. apply Hsub. right. exact Hf'.
  Qed.

  (* the embeddings the option combination prescribes *)
  Definition prescribed (co : bool) : list mapping :=
    if co then filter (spec_connb g rcg) (all_monos L g) else all_monos L g.

  Lemma prescribed_embedding co f : In f (prescribed co) -> embedding L g f.
  Proof.
    unfold prescribed. destruct co; [rewrite filter_In; intros [H _]|intros H];
      apply (all_monos_exact L g f L_nodup'); exact H.
  Qed.

  (* with unique=False the accepted result list is, up to order, one prescribed ITS per
     embedding: a bijection without a limit; with a limit n an injection of size
     min n (number of embeddings) *)
  Theorem apply_okb_sound_unique_false n co results tbl :
    apply_okb_with g rcg (all_monos L g) (filter (spec_connb g rcg) (all_monos L g)) tbl
                   (mkOpts n false co) (AROk results) = true ->
    exists fs rest,
      Permutation (fs ++ rest) (prescribed co)
      /\ Forall2 matches fs results
      /\ match n with
         | None => rest = []
         | Some k => List.length results = Nat.min (Z.to_nat k) (List.length (prescribed co))
         end.
  Proof.
    unfold apply_okb_with. simpl o_unique. simpl o_conn. simpl o_n. cbv iota.
    fold (prescribed co).
    destruct (match_results g rcg (prescribed co) results) as [[fs rest]|] eqn:Em; [|discriminate].
    intros H. destruct (match_results_sound _ _ _ _ _ _ Em) as (Hperm & Hall).
    exists fs, rest. split; [exact Hperm|]. split.
    - apply (matches_of (prescribed co)); [apply prescribed_embedding| |exact Hall].
      intros f Hf. apply (Permutation_in _ Hperm). apply in_or_app. left. exact Hf.
    - destruct n as [k|].
      + apply Nat.eqb_eq in H. exact H.
      + destruct rest; [reflexivity|discriminate].
  Qed.

  (* in particular: no limit, no filter = exactly one result per embedding *)
  Corollary apply_okb_sound_plain results tbl :
    apply_okb_with g rcg (all_monos L g) (filter (spec_connb g rcg) (all_monos L g)) tbl
                   (mkOpts None false false) (AROk results) = true ->
    exists fs, Permutation fs (all_monos L g) /\ Forall2 matches fs results.
  Proof.
    intros H. destruct (apply_okb_sound_unique_false None false results tbl H) as (fs & rest & H1 & H2 & ->).
    rewrite app_nil_r in H1. exists fs. auto.
  Qed.
End SpecSound.

(** * check "spec", unique=True: one result per digest class *)

Lemma all_some_spec {A} (l : list (option A)) r : all_some l = Some r -> l = map Some r.
Proof.
  revert r. induction l as [|[x|] t IH]; intros r; simpl; [intros [= <-]; reflexivity| |intros H; discriminate H].
  destruct (all_some t) as [r'|]; [|discriminate]. intros [= <-]. simpl. f_equal. apply IH. reflexivity.
Qed.

Lemma strings_nodupb_NoDup l : strings_nodupb l = true -> NoDup l.
Proof.
  induction l as [|s t IH]; simpl; [constructor|]. rewrite andb_true_iff, negb_true_iff.
  intros [H1 H2]. constructor; [|apply IH; exact H2]. intros Hin.
  assert (existsb (String.eqb s) t = true) by (apply existsb_exists; exists s; split; [exact Hin|apply String.eqb_refl]).
  congruence.
Qed.

Section SpecSoundUnique.
  Variables (g rcg : graph).
  Hypothesis Hg : wf g.
  Hypothesis Hrc : wf rcg.
  Let L := rl (reaction_rule rcg).

  (* every result is the prescribed ITS of a prescribed embedding; the digests the table gives
     for these embeddings are pairwise distinct; without a limit every prescribed embedding's
     digest is among them; the number of results is min n (number of digest classes) *)
  Theorem apply_okb_sound_unique_true n co results tbl :
    apply_okb_with g rcg (all_monos L g) (filter (spec_connb g rcg) (all_monos L g)) tbl
                   (mkOpts n true co) (AROk results) = true ->
    exists ds cl,
      Forall2 (fun res d => exists f, In f (prescribed g rcg co) /\ matches g rcg f res
                                      /\ digest_of tbl f = Some d) results ds
      /\ NoDup ds
      /\ map (digest_of tbl) (prescribed g rcg co) = map Some cl
      /\ (n = None -> forall d, In d cl -> In d ds)
      /\ List.length results = limit_len n (List.length (distinct_strings cl [])).
  Proof.
    unfold apply_okb_with. simpl o_unique. simpl o_conn. simpl o_n. cbv iota. cbv zeta.
    change (if co then filter (spec_connb g rcg) (all_monos L g) else all_monos L g) with (prescribed g rcg co).
    destruct (all_some (map _ results)) as [ds|] eqn:Eds; [|discriminate].
    destruct (all_some (map (digest_of tbl) (prescribed g rcg co))) as [cl|] eqn:Ecl; [|discriminate].
    rewrite !andb_true_iff. intros [[H1 H2] H3]. exists ds, cl.
    apply all_some_spec in Eds. apply all_some_spec in Ecl.
    split; [|split; [apply strings_nodupb_NoDup; exact H1|split; [exact Ecl|split]]].
    - clear H1 H2 H3 Ecl. revert ds Eds. induction results as [|res t IH]; intros [|d ds] Eds; simpl in Eds; try discriminate; [constructor|].
      injection Eds as E1 E2. constructor; [|apply IH; exact E2].
      destruct (find (fun f => its_matchb g rcg f res) (prescribed g rcg co)) as [f|] eqn:Ef; [|discriminate].
      apply find_some in Ef. destruct Ef as (Hin & Hm). exists f. split; [exact Hin|]. split; [|exact E1].
      pose proof (prescribed_embedding g rcg Hrc co f Hin) as Hemb.
      split; [exact Hemb|]. apply its_matchb_sound; [exact Hg| |exact Hm].
      destruct Hemb as (_ & _ & _ & _ & H4 & _). intros u Hu. apply in_map_iff in Hu.
      destruct Hu as ([u' a] & <- & Hin'). apply (H4 u' a Hin').
    - intros -> d Hd. rewrite forallb_forall in H2. specialize (H2 d Hd).
      apply existsb_exists in H2. destruct H2 as (d' & Hd' & He). apply String.eqb_eq in He. subst. exact Hd'.
    - apply Nat.eqb_eq in H3. exact H3.
  Qed.
End SpecSoundUnique.
