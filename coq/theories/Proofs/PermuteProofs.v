(** C08: PermutationMapper.permute (Model/Permute.v) returns exactly the admissible assignments
    (Spec/PermuteSpec.v), each once. *)
From Coq Require Import ZArith List Bool String Lia Permutation.
From FGV Require Import Base.Util Base.UtilFacts Base.Sym Model.Permute Spec.PermuteSpec
     Proofs.PermsFacts Proofs.GenFacts.
Import ListNotations.
Open Scope Z_scope.
Open Scope list_scope.

(** * de-duplication *)

Lemma list_eqb_eq {A} (eqb : A -> A -> bool) :
  (forall a b, eqb a b = true <-> a = b) -> forall x y, list_eqb eqb x y = true <-> x = y.
Proof.
  intros Heq. induction x as [|a x IH]; intros [|b y]; simpl; try (split; [discriminate|congruence]).
  - tauto.
  - rewrite andb_true_iff, Heq, IH. split; [intros [-> ->]; reflexivity | intros [= -> ->]; auto].
Qed.

Lemma list_zz_eqb_eq x y : list_zz_eqb x y = true <-> x = y.
Proof.
  unfold list_zz_eqb. apply list_eqb_eq. intros [a1 a2] [b1 b2]. simpl.
  rewrite andb_true_iff, !Z.eqb_eq. split; [intros [-> ->]; reflexivity | intros [= -> ->]; auto].
Qed.

Lemma existsb_zz_In m seen : existsb (list_zz_eqb m) seen = true <-> In m seen.
Proof.
  rewrite existsb_exists. split.
  - intros (x & Hx & He). apply list_zz_eqb_eq in He. subst. exact Hx.
  - intros H. exists m. split; [exact H | apply list_zz_eqb_eq; reflexivity].
Qed.

Lemma dedup_In : forall l seen x, In x (dedup seen l) <-> In x l /\ ~ In x seen.
Proof.
  induction l as [|m t IH]; intros seen x; simpl; [tauto|].
  destruct (existsb (list_zz_eqb m) seen) eqn:E.
  - apply existsb_zz_In in E. rewrite IH. split; [tauto|]. intros [[<-|H] Hn]; tauto.
  - assert (En : ~ In m seen) by (rewrite <- existsb_zz_In, E; discriminate).
    simpl. rewrite IH, in_app_iff. simpl. split.
    + intros [<-|(H & Hn)]; [tauto|]. split; [tauto|]. intros Hs. apply Hn. auto.
    + intros [[<-|H] Hn]; [auto|].
      destruct (list_zz_eqb m x) eqn:Ex; [apply list_zz_eqb_eq in Ex; auto|].
      assert (Hne : m <> x) by (rewrite <- list_zz_eqb_eq, Ex; discriminate).
      right. split; [exact H|]. intros [Hs|[Hs|[]]]; auto.
Qed.

Lemma dedup_NoDup : forall l seen, NoDup (dedup seen l).
Proof.
  induction l as [|m t IH]; intros seen; simpl; [constructor|].
  destruct (existsb (list_zz_eqb m) seen); [apply IH|]. constructor; [|apply IH].
  rewrite dedup_In, in_app_iff. simpl. tauto.
Qed.

(** * lower-casing wrapper *)

Lemma permute_unfold mp p s :
  permute mp p s =
  let ic := m_ignore_case mp in
  let W := option_map (lw ic) (m_wildcard mp) in
  let P := map (lw ic) p in
  let S := map (lw ic) s in
  let CM := map (lw ic) (m_cmtn mp) in
  dedup [] (map (map (fun ps : Z * Z => if zmem (snd ps) (snd (pad W P CM S [])) then (fst ps, -1) else ps))
                (generate_mapping_permutations P (fst (pad W P CM S [])) W)).
Proof.
  unfold permute, lw. cbv zeta. destruct (pad _ _ _ _ _) as [s' adds]. simpl.
  f_equal. apply map_ext. intros m. apply map_ext. intros [pi si]. simpl.
  destruct (zmem si adds); reflexivity.
Qed.

Theorem permute_nil mp s : permute mp [] s = [].
Proof. rewrite permute_unfold. reflexivity. Qed.

(** * the case can_map_to_nothing = [] (no padding, used by the subgraph matcher) *)

Lemma permute_no_cmtn_In mp p s a : m_cmtn mp = [] ->
  (In a (permute mp p s) <->
   gen_spec (map (lw (m_ignore_case mp)) p) (map (lw (m_ignore_case mp)) s)
            (option_map (lw (m_ignore_case mp)) (m_wildcard mp)) a).
Proof.
  intros Hcm. rewrite permute_unfold. cbv zeta. rewrite Hcm. cbn [map pad fst snd].
  rewrite dedup_In. rewrite <- gen_iff.
  replace (map (map (fun ps : Z * Z => if zmem (snd ps) [] then (fst ps, -1) else ps)) _)
    with (generate_mapping_permutations (map (lw (m_ignore_case mp)) p) (map (lw (m_ignore_case mp)) s)
            (option_map (lw (m_ignore_case mp)) (m_wildcard mp))).
  - simpl. tauto.
  - symmetry. etransitivity; [|apply map_id]. apply map_ext. intros m.
    etransitivity; [|apply map_id]. apply map_ext. intros ps. reflexivity.
Qed.

Theorem permute_sound mp p s a : m_cmtn mp = [] ->
  In a (permute mp p s) ->
  gen_spec (map (lw (m_ignore_case mp)) p) (map (lw (m_ignore_case mp)) s)
           (option_map (lw (m_ignore_case mp)) (m_wildcard mp)) a.
Proof. intros H. apply permute_no_cmtn_In. exact H. Qed.

Theorem permute_complete mp p s a : m_cmtn mp = [] ->
  gen_spec (map (lw (m_ignore_case mp)) p) (map (lw (m_ignore_case mp)) s)
           (option_map (lw (m_ignore_case mp)) (m_wildcard mp)) a ->
  In a (permute mp p s).
Proof. intros H. apply permute_no_cmtn_In. exact H. Qed.

Theorem permute_NoDup mp p s : NoDup (permute mp p s).
Proof. rewrite permute_unfold. apply dedup_NoDup. Qed.

(** * counting helpers *)

Definition cnt (c : string) (l : list string) : nat := List.length (filter (String.eqb c) l).

Lemma count_sym_cnt c l : count_sym c l = Z.of_nat (cnt c l).
Proof. reflexivity. Qed.

Lemma cnt_app c l1 l2 : cnt c (l1 ++ l2) = (cnt c l1 + cnt c l2)%nat.
Proof. unfold cnt. rewrite filter_app, app_length. reflexivity. Qed.

Lemma cnt_repeat c d n : cnt c (repeat d n) = if String.eqb c d then n else O.
Proof.
  unfold cnt. induction n as [|n IH]; simpl; [destruct (String.eqb c d); reflexivity|].
  destruct (String.eqb c d); simpl; [f_equal|]; exact IH.
Qed.

Lemma cnt_cons c d l : cnt c (d :: l) = ((if String.eqb c d then 1 else 0) + cnt c l)%nat.
Proof. unfold cnt. simpl. destruct (String.eqb c d); reflexivity. Qed.

Lemma cnt_pos_In c l : (0 < cnt c l)%nat -> In c l.
Proof.
  unfold cnt. induction l as [|d l IH]; simpl; [lia|].
  destruct (String.eqb_spec c d) as [->|Hne]; [auto|]. intros H. right. auto.
Qed.

Lemma cnt_notin c l : ~ In c l -> cnt c l = O.
Proof. intros H. destruct (cnt c l) eqn:E; [reflexivity|]. exfalso. apply H, cnt_pos_In. lia. Qed.

(* the positions of c in T *)
Definition poss (c : string) (T : list string) : list nat :=
  map fst (filter (fun e : nat * string => String.eqb c (snd e)) (combine (seq 0 (List.length T)) T)).

Lemma combine_seq_nat_In {A} (l : list A) : forall k j x,
  In (j, x) (combine (seq k (List.length l)) l) <-> exists i, j = (k + i)%nat /\ nth_error l i = Some x.
Proof.
  induction l as [|y l IH]; intros k j x.
  - simpl. split; [tauto|]. intros ([|i] & _ & H); discriminate.
  - cbn [List.length seq combine In]. rewrite IH. split.
    + intros [H|(i & -> & Hi)].
      * injection H as <- <-. exists O. split; [lia | reflexivity].
      * exists (S i). split; [lia | exact Hi].
    + intros ([|i] & -> & Hi).
      * left. simpl in Hi. injection Hi as ->. f_equal. lia.
      * right. exists i. split; [lia | exact Hi].
Qed.

Lemma combine_seq_fst {A} (l : list A) k : map fst (combine (seq k (List.length l)) l) = seq k (List.length l).
Proof. revert k. induction l as [|y l IH]; intros k; simpl; [reflexivity|]. f_equal. apply IH. Qed.

Lemma NoDup_map_filter {A B} (f : A -> B) (g : A -> bool) l : NoDup (map f l) -> NoDup (map f (filter g l)).
Proof.
  induction l as [|a l IH]; simpl; intros H; [constructor|]. inversion H as [|? ? Hni Hnd]; subst.
  destruct (g a); simpl; [|auto]. constructor; [|auto].
  intros Hin. apply Hni. apply in_map_iff in Hin. destruct Hin as (x & Hx & Hin).
  apply filter_In in Hin. apply in_map_iff. exists x. tauto.
Qed.

Lemma poss_In c T j : In j (poss c T) <-> nth_error T j = Some c.
Proof.
  unfold poss. rewrite in_map_iff. split.
  - intros ([j' x] & Hj & Hin). simpl in Hj. subst j'. apply filter_In in Hin. destruct Hin as (Hin & He).
    simpl in He. apply String.eqb_eq in He. subst x. apply combine_seq_nat_In in Hin.
    destruct Hin as (i & -> & Hi). exact Hi.
  - intros H. exists (j, c). split; [reflexivity|]. apply filter_In. split.
    + apply combine_seq_nat_In. exists j. auto.
    + simpl. apply String.eqb_refl.
Qed.

Lemma poss_NoDup c T : NoDup (poss c T).
Proof. unfold poss. apply NoDup_map_filter. rewrite combine_seq_fst. apply seq_NoDup. Qed.

Lemma poss_length c T : List.length (poss c T) = cnt c T.
Proof.
  unfold poss, cnt. rewrite map_length. generalize O. induction T as [|x T IH]; intros k; simpl; [reflexivity|].
  destruct (String.eqb c x); simpl; [f_equal|]; apply IH.
Qed.

Lemma map_snd_combine {A B} (l : list A) (l' : list B) :
  List.length l = List.length l' -> map snd (combine l l') = l'.
Proof.
  revert l'. induction l as [|a l IH]; intros [|b l'] H; simpl in *; try lia; [reflexivity|].
  f_equal. apply IH. lia.
Qed.

Lemma map_fst_combine {A B} (l : list A) (l' : list B) :
  List.length l = List.length l' -> map fst (combine l l') = l.
Proof.
  revert l'. induction l as [|a l IH]; intros [|b l'] H; simpl in *; try lia; [reflexivity|].
  f_equal. apply IH. lia.
Qed.

Lemma NoDup_snd_functional {A B} (L : list (A * B)) a b t :
  NoDup (map snd L) -> In (a, t) L -> In (b, t) L -> a = b.
Proof.
  induction L as [|[x y] L IH]; simpl; [tauto|]. intros Hnd Ha Hb.
  inversion Hnd as [|? ? Hni Hnd']; subst.
  destruct Ha as [Ha|Ha], Hb as [Hb|Hb].
  - congruence.
  - injection Ha as -> ->. exfalso. apply Hni. apply in_map_iff. exists (b, t). auto.
  - injection Hb as -> ->. exfalso. apply Hni. apply in_map_iff. exists (a, t). auto.
  - auto.
Qed.

(* an injective family of positions of c in T is no larger than the number of c in T *)
Lemma inj_count_le (c : string) (T : list string) (off : nat) (L : list (string * Z)) (g : string * Z -> bool) :
  NoDup (map snd L) ->
  (forall p t, In (p, t) L -> g (p, t) = true ->
      0 <= t /\ (off <= Z.to_nat t)%nat /\ nth_error T (Z.to_nat t - off) = Some c) ->
  (List.length (filter g L) <= cnt c T)%nat.
Proof.
  intros Hnd Hg. rewrite <- poss_length.
  rewrite <- (map_length (fun pt : string * Z => (Z.to_nat (snd pt) - off)%nat)).
  apply NoDup_incl_length.
  - assert (Hnd' : NoDup (map snd (filter g L))) by (apply NoDup_map_filter; exact Hnd).
    assert (Hall : forall pt, In pt (filter g L) -> 0 <= snd pt /\ (off <= Z.to_nat (snd pt))%nat).
    { intros [p t] Hin. apply filter_In in Hin. destruct Hin as (Hin & Hgt).
      destruct (Hg p t Hin Hgt) as (H0 & H1 & _). simpl. auto. }
    revert Hnd' Hall. generalize (filter g L). intros M. induction M as [|[p t] M IH]; simpl; intros HndM HallM; [constructor|].
    inversion HndM as [|? ? Hni HndM']; subst. constructor.
    + intros Hin. apply in_map_iff in Hin. destruct Hin as ([p2 t2] & Heq & Hin2). simpl in Heq.
      destruct (HallM (p, t) (or_introl eq_refl)) as (Ha & Hb). destruct (HallM (p2, t2) (or_intror Hin2)) as (Hc & Hd).
      simpl in *. assert (t2 = t) by lia. subst t2. apply Hni. apply in_map_iff. exists (p2, t). auto.
    + apply IH; [exact HndM'|]. intros pt Hpt. apply HallM. right. exact Hpt.
  - intros j Hj. apply in_map_iff in Hj. destruct Hj as ([p t] & <- & Hin). apply filter_In in Hin.
    destruct Hin as (Hin & Hgt). apply poss_In. simpl. apply (Hg p t Hin Hgt).
Qed.

(* ... and when it is as large, every position of c in T is taken *)
Lemma inj_count_full (c : string) (T : list string) (off : nat) (L : list (string * Z)) (g : string * Z -> bool) :
  NoDup (map snd L) ->
  (forall p t, In (p, t) L -> g (p, t) = true ->
      0 <= t /\ (off <= Z.to_nat t)%nat /\ nth_error T (Z.to_nat t - off) = Some c) ->
  List.length (filter g L) = cnt c T ->
  forall j, nth_error T j = Some c ->
  exists p t, In (p, t) L /\ g (p, t) = true /\ (Z.to_nat t - off)%nat = j.
Proof.
  intros Hnd Hg Hlen j Hj.
  set (M := map (fun pt : string * Z => (Z.to_nat (snd pt) - off)%nat) (filter g L)).
  assert (Hincl : incl M (poss c T)).
  { intros k Hk. unfold M in Hk. apply in_map_iff in Hk. destruct Hk as ([p t] & <- & Hin). apply filter_In in Hin.
    destruct Hin as (Hin & Hgt). apply poss_In. simpl. apply (Hg p t Hin Hgt). }
  assert (HndM : NoDup M).
  { unfold M.
    assert (Hnd' : NoDup (map snd (filter g L))) by (apply NoDup_map_filter; exact Hnd).
    assert (Hall : forall pt, In pt (filter g L) -> 0 <= snd pt /\ (off <= Z.to_nat (snd pt))%nat).
    { intros [p t] Hin. apply filter_In in Hin. destruct Hin as (Hin & Hgt).
      destruct (Hg p t Hin Hgt) as (H0 & H1 & _). simpl. auto. }
    revert Hnd' Hall. generalize (filter g L). intros N. induction N as [|[p t] N IH]; simpl; intros HndN HallN; [constructor|].
    inversion HndN as [|? ? Hni HndN']; subst. constructor.
    + intros Hin. apply in_map_iff in Hin. destruct Hin as ([p2 t2] & Heq & Hin2). simpl in Heq.
      destruct (HallN (p, t) (or_introl eq_refl)) as (Ha & Hb). destruct (HallN (p2, t2) (or_intror Hin2)) as (Hc & Hd).
      simpl in *. assert (t2 = t) by lia. subst t2. apply Hni. apply in_map_iff. exists (p2, t). auto.
    + apply IH; [exact HndN'|]. intros pt Hpt. apply HallN. right. exact Hpt. }
  assert (Hrev : incl (poss c T) M).
  { apply NoDup_length_incl; [exact HndM | | exact Hincl].
    unfold M. rewrite map_length, Hlen, poss_length. lia. }
  assert (HjM : In j M) by (apply Hrev, poss_In; exact Hj).
  unfold M in HjM. apply in_map_iff in HjM. destruct HjM as ([p t] & Heq & Hin). apply filter_In in Hin.
  exists p, t. simpl in Heq. tauto.
Qed.

(** * the padding loop *)

Definition pad_num (W : option string) (P cur : list string) (c : string) : nat :=
  Z.to_nat (if sym_eqb_opt W c
            then Z.of_nat (List.length P) - Z.of_nat (List.length cur)
            else count_sym c P - count_sym c cur).

(* the dummies appended by the loop *)
Fixpoint pad_extra (W : option string) (P cm cur : list string) : list string :=
  match cm with
  | [] => []
  | c :: ct => repeat c (pad_num W P cur c) ++ pad_extra W P ct (cur ++ repeat c (pad_num W P cur c))
  end.

Lemma pad_spec W P : forall cm cur adds,
  fst (pad W P cm cur adds) = cur ++ pad_extra W P cm cur /\
  forall t, In t (snd (pad W P cm cur adds)) <->
            In t adds \/ Z.of_nat (List.length cur) <= t < Z.of_nat (List.length (cur ++ pad_extra W P cm cur)).
Proof.
  induction cm as [|c ct IH]; intros cur adds.
  - simpl. rewrite app_nil_r. split; [reflexivity|]. intros t. split; [auto|]. intros [H|H]; [exact H|lia].
  - cbn [pad pad_extra]. fold (pad_num W P cur c). set (n := pad_num W P cur c).
    destruct (IH (cur ++ repeat c n) (adds ++ map (fun i => Z.of_nat (List.length cur) + Z.of_nat i) (seq 0 n)))
      as (H1 & H2). split.
    + rewrite H1, app_assoc. reflexivity.
    + intros t. rewrite H2. rewrite in_app_iff, in_map_iff. rewrite <- app_assoc.
      rewrite !app_length, repeat_length. split.
      * intros [[H|(i & <- & Hi)]|H]; [auto | right | right].
        -- apply in_seq in Hi. lia.
        -- lia.
      * intros [H|H]; [auto|].
        destruct (Z_lt_le_dec t (Z.of_nat (List.length cur) + Z.of_nat n)) as [Hlt|Hge].
        -- left. right. exists (Z.to_nat (t - Z.of_nat (List.length cur))). split; [lia|]. apply in_seq. lia.
        -- right. lia.
Qed.

Lemma sym_eqb_opt_false W c : sym_eqb_opt W c = false <-> W <> Some c.
Proof. rewrite <- sym_eqb_opt_true. destruct (sym_eqb_opt W c); split; congruence. Qed.

(* dummies for a symbol other than the wildcard: its shortage if listed, none otherwise *)
Lemma extra_count_other W P c : W <> Some c -> forall cm cur,
  cnt c (pad_extra W P cm cur) =
  if in_dec string_dec c cm then Z.to_nat (count_sym c P - count_sym c cur) else O.
Proof.
  intros HW. induction cm as [|c0 ct IH]; intros cur; [reflexivity|].
  cbn [pad_extra]. rewrite cnt_app, cnt_repeat, IH. rewrite !count_sym_cnt, cnt_app, cnt_repeat.
  destruct (String.eqb_spec c c0) as [<-|Hne].
  - unfold pad_num. apply sym_eqb_opt_false in HW. rewrite HW. rewrite !count_sym_cnt.
    destruct (in_dec string_dec c (c :: ct)) as [_|Hn]; [|exfalso; apply Hn; left; reflexivity].
    destruct (in_dec string_dec c ct); lia.
  - destruct (in_dec string_dec c ct) as [Hi|Hi], (in_dec string_dec c (c0 :: ct)) as [Hj|Hj]; simpl in *; try lia; try tauto.
    exfalso. destruct Hj; [congruence|tauto].
Qed.

Lemma sum_shortage_nonneg cs P S : 0 <= sum_shortage cs P S.
Proof. induction cs as [|c cs IH]; simpl; [lia|]. unfold shortage. lia. Qed.

Lemma sum_shortage_ext cs P S S' :
  (forall c, In c cs -> shortage c P S' = shortage c P S) -> sum_shortage cs P S' = sum_shortage cs P S.
Proof.
  induction cs as [|c cs IH]; simpl; intros H; [reflexivity|]. rewrite H by auto. rewrite IH; [reflexivity|].
  intros c' Hc'. apply H. auto.
Qed.

Lemma sum_shortage_change c0 cs P S S' : NoDup cs -> In c0 cs ->
  (forall c, c <> c0 -> shortage c P S' = shortage c P S) -> shortage c0 P S' = 0 ->
  sum_shortage cs P S = shortage c0 P S + sum_shortage cs P S'.
Proof.
  intros Hnd Hin Hoth H0. induction cs as [|c cs IH]; [destruct Hin|].
  inversion Hnd as [|? ? Hni Hnd']; subst. simpl. destruct Hin as [->|Hin].
  - rewrite H0. rewrite (sum_shortage_ext cs P S S'); [lia|]. intros c Hc. apply Hoth. intros ->. tauto.
  - rewrite (IH Hnd' Hin). rewrite Hoth; [lia|]. intros ->. tauto.
Qed.

Lemma before_notin w cm : ~ In w (before w cm).
Proof.
  induction cm as [|c ct IH]; simpl; [tauto|]. destruct (String.eqb_spec c w) as [->|Hne]; simpl; [tauto|].
  intros [H|H]; [congruence|tauto].
Qed.

(* dummies for the wildcard *)
Lemma extra_count_wild W P w : W = Some w -> forall cm cur,
  Z.of_nat (cnt w (pad_extra W P cm cur)) =
  if in_dec string_dec w cm then wild_room w cm P cur else 0.
Proof.
  intros HW. assert (HWt : sym_eqb_opt W w = true) by (apply sym_eqb_opt_true; exact HW).
  induction cm as [|c0 ct IH]; intros cur; [reflexivity|].
  cbn [pad_extra]. rewrite cnt_app, cnt_repeat, Nat2Z.inj_add, IH. unfold wild_room. cbn [before].
  destruct (String.eqb_spec c0 w) as [->|Hne].
  - rewrite String.eqb_refl. unfold pad_num. rewrite HWt.
    destruct (in_dec string_dec w (w :: ct)) as [_|Hn]; [|exfalso; apply Hn; left; reflexivity].
    simpl nodup. simpl sum_shortage. rewrite app_length, repeat_length.
    destruct (in_dec string_dec w ct).
    + pose proof (sum_shortage_nonneg (nodup string_dec (before w ct)) P
                    (cur ++ repeat w (Z.to_nat (Z.of_nat (List.length P) - Z.of_nat (List.length cur))))). lia.
    + lia.
  - destruct (String.eqb_spec w c0) as [->|_]; [congruence|].
    assert (HW0 : sym_eqb_opt W c0 = false).
    { apply sym_eqb_opt_false. rewrite HW. congruence. }
    set (n0 := pad_num W P cur c0).
    assert (Hn0 : Z.of_nat n0 = shortage c0 P cur).
    { unfold n0, pad_num, shortage. rewrite HW0. lia. }
    assert (Hsh0 : shortage c0 P (cur ++ repeat c0 n0) = 0).
    { unfold shortage in *. rewrite !count_sym_cnt in *. rewrite cnt_app, cnt_repeat, String.eqb_refl. lia. }
    assert (Hsho : forall c, c <> c0 -> shortage c P (cur ++ repeat c0 n0) = shortage c P cur).
    { intros c Hc. unfold shortage. rewrite !count_sym_cnt, cnt_app, cnt_repeat.
      destruct (String.eqb_spec c c0); [congruence|]. f_equal. lia. }
    destruct (in_dec string_dec w ct) as [Hi|Hi], (in_dec string_dec w (c0 :: ct)) as [Hj|Hj]; simpl in Hj; try tauto.
    rewrite app_length, repeat_length.
    assert (Hsum : sum_shortage (nodup string_dec (c0 :: before w ct)) P cur
                   = Z.of_nat n0 + sum_shortage (nodup string_dec (before w ct)) P (cur ++ repeat c0 n0)).
    { cbn [nodup]. destruct (in_dec string_dec c0 (before w ct)) as [Hin|Hin].
      - rewrite Hn0. apply sum_shortage_change; [apply NoDup_nodup | apply nodup_In; exact Hin | exact Hsho | exact Hsh0].
      - cbn [sum_shortage fold_right]. fold (sum_shortage (nodup string_dec (before w ct)) P cur). rewrite Hn0. f_equal.
        symmetry. apply sum_shortage_ext. intros c Hc. apply Hsho. intros ->. apply Hin. apply nodup_In in Hc. exact Hc. }
    rewrite Hsum. lia.
Qed.

(** * from injective maps into the padded structure to admissible assignments *)

(* positions of the padded structure beyond the real one collapse to "nothing" *)
Definition col (n : nat) (t : Z) : Z := if t <? Z.of_nat n then t else -1.

Lemma combine_map_r {A B C} (f : B -> C) (l : list A) (l' : list B) :
  combine l (map f l') = map (fun ab => (fst ab, f (snd ab))) (combine l l').
Proof.
  revert l'. induction l as [|a l IH]; intros [|b l']; simpl; try reflexivity. f_equal. apply IH.
Qed.

Lemma filter_map_length {A B} (g : B -> bool) (h : A -> B) l :
  List.length (filter g (map h l)) = List.length (filter (fun x => g (h x)) l).
Proof. induction l as [|a l IH]; simpl; [reflexivity|]. destruct (g (h a)); simpl; congruence. Qed.

Lemma filter_split_length {A} (a b : A -> bool) l :
  (List.length (filter (fun x => a x && b x) l) + List.length (filter (fun x => a x && negb (b x)) l)
   = List.length (filter a l))%nat.
Proof.
  induction l as [|x l IH]; simpl; [reflexivity|].
  destruct (a x), (b x); simpl; lia.
Qed.

Lemma Forall2_combine_In {A B} (R : A -> B -> Prop) l l' a b :
  Forall2 R l l' -> In (a, b) (combine l l') -> R a b.
Proof.
  induction 1 as [|x y l l' Hxy H IH]; simpl; [tauto|]. intros [Heq|Hin]; [congruence | auto].
Qed.

Lemma nothing_count_map_col c P n ts' :
  nothing_count c P (map (col n) ts')
  = Z.of_nat (List.length (filter (fun pt : string * Z => String.eqb c (fst pt) && (col n (snd pt) =? -1)) (combine P ts'))).
Proof. unfold nothing_count. rewrite combine_map_r, filter_map_length. reflexivity. Qed.

Lemma filter_col n ts : Forall (fun t => 0 <= t) ts ->
  filter (fun t => negb (t =? -1)) (map (col n) ts) = filter (fun t => t <? Z.of_nat n) ts.
Proof.
  induction 1 as [|t r Ht Hr IH]; [reflexivity|]. cbn [map filter].
  destruct (Z.ltb_spec t (Z.of_nat n)) as [Hlt|Hge].
  - assert (Hc : col n t = t) by (unfold col; destruct (Z.ltb_spec t (Z.of_nat n)); [reflexivity|lia]).
    rewrite Hc. destruct (Z.eqb_spec t (-1)); [lia|]. simpl. f_equal. exact IH.
  - assert (Hc : col n t = -1) by (unfold col; destruct (Z.ltb_spec t (Z.of_nat n)); [lia|reflexivity]).
    rewrite Hc. simpl. exact IH.
Qed.

Section CoreSound.
  Variable W : option string.
  Variables P S ex : list string.
  Variable ts' : list Z.
  Hypothesis Hcap : forall c, W <> Some c -> Z.of_nat (cnt c ex) <= shortage c P S.
  Hypothesis Hnd : NoDup ts'.
  Hypothesis HF : Forall2 (gen_target_ok W (S ++ ex)) P ts'.

  Let n := List.length S.
  Let L := combine P ts'.
  Let gN (c : string) := fun pt : string * Z => String.eqb c (fst pt) && (col n (snd pt) =? -1).
  Let gR (c : string) := fun pt : string * Z => String.eqb c (fst pt) && negb (col n (snd pt) =? -1).

  Lemma cs_len : List.length P = List.length ts'.
  Proof. exact (Forall2_length _ _ _ HF). Qed.

  Lemma cs_ndL : NoDup (map snd L).
  Proof. unfold L. rewrite map_snd_combine; [exact Hnd | exact cs_len]. Qed.

  Lemma cs_L p t : In (p, t) L -> gen_target_ok W (S ++ ex) p t.
  Proof. apply Forall2_combine_In. exact HF. Qed.

  Lemma cs_gN c : W <> Some c -> forall p t, In (p, t) L -> gN c (p, t) = true ->
    0 <= t /\ (n <= Z.to_nat t)%nat /\ nth_error ex (Z.to_nat t - n) = Some c.
  Proof.
    intros HW p t Hin Hg. unfold gN in Hg. simpl in Hg. apply andb_true_iff in Hg. destruct Hg as (Hp & Hc).
    apply String.eqb_eq in Hp. subst p. destruct (cs_L _ _ Hin) as ((H0 & H1) & Hs).
    unfold col in Hc. destruct (Z.ltb_spec t (Z.of_nat n)) as [Hlt|Hge]; [apply Z.eqb_eq in Hc; lia|].
    split; [exact H0|]. split; [lia|]. destruct Hs as [Hs|Hs]; [congruence|].
    rewrite nth_error_app2 in Hs by (fold n; lia). exact Hs.
  Qed.

  Lemma cs_gR c : W <> Some c -> forall p t, In (p, t) L -> gR c (p, t) = true ->
    0 <= t /\ (0 <= Z.to_nat t)%nat /\ nth_error S (Z.to_nat t - 0) = Some c.
  Proof.
    intros HW p t Hin Hg. unfold gR in Hg. simpl in Hg. apply andb_true_iff in Hg. destruct Hg as (Hp & Hc).
    apply String.eqb_eq in Hp. subst p. destruct (cs_L _ _ Hin) as ((H0 & H1) & Hs).
    unfold col in Hc. destruct (Z.ltb_spec t (Z.of_nat n)) as [Hlt|Hge]; [|discriminate].
    split; [exact H0|]. split; [lia|]. destruct Hs as [Hs|Hs]; [congruence|].
    rewrite nth_error_app1 in Hs by (fold n; lia). rewrite Nat.sub_0_r. exact Hs.
  Qed.

  Lemma cs_count_other c : W <> Some c -> List.length (filter (gN c) L) = cnt c ex.
  Proof.
    intros HW.
    pose proof (inj_count_le c ex n L (gN c) cs_ndL (cs_gN c HW)) as Hup.
    pose proof (inj_count_le c S 0 L (gR c) cs_ndL (cs_gR c HW)) as Hlow.
    assert (Hsplit : (List.length (filter (gN c) L) + List.length (filter (gR c) L)
                      = List.length (filter (fun pt : string * Z => String.eqb c (fst pt)) L))%nat).
    { exact (filter_split_length (fun pt : string * Z => String.eqb c (fst pt))
               (fun pt => col n (snd pt) =? -1) L). }
    assert (HP : List.length (filter (fun pt : string * Z => String.eqb c (fst pt)) L) = cnt c P).
    { transitivity (List.length (filter (String.eqb c) (map fst L))).
      - rewrite filter_map_length. reflexivity.
      - unfold L. rewrite map_fst_combine by exact cs_len. reflexivity. }
    specialize (Hcap c HW). unfold shortage in Hcap. rewrite !count_sym_cnt in Hcap. lia.
  Qed.

  Lemma cs_gN_wild w : W = Some w -> forall p t, In (p, t) L -> gN w (p, t) = true ->
    0 <= t /\ (n <= Z.to_nat t)%nat /\ nth_error ex (Z.to_nat t - n) = Some w.
  Proof.
    intros HW p t Hin Hg. pose proof Hg as Hg0.
    unfold gN in Hg. simpl in Hg. apply andb_true_iff in Hg. destruct Hg as (Hp & Hc).
    apply String.eqb_eq in Hp. subst p. destruct (cs_L _ _ Hin) as ((H0 & H1) & _).
    unfold col in Hc. destruct (Z.ltb_spec t (Z.of_nat n)) as [Hlt|Hge]; [apply Z.eqb_eq in Hc; lia|].
    split; [exact H0|]. split; [lia|].
    rewrite app_length in H1. fold n in H1.
    destruct (nth_error ex (Z.to_nat t - n)) as [d|] eqn:Ed.
    2:{ apply nth_error_None in Ed. lia. }
    destruct (string_dec d w) as [->|Hdw]; [reflexivity|exfalso].
    assert (HWd : W <> Some d) by (rewrite HW; congruence).
    destruct (inj_count_full d ex n L (gN d) cs_ndL (cs_gN d HWd) (cs_count_other d HWd) _ Ed)
      as (p2 & t2 & Hin2 & Hg2 & Hj).
    destruct (cs_gN d HWd _ _ Hin2 Hg2) as (Ha & Hb & _).
    assert (t2 = t) by lia. subst t2.
    pose proof (NoDup_snd_functional L _ _ _ cs_ndL Hin Hin2) as Heq. subst p2.
    unfold gN in Hg2. simpl in Hg2. apply andb_true_iff in Hg2. destruct Hg2 as (Hp2 & _).
    apply String.eqb_eq in Hp2. congruence.
  Qed.

  Lemma core_sound :
    Forall2 (target_ok W S) P (map (col n) ts') /\
    NoDup (filter (fun t => negb (t =? -1)) (map (col n) ts')) /\
    (forall c, W <> Some c -> nothing_count c P (map (col n) ts') = Z.of_nat (cnt c ex)) /\
    (forall w, W = Some w -> nothing_count w P (map (col n) ts') <= Z.of_nat (cnt w ex)).
  Proof.
    split; [|split; [|split]].
    - apply (proj1 (Forall2_map_r (target_ok W S) (col n) P ts')). revert HF. apply Forall2_impl_In.
      intros p t _ _ ((H0 & H1) & Hs). unfold target_ok, col.
      destruct (Z.ltb_spec t (Z.of_nat n)) as [Hlt|Hge]; [right|left; reflexivity].
      split; [fold n; lia|]. destruct Hs as [Hs|Hs]; [left; exact Hs|right].
      rewrite nth_error_app1 in Hs by (fold n; lia). exact Hs.
    - assert (Hpos : Forall (fun t => 0 <= t) ts').
      { apply Forall_forall. intros t Ht. destruct (Forall2_In_r _ _ _ _ HF Ht) as (p & _ & ((H0 & _) & _)). exact H0. }
      pose proof (filter_col n ts' Hpos) as Heq.
      rewrite Heq. apply NoDup_filter. exact Hnd.
    - intros c HW. rewrite nothing_count_map_col. f_equal. apply (cs_count_other c HW).
    - intros w HW. rewrite nothing_count_map_col. apply inj_le.
      apply (inj_count_le w ex n L (gN w) cs_ndL (cs_gN_wild w HW)).
  Qed.
End CoreSound.

(** * from admissible assignments back to injective maps into the padded structure *)

(* distinct dummy slots for a list of requested symbols, when there are enough of each *)
Lemma assign_slots : forall (req ex : list string),
  (forall c, (cnt c req <= cnt c ex)%nat) ->
  exists js : list nat, NoDup js /\ Forall2 (fun c j => nth_error ex j = Some c) req js.
Proof.
  induction req as [|c req IH]; intros ex Hcnt.
  - exists []. split; constructor.
  - assert (Hin : In c ex).
    { apply cnt_pos_In. specialize (Hcnt c). rewrite cnt_cons, String.eqb_refl in Hcnt. lia. }
    apply in_split in Hin. destruct Hin as (e1 & e2 & ->).
    destruct (IH (e1 ++ e2)) as (js & Hnd & HF).
    { intros d. specialize (Hcnt d). rewrite cnt_cons in Hcnt. rewrite cnt_app in *. rewrite cnt_cons in Hcnt.
      destruct (String.eqb d c); lia. }
    set (k := List.length e1).
    set (lift := fun j : nat => if (j <? k)%nat then j else Datatypes.S j).
    exists (k :: map lift js). split.
    + constructor.
      * intros Hk. apply in_map_iff in Hk. destruct Hk as (j & Hj & _). unfold lift in Hj.
        destruct (Nat.ltb_spec j k); lia.
      * apply FinFun.Injective_map_NoDup; [|exact Hnd]. intros x y Hxy. unfold lift in Hxy.
        destruct (Nat.ltb_spec x k), (Nat.ltb_spec y k); lia.
    + constructor.
      * rewrite nth_error_app2 by (unfold k; lia). unfold k. rewrite Nat.sub_diag. reflexivity.
      * apply (proj1 (Forall2_map_r (fun c0 j => nth_error (e1 ++ c :: e2) j = Some c0) lift req js)).
        revert HF. apply Forall2_impl_In. intros d j _ _ Hj. unfold lift.
        destruct (Nat.ltb_spec j k) as [Hlt|Hge].
        -- rewrite nth_error_app1 in * by (fold k; lia). exact Hj.
        -- rewrite nth_error_app2 in * by (fold k; lia). fold k in Hj |- *.
           replace (Datatypes.S j - k)%nat with (Datatypes.S (j - k)) by lia. exact Hj.
Qed.

(* replace the successive "nothing" targets by the dummy positions n + j *)
Fixpoint fill (n : nat) (ts : list Z) (js : list nat) : list Z :=
  match ts with
  | [] => []
  | t :: r =>
      if t =? -1
      then match js with
           | j :: js' => Z.of_nat (n + j) :: fill n r js'
           | [] => t :: fill n r []
           end
      else t :: fill n r js
  end.

(* the symbols of the pattern positions mapped to nothing, in order *)
Definition req_syms (P : list string) (ts : list Z) : list string :=
  map fst (filter (fun pt : string * Z => snd pt =? -1) (combine P ts)).

Lemma req_syms_cons p P t ts :
  req_syms (p :: P) (t :: ts) = if t =? -1 then p :: req_syms P ts else req_syms P ts.
Proof. unfold req_syms. simpl. destruct (t =? -1); reflexivity. Qed.

Lemma cnt_req_syms c P ts : Z.of_nat (cnt c (req_syms P ts)) = nothing_count c P ts.
Proof.
  unfold cnt, req_syms, nothing_count. f_equal. rewrite filter_map_length.
  induction (combine P ts) as [|pt l IH]; simpl; [reflexivity|].
  destruct (snd pt =? -1); simpl; destruct (String.eqb c (fst pt)); simpl; congruence.
Qed.

Lemma fill_spec W S ex : forall P ts, Forall2 (target_ok W S) P ts ->
  forall js, Forall2 (fun c j => nth_error ex j = Some c) (req_syms P ts) js ->
  NoDup (filter (fun t => negb (t =? -1)) ts) -> NoDup js ->
  Forall2 (gen_target_ok W (S ++ ex)) P (fill (List.length S) ts js) /\
  map (col (List.length S)) (fill (List.length S) ts js) = ts /\
  (forall x, In x (fill (List.length S) ts js) ->
     (In x ts /\ 0 <= x < Z.of_nat (List.length S)) \/ (exists j, In j js /\ x = Z.of_nat (List.length S + j))) /\
  NoDup (fill (List.length S) ts js).
Proof.
  set (n := List.length S).
  induction 1 as [|p t P ts Hpt HF IH]; intros js Hjs Hnd1 Hnd2.
  - simpl. split; [constructor|]. split; [reflexivity|]. split; [intros x []|constructor].
  - rewrite req_syms_cons in Hjs. cbn [fill]. cbn [filter] in Hnd1.
    destruct (Z.eqb_spec t (-1)) as [->|Hne].
    + inversion Hjs as [|? j ? js' Hj Hjs']; subst. inversion Hnd2 as [|? ? Hnij Hndj]; subst.
      simpl in Hnd1. destruct (IH js' Hjs' Hnd1 Hndj) as (I1 & I2 & I3 & I4).
      assert (Hjlt : (j < List.length ex)%nat) by (apply nth_error_Some; congruence).
      split; [|split; [|split]].
      * constructor; [|exact I1]. unfold gen_target_ok. rewrite app_length. fold n. split; [lia|]. right.
        rewrite Nat2Z.id. rewrite nth_error_app2 by (fold n; lia). fold n.
        replace (n + j - n)%nat with j by lia. exact Hj.
      * cbn [map]. rewrite I2. f_equal. unfold col. destruct (Z.ltb_spec (Z.of_nat (n + j)) (Z.of_nat n)); [lia|reflexivity].
      * intros x [<-|Hx]; [right; exists j; simpl; auto|].
        destruct (I3 x Hx) as [(Hin & Hr)|(j' & Hj' & ->)]; [left; simpl; auto | right; exists j'; simpl; auto].
      * constructor; [|exact I4]. intros Hx. destruct (I3 _ Hx) as [(_ & Hr)|(j' & Hj' & Heq)]; [lia|].
        assert (j' = j) by lia. subst j'. exact (Hnij Hj').
    + destruct (Z.eqb_spec t (-1)) as [|_]; [contradiction|]. simpl in Hnd1.
      inversion Hnd1 as [|? ? Hnit Hndt]; subst.
      destruct (IH js Hjs Hndt Hnd2) as (I1 & I2 & I3 & I4).
      destruct Hpt as [Hpt|((H0 & H1) & Hs)]; [contradiction|]. fold n in H1.
      split; [|split; [|split]].
      * constructor; [|exact I1]. unfold gen_target_ok. rewrite app_length. fold n. split; [lia|].
        destruct Hs as [Hs|Hs]; [left; exact Hs|right]. rewrite nth_error_app1 by (fold n; lia). exact Hs.
      * cbn [map]. rewrite I2. f_equal. unfold col. destruct (Z.ltb_spec t (Z.of_nat n)); [reflexivity|lia].
      * intros x [<-|Hx]; [left; simpl; split; [auto|lia]|].
        destruct (I3 x Hx) as [(Hin & Hr)|(j' & Hj' & ->)]; [left; simpl; auto | right; exists j'; auto].
      * constructor; [|exact I4]. intros Hx. destruct (I3 _ Hx) as [(Hin & Hr)|(j' & Hj' & Heq)]; [|lia].
        apply Hnit. apply filter_In. split; [exact Hin|]. destruct (Z.eqb_spec t (-1)); [contradiction|reflexivity].
Qed.

Lemma core_complete W P S ex ts :
  Forall2 (target_ok W S) P ts ->
  NoDup (filter (fun t => negb (t =? -1)) ts) ->
  (forall c, nothing_count c P ts <= Z.of_nat (cnt c ex)) ->
  exists ts', NoDup ts' /\ Forall2 (gen_target_ok W (S ++ ex)) P ts' /\ map (col (List.length S)) ts' = ts.
Proof.
  intros HF Hnd Hcnt.
  destruct (assign_slots (req_syms P ts) ex) as (js & Hndj & Hjs).
  { intros c. specialize (Hcnt c). rewrite <- cnt_req_syms in Hcnt. lia. }
  destruct (fill_spec W S ex P ts HF js Hjs Hnd Hndj) as (I1 & I2 & _ & I4).
  exists (fill (List.length S) ts js). auto.
Qed.

(** * the main theorem *)

Lemma rewrite_enumerate adds ts :
  map (fun ps : Z * Z => if zmem (snd ps) adds then (fst ps, -1) else ps) (enumerate ts)
  = enumerate (map (fun t => if zmem t adds then -1 else t) ts).
Proof.
  unfold enumerate. rewrite map_length, combine_map_r. apply map_ext. intros [i t]. simpl.
  destruct (zmem t adds); reflexivity.
Qed.

Section Main.
  Variable mp : mapper.
  Variables p s : list string.
  Let ic := m_ignore_case mp.
  Let W := option_map (lw ic) (m_wildcard mp).
  Let CM := map (lw ic) (m_cmtn mp).
  Let P := map (lw ic) p.
  Let S := map (lw ic) s.
  Let ex := pad_extra W P CM S.
  Let adds := snd (pad W P CM S []).

  Lemma main_pad_fst : fst (pad W P CM S []) = S ++ ex.
  Proof. apply pad_spec. Qed.

  Lemma main_adds_In t : In t adds <-> Z.of_nat (List.length S) <= t < Z.of_nat (List.length (S ++ ex)).
  Proof. unfold adds. rewrite (proj2 (pad_spec W P CM S [])). simpl. tauto. Qed.

  Lemma main_col ts' : Forall2 (gen_target_ok W (S ++ ex)) P ts' ->
    map (fun t => if zmem t adds then -1 else t) ts' = map (col (List.length S)) ts'.
  Proof.
    intros HF. apply map_ext_in. intros t Ht.
    destruct (Forall2_In_r _ _ _ _ HF Ht) as (q & _ & ((H0 & H1) & _)).
    unfold col. destruct (Z.ltb_spec t (Z.of_nat (List.length S))) as [Hlt|Hge].
    - destruct (zmem t adds) eqn:E; [|reflexivity]. apply zmem_In, main_adds_In in E. lia.
    - destruct (zmem t adds) eqn:E; [reflexivity|]. apply zmem_false in E. exfalso. apply E, main_adds_In. lia.
  Qed.

  Lemma main_cap_other c : W <> Some c ->
    Z.of_nat (cnt c ex) = if in_dec string_dec c CM then shortage c P S else 0.
  Proof.
    intros HW. unfold ex. rewrite (extra_count_other W P c HW CM S). unfold shortage.
    destruct (in_dec string_dec c CM); lia.
  Qed.

  Lemma main_cap_wild w : W = Some w ->
    Z.of_nat (cnt w ex) = if in_dec string_dec w CM then wild_room w CM P S else 0.
  Proof. intros HW. unfold ex. apply (extra_count_wild W P w HW). Qed.

  Lemma main_Pne : p <> [] <-> P <> [].
  Proof. unfold P. destruct p; simpl; split; congruence. Qed.

  Theorem permute_In a : In a (permute mp p s) <-> permute_spec mp p s a.
  Proof.
    rewrite permute_unfold. cbv zeta. fold ic. fold W. fold P. fold S. fold CM. fold adds.
    rewrite main_pad_fst. rewrite dedup_In, in_map_iff. unfold permute_spec. fold ic. fold W. fold P. fold S. fold CM.
    split.
    - intros ((m & <- & Hm) & _). apply gen_sound in Hm. destruct Hm as (Hne & ts' & -> & Hnd & HF).
      split; [apply main_Pne; exact Hne|]. exists (map (col (List.length S)) ts'). split.
      + rewrite rewrite_enumerate. f_equal. apply main_col. exact HF.
      + assert (Hcap : forall c, W <> Some c -> Z.of_nat (cnt c ex) <= shortage c P S).
        { intros c HW. rewrite (main_cap_other c HW). destruct (in_dec string_dec c CM); [lia|]. unfold shortage. lia. }
        destruct (core_sound W P S ex ts' Hcap Hnd HF) as (C1 & C2 & C3 & C4). constructor.
        * exact C1.
        * exact C2.
        * intros c HW. rewrite (C3 c HW). apply main_cap_other. exact HW.
        * intros w HW. rewrite <- (main_cap_wild w HW). apply C4. exact HW.
    - intros (Hne & ts & -> & [A1 A2 A3 A4]).
      destruct (core_complete W P S ex ts A1 A2) as (ts' & Hnd & HF & Hcol).
      { intros c. destruct (sym_eqb_opt W c) eqn:E.
        - apply sym_eqb_opt_true in E. rewrite (main_cap_wild c E). apply A4. exact E.
        - apply sym_eqb_opt_false in E. rewrite (main_cap_other c E). rewrite (A3 c E). lia. }
      split; [|intros []]. exists (enumerate ts'). split.
      + rewrite rewrite_enumerate. f_equal. rewrite main_col by exact HF. exact Hcol.
      + apply gen_complete. split; [apply main_Pne; exact Hne|]. exists ts'. auto.
  Qed.
End Main.

Theorem C08_sound_proof mp p s a : In a (permute mp p s) -> permute_spec mp p s a.
Proof. apply permute_In. Qed.

Theorem C08_complete_proof mp p s a : permute_spec mp p s a -> In a (permute mp p s).
Proof. apply permute_In. Qed.
