(** C16 proofs, part 1: characterisation of split_its / ReactionRule on well-formed graphs. *)
From Coq Require Import ZArith List Bool String Lia.
From FGV Require Import Base.Util Base.UtilFacts Base.Bond Base.NX Base.NXFacts Model.Rule
                        Spec.RuleSpec Proofs.NXCopyFacts16.
Import ListNotations.
Open Scope Z_scope.

(* one side of split_step *)
Definition pair_fst (lb : label) : option Z := match lb with Pair a _ | LPair a _ => Some a | Scalar _ => None end.
Definition pair_snd (lb : label) : option Z := match lb with Pair _ b | LPair _ b => Some b | Scalar _ => None end.

Definition side_step (p : label -> option Z) (g : graph) (e : Z * Z * label) : graph :=
  match p (snd e) with
  | Some a => set_rc_edge g (fst (fst e)) (snd (fst e)) a
  | None => g
  end.

Lemma split_fold_fst es : forall g h,
  fst (fold_left split_step es (g, h)) = fold_left (side_step pair_fst) es g.
Proof.
  induction es as [|[[u v] lb] t IH]; intros g h; [reflexivity|].
  simpl fold_left. destruct lb; simpl; rewrite IH; reflexivity.
Qed.

Lemma split_fold_snd es : forall g h,
  snd (fold_left split_step es (g, h)) = fold_left (side_step pair_snd) es h.
Proof.
  induction es as [|[[u v] lb] t IH]; intros g h; [reflexivity|].
  simpl fold_left. destruct lb; simpl; rewrite IH; reflexivity.
Qed.

(* the label a side keeps for an edge *)
Definition tgt (p : label -> option Z) (lb : label) : option label :=
  match p lb with
  | Some a => if a =? 0 then None else Some (Scalar a)
  | None => Some lb
  end.

Definition tgt_edge (p : label -> option Z) (x : graph) (a b : Z) : option label :=
  match edge_label x a b with Some lb => tgt p lb | None => None end.

Definition side_inv (p : label -> option Z) (x : graph) (P : list (Z * Z * label)) (g : graph) : Prop :=
  wf g /\ nodes g = nodes x /\ (forall m, node_attr g m = node_attr x m)
  /\ (forall a b, edge_label g a b = if pair_in P a b then tgt_edge p x a b else edge_label x a b).

Lemma pair_in_app P es a b : pair_in (P ++ es) a b = pair_in P a b || pair_in es a b.
Proof. unfold pair_in. apply existsb_app. Qed.

Lemma pair_in_single u v lb a b : pair_in [(u, v, lb)] a b = same_pair a b u v.
Proof. unfold pair_in. simpl. apply orb_false_r. Qed.

Lemma same_pair_label x a b u v lb :
  wf x -> same_pair a b u v = true -> edge_label x u v = Some lb -> edge_label x a b = Some lb.
Proof.
  intros Hwf Hp H. apply same_pair_true in Hp. destruct Hp as [[-> ->]|[-> ->]]; [exact H|].
  rewrite (wf_sym x v u Hwf). exact H.
Qed.

Lemma side_fold p x : wf x -> forall es P g,
  (forall u v lb, In (u, v, lb) es -> edge_label x u v = Some lb) ->
  side_inv p x P g -> side_inv p x (P ++ es) (fold_left (side_step p) es g).
Proof.
  intros Hwfx. induction es as [|[[u v] lb] t IH]; intros P g Hes Hinv.
  - rewrite app_nil_r. exact Hinv.
  - simpl fold_left.
    replace (P ++ (u, v, lb) :: t) with ((P ++ [(u, v, lb)]) ++ t) by (rewrite <- app_assoc; reflexivity).
    apply IH; [intros u' v' lb' H'; apply Hes; right; exact H'|].
    pose proof (Hes u v lb (or_introl eq_refl)) as Huv.
    destruct Hinv as (Hwf & Hn & Ha & He).
    unfold side_step. simpl fst. simpl snd.
    destruct (p lb) as [a|] eqn:Ep.
    + unfold set_rc_edge. destruct (Z.eqb_spec a 0) as [->|Ha0].
      * split; [apply wf_remove_edge; exact Hwf|]. split; [rewrite nodes_remove_edge; exact Hn|].
        split; [intros m; rewrite node_attr_remove_edge; apply Ha|].
        intros c d. rewrite edge_label_remove_edge, pair_in_app, pair_in_single, He.
        destruct (same_pair c d u v) eqn:Hp.
        -- rewrite orb_true_r. unfold tgt_edge. rewrite (same_pair_label x c d u v lb Hwfx Hp Huv).
           unfold tgt. rewrite Ep. reflexivity.
        -- rewrite orb_false_r. reflexivity.
      * assert (Hhas : has_edge g u v = true).
        { unfold has_edge. rewrite He. destruct (pair_in P u v).
          - unfold tgt_edge. rewrite Huv. unfold tgt. rewrite Ep.
            destruct (Z.eqb_spec a 0); [contradiction|reflexivity].
          - rewrite Huv. reflexivity. }
        split; [apply wf_set_edge_label; exact Hwf|]. split; [rewrite nodes_set_edge_label; exact Hn|].
        split; [intros m; rewrite node_attr_set_edge_label; apply Ha|].
        intros c d. rewrite edge_label_set_edge_label by exact Hwf. rewrite Hhas, pair_in_app, pair_in_single, He.
        simpl andb. destruct (same_pair c d u v) eqn:Hp.
        -- rewrite orb_true_r. unfold tgt_edge. rewrite (same_pair_label x c d u v lb Hwfx Hp Huv).
           unfold tgt. rewrite Ep. destruct (Z.eqb_spec a 0); [contradiction|reflexivity].
        -- rewrite orb_false_r. reflexivity.
    + split; [exact Hwf|]. split; [exact Hn|]. split; [exact Ha|].
      intros c d. rewrite pair_in_app, pair_in_single, He.
      destruct (same_pair c d u v) eqn:Hp.
      * rewrite orb_true_r. unfold tgt_edge. rewrite (same_pair_label x c d u v lb Hwfx Hp Huv).
        unfold tgt. rewrite Ep. destruct (pair_in P c d); reflexivity.
      * rewrite orb_false_r. reflexivity.
Qed.

Lemma side_of_copy p x : wf x ->
  let g := fold_left (side_step p) (edges x) (copy x) in
  wf g /\ nodes g = nodes x /\ (forall m, node_attr g m = node_attr x m)
  /\ (forall a b, edge_label g a b = tgt_edge p x a b).
Proof.
  intros Hwf g.
  assert (H0 : side_inv p x [] (copy x)).
  { split; [apply wf_copy; exact Hwf|]. split; [apply nodes_copy; exact Hwf|].
    split; [intros m; apply node_attr_copy; exact Hwf|]. intros a b. simpl. apply edge_label_copy. exact Hwf. }
  pose proof (side_fold p x Hwf (edges x) [] (copy x) (fun u v lb H => in_edges_label x u v lb Hwf H) H0) as (I1 & I2 & I3 & I4).
  split; [exact I1|]. split; [exact I2|]. split; [exact I3|].
  intros a b. fold g in I4. rewrite I4. simpl app. rewrite pair_in_edges by exact Hwf.
  unfold has_edge, tgt_edge. destruct (edge_label x a b); reflexivity.
Qed.

(** * the two sides of a rule *)

Lemma rl_reaction_rule x : rl (reaction_rule x) = fold_left (side_step pair_fst) (edges x) (copy x).
Proof.
  unfold reaction_rule. rewrite <- split_fold_fst with (h := copy x). unfold split_its.
  destruct (fold_left split_step (edges x) (copy x, copy x)); reflexivity.
Qed.

Lemma rr_reaction_rule x : rr (reaction_rule x) = fold_left (side_step pair_snd) (edges x) (copy x).
Proof.
  unfold reaction_rule. rewrite <- split_fold_snd with (g := copy x). unfold split_its.
  destruct (fold_left split_step (edges x) (copy x, copy x)); reflexivity.
Qed.

Lemma rc_reaction_rule x : rc (reaction_rule x) = x.
Proof. unfold reaction_rule. destruct (split_its x). reflexivity. Qed.

Lemma tgt_fst lb : tgt pair_fst lb = option_map Scalar (lab_left lb).
Proof. destruct lb; unfold tgt, lab_left, lab_right, side_of; simpl; try reflexivity; destruct (_ =? 0); reflexivity. Qed.

Lemma tgt_snd lb : tgt pair_snd lb = option_map Scalar (lab_right lb).
Proof. destruct lb; unfold tgt, lab_left, lab_right, side_of; simpl; try reflexivity; destruct (_ =? 0); reflexivity. Qed.

(* label of a side: the reactant-side / product-side bond of the reaction-centre label *)
Definition left_of (x : graph) (a b : Z) : option Z :=
  match edge_label x a b with Some lb => lab_left lb | None => None end.
Definition right_of (x : graph) (a b : Z) : option Z :=
  match edge_label x a b with Some lb => lab_right lb | None => None end.

Theorem rule_left_spec x : wf x ->
  wf (rl (reaction_rule x)) /\ nodes (rl (reaction_rule x)) = nodes x
  /\ (forall m, node_attr (rl (reaction_rule x)) m = node_attr x m)
  /\ (forall a b, edge_label (rl (reaction_rule x)) a b = option_map Scalar (left_of x a b)).
Proof.
  intros Hwf. rewrite rl_reaction_rule. destruct (side_of_copy pair_fst x Hwf) as (H1 & H2 & H3 & H4).
  split; [exact H1|]. split; [exact H2|]. split; [exact H3|].
  intros a b. rewrite H4. unfold tgt_edge, left_of. destruct (edge_label x a b); [apply tgt_fst|reflexivity].
Qed.

Theorem rule_right_spec x : wf x ->
  wf (rr (reaction_rule x)) /\ nodes (rr (reaction_rule x)) = nodes x
  /\ (forall m, node_attr (rr (reaction_rule x)) m = node_attr x m)
  /\ (forall a b, edge_label (rr (reaction_rule x)) a b = option_map Scalar (right_of x a b)).
Proof.
  intros Hwf. rewrite rr_reaction_rule. destruct (side_of_copy pair_snd x Hwf) as (H1 & H2 & H3 & H4).
  split; [exact H1|]. split; [exact H2|]. split; [exact H3|].
  intros a b. rewrite H4. unfold tgt_edge, right_of. destruct (edge_label x a b); [apply tgt_snd|reflexivity].
Qed.

(* split_its itself, for the reactant / product side of a result *)
Theorem split_its_spec x : wf x ->
  let g := fst (split_its x) in let h := snd (split_its x) in
  (wf g /\ nodes g = nodes x /\ (forall m, node_attr g m = node_attr x m)
   /\ (forall a b, edge_label g a b = option_map Scalar (left_of x a b)))
  /\ (wf h /\ nodes h = nodes x /\ (forall m, node_attr h m = node_attr x m)
      /\ (forall a b, edge_label h a b = option_map Scalar (right_of x a b))).
Proof.
  intros Hwf. pose proof (rule_left_spec x Hwf) as HL. pose proof (rule_right_spec x Hwf) as HR.
  unfold reaction_rule in HL, HR. destruct (split_its x) as [g h]. simpl in *. split; assumption.
Qed.
