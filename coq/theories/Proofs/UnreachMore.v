(** Further consequences of the C11 specification of get_unreachable_nodes:
    the result shrinks when the radius or the start set grows, and the specification admits exactly
    one result list (so an implementation output accepted by the checker is the model's output). *)
From Coq Require Import ZArith List Bool String Sorted Lia.
From FGV Require Import Base.Util Base.Bond Base.NX Base.NXFacts Model.Matrix Model.Prune
  Spec.WalkDef Spec.PruneSpec Spec.PruneCheck Proofs.Walk Proofs.UnreachProofs Proofs.PruneCheckProofs.
Import ListNotations.
Open Scope Z_scope.

Lemma greach_mono g r s v : greach g r s v -> greach g (S r) s v.
Proof. intros H. apply greach_S. left. exact H. Qed.

Lemma greach_le g r r' s v : (r <= r')%nat -> greach g r s v -> greach g r' s v.
Proof. induction 1 as [|m Hle IH]; intros H; [exact H | apply greach_mono, IH, H]. Qed.

(* a larger radius reports fewer nodes *)
Theorem unreachable_antitone_radius g S r r' L L' :
  wf g -> (r <= r')%nat ->
  get_unreachable_nodes g S r = Ok L -> get_unreachable_nodes g S r' = Ok L' -> incl L' L.
Proof.
  intros Hwf Hle H H'. apply (unreachable_spec_holds g S r L Hwf) in H.
  apply (unreachable_spec_holds g S r' L' Hwf) in H'.
  destruct H as (Hin & _). destruct H' as (Hin' & _).
  intros v Hv. apply Hin' in Hv. destruct Hv as (Hn & Hno). apply Hin. split; [exact Hn|].
  intros s Hs Hr. apply (Hno s Hs). eapply greach_le; eassumption.
Qed.

(* more start nodes report fewer nodes *)
Theorem unreachable_antitone_start g S S' r L L' :
  wf g -> incl S S' ->
  get_unreachable_nodes g S r = Ok L -> get_unreachable_nodes g S' r = Ok L' -> incl L' L.
Proof.
  intros Hwf Hsub H H'. apply (unreachable_spec_holds g S r L Hwf) in H.
  apply (unreachable_spec_holds g S' r L' Hwf) in H'.
  destruct H as (Hin & _). destruct H' as (Hin' & _).
  intros v Hv. apply Hin' in Hv. destruct Hv as (Hn & Hno). apply Hin. split; [exact Hn|].
  intros s Hs. apply Hno. apply Hsub. exact Hs.
Qed.

(* two strictly increasing lists with the same elements are equal *)
Lemma sorted_lt_ext : forall l1 l2 : list Z,
  StronglySorted Z.lt l1 -> StronglySorted Z.lt l2 -> (forall x, In x l1 <-> In x l2) -> l1 = l2.
Proof.
  induction l1 as [|a t IH]; intros l2 S1 S2 Hext.
  - destruct l2 as [|b u]; [reflexivity|]. exfalso. apply (proj2 (Hext b)). left. reflexivity.
  - destruct l2 as [|b u]; [exfalso; apply (proj1 (Hext a)); left; reflexivity|].
    inversion S1 as [|x l St Ha]; subst. inversion S2 as [|y m Su Hb]; subst.
    rewrite Forall_forall in Ha, Hb.
    assert (a = b) as ->.
    { destruct (proj1 (Hext a) (or_introl eq_refl)) as [E|Hau]; [symmetry; exact E|].
      destruct (proj2 (Hext b) (or_introl eq_refl)) as [E|Hbt]; [exact E|].
      pose proof (Ha b Hbt). pose proof (Hb a Hau). lia. }
    f_equal. apply IH; [exact St | exact Su |].
    intros x. split; intros Hx.
    + destruct (proj1 (Hext x) (or_intror Hx)) as [E|Hu]; [|exact Hu].
      subst x. pose proof (Ha b Hx). lia.
    + destruct (proj2 (Hext x) (or_intror Hx)) as [E|Ht]; [|exact Ht].
      subst x. pose proof (Hb b Hx). lia.
Qed.

Theorem unreachable_spec_unique g S r L1 L2 :
  unreachable_spec g S r L1 -> unreachable_spec g S r L2 -> L1 = L2.
Proof.
  intros (H1 & S1) (H2 & S2). apply sorted_lt_ext; [exact S1 | exact S2 |].
  intros x. rewrite H1, H2. tauto.
Qed.

(* an output list accepted by the checker IS the model's output *)
Theorem unreachable_okb_exact g S r L :
  wf g -> unreachable_okb g S r (Ok L) = true ->
  forall L', get_unreachable_nodes g S r = Ok L' -> L' = L.
Proof.
  intros Hwf Hok L' H. pose proof (unreachable_okb_sound g S r (Ok L) Hwf Hok) as Hs. cbn in Hs.
  apply (unreachable_spec_holds g S r L' Hwf) in H. eapply unreachable_spec_unique; eassumption.
Qed.
