(** The tree of the default configuration, computed once by the kernel from the generated
    list (Gen/FGDefault.v) and proved equal to what the model builds.  Case files use
    [default_query_fast] so that the 1.3 s tree construction is not repeated per case. *)
From Coq Require Import ZArith List Bool String.
From FGV Require Import Base.Util Base.Bond Base.NX Model.Permute Model.Match Model.FGTree Model.FGDefaultCfg
                        Model.Query Gen.FGDefault.
Import ListNotations.

Definition default_tree_val : tree (A := fgconfig) :=
  Eval vm_compute in
    (match build_config_tree_from_list default_mapper default_configs with
     | Good t => t
     | Bad _ => empty_tree
     end).

Lemma default_tree_ok :
  build_config_tree_from_list default_mapper default_configs = Good default_tree_val.
Proof. vm_compute. reflexivity. Qed.

Definition default_query_fast (req_h : bool) (g : graph) : res groups :=
  get_functional_groups_with default_mapper default_tree_val req_h g.

Lemma default_query_fast_ok req_h g :
  query default_mapper default_configs req_h g = default_query_fast req_h g.
Proof.
  unfold query, get, get_tree, fresh_query. cbn [q_tree q_mapper q_configs q_req_h].
  rewrite default_tree_ok. reflexivity.
Qed.
