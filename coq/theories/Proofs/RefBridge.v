(** The Boolean reference relation of the checkers, read at the level of [Embedding], under the
    exactness of [is_embedding] (premises IsEmbSound / IsEmbComplete: the matcher team's
    EmbeddingFacts.is_embedding_sound / is_embedding_complete, with [covers] written out). *)
From Coq Require Import ZArith List Bool String Lia.
From FGV Require Import Base.Util Base.UtilFacts Base.Bond Base.NX Base.NXFacts Base.Sym Model.FGTree
                        Spec.Embedding Spec.EmbSearch Spec.FGSpec
                        Proofs.EmbSearchProofs Proofs.EmbeddingOrder Proofs.KeyStrict.
Import ListNotations.
Open Scope Z_scope.

Definition IsEmbSound : Prop :=
  forall w ic G a P pa m, is_embedding w ic G a P pa m = true ->
  (NoDup (map snd m) /\ NoDup (map fst m) /\ forall p, In p (map snd m) <-> In p (nodes P))
  /\ Embedding w ic G a P pa (pair_fun m).

Definition IsEmbComplete : Prop :=
  forall w ic G a P pa m, (forall n, NoDup (neighbors P n)) ->
  NoDup (map snd m) -> (forall p, In p (map snd m) <-> In p (nodes P)) ->
  Embedding w ic G a P pa (pair_fun m) -> is_embedding w ic G a P pa m = true.

Section Bridge.
  Hypothesis is_emb_sound : IsEmbSound.
  Hypothesis is_emb_complete : IsEmbComplete.
  Variable w : option string.
  Variable ic : bool.

  (* the pair list of an embedding given as a function *)
  Definition pairs_of_fun (P : graph) (f : Z -> option Z) : list (Z * Z) :=
    map (fun p => (img f p, p)) (nodes P).

  Lemma pairs_of_fun_spec P f p : NoDup (nodes P) ->
    pair_fun (pairs_of_fun P f) p = if zmem p (nodes P) then Some (img f p) else None.
  Proof.
    intros Hnd. unfold pairs_of_fun.
    destruct (zmem p (nodes P)) eqn:E.
    - apply zmem_In in E. apply pfun_NoDup.
      + rewrite map_map. simpl. rewrite map_id. exact Hnd.
      + apply in_map_iff. exists p. auto.
    - destruct (pair_fun (map (fun p0 => (img f p0, p0)) (nodes P)) p) as [h|] eqn:Ep; auto.
      apply pfun_In in Ep. apply in_map_iff in Ep. destruct Ep as [q [Eq Hq]]. inversion Eq; subst.
      apply zmem_In in Hq. congruence.
  Qed.

  Lemma embedding_to_pairs G P a pa f :
    wf P -> Embedding w ic G a P pa f ->
    is_embedding w ic G a P pa (pairs_of_fun P f) = true.
  Proof.
    intros [Hnd [Had _]] Hemb.
    assert (Hsnd : map snd (pairs_of_fun P f) = nodes P).
    { unfold pairs_of_fun. rewrite map_map. simpl. apply map_id. }
    assert (Hval : forall p n, pair_fun (pairs_of_fun P f) p = Some n -> In p (nodes P) /\ f p = Some n).
    { intros p n H. rewrite (pairs_of_fun_spec P f p Hnd) in H. destruct (zmem p (nodes P)) eqn:E; [|discriminate].
      apply zmem_In in E. inversion H; subst. split; auto.
      destruct (emb_total _ _ _ _ _ _ _ Hemb p E) as [n Hn]. unfold img. rewrite Hn. reflexivity. }
    apply is_emb_complete.
    - intros n. unfold neighbors. apply Had.
    - rewrite Hsnd. exact Hnd.
    - intros p. rewrite Hsnd. tauto.
    - constructor.
      + destruct (emb_anchor _ _ _ _ _ _ _ Hemb) as [Hpa Hfa]. split; auto.
        rewrite (pairs_of_fun_spec P f pa Hnd). rewrite (proj2 (zmem_In pa (nodes P)) Hpa).
        unfold img. rewrite Hfa. reflexivity.
      + intros p Hp. rewrite (pairs_of_fun_spec P f p Hnd). rewrite (proj2 (zmem_In p (nodes P)) Hp). eauto.
      + intros p q n Hp Hq H1 H2. apply Hval in H1. apply Hval in H2.
        eapply (emb_inj _ _ _ _ _ _ _ Hemb); [exact Hp|exact Hq|apply H1|apply H2].
      + intros p n Hp H. apply Hval in H. eapply (emb_adm _ _ _ _ _ _ _ Hemb); [exact Hp|apply H].
      + intros p q l n n' El H1 H2. apply Hval in H1. apply Hval in H2.
        eapply (emb_edges _ _ _ _ _ _ _ Hemb); [exact El|apply H1|apply H2].
  Qed.

  (* the checker's "P embeds into G" *)
  Theorem embedsb_exact P G : wf P -> (embedsb w ic P G = true <-> Embeds w ic P G).
  Proof.
    intros HwP. unfold embedsb. rewrite (embeds_anyb_exact w ic G P (proj1 HwP)). split.
    - intros [a [pa [m Hm]]]. destruct (is_emb_sound _ _ _ _ _ _ _ Hm) as [_ He]. exists a, pa, (pair_fun m). exact He.
    - intros [a [pa [f Hf]]]. exists a, pa, (pairs_of_fun P f). apply embedding_to_pairs; auto.
  Qed.

  (* the reference "is_subgroup" of the checker: a's pattern embeds into b's and no anti-pattern of
     a does *)
  Theorem ref_sub_exact (a b : fgconfig) :
    wf (fg_pattern a) -> (forall ap, In ap (fg_anti a) -> wf ap) ->
    (ref_sub w ic a b = true <->
     Embeds w ic (fg_pattern a) (fg_pattern b) /\
     forall ap, In ap (fg_anti a) -> ~ Embeds w ic ap (fg_pattern b)).
  Proof.
    intros Hwa Hwanti. unfold ref_sub.
    pose proof (embedsb_exact (fg_pattern a) (fg_pattern b) Hwa) as H1.
    destruct (embedsb w ic (fg_pattern a) (fg_pattern b)).
    - rewrite negb_true_iff. split.
      + intros H. split; [apply H1; reflexivity|]. intros ap Hap He.
        assert (Hany : anyb (fun ap0 => embedsb w ic ap0 (fg_pattern b)) (fg_anti a) = true).
        { apply anyb_exists. exists ap. split; auto. apply (embedsb_exact ap (fg_pattern b) (Hwanti ap Hap)). exact He. }
        congruence.
      + intros [_ Hall]. destruct (anyb (fun ap0 => embedsb w ic ap0 (fg_pattern b)) (fg_anti a)) eqn:E; auto.
        apply anyb_exists in E. destruct E as [ap [Hap He]]. exfalso. apply (Hall ap Hap).
        apply (embedsb_exact ap (fg_pattern b) (Hwanti ap Hap)). exact He.
    - split; [discriminate|]. intros [He _]. apply H1 in He. discriminate.
  Qed.
End Bridge.
