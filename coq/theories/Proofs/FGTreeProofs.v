(** The tree built by Model.FGTree.build_tree is the Hasse diagram of the sub-group relation
    (abstract part of C07).  Everything is stated on POSITIONS in the sorted list: node i of
    the table is the i-th element of the sorted list, [R i j] says "element i is a
    sub-group parent of element j". *)
From Coq Require Import List Bool Arith Lia Permutation Sorted Relations.
From FGV Require Import Model.FGTree Proofs.SortFacts.
Import ListNotations.

(** * list helpers *)
Lemma nth_error_update_nth {B} (f : B -> B) l i j :
  nth_error (update_nth i f l) j = if j =? i then option_map f (nth_error l j) else nth_error l j.
Proof.
  revert i j. induction l as [|x t IH]; intros i j; simpl.
  - destruct i, j; simpl; try reflexivity; destruct (j =? i); reflexivity.
  - destruct i as [|i], j as [|j]; simpl; auto.
Qed.

Lemma length_update_nth {B} (f : B -> B) l i : length (update_nth i f l) = length l.
Proof. revert i. induction l as [|x t IH]; intros [|i]; simpl; auto. Qed.

Lemma list_ext_nth_error {B} (l l' : list B) : (forall i, nth_error l i = nth_error l' i) -> l = l'.
Proof.
  revert l'. induction l as [|x t IH]; intros [|y t'] H; auto.
  - specialize (H 0). discriminate.
  - specialize (H 0). discriminate.
  - f_equal.
    + specialize (H 0). simpl in H. congruence.
    + apply IH. intros i. apply (H (S i)).
Qed.

Lemma rev_seq_S k : rev (seq 0 (S k)) = k :: rev (seq 0 k).
Proof. rewrite seq_S, rev_app_distr. reflexivity. Qed.

Lemma In_rev_seq k x : In x (rev (seq 0 k)) <-> x < k.
Proof. rewrite <- in_rev, in_seq. lia. Qed.

Lemma rev_seq_sorted k : StronglySorted (fun a b => b < a) (rev (seq 0 k)).
Proof.
  induction k as [|k IH].
  - constructor.
  - rewrite rev_seq_S. constructor; auto.
    rewrite Forall_forall. intros x Hx. apply In_rev_seq in Hx. exact Hx.
Qed.

Lemma StronglySorted_filter {B} (P : B -> B -> Prop) f l :
  StronglySorted P l -> StronglySorted P (filter f l).
Proof.
  induction 1 as [|x t Hst IH Hall]; simpl; [constructor|].
  destruct (f x); auto. constructor; auto.
  rewrite Forall_forall in *. intros y Hy. apply filter_In in Hy. apply Hall. tauto.
Qed.

(** * sets as duplicate-free lists *)
Lemma nat_mem_In x l : nat_mem x l = true <-> In x l.
Proof.
  unfold nat_mem. rewrite existsb_exists. split.
  - intros [y [Hy E]]. apply Nat.eqb_eq in E. subst. exact Hy.
  - intros H. exists x. split; auto. apply Nat.eqb_refl.
Qed.

Lemma set_add_In x s y : In y (set_add x s) <-> y = x \/ In y s.
Proof.
  unfold set_add. destruct (nat_mem x s) eqn:E.
  - apply nat_mem_In in E. split; [tauto|]. intros [->|H]; auto.
  - rewrite in_app_iff. simpl. split; [intros [H|[H|[]]]; auto|intros [H|H]; auto].
Qed.

Lemma set_add_NoDup x s : NoDup s -> NoDup (set_add x s).
Proof.
  intros H. unfold set_add. destruct (nat_mem x s) eqn:E; auto.
  assert (~ In x s) by (rewrite <- nat_mem_In; congruence).
  apply NoDup_rev in H. rewrite <- (rev_involutive (s ++ [x])). apply NoDup_rev.
  rewrite rev_app_distr. simpl. constructor; auto. rewrite <- in_rev. assumption.
Qed.

Lemma set_update_In xs s y : In y (set_update s xs) <-> In y s \/ In y xs.
Proof.
  unfold set_update. revert s. induction xs as [|x t IH]; intros s; simpl; [tauto|].
  rewrite IH, set_add_In. intuition congruence.
Qed.

Lemma set_update_NoDup xs s : NoDup s -> NoDup (set_update s xs).
Proof.
  unfold set_update. revert s. induction xs as [|x t IH]; intros s H; simpl; auto.
  apply IH. apply set_add_NoDup. exact H.
Qed.

Section Hasse.
  Context {A : Type}.
  Variable sub : A -> A -> res bool.
  Variable kltb : A -> A -> bool.
  Variable s : list A.                  (* the items in insertion (= sort) order *)
  Variable R : nat -> nat -> bool.      (* the sub-group relation on positions *)

  Hypothesis sub_R : forall i j a b, nth_error s i = Some a -> nth_error s j = Some b -> sub a b = Good (R i j).
  Hypothesis R_lt : forall i j, R i j = true -> i < j.
  Hypothesis R_trans : forall i j m, R i j = true -> R j m = true -> R i m = true.
  Hypothesis k_idx : forall i j a b, nth_error s i = Some a -> nth_error s j = Some b -> kltb a b = (i <? j).

  Local Notation tnodeA := (tnode (A := A)).
  Local Notation treeA := (tree (A := A)).

  (** ** covering pairs *)
  Definition covers (i j : nat) : Prop :=
    R i j = true /\ forall m, R i m = true -> R m j = true -> False.

  Definition coversb (i j : nat) : bool :=
    R i j && negb (existsb (fun m => R i m && R m j) (seq 0 j)).

  Lemma coversb_spec i j : coversb i j = true <-> covers i j.
  Proof.
    unfold coversb, covers. rewrite andb_true_iff, negb_true_iff. split.
    - intros [H1 H2]. split; auto. intros m Him Hmj.
      assert (E : existsb (fun m => R i m && R m j) (seq 0 j) = true).
      { apply existsb_exists. exists m. split.
        - apply in_seq. apply R_lt in Hmj. lia.
        - rewrite Him, Hmj. reflexivity. }
      congruence.
    - intros [H1 H2]. split; auto.
      destruct (existsb _ _) eqn:E; auto.
      apply existsb_exists in E. destruct E as [m [_ Hm]]. apply andb_true_iff in Hm.
      exfalso. eapply H2; apply Hm.
  Qed.

  Definition minimalb (j : nat) : bool := negb (existsb (fun i => R i j) (seq 0 j)).

  Lemma minimalb_spec j : minimalb j = true <-> forall i, R i j = false.
  Proof.
    unfold minimalb. rewrite negb_true_iff. split.
    - intros H i. destruct (R i j) eqn:E; auto.
      assert (existsb (fun i => R i j) (seq 0 j) = true).
      { apply existsb_exists. exists i. split; auto. apply in_seq. apply R_lt in E. lia. }
      congruence.
    - intros H. destruct (existsb _ _) eqn:E; auto.
      apply existsb_exists in E. destruct E as [i [_ Hi]]. rewrite H in Hi. discriminate.
  Qed.

  (* a maximal element below b and above-or-equal a *)
  Lemma cover_up : forall d a b, b - a <= d -> R a b = true ->
    exists m, (m = a \/ R a m = true) /\ covers m b.
  Proof.
    induction d as [|d IH]; intros a b Hd Hab.
    - apply R_lt in Hab. lia.
    - destruct (coversb a b) eqn:E.
      + exists a. split; auto. apply coversb_spec. exact E.
      + unfold coversb in E. rewrite Hab in E. simpl in E. apply negb_false_iff in E.
        apply existsb_exists in E. destruct E as [z [_ Hz]]. apply andb_true_iff in Hz. destruct Hz as [Haz Hzb].
        destruct (IH z b) as [m [Hm Hc]]; auto.
        { apply R_lt in Haz. apply R_lt in Hzb. lia. }
        exists m. split; auto. right. destruct Hm as [->|Hm]; auto. eapply R_trans; eauto.
  Qed.

  (* a minimal element above a and below-or-equal b *)
  Lemma cover_down : forall d a b, b - a <= d -> R a b = true ->
    exists c, covers a c /\ (c = b \/ R c b = true).
  Proof.
    induction d as [|d IH]; intros a b Hd Hab.
    - apply R_lt in Hab. lia.
    - destruct (coversb a b) eqn:E.
      + exists b. split; auto. apply coversb_spec. exact E.
      + unfold coversb in E. rewrite Hab in E. simpl in E. apply negb_false_iff in E.
        apply existsb_exists in E. destruct E as [z [_ Hz]]. apply andb_true_iff in Hz. destruct Hz as [Haz Hzb].
        destruct (IH a z) as [c [Hc Hcz]]; auto.
        { apply R_lt in Haz. apply R_lt in Hzb. lia. }
        exists c. split; auto. right. destruct Hcz as [->|Hcz]; auto. eapply R_trans; eauto.
  Qed.

  (* the relation is the transitive closure of its covering pairs *)
  Lemma R_chain : forall d a b, b - a <= d -> R a b = true -> clos_trans nat covers a b.
  Proof.
    induction d as [|d IH]; intros a b Hd Hab.
    - apply R_lt in Hab. lia.
    - destruct (cover_up (b - a) a b (le_n _) Hab) as [m [[->|Ham] Hmb]].
      + apply t_step. exact Hmb.
      + apply t_trans with m; [|apply t_step; exact Hmb].
        apply IH; auto. destruct Hmb as [Hmb _]. apply R_lt in Hmb. apply R_lt in Ham. lia.
  Qed.

  Lemma chain_R a b : clos_trans nat covers a b -> R a b = true.
  Proof.
    induction 1 as [a b [H _]|a b c _ IH1 _ IH2]; auto. eapply R_trans; eauto.
  Qed.

  (** ** what search_parents computes: the covers of the new element k *)
  Section Search.
    Variable k : nat.

    (* p is a maximal element below k that lies above-or-equal r *)
    Definition M (r p : nat) : Prop := covers p k /\ (p = r \/ R r p = true).

    (* the union over the children of r that are below k *)
    Definition U (r p : nat) : Prop := exists c, covers r c /\ R c k = true /\ M c p.

    Lemma M_leaf r : R r k = true -> (forall p, ~ U r p) -> forall p, M r p <-> p = r.
    Proof.
      intros Hrk HU.
      assert (Hc : covers r k).
      { split; auto. intros z Hrz Hzk.
        destruct (cover_down (z - r) r z) as [c [Hc Hcz]]; auto.
        assert (Hck : R c k = true) by (destruct Hcz as [->|Hcz]; auto; eapply R_trans; eauto).
        destruct (cover_up (k - c) c k) as [m [Hm Hmk]]; auto.
        apply (HU m). exists c. split; [exact Hc|]. split; [exact Hck|]. split; [exact Hmk|exact Hm]. }
      intros p. split.
      - intros [Hpk [->|Hrp]]; auto. exfalso. destruct Hc as [_ Hc]. apply (Hc p); auto. apply Hpk.
      - intros ->. split; auto.
    Qed.

    Lemma M_inner r : R r k = true -> (exists p, U r p) -> forall p, M r p <-> U r p.
    Proof.
      intros Hrk [p0 [c0 [Hc0 [Hc0k _]]]] p.
      assert (Hnc : ~ covers r k).
      { intros [_ H]. apply (H c0); auto. apply Hc0. }
      split.
      - intros [Hpk [->|Hrp]]; [contradiction|].
        destruct (cover_down (p - r) r p) as [c [Hc Hcp]]; auto.
        exists c. split; auto. split.
        + destruct Hcp as [->|Hcp]; [apply Hpk|]. apply (R_trans c p k); [exact Hcp|apply Hpk].
        + split; auto. destruct Hcp as [->|Hcp]; auto.
      - intros [c [Hc [Hck [Hpk Hcp]]]]. split; auto. right.
        destruct Hcp as [->|Hcp]; [apply Hc|]. apply (R_trans r c p); [apply Hc|exact Hcp].
    Qed.
  End Search.

  (** ** the invariant: after k insertions the table is the Hasse diagram of the first k items *)
  Definition ch (k i : nat) : list nat := filter (coversb i) (rev (seq 0 k)).
  Definition rootlist (k : nat) : list nat := filter minimalb (seq 0 k).

  Definition cfgs_ok (ns : list tnodeA) : Prop :=
    forall i nd, nth_error ns i = Some nd -> nth_error s i = Some (n_cfg nd).

  Definition nodes_ok (k : nat) (ns : list tnodeA) : Prop :=
    length ns = k /\ cfgs_ok ns /\
    forall i nd, nth_error ns i = Some nd -> n_children nd = ch k i.

  Definition Inv (k : nat) (st : treeA) : Prop := nodes_ok k (t_nodes st) /\ t_roots st = rootlist k.

  Lemma In_ch k i c : In c (ch k i) <-> c < k /\ covers i c.
  Proof. unfold ch. rewrite filter_In, In_rev_seq, coversb_spec. tauto. Qed.

  Lemma ch_S k i : ch (S k) i = if coversb i k then k :: ch k i else ch k i.
  Proof. unfold ch. rewrite rev_seq_S. simpl. reflexivity. Qed.

  Lemma ch_above k i : k <= i -> ch k i = [].
  Proof.
    intros Hki. unfold ch.
    destruct (filter (coversb i) (rev (seq 0 k))) as [|c t] eqn:E; auto.
    assert (Hc : In c (filter (coversb i) (rev (seq 0 k)))) by (rewrite E; left; reflexivity).
    apply filter_In in Hc. destruct Hc as [Hc1 Hc2]. apply In_rev_seq in Hc1.
    apply coversb_spec in Hc2. destruct Hc2 as [Hc2 _]. apply R_lt in Hc2. lia.
  Qed.

  Lemma rootlist_S k : rootlist (S k) = rootlist k ++ (if minimalb k then [k] else []).
  Proof. unfold rootlist. rewrite seq_S, filter_app. simpl. destruct (minimalb k); reflexivity. Qed.

  Lemma In_rootlist k r : In r (rootlist k) <-> r < k /\ minimalb r = true.
  Proof. unfold rootlist. rewrite filter_In, in_seq. intuition lia. Qed.

  Lemma root_below : forall d j, j <= d -> exists r, minimalb r = true /\ (r = j \/ R r j = true).
  Proof.
    induction d as [|d IH]; intros j Hj.
    - exists j. split; auto. apply minimalb_spec. intros i. destruct (R i j) eqn:E; auto. apply R_lt in E. lia.
    - destruct (minimalb j) eqn:E.
      + exists j. auto.
      + unfold minimalb in E. apply negb_false_iff in E. apply existsb_exists in E.
        destruct E as [i [_ Hi]].
        destruct (IH i) as [r [Hr Hri]]. { apply R_lt in Hi. lia. }
        exists r. split; auto. right. destruct Hri as [->|Hri]; auto. eapply R_trans; eauto.
  Qed.

  (** ** search_parents *)
  Section SearchSpec.
    Variable k : nat.
    Variable ns : list tnodeA.
    Variable child : A.
    Hypothesis Hns : nodes_ok k ns.
    Hypothesis Hchild : nth_error s k = Some child.

    Lemma sp_loop_spec below : forall l acc,
      NoDup acc ->
      (forall r, In r l -> r < k) ->
      (forall r nd, In r l -> nth_error ns r = Some nd ->
         exists qs, below nd = Good qs /\ NoDup qs /\ forall p, In p qs <-> U k r p) ->
      exists ps, sp_loop sub ns below child l acc = Good ps /\ NoDup ps /\
                 forall p, In p ps <-> In p acc \/ exists r, In r l /\ R r k = true /\ M k r p.
    Proof.
      destruct Hns as [Hlen [Hcfg Hch]].
      induction l as [|r t IH]; intros acc Hnd Hlt Hbelow; simpl.
      - exists acc. split; auto. split; auto. intros p. split; auto. intros [H|[r [[] _]]]. exact H.
      - assert (Hr : r < k) by (apply Hlt; left; reflexivity).
        destruct (nth_error ns r) as [nd|] eqn:End.
        2:{ apply nth_error_None in End. lia. }
        rewrite (sub_R r k (n_cfg nd) child (Hcfg _ _ End) Hchild). simpl.
        assert (Hlt' : forall r', In r' t -> r' < k) by (intros r' H'; apply Hlt; right; exact H').
        assert (Hbelow' : forall r' nd', In r' t -> nth_error ns r' = Some nd' ->
                   exists qs, below nd' = Good qs /\ NoDup qs /\ forall p, In p qs <-> U k r' p)
          by (intros r' nd' H'; apply Hbelow; right; exact H').
        destruct (R r k) eqn:Erk.
        + destruct (Hbelow r nd (or_introl eq_refl) End) as [qs [Eqs [Hqnd Hqs]]].
          rewrite Eqs. simpl.
          set (acc' := match qs with [] => set_add r acc | _ :: _ => set_update acc qs end).
          assert (Hacc' : NoDup acc' /\ forall p, In p acc' <-> In p acc \/ M k r p).
          { subst acc'. destruct qs as [|q qt].
            - split; [apply set_add_NoDup; exact Hnd|]. intros p. rewrite set_add_In.
              rewrite (M_leaf k r Erk); [tauto|]. intros p' Hp'. apply Hqs in Hp'. exact Hp'.
            - split; [apply set_update_NoDup; exact Hnd|]. intros p. rewrite set_update_In.
              rewrite (M_inner k r Erk); [rewrite Hqs; tauto|]. exists q. apply Hqs. left. reflexivity. }
          destruct Hacc' as [Hnd' Hin'].
          destruct (IH acc' Hnd' Hlt' Hbelow') as [ps [Eps [Hpnd Hps]]].
          exists ps. split; [exact Eps|]. split; [exact Hpnd|].
          intros p. rewrite Hps, Hin'. split.
          * intros [[H|H]|[r' [H1 H2]]]; auto.
            -- right. exists r. split; [left; reflexivity|]. split; auto.
            -- right. exists r'. split; [right; exact H1|exact H2].
          * intros [H|[r' [[<-|H1] [H2 H3]]]]; auto.
            right. exists r'. auto.
        + destruct (IH acc Hnd Hlt' Hbelow') as [ps [Eps [Hpnd Hps]]].
          exists ps. split; [exact Eps|]. split; [exact Hpnd|].
          intros p. rewrite Hps. split.
          * intros [H|[r' [H1 H2]]]; auto. right. exists r'. split; [right; exact H1|exact H2].
          * intros [H|[r' [[<-|H1] [H2 H3]]]]; auto; [congruence|]. right. exists r'. auto.
    Qed.

    Lemma search_spec : forall fuel N lo,
      (forall r, In r N -> lo <= r < k) -> k - lo < fuel ->
      exists ps, search_parents sub fuel ns N child = Good ps /\ NoDup ps /\
                 forall p, In p ps <-> exists r, In r N /\ R r k = true /\ M k r p.
    Proof.
      induction fuel as [|f IH]; intros N lo HN Hf; [lia|].
      simpl.
      destruct (sp_loop_spec (fun nd => search_parents sub f ns (n_children nd) child) N [])
        as [ps [Eps [Hnd Hps]]].
      - constructor.
      - intros r Hr. apply HN in Hr. lia.
      - intros r nd Hr End.
        destruct Hns as [Hlen [Hcfg Hch]]. rewrite (Hch _ _ End).
        destruct (IH (ch k r) (S r)) as [qs [Eqs [Hqnd Hqs]]].
        + intros c Hc. apply In_ch in Hc. destruct Hc as [Hc1 [Hc2 _]]. apply R_lt in Hc2. lia.
        + apply HN in Hr. lia.
        + exists qs. split; [exact Eqs|]. split; [exact Hqnd|].
          intros p. rewrite Hqs. unfold U. split.
          * intros [c [Hc [Hck HM]]]. apply In_ch in Hc. exists c. tauto.
          * intros [c [Hc [Hck HM]]]. exists c. split; [|tauto]. apply In_ch. split; [|exact Hc].
            apply R_lt in Hck. exact Hck.
      - exists ps. split; [exact Eps|]. split; [exact Hnd|].
        intros p. rewrite Hps. simpl. tauto.
    Qed.

    (* from the roots: exactly the elements covered by the new one *)
    Lemma search_roots :
      exists ps, search_parents sub (S k) ns (rootlist k) child = Good ps /\ NoDup ps /\
                 forall p, In p ps <-> covers p k.
    Proof.
      destruct (search_spec (S k) (rootlist k) 0) as [ps [Eps [Hnd Hps]]].
      - intros r Hr. apply In_rootlist in Hr. lia.
      - lia.
      - exists ps. split; [exact Eps|]. split; [exact Hnd|].
        intros p. rewrite Hps. split.
        + intros [r [_ [_ [H _]]]]. exact H.
        + intros Hc. destruct (root_below p p (le_n p)) as [r [Hr Hrp]].
          assert (Hpk : p < k) by (apply R_lt; apply Hc).
          exists r. split.
          * apply In_rootlist. split; auto. destruct Hrp as [->|Hrp]; auto. apply R_lt in Hrp. lia.
          * split.
            -- destruct Hrp as [->|Hrp]; [apply Hc|]. apply (R_trans r p k); [exact Hrp|apply Hc].
            -- split; auto. destruct Hrp as [->|Hrp]; auto.
    Qed.
  End SearchSpec.

  (** ** add_child and the insertion step *)
  Lemma idx_ltb_spec ns : cfgs_ok ns ->
    forall i j, idx_ltb kltb ns i j = (i <? j) && (j <? length ns).
  Proof.
    intros Hcfg i j. unfold idx_ltb.
    destruct (nth_error ns i) as [a|] eqn:Ei, (nth_error ns j) as [b|] eqn:Ej.
    - rewrite (k_idx i j _ _ (Hcfg _ _ Ei) (Hcfg _ _ Ej)).
      assert (j < length ns) by (apply nth_error_Some; congruence).
      destruct (i <? j); simpl; auto. symmetry. apply Nat.ltb_lt. assumption.
    - apply nth_error_None in Ej. symmetry. apply andb_false_iff. right. apply Nat.ltb_ge. exact Ej.
    - apply nth_error_None in Ei. assert (j < length ns) by (apply nth_error_Some; congruence).
      symmetry. apply andb_false_iff. left. apply Nat.ltb_ge. lia.
    - apply nth_error_None in Ej. symmetry. apply andb_false_iff. right. apply Nat.ltb_ge. exact Ej.
  Qed.

  (* the table while the parents of the new node k are being linked: [done] = parents already linked *)
  Definition mid_ok (k : nat) (done : list nat) (ns : list tnodeA) : Prop :=
    length ns = S k /\ cfgs_ok ns /\
    forall i nd, nth_error ns i = Some nd ->
      n_children nd = if i =? k then [] else if nat_mem i done then k :: ch k i else ch k i.

  Lemma ch_desc_sorted ns k i : length ns = S k -> cfgs_ok ns ->
    StronglySorted (fun a b => idx_ltb kltb ns b a = true) (ch k i).
  Proof.
    intros Hlen Hcfg. unfold ch. apply StronglySorted_filter.
    assert (H : forall m, m <= k -> StronglySorted (fun a b => idx_ltb kltb ns b a = true) (rev (seq 0 m))).
    { induction m as [|m IH]; intros Hm.
      - constructor.
      - rewrite rev_seq_S. constructor; [apply IH; lia|].
        rewrite Forall_forall. intros x Hx. apply In_rev_seq in Hx.
        rewrite (idx_ltb_spec ns Hcfg). apply andb_true_iff. split; apply Nat.ltb_lt; lia. }
    apply H. lia.
  Qed.

  Lemma add_child_mid k done ns p :
    mid_ok k done ns -> p < k -> ~ In p done -> mid_ok k (p :: done) (add_child kltb ns p k).
  Proof.
    intros [Hlen [Hcfg Hch]] Hp Hnd. unfold add_child.
    set (ns1 := update_nth k (fun nd => mkNode (n_cfg nd) (n_children nd) (n_parents nd ++ [p])) ns).
    assert (Hlen1 : length ns1 = S k) by (subst ns1; rewrite length_update_nth; exact Hlen).
    assert (Hcfg1 : cfgs_ok ns1).
    { intros i nd. subst ns1. rewrite nth_error_update_nth.
      destruct (i =? k); [|apply Hcfg].
      destruct (nth_error ns i) as [nd0|] eqn:E; simpl; [|discriminate].
      intros [= <-]. simpl. apply Hcfg. exact E. }
    assert (Hch1 : forall i nd, nth_error ns1 i = Some nd ->
               n_children nd = if i =? k then [] else if nat_mem i done then k :: ch k i else ch k i).
    { intros i nd. subst ns1. rewrite nth_error_update_nth.
      destruct (i =? k) eqn:Eik.
      - destruct (nth_error ns i) as [nd0|] eqn:E; simpl; [|discriminate].
        intros [= <-]. simpl. rewrite (Hch _ _ E), Eik. reflexivity.
      - intros E. rewrite (Hch _ _ E), Eik. reflexivity. }
    split; [rewrite length_update_nth; exact Hlen1|]. split.
    - intros i nd. rewrite nth_error_update_nth.
      destruct (i =? p); [|apply Hcfg1].
      destruct (nth_error ns1 i) as [nd0|] eqn:E; simpl; [|discriminate].
      intros [= <-]. simpl. apply Hcfg1. exact E.
    - intros i nd. rewrite nth_error_update_nth.
      destruct (i =? p) eqn:Eip.
      + apply Nat.eqb_eq in Eip. subst i.
        destruct (nth_error ns1 p) as [nd0|] eqn:E; simpl; [|discriminate].
        intros [= <-]. simpl.
        assert (Epk : p =? k = false) by (apply Nat.eqb_neq; lia).
        rewrite Epk. rewrite Nat.eqb_refl. simpl.
        rewrite (Hch1 _ _ E), Epk.
        assert (Em : nat_mem p done = false).
        { destruct (nat_mem p done) eqn:Em; auto. apply nat_mem_In in Em. contradiction. }
        rewrite Em.
        apply (sorted_desc_app_max (idx_ltb kltb ns1)).
        * intros a. rewrite (idx_ltb_spec ns1 Hcfg1). rewrite Nat.ltb_irrefl. reflexivity.
        * intros a b c. rewrite !(idx_ltb_spec ns1 Hcfg1), !andb_true_iff, !Nat.ltb_lt. lia.
        * apply ch_desc_sorted; assumption.
        * intros y Hy. apply In_ch in Hy. rewrite (idx_ltb_spec ns1 Hcfg1), andb_true_iff, !Nat.ltb_lt. lia.
      + intros E. rewrite (Hch1 _ _ E).
        destruct (i =? k); auto.
        unfold nat_mem. simpl. rewrite Eip. reflexivity.
  Qed.

  Lemma add_children_mid k : forall ps done ns,
    mid_ok k done ns -> NoDup ps -> (forall p, In p ps -> p < k /\ ~ In p done) ->
    exists done', mid_ok k done' (fold_left (fun acc p => add_child kltb acc p k) ps ns) /\
                  forall i, In i done' <-> In i done \/ In i ps.
  Proof.
    induction ps as [|p t IH]; intros done ns Hmid Hnd Hps; simpl.
    - exists done. split; auto. intros i. tauto.
    - inversion Hnd as [|? ? Hpt Hndt]; subst.
      destruct (Hps p (or_introl eq_refl)) as [Hpk Hpd].
      destruct (IH (p :: done) (add_child kltb ns p k)) as [done' [Hmid' Hin']].
      + apply add_child_mid; assumption.
      + exact Hndt.
      + intros q Hq. destruct (Hps q (or_intror Hq)) as [Hqk Hqd]. split; auto.
        intros [<-|H]; contradiction.
      + exists done'. split; auto. intros i. rewrite Hin'. simpl. intuition congruence.
  Qed.

  Lemma mid_to_nodes_ok k done ns :
    mid_ok k done ns -> (forall i, In i done <-> covers i k) -> nodes_ok (S k) ns.
  Proof.
    intros [Hlen [Hcfg Hch]] Hdone. split; [exact Hlen|]. split; [exact Hcfg|].
    intros i nd E. rewrite (Hch _ _ E), ch_S.
    destruct (i =? k) eqn:Eik.
    - apply Nat.eqb_eq in Eik. subst i.
      assert (Hc : coversb k k = false).
      { destruct (coversb k k) eqn:Ec; auto. apply coversb_spec in Ec. destruct Ec as [Ec _]. apply R_lt in Ec. lia. }
      rewrite Hc. symmetry. apply ch_above. lia.
    - destruct (nat_mem i done) eqn:Em.
      + apply nat_mem_In in Em. apply Hdone in Em. apply coversb_spec in Em. rewrite Em. reflexivity.
      + destruct (coversb i k) eqn:Ec; auto.
        apply coversb_spec in Ec. apply Hdone in Ec. apply nat_mem_In in Ec. congruence.
  Qed.

  Lemma nodes_ok_extend k ns c :
    nodes_ok k ns -> nth_error s k = Some c -> mid_ok k [] (ns ++ [mkNode c [] []]).
  Proof.
    intros [Hlen [Hcfg Hch]] Hc. split; [rewrite app_length; simpl; lia|]. split.
    - intros i nd E. destruct (Nat.lt_ge_cases i (length ns)) as [Hi|Hi].
      + rewrite nth_error_app1 in E; auto.
      + rewrite nth_error_app2 in E; auto.
        destruct (i - length ns) as [|d] eqn:Ed; simpl in E; [|destruct d; discriminate].
        inversion E; subst nd. simpl. assert (i = k) by lia. subst i. exact Hc.
    - intros i nd E. destruct (Nat.lt_ge_cases i (length ns)) as [Hi|Hi].
      + rewrite nth_error_app1 in E; auto. rewrite (Hch _ _ E).
        assert (Eik : i =? k = false) by (apply Nat.eqb_neq; lia). rewrite Eik. reflexivity.
      + rewrite nth_error_app2 in E; auto.
        destruct (i - length ns) as [|d] eqn:Ed; simpl in E; [|destruct d; discriminate].
        inversion E; subst nd. simpl. assert (i = k) by lia. subst i. rewrite Nat.eqb_refl. reflexivity.
  Qed.

  Lemma insert_node_spec k st c :
    Inv k st -> nth_error s k = Some c ->
    exists st', insert_node sub kltb st c = Good st' /\ Inv (S k) st'.
  Proof.
    intros [Hns Hroots] Hc. unfold insert_node.
    assert (Hlen : length (t_nodes st) = k) by apply Hns.
    rewrite Hlen, Hroots.
    destruct (search_roots k (t_nodes st) c Hns Hc) as [ps [Eps [Hnd Hps]]].
    rewrite Eps. simpl.
    pose proof (nodes_ok_extend k (t_nodes st) c Hns Hc) as Hmid0.
    destruct ps as [|p0 pt].
    - eexists. split; [reflexivity|]. split; simpl.
      + apply (mid_to_nodes_ok k [] _ Hmid0). intros i. rewrite <- Hps. tauto.
      + rewrite rootlist_S.
        assert (Hm : minimalb k = true).
        { apply minimalb_spec. intros i. destruct (R i k) eqn:E; auto.
          destruct (cover_up (k - i) i k (le_n _) E) as [m [_ Hm]]. apply Hps in Hm. destruct Hm. }
        rewrite Hm. reflexivity.
    - destruct (add_children_mid k (p0 :: pt) [] _ Hmid0 Hnd) as [done' [Hmid' Hin']].
      { intros p Hp. split; [|intros []]. apply Hps in Hp. apply R_lt. apply Hp. }
      eexists. split; [reflexivity|]. split; simpl.
      + apply (mid_to_nodes_ok k done' _ Hmid'). intros i. rewrite Hin', <- Hps. simpl. tauto.
      + rewrite rootlist_S.
        assert (Hm : minimalb k = false).
        { destruct (minimalb k) eqn:E; auto.
          assert (Hc0 : covers p0 k) by (apply Hps; left; reflexivity).
          destruct Hc0 as [Hc0 _]. rewrite (proj1 (minimalb_spec k) E p0) in Hc0. discriminate. }
        rewrite Hm, app_nil_r. reflexivity.
  Qed.

  Lemma insert_all_spec : forall rest k st,
    Inv k st -> (forall i, nth_error rest i = nth_error s (k + i)) -> k + length rest = length s ->
    exists st', insert_all sub kltb st rest = Good st' /\ Inv (length s) st'.
  Proof.
    induction rest as [|c t IH]; intros k st Hinv Hnth Hlen; simpl.
    - exists st. split; auto. simpl in Hlen. replace (length s) with k by lia. exact Hinv.
    - destruct (insert_node_spec k st c Hinv) as [st' [E Hinv']].
      { specialize (Hnth 0). simpl in Hnth. rewrite Nat.add_0_r in Hnth. symmetry. exact Hnth. }
      rewrite E. simpl. apply (IH (S k)); auto.
      + intros i. specialize (Hnth (S i)). simpl in Hnth. rewrite Hnth. f_equal. lia.
      + simpl in Hlen. lia.
  Qed.

  Lemma Inv_empty : Inv 0 empty_tree.
  Proof.
    split; [|reflexivity]. split; [reflexivity|]. split; intros i nd E; destruct i; discriminate.
  Qed.

  (** the whole list *)
  Theorem insert_all_hasse :
    exists t, insert_all sub kltb empty_tree s = Good t /\ Inv (length s) t.
  Proof.
    apply (insert_all_spec s 0 empty_tree Inv_empty); auto.
  Qed.
End Hasse.

(** * The statement on the items themselves *)
Section Top.
  Context {A : Type}.
  Variable sub : A -> A -> res bool.      (* is_subgroup, possibly raising *)
  Variable subb : A -> A -> bool.         (* its value where it does not raise *)
  Variable kltb : A -> A -> bool.         (* order_id a < order_id b *)

  Hypothesis kltb_irrefl : forall a, kltb a a = false.
  Hypothesis kltb_trans : forall a b c, kltb a b = true -> kltb b c = true -> kltb a c = true.

  Variable l : list A.
  Hypothesis l_nodup : NoDup l.
  Hypothesis k_total : total_on kltb l.                      (* pairwise distinct keys *)
  Hypothesis sub_ok : forall a b, In a l -> In b l -> sub a b = Good (subb a b).
  Hypothesis sub_key : forall a b, In a l -> In b l -> subb a b = true -> kltb a b = true.
  Hypothesis sub_trans : forall a b c, In a l -> In b l -> In c l ->
                           subb a b = true -> subb b c = true -> subb a c = true.

  Let s := sorted_asc kltb l.

  Lemma s_In a : In a s <-> In a l.
  Proof. split; apply Permutation_in; [|symmetry]; apply sorted_asc_perm. Qed.

  Lemma s_sorted : StronglySorted (fun a b => kltb a b = true) s.
  Proof. apply sorted_asc_sorted; auto. Qed.

  Lemma s_nodup : NoDup s.
  Proof. eapply Permutation_NoDup; [symmetry; apply sorted_asc_perm|exact l_nodup]. Qed.

  Definition Rix (i j : nat) : bool :=
    match nth_error s i, nth_error s j with
    | Some a, Some b => subb a b
    | _, _ => false
    end.

  Lemma Rix_lt i j : Rix i j = true -> i < j.
  Proof.
    unfold Rix. destruct (nth_error s i) as [a|] eqn:Ei; [|discriminate].
    destruct (nth_error s j) as [b|] eqn:Ej; [|discriminate]. intros H.
    assert (Hk : kltb a b = true).
    { apply sub_key; auto; apply s_In; eapply nth_error_In; eauto. }
    rewrite (sorted_nth kltb kltb_irrefl kltb_trans s s_sorted i j a b Ei Ej) in Hk.
    apply Nat.ltb_lt. exact Hk.
  Qed.

  Lemma Rix_trans i j m : Rix i j = true -> Rix j m = true -> Rix i m = true.
  Proof.
    unfold Rix. destruct (nth_error s i) as [a|] eqn:Ei; [|discriminate].
    destruct (nth_error s j) as [b|] eqn:Ej; [|discriminate].
    destruct (nth_error s m) as [c|] eqn:Em; [|intros _ H; exact H].
    apply sub_trans; apply s_In; eapply nth_error_In; eauto.
  Qed.

  Lemma Rix_sub i j a b : nth_error s i = Some a -> nth_error s j = Some b -> sub a b = Good (Rix i j).
  Proof.
    intros Ei Ej. unfold Rix. rewrite Ei, Ej. apply sub_ok; apply s_In; eapply nth_error_In; eauto.
  Qed.

  Lemma Rix_kidx i j a b : nth_error s i = Some a -> nth_error s j = Some b -> kltb a b = (i <? j).
  Proof. apply (sorted_nth kltb kltb_irrefl kltb_trans s s_sorted). Qed.

  (** the items of a tree *)
  Definition item_at (t : tree (A := A)) (i : nat) : option A := option_map n_cfg (nth_error (t_nodes t) i).

  (* b is a child of a *)
  Definition link (t : tree (A := A)) (a b : A) : Prop :=
    exists i j nd, nth_error (t_nodes t) i = Some nd /\ n_cfg nd = a /\ In j (n_children nd) /\ item_at t j = Some b.

  Definition is_root (t : tree (A := A)) (b : A) : Prop :=
    exists j, In j (t_roots t) /\ item_at t j = Some b.

  (* a covers b in (l, subb) *)
  Definition covering (a b : A) : Prop :=
    In a l /\ In b l /\ subb a b = true /\ forall c, In c l -> subb a c = true -> subb c b = true -> False.

  Definition minimal (b : A) : Prop := In b l /\ forall a, In a l -> subb a b = false.

  Lemma covers_covering i j a b :
    nth_error s i = Some a -> nth_error s j = Some b -> (covers Rix i j <-> covering a b).
  Proof.
    intros Ei Ej. unfold covers, covering. split.
    - intros [H1 H2]. split; [apply s_In; eapply nth_error_In; eauto|].
      split; [apply s_In; eapply nth_error_In; eauto|]. split.
      + unfold Rix in H1. rewrite Ei, Ej in H1. exact H1.
      + intros c Hc Hac Hcb. apply s_In in Hc. apply In_nth_error in Hc. destruct Hc as [m Em].
        apply (H2 m); unfold Rix; rewrite ?Ei, ?Ej, Em; assumption.
    - intros [_ [_ [H1 H2]]]. split.
      + unfold Rix. rewrite Ei, Ej. exact H1.
      + intros m Him Hmj. unfold Rix in Him, Hmj. rewrite Ei in Him. rewrite Ej in Hmj.
        destruct (nth_error s m) as [c|] eqn:Em; [|discriminate].
        apply (H2 c); auto. apply s_In. eapply nth_error_In; eauto.
  Qed.

  Definition hasse_of (t : tree (A := A)) : Prop :=
    map n_cfg (t_nodes t) = s /\
    (forall a b, link t a b <-> covering a b) /\
    (forall b, is_root t b <-> minimal b) /\
    (forall i nd, nth_error (t_nodes t) i = Some nd -> StronglySorted (fun x y => y < x) (n_children nd)) /\
    StronglySorted (fun x y => x < y) (t_roots t).

  Lemma Inv_items t : Inv s Rix (length s) t -> map n_cfg (t_nodes t) = s.
  Proof.
    intros [[Hlen [Hcfg _]] _].
    apply list_ext_nth_error. intros i.
    rewrite nth_error_map.
    destruct (nth_error (t_nodes t) i) as [nd|] eqn:E; simpl.
    - symmetry. apply Hcfg. exact E.
    - apply nth_error_None in E. symmetry. apply nth_error_None. lia.
  Qed.

  Theorem hasse_insert :
    exists t, build_tree sub kltb l = Good t /\ hasse_of t.
  Proof.
    destruct (insert_all_hasse sub kltb s Rix Rix_sub Rix_lt Rix_trans Rix_kidx) as [t [Et Hinv]].
    exists t. split; [exact Et|].
    pose proof (Inv_items t Hinv) as Hitems.
    destruct Hinv as [[Hlen [Hcfg Hch]] Hroots].
    assert (Hitem : forall i, item_at t i = nth_error s i).
    { intros i. unfold item_at. rewrite <- Hitems, nth_error_map. reflexivity. }
    split; [exact Hitems|]. split; [|split; [|split]].
    - intros a b. split.
      + intros [i [j [nd [Ei [<- [Hj Ej]]]]]]. rewrite (Hch _ _ Ei) in Hj.
        apply In_ch in Hj; [|exact Rix_lt]. rewrite Hitem in Ej.
        apply (covers_covering i j); auto. apply Hj.
      + intros Hc. assert (Ha : In a s) by (apply s_In; apply Hc). assert (Hb : In b s) by (apply s_In; apply Hc).
        apply In_nth_error in Ha. apply In_nth_error in Hb. destruct Ha as [i Ei]. destruct Hb as [j Ej].
        assert (Hn : exists nd, nth_error (t_nodes t) i = Some nd).
        { destruct (nth_error (t_nodes t) i) eqn:E; [eauto|]. apply nth_error_None in E.
          assert (i < length s) by (apply nth_error_Some; congruence). lia. }
        destruct Hn as [nd End].
        exists i, j, nd. split; [exact End|]. split.
        * pose proof (Hcfg _ _ End) as H. rewrite Ei in H. congruence.
        * split; [|rewrite Hitem; exact Ej].
          rewrite (Hch _ _ End). apply In_ch; [exact Rix_lt|]. split.
          -- apply nth_error_Some. congruence.
          -- apply (covers_covering i j a b); auto.
    - intros b. split.
      + intros [j [Hj Ej]]. rewrite Hroots in Hj. apply In_rootlist in Hj. destruct Hj as [Hj Hm].
        rewrite Hitem in Ej. split; [apply s_In; eapply nth_error_In; eauto|].
        intros a Ha. apply s_In in Ha. apply In_nth_error in Ha. destruct Ha as [i Ei].
        pose proof (proj1 (minimalb_spec Rix Rix_lt j) Hm i) as H. unfold Rix in H. rewrite Ei, Ej in H. exact H.
      + intros [Hb Hmin]. apply s_In in Hb. apply In_nth_error in Hb. destruct Hb as [j Ej].
        exists j. split; [|rewrite Hitem; exact Ej].
        rewrite Hroots. apply In_rootlist. split; [apply nth_error_Some; congruence|].
        apply (minimalb_spec Rix Rix_lt). intros i. unfold Rix. rewrite Ej.
        destruct (nth_error s i) as [a|] eqn:Ei; auto. apply Hmin. apply s_In. eapply nth_error_In; eauto.
    - intros i nd End. rewrite (Hch _ _ End). unfold ch. apply StronglySorted_filter. apply rev_seq_sorted.
    - rewrite Hroots. unfold rootlist. apply StronglySorted_filter.
      clear. generalize 0 as a. induction (length s) as [|n IH]; intros a; simpl; constructor; auto.
      rewrite Forall_forall. intros x Hx. apply in_seq in Hx. lia.
  Qed.
End Top.

(** * Consequences: ancestors, acyclicity, independence of the order of the list *)
Section Consequences.
  Context {A : Type}.
  Variable sub : A -> A -> res bool.
  Variable subb : A -> A -> bool.
  Variable kltb : A -> A -> bool.
  Hypothesis kltb_irrefl : forall a, kltb a a = false.
  Hypothesis kltb_trans : forall a b c, kltb a b = true -> kltb b c = true -> kltb a c = true.

  (* the tree does not depend on the order in which the configurations are listed *)
  Theorem order_independent l l' :
    NoDup l -> total_on kltb l -> Permutation l l' ->
    build_tree sub kltb l = build_tree sub kltb l'.
  Proof.
    intros Hnd Ht Hp. unfold build_tree.
    rewrite (sorted_asc_permutation_invariant kltb kltb_irrefl kltb_trans l l' Hnd Ht Hp). reflexivity.
  Qed.

  Variable l : list A.
  Hypothesis l_nodup : NoDup l.
  Hypothesis k_total : total_on kltb l.
  Hypothesis sub_ok : forall a b, In a l -> In b l -> sub a b = Good (subb a b).
  Hypothesis sub_key : forall a b, In a l -> In b l -> subb a b = true -> kltb a b = true.
  Hypothesis sub_trans : forall a b c, In a l -> In b l -> In c l ->
                           subb a b = true -> subb b c = true -> subb a c = true.

  Definition ancestor (t : tree (A := A)) : A -> A -> Prop := clos_trans A (link t).

  Lemma covering_chain a b :
    In a l -> In b l -> subb a b = true -> clos_trans A (covering subb l) a b.
  Proof.
    intros Ha Hb Hab.
    set (s := sorted_asc kltb l).
    assert (Has : In a s) by (apply (s_In kltb l); exact Ha).
    assert (Hbs : In b s) by (apply (s_In kltb l); exact Hb).
    apply In_nth_error in Has. apply In_nth_error in Hbs. destruct Has as [i Ei]. destruct Hbs as [j Ej].
    assert (HR : Rix subb kltb l i j = true) by (unfold Rix; fold s; rewrite Ei, Ej; exact Hab).
    pose proof (R_chain (Rix subb kltb l)
                  (Rix_lt subb kltb kltb_irrefl kltb_trans l l_nodup k_total sub_key)
                  (Rix_trans subb kltb l sub_trans) (j - i) i j (le_n _) HR) as Hc.
    clear HR Hab. revert a b Ha Hb Ei Ej.
    induction Hc as [i j Hij|i m j H1 IH1 H2 IH2]; intros a b Ha Hb Ei Ej.
    - apply t_step. apply (covers_covering subb kltb l i j a b Ei Ej). exact Hij.
    - assert (Hm : exists c, nth_error s m = Some c).
      { destruct (nth_error s m) as [c|] eqn:Em; [eauto|].
        exfalso. clear IH1 IH2 H2.
        assert (HR : Rix subb kltb l i m = true).
        { apply (chain_R (Rix subb kltb l) (Rix_trans subb kltb l sub_trans)). exact H1. }
        unfold Rix in HR. fold s in HR. rewrite Ei, Em in HR. discriminate. }
      destruct Hm as [c Em].
      assert (Hcl : In c l) by (apply (s_In kltb l); eapply nth_error_In; exact Em).
      apply t_trans with c; [apply (IH1 a c)|apply (IH2 c b)]; auto.
  Qed.

  Theorem hasse_ancestors t :
    build_tree sub kltb l = Good t ->
    (forall a b, ancestor t a b <-> In a l /\ In b l /\ subb a b = true) /\
    (forall a, ~ ancestor t a a) /\
    (forall a b, link t a b -> kltb a b = true).
  Proof.
    intros Et.
    destruct (hasse_insert sub subb kltb kltb_irrefl kltb_trans l l_nodup k_total sub_ok sub_key sub_trans)
      as [t' [Et' [_ [Hlink _]]]].
    rewrite Et in Et'. inversion Et'; subst t'. clear Et'.
    assert (Hanc : forall a b, ancestor t a b <-> In a l /\ In b l /\ subb a b = true).
    { intros a b. split.
      - induction 1 as [a b H|a b c _ IH1 _ IH2].
        + apply Hlink in H. destruct H as [Ha [Hb [Hab _]]]. auto.
        + destruct IH1 as [Ha [Hb Hab]]. destruct IH2 as [_ [Hc Hbc]]. split; [exact Ha|]. split; [exact Hc|].
          apply (sub_trans a b c); assumption.
      - intros [Ha [Hb Hab]]. pose proof (covering_chain a b Ha Hb Hab) as Hc.
        clear Ha Hb Hab. induction Hc as [a b H|a b c _ IH1 _ IH2].
        + apply t_step. apply Hlink. exact H.
        + eapply t_trans; eauto. }
    split; [exact Hanc|]. split.
    - intros a Ha. apply Hanc in Ha. destruct Ha as [Ha [_ Haa]].
      apply sub_key in Haa; auto. rewrite kltb_irrefl in Haa. discriminate.
    - intros a b H. apply Hlink in H. destruct H as [Ha [Hb [Hab _]]]. apply sub_key; auto.
  Qed.
End Consequences.

(** * The iteration order of the parent SET does not matter

    search_parents returns a Python set of node objects; build_config_tree_from_list iterates over
    it (in an address-dependent order) calling parent.add_child(node).  Each call touches the row of
    one parent (children re-sorted) and appends to the new node's parents list.  Up to the ORDER of
    that parents list, the resulting table is the same for every ordering of the set. *)
Section ParentSetOrder.
  Context {A : Type}.
  Variable kltb : A -> A -> bool.
  Local Notation tnodeA := (tnode (A := A)).

  (* what is observable apart from the order of parents lists: configuration and children per row *)
  Definition core (ns : list tnodeA) : list (A * list nat) := map (fun nd => (n_cfg nd, n_children nd)) ns.

  Definition core_ltb (k : list (A * list nat)) (i j : nat) : bool :=
    match nth_error k i, nth_error k j with
    | Some a, Some b => kltb (fst a) (fst b)
    | _, _ => false
    end.

  Definition addc (k : list (A * list nat)) (p c : nat) : list (A * list nat) :=
    update_nth p (fun r => (fst r, sorted_desc (core_ltb k) (snd r ++ [c]))) k.

  Lemma sorted_desc_ext {B} (l1 l2 : B -> B -> bool) l :
    (forall x y, l1 x y = l2 x y) -> sorted_desc l1 l = sorted_desc l2 l.
  Proof.
    intros H. unfold sorted_desc. induction l as [|x t IH]; simpl; auto. rewrite IH.
    generalize (fold_right (insert_desc l2) [] t) as s. induction s as [|y s IHs]; simpl; auto.
    rewrite H. destruct (l2 x y); auto. rewrite IHs. reflexivity.
  Qed.

  Lemma idx_ltb_core ns i j : idx_ltb kltb ns i j = core_ltb (core ns) i j.
  Proof.
    unfold idx_ltb, core_ltb, core. rewrite !nth_error_map.
    destruct (nth_error ns i), (nth_error ns j); reflexivity.
  Qed.

  Lemma core_update_parents ns c (g : list nat -> list nat) :
    core (update_nth c (fun nd => mkNode (n_cfg nd) (n_children nd) (g (n_parents nd))) ns) = core ns.
  Proof.
    apply list_ext_nth_error. intros i. unfold core. rewrite !nth_error_map, nth_error_update_nth.
    destruct (i =? c); auto. destruct (nth_error ns i); reflexivity.
  Qed.

  Lemma core_add_child ns p c : core (add_child kltb ns p c) = addc (core ns) p c.
  Proof.
    unfold add_child, addc.
    set (ns1 := update_nth c (fun nd => mkNode (n_cfg nd) (n_children nd) (n_parents nd ++ [p])) ns).
    assert (E1 : core ns1 = core ns) by (apply (core_update_parents ns c (fun l => l ++ [p]))).
    apply list_ext_nth_error. intros i. unfold core at 1. rewrite nth_error_map, !nth_error_update_nth.
    rewrite <- E1. unfold core at 2 3. rewrite nth_error_map.
    destruct (i =? p); [|reflexivity].
    destruct (nth_error ns1 i) as [nd|]; simpl; [|reflexivity].
    f_equal. f_equal. apply sorted_desc_ext. intros x y. apply idx_ltb_core.
  Qed.

  Lemma core_ltb_addc k p c i j : core_ltb (addc k p c) i j = core_ltb k i j.
  Proof.
    unfold core_ltb, addc. rewrite !nth_error_update_nth.
    destruct (i =? p), (j =? p); destruct (nth_error k i), (nth_error k j); reflexivity.
  Qed.

  Lemma nth_addc k p c i :
    nth_error (addc k p c) i
    = if i =? p then option_map (fun r => (fst r, sorted_desc (core_ltb k) (snd r ++ [c]))) (nth_error k i)
      else nth_error k i.
  Proof. unfold addc. apply nth_error_update_nth. Qed.

  Lemma addc_comm k p q c : p <> q -> addc (addc k p c) q c = addc (addc k q c) p c.
  Proof.
    intros Hne. apply list_ext_nth_error. intros i. rewrite !nth_addc.
    destruct (i =? q) eqn:Eq, (i =? p) eqn:Ep.
    - apply Nat.eqb_eq in Eq, Ep. congruence.
    - destruct (nth_error k i); simpl; [|reflexivity]. f_equal. f_equal.
      apply sorted_desc_ext. intros x y. apply core_ltb_addc.
    - destruct (nth_error k i); simpl; [|reflexivity]. f_equal. f_equal.
      apply sorted_desc_ext. intros x y. symmetry. apply core_ltb_addc.
    - reflexivity.
  Qed.

  Lemma core_fold ps : forall ns c,
    core (fold_left (fun acc p => add_child kltb acc p c) ps ns) = fold_left (fun acc p => addc acc p c) ps (core ns).
  Proof.
    induction ps as [|p t IH]; intros ns c; simpl; auto. rewrite IH, core_add_child. reflexivity.
  Qed.

  Lemma addc_fold_perm c ps ps' : Permutation ps ps' -> NoDup ps ->
    forall k, fold_left (fun acc p => addc acc p c) ps k = fold_left (fun acc p => addc acc p c) ps' k.
  Proof.
    induction 1 as [|x l l' Hp IH|x y l|l l' l'' H1 IH1 H2 IH2]; intros Hnd k; simpl; auto.
    - inversion Hnd; subst. apply IH. assumption.
    - inversion Hnd as [|? ? Hy Hnd']; subst. rewrite addc_comm; auto.
      intros ->. apply Hy. left. reflexivity.
    - rewrite IH1; auto. apply IH2. eapply Permutation_NoDup; eauto.
  Qed.

  (* the table after linking the new node c to its parents, up to the order of parents lists, is the
     same for every iteration order of the parent set *)
  Theorem parent_set_order_irrelevant ns c ps ps' :
    NoDup ps -> Permutation ps ps' ->
    core (fold_left (fun acc p => add_child kltb acc p c) ps ns)
    = core (fold_left (fun acc p => add_child kltb acc p c) ps' ns).
  Proof. intros Hnd Hp. rewrite !core_fold. apply addc_fold_perm; auto. Qed.
End ParentSetOrder.
