(** C18: soundness of the remaining decidable checkers run on implementation outputs
    (tensor form of a graph, decoding of raw tensors, adjacency matrix). *)
From Coq Require Import ZArith List Bool String Lia.
From FGV Require Import Base.Util Base.UtilFacts Base.Bond Base.NX Base.NXFacts
  Model.Torch Spec.PeriodicRef Spec.TorchSpec Spec.TorchCheck Spec.TorchSpec2
  Proofs.TorchUtil Proofs.WalkT Proofs.TorchCheckSound.
Import ListNotations.
Open Scope Z_scope.

(** * tensor form *)

Theorem to_torch_tensor_okb_sound g t : to_torch_tensor_okb g t = true -> to_torch_meaning g t.
Proof.
  unfold to_torch_tensor_okb. cbv zeta. rewrite !andb_true_iff. intros [[[H1 H2] H3] H4].
  apply (lst_eqb_sound _ zrow_eqb_sound) in H1.
  unfold to_torch_meaning. cbv zeta. split; [exact H1|]. split.
  { intros p Hp. rewrite forallb_forall in H2. apply in_rangeb_spec. apply H2. exact Hp. }
  destruct (t_ea t) as [ea|] eqn:Ea; [|discriminate].
  rewrite !andb_true_iff in H3. destruct H3 as [[H31 H32] H33].
  apply Nat.eqb_eq in H31. apply Nat.eqb_eq in H32.
  split; [exists ea; auto|]. split; [exact H32|]. split.
  - intros i j Hi Hj. pose proof (forallb_seq _ _ H33 i Hi) as H. simpl in H.
    pose proof (forallb_seq _ _ H j Hj) as H'. simpl in H'.
    unfold arc_label in *. rewrite Ea in *.
    apply (opt_eqb_sound _ zrow_eqb_sound) in H'. exact H'.
  - destruct (t_batch t); [discriminate | reflexivity].
Qed.

Theorem to_torch_okb_sound g t :
  to_torch_domainb g = true -> to_torch_okb g (Ok t) = true -> to_torch_meaning g t.
Proof. intros Hd. unfold to_torch_okb. rewrite Hd. apply to_torch_tensor_okb_sound. Qed.

Theorem to_torch_okb_refuses g out :
  to_torch_domainb g = false -> to_torch_okb g out = true -> exists e, out = Err e.
Proof. intros Hd. unfold to_torch_okb. rewrite Hd. destruct out; simpl; [discriminate | eauto]. Qed.

(** * raw tensors *)

Definition und_step (i j : Z) (acc : option label) (c : (Z * Z) * list Z) : option label :=
  if ((fst (fst c) =? i) && (snd (fst c) =? j)) || ((fst (fst c) =? j) && (snd (fst c) =? i))
  then match snd c with [g; h] => Some (Pair g h) | _ => acc end else acc.

Lemma joins_col_dec c i j :
  (((fst (fst c) =? i) && (snd (fst c) =? j)) || ((fst (fst c) =? j) && (snd (fst c) =? i))) = true
  <-> joins_col c i j.
Proof. unfold joins_col. rewrite orb_true_iff, !andb_true_iff, !Z.eqb_eq. tauto. Qed.

Lemma und_fold_last i j cols :
  (forall c, In c cols -> List.length (snd c) = 2%nat) ->
  match fold_left (und_step i j) cols None with
  | None => forall c, In c cols -> ~ joins_col c i j
  | Some l =>
      exists pre c post gb hb,
        cols = pre ++ c :: post /\ joins_col c i j /\ snd c = [gb; hb] /\ l = Pair gb hb /\
        forall c', In c' post -> ~ joins_col c' i j
  end.
Proof.
  induction cols as [|c t IH] using rev_ind; intros Hw; [simpl; intros c []|].
  rewrite fold_left_app. cbn [fold_left].
  assert (Hwt : forall c0, In c0 t -> List.length (snd c0) = 2%nat)
    by (intros c0 H0; apply Hw; apply in_or_app; left; exact H0).
  specialize (IH Hwt). unfold und_step at 1.
  destruct (((fst (fst c) =? i) && (snd (fst c) =? j)) || ((fst (fst c) =? j) && (snd (fst c) =? i))) eqn:E.
  - apply joins_col_dec in E.
    assert (Hc : List.length (snd c) = 2%nat) by (apply Hw; apply in_or_app; right; left; reflexivity).
    destruct (snd c) as [|gb [|hb [|x r]]] eqn:Es; simpl in Hc; try discriminate.
    exists t, c, [], gb, hb. repeat split; auto.
  - assert (Hnj : ~ joins_col c i j) by (intros H; apply joins_col_dec in H; congruence).
    destruct (fold_left (und_step i j) t None) as [l|].
    + destruct IH as (pre & c0 & post & gb & hb & Hcols & Hj & Hs & Hl & Hpost).
      exists pre, c0, (post ++ [c]), gb, hb. split; [rewrite Hcols, <- app_assoc; reflexivity|].
      repeat split; auto. intros c' Hc'. apply in_app_or in Hc'. destruct Hc' as [Hc'|[<-|[]]]; auto.
    + intros c' Hc'. apply in_app_or in Hc'. destruct Hc' as [Hc'|[<-|[]]]; auto.
Qed.

Lemma und_label_last t i j :
  (exists ea, t_ea t = Some ea /\ forallb (fun row : list Z => Nat.eqb (List.length row) 2) ea = true) ->
  last_joining t i j (und_label t i j).
Proof.
  intros (ea & Hea & Hw). unfold last_joining, und_label. rewrite Hea. exists ea. split; [reflexivity|].
  change (fold_left _ (combine (t_ei t) ea) None) with (fold_left (und_step i j) (combine (t_ei t) ea) None).
  apply und_fold_last. intros c Hc. destruct c as [p row]. apply in_combine_r in Hc.
  rewrite forallb_forall in Hw. apply Nat.eqb_eq. apply (Hw row Hc).
Qed.

Theorem raw_graph_okb_sound t g' :
  raw_domainb t = true -> raw_graph_okb t g' = true -> raw_graph_spec t g'.
Proof.
  intros Hd. unfold raw_graph_okb. cbv zeta. rewrite !andb_true_iff. intros [[[H1 H2] H3] H4].
  apply (lst_eqb_sound _ zeqb_sound) in H1. pose proof (wfb_wf g' H4) as Hwf'.
  assert (Hea : exists ea, t_ea t = Some ea /\ forallb (fun row : list Z => Nat.eqb (List.length row) 2) ea = true).
  { unfold raw_domainb in Hd. rewrite !andb_true_iff in Hd. destruct Hd as [_ Hd].
    destruct (t_ea t) as [ea|]; [|discriminate]. apply andb_true_iff in Hd. exists ea. tauto. }
  unfold raw_graph_spec. cbv zeta. split; [exact H1|]. split; [|split; [|split]].
  - intros i Hi. pose proof (forallb_seq _ _ H2 i Hi) as H. simpl in H.
    destruct (nth i (t_x t) []) as [|z rest]; [discriminate|].
    destruct (ref_symbol z) as [s|] eqn:Es; [|discriminate].
    exists z, rest, s. split; [reflexivity|]. split; [exact Es|].
    apply (opt_eqb_sound _ nattr_eqb_sound) in H. exact H.
  - intros i j Hi Hj. pose proof (forallb_seq _ _ H3 i Hi) as H. simpl in H.
    pose proof (forallb_seq _ _ H j Hj) as H'. simpl in H'. apply label_opt_eqb_sound in H'.
    rewrite H'. apply und_label_last. exact Hea.
  - intros x y l Hl. destruct (wf_edge_nodes g' x y l Hwf' Hl) as [Hx Hy]. split; apply has_node_In; assumption.
  - destruct Hwf' as (_ & H & _). exact H.
Qed.

Theorem from_torch_okb_sound_single t g' :
  t_batch t = None -> raw_domainb t = true ->
  from_torch_okb (Ok t) (Ok (One g')) = true -> raw_graph_spec t g'.
Proof.
  intros Hb Hd. unfold from_torch_okb. rewrite Hb, Hd. apply raw_graph_okb_sound. exact Hd.
Qed.

Theorem from_torch_okb_sound_batch t b gs :
  t_batch t = Some b -> from_torch_okb (Ok t) (Ok (Many gs)) = true -> raw_batch_spec t b gs.
Proof.
  intros Hb. unfold from_torch_okb. rewrite Hb. rewrite !andb_true_iff. intros [[H1 H2] H3].
  apply Nat.eqb_eq in H1. apply Nat.eqb_eq in H2. unfold raw_batch_spec.
  split; [exact H1|]. split; [exact H2|]. apply Forall_forall. intros g' Hg'.
  rewrite forallb_forall in H3. specialize (H3 g' Hg'). apply andb_true_iff in H3. destruct H3 as [Hn Hw].
  apply (lst_eqb_sound _ zeqb_sound) in Hn. destruct (wfb_wf g' Hw) as (_ & Ha & Hs). auto.
Qed.

(* a single tensor is never accepted with a list of graphs, nor a batch with a single graph *)
Theorem from_torch_okb_shape t out :
  from_torch_okb (Ok t) out = true ->
  match t_batch t, out with
  | None, Ok (Many _) => raw_domainb t = false
  | Some _, Ok (One _) => False
  | _, _ => True
  end.
Proof.
  unfold from_torch_okb. destruct (t_batch t) as [b|]; destruct out as [[g'|gs]|e]; try exact (fun _ => I).
  - discriminate.
  - destruct (raw_domainb t); [discriminate | reflexivity].
Qed.

(** * adjacency matrix *)

Theorem adjacency_okb_sound t m :
  forallb (in_rangeb (List.length (t_x t))) (t_ei t) = true ->
  adjacency_okb t (Ok m) = true -> adjacency_spec t m.
Proof.
  intros Hd. unfold adjacency_okb. cbv zeta. rewrite Hd. rewrite !andb_true_iff. intros [[H1 H2] H3].
  apply Nat.eqb_eq in H1. unfold adjacency_spec. cbv zeta. split; [exact H1|]. split.
  - apply Forall_forall. intros row Hr. rewrite forallb_forall in H2. apply Nat.eqb_eq. apply H2. exact Hr.
  - intros i j Hi Hj. pose proof (forallb_seq _ _ H3 i Hi) as H. simpl in H.
    pose proof (forallb_seq _ _ H j Hj) as H'. simpl in H'. apply Z.eqb_eq in H'.
    unfold has_arc in H'. unfold arc_of.
    destruct (arc_mem (Z.of_nat i) (Z.of_nat j) (t_ei t)) eqn:E.
    + left. split; [exact H'|]. apply arc_mem_In. exact E.
    + right. split; [exact H'|]. intros Hin. apply arc_mem_In in Hin. congruence.
Qed.
