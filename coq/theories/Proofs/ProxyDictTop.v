(** The C14 count theorem for proxies built from a dict configuration. *)
From Coq Require Import ZArith List Bool String.
From FGV Require Import Base.Util Base.Bond Base.NX Base.NXMulti Model.Proxy Model.ProxyGen Model.ProxyDict
  Spec.ProxyGenSpec Spec.ProxyGenCheck Proofs.ProxyDictTreeProofs Proofs.ProxyGenTop.
Import ListNotations.

Theorem from_dict_count cfg :
  dict_representable cfg -> cfg_ok cfg -> acyclic (cfg_groups cfg) ->
  exists c results,
    proxy_from_dict mgraph (fun g => g) (JKList (map pg_graph (cfg_core cfg)))
                    (canon_groups mgraph (dict_groups_of (cfg_groups cfg))) (Some (cfg_aam cfg)) = JOk c
    /\ proxy_all c = (results, GDone) /\ List.length results = count_cfg c /\ Forall (result_ok c) results.
Proof.
  intros Hd Hok Hac. destruct (top_count cfg Hok Hac) as [rs [H1 [H2 H3]]].
  exists cfg, rs. split; [apply from_dict_identity; exact Hd|]. split; [exact H1|]. split; assumption.
Qed.
