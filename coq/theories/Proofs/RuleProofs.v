(** C16 proofs, part 5: the theorems about apply_rule, assembled. *)
From Coq Require Import ZArith List Bool String Lia Sorting.Permutation.
From FGV Require Import Base.Util Base.UtilFacts Base.Bond Base.NX Base.NXFacts Model.Aam Model.Rule
                        Spec.AamSpec Spec.RuleSpec Proofs.AamProofs Proofs.NXCopyFacts16 Proofs.RuleSplit
                        Proofs.RuleIts Proofs.RuleLoop Proofs.RuleMonos.
Import ListNotations.
Open Scope Z_scope.

(** * from embeddings to the loop's side conditions *)

Lemma embedding_inj_map rcg g m :
  wf rcg -> embedding_set (rl (reaction_rule rcg)) g m -> inj_map rcg g m.
Proof.
  intros Hrc (H1 & H2 & H3 & H4 & _). destruct (rule_left_spec rcg Hrc) as (_ & Hn & _).
  split; [exact H1|]. split; [exact H2|]. split.
  - intros a Ha. apply H3. rewrite Hn. exact Ha.
  - intros u Hu. apply in_map_iff in Hu. destruct Hu as ([u' a] & <- & Hin). apply (H4 u' a Hin).
Qed.

Lemma is_connected_some x : x <> [] -> exists b, is_connected x = Some b.
Proof. destruct x as [|[s e] t]; [congruence|]. intros _. simpl. eauto. Qed.

Section PerMapping.
  Variables (g rcg : graph) (m : mapping).
  Hypothesis Hg : wf g.
  Hypothesis Hrc : wf rcg.
  Hypothesis Hm : inj_map rcg g m.
  Let rule := reaction_rule rcg.

  Lemma raw_its_spec :
    its_of g rule m = Some (raw_its g rule m)
    /\ wf (raw_its g rule m) /\ nodes (raw_its g rule m) = nodes g
    /\ (forall n, node_attr (raw_its g rule m) n = node_attr g n)
    /\ (forall x y, edge_label (raw_its g rule m) x y = expected_label g rcg m x y).
  Proof.
    destruct (its_of_spec g rcg m Hg Hrc Hm) as (its & H1 & H2). unfold raw_its, rule. rewrite H1. auto.
  Qed.

  Lemma its_graph_spec :
    complete_aam (raw_its g rule m) OffMin = Some (its_graph g rule m)
    /\ wf (its_graph g rule m)
    /\ result_ok g rcg m (its_graph g rule m)
    /\ complete_spec (raw_its g rule m) OffMin (its_graph g rule m).
  Proof.
    destruct raw_its_spec as (_ & W & N & A & E).
    destruct (its_object_spec (raw_its g rule m)) as (res & H1 & H2 & H3 & H4 & H5 & H6).
    unfold its_graph. rewrite H1. split; [reflexivity|]. split; [apply H3; exact W|]. split; [|exact H6].
    split; [rewrite H2; exact N|]. split.
    - apply (aam_completed_of g (raw_its g rule m) res); [apply W|exact N|exact A|exact H6].
    - intros x y. rewrite H4. apply E.
  Qed.

  Lemma cand_ok_inj co : (co = true -> g <> []) -> cand_ok g rule co m.
  Proof.
    intros Hne. destruct raw_its_spec as (H1 & _ & N & _). destruct its_graph_spec as (H2 & _).
    split; [eauto|]. split; [eauto|]. intros Hco. apply is_connected_some.
    intros Hnil. apply (Hne Hco). rewrite Hnil in N. destruct g; [reflexivity|discriminate].
  Qed.
End PerMapping.

(** * apply_rule *)

Lemma map_fst_combine {A B} (l1 : list A) (l2 : list B) :
  List.length l2 = List.length l1 -> map fst (combine l1 l2) = l1.
Proof.
  revert l2. induction l1 as [|a t IH]; intros [|b t2] H; simpl in *; try discriminate; [reflexivity|].
  f_equal. apply IH. lia.
Qed.

Lemma select_subset unique co cs : forall seen x,
  In x (select unique co cs seen) -> In x (map snd cs).
Proof.
  induction cs as [|[[w i] f] t IH]; intros seen x; simpl; [tauto|].
  destruct (co && negb (connb i)); [intros H; right; eapply IH; eauto|].
  destruct unique.
  - destruct (existsb (String.eqb w) seen); [intros H; right; eapply IH; eauto|].
    intros [H|H]; [left; exact H|right; eapply IH; eauto].
  - intros [H|H]; [left; exact H|right; eapply IH; eauto].
Qed.

Lemma firstn_subset {A} k : forall (l : list A) x, In x (firstn k l) -> In x l.
Proof.
  induction k as [|k IH]; intros [|a t] x; simpl; try tauto. intros [H|H]; [left; exact H|right; apply IH; exact H].
Qed.

Lemma take_n_subset {A} n (l : list A) x : In x (take_n n l) -> In x l.
Proof. destruct n; [apply firstn_subset|auto]. Qed.

Section Apply.
  Variables (g rcg : graph) (monos : list mapping) (wls : list string).
  Let rule := reaction_rule rcg.
  Let L := rl rule.
  Hypothesis Hg : wf g.
  Hypothesis Hrc : wf rcg.
  Hypothesis Hmonos : monos_valid L g monos.
  Hypothesis Hlen : List.length wls = List.length monos.

  Lemma L_nodup : NoDup (nodes L).
  Proof. destruct (rule_left_spec rcg Hrc) as ((H & _) & _). exact H. Qed.

  Lemma monos_embedding m : In m monos -> embedding_set L g m.
  Proof. apply monos_valid_embedding; [apply L_nodup|exact Hmonos]. Qed.

  Lemma monos_inj m : In m monos -> inj_map rcg g m.
  Proof. intros H. apply embedding_inj_map; [exact Hrc|apply monos_embedding; exact H]. Qed.

  (* the general form: what the call returns, for every option combination *)
  Theorem apply_rule_general n unique co :
    (co = true -> g <> []) ->
    apply_rule g rule monos wls n unique co =
    AROk (take_n n (select unique co (cands_of g rule monos wls) [])).
  Proof.
    intros Hne. apply apply_rule_select; [exact Hlen|].
    intros m Hin. apply cand_ok_inj; [exact Hg|exact Hrc|apply monos_inj; exact Hin|exact Hne].
  Qed.

  Lemma cands_its_graphs : map snd (cands_of g rule monos wls) = map (its_graph g rule) monos.
  Proof.
    unfold cands_of. rewrite map_map. rewrite <- (map_fst_combine monos wls Hlen) at 2.
    rewrite map_map. apply map_ext. intros [m w]. reflexivity.
  Qed.

  (* every returned graph is the ITS of one of the supplied mappings, and satisfies the
     per-result characterisation *)
  Theorem apply_rule_results n unique co results :
    (co = true -> g <> []) ->
    apply_rule g rule monos wls n unique co = AROk results ->
    forall res, In res results ->
      exists m, In m monos /\ embedding_set L g m /\ res = its_graph g rule m
                /\ wf res /\ result_ok g rcg m res.
  Proof.
    intros Hne Hres res Hin. rewrite (apply_rule_general n unique co Hne) in Hres. injection Hres as <-.
    apply take_n_subset in Hin. apply select_subset in Hin. rewrite cands_its_graphs in Hin.
    apply in_map_iff in Hin. destruct Hin as (m & <- & Hm). exists m.
    split; [exact Hm|]. split; [apply monos_embedding; exact Hm|]. split; [reflexivity|].
    destruct (its_graph_spec g rcg m Hg Hrc (monos_inj m Hm)) as (_ & W & R & _). auto.
  Qed.

  (* unique=False, no limit, no connectivity filter: exactly one result per mapping, in order *)
  Theorem unique_false_spec :
    apply_rule g rule monos wls None false false = AROk (map (its_graph g rule) monos).
  Proof.
    rewrite apply_rule_general by discriminate. simpl take_n. rewrite select_plain, cands_its_graphs. reflexivity.
  Qed.

  (* connected_only keeps exactly the candidates whose raw ITS graph is connected *)
  Theorem connected_only_spec n unique :
    g <> [] ->
    apply_rule g rule monos wls n unique true =
    AROk (take_n n (select unique false
                      (filter (fun c => connb (snd (fst c))) (cands_of g rule monos wls)) [])).
  Proof. intros Hne. rewrite apply_rule_general by auto. rewrite select_filter. reflexivity. Qed.

  (* unique=True: the first candidate of every digest class, in order *)
  Theorem unique_true_spec :
    apply_rule g rule monos wls None true false =
    AROk (map snd (first_of_class (cands_of g rule monos wls) [])).
  Proof. rewrite apply_rule_general by discriminate. simpl take_n. rewrite select_unique. reflexivity. Qed.

  (* the limit (after D18): the first n accepted results of the unlimited call; n <= 0 gives
     the empty list. The code tests len(its_graphs) >= n on arrival of the next mapping, so
     it counts accepted results (after the connectivity filter and the duplicate test). *)
  Theorem limit_spec k unique co :
    (co = true -> g <> []) ->
    exists full,
      apply_rule g rule monos wls None unique co = AROk full
      /\ apply_rule g rule monos wls (Some k) unique co = AROk (firstn (Z.to_nat k) full)
      /\ List.length (firstn (Z.to_nat k) full) = Nat.min (Z.to_nat k) (List.length full).
  Proof.
    intros Hne. exists (select unique co (cands_of g rule monos wls) []).
    rewrite !apply_rule_general by exact Hne. split; [reflexivity|]. split; [reflexivity|].
    apply firstn_length.
  Qed.
End Apply.

(* the reference enumeration itself satisfies the hypothesis on the oracle's list *)
Lemma monos_valid_refl L g : monos_valid L g (all_monos L g).
Proof.
  exists (all_monos L g). split; [|apply Permutation_refl].
  induction (all_monos L g); constructor; [apply Permutation_refl|assumption].
Qed.

(** * reading [expected_label] *)

Lemma option_map_scalar_left_lpair a b : option_map Scalar (lab_left (LPair a b)) = option_map Scalar (side_of a).
Proof. reflexivity. Qed.

(* a pair the rule does not mention keeps its bond (D17), matched atoms or not *)
Theorem expected_unmentioned g rcg m u v :
  rc_between rcg m u v = None ->
  expected_label g rcg m u v =
  match edge_label g u v with Some lb => Some (LPair (ord lb) (ord lb)) | None => None end.
Proof. intros H. unfold expected_label. rewrite H. destruct (edge_label g u v); reflexivity. Qed.

(* the image of a rule edge with a product-side bond y: second component y; a new edge [0, y]
   if g has no bond there *)
Theorem expected_product_bond g rcg m u v lab y :
  rc_between rcg m u v = Some lab -> lab_right lab = Some y ->
  expected_label g rcg m u v =
  Some (LPair (match edge_label g u v with Some lb => ord lb | None => 0 end) y).
Proof. intros H1 H2. unfold expected_label. rewrite H1, H2. destruct (edge_label g u v); reflexivity. Qed.

(* the image of a rule edge that exists only on the reactant side: the bond is broken *)
Theorem expected_broken_bond g rcg m u v lab x :
  wf rcg -> embedding_set (rl (reaction_rule rcg)) g m ->
  rc_between rcg m u v = Some lab -> lab_right lab = None -> lab_left lab = Some x ->
  edge_label g u v = Some (Scalar x) /\ expected_label g rcg m u v = Some (LPair x 0).
Proof.
  intros Hrc (H1 & H2 & H3 & H4 & H5) Hb Hr Hl.
  assert (Hg : edge_label g u v = Some (Scalar x)).
  { unfold rc_between in Hb. destruct (alookup u m) as [a|] eqn:Ea; [|discriminate].
    destruct (alookup v m) as [b|] eqn:Eb; [|discriminate].
    apply alookup_In in Ea. apply alookup_In in Eb. apply (H5 u a v b (Scalar x) Ea Eb).
    destruct (rule_left_spec rcg Hrc) as (_ & _ & _ & HL). rewrite HL. unfold left_of. rewrite Hb, Hl. reflexivity. }
  split; [exact Hg|]. unfold expected_label. rewrite Hb, Hr, Hl, Hg. reflexivity.
Qed.

(** * reactant side and product side of a result (through split_its, as ITS.split does) *)

Lemma expected_left g rcg m u v :
  mol_graph g ->
  match expected_label g rcg m u v with Some l => option_map Scalar (lab_left l) | None => None end
  = edge_label g u v.
Proof.
  intros Hmol. unfold expected_label. destruct (edge_label g u v) as [lb|] eqn:E.
  - destruct (Hmol u v lb E) as (o & -> & Ho). simpl ord.
    assert (Hs : option_map Scalar (side_of o) = Some (Scalar o)).
    { unfold side_of. destruct (Z.eqb_spec o 0); [contradiction|reflexivity]. }
    destruct (match rc_between rcg m u v with Some l => lab_right l | None => None end); simpl; exact Hs.
  - destruct (match rc_between rcg m u v with Some l => lab_right l | None => None end); reflexivity.
Qed.

Lemma expected_right g rcg m u v :
  mol_graph g ->
  match expected_label g rcg m u v with Some l => option_map Scalar (lab_right l) | None => None end
  = product_label g rcg m u v.
Proof.
  intros Hmol. unfold expected_label, product_label.
  destruct (rc_between rcg m u v) as [lab|].
  - destruct (lab_right lab) as [y|].
    + destruct (edge_label g u v); reflexivity.
    + destruct (edge_label g u v) as [lb|] eqn:E.
      * destruct (lab_left lab); [reflexivity|]. simpl.
        destruct (Hmol u v lb E) as (o & -> & Ho). simpl. unfold side_of.
        destruct (Z.eqb_spec o 0); [contradiction|reflexivity].
      * destruct (lab_left lab); reflexivity.
  - destruct (edge_label g u v) as [lb|] eqn:E; [|reflexivity]. simpl.
    destruct (Hmol u v lb E) as (o & -> & Ho). simpl. unfold side_of.
    destruct (Z.eqb_spec o 0); [contradiction|reflexivity].
Qed.

Theorem result_sides g rcg m res :
  mol_graph g -> wf res -> result_ok g rcg m res ->
  let gl := fst (split_its res) in let gr := snd (split_its res) in
  (* reactant side: the given reactant graph, unchanged *)
  nodes gl = nodes g /\ (forall x y, edge_label gl x y = edge_label g x y)
  /\ (forall n, node_attr gl n = node_attr res n)
  (* product side *)
  /\ nodes gr = nodes g /\ (forall x y, edge_label gr x y = product_label g rcg m x y)
  /\ (forall n, node_attr gr n = node_attr res n).
Proof.
  intros Hmol W (N & A & E).
  destruct (split_its_spec res W) as ((_ & L2 & L3 & L4) & (_ & R2 & R3 & R4)). cbv zeta.
  split; [rewrite L2; exact N|]. split.
  - intros x y. rewrite L4. unfold left_of. rewrite E, <- (expected_left g rcg m x y Hmol).
    destruct (expected_label g rcg m x y); reflexivity.
  - split; [exact L3|]. split; [rewrite R2; exact N|]. split; [|exact R3].
    intros x y. rewrite R4. unfold right_of. rewrite E, <- (expected_right g rcg m x y Hmol).
    destruct (expected_label g rcg m x y); reflexivity.
Qed.
