(** Proofs for C12 (hydrogen completion): the generated tables agree with the reference,
    closed form of the inner loop and of the whole function, the specification clauses,
    idempotence, the exact condition for raising, and soundness of the checker. *)
From Coq Require Import ZArith List Bool String Lia.
From FGV Require Import Base.Util Base.UtilFacts Base.StrMap Base.Bond Base.NX Base.NXFacts
  Gen.Tables Spec.TablesRef Model.Hydrogens Spec.HydrogensSpec Spec.HydrogensCheck Proofs.NXMore.
Import ListNotations.
Open Scope list_scope.
Open Scope Z_scope.

(** * the tables generated from the source agree with the reference *)

Definition tables_agreeb (l1 l2 : list (string * Z)) : bool :=
  forallb (fun k => option_eqb Z.eqb (slookup k l1) (slookup k l2)) (map fst l1 ++ map fst l2).

Lemma tables_agreeb_sound l1 l2 :
  tables_agreeb l1 l2 = true -> forall k, slookup k l1 = slookup k l2.
Proof.
  intros H. apply slookup_ext_keys. intros k Hin. unfold tables_agreeb in H.
  rewrite forallb_forall in H. specialize (H k Hin).
  apply (option_eqb_true Z.eqb) in H; [exact H | intros ? ?; apply Z.eqb_eq].
Qed.

(* the dict built by the double loop over the source's valence_dict (last write wins)
   is, as a map from symbols to valences, the reference table -- for EVERY string *)
Theorem valence_table_ok : forall s, slookup s valence_table = ref_valence s.
Proof. apply tables_agreeb_sound. vm_compute. reflexivity. Qed.

Theorem h_excluded_ok : h_excluded = ref_h_excluded.
Proof. reflexivity. Qed.

Theorem h_formula_ok : h_cap = 8 /\ h_factor = 2.
Proof. split; reflexivity. Qed.

(** * closed form of the inner loop *)

(* what [cnt] iterations append to the adjacency of the heavy atom, and the new entries *)
Definition hedges (next : Z) (c : nat) : adjl := map (fun h => (h, Scalar 2)) (zseq next c).
Definition hnodes (n next : Z) (c : nat) : graph :=
  map (fun h => (h, (na_sym "H", [(n, Scalar 2)]))) (zseq next c).

Lemma hedges_S next c : hedges next (S c) = (next, Scalar 2) :: hedges (next + 1) c.
Proof. reflexivity. Qed.
Lemma hnodes_S n next c :
  hnodes n next (S c) = (next, (na_sym "H", [(n, Scalar 2)])) :: hnodes n (next + 1) c.
Proof. reflexivity. Qed.
Lemma map_fst_hedges next c : map fst (hedges next c) = zseq next c.
Proof. unfold hedges. rewrite map_map. simpl. apply map_id. Qed.
Lemma nodes_hnodes n next c : nodes (hnodes n next c) = zseq next c.
Proof. unfold nodes, hnodes. rewrite map_map. simpl. apply map_id. Qed.

Lemma nodes_aset_present (g : graph) n e e0 : alookup n g = Some e0 -> nodes (aset n e g) = nodes g.
Proof. intros H. unfold nodes. eapply map_fst_aset_present. exact H. Qed.

(* one iteration: add_node h (symbol="H"); add_edge n h (bond=1), for a fresh id h *)
Lemma add_h_once (g : graph) n h a (ad : adjl) :
  alookup n g = Some (a, ad) -> alookup h g = None -> alookup h ad = None ->
  add_edge (add_node g h (na_sym "H")) n h (Scalar 2)
  = aset n (a, ad ++ [(h, Scalar 2)]) g ++ [(h, (na_sym "H", [(n, Scalar 2)]))].
Proof.
  intros Hn Hh Had.
  assert (Hne : n <> h) by (intros ->; congruence).
  unfold add_node. rewrite Hh.
  set (g1 := g ++ [(h, (na_sym "H", []))]).
  assert (Hn1 : alookup n g1 = Some (a, ad)) by (apply alookup_app_l; exact Hn).
  assert (Hh1 : alookup h g1 = Some (na_sym "H", [])).
  { unfold g1. rewrite alookup_app_r by exact Hh. simpl. rewrite Z.eqb_refl. reflexivity. }
  unfold add_edge. unfold ensure_node at 2. rewrite Hn1. unfold ensure_node. rewrite Hh1.
  unfold set_adj at 2. rewrite Hn1.
  rewrite (aset_absent h (Scalar 2) ad Had).
  unfold g1. rewrite (aset_app_present n _ (a, ad) g _ Hn).
  unfold set_adj.
  assert (Hh2 : alookup h (aset n (a, ad ++ [(h, Scalar 2)]) g) = None).
  { rewrite alookup_aset. destruct (Z.eqb_spec h n); [congruence|exact Hh]. }
  rewrite (alookup_app_r h _ _ Hh2). simpl. rewrite Z.eqb_refl.
  rewrite (aset_app_absent h _ _ _ Hh2). simpl. rewrite Z.eqb_refl. reflexivity.
Qed.

Lemma add_hs_closed : forall cnt (g : graph) n next a (ad : adjl),
  alookup n g = Some (a, ad) ->
  (forall k, In k (nodes g) -> k < next) ->
  (forall v, In v (map fst ad) -> v < next) ->
  add_hs g n next cnt = aset n (a, ad ++ hedges next cnt) g ++ hnodes n next cnt.
Proof.
  induction cnt as [|c IH]; intros g n next a ad Hn Hnodes Had.
  - simpl. unfold hedges, hnodes. simpl. rewrite !app_nil_r. symmetry. apply aset_same. exact Hn.
  - cbn [add_hs].
    assert (Hh : alookup next g = None).
    { apply alookup_not_In. intros Hin. specialize (Hnodes next Hin). lia. }
    assert (Hha : alookup next ad = None).
    { apply alookup_not_In. intros Hin. specialize (Had next Hin). lia. }
    rewrite (add_h_once g n next a ad Hn Hh Hha).
    set (ad1 := ad ++ [(next, Scalar 2)]).
    set (g3 := aset n (a, ad1) g ++ [(next, (na_sym "H", [(n, Scalar 2)]))]).
    assert (Hn3 : alookup n g3 = Some (a, ad1)).
    { unfold g3. apply alookup_app_l. apply alookup_aset_eq. }
    rewrite (IH g3 n (next + 1) a ad1 Hn3).
    + unfold g3. rewrite (aset_app_present n _ (a, ad1) _ _ (alookup_aset_eq n (a, ad1) g)).
      rewrite aset_aset. unfold ad1. rewrite <- !app_assoc. simpl.
      rewrite hedges_S, hnodes_S. reflexivity.
    + intros k Hk. unfold g3 in Hk. rewrite nodes_app, (nodes_aset_present g n _ _ Hn) in Hk.
      apply in_app_or in Hk. destruct Hk as [Hk|[<-|[]]]; [specialize (Hnodes k Hk)|simpl]; lia.
    + intros v Hv. unfold ad1 in Hv. rewrite map_app in Hv.
      apply in_app_or in Hv. destruct Hv as [Hv|[<-|[]]]; [specialize (Had v Hv)|simpl]; lia.
Qed.

(** * closed form of the whole function *)

(* the number of hydrogens an entry receives, with the tables generated from the source;
   None = sum() raises *)
Definition cnt_of (a : nattr) (ad : adjl) : option nat :=
  match a_sym a with
  | None => Some O
  | Some s =>
      if smem s h_excluded then Some O
      else match slookup s valence_table with
           | None => Some O
           | Some v => match sum_half ad with
                       | None => None
                       | Some b => Some (Z.to_nat (h_count v b))
                       end
           end
  end.

Definition cnt_nat (a : nattr) (ad : adjl) : nat :=
  match cnt_of a ad with Some c => c | None => O end.

Definition labels_okb (es : graph) : bool :=
  forallb (fun e => is_some (cnt_of (fst (snd e)) (snd (snd e)))) es.

(* rewritten old entries, and the new hydrogen entries, when ids are handed out from [next] *)
Fixpoint build (es : graph) (next : Z) : graph * graph :=
  match es with
  | [] => ([], [])
  | (x, (a, ad)) :: t =>
      let c := cnt_nat a ad in
      let r := build t (next + Z.of_nat c) in
      ((x, (a, ad ++ hedges next c)) :: fst r, hnodes x next c ++ snd r)
  end.

Definition closed (g0 : graph) : graph :=
  let next := match max_node g0 with Some m => m + 1 | None => 0 end in
  fst (build g0 next) ++ snd (build g0 next).

(* one entry of the input, whether or not it passes the filter *)
Definition process (g : graph) (e : Z * (nattr * adjl)) : option graph :=
  let '(x, (a, _)) := e in
  if sym_excluded (a_sym a) then Some g else step g (x, a_sym a).

Lemma main_loop_cons g e t :
  main_loop g (candidates (e :: t)) =
  match process g e with Some g' => main_loop g' (candidates t) | None => None end.
Proof.
  destruct e as [x [a ad]]. unfold candidates, process. cbn [map filter snd].
  destruct (sym_excluded (a_sym a)); reflexivity.
Qed.

Lemma max_node_spec (g : graph) m :
  In m (nodes g) -> (forall k, In k (nodes g) -> k <= m) -> max_node g = Some m.
Proof. apply max_of_spec. Qed.

Lemma process_closed (g : graph) x a (ad : adjl) next :
  alookup x g = Some (a, ad) ->
  In (next - 1) (nodes g) ->
  (forall k, In k (nodes g) -> k < next) ->
  process g (x, (a, ad)) =
  match cnt_of a ad with Some c => Some (add_hs g x next c) | None => None end.
Proof.
  intros Hx Hmax Hub.
  assert (H0 : add_hs g x next 0 = g) by reflexivity.
  unfold process, cnt_of, sym_excluded, step.
  destruct (a_sym a) as [s|]; [|rewrite H0; reflexivity].
  destruct (smem s h_excluded); [rewrite H0; reflexivity|].
  destruct (slookup s valence_table) as [v|]; [|rewrite H0; reflexivity].
  unfold adj. rewrite Hx.
  destruct (sum_half ad) as [b|]; [|reflexivity].
  rewrite (max_node_spec g (next - 1) Hmax).
  - replace (next - 1 + 1) with next by lia. reflexivity.
  - intros k Hk. specialize (Hub k Hk). lia.
Qed.

Lemma app_cons_mid {A} (pre t hs h : list A) e :
  (pre ++ e :: t ++ hs) ++ h = (pre ++ [e]) ++ t ++ hs ++ h.
Proof. rewrite <- !app_assoc. simpl. rewrite <- !app_assoc. reflexivity. Qed.

Lemma loop_closed : forall (post pre hs : graph) next,
  NoDup (nodes (pre ++ post ++ hs)) ->
  (forall k, In k (nodes (pre ++ post ++ hs)) -> k < next) ->
  (post = [] \/ In (next - 1) (nodes (pre ++ post ++ hs))) ->
  (forall x a ad, In (x, (a, ad)) post -> forall v, In v (map fst ad) -> v < next) ->
  main_loop (pre ++ post ++ hs) (candidates post) =
  if labels_okb post
  then Some (pre ++ fst (build post next) ++ hs ++ snd (build post next))
  else None.
Proof.
  induction post as [|[x [a ad]] t IH]; intros pre hs next Hnd Hub Hmax Hadj.
  - simpl. rewrite app_nil_r. reflexivity.
  - rewrite main_loop_cons.
    assert (Hx : alookup x (pre ++ ((x, (a, ad)) :: t) ++ hs) = Some (a, ad)).
    { apply In_entry_alookup; [exact Hnd|]. apply in_or_app. right. left. reflexivity. }
    destruct Hmax as [Hmax|Hmax]; [discriminate|].
    rewrite (process_closed _ x a ad next Hx Hmax Hub).
    cbn [labels_okb forallb fst snd]. fold (labels_okb t).
    destruct (cnt_of a ad) as [c|] eqn:Ec; [|reflexivity]. cbn [is_some andb].
    assert (Hadx : forall v, In v (map fst ad) -> v < next).
    { intros v Hv. apply (Hadj x a ad); [left; reflexivity | exact Hv]. }
    rewrite (add_hs_closed c _ x next a ad Hx Hub Hadx).
    assert (Hpre : alookup x pre = None).
    { apply alookup_not_In. intros Hin. rewrite nodes_app in Hnd.
      apply (NoDup_app_disj _ _ x Hnd Hin). rewrite nodes_app. simpl. left. reflexivity. }
    rewrite (aset_app_absent x _ pre _ Hpre). cbn [app aset]. rewrite Z.eqb_refl.
    rewrite app_cons_mid.
    assert (Hnodes' : forall e' : Z * (nattr * adjl), fst e' = x ->
                      nodes ((pre ++ [e']) ++ t ++ hs ++ hnodes x next c)
                      = nodes (pre ++ ((x, (a, ad)) :: t) ++ hs) ++ zseq next c).
    { intros e' He'. rewrite !nodes_app, nodes_hnodes. simpl. rewrite ?nodes_app, He'.
      rewrite <- !app_assoc. simpl. rewrite <- !app_assoc. reflexivity. }
    etransitivity.
    { apply (IH (pre ++ [(x, (a, ad ++ hedges next c))]) (hs ++ hnodes x next c) (next + Z.of_nat c)).
      - rewrite Hnodes' by reflexivity. apply NoDup_app_intro; [exact Hnd | apply zseq_NoDup|].
        intros k Hk Hz. apply zseq_In in Hz. specialize (Hub k Hk). lia.
      - intros k Hk. rewrite Hnodes' in Hk by reflexivity. apply in_app_or in Hk. destruct Hk as [Hk|Hk].
        + specialize (Hub k Hk). lia.
        + apply zseq_In in Hk. lia.
      - right. rewrite Hnodes' by reflexivity. apply in_or_app. destruct c as [|c].
        + left. simpl. rewrite Z.add_0_r. exact Hmax.
        + right. apply zseq_In. lia.
      - intros y b bd Hin v Hv. specialize (Hadj y b bd (or_intror Hin) v Hv). lia. }
    cbn [build]. unfold cnt_nat. rewrite Ec. cbn [fst snd].
    destruct (labels_okb t); [|reflexivity]. f_equal.
    rewrite <- !app_assoc. reflexivity.
Qed.

Definition first_id (g0 : graph) : Z := match max_node g0 with Some m => m + 1 | None => 0 end.

Lemma first_id_bound g0 k : In k (nodes g0) -> k < first_id g0.
Proof.
  unfold first_id, max_node. fold (max_of (nodes g0)). intros Hk.
  destruct (max_of (nodes g0)) as [m|] eqn:E.
  - apply max_of_Some in E. destruct E as [_ E]. specialize (E k Hk). lia.
  - apply max_of_None in E. rewrite E in Hk. contradiction.
Qed.

Lemma first_id_pred g0 : g0 = [] \/ In (first_id g0 - 1) (nodes g0).
Proof.
  unfold first_id, max_node. fold (max_of (nodes g0)).
  destruct (max_of (nodes g0)) as [m|] eqn:E.
  - right. apply max_of_Some in E. destruct E as [E _]. replace (m + 1 - 1) with m by lia. exact E.
  - left. apply max_of_None in E. destruct g0; [reflexivity|discriminate].
Qed.

Lemma wf_entry_adj_bound g0 x a ad v :
  wf g0 -> In (x, (a, ad)) g0 -> In v (map fst ad) -> v < first_id g0.
Proof.
  intros Hwf Hin Hv. apply first_id_bound. apply has_node_In.
  apply in_map_iff in Hv. destruct Hv as ([v' l] & <- & Hvl). simpl.
  apply (wf_adj_has_node g0 x v' l Hwf). destruct Hwf as (Hnd & _).
  rewrite (In_entry_adj g0 x a ad Hnd Hin). exact Hvl.
Qed.

(* the whole function in closed form; it raises exactly when some entry's sum() raises *)
Theorem addh_closed g0 :
  wf g0 -> add_implicit_hydrogens g0 = if labels_okb g0 then Some (closed g0) else None.
Proof.
  intros Hwf. pose proof Hwf as (Hnd & _). unfold add_implicit_hydrogens, closed. fold (first_id g0).
  pose proof (loop_closed g0 [] [] (first_id g0)) as H. simpl in H. rewrite !app_nil_r in H.
  apply H.
  - exact Hnd.
  - apply first_id_bound.
  - apply first_id_pred.
  - intros x a ad Hin v Hv. eapply wf_entry_adj_bound; eauto.
Qed.

(** * facts about [build] *)

Fixpoint total (es : graph) : nat :=
  match es with [] => O | (_, (a, ad)) :: t => (cnt_nat a ad + total t)%nat end.

Lemma build_fst_nodes es : forall next, nodes (fst (build es next)) = nodes es.
Proof.
  induction es as [|[x [a ad]] t IH]; intros next; [reflexivity|].
  cbn [build fst]. unfold nodes in *. cbn [map fst]. rewrite IH. reflexivity.
Qed.

Lemma build_snd_nodes es : forall next, nodes (snd (build es next)) = zseq next (total es).
Proof.
  induction es as [|[x [a ad]] t IH]; intros next; [reflexivity|].
  cbn [build snd total]. rewrite nodes_app, nodes_hnodes, IH, zseq_app. reflexivity.
Qed.

Lemma build_fst_lookup es : forall next x a (ad : adjl),
  alookup x es = Some (a, ad) ->
  exists nx, next <= nx /\
    alookup x (fst (build es next)) = Some (a, ad ++ hedges nx (cnt_nat a ad)).
Proof.
  induction es as [|[y [b bd]] t IH]; intros next x a ad H; [discriminate|].
  cbn [build fst alookup] in *. destruct (x =? y).
  - injection H as -> ->. exists next. split; [lia|reflexivity].
  - destruct (IH (next + Z.of_nat (cnt_nat b bd)) x a ad H) as (nx & Hle & Hl).
    exists nx. split; [lia|exact Hl].
Qed.

Lemma build_fst_In es : forall next e,
  In e (fst (build es next)) ->
  exists x a ad nx, In (x, (a, ad)) es /\ next <= nx /\ e = (x, (a, ad ++ hedges nx (cnt_nat a ad))).
Proof.
  induction es as [|[y [b bd]] t IH]; intros next e H; [contradiction|].
  cbn [build fst] in H. destruct H as [<-|H].
  - exists y, b, bd, next. split; [left; reflexivity|]. split; [lia|reflexivity].
  - destruct (IH _ _ H) as (x & a & ad & nx & Hin & Hle & ->).
    exists x, a, ad, nx. split; [right; exact Hin|]. split; [lia|reflexivity].
Qed.

Lemma build_snd_In es : forall next h e,
  In (h, e) (snd (build es next)) ->
  exists x a ad, In (x, (a, ad)) es /\ e = (na_sym "H", [(x, Scalar 2)])
                 /\ (0 < cnt_nat a ad)%nat /\ next <= h.
Proof.
  induction es as [|[y [b bd]] t IH]; intros next h e H; [contradiction|].
  cbn [build snd] in H. apply in_app_or in H. destruct H as [H|H].
  - unfold hnodes in H. apply in_map_iff in H. destruct H as (h' & Heq & Hz).
    injection Heq as -> <-. apply zseq_In in Hz.
    exists y, b, bd. split; [left; reflexivity|]. split; [reflexivity|]. lia.
  - destruct (IH _ _ _ H) as (x & a & ad & Hin & -> & Hc & Hle).
    exists x, a, ad. split; [right; exact Hin|]. split; [reflexivity|]. lia.
Qed.

(** * the count of the model is the count of the statement *)

Lemma sum_half_bond_sum ad b : sum_half ad = Some b -> bond_sum_half ad = b.
Proof.
  revert b; induction ad as [|[v [o|p q|p q]] t IH]; simpl; intros b H; try discriminate.
  - injection H as <-. reflexivity.
  - destruct (sum_half t) as [s|]; [|discriminate]. injection H as <-. rewrite (IH s eq_refl). reflexivity.
Qed.

Lemma sum_half_is_some ad : is_some (sum_half ad) = all_scalarb ad.
Proof.
  induction ad as [|[v [o|p q|p q]] t IH]; simpl; try reflexivity.
  rewrite <- IH. destruct (sum_half t); reflexivity.
Qed.

Lemma all_scalarb_iff ad : all_scalarb ad = true <-> all_scalar ad.
Proof.
  unfold all_scalarb, all_scalar. rewrite forallb_forall. split.
  - intros H v l Hin. specialize (H (v, l) Hin). simpl in H. destruct l; try discriminate. eauto.
  - intros H [v l] Hin. destruct (H v l Hin) as [o ->]. reflexivity.
Qed.

Lemma h_count_formula v b : Z.to_nat (h_count v b) = h_formula v b.
Proof. reflexivity. Qed.

(* entry-level versions of [tabulated] and [expected_h] *)
Lemma cnt_of_expected (g0 : graph) x a (ad : adjl) c :
  alookup x g0 = Some (a, ad) -> cnt_of a ad = Some c -> expected_h g0 x = c.
Proof.
  intros Hx Hc. unfold expected_h, sym_of, node_attr, adj. rewrite Hx. cbv beta iota.
  unfold cnt_of in Hc. destruct (a_sym a) as [s|]; [|congruence].
  change ref_h_excluded with h_excluded. destruct (smem s h_excluded); [congruence|].
  rewrite <- valence_table_ok. destruct (slookup s valence_table) as [v|]; [|congruence].
  destruct (sum_half ad) as [b|] eqn:Eb; [|discriminate].
  rewrite (sum_half_bond_sum ad b Eb). rewrite <- h_count_formula. congruence.
Qed.

Lemma cnt_pos_tabulated (g0 : graph) x a (ad : adjl) :
  alookup x g0 = Some (a, ad) -> (0 < cnt_nat a ad)%nat -> tabulated g0 x.
Proof.
  intros Hx Hc. unfold tabulated, sym_of, node_attr. rewrite Hx. cbv beta iota.
  unfold cnt_nat, cnt_of in Hc. destruct (a_sym a) as [s|]; [|lia].
  destruct (smem s h_excluded) eqn:Ex; [lia|].
  destruct (slookup s valence_table) as [v|] eqn:Ev; [|lia].
  exists s, v. split; [reflexivity|]. split; [exact Ex|]. rewrite <- valence_table_ok. exact Ev.
Qed.

Lemma cnt_of_None_iff (g0 : graph) x a (ad : adjl) :
  alookup x g0 = Some (a, ad) -> (cnt_of a ad = None <-> tabulated g0 x /\ ~ all_scalar ad).
Proof.
  intros Hx. unfold tabulated, sym_of, node_attr. rewrite Hx. cbv beta iota. unfold cnt_of.
  rewrite <- all_scalarb_iff, <- sum_half_is_some.
  destruct (a_sym a) as [s|].
  - change ref_h_excluded with h_excluded. destruct (smem s h_excluded) eqn:Ex.
    + split; [discriminate|]. intros [(s' & v & [= <-] & H & _) _]. congruence.
    + destruct (slookup s valence_table) as [v|] eqn:Ev.
      * destruct (sum_half ad) as [b|]; cbn [is_some].
        -- split; [discriminate|]. intros [_ H]. exfalso. apply H. reflexivity.
        -- split; [|reflexivity]. intros _. split; [|discriminate].
           exists s, v. split; [reflexivity|]. split; [exact Ex|]. rewrite <- valence_table_ok. exact Ev.
      * split; [discriminate|]. intros [(s' & v & [= <-] & _ & H) _].
        rewrite <- valence_table_ok in H. congruence.
  - split; [discriminate|]. intros [(s' & v & H & _) _]. discriminate.
Qed.

(** * the closed form satisfies the specification *)

Lemma labels_okb_entry (g0 : graph) x a (ad : adjl) :
  labels_okb g0 = true -> In (x, (a, ad)) g0 -> cnt_of a ad = Some (cnt_nat a ad).
Proof.
  unfold labels_okb. rewrite forallb_forall. intros H Hin. specialize (H _ Hin). simpl in H.
  unfold cnt_nat. destruct (cnt_of a ad); [reflexivity|discriminate].
Qed.

Lemma old_lt_first_id g0 k : has_node g0 k = true -> k < first_id g0.
Proof. intros H. apply first_id_bound. apply has_node_In. exact H. Qed.

Lemma ge_first_id_new g0 k : first_id g0 <= k -> has_node g0 k = false.
Proof.
  intros H. destruct (has_node g0 k) eqn:E; [|reflexivity].
  apply old_lt_first_id in E. lia.
Qed.

Lemma closed_lookup_old (g0 : graph) x a (ad : adjl) :
  alookup x g0 = Some (a, ad) ->
  exists nx, first_id g0 <= nx /\
    alookup x (closed g0) = Some (a, ad ++ hedges nx (cnt_nat a ad)).
Proof.
  intros Hx. unfold closed. fold (first_id g0).
  destruct (build_fst_lookup g0 (first_id g0) x a ad Hx) as (nx & Hle & Hl).
  exists nx. split; [exact Hle|]. apply alookup_app_l. exact Hl.
Qed.

Lemma closed_lookup_new (g0 : graph) h e :
  has_node g0 h = false -> alookup h (closed g0) = Some e ->
  exists x a ad, In (x, (a, ad)) g0 /\ e = (na_sym "H", [(x, Scalar 2)])
                 /\ (0 < cnt_nat a ad)%nat /\ first_id g0 <= h.
Proof.
  intros Hnew Hl. unfold closed in Hl. fold (first_id g0) in Hl.
  rewrite alookup_app_r in Hl.
  - apply alookup_In in Hl. apply build_snd_In in Hl. exact Hl.
  - apply alookup_not_In. fold (nodes (fst (build g0 (first_id g0)))).
    rewrite build_fst_nodes. apply has_node_false_In. exact Hnew.
Qed.

Lemma filter_all_false {A} (f : A -> bool) l : (forall x, In x l -> f x = false) -> filter f l = [].
Proof.
  induction l as [|x t IH]; simpl; intros H; [reflexivity|].
  rewrite (H x (or_introl eq_refl)). apply IH. intros y Hy. apply H. right. exact Hy.
Qed.

Lemma filter_all_true {A} (f : A -> bool) l : (forall x, In x l -> f x = true) -> filter f l = l.
Proof.
  induction l as [|x t IH]; simpl; intros H; [reflexivity|].
  rewrite (H x (or_introl eq_refl)). f_equal. apply IH. intros y Hy. apply H. right. exact Hy.
Qed.

(* clause 3 of [preserve] implies clause 4 *)
Lemma appended_keeps_edges g0 g' :
  (forall x, has_node g0 x = true ->
     exists nw, adj g' x = adj g0 x ++ nw
                /\ forall v l, In (v, l) nw -> has_node g0 v = false /\ l = Scalar 2) ->
  forall x y, has_node g0 x = true -> has_node g0 y = true -> edge_label g' x y = edge_label g0 x y.
Proof.
  intros H x y Hx Hy. destruct (H x Hx) as (nw & Heq & Hnw). unfold edge_label. rewrite Heq, alookup_app.
  destruct (alookup y (adj g0 x)) as [l|]; [reflexivity|].
  destruct (alookup y nw) as [l|] eqn:E; [|reflexivity].
  apply alookup_In in E. destruct (Hnw y l E) as [Hf _]. congruence.
Qed.

Theorem closed_spec g0 :
  wf g0 -> labels_okb g0 = true ->
  preserve g0 (closed g0) /\ new_nodes g0 (closed g0) /\ count g0 (closed g0).
Proof.
  intros Hwf Hok. pose proof Hwf as (Hnd & _).
  assert (Hadj : forall x, has_node g0 x = true ->
            exists a ad nx, alookup x g0 = Some (a, ad) /\ first_id g0 <= nx /\
              cnt_of a ad = Some (cnt_nat a ad) /\
              alookup x (closed g0) = Some (a, ad ++ hedges nx (cnt_nat a ad))).
  { intros x Hx. apply has_node_alookup in Hx. destruct Hx as ([a ad] & Hx).
    destruct (closed_lookup_old g0 x a ad Hx) as (nx & Hle & Hl).
    exists a, ad, nx. split; [exact Hx|]. split; [exact Hle|]. split; [|exact Hl].
    apply (labels_okb_entry g0 x); [exact Hok | apply alookup_In; exact Hx]. }
  assert (Happ : forall x, has_node g0 x = true ->
            exists nw, adj (closed g0) x = adj g0 x ++ nw
                       /\ forall v l, In (v, l) nw -> has_node g0 v = false /\ l = Scalar 2).
  { intros x Hx. destruct (Hadj x Hx) as (a & ad & nx & Hl0 & Hle & _ & Hl).
    exists (hedges nx (cnt_nat a ad)). unfold adj. rewrite Hl0, Hl. split; [reflexivity|].
    intros v l Hin. unfold hedges in Hin. apply in_map_iff in Hin. destruct Hin as (h & [= <- <-] & Hz).
    apply zseq_In in Hz. split; [|reflexivity]. apply ge_first_id_new. lia. }
  split; [|split].
  - (* preserve *)
    split; [|split; [|split]].
    + exists (zseq (first_id g0) (total g0)). unfold closed. fold (first_id g0).
      rewrite nodes_app, build_fst_nodes, build_snd_nodes. reflexivity.
    + intros x Hx. destruct (Hadj x Hx) as (a & ad & nx & Hl0 & _ & _ & Hl).
      unfold node_attr. rewrite Hl0, Hl. reflexivity.
    + exact Happ.
    + apply appended_keeps_edges. exact Happ.
  - (* new nodes *)
    intros h Hh Hnew. apply has_node_alookup in Hh. destruct Hh as (e & Hl).
    destruct (closed_lookup_new g0 h e Hnew Hl) as (x & a & ad & Hin & -> & Hc & Hle).
    pose proof (In_entry_alookup g0 x (a, ad) Hnd Hin) as Hx.
    split; [|split].
    + unfold node_attr. rewrite Hl. reflexivity.
    + exists x. unfold adj. rewrite Hl. split; [reflexivity|]. split.
      * apply has_node_alookup. eauto.
      * apply (cnt_pos_tabulated g0 x a ad Hx Hc).
    + intros k Hk. apply old_lt_first_id in Hk. lia.
  - (* count *)
    intros x Hx. destruct (Hadj x Hx) as (a & ad & nx & Hl0 & Hle & Hc & Hl).
    rewrite (cnt_of_expected g0 x a ad _ Hl0 Hc).
    unfold new_neighbors, neighbors, adj. rewrite Hl. rewrite map_app, filter_app, map_fst_hedges.
    rewrite filter_all_false, filter_all_true; [simpl; apply zseq_length| |].
    + intros v Hv. apply zseq_In in Hv. rewrite ge_first_id_new by lia. reflexivity.
    + intros v Hv. apply in_map_iff in Hv. destruct Hv as ([v' l] & <- & Hvl). simpl.
      assert (Hold : has_node g0 v' = true).
      { apply (wf_adj_has_node g0 x v' l Hwf). unfold adj. rewrite Hl0. exact Hvl. }
      rewrite Hold. reflexivity.
Qed.

(** * well-formedness is preserved (directly along the computation) *)

Lemma wf_add_hs cnt : forall g n h, wf g -> wf (add_hs g n h cnt).
Proof.
  induction cnt as [|c IH]; intros g n h Hwf; [exact Hwf|].
  cbn [add_hs]. apply IH. apply wf_add_edge. apply wf_add_node. exact Hwf.
Qed.

Lemma wf_step g c g' : wf g -> step g c = Some g' -> wf g'.
Proof.
  destruct c as [n [s|]]; unfold step; intros Hwf H; [|injection H as <-; exact Hwf].
  destruct (slookup s valence_table) as [v|]; [|injection H as <-; exact Hwf].
  destruct (sum_half (adj g n)) as [b|]; [|discriminate].
  destruct (max_node g) as [m|]; [|discriminate].
  injection H as <-. apply wf_add_hs. exact Hwf.
Qed.

Lemma wf_main_loop cs : forall g g', wf g -> main_loop g cs = Some g' -> wf g'.
Proof.
  induction cs as [|c t IH]; intros g g' Hwf H; simpl in H; [injection H as <-; exact Hwf|].
  destruct (step g c) as [g1|] eqn:E; [|discriminate].
  apply (IH g1 g'); [eapply wf_step; eauto | exact H].
Qed.

Theorem addh_wf g g' : wf g -> add_implicit_hydrogens g = Some g' -> wf g'.
Proof. intros Hwf H. eapply wf_main_loop; eauto. Qed.

(** * main theorems *)

Theorem addh_spec_holds g0 g' :
  wf g0 -> add_implicit_hydrogens g0 = Some g' -> addh_spec g0 g'.
Proof.
  intros Hwf H. pose proof (addh_wf g0 g' Hwf H) as Hwf'.
  rewrite (addh_closed g0 Hwf) in H. destruct (labels_okb g0) eqn:Hok; [|discriminate].
  injection H as <-. destruct (closed_spec g0 Hwf Hok) as (H1 & H2 & H3).
  split; [exact Hwf'|]. split; [exact H1|]. split; [exact H2|exact H3].
Qed.

Lemma labels_okb_false_iff g0 :
  NoDup (nodes g0) -> (labels_okb g0 = false <-> raises_expected g0).
Proof.
  intros Hnd. unfold raises_expected. split.
  - intros H. unfold labels_okb in H.
    assert (Hex : existsb (fun e => negb (is_some (cnt_of (fst (snd e)) (snd (snd e))))) g0 = true).
    { clear Hnd. induction g0 as [|e t IH]; simpl in *; [discriminate|].
      destruct (is_some (cnt_of (fst (snd e)) (snd (snd e)))); simpl in *; [auto|reflexivity]. }
    apply existsb_exists in Hex. destruct Hex as ([x [a ad]] & Hin & Hc). simpl in Hc.
    pose proof (In_entry_alookup g0 x (a, ad) Hnd Hin) as Hx.
    destruct (cnt_of a ad) eqn:Ec; [discriminate|].
    apply (cnt_of_None_iff g0 x a ad Hx) in Ec. destruct Ec as [Ht Hs].
    exists x. split; [apply has_node_alookup; eauto|]. split; [exact Ht|].
    unfold adj. rewrite Hx. exact Hs.
  - intros (x & Hx & Ht & Hs). apply has_node_alookup in Hx. destruct Hx as ([a ad] & Hx).
    unfold adj in Hs. rewrite Hx in Hs.
    assert (Ec : cnt_of a ad = None) by (apply (cnt_of_None_iff g0 x a ad Hx); split; assumption).
    destruct (labels_okb g0) eqn:Hok; [|reflexivity].
    rewrite (labels_okb_entry g0 x a ad Hok (alookup_In _ _ _ Hx)) in Ec. discriminate.
Qed.

(* the function raises exactly when a tabulated atom carries a tuple/list bond label *)
Theorem addh_raises_iff g0 :
  wf g0 -> (add_implicit_hydrogens g0 = None <-> raises_expected g0).
Proof.
  intros Hwf. rewrite (addh_closed g0 Hwf). rewrite <- (labels_okb_false_iff g0 (proj1 Hwf)).
  destruct (labels_okb g0); split; congruence.
Qed.

Theorem addh_total g0 :
  wf g0 -> scalar_graph g0 -> exists g', add_implicit_hydrogens g0 = Some g'.
Proof.
  intros Hwf Hsc. destruct (add_implicit_hydrogens g0) as [g'|] eqn:E; [eauto|exfalso].
  apply (addh_raises_iff g0 Hwf) in E. destruct E as (x & _ & _ & Hs). apply Hs. apply Hsc.
Qed.

(** * idempotence *)

(* arithmetic core: after adding trunc(h/2) single bonds (never a negative number of them)
   nothing is missing any more *)
Section Arith.
Local Ltac Zify.zify_post_hook ::= Z.to_euclidean_division_equations.
Lemma quot_after_fill h : Z.to_nat (Z.quot (h - 2 * Z.of_nat (Z.to_nat (Z.quot h 2))) 2) = O.
Proof. lia. Qed.
End Arith.

Lemma h_count_after_fill v b :
  Z.to_nat (h_count v (b + 2 * Z.of_nat (Z.to_nat (h_count v b)))) = O.
Proof.
  unfold h_count. set (K := 2 * (Z.min h_cap (h_factor * v) - v)).
  replace (K - (b + 2 * Z.of_nat (Z.to_nat (Z.quot (K - b) 2))))
    with ((K - b) - 2 * Z.of_nat (Z.to_nat (Z.quot (K - b) 2))) by lia.
  apply quot_after_fill.
Qed.

Lemma sum_half_app_hedges ad b nx c :
  sum_half ad = Some b -> sum_half (ad ++ hedges nx c) = Some (b + 2 * Z.of_nat c).
Proof.
  revert b; induction ad as [|[v [o|p q|p q]] t IH]; intros b H; simpl in H; try discriminate.
  - injection H as <-. cbn [app]. revert nx. induction c as [|c IHc]; intros nx; [reflexivity|].
    rewrite hedges_S. cbn [sum_half]. rewrite IHc. f_equal. lia.
  - destruct (sum_half t) as [s|]; [|discriminate]. injection H as <-.
    cbn [app sum_half]. rewrite (IH s eq_refl). f_equal. lia.
Qed.

Lemma cnt_of_after_fill a ad nx c :
  cnt_of a ad = Some c -> cnt_of a (ad ++ hedges nx c) = Some O.
Proof.
  unfold cnt_of. destruct (a_sym a) as [s|]; [|reflexivity].
  destruct (smem s h_excluded); [reflexivity|].
  destruct (slookup s valence_table) as [v|]; [|reflexivity].
  destruct (sum_half ad) as [b|] eqn:Eb; [|discriminate]. intros [= <-].
  rewrite (sum_half_app_hedges ad b nx _ Eb). rewrite h_count_after_fill. reflexivity.
Qed.

Lemma cnt_of_H ad : cnt_of (na_sym "H") ad = Some O.
Proof. reflexivity. Qed.

Lemma build_zero es : forall next,
  (forall x a ad, In (x, (a, ad)) es -> cnt_of a ad = Some O) -> build es next = (es, []).
Proof.
  induction es as [|[x [a ad]] t IH]; intros next H; [reflexivity|].
  cbn [build]. unfold cnt_nat. rewrite (H x a ad (or_introl eq_refl)).
  rewrite IH by (intros y b bd Hin; apply (H y b bd); right; exact Hin).
  unfold hedges, hnodes. simpl. rewrite app_nil_r. reflexivity.
Qed.

Lemma closed_zero g :
  (forall x a ad, In (x, (a, ad)) g -> cnt_of a ad = Some O) ->
  labels_okb g = true /\ closed g = g.
Proof.
  intros H. split.
  - unfold labels_okb. apply forallb_forall. intros [x [a ad]] Hin. simpl. rewrite (H x a ad Hin). reflexivity.
  - unfold closed. rewrite build_zero by exact H. simpl. apply app_nil_r.
Qed.

Lemma closed_entries_zero g0 :
  labels_okb g0 = true ->
  forall x a ad, In (x, (a, ad)) (closed g0) -> cnt_of a ad = Some O.
Proof.
  intros Hok x a ad Hin. unfold closed in Hin. apply in_app_or in Hin. destruct Hin as [Hin|Hin].
  - apply build_fst_In in Hin. destruct Hin as (y & b & bd & nx & Hin0 & _ & [= -> -> ->]).
    apply cnt_of_after_fill. apply (labels_okb_entry g0 y b bd Hok Hin0).
  - apply build_snd_In in Hin. destruct Hin as (y & b & bd & _ & [= -> ->] & _). apply cnt_of_H.
Qed.

(* a second application returns exactly the same graph *)
Theorem addh_idempotent g g' :
  wf g -> add_implicit_hydrogens g = Some g' -> add_implicit_hydrogens g' = Some g'.
Proof.
  intros Hwf H. pose proof (addh_wf g g' Hwf H) as Hwf'.
  rewrite (addh_closed g Hwf) in H. destruct (labels_okb g) eqn:Hok; [|discriminate].
  injection H as <-. rewrite (addh_closed _ Hwf').
  destruct (closed_zero (closed g) (closed_entries_zero g Hok)) as [-> ->]. reflexivity.
Qed.

(** * the checker is sound *)

Lemma tabulatedb_iff g0 x : tabulatedb g0 x = true <-> tabulated g0 x.
Proof.
  unfold tabulatedb, tabulated. destruct (sym_of g0 x) as [s|].
  - rewrite andb_true_iff, negb_true_iff. split.
    + intros [H1 H2]. destruct (ref_valence s) as [v|] eqn:Ev; [|discriminate]. exists s, v. auto.
    + intros (s' & v & [= <-] & H1 & H2). rewrite H2. auto.
  - split; [discriminate|]. intros (s' & v & H & _). discriminate.
Qed.

Lemma raises_expectedb_iff g0 : raises_expectedb g0 = true <-> raises_expected g0.
Proof.
  unfold raises_expectedb, raises_expected. rewrite existsb_exists. split.
  - intros (x & Hin & H). apply andb_true_iff in H. destruct H as [Ht Hs].
    exists x. split; [apply has_node_In; exact Hin|]. split; [apply tabulatedb_iff; exact Ht|].
    rewrite <- all_scalarb_iff. apply negb_true_iff in Hs. congruence.
  - intros (x & Hx & Ht & Hs). exists x. split; [apply has_node_In; exact Hx|].
    apply andb_true_iff. split; [apply tabulatedb_iff; exact Ht|]. apply negb_true_iff.
    rewrite <- all_scalarb_iff in Hs. destruct (all_scalarb (adj g0 x)); [exfalso; auto | reflexivity].
Qed.

Lemma old_nodeb_sound g0 g' x :
  old_nodeb g0 g' x = true ->
  node_attr g' x = node_attr g0 x /\
  exists nw, adj g' x = adj g0 x ++ nw
             /\ forall v l, In (v, l) nw -> has_node g0 v = false /\ l = Scalar 2.
Proof.
  unfold old_nodeb. rewrite !andb_true_iff. intros [Ha [Hadj Hnw]]. split.
  - apply (option_eqb_true nattr_eqb nattr_eqb_true). exact Ha.
  - eexists. split; [apply adjl_eqb_true; exact Hadj|].
    intros v l Hin. rewrite forallb_forall in Hnw. specialize (Hnw (v, l) Hin). simpl in Hnw.
    apply andb_true_iff in Hnw. destruct Hnw as [H1 H2]. apply negb_true_iff in H1.
    apply label_eqb_eq in H2. auto.
Qed.

Lemma new_nodeb_sound g0 g' h :
  new_nodeb g0 g' h = true -> has_node g0 h = false ->
  node_attr g' h = Some (na_sym "H")
  /\ (exists x, adj g' h = [(x, Scalar 2)] /\ has_node g0 x = true /\ tabulated g0 x)
  /\ (forall k, has_node g0 k = true -> k < h).
Proof.
  unfold new_nodeb. intros H Hnew. rewrite Hnew in H. cbn [orb] in H.
  rewrite !andb_true_iff in H. destruct H as [[Ha Hadj] Hlt]. split; [|split].
  - apply (option_eqb_true nattr_eqb nattr_eqb_true). exact Ha.
  - destruct (adj g' h) as [|[x l] [|? ?]]; try discriminate.
    rewrite !andb_true_iff in Hadj. destruct Hadj as [[Hl Hx] Ht].
    apply label_eqb_eq in Hl. subst l. exists x. split; [reflexivity|]. split; [exact Hx|].
    apply tabulatedb_iff. exact Ht.
  - intros k Hk. rewrite forallb_forall in Hlt. apply has_node_In in Hk.
    specialize (Hlt k Hk). apply Z.ltb_lt. exact Hlt.
Qed.

Theorem addh_okb_sound g0 g' : addh_okb g0 (Some g') = true -> addh_spec g0 g' /\ ~ raises_expected g0.
Proof.
  unfold addh_okb. rewrite !andb_true_iff.
  intros [[[[[Hnr Hwf] Hpre] Hold] Hnew] Hcnt].
  rewrite forallb_forall in Hold, Hnew, Hcnt.
  split.
  - split; [apply wfb_wf; exact Hwf|].
    assert (Happ : forall x, has_node g0 x = true ->
              exists nw, adj g' x = adj g0 x ++ nw
                         /\ forall v l, In (v, l) nw -> has_node g0 v = false /\ l = Scalar 2).
    { intros x Hx. apply has_node_In in Hx. apply (old_nodeb_sound g0 g' x (Hold x Hx)). }
    split; [|split].
    + split; [|split; [|split]].
      * exists (skipn (List.length g0) (nodes g')). unfold prefix_nodesb in Hpre.
        apply (list_eqb_true Z.eqb) in Hpre; [|intros ? ?; apply Z.eqb_eq].
        rewrite <- Hpre. symmetry. apply firstn_skipn.
      * intros x Hx. apply has_node_In in Hx. apply (old_nodeb_sound g0 g' x (Hold x Hx)).
      * exact Happ.
      * apply appended_keeps_edges. exact Happ.
    + intros h Hh Hnw. apply has_node_In in Hh. apply (new_nodeb_sound g0 g' h (Hnew h Hh) Hnw).
    + intros x Hx. apply has_node_In in Hx. specialize (Hcnt x Hx). unfold countb in Hcnt.
      apply Nat.eqb_eq. exact Hcnt.
  - rewrite <- raises_expectedb_iff. apply negb_true_iff in Hnr. congruence.
Qed.

Theorem addh_okb_sound_raise g0 : addh_okb g0 None = true -> raises_expected g0.
Proof. apply raises_expectedb_iff. Qed.

(** * the clauses, one by one (as used in Props/C12.v) *)

Theorem addh_preserve g0 g' : wf g0 -> add_implicit_hydrogens g0 = Some g' -> preserve g0 g'.
Proof. intros Hwf H. apply (addh_spec_holds g0 g' Hwf H). Qed.

Theorem addh_new_nodes g0 g' : wf g0 -> add_implicit_hydrogens g0 = Some g' -> new_nodes g0 g'.
Proof. intros Hwf H. apply (addh_spec_holds g0 g' Hwf H). Qed.

Theorem addh_count g0 g' : wf g0 -> add_implicit_hydrogens g0 = Some g' -> count g0 g'.
Proof. intros Hwf H. apply (addh_spec_holds g0 g' Hwf H). Qed.

(* new ids: pairwise distinct, distinct from and greater than every old id *)
Theorem addh_fresh g0 g' :
  wf g0 -> add_implicit_hydrogens g0 = Some g' ->
  NoDup (nodes g') /\
  forall h, has_node g' h = true -> has_node g0 h = false -> forall k, has_node g0 k = true -> k < h.
Proof.
  intros Hwf H. destruct (addh_spec_holds g0 g' Hwf H) as ((Hnd & _) & _ & Hnew & _).
  split; [exact Hnd|]. intros h Hh Hn. apply (Hnew h Hh Hn).
Qed.

(* the count with the formula written out *)
Theorem addh_count_tabulated g0 g' x s v :
  wf g0 -> add_implicit_hydrogens g0 = Some g' ->
  sym_of g0 x = Some s -> ~ In s ["R"; "H"]%string -> ref_valence s = Some v ->
  List.length (new_neighbors g0 g' x)
  = Z.to_nat (Z.quot (2 * (Z.min 8 (2 * v) - v) - bond_sum_half (adj g0 x)) 2).
Proof.
  intros Hwf H Hs Hex Hv.
  assert (Hx : has_node g0 x = true).
  { unfold sym_of, node_attr in Hs. apply has_node_alookup. destruct (alookup x g0); [eauto|discriminate]. }
  rewrite (addh_count g0 g' Hwf H x Hx). unfold expected_h. rewrite Hs.
  assert (Hm : smem s ref_h_excluded = false).
  { destruct (smem s ref_h_excluded) eqn:E; [|reflexivity]. apply smem_In in E. contradiction. }
  rewrite Hm, Hv. reflexivity.
Qed.

Theorem addh_count_none g0 g' x :
  wf g0 -> add_implicit_hydrogens g0 = Some g' ->
  has_node g0 x = true -> ~ tabulated g0 x -> new_neighbors g0 g' x = [].
Proof.
  intros Hwf H Hx Hnt. apply length_zero_iff_nil. rewrite (addh_count g0 g' Hwf H x Hx).
  unfold expected_h. destruct (sym_of g0 x) as [s|] eqn:Es; [|reflexivity].
  destruct (smem s ref_h_excluded) eqn:Em; [reflexivity|].
  destruct (ref_valence s) as [v|] eqn:Ev; [|reflexivity].
  exfalso. apply Hnt. exists s, v. auto.
Qed.

(** * the checker is also complete: it accepts exactly the outputs that satisfy the specification *)

Lemma old_nodeb_complete g0 g' x :
  node_attr g' x = node_attr g0 x ->
  (exists nw, adj g' x = adj g0 x ++ nw
              /\ forall v l, In (v, l) nw -> has_node g0 v = false /\ l = Scalar 2) ->
  old_nodeb g0 g' x = true.
Proof.
  intros Ha (nw & Heq & Hnw). unfold old_nodeb. rewrite Ha, Heq.
  rewrite skipn_app, skipn_all, Nat.sub_diag. cbn [app skipn].
  rewrite (option_eqb_refl nattr_eqb nattr_eqb_refl), adjl_eqb_refl. cbn [andb].
  apply forallb_forall. intros [v l] Hin. destruct (Hnw v l Hin) as [H1 ->]. simpl. rewrite H1. reflexivity.
Qed.

Lemma new_nodeb_complete g0 g' h :
  (has_node g0 h = false ->
   node_attr g' h = Some (na_sym "H")
   /\ (exists x, adj g' h = [(x, Scalar 2)] /\ has_node g0 x = true /\ tabulated g0 x)
   /\ (forall k, has_node g0 k = true -> k < h)) ->
  new_nodeb g0 g' h = true.
Proof.
  intros H. unfold new_nodeb. destruct (has_node g0 h) eqn:Eh; [reflexivity|].
  destruct (H eq_refl) as (Ha & (x & Hadj & Hx & Ht) & Hlt). cbn [orb].
  rewrite Ha, Hadj, Hx. apply tabulatedb_iff in Ht. rewrite Ht.
  rewrite (option_eqb_refl nattr_eqb nattr_eqb_refl). cbn [label_eqb andb]. rewrite Z.eqb_refl. cbn [andb].
  apply forallb_forall. intros k Hk. apply Z.ltb_lt. apply Hlt. apply has_node_In. exact Hk.
Qed.

Theorem addh_okb_complete g0 g' :
  addh_spec g0 g' -> ~ raises_expected g0 -> addh_okb g0 (Some g') = true.
Proof.
  intros (Hwf & ((hs & Hn) & Hattr & Happ & _) & Hnew & Hcnt) Hnr.
  unfold addh_okb. rewrite !andb_true_iff. repeat split.
  - apply negb_true_iff. destruct (raises_expectedb g0) eqn:E; [|reflexivity].
    apply raises_expectedb_iff in E. contradiction.
  - apply wf_wfb. exact Hwf.
  - unfold prefix_nodesb. rewrite Hn.
    replace (List.length g0) with (List.length (nodes g0) + 0)%nat
      by (unfold nodes; rewrite map_length; lia).
    rewrite firstn_app_2. cbn [firstn]. rewrite app_nil_r. apply list_eqb_refl. apply Z.eqb_refl.
  - apply forallb_forall. intros x Hx. apply has_node_In in Hx.
    apply old_nodeb_complete; [apply Hattr; exact Hx | apply Happ; exact Hx].
  - apply forallb_forall. intros h Hh. apply has_node_In in Hh.
    apply new_nodeb_complete. intros Hn0. apply (Hnew h Hh Hn0).
  - apply forallb_forall. intros x Hx. apply has_node_In in Hx. unfold countb.
    apply Nat.eqb_eq. apply Hcnt. exact Hx.
Qed.

(* the checker decides the specification exactly *)
Theorem addh_okb_exact g0 g' :
  addh_okb g0 (Some g') = true <-> addh_spec g0 g' /\ ~ raises_expected g0.
Proof.
  split; [apply addh_okb_sound|]. intros [H1 H2]. apply addh_okb_complete; assumption.
Qed.

(* in particular it accepts whatever the model returns *)
Theorem addh_okb_model g0 : wf g0 -> addh_okb g0 (add_implicit_hydrogens g0) = true.
Proof.
  intros Hwf. destruct (add_implicit_hydrogens g0) as [g'|] eqn:E.
  - apply addh_okb_complete; [apply addh_spec_holds; assumption|].
    intros Hr. apply (addh_raises_iff g0 Hwf) in Hr. congruence.
  - apply raises_expectedb_iff. apply (addh_raises_iff g0 Hwf). exact E.
Qed.
