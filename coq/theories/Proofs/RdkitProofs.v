(** Proofs for the RDKit bridge (C19): the model of graph_to_mol / mol_to_graph satisfies the
    round-trip and refusal specification for ALL graphs of the domain. *)
From Coq Require Import ZArith List Bool String Lia FinFun.
From FGV Require Import Base.Util Base.UtilFacts Base.Bond Base.NX Base.NXFacts
  Gen.RdkitMaps Model.Rdkit Spec.RdkitRef Spec.RdkitSpec Proofs.RdkitTables.
Import ListNotations.
Open Scope Z_scope.
Open Scope list_scope.

(** * Part A: the node loop *)

Lemma set_nth_map_last l s k0 k :
  set_nth_map (l ++ [(s, k0)]) (List.length l) k = l ++ [(s, k)].
Proof. induction l as [|[s' k'] t IH]; simpl; [reflexivity|]. rewrite IH. reflexivity. Qed.

Lemma node_step_err ca ig m im n d e :
  node_err ca ig d = Some e -> node_step ca ig (m, im) n d = Err e.
Proof.
  unfold node_step. destruct (a_sym d) as [s|] eqn:Es; [rewrite norm_ref|];
    unfold node_err; rewrite Es; [|congruence].
  destruct (is_true (a_islab d)).
  - destruct (a_labels d); congruence.
  - destruct (ca (ref_norm s)) as [x|]; [|congruence]. cbn [add_atom].
    destruct (if ig then None else a_aam d) as [k|]; [|discriminate].
    destruct (0 <=? k); simpl; [|discriminate]. destruct (k <=? int_max); simpl; [discriminate|congruence].
Qed.

Lemma node_step_ok ca ig m im n d :
  node_err ca ig d = None ->
  node_step ca ig (m, im) n d =
  Ok (mkMol (m_atoms m ++ [atom_of ca ig d]) (m_bonds m), aset n (Z.of_nat (List.length (m_atoms m))) im).
Proof.
  unfold node_step. destruct (a_sym d) as [s|] eqn:Es; [rewrite norm_ref|];
    unfold node_err, atom_of, mapnum_of; rewrite Es; [|discriminate].
  destruct (is_true (a_islab d)).
  - destruct (a_labels d); discriminate.
  - destruct (ca (ref_norm s)) as [x|]; [|discriminate]. cbn [add_atom].
    destruct (if ig then None else a_aam d) as [k|]; [|reflexivity].
    destruct (0 <=? k); simpl; [|reflexivity]. destruct (k <=? int_max); simpl; [|discriminate].
    intros _. unfold set_map_num. cbn [m_atoms m_bonds]. rewrite Nat2Z.id, set_nth_map_last. reflexivity.
Qed.

Lemma node_loop_err ca ig : forall l st e,
  first_err ca ig l = Some e -> node_loop ca ig st l = Err e.
Proof.
  induction l as [|[n d] t IH]; intros [m im] e; cbn [first_err node_loop]; [discriminate|].
  destruct (node_err ca ig d) as [e'|] eqn:E.
  - intros [= ->]. rewrite (node_step_err _ _ _ _ _ _ _ E). reflexivity.
  - intros H. rewrite (node_step_ok _ _ _ _ _ _ E). cbn [bind]. apply IH. exact H.
Qed.

Lemma index_of_None u l : index_of u l = None <-> ~ In u l.
Proof.
  induction l as [|x t IH]; simpl; [tauto|]. destruct (Z.eqb_spec u x) as [->|Hne].
  - split; [discriminate|]. intros H. exfalso. apply H. left. reflexivity.
  - destruct (index_of u t); simpl.
    + split; [discriminate|]. intros H. exfalso. apply H. right.
      destruct (in_dec Z.eq_dec u t) as [Hin|Hnin]; [exact Hin|]. apply IH in Hnin. discriminate.
    + split; [|reflexivity]. intros _ [H|H]; [congruence|]. revert H. apply IH. reflexivity.
Qed.

Lemma node_loop_ok ca ig : forall l m im,
  first_err ca ig l = None -> NoDup (map fst l) ->
  exists im',
    node_loop ca ig (m, im) l =
      Ok (mkMol (m_atoms m ++ map (fun x => atom_of ca ig (snd x)) l) (m_bonds m), im')
    /\ forall u, alookup u im' =
         match index_of u (map fst l) with
         | Some i => Some (Z.of_nat (List.length (m_atoms m) + i))
         | None => alookup u im
         end.
Proof.
  induction l as [|[n d] t IH]; intros m im Herr Hnd; cbn [node_loop map fst snd index_of].
  - exists im. rewrite app_nil_r. split; [destruct m; reflexivity|]. reflexivity.
  - cbn [first_err] in Herr. destruct (node_err ca ig d) eqn:E; [discriminate|].
    rewrite (node_step_ok _ _ _ _ _ _ E). cbn [bind]. cbn [map fst] in Hnd.
    inversion Hnd as [|? ? Hni Hnd']; subst.
    destruct (IH (mkMol (m_atoms m ++ [atom_of ca ig d]) (m_bonds m))
                 (aset n (Z.of_nat (List.length (m_atoms m))) im) Herr Hnd') as (im' & H1 & H2).
    exists im'. cbn [m_atoms m_bonds] in H1, H2. rewrite <- app_assoc in H1. split; [exact H1|].
    intros u. rewrite H2. rewrite app_length. simpl.
    destruct (Z.eqb_spec u n) as [->|Hne].
    + apply index_of_None in Hni. rewrite Hni. rewrite alookup_aset_eq. f_equal. lia.
    + destruct (index_of u (map fst t)) as [i|]; simpl; [f_equal; lia|].
      apply alookup_aset_neq. exact Hne.
Qed.

(** * Part B: the edge loop *)

(* an unordered pair of indices, as a canonical ordered pair *)
Definition ukey (p : Z * Z) : Z * Z := (Z.min (fst p) (snd p), Z.max (fst p) (snd p)).
Definition bkey (b : Z * Z * string) : Z * Z := ukey (fst b).
Definition ekey (e : Z * Z * label) : Z * Z := ukey (fst e).

Lemma ukey_eq a b c d : ukey (a, b) = ukey (c, d) <-> (a = c /\ b = d) \/ (a = d /\ b = c).
Proof.
  unfold ukey; simpl. split.
  - intros [= H1 H2]. lia.
  - intros [[-> ->]|[-> ->]]; f_equal; lia.
Qed.

Lemma match_ukey x y b e :
  ((x =? b) && (y =? e)) || ((x =? e) && (y =? b)) = true <-> ukey (x, y) = ukey (b, e).
Proof.
  rewrite ukey_eq, orb_true_iff, !andb_true_iff, !Z.eqb_eq. tauto.
Qed.

Lemma bonded_false m i j : ~ In (ukey (i, j)) (map bkey (m_bonds m)) -> bonded m i j = false.
Proof.
  unfold bonded. induction (m_bonds m) as [|[[b e] t] r IH]; simpl; intros H; [reflexivity|].
  apply orb_false_iff. split.
  - destruct (((b =? i) && (e =? j)) || ((b =? j) && (e =? i))) eqn:E; [|reflexivity].
    exfalso. apply H. left. unfold bkey; simpl. apply match_ukey in E. exact E.
  - apply IH. intros Hin. apply H. right. exact Hin.
Qed.

Definition translates (im : list (Z * Z)) (e : Z * Z * label) (b : Z * Z * string) : Prop :=
  alookup (fst (fst e)) im = Some (fst (fst b)) /\ alookup (snd (fst e)) im = Some (snd (fst b))
  /\ to_type (snd e) = Ok (snd b).

Lemma NoDup_app_l {A} (l1 l2 : list A) : NoDup (l1 ++ l2) -> NoDup l1.
Proof.
  induction l1 as [|x t IH]; simpl; intros H; [constructor|]. inversion H; subst.
  constructor; [rewrite in_app_iff in *; tauto | auto].
Qed.

Lemma NoDup_app_notin {A} (l1 l2 : list A) x : NoDup (l1 ++ x :: l2) -> ~ In x l1.
Proof.
  induction l1 as [|y t IH]; simpl; intros H; [tauto|]. inversion H; subst.
  intros [->|Hin]; [apply H2; apply in_or_app; right; left; reflexivity | exact (IH H3 Hin)].
Qed.

Lemma edge_loop_ok im : forall es bl m,
  Forall2 (translates im) es bl ->
  (forall b, In b bl -> fst (fst b) <> snd (fst b)) ->
  NoDup (map bkey (m_bonds m ++ bl)) ->
  edge_loop im m es = Ok (mkMol (m_atoms m) (m_bonds m ++ bl)).
Proof.
  induction es as [|[[u v] l] es IH]; intros bl m HF Hself Hnd; inversion HF as [|? [[i j] t] ? bl' Htr HF']; subst.
  - rewrite app_nil_r. destruct m; reflexivity.
  - cbn [edge_loop edge_step]. destruct Htr as (H1 & H2 & H3). cbn [fst snd] in H1, H2, H3.
    rewrite H1, H2, H3. cbn [bind]. unfold add_bond.
    assert (Hij : i <> j) by (apply (Hself (i, j, t)); left; reflexivity).
    destruct (Z.eqb_spec i j) as [Heq|_]; [contradiction|].
    rewrite bonded_false.
    + cbn [bind]. rewrite (IH bl' (mkMol (m_atoms m) (m_bonds m ++ [(i, j, t)]))); cbn [m_atoms m_bonds].
      * rewrite <- app_assoc. reflexivity.
      * exact HF'.
      * intros b Hb. apply Hself. right. exact Hb.
      * rewrite <- app_assoc. exact Hnd.
    + rewrite map_app in Hnd. cbn [map] in Hnd. apply NoDup_app_notin in Hnd. exact Hnd.
Qed.

Lemma edge_loop_not_value im : forall es m, edge_loop im m es <> Err ValueError.
Proof.
  induction es as [|[[u v] l] es IH]; intros m; cbn [edge_loop edge_step]; [discriminate|].
  destruct (alookup u im) as [i|]; [|discriminate]. destruct (alookup v im) as [j|]; [|discriminate].
  unfold to_type, to_type_with.
  destruct l as [o|g h|g h]; try discriminate.
  destruct (alookup o g2m_bond_map) as [t|]; [|discriminate]. cbn [bind]. unfold add_bond.
  destruct (i =? j); [discriminate|]. destruct (bonded m i j); [discriminate|]. cbn [bind]. apply IH.
Qed.

(** the edges of a well-formed graph: every unordered pair once *)

Lemma NoDup_app_intro {A} (l1 l2 : list A) :
  NoDup l1 -> NoDup l2 -> (forall x, In x l1 -> ~ In x l2) -> NoDup (l1 ++ l2).
Proof.
  induction l1 as [|x t IH]; simpl; intros H1 H2 H; [exact H2|]. inversion H1; subst.
  constructor.
  - rewrite in_app_iff. intros [Hx|Hx]; [contradiction|]. apply (H x); [left; reflexivity|exact Hx].
  - apply IH; auto.
Qed.

Lemma NoDup_fst_filter {A} (f : Z * A -> bool) l : NoDup (map fst l) -> NoDup (map fst (filter f l)).
Proof.
  induction l as [|x t IH]; simpl; intros H; [constructor|]. inversion H; subst.
  destruct (f x); simpl; [constructor|]; auto.
  intros Hin. apply H2. apply in_map_iff in Hin. destruct Hin as (y & Hy & Hin).
  apply filter_In in Hin. apply in_map_iff. exists y. tauto.
Qed.

Lemma NoDup_map_rel {A B C} (f : A -> B) (h : A -> C) l :
  NoDup (map f l) -> (forall x y, In x l -> In y l -> h x = h y -> f x = f y) -> NoDup (map h l).
Proof.
  induction l as [|a t IH]; simpl; intros Hnd Hrel; [constructor|]. inversion Hnd; subst.
  constructor.
  - intros Hin. apply in_map_iff in Hin. destruct Hin as (y & Hy & Hin). apply H1.
    apply in_map_iff. exists y. split; [|exact Hin]. apply Hrel; auto.
  - apply IH; [assumption|]. intros x y Hx Hy. apply Hrel; auto.
Qed.

Lemma edges_aux_keys : forall g seen,
  NoDup (nodes g) -> (forall n a ad, In (n, (a, ad)) g -> NoDup (map fst ad)) ->
  NoDup (map ekey (edges_aux seen g)).
Proof.
  induction g as [|[n [a ad]] t IH]; intros seen Hnd Had; cbn [edges_aux]; [constructor|].
  cbn [nodes map fst] in Hnd. inversion Hnd as [|? ? Hni Hnd']; subst.
  rewrite map_app. apply NoDup_app_intro.
  - rewrite map_map.
    rewrite (map_ext _ (fun x => ukey (n, fst x))) by (intros [v l]; reflexivity).
    rewrite <- (map_map fst (fun v => ukey (n, v))).
    apply FinFun.Injective_map_NoDup.
    + intros v1 v2 H. apply ukey_eq in H. destruct H as [[_ H]|[H1 H2]]; congruence.
    + apply NoDup_fst_filter. apply (Had n a ad). left. reflexivity.
  - apply IH; [exact Hnd'|]. intros n' a' ad' Hin. apply (Had n' a' ad'). right. exact Hin.
  - intros x Hx1 Hx2. apply in_map_iff in Hx1. destruct Hx1 as ([[u1 v1] l1] & <- & H1).
    apply in_map_iff in H1. destruct H1 as ([v l] & [= <- <- <-] & _).
    apply in_map_iff in Hx2. destruct Hx2 as ([[u2 v2] l2] & Hk & H2).
    apply in_edges_aux in H2. destruct H2 as (a2 & ad2 & Hin2 & _ & Hns).
    unfold ekey in Hk. cbn [fst] in Hk. apply ukey_eq in Hk. destruct Hk as [[Hk _]|[_ Hk]].
    + apply Hni. subst u2. change (In n (map fst t)). apply in_map_iff. exists (n, (a2, ad2)). auto.
    + apply Hns. left. congruence.
Qed.

Lemma edges_keys_NoDup g : wf g -> NoDup (map ekey (edges g)).
Proof.
  intros (Hnd & Hadj & _). apply edges_aux_keys; [exact Hnd|].
  intros n a ad Hin. rewrite <- (In_entry_adj g n a ad Hnd Hin). apply Hadj.
Qed.

(** * Part C: mol_to_graph *)

Definition atom_entry (p : Z * (string * Z)) : Z * (nattr * adjl) :=
  (fst p, (atom_attr (fst (snd p)) (snd (snd p)), [])).

Definition add_atom_node (g : graph) (p : Z * (string * Z)) : graph :=
  let '(idx, (sym, mapnum)) := p in add_node g idx (atom_attr sym mapnum).

Definition add_bond_edge (g : graph) (b : Z * Z * string) : graph :=
  let '(i, j, t) := b in add_edge g i j (Scalar (to_order t)).

Lemma mol_to_graph_unfold m :
  mol_to_graph m =
  fold_left add_bond_edge (m_bonds m) (fold_left add_atom_node (enumerate (m_atoms m)) empty_graph).
Proof. reflexivity. Qed.

Lemma add_atoms_fold : forall (l : list (string * Z)) b acc,
  (forall k, In k (nodes acc) -> k < Z.of_nat b) ->
  fold_left add_atom_node (combine (map Z.of_nat (seq b (List.length l))) l) acc
  = acc ++ map atom_entry (combine (map Z.of_nat (seq b (List.length l))) l).
Proof.
  induction l as [|[s k] t IH]; intros b acc Hacc; cbn [List.length seq map combine fold_left].
  - rewrite app_nil_r. reflexivity.
  - assert (Hnone : alookup (Z.of_nat b) acc = None).
    { apply alookup_None. intros Hin. apply Hacc in Hin. lia. }
    cbn [add_atom_node]. unfold add_node at 1. rewrite Hnone.
    rewrite (IH (S b)).
    + rewrite <- app_assoc. reflexivity.
    + intros k0 Hin. unfold nodes in Hin. rewrite map_app, in_app_iff in Hin. destruct Hin as [Hin|Hin].
      * apply Hacc in Hin. lia.
      * simpl in Hin. destruct Hin as [<-|[]]. lia.
Qed.

Definition atom_graph (atoms : list (string * Z)) : graph := map atom_entry (enumerate atoms).

Lemma atom_graph_fold atoms : fold_left add_atom_node (enumerate atoms) empty_graph = atom_graph atoms.
Proof.
  unfold enumerate, atom_graph. rewrite (add_atoms_fold atoms 0 empty_graph); [reflexivity|].
  intros k [].
Qed.

Lemma map_fst_combine {A B} : forall (l1 : list A) (l2 : list B),
  List.length l1 = List.length l2 -> map fst (combine l1 l2) = l1.
Proof.
  induction l1 as [|a t IH]; intros [|b t2]; simpl; intros H; try reflexivity; try discriminate.
  f_equal. apply IH. lia.
Qed.

Lemma nodes_atom_graph atoms : nodes (atom_graph atoms) = map Z.of_nat (seq 0 (List.length atoms)).
Proof.
  unfold atom_graph, nodes, enumerate. rewrite map_map.
  rewrite (map_ext _ fst) by (intros [i x]; reflexivity).
  apply map_fst_combine. rewrite map_length, seq_length. reflexivity.
Qed.

Lemma alookup_atom_entries : forall (l : list (string * Z)) b i x,
  nth_error l i = Some x ->
  alookup (Z.of_nat (b + i)) (map atom_entry (combine (map Z.of_nat (seq b (List.length l))) l))
  = Some (atom_attr (fst x) (snd x), []).
Proof.
  induction l as [|y t IH]; intros b [|i] x H; cbn [nth_error] in H; try discriminate;
    cbn [List.length seq map combine alookup atom_entry fst snd].
  - injection H as ->. rewrite Nat.add_0_r, Z.eqb_refl. reflexivity.
  - destruct (Z.eqb_spec (Z.of_nat (b + S i)) (Z.of_nat b)) as [Heq|_]; [lia|].
    replace (b + S i)%nat with (S b + i)%nat by lia. apply IH. exact H.
Qed.

Lemma alookup_atom_graph atoms i x :
  nth_error atoms i = Some x ->
  alookup (Z.of_nat i) (atom_graph atoms) = Some (atom_attr (fst x) (snd x), []).
Proof. intros H. apply (alookup_atom_entries atoms 0 i x H). Qed.

Lemma adj_atom_graph atoms u : adj (atom_graph atoms) u = [].
Proof.
  unfold adj. destruct (alookup u (atom_graph atoms)) as [[a ad]|] eqn:E; [|reflexivity].
  apply alookup_In in E. unfold atom_graph in E. apply in_map_iff in E.
  destruct E as (p & Hp & _). unfold atom_entry in Hp. congruence.
Qed.

Lemma wf_fold {A} (f : graph -> A -> graph) :
  (forall g a, wf g -> wf (f g a)) -> forall l g, wf g -> wf (fold_left f l g).
Proof. intros Hf. induction l as [|a t IH]; simpl; intros g Hg; auto. Qed.

Lemma wf_mol_to_graph m : wf (mol_to_graph m).
Proof.
  rewrite mol_to_graph_unfold. apply wf_fold.
  - intros g [[i j] t] Hg. apply wf_add_edge. exact Hg.
  - apply wf_fold; [|apply wf_empty]. intros g [idx [sym k]] Hg. apply wf_add_node. exact Hg.
Qed.

(* the effect of the bond loop on edge labels: the last bond over a pair wins *)
Fixpoint elast (bl : list (Z * Z * string)) (x y : Z) (d : option label) : option label :=
  match bl with
  | [] => d
  | (b, e, t) :: r =>
      elast r x y (if ((x =? b) && (y =? e)) || ((x =? e) && (y =? b))
                   then Some (Scalar (to_order t)) else d)
  end.

Lemma edge_label_add_bonds : forall bl g x y,
  edge_label (fold_left add_bond_edge bl g) x y = elast bl x y (edge_label g x y).
Proof.
  induction bl as [|[[b e] t] r IH]; intros g x y; cbn [fold_left elast]; [reflexivity|].
  rewrite IH. cbn [add_bond_edge]. rewrite edge_label_add_edge. reflexivity.
Qed.

Lemma elast_nomatch : forall bl x y d,
  (forall b, In b bl -> bkey b <> ukey (x, y)) -> elast bl x y d = d.
Proof.
  induction bl as [|[[b e] t] r IH]; intros x y d H; cbn [elast]; [reflexivity|].
  destruct (((x =? b) && (y =? e)) || ((x =? e) && (y =? b))) eqn:E.
  - exfalso. apply match_ukey in E. apply (H (b, e, t)); [left; reflexivity|]. symmetry. exact E.
  - apply IH. intros b0 Hb0. apply H. right. exact Hb0.
Qed.

Lemma elast_in : forall bl x y d b e t,
  NoDup (map bkey bl) -> In (b, e, t) bl -> ukey (x, y) = ukey (b, e) ->
  elast bl x y d = Some (Scalar (to_order t)).
Proof.
  induction bl as [|[[b0 e0] t0] r IH]; intros x y d b e t Hnd Hin Hk; [contradiction|].
  cbn [elast]. cbn [map] in Hnd. inversion Hnd as [|? ? Hni Hnd']; subst.
  destruct Hin as [[= -> -> ->]|Hin].
  - apply match_ukey in Hk. rewrite Hk. apply elast_nomatch.
    intros b1 Hb1 Heq. apply Hni. apply match_ukey in Hk. unfold bkey at 1. cbn [fst].
    rewrite <- Hk, <- Heq. apply in_map. exact Hb1.
  - apply (IH x y _ b e t Hnd' Hin Hk).
Qed.

Lemma elast_some : forall bl x y d l,
  elast bl x y d = Some l ->
  d = Some l \/ exists b e t, In (b, e, t) bl /\ ukey (x, y) = ukey (b, e) /\ l = Scalar (to_order t).
Proof.
  induction bl as [|[[b0 e0] t0] r IH]; intros x y d l H; cbn [elast] in H; [left; exact H|].
  apply IH in H. destruct H as [H|(b & e & t & Hin & Hk & Hl)].
  - destruct (((x =? b0) && (y =? e0)) || ((x =? e0) && (y =? b0))) eqn:E; [|left; exact H].
    right. exists b0, e0, t0. split; [left; reflexivity|]. apply match_ukey in E. split; [exact E|congruence].
  - right. exists b, e, t. split; [right; exact Hin|]. auto.
Qed.

(* nodes and attributes are untouched when every bond joins existing atoms *)
Lemma add_bonds_nodes : forall bl g,
  (forall b, In b bl -> has_node g (fst (fst b)) = true /\ has_node g (snd (fst b)) = true) ->
  nodes (fold_left add_bond_edge bl g) = nodes g
  /\ forall m, node_attr (fold_left add_bond_edge bl g) m = node_attr g m.
Proof.
  induction bl as [|[[b e] t] r IH]; intros g H; cbn [fold_left]; [split; reflexivity|].
  destruct (H (b, e, t)) as (Hb & He); [left; reflexivity|]. cbn [fst snd] in Hb, He.
  assert (Hn : nodes (add_bond_edge g (b, e, t)) = nodes g).
  { cbn [add_bond_edge]. rewrite nodes_add_edge. cbv zeta. rewrite Hb, He. reflexivity. }
  assert (Ha : forall m, node_attr (add_bond_edge g (b, e, t)) m = node_attr g m).
  { intros m. cbn [add_bond_edge]. rewrite node_attr_add_edge.
    destruct (node_attr g m) eqn:E; [reflexivity|].
    destruct (Z.eqb_spec m b) as [->|Hmb].
    - apply node_attr_has_node in Hb. destruct Hb as (a & Hb). congruence.
    - destruct (Z.eqb_spec m e) as [->|Hme]; [|reflexivity].
      apply node_attr_has_node in He. destruct He as (a & He). congruence. }
  destruct (IH (add_bond_edge g (b, e, t))) as (H1 & H2).
  - intros b0 Hb0. destruct (H b0) as (H3 & H4); [right; exact Hb0|].
    split; apply has_node_In; rewrite Hn; apply has_node_In; assumption.
  - split; [rewrite H1; exact Hn|]. intros m. rewrite H2. apply Ha.
Qed.

(** * Part D: the round trip *)

Lemma index_of_Some : forall l u i, index_of u l = Some i -> nth_error l i = Some u.
Proof.
  induction l as [|x t IH]; intros u i; cbn [index_of]; [discriminate|].
  destruct (Z.eqb_spec u x) as [->|Hne].
  - intros [= <-]. reflexivity.
  - destruct (index_of u t) as [k|] eqn:E; cbn [option_map]; [|discriminate].
    intros [= <-]. cbn [nth_error]. apply IH. exact E.
Qed.

Lemma index_of_nth : forall l u i, NoDup l -> nth_error l i = Some u -> index_of u l = Some i.
Proof.
  induction l as [|x t IH]; intros u [|i] Hnd H; cbn [nth_error] in H; try discriminate; cbn [index_of].
  - injection H as ->. rewrite Z.eqb_refl. reflexivity.
  - inversion Hnd as [|? ? Hni Hnd']; subst. destruct (Z.eqb_spec u x) as [->|Hne].
    + exfalso. apply Hni. eapply nth_error_In. exact H.
    + rewrite (IH u i Hnd' H). reflexivity.
Qed.

Lemma index_of_In l u : In u l -> exists i, index_of u l = Some i.
Proof.
  intros H. destruct (index_of u l) as [i|] eqn:E; [eauto|]. apply index_of_None in E. contradiction.
Qed.

Lemma map_fst_nodes_data g : map fst (nodes_data g) = nodes g.
Proof.
  unfold nodes_data, nodes. rewrite map_map. apply map_ext. intros [n [a ad]]. reflexivity.
Qed.

Lemma Forall2_map_r {A B} (R : A -> B -> Prop) (f : A -> B) l :
  (forall x, In x l -> R x (f x)) -> Forall2 R l (map f l).
Proof.
  induction l as [|a t IH]; simpl; intros H; constructor; [apply H; left; reflexivity|].
  apply IH. intros x Hx. apply H. right. exact Hx.
Qed.

Lemma node_ok_no_err ca ig d : node_ok ca ig d -> node_err ca ig d = None.
Proof.
  intros ((s & Hs & Hca) & Hlab & Haam). unfold node_err. rewrite Hs, Hlab, Hca.
  destruct ig; [reflexivity|]. destruct (a_aam d) as [k|] eqn:E; [|reflexivity].
  specialize (Haam eq_refl k eq_refl). destruct (0 <=? k); [|reflexivity].
  destruct (Z.leb_spec k int_max); [reflexivity|lia].
Qed.

Lemma node_ok_atom ca ig d :
  node_ok ca ig d ->
  atom_attr (fst (atom_of ca ig d)) (snd (atom_of ca ig d)) = expected_attr ig d.
Proof.
  intros ((s & Hs & Hca) & _ & _). unfold atom_of, expected_attr, atom_attr, mapnum_of, kept_aam.
  rewrite Hs, Hca. cbn [fst snd option_map]. f_equal.
  destruct ig; [reflexivity|]. destruct (a_aam d) as [k|]; [|reflexivity].
  destruct (Z.leb_spec 0 k); destruct (Z.leb_spec 1 k); destruct (Z.ltb_spec 0 k); try lia; try reflexivity.
Qed.

Lemma first_err_none ca ig (l : list (Z * nattr)) :
  (forall x, In x l -> node_err ca ig (snd x) = None) -> first_err ca ig l = None.
Proof.
  induction l as [|[n d] t IH]; intros H; cbn [first_err]; [reflexivity|].
  pose proof (H (n, d) (or_introl eq_refl)) as Hd. cbn [snd] in Hd. rewrite Hd. apply IH. intros x Hx. apply H. right. exact Hx.
Qed.

Lemma In_nodes_data g n a : In (n, a) (nodes_data g) -> exists ad, In (n, (a, ad)) g.
Proof.
  unfold nodes_data. intros H. apply in_map_iff in H. destruct H as ([n' [a' ad]] & [= -> ->] & H). eauto.
Qed.

Section RoundTrip.
  Variable ca : string -> option string.
  Variable ig : bool.
  Variable g : graph.
  Hypothesis Hwf : wf g.
  Hypothesis Hdom : bridge_domain ca ig g.

  Let atoms := map (fun x : Z * nattr => atom_of ca ig (snd x)) (nodes_data g).
  (* position of a node *)
  Let P (u : Z) : Z := match index_of u (nodes g) with Some i => Z.of_nat i | None => 0 end.
  Let T (l : label) : string := match to_type l with Ok t => t | Err _ => EmptyString end.
  Let tr (e : Z * Z * label) : Z * Z * string := (P (fst (fst e)), P (snd (fst e)), T (snd e)).
  Let bl := map tr (edges g).

  Lemma rt_nodup : NoDup (nodes g).
  Proof. destruct Hwf as (H & _). exact H. Qed.

  Lemma rt_P_nth i u : nth_error (nodes g) i = Some u -> P u = Z.of_nat i.
  Proof. intros H. unfold P. rewrite (index_of_nth _ _ _ rt_nodup H). reflexivity. Qed.

  Lemma rt_P_inj u v : In u (nodes g) -> In v (nodes g) -> P u = P v -> u = v.
  Proof.
    intros Hu Hv. unfold P. destruct (index_of_In _ _ Hu) as (i & Hi). destruct (index_of_In _ _ Hv) as (j & Hj).
    rewrite Hi, Hj. intros H. apply Nat2Z.inj in H. subst j.
    apply index_of_Some in Hi. apply index_of_Some in Hj. congruence.
  Qed.

  Lemma rt_P_range u : In u (nodes g) -> exists i, P u = Z.of_nat i /\ (i < List.length g)%nat.
  Proof.
    intros Hu. destruct (index_of_In _ _ Hu) as (i & Hi). exists i. unfold P. rewrite Hi.
    split; [reflexivity|]. apply index_of_Some in Hi.
    assert (H : (i < List.length (nodes g))%nat) by (apply nth_error_Some; congruence).
    unfold nodes in H. rewrite map_length in H. exact H.
  Qed.

  Lemma rt_edge_facts u v l :
    In (u, v, l) (edges g) ->
    edge_label g u v = Some l /\ In u (nodes g) /\ In v (nodes g) /\ u <> v
    /\ exists o t, l = Scalar o /\ to_type l = Ok t /\ to_order t = o.
  Proof.
    intros Hin. pose proof (in_edges_label g u v l Hwf Hin) as Hl.
    destruct (wf_edge_nodes g u v l Hwf Hl) as (Hu & Hv). apply has_node_In in Hu. apply has_node_In in Hv.
    destruct Hdom as (_ & Hsup & Hself).
    repeat split; auto.
    - intros ->. rewrite Hself in Hl. discriminate.
    - apply supported_label_to_type. apply (Hsup u v l Hl).
  Qed.

  Lemma rt_no_err : first_err ca ig (nodes_data g) = None.
  Proof.
    apply first_err_none. intros [n a] Hin. apply In_nodes_data in Hin. destruct Hin as (ad & Hin).
    apply node_ok_no_err. destruct Hdom as (Hn & _). apply (Hn n a ad Hin).
  Qed.

  Lemma rt_bl_keys : NoDup (map bkey bl).
  Proof.
    unfold bl. rewrite map_map. apply (NoDup_map_rel ekey); [apply edges_keys_NoDup; exact Hwf|].
    intros [[u v] l] [[u' v'] l'] Hx Hy. unfold bkey, tr, ekey. cbn [fst snd].
    destruct (rt_edge_facts _ _ _ Hx) as (_ & Hu & Hv & _). destruct (rt_edge_facts _ _ _ Hy) as (_ & Hu' & Hv' & _).
    rewrite !ukey_eq. intros [[H1 H2]|[H1 H2]]; [left|right]; split; apply rt_P_inj; auto.
  Qed.

  Lemma rt_graph_to_mol : graph_to_mol ca g ig = Ok (mkMol atoms bl).
  Proof.
    unfold graph_to_mol.
    destruct (node_loop_ok ca ig (nodes_data g) empty_mol [] rt_no_err) as (im & Hloop & Him).
    { rewrite map_fst_nodes_data. exact rt_nodup. }
    rewrite Hloop. cbn [bind empty_mol m_atoms m_bonds app].
    rewrite (edge_loop_ok im (edges g) bl); cbn [m_atoms m_bonds app]; [reflexivity| | |exact rt_bl_keys].
    - unfold bl. apply Forall2_map_r. intros [[u v] l] Hin.
      destruct (rt_edge_facts _ _ _ Hin) as (_ & Hu & Hv & _ & o & t & _ & Ht & _).
      unfold translates, tr, P, T. cbn [fst snd]. rewrite !Him, map_fst_nodes_data. cbn [empty_mol m_atoms List.length alookup].
      destruct (index_of_In _ _ Hu) as (i & ->). destruct (index_of_In _ _ Hv) as (j & ->).
      rewrite Ht. repeat split; reflexivity.
    - intros b Hb. unfold bl in Hb. apply in_map_iff in Hb. destruct Hb as ([[u v] l] & <- & Hin).
      destruct (rt_edge_facts _ _ _ Hin) as (_ & Hu & Hv & Hne & _). unfold tr. cbn [fst snd].
      intros Heq. apply Hne. apply rt_P_inj; auto.
  Qed.

  Lemma rt_atoms_length : List.length atoms = List.length g.
  Proof. unfold atoms, nodes_data. rewrite !map_length. reflexivity. Qed.

  Lemma rt_bl_nodes b :
    In b bl -> has_node (atom_graph atoms) (fst (fst b)) = true /\ has_node (atom_graph atoms) (snd (fst b)) = true.
  Proof.
    intros Hb. unfold bl in Hb. apply in_map_iff in Hb. destruct Hb as ([[u v] l] & <- & Hin).
    destruct (rt_edge_facts _ _ _ Hin) as (_ & Hu & Hv & _). unfold tr. cbn [fst snd].
    destruct (rt_P_range u Hu) as (i & -> & Hi). destruct (rt_P_range v Hv) as (j & -> & Hj).
    split; apply has_node_In; rewrite nodes_atom_graph, rt_atoms_length; apply in_map; apply in_seq; lia.
  Qed.

  Lemma rt_edge_label i j u v :
    nth_error (nodes g) i = Some u -> nth_error (nodes g) j = Some v ->
    elast bl (Z.of_nat i) (Z.of_nat j) None = edge_label g u v.
  Proof.
    intros Hi Hj. rewrite <- (rt_P_nth i u Hi), <- (rt_P_nth j v Hj).
    destruct (edge_label g u v) as [l|] eqn:El.
    - assert (Hcase : exists u' v', In (u', v', l) (edges g) /\ ukey (P u, P v) = ukey (P u', P v')).
      { destruct (edges_complete g u v l Hwf El) as [H|H]; [exists u, v|exists v, u]; split; auto.
        apply ukey_eq. right. auto. }
      destruct Hcase as (u' & v' & Hin & Hk).
      destruct (rt_edge_facts _ _ _ Hin) as (_ & _ & _ & _ & o & t & Hl & Ht & Ho).
      rewrite (elast_in bl (P u) (P v) None (P u') (P v') (T l) rt_bl_keys).
      + unfold T. rewrite Ht, Ho, Hl. reflexivity.
      + unfold bl. apply in_map_iff. exists (u', v', l). split; [reflexivity|exact Hin].
      + exact Hk.
    - destruct (elast bl (P u) (P v) None) as [l'|] eqn:E; [exfalso|reflexivity].
      apply elast_some in E. destruct E as [E|(b & e & t & Hin & Hk & _)]; [discriminate|].
      unfold bl in Hin. apply in_map_iff in Hin. destruct Hin as ([[u' v'] l0] & Htr & Hin).
      unfold tr in Htr. cbn [fst snd] in Htr. injection Htr as <- <- _.
      destruct (rt_edge_facts _ _ _ Hin) as (Hl0 & Hu' & Hv' & _).
      assert (Hu : In u (nodes g)) by (eapply nth_error_In; eauto).
      assert (Hv : In v (nodes g)) by (eapply nth_error_In; eauto).
      apply ukey_eq in Hk. destruct Hk as [[H1 H2]|[H1 H2]].
      + apply rt_P_inj in H1; auto. apply rt_P_inj in H2; auto. subst. congruence.
      + apply rt_P_inj in H1; auto. apply rt_P_inj in H2; auto. subst.
        destruct Hwf as (_ & _ & Hsym). apply Hsym in Hl0. congruence.
  Qed.

  Theorem bridge_roundtrip_sec :
    exists g', bridge ca g ig = Ok g' /\ roundtrip_spec ig g g' /\ wf g'.
  Proof.
    unfold bridge. rewrite rt_graph_to_mol. cbn [bind]. eexists. split; [reflexivity|].
    split; [|apply wf_mol_to_graph].
    rewrite mol_to_graph_unfold. cbn [m_atoms m_bonds]. rewrite atom_graph_fold.
    destruct (add_bonds_nodes bl (atom_graph atoms) rt_bl_nodes) as (Hn & Ha).
    assert (Hnodes : nodes (fold_left add_bond_edge bl (atom_graph atoms)) = map Z.of_nat (seq 0 (List.length g))).
    { rewrite Hn, nodes_atom_graph, rt_atoms_length. reflexivity. }
    split; [exact Hnodes|]. split; [|split].
    - intros i n a ad Hnth. rewrite Ha. unfold node_attr.
      assert (Hat : nth_error atoms i = Some (atom_of ca ig a)).
      { unfold atoms, nodes_data. rewrite map_map. erewrite map_nth_error; [|exact Hnth]. reflexivity. }
      rewrite (alookup_atom_graph atoms i _ Hat). f_equal. apply node_ok_atom.
      destruct Hdom as (Hok & _). apply (Hok n a ad). eapply nth_error_In. exact Hnth.
    - intros i j u v Hi Hj. rewrite edge_label_add_bonds.
      unfold edge_label at 1. rewrite adj_atom_graph. cbn [alookup]. apply rt_edge_label; assumption.
    - intros x y l Hl.
      assert (Hwf' : wf (fold_left add_bond_edge bl (atom_graph atoms))).
      { pose proof (wf_mol_to_graph (mkMol atoms bl)) as H. rewrite mol_to_graph_unfold in H.
        cbn [m_atoms m_bonds] in H. rewrite atom_graph_fold in H. exact H. }
      destruct (wf_edge_nodes _ x y l Hwf' Hl) as (Hx & Hy).
      split; apply has_node_In; assumption.
  Qed.
End RoundTrip.

Theorem bridge_roundtrip ca ig g :
  wf g -> bridge_domain ca ig g ->
  exists g', bridge ca g ig = Ok g' /\ roundtrip_spec ig g g' /\ wf g'.
Proof. intros Hwf Hdom. exact (bridge_roundtrip_sec ca ig g Hwf Hdom). Qed.

(** * Part E: refusal of labelled placeholder nodes *)

Lemma node_loop_total ca ig : forall l st,
  first_err ca ig l = None -> exists st', node_loop ca ig st l = Ok st'.
Proof.
  induction l as [|[n d] t IH]; intros [m im] H; cbn [node_loop]; [eauto|].
  cbn [first_err] in H. destruct (node_err ca ig d) eqn:E; [discriminate|].
  rewrite (node_step_ok _ _ _ _ _ _ E). cbn [bind]. apply IH. exact H.
Qed.

(* the conversion raises ValueError exactly when the node loop does, i.e. when the first node
   that raises anything is a labelled node carrying a symbol and a label list *)
Lemma graph_to_mol_value_error ca ig g :
  graph_to_mol ca g ig = Err ValueError <-> first_err ca ig (nodes_data g) = Some ValueError.
Proof.
  unfold graph_to_mol. split.
  - destruct (first_err ca ig (nodes_data g)) as [e|] eqn:E.
    + rewrite (node_loop_err _ _ _ _ _ E). cbn [bind]. congruence.
    + destruct (node_loop_total ca ig _ (empty_mol, []) E) as ([m im] & ->). cbn [bind].
      intros H. exfalso. revert H. apply edge_loop_not_value.
  - intros E. rewrite (node_loop_err _ _ _ _ _ E). reflexivity.
Qed.

Lemma bridge_err ca ig g e : bridge ca g ig = Err e <-> graph_to_mol ca g ig = Err e.
Proof. unfold bridge. destruct (graph_to_mol ca g ig); cbn [bind]; split; congruence. Qed.

Lemma node_err_value ca ig d :
  node_err ca ig d = Some ValueError <-> a_sym d <> None /\ labelled d /\ a_labels d <> None.
Proof.
  unfold node_err, labelled. destruct (a_sym d) as [s|].
  - destruct (a_islab d) as [[|]|]; cbn [is_true].
    + destruct (a_labels d); split; try congruence; try tauto. intros _. repeat split; congruence.
    + destruct (ca (ref_norm s)); [|split; [discriminate|intros (_ & H & _); discriminate]].
      destruct (if ig then None else a_aam d) as [k|];
        [destruct ((0 <=? k) && negb (k <=? int_max))|]; (split; [discriminate|intros (_ & H & _); discriminate]).
    + destruct (ca (ref_norm s)); [|split; [discriminate|intros (_ & H & _); discriminate]].
      destruct (if ig then None else a_aam d) as [k|];
        [destruct ((0 <=? k) && negb (k <=? int_max))|]; (split; [discriminate|intros (_ & H & _); discriminate]).
  - split; [discriminate|]. intros (H & _). congruence.
Qed.

Lemma first_err_graph ca ig e : forall g,
  first_err ca ig (nodes_data g) = Some e <->
  exists g1 n a ad g2, g = g1 ++ (n, (a, ad)) :: g2
    /\ Forall (fun x => node_err ca ig (fst (snd x)) = None) g1 /\ node_err ca ig a = Some e.
Proof.
  induction g as [|[n [a ad]] t IH]; cbn [nodes_data map first_err].
  - split; [discriminate|]. intros (g1 & n & a & ad & g2 & H & _). destruct g1; discriminate.
  - fold (nodes_data t). destruct (node_err ca ig a) as [e'|] eqn:E.
    + split.
      * intros [= ->]. exists [], n, a, ad, t. split; [reflexivity|]. split; [constructor|exact E].
      * intros (g1 & n' & a' & ad' & g2 & Heq & Hall & He). destruct g1 as [|x g1].
        -- cbn [app] in Heq. inversion Heq; subst. congruence.
        -- cbn [app] in Heq. inversion Heq; subst. inversion Hall; subst. cbn [fst snd] in *. congruence.
    + rewrite IH. split.
      * intros (g1 & n' & a' & ad' & g2 & -> & Hall & He). exists ((n, (a, ad)) :: g1), n', a', ad', g2.
        split; [reflexivity|]. split; [constructor; [exact E|exact Hall]|exact He].
      * intros (g1 & n' & a' & ad' & g2 & Heq & Hall & He). destruct g1 as [|x g1].
        -- cbn [app] in Heq. inversion Heq; subst. congruence.
        -- cbn [app] in Heq. inversion Heq; subst. inversion Hall; subst. exists g1, n', a', ad', g2. auto.
Qed.

Theorem bridge_refuses_exact ca ig g :
  bridge ca g ig = Err ValueError <->
  exists g1 n a ad g2, g = g1 ++ (n, (a, ad)) :: g2
    /\ Forall (fun x => node_err ca ig (fst (snd x)) = None) g1
    /\ a_sym a <> None /\ labelled a /\ a_labels a <> None.
Proof.
  rewrite bridge_err, graph_to_mol_value_error, first_err_graph.
  split; intros (g1 & n & a & ad & g2 & H1 & H2 & H3); exists g1, n, a, ad, g2;
    (split; [exact H1|]); (split; [exact H2|]); apply (node_err_value ca ig a); exact H3.
Qed.

(* on graphs that are molecular apart from parser-style placeholder nodes: refused iff some
   node is labelled *)
Theorem bridge_refuses_labels ca ig g :
  refusal_domain ca ig g ->
  (bridge ca g ig = Err ValueError <-> exists n a ad, In (n, (a, ad)) g /\ labelled a).
Proof.
  intros Hdom. rewrite bridge_err, graph_to_mol_value_error. split.
  - intros H. apply first_err_graph in H. destruct H as (g1 & n & a & ad & g2 & -> & _ & He).
    exists n, a, ad. split; [apply in_or_app; right; left; reflexivity|].
    apply node_err_value in He. tauto.
  - intros (n & a & ad & Hin & Hlab). revert Hdom Hin. induction g as [|[n' [a' ad']] t IH]; intros Hdom Hin; [contradiction|].
    cbn [nodes_data map first_err]. fold (nodes_data t).
    destruct (Hdom n' a' ad' (or_introl eq_refl)) as [(Hl & Hs & Hls)|Hok].
    + assert (E : node_err ca ig a' = Some ValueError) by (apply node_err_value; auto). rewrite E. reflexivity.
    + rewrite (node_ok_no_err _ _ _ Hok). destruct Hin as [Heq|Hin].
      * inversion Heq; subst. destruct Hok as (_ & Hnl & _). unfold labelled in Hlab. rewrite Hlab in Hnl. discriminate.
      * apply IH; [|exact Hin]. intros n0 a0 ad0 H0. apply (Hdom n0 a0 ad0). right. exact H0.
Qed.
