(** Generic list lemmas used by the C18 proofs: mapM, znats / enumerate, first-index, dictionaries
    built by insertion, folds of add_edge. *)
From Coq Require Import ZArith List Bool String Lia FinFun.
From FGV Require Import Base.Util Base.UtilFacts Base.Bond Base.NX Base.NXFacts Model.Torch Spec.TorchSpec.
Import ListNotations.
Open Scope Z_scope.

(** * mapM *)

Lemma mapM_map {A B} (f : A -> res B) (f' : A -> B) l :
  (forall a, In a l -> f a = Ok (f' a)) -> mapM f l = Ok (map f' l).
Proof.
  induction l as [|a t IH]; simpl; intros H; [reflexivity|].
  rewrite (H a) by auto. simpl. rewrite IH by auto. reflexivity.
Qed.

Lemma mapM_Ok_Forall2 {A B} (f : A -> res B) l l' :
  mapM f l = Ok l' -> Forall2 (fun a b => f a = Ok b) l l'.
Proof.
  revert l'. induction l as [|a t IH]; simpl; intros l' H.
  - injection H as <-. constructor.
  - destruct (f a) as [b|e] eqn:Ea; simpl in H; [|discriminate].
    destruct (mapM f t) as [bs|e] eqn:Et; simpl in H; [|discriminate].
    injection H as <-. constructor; auto.
Qed.

Lemma Forall2_mapM {A B} (f : A -> res B) l l' :
  Forall2 (fun a b => f a = Ok b) l l' -> mapM f l = Ok l'.
Proof.
  induction 1 as [|a b t t' Hab _ IH]; simpl; [reflexivity|]. rewrite Hab. simpl. rewrite IH. reflexivity.
Qed.

Lemma mapM_ext {A B} (f g : A -> res B) l :
  (forall a, In a l -> f a = g a) -> mapM f l = mapM g l.
Proof.
  induction l as [|a t IH]; simpl; intros H; [reflexivity|].
  rewrite (H a) by auto. rewrite IH by auto. reflexivity.
Qed.

Lemma mapM_app {A B} (f : A -> res B) l1 l2 :
  mapM f (l1 ++ l2) = bind (mapM f l1) (fun a => bind (mapM f l2) (fun b => Ok (a ++ b))).
Proof.
  induction l1 as [|a t IH]; simpl.
  - destruct (mapM f l2); reflexivity.
  - destruct (f a); simpl; [|reflexivity]. rewrite IH.
    destruct (mapM f t); simpl; [|reflexivity]. destruct (mapM f l2); reflexivity.
Qed.

Lemma mapM_length {A B} (f : A -> res B) l l' : mapM f l = Ok l' -> List.length l' = List.length l.
Proof.
  intros H. apply mapM_Ok_Forall2 in H. induction H; simpl; congruence.
Qed.

(** * znats / enumerate *)

Lemma znats_length n : List.length (znats n) = n.
Proof. unfold znats. rewrite map_length, seq_length. reflexivity. Qed.

Lemma znats_S n : znats (S n) = znats n ++ [Z.of_nat n].
Proof. unfold znats. rewrite seq_S, map_app. reflexivity. Qed.

Lemma znats_In n z : In z (znats n) <-> 0 <= z < Z.of_nat n.
Proof.
  unfold znats. rewrite in_map_iff. split.
  - intros (i & <- & Hi). apply in_seq in Hi. lia.
  - intros Hz. exists (Z.to_nat z). split; [lia|]. apply in_seq. lia.
Qed.

Lemma znats_nth n i : (i < n)%nat -> nth i (znats n) 0 = Z.of_nat i.
Proof.
  intros Hi. unfold znats. change 0 with (Z.of_nat 0). rewrite map_nth, seq_nth by exact Hi. reflexivity.
Qed.

Lemma znats_NoDup n : NoDup (znats n).
Proof.
  unfold znats. apply Injective_map_NoDup; [intros x y H; lia | apply seq_NoDup].
Qed.

Lemma combine_app {A B} (l1 l1' : list A) (l2 l2' : list B) :
  List.length l1 = List.length l2 -> combine (l1 ++ l1') (l2 ++ l2') = combine l1 l2 ++ combine l1' l2'.
Proof.
  revert l2. induction l1 as [|a t IH]; intros [|b t2] H; simpl in *; try discriminate; [reflexivity|].
  f_equal. apply IH. lia.
Qed.

Lemma enumerate_snoc {A} (l : list A) a :
  enumerate (l ++ [a]) = enumerate l ++ [(Z.of_nat (List.length l), a)].
Proof.
  unfold enumerate. rewrite app_length. simpl. rewrite Nat.add_1_r, znats_S.
  rewrite combine_app by apply znats_length. reflexivity.
Qed.

Lemma enumerate_length {A} (l : list A) : List.length (enumerate l) = List.length l.
Proof. unfold enumerate. rewrite combine_length, znats_length. lia. Qed.

Lemma enumerate_fst {A} (l : list A) : map fst (enumerate l) = znats (List.length l).
Proof.
  induction l as [|a t IH] using rev_ind; [reflexivity|].
  rewrite enumerate_snoc, map_app, IH, app_length. simpl. rewrite Nat.add_1_r, znats_S. reflexivity.
Qed.

Lemma enumerate_snd {A} (l : list A) : map snd (enumerate l) = l.
Proof.
  induction l as [|a t IH] using rev_ind; [reflexivity|].
  rewrite enumerate_snoc, map_app, IH. reflexivity.
Qed.

Lemma enumerate_In {A} (l : list A) i a :
  In (i, a) (enumerate l) <-> 0 <= i /\ nth_error l (Z.to_nat i) = Some a.
Proof.
  induction l as [|b t IH] using rev_ind.
  - simpl. split; [tauto|]. intros [_ H]. destruct (Z.to_nat i); discriminate.
  - rewrite enumerate_snoc, in_app_iff, IH. simpl. split.
    + intros [[H0 H]|[H|[]]].
      * split; [exact H0|]. rewrite nth_error_app1; [exact H|]. apply nth_error_Some. congruence.
      * injection H as <- <-. split; [lia|]. rewrite Nat2Z.id, nth_error_app2, Nat.sub_diag by lia. reflexivity.
    + intros [H0 H]. destruct (Nat.lt_ge_cases (Z.to_nat i) (List.length t)) as [Hlt|Hge].
      * left. split; [exact H0|]. rewrite nth_error_app1 in H by exact Hlt. exact H.
      * right. left. rewrite nth_error_app2 in H by exact Hge.
        destruct (Z.to_nat i - List.length t)%nat as [|k] eqn:Ek; simpl in H; [|destruct k; discriminate].
        injection H as <-. f_equal. lia.
Qed.

(** * first index *)

Lemma zindex_from_In k u l :
  In u l -> exists i, (i < List.length l)%nat /\ nth i l 0 = u /\ zindex_from k u l = k + Z.of_nat i
                      /\ forall j, (j < i)%nat -> nth j l 0 <> u.
Proof.
  revert k. induction l as [|w t IH]; intros k H; [contradiction|]. simpl.
  destruct (Z.eqb_spec u w) as [->|Hne].
  - exists 0%nat. simpl. split; [lia|]. split; [reflexivity|]. split; [lia|]. intros j Hj. lia.
  - destruct H as [H|H]; [congruence|]. destruct (IH (k + 1) H) as (i & Hi & Hn & Hz & Hm).
    exists (S i). simpl. split; [lia|]. split; [exact Hn|]. split; [lia|].
    intros [|j] Hj; [congruence | apply Hm; lia].
Qed.

Lemma zindex_from_notIn k u l : ~ In u l -> zindex_from k u l = -1.
Proof.
  revert k. induction l as [|w t IH]; intros k H; simpl; [reflexivity|].
  destruct (Z.eqb_spec u w) as [->|Hne]; [exfalso; apply H; left; reflexivity|].
  apply IH. intros Hin. apply H. right. exact Hin.
Qed.

Lemma zindex_range u l : In u l -> 0 <= zindex u l < Z.of_nat (List.length l).
Proof. intros H. destruct (zindex_from_In 0 u l H) as (i & Hi & _ & Hz & _). unfold zindex. lia. Qed.

Lemma zindex_nth u l : In u l -> nth (Z.to_nat (zindex u l)) l 0 = u.
Proof.
  intros H. destruct (zindex_from_In 0 u l H) as (i & Hi & Hn & Hz & _). unfold zindex.
  rewrite Hz. simpl. rewrite Nat2Z.id. exact Hn.
Qed.

Lemma nth_In_lt {A} i (l : list A) d : (i < List.length l)%nat -> In (nth i l d) l.
Proof. apply nth_In. Qed.

Lemma zindex_of_nth i l : NoDup l -> (i < List.length l)%nat -> zindex (nth i l 0) l = Z.of_nat i.
Proof.
  intros Hnd Hi. destruct (zindex_from_In 0 (nth i l 0) l (nth_In l 0 Hi)) as (j & Hj & Hn & Hz & Hm).
  unfold zindex. rewrite Hz. simpl. f_equal.
  rewrite NoDup_nth in Hnd. symmetry. apply (Hnd i j Hi Hj). symmetry. exact Hn.
Qed.

Lemma zindex_inj u v l : In u l -> In v l -> zindex u l = zindex v l -> u = v.
Proof.
  intros Hu Hv H. rewrite <- (zindex_nth u l Hu), <- (zindex_nth v l Hv), H. reflexivity.
Qed.

(* the dictionary {n: i for i, n in enumerate(l)} looked up at u *)
Lemma alookup_combine_seq u l a :
  alookup u (combine l (map Z.of_nat (seq a (List.length l)))) =
  if zmem u l then Some (zindex_from (Z.of_nat a) u l) else None.
Proof.
  revert a. induction l as [|w t IH]; intros a; simpl; [reflexivity|].
  destruct (Z.eqb_spec u w) as [->|Hne]; simpl; [reflexivity|].
  rewrite IH. replace (Z.of_nat (S a)) with (Z.of_nat a + 1) by lia. reflexivity.
Qed.

Lemma alookup_node_idx g u :
  alookup u (node_idx g) = if zmem u (nodes g) then Some (zindex u (nodes g)) else None.
Proof.
  unfold node_idx, znats, zindex.
  replace (List.length g) with (List.length (nodes g)) by (unfold nodes; apply map_length).
  apply (alookup_combine_seq u (nodes g) 0).
Qed.

(* a dictionary built by inserting pairwise distinct keys is the list of pairs itself *)
Lemma zdict_of_NoDup {A} (l : list (Z * A)) : NoDup (map fst l) -> zdict_of l = l.
Proof.
  unfold zdict_of.
  assert (Hgen : forall acc, NoDup (map fst (acc ++ l)) ->
            fold_left (fun acc0 '(k, a) => aset k a acc0) l acc = acc ++ l).
  { induction l as [|[k a] t IH]; intros acc Hnd; simpl; [rewrite app_nil_r; reflexivity|].
    assert (Hset : aset k a acc = acc ++ [(k, a)]).
    { rewrite map_app in Hnd. simpl in Hnd. apply NoDup_remove_2 in Hnd.
      assert (Hk : ~ In k (map fst acc)) by (intros H; apply Hnd; apply in_or_app; left; exact H).
      clear -Hk. induction acc as [|[k' a'] r IHr]; simpl; [reflexivity|].
      destruct (Z.eqb_spec k k') as [->|Hne]; [exfalso; apply Hk; left; reflexivity|].
      f_equal. apply IHr. intros H. apply Hk. right. exact H. }
    rewrite Hset, IH; rewrite <- app_assoc; [reflexivity | exact Hnd]. }
  intros Hnd. apply (Hgen []). exact Hnd.
Qed.

Lemma combine_fst {A B} (l : list A) (l' : list B) :
  List.length l = List.length l' -> map fst (combine l l') = l.
Proof.
  revert l'. induction l as [|a t IH]; intros [|b t'] H; simpl in *; try discriminate; [reflexivity|].
  f_equal. apply IH. lia.
Qed.

Lemma combine_snd {A B} (l : list A) (l' : list B) :
  List.length l = List.length l' -> map snd (combine l l') = l'.
Proof.
  revert l'. induction l as [|a t IH]; intros [|b t'] H; simpl in *; try discriminate; [reflexivity|].
  f_equal. apply IH. lia.
Qed.

(* the node_map dictionaries of graph.py / prune on a duplicate-free list *)
Lemma map_get_zdict s u :
  NoDup s -> In u s -> map_get (zdict_of (combine s (znats (List.length s)))) u = zindex u s.
Proof.
  intros Hnd Hin. rewrite zdict_of_NoDup by (rewrite combine_fst by (rewrite znats_length; reflexivity); exact Hnd).
  unfold map_get, znats. rewrite alookup_combine_seq.
  apply zmem_In in Hin. rewrite Hin. reflexivity.
Qed.

(** * flat_map helpers *)

Lemma flat_map_map {A B C} (f : B -> list C) (g : A -> B) l :
  flat_map f (map g l) = flat_map (fun a => f (g a)) l.
Proof. induction l as [|a t IH]; simpl; [reflexivity|]. rewrite IH. reflexivity. Qed.

Lemma flat_map_length2 {A B} (f : A -> list B) l :
  (forall a, List.length (f a) = 2%nat) -> List.length (flat_map f l) = (2 * List.length l)%nat.
Proof.
  intros H. induction l as [|a t IH]; simpl; [reflexivity|]. rewrite app_length, H, IH. lia.
Qed.

Lemma combine_flat_map {A B C} (f : A -> list B) (g : A -> list C) l :
  (forall a, List.length (f a) = List.length (g a)) ->
  combine (flat_map f l) (flat_map g l) = flat_map (fun a => combine (f a) (g a)) l.
Proof.
  intros H. induction l as [|a t IH]; simpl; [reflexivity|]. rewrite combine_app by apply H. rewrite IH. reflexivity.
Qed.

Lemma mapM_flat_map {A B C} (h : B -> res C) (f : A -> list B) (f' : A -> list C) l :
  (forall a, In a l -> mapM h (f a) = Ok (f' a)) -> mapM h (flat_map f l) = Ok (flat_map f' l).
Proof.
  induction l as [|a t IH]; simpl; intros H; [reflexivity|].
  rewrite mapM_app, (H a) by auto. simpl. rewrite IH by auto. reflexivity.
Qed.

(** * folds of add_edge *)

Definition add_col (g : graph) (c : (Z * Z) * label) : graph :=
  add_edge g (fst (fst c)) (snd (fst c)) (snd c).

Lemma fold_add_col_eq cols g :
  fold_left (fun g0 '((u, v), l) => add_edge g0 u v l) cols g = fold_left add_col cols g.
Proof.
  revert g. induction cols as [|[[u v] l] t IH]; intros g; simpl; [reflexivity|]. apply IH.
Qed.

Definition joins (c : (Z * Z) * label) (x y : Z) : Prop :=
  (x = fst (fst c) /\ y = snd (fst c)) \/ (x = snd (fst c) /\ y = fst (fst c)).

Lemma edge_label_add_col g c x y :
  edge_label (add_col g c) x y =
  if ((x =? fst (fst c)) && (y =? snd (fst c))) || ((x =? snd (fst c)) && (y =? fst (fst c)))
  then Some (snd c) else edge_label g x y.
Proof. unfold add_col. apply edge_label_add_edge. Qed.

Lemma joins_dec c x y :
  (((x =? fst (fst c)) && (y =? snd (fst c))) || ((x =? snd (fst c)) && (y =? fst (fst c)))) = true <-> joins c x y.
Proof. unfold joins. rewrite orb_true_iff, !andb_true_iff, !Z.eqb_eq. tauto. Qed.

(* no joining column: the label is the initial one *)
Lemma fold_add_col_none cols : forall g x y,
  (forall c, In c cols -> ~ joins c x y) ->
  edge_label (fold_left add_col cols g) x y = edge_label g x y.
Proof.
  induction cols as [|c t IH]; intros g x y H; simpl; [reflexivity|].
  rewrite IH by (intros c' Hc'; apply H; right; exact Hc').
  rewrite edge_label_add_col.
  destruct (((x =? fst (fst c)) && (y =? snd (fst c))) || ((x =? snd (fst c)) && (y =? fst (fst c)))) eqn:E; [|reflexivity].
  exfalso. apply (H c); [left; reflexivity | apply joins_dec; exact E].
Qed.

(* some joining column, and all joining columns carry L: the label is L *)
Lemma fold_add_col_some cols : forall g x y L,
  (exists c, In c cols /\ joins c x y) ->
  (forall c, In c cols -> joins c x y -> snd c = L) ->
  edge_label (fold_left add_col cols g) x y = Some L.
Proof.
  induction cols as [|c t IH] using rev_ind; intros g x y L (c0 & Hin & Hj) Hall; [contradiction|].
  rewrite fold_left_app. simpl. rewrite edge_label_add_col.
  destruct (((x =? fst (fst c)) && (y =? snd (fst c))) || ((x =? snd (fst c)) && (y =? fst (fst c)))) eqn:E.
  - f_equal. apply Hall; [apply in_or_app; right; left; reflexivity | apply joins_dec; exact E].
  - apply in_app_or in Hin. destruct Hin as [Hin|[<-|[]]].
    + apply IH; [exists c0; auto|]. intros c' Hc'. apply Hall. apply in_or_app. left. exact Hc'.
    + apply joins_dec in Hj. congruence.
Qed.

(* the last joining column decides (general form) *)
Lemma fold_add_col_last cols c rest : forall g x y,
  cols = rest ++ [c] -> joins c x y -> edge_label (fold_left add_col cols g) x y = Some (snd c).
Proof.
  intros g x y -> Hj. rewrite fold_left_app. simpl. rewrite edge_label_add_col.
  apply joins_dec in Hj. rewrite Hj. reflexivity.
Qed.

Lemma has_node_fold_add_col cols : forall g m,
  has_node g m = true -> has_node (fold_left add_col cols g) m = true.
Proof.
  induction cols as [|c t IH]; intros g m H; simpl; [exact H|].
  apply IH. unfold add_col. rewrite has_node_add_edge, H. apply orb_true_r.
Qed.

Lemma nodes_fold_add_col cols : forall g,
  (forall c, In c cols -> has_node g (fst (fst c)) = true /\ has_node g (snd (fst c)) = true) ->
  nodes (fold_left add_col cols g) = nodes g.
Proof.
  induction cols as [|c t IH]; intros g H; simpl; [reflexivity|].
  destruct (H c (or_introl eq_refl)) as [Hu Hv].
  assert (Hn : nodes (add_col g c) = nodes g).
  { unfold add_col. rewrite nodes_add_edge. cbv zeta. rewrite Hu, Hv. reflexivity. }
  rewrite IH; [exact Hn|].
  intros c' Hc'. destruct (H c' (or_intror Hc')) as [Hu' Hv'].
  unfold add_col. rewrite !has_node_add_edge, Hu', Hv'. split; apply orb_true_r.
Qed.

Lemma node_attr_fold_add_col cols : forall g m a,
  node_attr g m = Some a -> node_attr (fold_left add_col cols g) m = Some a.
Proof.
  induction cols as [|c t IH]; intros g m a H; simpl; [exact H|].
  apply IH. unfold add_col. rewrite node_attr_add_edge, H. reflexivity.
Qed.

Lemma wf_fold_add_col cols : forall g, wf g -> wf (fold_left add_col cols g).
Proof.
  induction cols as [|c t IH]; intros g H; simpl; [exact H|]. apply IH. apply wf_add_edge. exact H.
Qed.

(** * the node-only graph _build_its starts from *)

Definition init_graph (syms : list string) : graph :=
  fold_left (fun g '(i, s) => add_node g i (na_sym s)) (enumerate syms) empty_graph.

Lemma init_graph_eq syms :
  init_graph syms = map (fun p : Z * string => (fst p, (na_sym (snd p), []))) (enumerate syms).
Proof.
  unfold init_graph. induction syms as [|s t IH] using rev_ind; [reflexivity|].
  rewrite enumerate_snoc, fold_left_app, IH, map_app. simpl.
  unfold add_node.
  match goal with |- context [alookup ?k ?l] => assert (Hnone : alookup k l = None) end.
  { apply alookup_None. unfold akeys. rewrite map_map. simpl.
    change (map (fun x : Z * string => fst x) (enumerate t)) with (map fst (enumerate t)).
    rewrite enumerate_fst. rewrite znats_In. lia. }
  match goal with |- match ?X with _ => _ end = _ => destruct X as [[a0 ad0]|] eqn:E end; [|reflexivity].
  exfalso. clear -E Hnone. unfold adjl in *. congruence.
Qed.

Lemma init_graph_nodes syms : nodes (init_graph syms) = znats (List.length syms).
Proof.
  rewrite init_graph_eq. unfold nodes. rewrite map_map. simpl.
  change (map (fun x : Z * string => fst x) (enumerate syms)) with (map fst (enumerate syms)).
  apply enumerate_fst.
Qed.

Lemma init_graph_alookup syms i s :
  nth_error syms i = Some s -> alookup (Z.of_nat i) (init_graph syms) = Some (na_sym s, []).
Proof.
  intros H. apply NoDup_alookup.
  - unfold akeys. fold (nodes (init_graph syms)). rewrite init_graph_nodes. apply znats_NoDup.
  - rewrite init_graph_eq. apply in_map_iff. exists (Z.of_nat i, s). split; [reflexivity|].
    apply enumerate_In. rewrite Nat2Z.id. split; [lia | exact H].
Qed.

Lemma init_graph_adj syms u : adj (init_graph syms) u = [].
Proof.
  unfold adj. destruct (alookup u (init_graph syms)) as [[a ad]|] eqn:E; [|reflexivity].
  apply alookup_In in E. rewrite init_graph_eq in E. apply in_map_iff in E.
  destruct E as (p & Hp & _). injection Hp as _ _ <-. reflexivity.
Qed.

Lemma init_graph_wf syms : wf (init_graph syms).
Proof.
  split; [rewrite init_graph_nodes; apply znats_NoDup|]. split.
  - intros u. rewrite init_graph_adj. constructor.
  - intros u v l. unfold edge_label. rewrite init_graph_adj. discriminate.
Qed.

Lemma init_graph_has_node syms i : (i < List.length syms)%nat -> has_node (init_graph syms) (Z.of_nat i) = true.
Proof.
  intros Hi. apply has_node_In. rewrite init_graph_nodes. apply znats_In. lia.
Qed.
