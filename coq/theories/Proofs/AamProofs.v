From Coq Require Import ZArith List Bool String Lia FinFun.
From FGV Require Import Base.Util Base.UtilFacts Base.Bond Base.NX Model.Aam Spec.AamSpec Spec.AamCheck.
Import ListNotations.
Open Scope Z_scope.

(** * next_free *)

Lemma next_free_Some fuel : forall next m k,
  next_free fuel next m = Some k ->
  next <= k /\ ~ In k m /\ forall j, next <= j < k -> In j m.
Proof.
  induction fuel as [|f IH]; simpl; intros next m k H; [discriminate|].
  destruct (zmem next m) eqn:E.
  - apply IH in H. destruct H as (H1 & H2 & H3). split; [lia|]. split; [exact H2|].
    intros j Hj. destruct (Z.eq_dec j next) as [->|Hne]; [apply zmem_In; exact E | apply H3; lia].
  - injection H as <-. split; [lia|]. split; [apply zmem_false; exact E | intros j Hj; lia].
Qed.

Lemma next_free_None fuel : forall next m,
  next_free fuel next m = None -> forall j, next <= j < next + Z.of_nat fuel -> In j m.
Proof.
  induction fuel as [|f IH]; simpl; intros next m H j Hj; [lia|].
  destruct (zmem next m) eqn:E; [|discriminate].
  destruct (Z.eq_dec j next) as [->|Hne]; [apply zmem_In; exact E|].
  apply (IH (next + 1) m H). lia.
Qed.

(* the fuel the loop supplies is always enough (pigeonhole) *)
Lemma next_free_enough next m : exists k, next_free (S (List.length m)) next m = Some k.
Proof.
  destruct (next_free (S (List.length m)) next m) as [k|] eqn:E; [eauto|exfalso].
  pose proof (next_free_None _ _ _ E) as Hall.
  set (n := S (List.length m)) in *.
  set (l := map (fun i => next + Z.of_nat i) (seq 0 n)).
  assert (Hnd : NoDup l).
  { apply Injective_map_NoDup; [intros x y Hxy; lia | apply seq_NoDup]. }
  assert (Hincl : incl l m).
  { intros x Hx. apply in_map_iff in Hx. destruct Hx as (i & <- & Hi). apply in_seq in Hi.
    apply Hall. lia. }
  pose proof (NoDup_incl_length Hnd Hincl) as Hlen.
  unfold l in Hlen. rewrite map_length, seq_length in Hlen. unfold n in Hlen. lia.
Qed.

(** * the loop *)

Definition Inv (start next : Z) (m : list Z) : Prop :=
  start <= next /\ forall j, start <= j < next -> In j m.

Lemma loop_spec : forall g start next m, Inv start next m ->
  exists g', complete_loop g next m = Some g' /\ Forall2 entry_rel g g' /\ all_mapped g' /\
  forall i k, nth_error (new_numbers g g') i = Some k ->
    is_least_free start (m ++ firstn i (new_numbers g g')) k.
Proof.
  induction g as [|[n [a ad]] t IH]; intros start next m HInv.
  - exists []. simpl. split; [reflexivity|]. split; [constructor|]. split; [constructor|].
    intros [|i] k0; discriminate.
  - cbn [complete_loop]. destruct (a_aam a) as [k0|] eqn:Ea.
    + destruct (IH start next m HInv) as (t' & Ht & Hrel & Hmap & Hnew).
      rewrite Ht. exists ((n, (a, ad)) :: t'). split; [reflexivity|]. split; [|split].
      * constructor; [|exact Hrel]. unfold entry_rel, same_but_aam; simpl. tauto.
      * constructor; [simpl; eauto | exact Hmap].
      * cbn [new_numbers]. rewrite Ea. exact Hnew.
    + destruct (next_free_enough next m) as (k & Hk). rewrite Hk.
      pose proof (next_free_Some _ _ _ _ Hk) as (Hge & Hni & Hbelow).
      destruct HInv as (Hs & Hfill).
      assert (HInv' : Inv start k (m ++ [k])).
      { split; [lia|]. intros j Hj. apply in_or_app. left.
        destruct (Z_lt_le_dec j next); [apply Hfill; lia | apply Hbelow; lia]. }
      destruct (IH start k (m ++ [k]) HInv') as (t' & Ht & Hrel & Hmap & Hnew).
      rewrite Ht. exists ((n, (set_aam a k, ad)) :: t'). split; [reflexivity|]. split; [|split].
      * constructor; [|exact Hrel]. unfold entry_rel, same_but_aam; simpl.
        repeat split; auto. intros k1 Hk1. congruence.
      * constructor; [simpl; eauto | exact Hmap].
      * cbn [new_numbers]. rewrite Ea. cbn [set_aam a_aam].
        intros [|i] k1 Hnth; cbn [nth_error firstn] in *.
        -- injection Hnth as <-. rewrite app_nil_r. split; [lia|]. split; [exact Hni|].
           intros j Hj. destruct (Z_lt_le_dec j next); [apply Hfill; lia | apply Hbelow; lia].
        -- specialize (Hnew i k1 Hnth). rewrite <- app_assoc in Hnew. exact Hnew.
Qed.

Lemma zmin_list_le d l : zmin_list d l <= d.
Proof. revert d; induction l as [|x t IH]; simpl; intros d; [lia|]. specialize (IH (Z.min d x)). lia. Qed.

Theorem complete_aam_spec g off : exists g', complete_aam g off = Some g' /\ complete_spec g off g'.
Proof.
  unfold complete_aam, complete_spec.
  apply (loop_spec g (start_of off (existing_maps g)) (start_of off (existing_maps g)) (existing_maps g)).
  split; [lia | intros j Hj; lia].
Qed.

(** consequences in the words of the property *)

Lemma least_free_nth start old nw :
  (forall i k, nth_error nw i = Some k -> is_least_free start (old ++ firstn i nw) k) ->
  NoDup nw /\ (forall k, In k nw -> ~ In k old) /\ (forall k, In k nw -> start <= k).
Proof.
  intros H. split; [|split].
  - apply NoDup_nth_error. intros i j Hi Hij. destruct (nth_error nw i) as [k|] eqn:Ei;
      [|apply nth_error_Some in Hi; congruence].
    symmetry in Hij.
    destruct (Nat.lt_trichotomy i j) as [Hlt|[Heq|Hgt]]; [exfalso|exact Heq|exfalso].
    + destruct (H j k Hij) as (_ & Hni & _). apply Hni. apply in_or_app. right.
      assert (Hj : (j < List.length nw)%nat) by (apply nth_error_Some; congruence).
      rewrite <- (firstn_skipn j nw) in Ei. rewrite nth_error_app1 in Ei
        by (rewrite firstn_length; lia).
      apply nth_error_In in Ei. exact Ei.
    + destruct (H i k Ei) as (_ & Hni & _). apply Hni. apply in_or_app. right.
      assert (Hj : (j < List.length nw)%nat) by (apply nth_error_Some; congruence).
      rewrite <- (firstn_skipn i nw) in Hij. rewrite nth_error_app1 in Hij
        by (rewrite firstn_length; lia).
      apply nth_error_In in Hij. exact Hij.
  - intros k Hk Hold. apply In_nth_error in Hk. destruct Hk as (i & Hi).
    destruct (H i k Hi) as (_ & Hni & _). apply Hni. apply in_or_app. left. exact Hold.
  - intros k Hk. apply In_nth_error in Hk. destruct Hk as (i & Hi). destruct (H i k Hi) as (Hs & _). exact Hs.
Qed.

Theorem complete_aam_injective g off g' :
  complete_aam g off = Some g' ->
  NoDup (new_numbers g g') /\ (forall k, In k (new_numbers g g') -> ~ In k (existing_maps g)).
Proof.
  intros H. destruct (complete_aam_spec g off) as (g'' & H' & _ & _ & Hn).
  rewrite H in H'. injection H' as <-. apply least_free_nth in Hn. tauto.
Qed.

(** * initialize_aam *)

Theorem initialize_aam_spec g off :
  match initialize_aam g off with
  | None => exists n a ad k, In (n, (a, ad)) g /\ a_aam a = Some k
  | Some g' =>
      (forall n a ad, In (n, (a, ad)) g -> a_aam a = None) /\
      g' = map (fun '(n, (a, ad)) => (n, (set_aam a (n + off), ad))) g
  end.
Proof.
  unfold initialize_aam.
  destruct (forallb _ g) eqn:E.
  - split; [|reflexivity]. intros n a ad Hin. rewrite forallb_forall in E. specialize (E _ Hin).
    simpl in E. destruct (a_aam a); [discriminate|reflexivity].
  - assert (H : exists x, In x g /\ (let '(_, (a, _)) := x in negb (is_some (a_aam a))) = false).
    { clear -E. induction g as [|x t IH]; simpl in E; [discriminate|].
      apply andb_false_iff in E. destruct E as [E|E].
      - exists x. split; [left; auto|exact E].
      - destruct (IH E) as (y & Hy & Hy'). exists y. split; [right; auto|exact Hy']. }
    destruct H as ([n [a ad]] & Hin & Hx). destruct (a_aam a) as [k|] eqn:Ea; [|discriminate].
    exists n, a, ad, k. auto.
Qed.

(** * soundness of the decidable checker run on implementation outputs *)

Lemma option_eqb_sound {A} (eqb : A -> A -> bool) :
  (forall a b, eqb a b = true -> a = b) -> forall x y, option_eqb eqb x y = true -> x = y.
Proof. intros H [a|] [b|]; simpl; try discriminate; auto. intros E. f_equal. auto. Qed.

Lemma list_eqb_sound {A} (eqb : A -> A -> bool) :
  (forall a b, eqb a b = true -> a = b) -> forall x y, list_eqb eqb x y = true -> x = y.
Proof.
  intros H. induction x as [|a x IH]; intros [|b y]; simpl; try discriminate; auto.
  intros E. apply andb_true_iff in E. destruct E as [E1 E2]. f_equal; auto.
Qed.

Lemma adjl_eqb_sound x y : adjl_eqb x y = true -> x = y.
Proof.
  apply list_eqb_sound. intros [a la] [b lb]; simpl. intros E. apply andb_true_iff in E.
  destruct E as [E1 E2]. apply Z.eqb_eq in E1. apply label_eqb_eq in E2. congruence.
Qed.

Lemma zpair_eqb_sound (x y : Z * Z) : (fst x =? fst y) && (snd x =? snd y) = true -> x = y.
Proof.
  destruct x, y; simpl. intros E. apply andb_true_iff in E. destruct E as [E1 E2].
  apply Z.eqb_eq in E1. apply Z.eqb_eq in E2. congruence.
Qed.

Lemma zrange_In a b j : In j (zrange a b) <-> a <= j < b.
Proof.
  unfold zrange. rewrite in_map_iff. split.
  - intros (i & <- & Hi). apply in_seq in Hi. lia.
  - intros Hj. exists (Z.to_nat (j - a)). split; [lia|]. apply in_seq. lia.
Qed.

Lemma least_freeb_sound s u k : least_freeb s u k = true -> is_least_free s u k.
Proof.
  unfold least_freeb, is_least_free. rewrite !andb_true_iff, negb_true_iff, forallb_forall.
  intros [[H1 H2] H3]. split; [lia|]. split; [apply zmem_false; exact H2|].
  intros j Hj. apply zmem_In. apply H3. apply zrange_In. exact Hj.
Qed.

Lemma same_but_aamb_sound a a' : same_but_aamb a a' = true -> same_but_aam a a'.
Proof.
  unfold same_but_aamb, same_but_aam. rewrite !andb_true_iff. intros [[[H1 H2] H3] H4].
  repeat split.
  - revert H1. apply option_eqb_sound. intros x y; apply String.eqb_eq.
  - revert H2. apply option_eqb_sound. apply list_eqb_sound. intros x y; apply String.eqb_eq.
  - revert H3. apply option_eqb_sound. intros x y; apply Bool.eqb_prop.
  - revert H4. apply option_eqb_sound. apply zpair_eqb_sound.
Qed.

Lemma entry_relb_sound e e' : entry_relb e e' = true -> entry_rel e e'.
Proof.
  unfold entry_relb, entry_rel. rewrite !andb_true_iff. intros [[[H1 H2] H3] H4].
  split; [apply Z.eqb_eq; exact H1|]. split; [apply adjl_eqb_sound; exact H2|].
  split; [apply same_but_aamb_sound; exact H3|].
  intros k Hk. rewrite Hk in H4. revert H4. apply option_eqb_sound. intros x y; apply Z.eqb_eq.
Qed.

Lemma forall2b_sound {A B} (f : A -> B -> bool) (R : A -> B -> Prop) :
  (forall a b, f a b = true -> R a b) -> forall x y, forall2b f x y = true -> Forall2 R x y.
Proof.
  intros H. induction x as [|a x IH]; intros [|b y]; simpl; try discriminate; [constructor|].
  intros E. apply andb_true_iff in E. destruct E. constructor; auto.
Qed.

Lemma nth_checks_sound start old : forall nw acc,
  nth_checks start old nw acc = true ->
  forall i k, nth_error nw i = Some k -> is_least_free start (old ++ acc ++ firstn i nw) k.
Proof.
  induction nw as [|x t IH]; intros acc H i k Hn; [destruct i; discriminate|].
  simpl in H. apply andb_true_iff in H. destruct H as [H1 H2].
  destruct i as [|i]; simpl in Hn.
  - injection Hn as <-. simpl. rewrite app_nil_r. apply least_freeb_sound. exact H1.
  - specialize (IH (acc ++ [x]) H2 i k Hn). rewrite <- app_assoc in IH. exact IH.
Qed.

Theorem complete_okb_sound g off g' : complete_okb g off (Some g') = true -> complete_spec g off g'.
Proof.
  unfold complete_okb, complete_spec. rewrite !andb_true_iff. intros [[H1 H2] H3].
  split; [revert H1; apply forall2b_sound; apply entry_relb_sound|]. split.
  - unfold all_mappedb in H2. rewrite forallb_forall in H2. apply Forall_forall. intros e He.
    specialize (H2 e He). destruct (a_aam (fst (snd e))); [eauto|discriminate].
  - intros i k Hn. exact (nth_checks_sound _ _ _ _ H3 i k Hn).
Qed.

(* ... and the model's own output passes it (so the checker is not vacuously strict) is
   checked per case by the harness: both [agree] and [spec] are evaluated. *)
