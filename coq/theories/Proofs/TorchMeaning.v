(** C18: graph meaning of the induced tensor (any tensor graph, not only tensor forms of ITS
    graphs): the arcs and arc features among the kept nodes are exactly the old ones.
    Used for node-induced subgraphs and for prune (whose result is an induced tensor). *)
From Coq Require Import ZArith List Bool String Lia.
From FGV Require Import Base.Util Base.UtilFacts Base.Bond Base.NX
  Model.Torch Spec.PeriodicRef Spec.TorchSpec Proofs.TorchUtil Proofs.TorchBatch Proofs.TorchInduced.
Import ListNotations.
Open Scope Z_scope.

Lemma combine_map_same {A B C} (f : A -> B) (g : A -> C) l :
  combine (map f l) (map g l) = map (fun a => (f a, g a)) l.
Proof. induction l as [|a t IH]; simpl; [reflexivity|]. rewrite IH. reflexivity. Qed.

Lemma fold_left_map {A B C} (f : A -> B -> A) (h : C -> B) l : forall acc,
  fold_left f (map h l) acc = fold_left (fun a c => f a (h c)) l acc.
Proof. induction l as [|c t IH]; intros acc; simpl; [reflexivity|]. apply IH. Qed.

Lemma fold_left_filter {A B} (f : A -> B -> A) (Q : B -> bool) l : forall acc,
  fold_left f (filter Q l) acc = fold_left (fun a c => if Q c then f a c else a) l acc.
Proof.
  induction l as [|c t IH]; intros acc; simpl; [reflexivity|]. destruct (Q c); simpl; apply IH.
Qed.

Lemma fold_left_ext_in {A B} (f g : A -> B -> A) l :
  (forall a c, In c l -> f a c = g a c) -> forall acc, fold_left f l acc = fold_left g l acc.
Proof.
  induction l as [|c t IH]; intros H acc; simpl; [reflexivity|].
  rewrite (H acc c) by (left; reflexivity). apply IH. intros a c' Hc'. apply H. right. exact Hc'.
Qed.

Lemma renumber_hits s i j p :
  NoDup s -> (i < List.length s)%nat -> (j < List.length s)%nat ->
  (if both_in s p
   then (fst (renumber s p) =? Z.of_nat i) && (snd (renumber s p) =? Z.of_nat j)
   else false)
  = (fst p =? nth i s 0) && (snd p =? nth j s 0).
Proof.
  intros Hnd Hi Hj. destruct p as [a b]. unfold renumber. cbn [fst snd].
  assert (HU : In (nth i s 0) s) by (apply nth_In; exact Hi).
  assert (HV : In (nth j s 0) s) by (apply nth_In; exact Hj).
  destruct (both_in s (a, b)) eqn:Eb.
  - apply both_in_spec in Eb. cbn [fst snd] in Eb. destruct Eb as [Ha Hb].
    assert (E1 : (zindex a s =? Z.of_nat i) = (a =? nth i s 0)).
    { rewrite <- (zindex_of_nth i s Hnd Hi).
      destruct (Z.eqb_spec a (nth i s 0)) as [->|Hne]; [apply Z.eqb_refl|].
      apply Z.eqb_neq. intros E. apply Hne. apply (zindex_inj a (nth i s 0) s Ha HU E). }
    assert (E2 : (zindex b s =? Z.of_nat j) = (b =? nth j s 0)).
    { rewrite <- (zindex_of_nth j s Hnd Hj).
      destruct (Z.eqb_spec b (nth j s 0)) as [->|Hne]; [apply Z.eqb_refl|].
      apply Z.eqb_neq. intros E. apply Hne. apply (zindex_inj b (nth j s 0) s Hb HV E). }
    rewrite E1, E2. reflexivity.
  - symmetry. apply not_true_is_false. intros E. apply andb_true_iff in E. destruct E as [E1 E2].
    apply Z.eqb_eq in E1. apply Z.eqb_eq in E2. subst.
    assert (both_in s (nth i s 0, nth j s 0) = true) by (apply both_in_spec; auto). congruence.
Qed.

(** the feature row of the arc i -> j of the induced tensor is that of the arc between the i-th and
    the j-th kept node *)
Theorem induced_arc_label t s i j :
  NoDup s -> (i < List.length s)%nat -> (j < List.length s)%nat ->
  (forall ea, t_ea t = Some ea -> List.length ea = List.length (t_ei t)) ->
  arc_label (induced_tensor t s) (Z.of_nat i) (Z.of_nat j) = arc_label t (nth i s 0) (nth j s 0).
Proof.
  intros Hnd Hi Hj Hlen. unfold arc_label, induced_tensor. cbn [t_ea t_ei].
  destruct (t_ea t) as [ea|] eqn:Ea; cbn [option_map]; [|reflexivity].
  specialize (Hlen ea eq_refl).
  rewrite <- (filter_combine_fst (both_in s) (t_ei t) ea) by (symmetry; exact Hlen).
  rewrite map_map, combine_map_same, fold_left_map, fold_left_filter.
  apply fold_left_ext_in. intros acc c _. cbn [fst snd].
  pose proof (renumber_hits s i j (fst c) Hnd Hi Hj) as H.
  destruct (both_in s (fst c)).
  - rewrite H. reflexivity.
  - rewrite <- H. reflexivity.
Qed.

(** the same for the bare arcs *)
Theorem induced_has_arc t s i j :
  NoDup s -> (i < List.length s)%nat -> (j < List.length s)%nat ->
  has_arc (induced_tensor t s) (Z.of_nat i) (Z.of_nat j) = has_arc t (nth i s 0) (nth j s 0).
Proof.
  intros Hnd Hi Hj. unfold has_arc, arc_mem, induced_tensor. cbn [t_ei].
  induction (t_ei t) as [|p r IH]; [reflexivity|]. cbn [filter existsb].
  pose proof (renumber_hits s i j p Hnd Hi Hj) as H.
  destruct (both_in s p); cbn [map existsb]; rewrite IH; [rewrite H | rewrite <- H]; reflexivity.
Qed.

(** node features of the induced tensor *)
Theorem induced_x t s i :
  (i < List.length s)%nat -> nth i (t_x (induced_tensor t s)) [] = nth (Z.to_nat (nth i s 0)) (t_x t) [].
Proof.
  intros Hi. unfold induced_tensor. cbn [t_x].
  rewrite (nth_indep _ [] ((fun v => nth (Z.to_nat v) (t_x t) []) 0)) by (rewrite map_length; exact Hi).
  rewrite (map_nth (fun v => nth (Z.to_nat v) (t_x t) [])). reflexivity.
Qed.
