(** Further consequences of the C20 specification (atom-map completion):
    - completion is idempotent (a completed graph is a fixed point, whatever the offset),
    - an injective partial map is completed to an injective TOTAL map (all numbers of the result,
      old and new together, are pairwise distinct and every node has one),
    - the declarative specification [complete_spec] admits exactly ONE result graph, so the
      decidable checker the harness runs on implementation outputs pins the output completely. *)
From Coq Require Import ZArith List Bool String Lia Permutation.
From FGV Require Import Base.Util Base.UtilFacts Base.Bond Base.NX Model.Aam Spec.AamSpec Spec.AamCheck
  Proofs.AamProofs.
Import ListNotations.
Open Scope Z_scope.

(** * idempotence *)

Lemma loop_all_mapped : forall g next m, all_mapped g -> complete_loop g next m = Some g.
Proof.
  induction g as [|[n [a ad]] t IH]; intros next m Hall; [reflexivity|].
  inversion Hall as [|x l Hx Ht]; subst. cbn [fst snd] in Hx. destruct Hx as (k & Hk).
  cbn [complete_loop]. rewrite Hk. rewrite (IH next m Ht). reflexivity.
Qed.

Theorem complete_aam_fixed g off : all_mapped g -> complete_aam g off = Some g.
Proof. intros H. unfold complete_aam. apply loop_all_mapped. exact H. Qed.

Theorem complete_aam_idempotent g off off' g' :
  complete_aam g off = Some g' -> complete_aam g' off' = Some g'.
Proof.
  intros H. destruct (complete_aam_spec g off) as (g'' & H' & _ & Hall & _).
  rewrite H in H'. injection H' as <-. apply complete_aam_fixed. exact Hall.
Qed.

(** * the completed map as a whole *)

Lemma maps_perm : forall g g', Forall2 entry_rel g g' -> all_mapped g' ->
  Permutation (existing_maps g') (existing_maps g ++ new_numbers g g').
Proof.
  intros g g' H. induction H as [|[n [a ad]] [n' [a' ad']] t t' Hrel Hrest IH]; intros Hall.
  - constructor.
  - inversion Hall as [|x l Hx Ht]; subst. cbn [fst snd] in Hx. destruct Hx as (k' & Hk').
    specialize (IH Ht). destruct Hrel as (_ & _ & _ & Hkeep). cbn [fst snd] in Hkeep.
    unfold existing_maps in *. cbn [flat_map new_numbers]. rewrite Hk'.
    destruct (a_aam a) as [k|] eqn:Ea.
    + specialize (Hkeep k eq_refl). rewrite Hk' in Hkeep. injection Hkeep as ->.
      cbn [app]. apply perm_skip. exact IH.
    + cbn [app]. apply Permutation_cons_app. exact IH.
Qed.

Lemma NoDup_app_disjoint {A} (l1 l2 : list A) :
  NoDup l1 -> NoDup l2 -> (forall x, In x l2 -> ~ In x l1) -> NoDup (l1 ++ l2).
Proof.
  induction l1 as [|x t IH]; intros H1 H2 Hd; [exact H2|].
  inversion H1 as [|y l Hni Hnd]; subst. cbn [app]. constructor.
  - intros Hin. apply in_app_or in Hin. destruct Hin as [Hin|Hin]; [exact (Hni Hin)|].
    apply (Hd x Hin). left. reflexivity.
  - apply IH; [exact Hnd | exact H2 | intros z Hz Hzt; apply (Hd z Hz); right; exact Hzt].
Qed.

Lemma all_mapped_length : forall g, all_mapped g -> List.length (existing_maps g) = List.length g.
Proof.
  induction g as [|[n [a ad]] t IH]; intros Hall; [reflexivity|].
  inversion Hall as [|x l Hx Ht]; subst. cbn [fst snd] in Hx. destruct Hx as (k & Hk).
  unfold existing_maps in *. cbn [flat_map]. rewrite Hk. cbn [app List.length]. rewrite (IH Ht). reflexivity.
Qed.

(* the property's "complete injective map": if the numbers already present are pairwise distinct,
   then ALL numbers of the result are pairwise distinct and there is one per node *)
Theorem complete_aam_total_injective g off g' :
  NoDup (existing_maps g) -> complete_aam g off = Some g' ->
  NoDup (existing_maps g') /\ List.length (existing_maps g') = List.length g' /\
  List.length g' = List.length g.
Proof.
  intros Hnd H. destruct (complete_aam_spec g off) as (g'' & H' & Hrel & Hall & Hn).
  rewrite H in H'. injection H' as <-.
  pose proof (complete_aam_injective g off g' H) as (Hnew & Hdisj).
  split; [|split].
  - eapply Permutation_NoDup; [apply Permutation_sym; apply maps_perm; eassumption|].
    apply NoDup_app_disjoint; assumption.
  - apply all_mapped_length. exact Hall.
  - symmetry. clear -Hrel. induction Hrel; cbn [List.length]; congruence.
Qed.

(* a duplicate among the old numbers is the only way the result can contain one *)
Theorem complete_aam_dup_only_old g off g' k :
  complete_aam g off = Some g' ->
  (1 < count_occ Z.eq_dec (existing_maps g') k)%nat -> (1 < count_occ Z.eq_dec (existing_maps g) k)%nat.
Proof.
  intros H Hc. destruct (complete_aam_spec g off) as (g'' & H' & Hrel & Hall & Hn).
  rewrite H in H'. injection H' as <-.
  pose proof (complete_aam_injective g off g' H) as (Hnew & Hdisj).
  pose proof (proj1 (Permutation_count_occ Z.eq_dec _ _) (maps_perm _ _ Hrel Hall) k) as Hp.
  rewrite Hp in Hc.
  rewrite count_occ_app in Hc.
  destruct (in_dec Z.eq_dec k (new_numbers g g')) as [Hin|Hnin].
  - exfalso. pose proof (Hdisj k Hin) as Hno. apply (count_occ_not_In Z.eq_dec) in Hno.
    pose proof (proj1 (NoDup_count_occ Z.eq_dec _) Hnew k). lia.
  - apply (count_occ_not_In Z.eq_dec) in Hnin. lia.
Qed.

(** * the specification determines the result *)

Lemma least_free_unique s u k1 k2 : is_least_free s u k1 -> is_least_free s u k2 -> k1 = k2.
Proof.
  intros (Hs1 & Hn1 & Hb1) (Hs2 & Hn2 & Hb2).
  destruct (Z.lt_trichotomy k1 k2) as [Hlt|[Heq|Hgt]]; [exfalso|exact Heq|exfalso].
  - apply Hn1. apply Hb2. lia.
  - apply Hn2. apply Hb1. lia.
Qed.

Lemma least_seq_unique start old : forall n nw1 nw2,
  List.length nw1 = n -> List.length nw2 = n ->
  (forall i k, nth_error nw1 i = Some k -> is_least_free start (old ++ firstn i nw1) k) ->
  (forall i k, nth_error nw2 i = Some k -> is_least_free start (old ++ firstn i nw2) k) ->
  nw1 = nw2.
Proof.
  intros n nw1 nw2 L1 L2 H1 H2.
  assert (Hpre : forall i, (i <= n)%nat -> firstn i nw1 = firstn i nw2).
  { induction i as [|i IH]; intros Hi; [reflexivity|].
    specialize (IH ltac:(lia)).
    destruct (nth_error nw1 i) as [k1|] eqn:E1; [|apply nth_error_None in E1; lia].
    destruct (nth_error nw2 i) as [k2|] eqn:E2; [|apply nth_error_None in E2; lia].
    pose proof (H1 i k1 E1) as P1. pose proof (H2 i k2 E2) as P2. rewrite IH in P1.
    pose proof (least_free_unique _ _ _ _ P1 P2) as ->.
    assert (F : forall (l : list Z) j x, nth_error l j = Some x -> firstn (S j) l = firstn j l ++ [x]).
    { induction l as [|y l IHl]; intros [|j] x Hx; try discriminate.
      - injection Hx as ->. reflexivity.
      - cbn [firstn app]. f_equal. apply IHl. exact Hx. }
    rewrite (F _ _ _ E1), (F _ _ _ E2), IH. reflexivity. }
  specialize (Hpre n (le_n n)). rewrite <- L1 in Hpre at 1. rewrite <- L2 in Hpre.
  rewrite !firstn_all in Hpre. exact Hpre.
Qed.

Definition unmapped_count (g : graph) : nat :=
  List.length (filter (fun e : Z * (nattr * adjl) => negb (is_some (a_aam (fst (snd e))))) g).

Lemma new_numbers_length : forall g g', Forall2 entry_rel g g' -> all_mapped g' ->
  List.length (new_numbers g g') = unmapped_count g.
Proof.
  intros g g' H. induction H as [|[n [a ad]] [n' [a' ad']] t t' Hrel Hrest IH]; intros Hall; [reflexivity|].
  inversion Hall as [|x l Hx Ht]; subst. cbn [fst snd] in Hx. destruct Hx as (k' & Hk').
  specialize (IH Ht). unfold unmapped_count in *. cbn [new_numbers filter fst snd]. rewrite Hk'.
  destruct (a_aam a) as [k|]; cbn [is_some negb List.length]; rewrite IH; reflexivity.
Qed.

Lemma nattr_ext (a b : nattr) :
  a_sym a = a_sym b -> a_aam a = a_aam b -> a_labels a = a_labels b -> a_islab a = a_islab b ->
  a_idxmap a = a_idxmap b -> a = b.
Proof. destruct a, b; cbn; intros; subst; reflexivity. Qed.

Lemma rel_same_new : forall g g1 g2,
  Forall2 entry_rel g g1 -> Forall2 entry_rel g g2 -> all_mapped g1 -> all_mapped g2 ->
  new_numbers g g1 = new_numbers g g2 -> g1 = g2.
Proof.
  induction g as [|[n [a ad]] t IH]; intros g1 g2 R1 R2 A1 A2 Hn.
  - inversion R1; inversion R2; reflexivity.
  - inversion R1 as [|x1 [n1 [a1 ad1]] l1 t1 Hr1 Ht1]; subst.
    inversion R2 as [|x2 [n2 [a2 ad2]] l2 t2 Hr2 Ht2]; subst.
    inversion A1 as [|y1 m1 Hx1 Hm1]; subst. inversion A2 as [|y2 m2 Hx2 Hm2]; subst.
    cbn [fst snd] in Hx1, Hx2. destruct Hx1 as (k1 & Hk1). destruct Hx2 as (k2 & Hk2).
    destruct Hr1 as (Hid1 & Had1 & (S1 & L1 & I1 & X1) & K1).
    destruct Hr2 as (Hid2 & Had2 & (S2 & L2 & I2 & X2) & K2).
    cbn [fst snd] in *. subst n1 n2 ad1 ad2.
    cbn [new_numbers] in Hn. rewrite Hk1, Hk2 in Hn.
    assert (Hkk : k1 = k2 /\ new_numbers t t1 = new_numbers t t2).
    { destruct (a_aam a) as [k|] eqn:Ea.
      - pose proof (K1 k eq_refl) as E1. pose proof (K2 k eq_refl) as E2.
        rewrite Hk1 in E1. rewrite Hk2 in E2. split; [congruence | exact Hn].
      - injection Hn as Hh Ht. split; assumption. }
    destruct Hkk as (-> & Hn').
    assert (a1 = a2) as -> by (apply nattr_ext; congruence).
    f_equal. apply (IH t1 t2); assumption.
Qed.

(* exactly one graph satisfies the specification *)
Theorem complete_spec_unique g off g1 g2 :
  complete_spec g off g1 -> complete_spec g off g2 -> g1 = g2.
Proof.
  intros (R1 & A1 & N1) (R2 & A2 & N2).
  apply (rel_same_new g); try assumption.
  eapply least_seq_unique; [| |exact N1|exact N2].
  - apply new_numbers_length; assumption.
  - apply new_numbers_length; assumption.
Qed.

(* hence: an output accepted by the checker IS the model's output *)
Theorem complete_okb_exact g off g' :
  complete_okb g off (Some g') = true -> complete_aam g off = Some g'.
Proof.
  intros H. apply complete_okb_sound in H.
  destruct (complete_aam_spec g off) as (g'' & H' & Hs).
  rewrite H'. f_equal. eapply complete_spec_unique; eassumption.
Qed.
