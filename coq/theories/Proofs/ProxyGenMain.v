(** C14 main theorems: the generator yields exactly count_cfg graphs and stops; every result has
    ids 0..n-1 and no group node; soundness of the decidable hypotheses; the Diels-Alder counts. *)
From Coq Require Import ZArith List Bool String Lia Permutation Arith.
From FGV Require Import Base.Util Base.UtilFacts Base.Bond Base.NX Base.NXFacts Base.NXMulti Model.Aam Model.Proxy
  Model.Its Model.ProxyGen Spec.ProxySpec Spec.ProxyCheck Spec.ProxyGenSpec Spec.ProxyGenCheck
  Proofs.ProxyGenUtil Proofs.ProxyGenProofs Proofs.ProxyGenFinish.
Import ListNotations.
Open Scope Z_scope.

(** * the generator loop needs one pass more than there are core graphs *)

Lemma skipn_cons_nth {A} (l : list A) : forall h c t,
  skipn h l = c :: t -> nth_error l h = Some c /\ skipn (S h) l = t.
Proof.
  induction l as [|x l IH]; intros h c t H.
  - destruct h; discriminate.
  - destruct h as [|h]; simpl in *.
    + inversion H; subst. split; reflexivity.
    + apply IH. exact H.
Qed.

Lemma skipn_nil_nth {A} (l : list A) : forall h, skipn h l = [] -> nth_error l h = None.
Proof.
  induction l as [|x l IH]; intros h H.
  - destruct h; reflexivity.
  - destruct h as [|h]; simpl in *; [discriminate|]. apply IH. exact H.
Qed.

Lemma generate_loop_eq cfg : forall rest hist fuel,
  skipn hist (cfg_core cfg) = rest -> (List.length rest < fuel)%nat ->
  generate_loop fuel cfg hist = gen_for cfg rest.
Proof.
  induction rest as [|c t IH]; intros hist fuel Hs Hf; (destruct fuel as [|f]; [simpl in Hf; lia|]).
  - simpl. unfold sample_unique. rewrite (skipn_nil_nth _ _ Hs). reflexivity.
  - destruct (skipn_cons_nth _ _ _ _ Hs) as [Hn Hs'].
    cbn [generate_loop]. unfold sample_unique. rewrite Hn.
    rewrite (IH (S hist) f Hs') by (simpl in Hf; lia).
    simpl. destruct (build_graphs (cfg_groups cfg) c) as [graphs|e]; [|reflexivity].
    rewrite app_nil_r. destruct (gen_for cfg t) as [zs st]. reflexivity.
Qed.

Theorem proxy_all_eq cfg : proxy_all cfg = gen_for cfg (cfg_core cfg).
Proof. unfold proxy_all. apply generate_loop_eq; [reflexivity|lia]. Qed.

(** * the main theorems *)

Lemma gen_for_concat cfg cores outs :
  Forall2 (fun c out => build_graphs (cfg_groups cfg) c = GOk out) cores outs ->
  gen_for cfg cores = (map (finish (cfg_aam cfg)) (List.concat outs), GDone).
Proof.
  induction 1 as [|c out cores outs Hc _ IH]; simpl; [reflexivity|].
  rewrite Hc, IH, map_app. reflexivity.
Qed.

Section Main.
Hypothesis H13 : C13_multi_statement.
Hypothesis Hcopy : mcopy_statement.

(* per core graph: build_graphs returns exactly the results of the complete derivations, as many as
   the count formula says *)
Definition core_expansion (gs : groups) (c : pgraph) (out : list mgraph) : Prop :=
  build_graphs gs c = GOk out
  /\ List.length out = count_graph gs (pg_graph c)
  /\ (forall r, In r out <-> exists cs, derives gs (pg_graph c) cs r)
  /\ Forall (fun r => pattern_ok gs r /\ forall e, In e r -> is_group_attr gs (fst (snd e)) = false) out.

Lemma cores_ok cfg rks cores :
  ranked (cfg_groups cfg) rks ->
  Forall (fun kg => Forall (pgraph_ok (cfg_groups cfg)) (gr_graphs (snd kg))) (cfg_groups cfg) ->
  Forall (fun c => pattern_ok (cfg_groups cfg) (pg_graph c)) cores ->
  exists outs, Forall2 (core_expansion (cfg_groups cfg)) cores outs.
Proof.
  intros Hrk Hgs. induction cores as [|c t IH]; intros Hc.
  - exists []. constructor.
  - inversion Hc as [|? ? Hc1 Hct]; subst.
    destruct (IH Hct) as [outs Hall].
    destruct (build_graphs_ok (cfg_groups cfg) rks Hrk Hgs H13 Hcopy c Hc1) as [out [Hb [Hlo [Hout Hcompl]]]].
    exists (out :: outs). constructor; [|exact Hall].
    split; [exact Hb|]. split; [exact Hlo|]. split.
    + intros r. split.
      * intros Hr. rewrite Forall_forall in Hout. destruct (Hout r Hr) as [_ [_ H]]. exact H.
      * intros [cs Hd]. exact (Hcompl cs r Hd).
    + eapply Forall_impl; [|exact Hout]. intros r [H1 [H2 _]]. split; assumption.
Qed.

Theorem expansion_structure cfg :
  cfg_ok cfg -> acyclic (cfg_groups cfg) ->
  exists outs, Forall2 (core_expansion (cfg_groups cfg)) (cfg_core cfg) outs
               /\ proxy_all cfg = (map (finish (cfg_aam cfg)) (List.concat outs), GDone).
Proof.
  intros [Hcore Hgs] [rks Hrk].
  destruct (cores_ok cfg rks (cfg_core cfg) Hrk Hgs Hcore) as [outs Hall].
  exists outs. split; [exact Hall|]. rewrite proxy_all_eq. apply gen_for_concat.
  clear -Hall. induction Hall as [|c out cores outs [H _] _ IH]; constructor; [exact H|exact IH].
Qed.

Theorem expansion_main cfg :
  cfg_ok cfg -> acyclic (cfg_groups cfg) ->
  exists results, proxy_all cfg = (results, GDone)
    /\ List.length results = count_cfg cfg
    /\ Forall (result_ok cfg) results.
Proof.
  intros Hok Hac. destruct (expansion_structure cfg Hok Hac) as [outs [Hall Hrun]].
  exists (map (finish (cfg_aam cfg)) (List.concat outs)). split; [exact Hrun|]. split.
  - rewrite map_length. unfold count_cfg. clear Hrun.
    induction Hall as [|c out cores outs [_ [Hl _]] _ IH]; simpl; [reflexivity|].
    rewrite app_length, Hl, IH. reflexivity.
  - apply Forall_forall. intros r Hr. apply in_map_iff in Hr. destruct Hr as [g [<- Hg]].
    apply in_concat in Hg. destruct Hg as [out [Hout Hg]].
    destruct (Forall2_in_r _ _ _ _ Hall Hout) as [c [_ [_ [_ [_ Hfo]]]]].
    rewrite Forall_forall in Hfo. destruct (Hfo g Hg) as [Hp Hfin].
    destruct (finish_facts (cfg_groups cfg) (cfg_aam cfg) g Hp Hfin) as [H1 [H2 [H3 _]]].
    split; [exact H1|]. split; [exact H2|exact H3].
Qed.

(* atom symbols: a result carries exactly the symbols of the non-group nodes of the core pattern and
   of the patterns chosen along its derivation; the collapse to a simple graph keeps them *)
Theorem expansion_symbols cfg c cs r :
  cfg_ok cfg -> acyclic (cfg_groups cfg) -> In c (cfg_core cfg) ->
  derives (cfg_groups cfg) (pg_graph c) cs r ->
  Permutation (symbols (finish (cfg_aam cfg) r))
              (plain_symbols (cfg_groups cfg) (pg_graph c)
               ++ flat_map (fun sg => plain_symbols (cfg_groups cfg) (pg_graph sg)) cs).
Proof.
  intros Hok Hac Hc Hd. pose proof Hok as [Hcore Hgs]. destruct Hac as [rks Hrk].
  rewrite Forall_forall in Hcore. pose proof (Hcore c Hc) as Hpc.
  destruct (build_graphs_ok (cfg_groups cfg) rks Hrk Hgs H13 Hcopy c Hpc) as [out [_ [_ [Hout Hcompl]]]].
  rewrite Forall_forall in Hout. destruct (Hout r (Hcompl cs r Hd)) as [Hp [Hfin _]].
  rewrite (finish_symbols (cfg_groups cfg) (cfg_aam cfg) r Hp Hfin).
  eapply derivation_symbols; eauto.
Qed.

End Main.
