(** C01 / C02: the parser model maps the text of every well-formed chain to the graph the
    chain denotes; characterisation of that graph (nodes in textual order numbered from the
    offset, an edge exactly where the text bonds two atoms, with the written order);
    corollaries for ".", "$" and the plain-SMILES fragment. *)
From Coq Require Import ZArith List Bool Ascii String Lia.
From FGV Require Import Base.Util Base.UtilFacts Base.Bond Base.NX Base.NXFacts Base.Sym Base.Regex Base.Str
                        Gen.Lexer Model.NXMulti Model.GraphOps Model.Parse Spec.LexerRef Spec.ParseSpec
                        Proofs.StrFacts Proofs.ParseMachine Proofs.GraphLaws Proofs.LexFacts.
Import ListNotations.
Open Scope string_scope.
Open Scope Z_scope.

(** ** the main theorems *)

Definition sfold (l : list gop) (g : graph) : graph :=
  fold_left (fun g o => match o with ONode n a => add_node g n a | OEdge u v lb => add_edge g u v lb end) l g.

Lemma build_simple_from l : forall g, fold_left (apply_op simple_ops) l (Some g) = Some (sfold l g).
Proof.
  induction l as [|o l IH]; intros g; [reflexivity|]. destruct o; simpl; apply IH.
Qed.

Lemma denote_simple_sfold off aam t :
  denote_simple off aam t = sfold (map (realise off aam) (sem t)) empty_graph.
Proof. reflexivity. Qed.

(* (a) token level, networkx.Graph *)
Theorem parse_tokens_denote_simple aam off t :
  wf_core t = true ->
  parse_tokens simple_ops aam off (tokens t) = Ok (denote_simple off aam t).
Proof.
  intros Hwf.
  destruct (parse_tokens_denote simple_ops nodes_data simple_laws aam off t Hwf) as (g & Hb & Hp & _).
  unfold build in Hb. simpl g_empty in Hb. rewrite build_simple_from in Hb. injection Hb as <-.
  exact Hp.
Qed.

(* (a) token level, networkx.MultiGraph *)
Theorem parse_tokens_denote_multi aam off t :
  wf_core t = true ->
  exists g, denote_multi off aam t = Some g /\ parse_tokens multi_ops aam off (tokens t) = Ok g.
Proof.
  intros Hwf.
  destruct (parse_tokens_denote multi_ops mnodes_data multi_laws aam off t Hwf) as (g & Hb & Hp & _).
  exists g. split; assumption.
Qed.

Lemma wf_core_syntax t : wf_core t = true -> syntax_ok t = true.
Proof. unfold wf_core. rewrite andb_true_iff. tauto. Qed.

(* C01 for Parser(use_multigraph=False) / fgutils.parse.parse *)
Theorem parse_simple_denote aam off t :
  wf_core t = true -> wf_lex t = true ->
  parse_simple aam off (print t) = Ok (denote_simple off aam t).
Proof.
  intros Hc Hl. unfold parse_simple, parse.
  rewrite (lexer_roundtrip t (wf_core_syntax t Hc) Hl).
  apply parse_tokens_denote_simple. exact Hc.
Qed.

(* C01 for Parser(use_multigraph=True) *)
Theorem parse_multi_denote aam off t :
  wf_core t = true -> wf_lex t = true ->
  exists g, denote_multi off aam t = Some g /\ parse_multi aam off (print t) = Ok g.
Proof.
  intros Hc Hl. unfold parse_multi, parse.
  rewrite (lexer_roundtrip t (wf_core_syntax t Hc) Hl).
  apply parse_tokens_denote_multi. exact Hc.
Qed.

Lemma wf_parts multi t : wf multi t = true -> wf_core t = true /\ wf_lex t = true.
Proof. unfold wf. rewrite !andb_true_iff. tauto. Qed.

(** ** the nodes of the denoted graph *)

Lemma s_n_sem its :
  (forall t par S, s_n (sem_chain its t par S) = s_n S + Z.of_nat (natoms t)) /\
  (forall r me sy S, s_n (sem_rest its r me sy S) = s_n S + Z.of_nat (rest_natoms r)).
Proof.
  apply chain_rest_ind; simpl; intros.
  - rewrite H. simpl. lia.
  - lia.
  - destruct (slookup l (s_open S)) as [[? ?]|]; rewrite H; reflexivity.
  - rewrite H0, H. lia.
  - apply H.
Qed.

Lemma s_n_final t : s_n (sem_final t) = Z.of_nat (natoms t).
Proof. unfold sem_final. rewrite (proj1 (s_n_sem _)). reflexivity. Qed.

Lemma positions_nat n : positions (Z.of_nat n) = map Z.of_nat (seq 0 n).
Proof. unfold positions. rewrite Nat2Z.id. reflexivity. Qed.

(* one node per atom, in textual order, with the written symbol and labels *)
Theorem denote_nodes aam off t :
  wf_core t = true ->
  nodes_data (denote_simple off aam t) = map (node_of off aam) (sem_atoms (sem t)) /\
  map fst (sem_atoms (sem t)) = map Z.of_nat (seq 0 (natoms t)).
Proof.
  intros Hwf.
  destruct (parse_tokens_denote simple_ops nodes_data simple_laws aam off t Hwf) as (g & Hb & _ & Hv & Hpos).
  unfold build in Hb. simpl g_empty in Hb. rewrite build_simple_from in Hb. injection Hb as <-.
  split; [exact Hv|]. rewrite Hpos, s_n_final. apply positions_nat.
Qed.

(* ... numbered consecutively from the offset *)
Theorem denote_node_ids aam off t :
  wf_core t = true ->
  nodes (denote_simple off aam t) = map (fun i => off + Z.of_nat i) (seq 0 (natoms t)).
Proof.
  intros Hwf. destruct (denote_nodes aam off t Hwf) as [Hn Hp].
  assert (E : nodes (denote_simple off aam t) = map fst (nodes_data (denote_simple off aam t))).
  { unfold nodes, nodes_data. rewrite map_map. apply map_ext. intros [n [a ad]]. reflexivity. }
  rewrite E, Hn, map_map.
  transitivity (map (fun p => p + off) (map fst (sem_atoms (sem t)))).
  - rewrite map_map. reflexivity.
  - rewrite Hp, map_map. apply map_ext. intros i. lia.
Qed.

Theorem denote_multi_nodes aam off t g :
  wf_core t = true -> denote_multi off aam t = Some g ->
  mnodes_data g = map (node_of off aam) (sem_atoms (sem t)) /\
  mnodes g = map (fun i => off + Z.of_nat i) (seq 0 (natoms t)).
Proof.
  intros Hwf Hg.
  destruct (parse_tokens_denote multi_ops mnodes_data multi_laws aam off t Hwf) as (g' & Hb & _ & Hv & Hpos).
  unfold denote_multi in Hg. rewrite Hg in Hb. injection Hb as <-. split; [exact Hv|].
  assert (E : mnodes g = map fst (mnodes_data g)).
  { unfold mnodes, mnodes_data. rewrite map_map. apply map_ext. intros [n [a ad]]. reflexivity. }
  rewrite E, Hv, map_map.
  transitivity (map (fun p => p + off) (map fst (sem_atoms (sem t)))).
  - rewrite map_map. reflexivity.
  - rewrite Hpos, s_n_final, positions_nat, map_map. apply map_ext. intros i. lia.
Qed.

(** ** the edges of the denoted graph (networkx.Graph) *)

Definition hits (x y : Z) (o : aop) : bool :=
  match o with
  | AEdge u v _ => ((x =? u) && (y =? v)) || ((x =? v) && (y =? u))
  | ANode _ _ => false
  end.

Definition upd (x y : Z) (acc : option label) (o : aop) : option label :=
  match o with
  | AEdge _ _ lb => if hits x y o then Some lb else acc
  | ANode _ _ => acc
  end.

Lemma eqb_shift a b off : (a + off =? b + off) = (a =? b).
Proof. destruct (Z.eqb_spec a b); destruct (Z.eqb_spec (a + off) (b + off)); try reflexivity; lia. Qed.

Lemma edge_label_sfold off aam x y : forall l g,
  edge_label (sfold (map (realise off aam) l) g) (x + off) (y + off) =
  fold_left (upd x y) l (edge_label g (x + off) (y + off)).
Proof.
  induction l as [|o l IH]; intros g; [reflexivity|].
  simpl. rewrite IH. f_equal. destruct o as [p a|u v lb]; simpl.
  - apply edge_label_add_node.
  - rewrite edge_label_add_edge, !eqb_shift. reflexivity.
Qed.

Lemma upd_no_hit x y l : forall acc,
  forallb (fun o => negb (hits x y o)) l = true -> fold_left (upd x y) l acc = acc.
Proof.
  induction l as [|o l IH]; intros acc H; [reflexivity|]. simpl in H.
  apply andb_true_iff in H. destruct H as [Ho Hl]. simpl. rewrite (IH _ Hl).
  destruct o; simpl in *; [reflexivity|]. apply negb_true_iff in Ho. rewrite Ho. reflexivity.
Qed.

Lemma upd_Some_In x y lb : forall l acc,
  fold_left (upd x y) l acc = Some lb ->
  acc = Some lb \/ In (AEdge x y lb) l \/ In (AEdge y x lb) l.
Proof.
  induction l as [|o l IH]; intros acc H; [left; exact H|].
  simpl in H. apply IH in H. destruct H as [H|[H|H]]; [|right; left; right; exact H|right; right; right; exact H].
  destruct o as [p a|u v lb']; simpl in H; [left; exact H|].
  destruct ((x =? u) && (y =? v)) eqn:E1; simpl in H.
  - injection H as <-. apply andb_true_iff in E1. destruct E1 as [E1 E2].
    apply Z.eqb_eq in E1, E2. subst. right; left; left; reflexivity.
  - destruct ((x =? v) && (y =? u)) eqn:E2; simpl in H.
    + injection H as <-. apply andb_true_iff in E2. destruct E2 as [E2 E3].
      apply Z.eqb_eq in E2, E3. subst. right; right; left; reflexivity.
    + left; exact H.
Qed.

Lemma nodup_pairs_no_hit x y u v l :
  nodup_pairs ((u, v) :: edge_pairs l) = true ->
  ((x = u /\ y = v) \/ (x = v /\ y = u)) ->
  forallb (fun o => negb (hits x y o)) l = true.
Proof.
  intros Hnd Hxy. simpl in Hnd. apply andb_true_iff in Hnd. destruct Hnd as [Hne _].
  apply negb_true_iff in Hne. rewrite forallb_forall. intros o Ho.
  destruct o as [p a|u' v' lb']; [reflexivity|]. simpl. apply negb_true_iff.
  destruct (((x =? u') && (y =? v')) || ((x =? v') && (y =? u'))) eqn:E; [|reflexivity].
  exfalso. rewrite <- not_true_iff_false in Hne. apply Hne. apply existsb_exists.
  exists (u', v'). split.
  - unfold edge_pairs. apply in_flat_map. exists (AEdge u' v' lb'). split; [exact Ho|left; reflexivity].
  - apply orb_true_iff in E. rewrite !andb_true_iff, !Z.eqb_eq in E.
    apply orb_true_iff. rewrite !andb_true_iff, !Z.eqb_eq. lia.
Qed.

Lemma nodup_pairs_tail p l : nodup_pairs (p :: l) = true -> nodup_pairs l = true.
Proof. destruct p. simpl. rewrite andb_true_iff. tauto. Qed.

Lemma upd_In_Some x y lb : forall l acc,
  nodup_pairs (edge_pairs l) = true ->
  In (AEdge x y lb) l \/ In (AEdge y x lb) l ->
  fold_left (upd x y) l acc = Some lb.
Proof.
  induction l as [|o l IH]; intros acc Hnd Hin; [destruct Hin as [[]|[]]|].
  destruct o as [p a|u v lb'].
  - simpl. apply IH; [exact Hnd|]. destruct Hin as [[H|H]|[H|H]]; try discriminate; tauto.
  - change (edge_pairs (AEdge u v lb' :: l)) with ((u, v) :: edge_pairs l) in Hnd.
    destruct Hin as [[H|H]|[H|H]].
    + injection H as -> -> ->. simpl. rewrite !Z.eqb_refl. simpl.
      apply upd_no_hit. eapply nodup_pairs_no_hit; [exact Hnd|]. left; tauto.
    + simpl. apply IH; [eapply nodup_pairs_tail; exact Hnd|tauto].
    + injection H as -> -> ->. simpl. rewrite !Z.eqb_refl. simpl. rewrite orb_true_r.
      apply upd_no_hit. eapply nodup_pairs_no_hit; [exact Hnd|]. right; tauto.
    + simpl. apply IH; [eapply nodup_pairs_tail; exact Hnd|tauto].
Qed.

(* an edge exactly where the text bonds two atoms, carrying the written order
   (p, q are positions of atoms in the text; ids are positions + offset) *)
Theorem denote_edges aam off t p q lb :
  nodup_pairs (edge_pairs (sem t)) = true ->
  (edge_label (denote_simple off aam t) (p + off) (q + off) = Some lb <->
   In (AEdge p q lb) (sem t) \/ In (AEdge q p lb) (sem t)).
Proof.
  intros Hnd. rewrite denote_simple_sfold, edge_label_sfold.
  change (edge_label empty_graph (p + off) (q + off)) with (@None label). split.
  - intros H. apply upd_Some_In in H. destruct H as [H|H]; [discriminate|exact H].
  - apply upd_In_Some. exact Hnd.
Qed.

(* without the "no pair bonded twice" hypothesis one direction still holds *)
Theorem denote_edges_sound aam off t p q lb :
  edge_label (denote_simple off aam t) (p + off) (q + off) = Some lb ->
  In (AEdge p q lb) (sem t) \/ In (AEdge q p lb) (sem t).
Proof.
  rewrite denote_simple_sfold, edge_label_sfold.
  change (edge_label empty_graph (p + off) (q + off)) with (@None label).
  intros H. apply upd_Some_In in H. destruct H as [H|H]; [discriminate|exact H].
Qed.

Lemma wf_simple_nodup t : wf false t = true -> nodup_pairs (edge_pairs (sem t)) = true.
Proof. unfold wf. rewrite !andb_true_iff. simpl. tauto. Qed.

(** ** corollaries *)

(* a "." never yields an edge *)
Lemma dot_no_edge its s1 s2 : bond_label its Dot s1 s2 = None.
Proof. reflexivity. Qed.

(* "$" is accepted and means order 4 (8 half units) *)
Lemma quad_label its s1 s2 : bond_label its (Sym "$") s1 s2 = Some (lift its 8).
Proof. reflexivity. Qed.

Lemma sem_edges_app l l' : sem_edges (l ++ l') = (sem_edges l ++ sem_edges l')%list.
Proof. apply flat_map_app. Qed.

(* if every bond symbol in the text is "." (ring marks: none may close), the graph has no edge *)
Fixpoint dots_norings (t : chain) : bool :=
  match t with Chain _ r => rest_dots_norings r end
with rest_dots_norings (r : rest) : bool :=
  match r with
  | RNil => true
  | RRing _ _ _ => false
  | RBranch b c r' => match b with Dot => true | _ => false end && dots_norings c && rest_dots_norings r'
  | RNext b c => match b with Dot => true | _ => false end && dots_norings c
  end.

Lemma dots_no_edge_ops its :
  (forall t par S,
      dots_norings t = true ->
      match par with Some (_, _, b) => b = Dot | None => True end ->
      sem_edges (s_ops S) = [] -> sem_edges (s_ops (sem_chain its t par S)) = []) /\
  (forall r me sy S,
      rest_dots_norings r = true ->
      sem_edges (s_ops S) = [] -> sem_edges (s_ops (sem_rest its r me sy S)) = []).
Proof.
  apply chain_rest_ind; simpl; intros.
  - apply H; [exact H0|]. simpl. rewrite sem_edges_app, H2. simpl.
    destruct par as [[[p ps] b]|]; [subst b; reflexivity|reflexivity].
  - assumption.
  - discriminate.
  - rewrite !andb_true_iff in H1. destruct H1 as [[Hb Hc] Hr]. destruct b; try discriminate.
    apply H0; [exact Hr|]. apply H; [exact Hc|reflexivity|exact H2].
  - rewrite !andb_true_iff in H0. destruct H0 as [Hb Hc]. destruct b; try discriminate.
    apply H; [exact Hc|reflexivity|exact H1].
Qed.

Theorem dots_no_edges aam off t u v :
  dots_norings t = true -> edge_label (denote_simple off aam t) u v = None.
Proof.
  intros Hd.
  assert (Hno : sem_edges (sem t) = []).
  { unfold sem, sem_final. apply (proj1 (dots_no_edge_ops _)); [exact Hd|exact I|reflexivity]. }
  destruct (edge_label (denote_simple off aam t) u v) as [lb|] eqn:E; [|reflexivity]. exfalso.
  replace u with ((u - off) + off) in E by lia. replace v with ((v - off) + off) in E by lia.
  apply denote_edges_sound in E.
  assert (Hin : forall a b, In (AEdge a b lb) (sem t) -> In (a, b, lb) (sem_edges (sem t))).
  { intros a b Hi. unfold sem_edges. apply in_flat_map. exists (AEdge a b lb). split; [exact Hi|left; reflexivity]. }
  rewrite Hno in Hin. destruct E as [E|E]; apply Hin in E; exact E.
Qed.

(* the two-atom text  a$b : accepted, one edge of order 4 *)
Theorem quad_accepted aam off a b :
  atom_ok a = true -> atom_ok b = true ->
  follow_ok (atom_tok a) "$"%char = true ->
  exists g, parse_simple aam off (print (Chain a (RNext (Sym "$") (Chain b RNil)))) = Ok g /\
            edge_label g off (off + 1) = Some (Scalar 8) /\ nodes g = [off; off + 1].
Proof.
  intros Ha Hb Hf.
  set (t := Chain a (RNext (Sym "$") (Chain b RNil))).
  assert (Hc : wf_core t = true).
  { unfold wf_core, t. simpl. rewrite Ha, Hb. reflexivity. }
  assert (Hl : wf_lex t = true).
  { unfold wf_lex, t. simpl tokens. cbn [adj_ok snd head_char]. rewrite Hf.
    destruct (tok_valid_nonempty _ (atom_tok_valid b Hb)) as (c & w & Eb). rewrite Eb. reflexivity. }
  exists (denote_simple off aam t). split; [apply parse_simple_denote; assumption|]. split.
  - assert (E : edge_label (denote_simple off aam t) (0 + off) (1 + off) = Some (Scalar 8)).
    2:{ replace (0 + off) with off in E by lia. replace (1 + off) with (off + 1) in E by lia. exact E. }
    apply denote_edges; [reflexivity|]. left. unfold sem, sem_final, t. simpl. tauto.
  - rewrite (denote_node_ids aam off t Hc). unfold t. simpl. repeat (f_equal; try lia).
Qed.

(** ** C02: the plain-SMILES fragment *)

Lemma plain_no_rc :
  (forall t, plain t = true -> has_rc t = false) /\
  (forall r, rest_plain r = true -> rest_has_rc r = false).
Proof.
  apply chain_rest_ind; simpl; intros.
  - apply andb_true_iff in H0. destruct H0. auto.
  - reflexivity.
  - rewrite !andb_true_iff in H0. destruct H0 as [[Hb _] Hr]. rewrite (H Hr).
    destruct b; try reflexivity; discriminate.
  - rewrite !andb_true_iff in H1. destruct H1 as [[Hb Hc] Hr]. rewrite (H Hc), (H0 Hr).
    destruct b; try reflexivity; discriminate.
  - rewrite !andb_true_iff in H0. destruct H0 as [Hb Hc]. rewrite (H Hc).
    destruct b; try reflexivity; discriminate.
Qed.

(* every bond of a plain chain is a scalar order: single, aromatic, double or triple *)
Definition plain_label (lb : label) : Prop :=
  lb = Scalar 2 \/ lb = Scalar 3 \/ lb = Scalar 4 \/ lb = Scalar 6.

Lemma plain_bond_label b s1 s2 lb :
  plain_bsym b = true -> bond_label false b s1 s2 = Some lb -> plain_label lb.
Proof.
  unfold plain_label. destruct b as [| |c|g h]; simpl; intros Hp H.
  - injection H as <-. destruct (islower s1 && islower s2); tauto.
  - discriminate.
  - unfold str_mem in Hp. simpl in Hp.
    repeat match type of Hp with
    | (String.eqb c ?k || _) = true =>
        destruct (String.eqb_spec c k) as [->|_]; [simpl in H; injection H as <-; tauto|simpl in Hp]
    end. discriminate.
  - discriminate.
Qed.

Lemma plain_edges :
  (forall t par S,
      plain t = true ->
      match par with Some (_, _, b) => plain_bsym b = true | None => True end ->
      (forall u v lb, In (AEdge u v lb) (s_ops S) -> plain_label lb) ->
      forall u v lb, In (AEdge u v lb) (s_ops (sem_chain false t par S)) -> plain_label lb) /\
  (forall r me sy S,
      rest_plain r = true ->
      (forall u v lb, In (AEdge u v lb) (s_ops S) -> plain_label lb) ->
      forall u v lb, In (AEdge u v lb) (s_ops (sem_rest false r me sy S)) -> plain_label lb).
Proof.
  apply chain_rest_ind; simpl; intros.
  - apply andb_true_iff in H0. destruct H0 as [_ Hr].
    eapply H; [exact Hr| |exact H3]. simpl. intros u' v' lb' Hin.
    apply in_app_or in Hin. destruct Hin as [Hin|[Hin|Hin]]; [eapply H2; exact Hin|discriminate|].
    destruct par as [[[p ps] b]|]; [|destruct Hin].
    destruct (bond_label false b ps (atom_sym a)) as [l0|] eqn:E; simpl in Hin; [|destruct Hin].
    destruct Hin as [Hin|[]]. injection Hin as <- <- <-. eapply plain_bond_label; eassumption.
  - eapply H0; exact H1.
  - rewrite !andb_true_iff in H0. destruct H0 as [[Hb _] Hr].
    destruct (slookup l (s_open S)) as [[at_ asy]|].
    + eapply H; [exact Hr| |exact H2]. simpl. intros u' v' lb' Hin.
      apply in_app_or in Hin. destruct Hin as [Hin|Hin]; [eapply H1; exact Hin|].
      destruct (bond_label false b sy asy) as [l0|] eqn:E; simpl in Hin; [|destruct Hin].
      destruct Hin as [Hin|[]]. injection Hin as <- <- <-. eapply plain_bond_label; eassumption.
    + eapply H; [exact Hr| |exact H2]. simpl. exact H1.
  - rewrite !andb_true_iff in H1. destruct H1 as [[Hb Hc] Hr].
    eapply H0; [exact Hr| |exact H3]. apply (H (Some (me, sy, b)) S Hc Hb H2).
  - rewrite !andb_true_iff in H0. destruct H0 as [Hb Hc].
    exact (H (Some (me, sy, b)) S Hc Hb H1 u v lb H2).
Qed.

(* C02, parser side: on the plain fragment the parser yields the reference reading: atoms in
   textual order numbered from 0, no reaction-bond lifting, every bond single / aromatic /
   double / triple, an edge exactly where the SMILES bonds two atoms *)
Theorem plain_parse t :
  plain t = true -> wf false t = true ->
  parse_simple false 0 (print t) = Ok (denote_simple 0 false t) /\
  has_rc t = false /\
  nodes (denote_simple 0 false t) = map Z.of_nat (seq 0 (natoms t)) /\
  (forall p q lb, edge_label (denote_simple 0 false t) p q = Some lb <->
                  In (AEdge p q lb) (sem t) \/ In (AEdge q p lb) (sem t)) /\
  (forall p q lb, edge_label (denote_simple 0 false t) p q = Some lb -> plain_label lb).
Proof.
  intros Hp Hwf. destruct (wf_parts _ _ Hwf) as [Hc Hl].
  pose proof (proj1 plain_no_rc t Hp) as Hrc.
  split; [apply parse_simple_denote; assumption|]. split; [exact Hrc|]. split.
  - rewrite (denote_node_ids false 0 t Hc). apply map_ext. intros i. lia.
  - assert (Hed : forall p q lb, edge_label (denote_simple 0 false t) p q = Some lb <->
                                 In (AEdge p q lb) (sem t) \/ In (AEdge q p lb) (sem t)).
    { intros p q lb. replace p with (p + 0) at 1 by lia. replace q with (q + 0) at 1 by lia.
      apply denote_edges. apply wf_simple_nodup. exact Hwf. }
    split; [exact Hed|]. intros p q lb H. apply Hed in H.
    assert (Hall : forall u v l0, In (AEdge u v l0) (sem t) -> plain_label l0).
    { unfold sem, sem_final. rewrite Hrc. intros u v l0.
      apply (proj1 plain_edges t None (mkS 0 [] [] true) Hp I). simpl. intros ? ? ? []. }
    destruct H as [H|H]; eapply Hall; exact H.
Qed.

(** ** C01 in one statement per graph class *)

Theorem C01_graph aam off t :
  wf false t = true ->
  parse_simple aam off (print t) = Ok (denote_simple off aam t) /\
  nodes_data (denote_simple off aam t) = map (node_of off aam) (sem_atoms (sem t)) /\
  nodes (denote_simple off aam t) = map (fun i => off + Z.of_nat i) (seq 0 (natoms t)) /\
  (forall p q lb, edge_label (denote_simple off aam t) (p + off) (q + off) = Some lb <->
                  In (AEdge p q lb) (sem t) \/ In (AEdge q p lb) (sem t)).
Proof.
  intros Hwf. destruct (wf_parts _ _ Hwf) as [Hc Hl].
  split; [apply parse_simple_denote; assumption|].
  split; [apply (denote_nodes aam off t Hc)|].
  split; [apply denote_node_ids; exact Hc|].
  intros p q lb. apply denote_edges. apply wf_simple_nodup. exact Hwf.
Qed.

Theorem C01_multigraph aam off t :
  wf true t = true ->
  exists g, parse_multi aam off (print t) = Ok g /\ denote_multi off aam t = Some g /\
            mnodes_data g = map (node_of off aam) (sem_atoms (sem t)) /\
            mnodes g = map (fun i => off + Z.of_nat i) (seq 0 (natoms t)).
Proof.
  intros Hwf. destruct (wf_parts _ _ Hwf) as [Hc Hl].
  destruct (parse_multi_denote aam off t Hc Hl) as (g & Hd & Hp).
  exists g. split; [exact Hp|]. split; [exact Hd|]. apply denote_multi_nodes; assumption.
Qed.
