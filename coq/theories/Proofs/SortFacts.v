(** Facts about the stable insertion sorts of Model/FGTree.v (Python's sorted / sorted(reverse=True)). *)
From Coq Require Import List Bool Arith Lia Permutation Sorted.
From FGV Require Import Model.FGTree.
Import ListNotations.

Section SortFacts.
  Context {A : Type}.
  Variable ltb : A -> A -> bool.
  Hypothesis ltb_irrefl : forall a, ltb a a = false.
  Hypothesis ltb_trans : forall a b c, ltb a b = true -> ltb b c = true -> ltb a c = true.

  Definition lt (a b : A) : Prop := ltb a b = true.
  Definition gt (a b : A) : Prop := ltb b a = true.

  Lemma ltb_asym a b : ltb a b = true -> ltb b a = false.
  Proof.
    intros H. destruct (ltb b a) eqn:E; auto.
    rewrite <- (ltb_irrefl a). symmetry. eapply ltb_trans; eauto.
  Qed.

  (** ** permutation *)
  Lemma insert_asc_perm x l : Permutation (insert_asc ltb x l) (x :: l).
  Proof.
    induction l as [|y t IH]; simpl; auto.
    destruct (ltb y x); auto.
    rewrite IH. apply perm_swap.
  Qed.

  Lemma sorted_asc_perm l : Permutation (sorted_asc ltb l) l.
  Proof.
    induction l as [|x t IH]; simpl; auto.
    unfold sorted_asc in *. simpl. rewrite insert_asc_perm. auto.
  Qed.

  Lemma insert_desc_perm x l : Permutation (insert_desc ltb x l) (x :: l).
  Proof.
    induction l as [|y t IH]; simpl; auto.
    destruct (ltb x y); auto.
    rewrite IH. apply perm_swap.
  Qed.

  Lemma sorted_desc_perm l : Permutation (sorted_desc ltb l) l.
  Proof.
    induction l as [|x t IH]; simpl; auto.
    unfold sorted_desc in *. simpl. rewrite insert_desc_perm. auto.
  Qed.

  Lemma sorted_desc_In l x : In x (sorted_desc ltb l) <-> In x l.
  Proof.
    split; apply Permutation_in; [|symmetry]; apply sorted_desc_perm.
  Qed.

  (** ** the ascending sort yields a strictly sorted list when distinct elements are comparable *)
  Definition total_on (l : list A) : Prop :=
    forall a b, In a l -> In b l -> a = b \/ ltb a b = true \/ ltb b a = true.

  Lemma insert_asc_sorted x l :
    StronglySorted lt l ->
    (forall y, In y l -> ltb x y = true \/ ltb y x = true) ->
    StronglySorted lt (insert_asc ltb x l).
  Proof.
    induction l as [|y t IH]; intros Hs Hc; simpl.
    - constructor; constructor.
    - inversion Hs as [|? ? Hst Hall]; subst.
      destruct (ltb y x) eqn:E.
      + constructor.
        * apply IH; auto. intros z Hz. apply Hc. right. exact Hz.
        * rewrite Forall_forall in *. intros z Hz.
          apply (Permutation_in _ (insert_asc_perm x t)) in Hz. destruct Hz as [<-|Hz]; [exact E|auto].
      + assert (Hxy : ltb x y = true).
        { destruct (Hc y (or_introl eq_refl)) as [H|H]; [exact H|congruence]. }
        constructor; [exact Hs|].
        constructor; [exact Hxy|].
        rewrite Forall_forall in *. intros z Hz. eapply ltb_trans; [exact Hxy|]. apply Hall. exact Hz.
  Qed.

  Lemma sorted_asc_sorted l : NoDup l -> total_on l -> StronglySorted lt (sorted_asc ltb l).
  Proof.
    induction l as [|x t IH]; intros Hnd Ht.
    - constructor.
    - inversion Hnd as [|? ? Hnx Hnt]; subst.
      change (sorted_asc ltb (x :: t)) with (insert_asc ltb x (sorted_asc ltb t)).
      apply insert_asc_sorted.
      + apply IH; auto. intros a b Ha Hb. apply Ht; right; assumption.
      + intros y Hy. apply (Permutation_in _ (sorted_asc_perm t)) in Hy.
        destruct (Ht x y (or_introl eq_refl) (or_intror Hy)) as [->|H]; [contradiction|exact H].
  Qed.

  (** ** a strictly sorted list is determined by its elements *)
  Lemma sorted_unique l l' :
    StronglySorted lt l -> StronglySorted lt l' -> Permutation l l' -> l = l'.
  Proof.
    revert l'. induction l as [|a t IH]; intros l' Hs Hs' Hp.
    - apply Permutation_nil in Hp. congruence.
    - destruct l' as [|b t'].
      + symmetry in Hp. apply Permutation_nil in Hp. discriminate.
      + inversion Hs as [|? ? Hst Hall]; subst. inversion Hs' as [|? ? Hst' Hall']; subst.
        rewrite Forall_forall in Hall, Hall'.
        assert (Hab : a = b).
        { assert (Ha : In a (b :: t')) by (eapply Permutation_in; [exact Hp|left; reflexivity]).
          assert (Hb : In b (a :: t)) by (eapply Permutation_in; [symmetry; exact Hp|left; reflexivity]).
          destruct Ha as [Ha|Ha]; [congruence|]. destruct Hb as [Hb|Hb]; [congruence|].
          apply Hall' in Ha. apply Hall in Hb. unfold lt in *.
          rewrite (ltb_asym _ _ Ha) in Hb. discriminate. }
        subst b. f_equal. apply IH; auto. eapply Permutation_cons_inv; exact Hp.
  Qed.

  Theorem sorted_asc_permutation_invariant l l' :
    NoDup l -> total_on l -> Permutation l l' -> sorted_asc ltb l = sorted_asc ltb l'.
  Proof.
    intros Hnd Ht Hp.
    assert (Hnd' : NoDup l') by (eapply Permutation_NoDup; eauto).
    assert (Ht' : total_on l').
    { intros a b Ha Hb. apply Ht; eapply Permutation_in; try (symmetry; exact Hp); assumption. }
    apply sorted_unique.
    - apply sorted_asc_sorted; auto.
    - apply sorted_asc_sorted; auto.
    - rewrite sorted_asc_perm, sorted_asc_perm. exact Hp.
  Qed.

  (** ** positions in a strictly sorted list compare like their elements *)
  Lemma sorted_nth l : StronglySorted lt l ->
    forall i j a b, nth_error l i = Some a -> nth_error l j = Some b -> ltb a b = (i <? j).
  Proof.
    induction 1 as [|x t Hst IH Hall]; intros i j a b Hi Hj.
    - destruct i; discriminate.
    - rewrite Forall_forall in Hall.
      destruct i as [|i], j as [|j]; simpl in *.
      + inversion Hi; inversion Hj; subst. apply ltb_irrefl.
      + inversion Hi; subst. apply nth_error_In in Hj. apply Hall in Hj. exact Hj.
      + inversion Hj; subst. apply nth_error_In in Hi. apply Hall in Hi. apply ltb_asym. exact Hi.
      + rewrite (IH i j a b Hi Hj). reflexivity.
  Qed.

  (** ** add_child: appending an element greater than all and re-sorting puts it in front *)
  Lemma insert_desc_front x l : (forall y, In y l -> ltb y x = true) -> insert_desc ltb x l = x :: l.
  Proof.
    destruct l as [|y t]; simpl; auto. intros H.
    rewrite (ltb_asym y x); auto.
  Qed.

  Lemma sorted_desc_app_max l x :
    StronglySorted gt l -> (forall y, In y l -> ltb y x = true) ->
    sorted_desc ltb (l ++ [x]) = x :: l.
  Proof.
    unfold sorted_desc. induction l as [|y t IH]; intros Hs Hx; simpl; auto.
    inversion Hs as [|? ? Hst Hall]; subst.
    rewrite IH; [|exact Hst|intros z Hz; apply Hx; right; exact Hz]. simpl.
    rewrite (Hx y (or_introl eq_refl)). f_equal.
    apply insert_desc_front. rewrite Forall_forall in Hall. exact Hall.
  Qed.

  Lemma sorted_desc_id l : StronglySorted gt l -> sorted_desc ltb l = l.
  Proof.
    unfold sorted_desc. induction 1 as [|x t Hst IH Hall]; simpl; auto.
    rewrite IH. apply insert_desc_front. rewrite Forall_forall in Hall. exact Hall.
  Qed.
End SortFacts.
