(** C16 proofs, part 2: the ITS graph built for one mapping ([its_of]) carries, on every node
    pair, exactly the label [expected_label] prescribes; nodes and attributes are those of g. *)
From Coq Require Import ZArith List Bool String Lia.
From FGV Require Import Base.Util Base.UtilFacts Base.Bond Base.NX Base.NXFacts Model.Rule
                        Spec.RuleSpec Proofs.NXCopyFacts16 Proofs.RuleSplit.
Import ListNotations.
Open Scope Z_scope.

(** * mappings and their inverse *)

(* what [its_of] needs of a mapping: an injective function defined (at least) on every rule
   node, with values among g's nodes *)
Definition inj_map (rcg g : graph) (m : mapping) : Prop :=
  NoDup (map fst m) /\ NoDup (map snd m)
  /\ (forall a, In a (nodes rcg) -> In a (map snd m))
  /\ (forall u, In u (map fst m) -> In u (nodes g)).

Fixpoint rlookup (a : Z) (m : mapping) : option Z :=
  match m with
  | [] => None
  | (u, a') :: t => if a =? a' then Some u else rlookup a t
  end.

Lemma rlookup_In a m u : rlookup a m = Some u -> In (u, a) m.
Proof.
  induction m as [|[u' a'] t IH]; simpl; [discriminate|].
  destruct (Z.eqb_spec a a') as [->|H]; [intros [= ->]; auto|auto].
Qed.

Lemma In_rlookup a m u : NoDup (map snd m) -> In (u, a) m -> rlookup a m = Some u.
Proof.
  induction m as [|[u' a'] t IH]; simpl; [tauto|]. intros Hnd [H|H].
  - injection H as -> ->. rewrite Z.eqb_refl. reflexivity.
  - inversion Hnd as [|? ? Hni Hnd']; subst. destruct (Z.eqb_spec a a') as [->|Hne]; [|auto].
    exfalso. apply Hni. change a' with (snd (u, a')). apply in_map. exact H.
Qed.

Lemma rlookup_None a m : rlookup a m = None -> ~ In a (map snd m).
Proof.
  induction m as [|[u' a'] t IH]; simpl; [tauto|].
  destruct (Z.eqb_spec a a') as [->|H]; [discriminate|]. intros E [H1|H1]; [congruence|]. apply IH; assumption.
Qed.

Lemma alookup_invert_gen m : forall acc a, NoDup (map snd m) ->
  alookup a (fold_left (fun (acc : list (Z * Z)) '((k, v) : Z * Z) => aset v k acc) m acc) =
  match rlookup a m with Some u => Some u | None => alookup a acc end.
Proof.
  induction m as [|[u a'] t IH]; intros acc a Hnd; [reflexivity|].
  simpl. inversion Hnd as [|? ? Hni Hnd']; subst. rewrite IH by exact Hnd'.
  destruct (Z.eqb_spec a a') as [->|Hne].
  - destruct (rlookup a' t) eqn:E; [apply rlookup_In in E; exfalso; apply Hni;
      change a' with (snd (z, a')); apply in_map; exact E|].
    apply alookup_aset_eq.
  - destruct (rlookup a t); [reflexivity|]. apply alookup_aset_neq. exact Hne.
Qed.

Lemma alookup_invert m a u : NoDup (map snd m) -> (alookup a (invert m) = Some u <-> In (u, a) m).
Proof.
  intros Hnd. unfold invert. rewrite alookup_invert_gen by exact Hnd. simpl. split.
  - destruct (rlookup a m) eqn:E; [intros [= ->]; apply rlookup_In; exact E|discriminate].
  - intros H. rewrite (In_rlookup a m u Hnd H). reflexivity.
Qed.

Lemma alookup_mapping (m : mapping) u a : NoDup (map fst m) -> (alookup u m = Some a <-> In (u, a) m).
Proof. intros Hnd. split; [apply alookup_In|apply NoDup_alookup; exact Hnd]. Qed.

(** * the pair-keyed dict *)

Lemma pkey_eqb_true a b : pkey_eqb a b = true <-> a = b.
Proof.
  destruct a as [a1 a2], b as [b1 b2]. unfold pkey_eqb. simpl.
  rewrite andb_true_iff, !Z.eqb_eq. split; [intros [-> ->]; reflexivity|intros [= -> ->]; auto].
Qed.

Lemma pset_In k x d e : In e (pset k x d) -> e = (k, x) \/ In e d.
Proof.
  induction d as [|[k' x'] t IH]; simpl.
  - intros [H|[]]; auto.
  - destruct (pkey_eqb k k'); simpl; intros [H|H]; auto. destruct (IH H); auto.
Qed.

Lemma pair_in_pset k x d a b : pair_in d a b = true -> pair_in (pset k x d) a b = true.
Proof.
  unfold pair_in. induction d as [|[k' x'] t IH]; simpl; [discriminate|].
  destruct (pkey_eqb k k') eqn:Ek.
  - apply pkey_eqb_true in Ek. subst k'. simpl. auto.
  - simpl. rewrite !orb_true_iff. intros [H|H]; auto.
Qed.

Lemma pair_in_pset_self u v x d : pair_in (pset (u, v) x d) u v = true.
Proof.
  unfold pair_in. induction d as [|[k' x'] t IH]; simpl.
  - rewrite same_pair_refl. reflexivity.
  - destruct (pkey_eqb (u, v) k'); simpl; [rewrite same_pair_refl; reflexivity|].
    rewrite IH. apply orb_true_r.
Qed.

Lemma pair_in_sym es a b : pair_in es a b = pair_in es b a.
Proof.
  unfold pair_in. induction es as [|e t IH]; simpl; [reflexivity|]. rewrite IH, same_pair_swap. reflexivity.
Qed.

Lemma add_step_unfold inv its attrs ur vr d :
  add_step inv (Some (its, attrs)) (ur, vr, d) =
  match alookup ur inv, alookup vr inv with
  | Some u, Some v =>
      match edge_label its u v with
      | Some lb => Some (its, pset (u, v) (LPair (ord lb) (ord d)) attrs)
      | None => Some (add_edge its u v (LPair 0 (ord d)), attrs)
      end
  | _, _ => None
  end.
Proof. reflexivity. Qed.

(** * nx.set_edge_attributes *)

Lemma set_edge_attributes_spec (T : Z -> Z -> label) attrs : forall its,
  wf its ->
  (forall u v l, In (u, v, l) attrs -> T u v = l /\ T v u = l) ->
  let res := set_edge_attributes its attrs in
  wf res /\ nodes res = nodes its /\ (forall n, node_attr res n = node_attr its n)
  /\ (forall x y, edge_label res x y =
                  match edge_label its x y with
                  | None => None
                  | Some l0 => if pair_in attrs x y then Some (T x y) else Some l0
                  end).
Proof.
  induction attrs as [|[[u v] l] t IH]; intros its Hwf HT.
  - simpl. split; [exact Hwf|]. split; [reflexivity|]. split; [reflexivity|].
    intros x y. destruct (edge_label its x y); reflexivity.
  - unfold set_edge_attributes. simpl fold_left. fold (set_edge_attributes (set_edge_label its u v l) t).
    destruct (IH (set_edge_label its u v l)) as (I1 & I2 & I3 & I4).
    { apply wf_set_edge_label. exact Hwf. }
    { intros u' v' l' H'. apply HT. right. exact H'. }
    cbv zeta. split; [exact I1|]. split; [rewrite I2; apply nodes_set_edge_label|].
    split; [intros n; rewrite I3; apply node_attr_set_edge_label|].
    intros x y. rewrite I4. rewrite edge_label_set_edge_label by exact Hwf.
    destruct (HT u v l (or_introl eq_refl)) as (HT1 & HT2).
    unfold pair_in at 2. simpl existsb. fold (pair_in t x y).
    destruct (same_pair x y u v) eqn:Hp.
    + assert (HTxy : T x y = l).
      { apply same_pair_true in Hp. destruct Hp as [[-> ->]|[-> ->]]; assumption. }
      assert (Hel : edge_label its x y = edge_label its u v).
      { apply same_pair_true in Hp. destruct Hp as [[-> ->]|[-> ->]]; [reflexivity|apply wf_sym; exact Hwf]. }
      rewrite Hel. unfold has_edge. destruct (edge_label its u v) as [l0|]; simpl; [|reflexivity].
      rewrite HTxy. destruct (pair_in t x y); reflexivity.
    + rewrite andb_false_r. simpl. reflexivity.
Qed.

(** * expected_label is symmetric *)

Lemma rc_between_sym rcg f u v : wf rcg -> rc_between rcg f u v = rc_between rcg f v u.
Proof.
  intros Hwf. unfold rc_between. destruct (alookup u f), (alookup v f); try reflexivity.
  apply wf_sym. exact Hwf.
Qed.

Lemma expected_label_sym g rcg f u v :
  wf g -> wf rcg -> expected_label g rcg f u v = expected_label g rcg f v u.
Proof.
  intros Hg Hr. unfold expected_label. rewrite (rc_between_sym rcg f u v Hr), (wf_sym g u v Hg). reflexivity.
Qed.

(** * the main invariant *)

Section ItsOf.
  Variables (g rcg : graph) (m : mapping).
  Hypothesis Hg : wf g.
  Hypothesis Hrc : wf rcg.
  Hypothesis Hm : inj_map rcg g m.

  Let rule := reaction_rule rcg.
  Let E := expected_label g rcg m.

  Definition attrs_ok (attrs : list (Z * Z * label)) : Prop :=
    forall u v l, In (u, v, l) attrs -> E u v = Some l.

  Lemma E_sym u v : E u v = E v u.
  Proof. apply expected_label_sym; assumption. Qed.

  Lemma rr_label a b : edge_label (rr rule) a b = option_map Scalar (right_of rcg a b).
  Proof. apply (rule_right_spec rcg Hrc). Qed.

  Lemma rr_wf : wf (rr rule).
  Proof. apply (rule_right_spec rcg Hrc). Qed.

  Lemma rr_nodes : nodes (rr rule) = nodes rcg.
  Proof. apply (rule_right_spec rcg Hrc). Qed.

  Lemma rl_label a b : edge_label (rl rule) a b = option_map Scalar (left_of rcg a b).
  Proof. apply (rule_left_spec rcg Hrc). Qed.

  (* first loop: the value stored for a g edge is the expected label *)
  Lemma attr_value u v d :
    edge_label g u v = Some d ->
    forall attrs, attr_step rule m attrs (u, v, d) = pset (u, v) (match E u v with Some l => l | None => Scalar 0 end) attrs
                  /\ exists l, E u v = Some l.
  Proof.
    intros Hd attrs. unfold attr_step.
    assert (HE : E u v = Some (LPair (ord d) (ord
      (if zmem u (map fst m) && zmem v (map fst m)
       then match alookup u m, alookup v m with
            | Some ur, Some vr =>
                match edge_label (rr rule) ur vr with
                | Some lr => lr
                | None => if has_edge (rl rule) ur vr then Scalar 0 else d
                end
            | _, _ => d
            end
       else d)))).
    { unfold E, expected_label, rc_between. rewrite Hd.
      destruct (alookup u m) as [ur|] eqn:Eu.
      - destruct (alookup v m) as [vr|] eqn:Ev.
        + assert (Hzu : zmem u (map fst m) = true) by (apply zmem_In; eapply alookup_Some_key; eauto).
          assert (Hzv : zmem v (map fst m) = true) by (apply zmem_In; eapply alookup_Some_key; eauto).
          rewrite Hzu, Hzv. simpl andb. cbv iota. rewrite rr_label. unfold has_edge. rewrite rl_label.
          unfold right_of, left_of. destruct (edge_label rcg ur vr) as [lab|]; simpl.
          * destruct (lab_right lab) as [y|]; simpl; [reflexivity|].
            destruct (lab_left lab); simpl; reflexivity.
          * reflexivity.
        + destruct (zmem u (map fst m) && zmem v (map fst m)); reflexivity.
      - destruct (zmem u (map fst m) && zmem v (map fst m)); reflexivity. }
    rewrite HE. split; [reflexivity|eauto].
  Qed.

  Lemma first_loop es : forall attrs,
    (forall u v d, In (u, v, d) es -> edge_label g u v = Some d) ->
    attrs_ok attrs ->
    let attrs' := fold_left (attr_step rule m) es attrs in
    attrs_ok attrs'
    /\ (forall x y, pair_in attrs x y = true \/ pair_in es x y = true -> pair_in attrs' x y = true).
  Proof.
    induction es as [|[[u v] d] t IH]; intros attrs Hes Hok.
    - simpl. split; [exact Hok|]. intros x y [H|H]; [exact H|discriminate].
    - cbn [fold_left]. pose proof (Hes u v d (or_introl eq_refl)) as Hd.
      destruct (attr_value u v d Hd attrs) as (Hstep & l & HEl). rewrite Hstep, HEl.
      destruct (IH (pset (u, v) l attrs)) as (I1 & I2).
      { intros u' v' d' H'. apply Hes. right. exact H'. }
      { intros u' v' l' Hin. apply pset_In in Hin. destruct Hin as [Heq|Hin]; [|apply Hok; exact Hin].
        injection Heq as -> -> ->. exact HEl. }
      cbv zeta. split; [exact I1|]. intros x y [H|H].
      + apply I2. left. apply pair_in_pset. exact H.
      + unfold pair_in in H. simpl existsb in H. apply orb_true_iff in H. destruct H as [H|H].
        * apply I2. left. apply same_pair_true in H. destruct H as [[-> ->]|[-> ->]].
          -- apply pair_in_pset_self.
          -- rewrite pair_in_sym. apply pair_in_pset_self.
        * apply I2. right. exact H.
  Qed.

  (* second loop *)
  Definition inv2 (P : list (Z * Z * label)) (st : graph * list (Z * Z * label)) : Prop :=
    let '(its, attrs) := st in
    wf its /\ nodes its = nodes g /\ (forall n, node_attr its n = node_attr g n)
    /\ (forall x y l, edge_label g x y = Some l -> edge_label its x y = Some l)
    /\ (forall x y l, edge_label its x y = Some l ->
          edge_label g x y = Some l \/ (edge_label g x y = None /\ E x y = Some l))
    /\ attrs_ok attrs
    /\ (forall x y, has_edge g x y = true -> pair_in attrs x y = true)
    /\ (forall ur vr d, In (ur, vr, d) P ->
          exists u v, In (u, ur) m /\ In (v, vr) m /\ has_edge its u v = true).

  Lemma E_right u v ur vr y :
    In (u, ur) m -> In (v, vr) m -> right_of rcg ur vr = Some y ->
    E u v = Some (LPair (match edge_label g u v with Some lb => ord lb | None => 0 end) y).
  Proof.
    intros Hu Hv Hy. destruct Hm as (Hn1 & _).
    unfold E, expected_label, rc_between.
    rewrite (proj2 (alookup_mapping m u ur Hn1) Hu), (proj2 (alookup_mapping m v vr Hn1) Hv).
    unfold right_of in Hy. destruct (edge_label rcg ur vr) as [lab|]; [|discriminate]. rewrite Hy.
    destruct (edge_label g u v); reflexivity.
  Qed.

  Lemma second_loop es : forall P st,
    (forall ur vr d, In (ur, vr, d) es -> edge_label (rr rule) ur vr = Some d) ->
    inv2 P st ->
    exists st', fold_left (add_step (invert m)) es (Some st) = Some st' /\ inv2 (P ++ es) st'.
  Proof.
    induction es as [|[[ur vr] d] t IH]; intros P [its attrs] Hes Hinv.
    - exists (its, attrs). rewrite app_nil_r. auto.
    - cbn [fold_left]. rewrite add_step_unfold.
      pose proof (Hes ur vr d (or_introl eq_refl)) as Hd.
      destruct Hm as (Hn1 & Hn2 & Hcov & Hrng).
      (* the endpoints are rule nodes, hence in the mapping *)
      destruct (wf_edge_nodes _ _ _ _ rr_wf Hd) as (Hnu & Hnv).
      apply has_node_In in Hnu. apply has_node_In in Hnv. rewrite rr_nodes in Hnu, Hnv.
      apply Hcov in Hnu. apply Hcov in Hnv.
      apply in_map_iff in Hnu. destruct Hnu as ([u ur'] & Heq1 & Hinu). simpl in Heq1. subst ur'.
      apply in_map_iff in Hnv. destruct Hnv as ([v vr'] & Heq2 & Hinv'). simpl in Heq2. subst vr'.
      rewrite (proj2 (alookup_invert m ur u Hn2) Hinu), (proj2 (alookup_invert m vr v Hn2) Hinv').
      (* the label is a number y, the product-side order of the rc label *)
      rewrite rr_label in Hd. destruct (right_of rcg ur vr) as [y|] eqn:Hy; [|discriminate].
      simpl in Hd. injection Hd as <-. simpl ord.
      pose proof (E_right u v ur vr y Hinu Hinv' Hy) as HEuv.
      destruct Hinv as (W & N & A & G1 & G2 & OK & COV & PR).
      replace (P ++ (ur, vr, Scalar y) :: t) with ((P ++ [(ur, vr, Scalar y)]) ++ t)
        by (rewrite <- app_assoc; reflexivity).
      destruct (edge_label its u v) as [lb|] eqn:Eits.
      + apply IH; [intros a b c H'; apply Hes; right; exact H'|].
        split; [exact W|]. split; [exact N|]. split; [exact A|]. split; [exact G1|]. split; [exact G2|].
        split; [|split].
        * intros u' v' l' Hin. apply pset_In in Hin. destruct Hin as [Heq|Hin]; [|apply OK; exact Hin].
          injection Heq as -> -> ->. rewrite HEuv. destruct (G2 u v lb Eits) as [Hg1|[Hg1 Hg2]].
          -- rewrite Hg1. reflexivity.
          -- rewrite Hg1 in HEuv. rewrite HEuv in Hg2. injection Hg2 as <-. rewrite Hg1. reflexivity.
        * intros x y' H. apply pair_in_pset. apply COV. exact H.
        * intros a b c Hin. apply in_app_or in Hin. destruct Hin as [Hin|[Heq|[]]]; [exact (PR _ _ _ Hin)|].
          injection Heq as <- <- <-. exists u, v. split; [exact Hinu|]. split; [exact Hinv'|].
          unfold has_edge. rewrite Eits. reflexivity.
      + assert (Hgn : edge_label g u v = None).
        { destruct (edge_label g u v) as [l0|] eqn:E0; [|reflexivity]. apply G1 in E0. congruence. }
        rewrite Hgn in HEuv.
        assert (Hu : has_node its u = true).
        { apply has_node_In. rewrite N. apply Hrng. change u with (fst (u, ur)). apply in_map. exact Hinu. }
        assert (Hv : has_node its v = true).
        { apply has_node_In. rewrite N. apply Hrng. change v with (fst (v, vr)). apply in_map. exact Hinv'. }
        apply IH; [intros a b c H'; apply Hes; right; exact H'|].
        split; [apply wf_add_edge; exact W|].
        split; [rewrite nodes_add_edge_present by assumption; exact N|].
        split; [intros n; rewrite node_attr_add_edge_present by assumption; apply A|].
        split; [|split; [|split; [exact OK|split; [exact COV|]]]].
        * intros x y' l Hl. rewrite edge_label_add_edge'. destruct (same_pair x y' u v) eqn:Hp; [|apply G1; exact Hl].
          exfalso. rewrite same_pair_comm in Hp.
          rewrite (same_pair_label g u v x y' l Hg Hp Hl) in Hgn. discriminate.
        * intros x y' l. rewrite edge_label_add_edge'. destruct (same_pair x y' u v) eqn:Hp; [|apply G2].
          intros [= <-]. right. apply same_pair_true in Hp. destruct Hp as [[-> ->]|[-> ->]].
          -- split; [exact Hgn|exact HEuv].
          -- split; [rewrite (wf_sym g v u Hg); exact Hgn|rewrite E_sym; exact HEuv].
        * intros a b c Hin. apply in_app_or in Hin. destruct Hin as [Hin|[Heq|[]]].
          -- destruct (PR a b c Hin) as (u' & v' & H1 & H2 & H3). exists u', v'. split; [exact H1|]. split; [exact H2|].
             unfold has_edge in *. rewrite edge_label_add_edge'. destruct (same_pair u' v' u v); [reflexivity|exact H3].
          -- injection Heq as <- <- <-. exists u, v. split; [exact Hinu|]. split; [exact Hinv'|].
             unfold has_edge. rewrite edge_label_add_edge', same_pair_refl. reflexivity.
  Qed.

  Theorem its_of_spec :
    exists its, its_of g rule m = Some its
      /\ wf its /\ nodes its = nodes g /\ (forall n, node_attr its n = node_attr g n)
      /\ (forall x y, edge_label its x y = E x y).
  Proof.
    unfold its_of.
    (* first loop over the edges of the copy *)
    destruct (first_loop (edges (copy g)) []) as (F1 & F2).
    { intros u v d Hin. apply in_edges_label in Hin; [|apply wf_copy; exact Hg].
      rewrite edge_label_copy in Hin by exact Hg. exact Hin. }
    { intros u v l []. }
    set (attrs1 := fold_left (attr_step rule m) (edges (copy g)) []) in *.
    (* second loop *)
    destruct (second_loop (edges (rr rule)) [] (copy g, attrs1)) as ([its' attrs'] & Hfold & Hinv).
    { intros ur vr d Hin. apply in_edges_label in Hin; [exact Hin|]. apply rr_wf. }
    { split; [apply wf_copy; exact Hg|]. split; [apply nodes_copy; exact Hg|].
      split; [intros n; apply node_attr_copy; exact Hg|].
      split; [intros x y l Hl; rewrite edge_label_copy by exact Hg; exact Hl|].
      split; [intros x y l Hl; left; rewrite edge_label_copy in Hl by exact Hg; exact Hl|].
      split; [exact F1|]. split; [|intros ? ? ? []].
      intros x y Hxy. apply F2. right. rewrite pair_in_edges by (apply wf_copy; exact Hg).
      unfold has_edge in *. rewrite edge_label_copy by exact Hg. exact Hxy. }
    rewrite Hfold. simpl app in Hinv.
    destruct Hinv as (W & N & A & G1 & G2 & OK & COV & PR).
    set (T := fun u v => match E u v with Some l => l | None => Scalar 0 end).
    destruct (set_edge_attributes_spec T attrs' its' W) as (S1 & S2 & S3 & S4).
    { intros u v l Hin. unfold T. rewrite <- (E_sym u v), (OK u v l Hin). auto. }
    eexists. split; [reflexivity|]. split; [exact S1|]. split; [rewrite S2; exact N|].
    split; [intros n; rewrite S3; apply A|].
    intros x y. rewrite S4. destruct (edge_label its' x y) as [l0|] eqn:Eits.
    - destruct (pair_in attrs' x y) eqn:Epi.
      + apply pair_in_true in Epi. destruct Epi as (u & v & l & Hin & Hp).
        pose proof (OK u v l Hin) as HEuv. unfold T.
        apply same_pair_true in Hp. destruct Hp as [[-> ->]|[-> ->]].
        * rewrite HEuv. reflexivity.
        * rewrite (E_sym v u), HEuv. reflexivity.
      + destruct (G2 x y l0 Eits) as [Hg1|[_ Hg2]]; [|symmetry; exact Hg2].
        assert (pair_in attrs' x y = true) by (apply COV; unfold has_edge; rewrite Hg1; reflexivity). congruence.
    - (* no edge in the result: g has none and the rule's product side has none *)
      assert (Hgn : edge_label g x y = None).
      { destruct (edge_label g x y) as [l0|] eqn:E0; [|reflexivity]. apply G1 in E0. congruence. }
      unfold E, expected_label. rewrite Hgn.
      destruct (rc_between rcg m x y) as [lab|] eqn:Erc; [|reflexivity].
      destruct (lab_right lab) as [yy|] eqn:Ey; [|reflexivity]. exfalso.
      unfold rc_between in Erc. destruct (alookup x m) as [a|] eqn:Ea; [|discriminate].
      destruct (alookup y m) as [b|] eqn:Eb; [|discriminate].
      destruct Hm as (Hn1 & Hn2 & _ & _).
      apply alookup_In in Ea. apply alookup_In in Eb.
      assert (Hr : edge_label (rr rule) a b = Some (Scalar yy)).
      { rewrite rr_label. unfold right_of. rewrite Erc, Ey. reflexivity. }
      assert (Hhas : has_edge its' x y = true).
      { destruct (edges_complete _ _ _ _ rr_wf Hr) as [Hin|Hin].
        - destruct (PR _ _ _ Hin) as (u & v & H1 & H2 & H3).
          assert (u = x).
          { apply (In_rlookup a m u Hn2) in H1. apply (In_rlookup a m x Hn2) in Ea. congruence. }
          assert (v = y).
          { apply (In_rlookup b m v Hn2) in H2. apply (In_rlookup b m y Hn2) in Eb. congruence. }
          subst. exact H3.
        - destruct (PR _ _ _ Hin) as (u & v & H1 & H2 & H3).
          assert (u = y).
          { apply (In_rlookup b m u Hn2) in H1. apply (In_rlookup b m y Hn2) in Eb. congruence. }
          assert (v = x).
          { apply (In_rlookup a m v Hn2) in H2. apply (In_rlookup a m x Hn2) in Ea. congruence. }
          subst. rewrite has_edge_sym by exact W. exact H3. }
      unfold has_edge in Hhas. rewrite Eits in Hhas. discriminate.
  Qed.
End ItsOf.
