(** Look-up facts about the graph model that the matcher proofs need: consequences of
    well-formedness [wfb] (what every networkx.Graph satisfies). *)
From Coq Require Import ZArith List Bool String Lia.
From FGV Require Import Base.Util Base.UtilFacts Base.Bond Base.NX.
Import ListNotations.
Open Scope Z_scope.

Lemma nodes_akeys (g : graph) : nodes g = akeys g.
Proof. reflexivity. Qed.

Lemma sym_of_node g n s : sym_of g n = Some s -> In n (nodes g).
Proof.
  unfold sym_of, node_attr. destruct (alookup n g) as [[a ad]|] eqn:E; [|discriminate].
  intros _. rewrite nodes_akeys. eapply alookup_Some_key; eauto.
Qed.

Lemma adj_nonempty_node g n x : In x (adj g n) -> In n (nodes g).
Proof.
  unfold adj. destruct (alookup n g) as [[a ad]|] eqn:E; [|intros []].
  intros _. rewrite nodes_akeys. eapply alookup_Some_key; eauto.
Qed.

Lemma edge_label_In g u v l : edge_label g u v = Some l -> In (v, l) (adj g u).
Proof. unfold edge_label. apply alookup_In. Qed.

Lemma edge_label_node g u v l : edge_label g u v = Some l -> In u (nodes g).
Proof. intros H. apply edge_label_In in H. eapply adj_nonempty_node; eauto. Qed.

Lemma neighbors_edge_label g u v : In v (neighbors g u) <-> exists l, edge_label g u v = Some l.
Proof.
  unfold neighbors, edge_label. split.
  - intros H. apply (In_alookup v (adj g u)). exact H.
  - intros [l H]. eapply alookup_Some_key; eauto.
Qed.

Lemma has_edge_label g u v : has_edge g u v = true <-> exists l, edge_label g u v = Some l.
Proof.
  unfold has_edge. destruct (edge_label g u v); simpl; split; eauto; try discriminate.
  intros [l H]; discriminate.
Qed.

Section WF.
  Variable g : graph.
  Hypothesis Hwf : wfb g = true.

  Lemma wfb_nodes_nodup : NoDup (nodes g).
  Proof.
    unfold wfb in Hwf. apply andb_true_iff in Hwf. destruct Hwf as [H _].
    apply nodupb_NoDup. exact H.
  Qed.

  Lemma wfb_entry n a ad : alookup n g = Some (a, ad) -> wf_node g (n, (a, ad)) = true.
  Proof.
    intros H. apply alookup_In in H.
    unfold wfb in Hwf. apply andb_true_iff in Hwf. destruct Hwf as [_ H2].
    rewrite forallb_forall in H2. apply H2. exact H.
  Qed.

  Lemma wfb_neighbors_nodup n : NoDup (neighbors g n).
  Proof.
    unfold neighbors, adj. destruct (alookup n g) as [[a ad]|] eqn:E; [|constructor].
    apply wfb_entry in E. unfold wf_node in E. apply andb_true_iff in E. destruct E as [E _].
    apply nodupb_NoDup. exact E.
  Qed.

  Lemma wfb_sym u v l : edge_label g u v = Some l -> edge_label g v u = Some l.
  Proof.
    intros H. pose proof (edge_label_In _ _ _ _ H) as Hin.
    unfold adj in Hin. destruct (alookup u g) as [[a ad]|] eqn:E; [|destruct Hin].
    apply wfb_entry in E. unfold wf_node in E. apply andb_true_iff in E. destruct E as [_ E].
    rewrite forallb_forall in E. specialize (E _ Hin). simpl in E.
    destruct (edge_label g v u) as [l'|]; simpl in E; [|discriminate].
    apply label_eqb_eq in E. congruence.
  Qed.

  Lemma wfb_neighbor_node u v : In v (neighbors g u) -> In v (nodes g).
  Proof.
    intros H. apply neighbors_edge_label in H. destruct H as [l H].
    apply wfb_sym in H. eapply edge_label_node; eauto.
  Qed.

  Lemma wfb_neighbor_sym u v : In v (neighbors g u) -> In u (neighbors g v).
  Proof.
    intros H. apply neighbors_edge_label in H. destruct H as [l H].
    apply wfb_sym in H. apply neighbors_edge_label. eauto.
  Qed.
End WF.
