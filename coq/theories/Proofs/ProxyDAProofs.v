(** The shipped Diels-Alder configuration (Gen/ProxyDA.v, regenerated from the source on every run):
    it satisfies the hypotheses of the C14 theorems and the count formula gives the documented
    10470 / 12875 samples. *)
From Coq Require Import ZArith List Bool String Lia.
From FGV Require Import Base.Util Base.Bond Base.NX Base.NXMulti Model.Proxy Model.Its Model.ProxyGen
  Spec.ProxySpec Spec.ProxyGenSpec Spec.ProxyGenCheck Spec.ProxyBondSpec Gen.ProxyDA
  Proofs.ProxyGenMain Proofs.ProxyGenCheckProofs.
Import ListNotations.
Set Warnings "-abstract-large-number".

Lemma DA_pos_hyp : cfg_hypb DA_pos = true.
Proof. vm_compute. reflexivity. Qed.
Lemma DA_neg_hyp : cfg_hypb DA_neg = true.
Proof. vm_compute. reflexivity. Qed.

(* no pattern of the shipped collection has a self-loop *)
Lemma DA_loopfree : cfg_loopfreeb DA_pos = true /\ cfg_loopfreeb DA_neg = true.
Proof. split; vm_compute; reflexivity. Qed.

(* reference values: the documented numbers of samples *)
Lemma DA_pos_count_formula : count_cfg DA_pos = 10470%nat.
Proof. vm_compute. reflexivity. Qed.
Lemma DA_neg_count_formula : count_cfg DA_neg = 12875%nat.
Proof. vm_compute. reflexivity. Qed.

Theorem DA_pos_count :
  C13_multi_statement -> mcopy_statement ->
  exists results, proxy_all DA_pos = (results, GDone) /\ List.length results = 10470%nat
                  /\ Forall (result_ok DA_pos) results.
Proof.
  intros H13 Hcopy. destruct (cfg_hypb_sound DA_pos DA_pos_hyp) as [Hok Hac].
  destruct (expansion_main H13 Hcopy DA_pos Hok Hac) as [rs [H1 [H2 H3]]].
  exists rs. rewrite <- DA_pos_count_formula. auto.
Qed.

Theorem DA_neg_count :
  C13_multi_statement -> mcopy_statement ->
  exists results, proxy_all DA_neg = (results, GDone) /\ List.length results = 12875%nat
                  /\ Forall (result_ok DA_neg) results.
Proof.
  intros H13 Hcopy. destruct (cfg_hypb_sound DA_neg DA_neg_hyp) as [Hok Hac].
  destruct (expansion_main H13 Hcopy DA_neg Hok Hac) as [rs [H1 [H2 H3]]].
  exists rs. rewrite <- DA_neg_count_formula. auto.
Qed.
