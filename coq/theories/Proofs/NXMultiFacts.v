(** Characterisation lemmas for the networkx.MultiGraph model (Base/NXMulti.v): sufficiency of the
    fuel of the two while-loops, what [mnode_attr] / [mkd] return after each operation, preservation
    of well-formedness, the shape of [medges], compose and relabel. Independent of FGUtils. *)
From Coq Require Import ZArith List Bool String Lia.
From FGV Require Import Base.Util Base.UtilFacts Base.Bond Base.NX Base.NXFacts Base.NXMulti
  Proofs.NXComposeFacts.
Import ListNotations.
Open Scope Z_scope.

(** * fuel of new_edge_key *)

Lemma is_some_alookup_In {A} k (l : list (Z * A)) : is_some (alookup k l) = true <-> In k (map fst l).
Proof.
  destruct (alookup k l) eqn:E; simpl.
  - split; [intros _; eapply alookup_Some_key; eauto|reflexivity].
  - split; [discriminate|]. intros H. apply alookup_None in E. contradiction.
Qed.

Lemma free_key_Some fuel : forall k kd r,
  free_key fuel k kd = Some r -> k <= r /\ alookup r kd = None.
Proof.
  induction fuel as [|f IH]; simpl; intros k kd r H; [discriminate|].
  destruct (alookup k kd) eqn:E; simpl in H.
  - apply IH in H. destruct H. split; [lia|assumption].
  - injection H as <-. split; [lia|exact E].
Qed.

Lemma free_key_None fuel : forall k kd,
  free_key fuel k kd = None -> forall j, k <= j < k + Z.of_nat fuel -> In j (map fst kd).
Proof.
  induction fuel as [|f IH]; simpl; intros k kd H j Hj; [lia|].
  destruct (is_some (alookup k kd)) eqn:E; [|discriminate].
  destruct (Z.eq_dec j k) as [->|Hne]; [apply is_some_alookup_In; exact E|].
  apply (IH (k + 1) kd H). lia.
Qed.

(* pigeonhole: len(keydict)+1 candidates cannot all be keys *)
Lemma free_key_enough k kd : exists r, free_key (S (List.length kd)) k kd = Some r.
Proof.
  destruct (free_key (S (List.length kd)) k kd) as [r|] eqn:E; [eauto|exfalso].
  pose proof (free_key_None _ _ _ E) as Hall.
  set (n := S (List.length kd)) in *.
  set (l := map (fun i => k + Z.of_nat i) (seq 0 n)).
  assert (Hnd : NoDup l).
  { apply NoDup_map_inj_in; [intros x y _ _ Hxy; lia | apply seq_NoDup]. }
  assert (Hincl : incl l (map fst kd)).
  { intros x Hx. apply in_map_iff in Hx. destruct Hx as (i & <- & Hi). apply in_seq in Hi.
    apply Hall. lia. }
  pose proof (NoDup_incl_length Hnd Hincl) as Hlen.
  unfold l in Hlen. rewrite !map_length, seq_length in Hlen. unfold n in Hlen. lia.
Qed.

Lemma new_edge_key_total g u v : exists k, new_edge_key g u v = Some k /\ alookup k (mkeyd g u v) = None.
Proof.
  unfold new_edge_key, mkeyd. destruct (alookup v (madj g u)) as [kd|].
  - destruct (free_key_enough (Z.of_nat (List.length kd)) kd) as (r & Hr). exists r. split; [exact Hr|].
    apply free_key_Some in Hr. apply Hr.
  - exists 0. split; reflexivity.
Qed.

Lemma madd_edge_total g u v l :
  exists k, madd_edge g u v l = Some (madd_edge_key g u v k l)
            /\ alookup k (mkeyd (mensure_node (mensure_node g u) v) u v) = None.
Proof.
  unfold madd_edge, madd_edge_key.
  destruct (new_edge_key_total (mensure_node (mensure_node g u) v) u v) as (k & Hk & Hfree).
  rewrite Hk. exists k. split; [reflexivity|exact Hfree].
Qed.

(** * fuel of the conflicting-key loop of relabel *)

Lemma mem3_In x l : mem3 x l = true <-> In x l.
Proof.
  unfold mem3. rewrite existsb_exists. split.
  - intros (y & Hy & E). rewrite !andb_true_iff, !Z.eqb_eq in E.
    destruct x as [[a b] c], y as [[a' b'] c']; simpl in E. destruct E as [[-> ->] ->]. exact Hy.
  - intros H. exists x. split; [exact H|]. rewrite !Z.eqb_refl. reflexivity.
Qed.

Lemma free_key3_None fuel : forall s t k seen,
  free_key3 fuel s t k seen = None -> forall j, k <= j < k + Z.of_nat fuel -> In (s, t, j) seen.
Proof.
  induction fuel as [|f IH]; simpl; intros s t k seen H j Hj; [lia|].
  destruct (mem3 (s, t, k) seen) eqn:E; [|discriminate].
  destruct (Z.eq_dec j k) as [->|Hne]; [apply mem3_In; exact E|].
  apply (IH s t (k + 1) seen H). lia.
Qed.

Lemma free_key3_Some fuel : forall s t k seen r,
  free_key3 fuel s t k seen = Some r -> k <= r /\ ~ In (s, t, r) seen.
Proof.
  induction fuel as [|f IH]; simpl; intros s t k seen r H; [discriminate|].
  destruct (mem3 (s, t, k) seen) eqn:E.
  - apply IH in H. destruct H. split; [lia|assumption].
  - injection H as <-. split; [lia|]. rewrite <- mem3_In. congruence.
Qed.

Lemma free_key3_enough s t k seen : exists r, free_key3 (S (List.length seen)) s t k seen = Some r.
Proof.
  destruct (free_key3 (S (List.length seen)) s t k seen) as [r|] eqn:E; [eauto|exfalso].
  pose proof (free_key3_None _ _ _ _ _ E) as Hall.
  set (n := S (List.length seen)) in *.
  set (l := map (fun i => (s, t, k + Z.of_nat i)) (seq 0 n)).
  assert (Hnd : NoDup l).
  { apply NoDup_map_inj_in; [intros x y _ _ Hxy; injection Hxy; lia | apply seq_NoDup]. }
  assert (Hincl : incl l seen).
  { intros x Hx. apply in_map_iff in Hx. destruct Hx as (i & <- & Hi). apply in_seq in Hi.
    apply Hall. lia. }
  pose proof (NoDup_incl_length Hnd Hincl) as Hlen.
  unfold l in Hlen. rewrite map_length, seq_length in Hlen. unfold n in Hlen. lia.
Qed.

Lemma dedup_keys_total es : forall seen, exists r, dedup_keys seen es = Some r.
Proof.
  induction es as [|[[[s t] k] l] r IH]; intros seen; [exists []; reflexivity|].
  cbn [dedup_keys]. destruct (free_key3_enough s t k seen) as (k' & Hk). rewrite Hk.
  destruct (IH ((t, s, k') :: (s, t, k') :: seen)) as (r' & Hr). rewrite Hr. eexists. reflexivity.
Qed.

Lemma mrelabel_total f g : exists g', mrelabel f g = Some g'.
Proof.
  unfold mrelabel.
  destruct (dedup_keys_total (map (fun '(u, v, k, l) => (f u, f v, k, l)) (medges g)) []) as (r & Hr).
  rewrite Hr. eexists. reflexivity.
Qed.

(** * node-level lemmas (same shape as Base/NXFacts.v) *)

Lemma mhas_node_In g n : mhas_node g n = true <-> In n (mnodes g).
Proof.
  unfold mhas_node, mnodes. destruct (alookup n g) eqn:E; simpl.
  - split; [intros _; eapply alookup_Some_key; eauto | reflexivity].
  - split; [discriminate|]. intros H. apply alookup_None in E. contradiction.
Qed.

Lemma mnode_attr_has_node g n : mhas_node g n = true <-> exists a, mnode_attr g n = Some a.
Proof.
  unfold mhas_node, mnode_attr. destruct (alookup n g) as [[a ad]|]; simpl; split; eauto;
    try discriminate. intros (a & H). discriminate.
Qed.

Lemma mhas_node_false_attr g x : mhas_node g x = false -> mnode_attr g x = None.
Proof.
  unfold mhas_node, mnode_attr. destruct (alookup x g) as [[a ad]|]; simpl; [discriminate|reflexivity].
Qed.

Lemma mkd_has_node g u v kd : mkd g u v = Some kd -> mhas_node g u = true.
Proof.
  unfold mkd, madj, mhas_node. destruct (alookup u g) as [[a ad]|]; simpl; [reflexivity|discriminate].
Qed.

Lemma mkd_no_node g u v : mhas_node g u = false -> mkd g u v = None.
Proof.
  intros H. destruct (mkd g u v) eqn:E; [|reflexivity]. apply mkd_has_node in E. congruence.
Qed.

Lemma mkeyd_mkd g u v : mkeyd g u v = match mkd g u v with Some kd => kd | None => [] end.
Proof. reflexivity. Qed.

Lemma mwf_mkd_nodes g u v kd : mwf g -> mkd g u v = Some kd -> mhas_node g u = true /\ mhas_node g v = true.
Proof.
  intros (_ & _ & H3) H. split; [eapply mkd_has_node; eauto|].
  apply H3 in H. destruct H as (_ & _ & H). eapply mkd_has_node; eauto.
Qed.

Lemma mwf_mkd_sym g u v : mwf g -> mkd g v u = mkd g u v.
Proof.
  intros (_ & _ & H3). destruct (mkd g u v) as [kd|] eqn:E.
  - apply H3 in E. apply E.
  - destruct (mkd g v u) as [kd|] eqn:E'; [|reflexivity]. apply H3 in E'. destruct E' as (_ & _ & E').
    congruence.
Qed.

Lemma mwf_empty : mwf mempty.
Proof.
  split; [constructor|]. split; [intros u; constructor|]. intros u v kd H. discriminate.
Qed.

(** madd_node *)

Lemma alookup_madd_node g n a m :
  alookup m (madd_node g n a) =
  if m =? n then Some (match alookup n g with Some (a0, ad) => (na_update a0 a, ad) | None => (a, []) end)
  else alookup m g.
Proof.
  unfold madd_node. destruct (alookup n g) as [[a0 ad]|] eqn:E.
  - rewrite alookup_aset. reflexivity.
  - rewrite alookup_app. simpl. destruct (Z.eqb_spec m n) as [->|H]; [rewrite E; reflexivity|].
    destruct (alookup m g); reflexivity.
Qed.

Lemma mnode_attr_madd_node g n a m :
  mnode_attr (madd_node g n a) m =
  if m =? n then Some (match mnode_attr g n with Some a0 => na_update a0 a | None => a end)
  else mnode_attr g m.
Proof.
  unfold mnode_attr. rewrite alookup_madd_node. destruct (m =? n); [|reflexivity].
  destruct (alookup n g) as [[a0 ad]|]; reflexivity.
Qed.

Lemma madj_madd_node g n a m : madj (madd_node g n a) m = madj g m.
Proof.
  unfold madj. rewrite alookup_madd_node. destruct (Z.eqb_spec m n) as [->|H]; [|reflexivity].
  destruct (alookup n g) as [[a0 ad]|]; reflexivity.
Qed.

Lemma mkd_madd_node g n a u v : mkd (madd_node g n a) u v = mkd g u v.
Proof. unfold mkd. rewrite madj_madd_node. reflexivity. Qed.

Lemma mhas_node_madd_node g n a m : mhas_node (madd_node g n a) m = (m =? n) || mhas_node g m.
Proof. unfold mhas_node. rewrite alookup_madd_node. destruct (m =? n); reflexivity. Qed.

Lemma NoDup_snoc (l : list Z) x : NoDup l -> ~ In x l -> NoDup (l ++ [x]).
Proof.
  induction l as [|y t IH]; simpl; intros Hnd Hni.
  - constructor; [intros []|constructor].
  - inversion Hnd; subst. constructor.
    + rewrite in_app_iff. simpl. intros [Hy|[Hy|[]]]; [auto|]. subst. apply Hni. left; auto.
    + apply IH; auto.
Qed.

Lemma mnodes_madd_node g n a :
  mnodes (madd_node g n a) = if mhas_node g n then mnodes g else mnodes g ++ [n].
Proof.
  unfold madd_node, mhas_node, mnodes. destruct (alookup n g) as [[a0 ad]|] eqn:E; simpl.
  - eapply map_fst_aset_present. exact E.
  - rewrite map_app. reflexivity.
Qed.

Lemma mwf_madd_node g n a : mwf g -> mwf (madd_node g n a).
Proof.
  intros (H1 & H2 & H3). split; [|split].
  - rewrite mnodes_madd_node. destruct (mhas_node g n) eqn:E; [exact H1|].
    apply NoDup_snoc; [exact H1|]. rewrite <- mhas_node_In. congruence.
  - intros u. rewrite madj_madd_node. apply H2.
  - intros u v kd. rewrite !mkd_madd_node. apply H3.
Qed.

(** mensure_node *)

Lemma alookup_mensure_node g n m :
  alookup m (mensure_node g n) =
  match alookup m g with Some x => Some x | None => if m =? n then Some (na_empty, []) else None end.
Proof.
  unfold mensure_node. destruct (alookup n g) eqn:E.
  - destruct (alookup m g) eqn:E2; [reflexivity|]. destruct (Z.eqb_spec m n); [congruence|reflexivity].
  - rewrite alookup_app. simpl. destruct (alookup m g); reflexivity.
Qed.

Lemma madj_mensure_node g n m : madj (mensure_node g n) m = madj g m.
Proof.
  unfold madj. rewrite alookup_mensure_node. destruct (alookup m g) as [[a ad]|]; [reflexivity|].
  destruct (m =? n); reflexivity.
Qed.

Lemma mnode_attr_mensure_node g n m :
  mnode_attr (mensure_node g n) m =
  match mnode_attr g m with Some a => Some a | None => if m =? n then Some na_empty else None end.
Proof.
  unfold mnode_attr. rewrite alookup_mensure_node. destruct (alookup m g) as [[a ad]|]; [reflexivity|].
  destruct (m =? n); reflexivity.
Qed.

Lemma mhas_node_mensure_node g n m : mhas_node (mensure_node g n) m = (m =? n) || mhas_node g m.
Proof.
  unfold mhas_node. rewrite alookup_mensure_node. destruct (alookup m g); simpl; [symmetry; apply orb_true_r|].
  destruct (m =? n); reflexivity.
Qed.

Lemma mnodes_mensure_node g n : mnodes (mensure_node g n) = if mhas_node g n then mnodes g else mnodes g ++ [n].
Proof.
  unfold mensure_node, mhas_node, mnodes. destruct (alookup n g); simpl; [reflexivity|].
  rewrite map_app. reflexivity.
Qed.

Lemma mensure_node_present g n : mhas_node g n = true -> mensure_node g n = g.
Proof. unfold mensure_node, mhas_node. destruct (alookup n g); [reflexivity|discriminate]. Qed.

(** mset_adj *)

Lemma alookup_mset_adj g u v k l m :
  alookup m (mset_adj g u v k l) =
  if m =? u then match alookup u g with
                 | Some (a, ad) => Some (a, aset v (aset k l (match alookup v ad with Some kd => kd | None => [] end)) ad)
                 | None => None end
  else alookup m g.
Proof.
  unfold mset_adj. destruct (alookup u g) as [[a ad]|] eqn:E.
  - rewrite alookup_aset. reflexivity.
  - destruct (Z.eqb_spec m u) as [->|H]; [exact E|reflexivity].
Qed.

Lemma mnodes_mset_adj g u v k l : mnodes (mset_adj g u v k l) = mnodes g.
Proof.
  unfold mset_adj, mnodes. destruct (alookup u g) as [[a ad]|] eqn:E; [|reflexivity].
  eapply map_fst_aset_present. exact E.
Qed.

Lemma mnode_attr_mset_adj g u v k l m : mnode_attr (mset_adj g u v k l) m = mnode_attr g m.
Proof.
  unfold mnode_attr. rewrite alookup_mset_adj. destruct (Z.eqb_spec m u) as [->|H]; [|reflexivity].
  destruct (alookup u g) as [[a ad]|]; reflexivity.
Qed.

Lemma mhas_node_mset_adj g u v k l m : mhas_node (mset_adj g u v k l) m = mhas_node g m.
Proof.
  unfold mhas_node. rewrite alookup_mset_adj. destruct (Z.eqb_spec m u) as [->|H]; [|reflexivity].
  destruct (alookup u g) as [[a ad]|]; reflexivity.
Qed.

Lemma madj_mset_adj g u v k l m :
  madj (mset_adj g u v k l) m =
  if (m =? u) && mhas_node g u then aset v (aset k l (mkeyd g u v)) (madj g u) else madj g m.
Proof.
  unfold madj, mhas_node, mkeyd, madj. rewrite alookup_mset_adj.
  destruct (Z.eqb_spec m u) as [->|H]; simpl; [|reflexivity].
  destruct (alookup u g) as [[a ad]|]; reflexivity.
Qed.

Lemma mkd_mset_adj g u v k l x y :
  mkd (mset_adj g u v k l) x y =
  if (x =? u) && (y =? v) && mhas_node g u then Some (aset k l (mkeyd g u v)) else mkd g x y.
Proof.
  unfold mkd. rewrite madj_mset_adj.
  destruct (Z.eqb_spec x u) as [->|Hx]; simpl; [|reflexivity].
  destruct (mhas_node g u) eqn:Hn; simpl.
  - rewrite alookup_aset. destruct (y =? v); reflexivity.
  - rewrite andb_false_r. reflexivity.
Qed.

(** madd_edge_key *)

Lemma aset_aset_same {A} k (a b : A) l : aset k a (aset k b l) = aset k a l.
Proof.
  induction l as [|[k' c] t IH]; simpl.
  - rewrite Z.eqb_refl. reflexivity.
  - destruct (Z.eqb_spec k k') as [->|H]; simpl.
    + rewrite Z.eqb_refl. reflexivity.
    + destruct (Z.eqb_spec k k'); [contradiction|]. rewrite IH. reflexivity.
Qed.

Lemma mhas_node_madd_edge_key g u v k l m :
  mhas_node (madd_edge_key g u v k l) m = (m =? u) || (m =? v) || mhas_node g m.
Proof.
  unfold madd_edge_key. rewrite !mhas_node_mset_adj, !mhas_node_mensure_node.
  destruct (m =? u), (m =? v); reflexivity.
Qed.

Lemma mnode_attr_madd_edge_key g u v k l m :
  mnode_attr (madd_edge_key g u v k l) m =
  match mnode_attr g m with
  | Some a => Some a
  | None => if (m =? u) || (m =? v) then Some na_empty else None
  end.
Proof.
  unfold madd_edge_key. rewrite !mnode_attr_mset_adj, !mnode_attr_mensure_node.
  destruct (mnode_attr g m); [reflexivity|]. destruct (m =? u), (m =? v); reflexivity.
Qed.

Lemma mkd_madd_edge_key g u v k l x y :
  mkd (madd_edge_key g u v k l) x y =
  if ematch u v x y then Some (aset k l (mkeyd g x y)) else mkd g x y.
Proof.
  unfold madd_edge_key. set (g1 := mensure_node (mensure_node g u) v).
  assert (Hu : mhas_node g1 u = true).
  { unfold g1. rewrite !mhas_node_mensure_node, Z.eqb_refl. simpl. apply orb_true_r. }
  assert (Hv : mhas_node g1 v = true).
  { unfold g1. rewrite !mhas_node_mensure_node, Z.eqb_refl. reflexivity. }
  assert (Hkd : forall a b, mkd g1 a b = mkd g a b).
  { intros a b. unfold mkd, g1. rewrite !madj_mensure_node. reflexivity. }
  assert (Hkeyd : forall a b, mkeyd g1 a b = mkeyd g a b).
  { intros a b. rewrite !mkeyd_mkd, Hkd. reflexivity. }
  rewrite mkd_mset_adj, mhas_node_mset_adj, Hv, andb_true_r.
  rewrite mkd_mset_adj, Hu, andb_true_r, Hkd.
  rewrite (mkeyd_mkd (mset_adj g1 u v k l) v u), mkd_mset_adj, Hu, andb_true_r, Hkd.
  unfold ematch. rewrite !Hkeyd.
  repeat match goal with |- context [?a =? ?b] => destruct (Z.eqb_spec a b); subst end;
    cbn [andb orb]; try contradiction; try congruence;
    rewrite ?aset_aset_same, <- ?mkeyd_mkd; reflexivity.
Qed.

Lemma ematch_sym u v x y : ematch u v y x = ematch u v x y.
Proof.
  unfold ematch. rewrite orb_comm. rewrite (andb_comm (y =? v)), (andb_comm (y =? u)). reflexivity.
Qed.

Lemma mnodes_madd_edge_key g u v k l :
  mnodes (madd_edge_key g u v k l) = mnodes (mensure_node (mensure_node g u) v).
Proof. unfold madd_edge_key. rewrite !mnodes_mset_adj. reflexivity. Qed.

Lemma NoDup_mnodes_mensure_node g n : NoDup (mnodes g) -> NoDup (mnodes (mensure_node g n)).
Proof.
  intros H. rewrite mnodes_mensure_node. destruct (mhas_node g n) eqn:E; [exact H|].
  apply NoDup_snoc; [exact H|]. rewrite <- mhas_node_In. congruence.
Qed.

Lemma NoDup_madj_mset_adj g u v k l :
  (forall m, NoDup (map fst (madj g m))) -> forall m, NoDup (map fst (madj (mset_adj g u v k l) m)).
Proof.
  intros H m. rewrite madj_mset_adj. destruct ((m =? u) && mhas_node g u); [apply NoDup_fst_aset|]; apply H.
Qed.

Lemma mwf_madd_edge_key g u v k l : mwf g -> mwf (madd_edge_key g u v k l).
Proof.
  intros Hwf. pose proof Hwf as (H1 & H2 & H3). split; [|split].
  - rewrite mnodes_madd_edge_key. apply NoDup_mnodes_mensure_node, NoDup_mnodes_mensure_node, H1.
  - unfold madd_edge_key. apply NoDup_madj_mset_adj, NoDup_madj_mset_adj.
    intros m. rewrite !madj_mensure_node. apply H2.
  - intros x y kd. rewrite !mkd_madd_edge_key, (ematch_sym u v x y).
    destruct (ematch u v x y).
    + intros [= <-]. split; [|split].
      * destruct (mkeyd g x y) as [|[k0 l0] t]; simpl; [discriminate|]. destruct (k =? k0); discriminate.
      * apply NoDup_fst_aset. rewrite mkeyd_mkd. destruct (mkd g x y) as [kd|] eqn:E; [|constructor].
        apply H3 in E. apply E.
      * rewrite !mkeyd_mkd, (mwf_mkd_sym g x y Hwf). reflexivity.
    + apply H3.
Qed.

(** mremove_node *)

Lemma alookup_mremove_node g n m :
  alookup m (mremove_node g n) =
  if m =? n then None else option_map (fun '(a, ad) => (a, adel n ad)) (alookup m g).
Proof.
  unfold mremove_node. induction g as [|[k [a ad]] t IH]; simpl.
  - destruct (m =? n); reflexivity.
  - destruct (Z.eqb_spec n k) as [->|Hnk]; simpl.
    + rewrite IH. destruct (m =? k); reflexivity.
    + rewrite IH. destruct (Z.eqb_spec m k) as [->|Hmk]; [|reflexivity].
      destruct (Z.eqb_spec k n); [congruence|reflexivity].
Qed.

Lemma mnode_attr_mremove_node g n m :
  mnode_attr (mremove_node g n) m = if m =? n then None else mnode_attr g m.
Proof.
  unfold mnode_attr. rewrite alookup_mremove_node. destruct (m =? n); [reflexivity|].
  destruct (alookup m g) as [[a ad]|]; reflexivity.
Qed.

Lemma madj_mremove_node g n m : madj (mremove_node g n) m = if m =? n then [] else adel n (madj g m).
Proof.
  unfold madj. rewrite alookup_mremove_node. destruct (m =? n); [reflexivity|].
  destruct (alookup m g) as [[a ad]|]; reflexivity.
Qed.

Lemma mkd_mremove_node g n u v :
  mkd (mremove_node g n) u v = if (u =? n) || (v =? n) then None else mkd g u v.
Proof.
  unfold mkd. rewrite madj_mremove_node. destruct (u =? n); simpl; [reflexivity|].
  rewrite alookup_adel. reflexivity.
Qed.

Lemma mhas_node_mremove_node g n m : mhas_node (mremove_node g n) m = negb (m =? n) && mhas_node g m.
Proof.
  unfold mhas_node. rewrite alookup_mremove_node. destruct (m =? n); [reflexivity|].
  destruct (alookup m g); reflexivity.
Qed.

Lemma mnodes_mremove_node g n : mnodes (mremove_node g n) = filter (fun x => negb (n =? x)) (mnodes g).
Proof.
  unfold mremove_node, mnodes. rewrite map_map.
  rewrite (map_ext _ fst) by (intros [m [a ad]]; reflexivity).
  apply (akeys_adel n g).
Qed.

Lemma mwf_mremove_node g n : mwf g -> mwf (mremove_node g n).
Proof.
  intros (H1 & H2 & H3). split; [|split].
  - rewrite mnodes_mremove_node. apply NoDup_filter. exact H1.
  - intros m. rewrite madj_mremove_node. destruct (m =? n); [constructor|]. apply NoDup_fst_adel. apply H2.
  - intros u v kd. rewrite !mkd_mremove_node. rewrite (orb_comm (v =? n)).
    destruct ((u =? n) || (v =? n)); [discriminate|apply H3].
Qed.

(** mset_attr *)

Lemma alookup_mset_attr g n a m :
  alookup m (mset_attr g n a) =
  if m =? n then match alookup n g with Some (_, ad) => Some (a, ad) | None => None end
  else alookup m g.
Proof.
  unfold mset_attr. destruct (alookup n g) as [[a0 ad]|] eqn:E.
  - rewrite alookup_aset. reflexivity.
  - destruct (Z.eqb_spec m n) as [->|H]; [exact E|reflexivity].
Qed.

Lemma mnodes_mset_attr g n a : mnodes (mset_attr g n a) = mnodes g.
Proof.
  unfold mset_attr, mnodes. destruct (alookup n g) as [[a0 ad]|] eqn:E; [|reflexivity].
  eapply map_fst_aset_present. exact E.
Qed.

Lemma madj_mset_attr g n a m : madj (mset_attr g n a) m = madj g m.
Proof.
  unfold madj. rewrite alookup_mset_attr. destruct (Z.eqb_spec m n) as [->|H]; [|reflexivity].
  destruct (alookup n g) as [[a0 ad]|]; reflexivity.
Qed.

Lemma mkd_mset_attr g n a x y : mkd (mset_attr g n a) x y = mkd g x y.
Proof. unfold mkd. rewrite madj_mset_attr. reflexivity. Qed.

Lemma mhas_node_mset_attr g n a m : mhas_node (mset_attr g n a) m = mhas_node g m.
Proof.
  unfold mhas_node. rewrite alookup_mset_attr. destruct (Z.eqb_spec m n) as [->|H]; [|reflexivity].
  destruct (alookup n g) as [[a0 ad]|]; reflexivity.
Qed.

Lemma mnode_attr_mset_attr g n a m :
  mnode_attr (mset_attr g n a) m = if (m =? n) && mhas_node g n then Some a else mnode_attr g m.
Proof.
  unfold mnode_attr, mhas_node. rewrite alookup_mset_attr.
  destruct (Z.eqb_spec m n) as [->|H]; simpl; [|reflexivity].
  destruct (alookup n g) as [[a0 ad]|]; reflexivity.
Qed.

Lemma mwf_mset_attr g n a : mwf g -> mwf (mset_attr g n a).
Proof.
  intros (H1 & H2 & H3). split; [|split].
  - rewrite mnodes_mset_attr. exact H1.
  - intros u. rewrite madj_mset_attr. apply H2.
  - intros u v kd. rewrite !mkd_mset_attr. apply H3.
Qed.

(** * madd_nodes_from *)

Lemma mnodes_data_fst g : map fst (mnodes_data g) = mnodes g.
Proof.
  unfold mnodes_data, mnodes. rewrite map_map. apply map_ext. intros [n [a ad]]. reflexivity.
Qed.

Lemma alookup_mnodes_data g x : alookup x (mnodes_data g) = mnode_attr g x.
Proof.
  unfold mnode_attr, mnodes_data. induction g as [|[n [a ad]] t IH]; simpl; [reflexivity|].
  destruct (x =? n); [reflexivity|exact IH].
Qed.

Lemma madd_nodes_from_cons g n a t : madd_nodes_from g ((n, a) :: t) = madd_nodes_from (madd_node g n a) t.
Proof. reflexivity. Qed.

Lemma mkd_madd_nodes_from l : forall g u v, mkd (madd_nodes_from g l) u v = mkd g u v.
Proof.
  induction l as [|[n a] t IH]; intros g u v; [reflexivity|].
  rewrite madd_nodes_from_cons, IH. apply mkd_madd_node.
Qed.

Lemma mhas_node_madd_nodes_from l : forall g x,
  mhas_node (madd_nodes_from g l) x = mhas_node g x || zmem x (map fst l).
Proof.
  induction l as [|[n a] t IH]; intros g x; [simpl; rewrite orb_false_r; reflexivity|].
  rewrite madd_nodes_from_cons, IH, mhas_node_madd_node. simpl.
  destruct (x =? n), (mhas_node g x), (zmem x (map fst t)); reflexivity.
Qed.

Lemma mnode_attr_madd_nodes_from l : forall g x, NoDup (map fst l) ->
  mnode_attr (madd_nodes_from g l) x =
  match alookup x l with
  | Some a => Some (match mnode_attr g x with Some a0 => na_update a0 a | None => a end)
  | None => mnode_attr g x
  end.
Proof.
  induction l as [|[n a] t IH]; intros g x Hnd; [reflexivity|].
  simpl in Hnd. inversion Hnd as [|? ? Hni Hnd']; subst.
  rewrite madd_nodes_from_cons, (IH _ _ Hnd'). cbn [alookup].
  rewrite mnode_attr_madd_node.
  destruct (Z.eqb_spec x n) as [->|Hne]; [|reflexivity].
  assert (E : alookup n t = None) by (apply alookup_None; exact Hni).
  rewrite E. reflexivity.
Qed.

Lemma mwf_madd_nodes_from l : forall g, mwf g -> mwf (madd_nodes_from g l).
Proof.
  induction l as [|[n a] t IH]; intros g H; [exact H|].
  rewrite madd_nodes_from_cons. apply IH. apply mwf_madd_node. exact H.
Qed.

(** * madd_edges_from: the effect of a list of keyed edges on one key dict *)

Definition aset' (acc : keyd) (p : Z * label) : keyd := aset (fst p) (snd p) acc.
Definition or_nil (o : option keyd) : keyd := match o with Some kd => kd | None => [] end.
Definition quad (a b : Z) (p : Z * label) : Z * Z * Z * label := (a, b, fst p, snd p).

Definition kd_step (x y : Z) (o : option keyd) (q : Z * Z * Z * label) : option keyd :=
  let '(u, v, k, l) := q in
  if ematch u v x y then Some (aset k l (or_nil o)) else o.
Definition kd_fold (es : list (Z * Z * Z * label)) (x y : Z) (o : option keyd) : option keyd :=
  fold_left (kd_step x y) es o.

(* a whole bundle written onto o *)
Definition kd_apply (kd : keyd) (o : option keyd) : option keyd :=
  match kd with [] => o | _ => Some (fold_left aset' kd (or_nil o)) end.

Lemma madd_edges_from_cons g u v k l t :
  madd_edges_from g ((u, v, k, l) :: t) = madd_edges_from (madd_edge_key g u v k l) t.
Proof. reflexivity. Qed.

Lemma mkd_madd_edges_from es : forall g x y,
  mkd (madd_edges_from g es) x y = kd_fold es x y (mkd g x y).
Proof.
  induction es as [|[[[u v] k] l] t IH]; intros g x y; [reflexivity|].
  rewrite madd_edges_from_cons, IH, mkd_madd_edge_key. unfold kd_fold. cbn [fold_left kd_step].
  rewrite mkeyd_mkd. reflexivity.
Qed.

Lemma kd_fold_app a b x y o : kd_fold (a ++ b) x y o = kd_fold b x y (kd_fold a x y o).
Proof. unfold kd_fold. apply fold_left_app. Qed.

Definition qmatch (q : Z * Z * Z * label) (x y : Z) : bool :=
  let '(u, v, _, _) := q in ematch u v x y.

Lemma kd_fold_nomatch es x y : forall o,
  (forall q, In q es -> qmatch q x y = false) -> kd_fold es x y o = o.
Proof.
  induction es as [|[[[u v] k] l] t IH]; intros o H; [reflexivity|].
  unfold kd_fold. cbn [fold_left kd_step].
  pose proof (H _ (or_introl eq_refl)) as Hm. cbn [qmatch] in Hm. rewrite Hm.
  apply IH. intros q Hq. apply H. right. exact Hq.
Qed.

Lemma kd_fold_bundle a b x y : ematch a b x y = true -> forall kd o,
  kd_fold (map (quad a b) kd) x y o = kd_apply kd o.
Proof.
  intros Hm. induction kd as [|[k l] t IH]; intros o; [reflexivity|].
  unfold kd_fold. cbn [map quad fst snd fold_left kd_step]. rewrite Hm.
  fold (kd_fold (map (quad a b) t) x y (Some (aset k l (or_nil o)))). rewrite IH.
  destruct t; reflexivity.
Qed.

Lemma ematch_other n v x y :
  ematch n v x y = ((n =? x) || (n =? y)) && (v =? (if n =? x then y else x)).
Proof.
  unfold ematch.
  repeat match goal with |- context [?a =? ?b] => destruct (Z.eqb_spec a b); subst end;
    cbn [andb orb]; try reflexivity; try contradiction; congruence.
Qed.

Definition entry_quads (seen : list Z) (n : Z) (ad : madjl) : list (Z * Z * Z * label) :=
  flat_map (fun '(v, kd) => if zmem v seen then [] else map (fun '(k, l) => (n, v, k, l)) kd) ad.

Lemma map_quad n v kd : map (fun '(k, l) => (n, v, k, l)) kd = map (quad n v) kd.
Proof. apply map_ext. intros [k l]. reflexivity. Qed.

Lemma kd_fold_entry seen n x y ad : NoDup (map fst ad) -> forall o,
  kd_fold (entry_quads seen n ad) x y o =
  let w := if n =? x then y else x in
  if ((n =? x) || (n =? y)) && negb (zmem w seen)
  then match alookup w ad with Some kd => kd_apply kd o | None => o end
  else o.
Proof.
  cbv zeta. set (w := if n =? x then y else x). set (c := (n =? x) || (n =? y)).
  induction ad as [|[v kd] t IH]; intros Hnd o.
  - cbn. destruct (c && negb (zmem w seen)); reflexivity.
  - simpl in Hnd. inversion Hnd as [|? ? Hni Hnd']; subst.
    unfold entry_quads. cbn [flat_map]. fold (entry_quads seen n t).
    rewrite kd_fold_app, (IH Hnd'). cbn [alookup].
    destruct (Z.eqb_spec w v) as [Hwv|Hwv].
    + (* this entry is the bundle towards the other endpoint *)
      subst v. assert (Et : alookup w t = None) by (apply alookup_None; exact Hni). rewrite Et.
      destruct (zmem w seen) eqn:Es; cbn [negb]; [rewrite andb_false_r; reflexivity|].
      rewrite andb_true_r. destruct c eqn:Ec.
      * rewrite map_quad, kd_fold_bundle; [reflexivity|].
        rewrite ematch_other. fold c w. rewrite Ec, Z.eqb_refl. reflexivity.
      * apply kd_fold_nomatch. intros q Hq. rewrite map_quad in Hq. apply in_map_iff in Hq.
        destruct Hq as ([k l] & <- & _). cbn [quad qmatch]. rewrite ematch_other. fold c. rewrite Ec. reflexivity.
    + assert (E0 : kd_fold (if zmem v seen then [] else map (fun '(k, l) => (n, v, k, l)) kd) x y o = o).
      { apply kd_fold_nomatch. intros q Hq. destruct (zmem v seen); [contradiction|].
        rewrite map_quad in Hq. apply in_map_iff in Hq. destruct Hq as ([k l] & <- & _).
        cbn [quad qmatch fst snd]. rewrite ematch_other. fold c w.
        destruct (Z.eqb_spec v w); [congruence|]. apply andb_false_r. }
      rewrite E0. reflexivity.
Qed.

Lemma in_medges_aux seen g u v k l :
  In (u, v, k, l) (medges_aux seen g) ->
  exists a ad kd, In (u, (a, ad)) g /\ In (v, kd) ad /\ In (k, l) kd /\ ~ In v seen.
Proof.
  revert seen. induction g as [|[n [a ad]] t IH]; simpl; intros seen H; [contradiction|].
  apply in_app_or in H. destruct H as [H|H].
  - apply in_flat_map in H. destruct H as ([v' kd] & Hin & Hq).
    destruct (zmem v' seen) eqn:Es; [contradiction|].
    apply in_map_iff in Hq. destruct Hq as ([k' l'] & [= <- <- <- <-] & Hkl).
    exists a, ad, kd. split; [left; reflexivity|]. split; [exact Hin|]. split; [exact Hkl|].
    apply zmem_false. exact Es.
  - destruct (IH _ H) as (a' & ad' & kd & H1 & H2 & H3 & H4). exists a', ad', kd.
    split; [right; exact H1|]. split; [exact H2|]. split; [exact H3|].
    intros Hs. apply H4. right. exact Hs.
Qed.

Lemma In_entry_madj g u a ad : NoDup (mnodes g) -> In (u, (a, ad)) g -> madj g u = ad.
Proof.
  intros Hnd Hin. unfold madj. rewrite (NoDup_alookup u (a, ad) g Hnd Hin). reflexivity.
Qed.

Lemma medges_aux_cons seen n a ad t :
  medges_aux seen ((n, (a, ad)) :: t) = entry_quads seen n ad ++ medges_aux (n :: seen) t.
Proof. reflexivity. Qed.

Section MedgesFold.
  Variable g : mgraph.
  Hypothesis Hg : mwf g.
  Variables x y : Z.

  Local Lemma medges_fold_aux : forall g0 seen o,
    NoDup (mnodes g0) ->
    (forall n a ad, In (n, (a, ad)) g0 -> ad = madj g n) ->
    (forall s, In s seen -> ~ In s (mnodes g0)) ->
    (forall z, mhas_node g z = true -> In z seen \/ In z (mnodes g0)) ->
    kd_fold (medges_aux seen g0) x y o =
    if zmem x (mnodes g0) && zmem y (mnodes g0)
    then match mkd g x y with Some kd => kd_apply kd o | None => o end
    else o.
  Proof.
    induction g0 as [|[n [a ad]] t IH]; intros seen o Hnd Hent Hseen Hcov; [reflexivity|].
    cbn [mnodes map fst] in Hnd. inversion Hnd as [|? ? Hni Hnd']; subst.
    fold (mnodes t) in Hni, Hnd'.
    assert (Had : ad = madj g n) by (apply (Hent n a ad); left; reflexivity).
    assert (Hndad : NoDup (map fst ad)) by (rewrite Had; apply Hg).
    rewrite medges_aux_cons, kd_fold_app, (kd_fold_entry seen n x y ad Hndad). cbv zeta.
    assert (IH' : forall o', kd_fold (medges_aux (n :: seen) t) x y o' =
                   if zmem x (mnodes t) && zmem y (mnodes t)
                   then match mkd g x y with Some kd => kd_apply kd o' | None => o' end else o').
    { intros o'. apply IH.
      - exact Hnd'.
      - intros n' a' ad' Hin. apply (Hent n' a' ad'). right. exact Hin.
      - intros s [<-|Hs]; [exact Hni|]. intros Hin. apply (Hseen s Hs). right. exact Hin.
      - intros z Hz. destruct (Hcov z Hz) as [Hs|[<-|Hs]]; [left; right; exact Hs|left; left; reflexivity|right; exact Hs]. }
    rewrite IH'. cbn [mnodes map fst zmem]. fold (mnodes t).
    assert (Hnt : zmem n (mnodes t) = false) by (apply zmem_false; exact Hni).
    destruct (Z.eqb_spec n x) as [->|Hnx].
    - (* the entry of x *)
      rewrite Z.eqb_refl. cbn [orb andb]. rewrite Hnt. cbn [andb].
      assert (Ekd : alookup y ad = mkd g x y) by (rewrite Had; reflexivity). rewrite Ekd.
      destruct (zmem y seen) eqn:Eys; cbn [negb].
      + (* y was met earlier: already reported *)
        apply zmem_In in Eys.
        assert (Hyt : zmem y (x :: mnodes t) = false).
        { apply zmem_false. intros Hin. apply (Hseen y Eys). exact Hin. }
        cbn [zmem] in Hyt. rewrite Hyt. reflexivity.
      + destruct ((y =? x) || zmem y (mnodes t)) eqn:Eyn; [reflexivity|].
        (* y is no node at all *)
        destruct (mkd g x y) as [kd|] eqn:E; [|reflexivity]. exfalso.
        destruct (mwf_mkd_nodes _ _ _ _ Hg E) as [_ Hy]. destruct (Hcov y Hy) as [Hs|Hs].
        * apply zmem_false in Eys. contradiction.
        * apply zmem_In in Hs. cbn [mnodes map fst zmem] in Hs. fold (mnodes t) in Hs. congruence.
    - destruct (Z.eqb_spec x n) as [->|_]; [contradiction|]. cbn [orb].
      destruct (Z.eqb_spec n y) as [->|Hny].
      + (* the entry of y (x <> y) *)
        rewrite Z.eqb_refl. cbn [orb andb]. rewrite Hnt, andb_false_r.
        assert (Ekd : alookup x ad = mkd g x y) by (rewrite Had, <- (mwf_mkd_sym g x y Hg); reflexivity).
        rewrite Ekd.
        destruct (zmem x seen) eqn:Exs; cbn [negb].
        * apply zmem_In in Exs.
          assert (Hxt : zmem x (mnodes t) = false).
          { apply zmem_false. intros Hin. apply (Hseen x Exs). right. exact Hin. }
          rewrite Hxt. reflexivity.
        * rewrite andb_true_r. destruct (zmem x (mnodes t)) eqn:Ext; [reflexivity|].
          destruct (mkd g x y) as [kd|] eqn:E; [|reflexivity]. exfalso.
          destruct (mwf_mkd_nodes _ _ _ _ Hg E) as [Hx _]. destruct (Hcov x Hx) as [Hs|Hs].
          -- apply zmem_false in Exs. contradiction.
          -- cbn [mnodes map fst In] in Hs. destruct Hs as [Hs|Hs]; [congruence|].
             apply zmem_In in Hs. fold (mnodes t) in Hs. congruence.
      + destruct (Z.eqb_spec y n) as [->|_]; [contradiction|]. cbn [orb andb]. reflexivity.
  Qed.

  Lemma kd_fold_medges o :
    kd_fold (medges g) x y o = match mkd g x y with Some kd => kd_apply kd o | None => o end.
  Proof.
    unfold medges. rewrite medges_fold_aux.
    - destruct (mkd g x y) as [kd|] eqn:E; [|destruct (_ && _); reflexivity].
      destruct (mwf_mkd_nodes _ _ _ _ Hg E) as [Hx Hy].
      apply mhas_node_In, zmem_In in Hx. apply mhas_node_In, zmem_In in Hy. rewrite Hx, Hy. reflexivity.
    - apply Hg.
    - intros n a ad Hin. symmetry. apply (In_entry_madj g n a ad); [apply Hg|exact Hin].
    - intros s [].
    - intros z Hz. right. apply mhas_node_In. exact Hz.
  Qed.
End MedgesFold.

(** writing a bundle with fresh keys appends it *)

Lemma aset_fresh {A} k (a : A) l : ~ In k (map fst l) -> aset k a l = l ++ [(k, a)].
Proof.
  induction l as [|[k' a'] t IH]; simpl; intros H; [reflexivity|].
  destruct (Z.eqb_spec k k') as [->|Hne]; [exfalso; apply H; left; reflexivity|].
  rewrite IH; [reflexivity|]. intros Hin. apply H. right. exact Hin.
Qed.

Lemma fold_aset_fresh kd : forall acc,
  NoDup (map fst kd) -> (forall k, In k (map fst kd) -> ~ In k (map fst acc)) ->
  fold_left aset' kd acc = acc ++ kd.
Proof.
  induction kd as [|[k l] t IH]; intros acc Hnd Hdis; [rewrite app_nil_r; reflexivity|].
  simpl in Hnd. inversion Hnd as [|? ? Hni Hnd']; subst.
  change (fold_left aset' ((k, l) :: t) acc) with (fold_left aset' t (aset k l acc)).
  rewrite aset_fresh by (apply Hdis; left; reflexivity).
  rewrite IH; [rewrite <- app_assoc; reflexivity|exact Hnd'|].
  intros k' Hk'. rewrite map_app, in_app_iff. simpl. intros [Hin|[<-|[]]].
  - apply (Hdis k'); [right; exact Hk'|exact Hin].
  - contradiction.
Qed.

Lemma kd_apply_None kd : kd <> [] -> NoDup (map fst kd) -> kd_apply kd None = Some kd.
Proof.
  intros Hne Hnd. unfold kd_apply. destruct kd as [|p t]; [congruence|].
  rewrite fold_aset_fresh; [reflexivity|exact Hnd|]. intros k _ [].
Qed.

(** edges between existing nodes leave the node table alone *)

Definition mendpoints_in (g : mgraph) (es : list (Z * Z * Z * label)) : Prop :=
  forall u v k l, In (u, v, k, l) es -> mhas_node g u = true /\ mhas_node g v = true.

Lemma madd_edge_key_existing g u v k l :
  mhas_node g u = true -> mhas_node g v = true ->
  (forall x, mnode_attr (madd_edge_key g u v k l) x = mnode_attr g x)
  /\ (forall x, mhas_node (madd_edge_key g u v k l) x = mhas_node g x).
Proof.
  intros Hu Hv. split.
  - intros x. rewrite mnode_attr_madd_edge_key. destruct (mnode_attr g x) eqn:E; [reflexivity|].
    destruct (Z.eqb_spec x u) as [->|Hxu].
    + apply mnode_attr_has_node in Hu. destruct Hu as (a & Ha). congruence.
    + destruct (Z.eqb_spec x v) as [->|Hxv]; [|reflexivity].
      apply mnode_attr_has_node in Hv. destruct Hv as (a & Ha). congruence.
  - intros x. rewrite mhas_node_madd_edge_key.
    destruct (Z.eqb_spec x u) as [->|Hxu]; [rewrite Hu; reflexivity|].
    destruct (Z.eqb_spec x v) as [->|Hxv]; [rewrite Hv; reflexivity|reflexivity].
Qed.

Lemma madd_edges_from_existing es : forall g, mendpoints_in g es ->
  (forall x, mnode_attr (madd_edges_from g es) x = mnode_attr g x)
  /\ (forall x, mhas_node (madd_edges_from g es) x = mhas_node g x).
Proof.
  induction es as [|[[[u v] k] l] t IH]; intros g H; [split; reflexivity|].
  rewrite madd_edges_from_cons.
  destruct (H u v k l (or_introl eq_refl)) as [Hu Hv].
  destruct (madd_edge_key_existing g u v k l Hu Hv) as (Ha & Hh).
  assert (H' : mendpoints_in (madd_edge_key g u v k l) t).
  { intros u' v' k' l' Hin. rewrite !Hh. apply (H u' v' k' l'). right. exact Hin. }
  destruct (IH _ H') as (Ha' & Hh'). split.
  - intros x. rewrite Ha'. apply Ha.
  - intros x. rewrite Hh'. apply Hh.
Qed.

Lemma mwf_madd_edges_from es : forall g, mwf g -> mwf (madd_edges_from g es).
Proof.
  induction es as [|[[[u v] k] l] t IH]; intros g H; [exact H|].
  rewrite madd_edges_from_cons. apply IH. apply mwf_madd_edge_key. exact H.
Qed.

Lemma medges_endpoints g : mwf g -> mendpoints_in g (medges g).
Proof.
  intros Hwf u v k l Hin. apply in_medges_aux in Hin.
  destruct Hin as (a & ad & kd & H1 & H2 & _).
  pose proof Hwf as (Hnd & Hnb & _).
  assert (E : mkd g u v = Some kd).
  { unfold mkd. rewrite (In_entry_madj g u a ad Hnd H1). apply NoDup_alookup; [|exact H2].
    rewrite <- (In_entry_madj g u a ad Hnd H1). apply Hnb. }
  eapply mwf_mkd_nodes; eauto.
Qed.

(** * mcompose *)

Section MCompose.
  Variables g h : mgraph.
  Hypothesis Hg : mwf g.
  Hypothesis Hh : mwf h.

  Let g0 := madd_nodes_from mempty (mnodes_data g).
  Let g1 := madd_edges_from g0 (medges g).
  Let g2 := madd_nodes_from g1 (mnodes_data h).

  Lemma mcompose_unfold : mcompose g h = madd_edges_from g2 (medges h).
  Proof. reflexivity. Qed.

  Local Lemma mnd_g : NoDup (map fst (mnodes_data g)).
  Proof. rewrite mnodes_data_fst. apply Hg. Qed.
  Local Lemma mnd_h : NoDup (map fst (mnodes_data h)).
  Proof. rewrite mnodes_data_fst. apply Hh. Qed.

  Local Lemma zmem_mnodes k x : zmem x (mnodes k) = mhas_node k x.
  Proof.
    destruct (mhas_node k x) eqn:E.
    - apply mhas_node_In in E. apply zmem_In. exact E.
    - apply zmem_false. rewrite <- mhas_node_In. congruence.
  Qed.

  Local Lemma mg0_has x : mhas_node g0 x = mhas_node g x.
  Proof. unfold g0. rewrite mhas_node_madd_nodes_from, mnodes_data_fst, zmem_mnodes. reflexivity. Qed.

  Local Lemma mg0_attr x : mnode_attr g0 x = mnode_attr g x.
  Proof.
    unfold g0. rewrite (mnode_attr_madd_nodes_from _ _ _ mnd_g), alookup_mnodes_data.
    destruct (mnode_attr g x); reflexivity.
  Qed.

  Local Lemma mg1_facts :
    (forall x, mnode_attr g1 x = mnode_attr g x) /\ (forall x, mhas_node g1 x = mhas_node g x)
    /\ (forall x y, mkd g1 x y = mkd g x y).
  Proof.
    assert (He : mendpoints_in g0 (medges g)).
    { intros u v k l Hin. rewrite !mg0_has. eapply medges_endpoints; eauto. }
    destruct (madd_edges_from_existing _ _ He) as (Ha & Hhn).
    split; [|split].
    - intros x. unfold g1. rewrite Ha. apply mg0_attr.
    - intros x. unfold g1. rewrite Hhn. apply mg0_has.
    - intros x y. unfold g1. rewrite mkd_madd_edges_from, (kd_fold_medges g Hg).
      unfold g0. rewrite mkd_madd_nodes_from. change (mkd mempty x y) with (@None keyd).
      destruct (mkd g x y) as [kd|] eqn:E; [|reflexivity].
      destruct Hg as (_ & _ & H3). destruct (H3 _ _ _ E) as (Hne & Hnd & _).
      apply kd_apply_None; assumption.
  Qed.

  Local Lemma mg2_has y : mhas_node g2 y = mhas_node g y || mhas_node h y.
  Proof.
    destruct mg1_facts as (_ & H1 & _).
    unfold g2. rewrite mhas_node_madd_nodes_from, mnodes_data_fst, H1, zmem_mnodes. reflexivity.
  Qed.

  Local Lemma mg2_endpoints : mendpoints_in g2 (medges h).
  Proof.
    intros u v k l Hin. rewrite !mg2_has. destruct (medges_endpoints _ Hh _ _ _ _ Hin) as [-> ->].
    rewrite !orb_true_r. auto.
  Qed.

  Lemma mhas_node_mcompose x : mhas_node (mcompose g h) x = mhas_node g x || mhas_node h x.
  Proof.
    destruct (madd_edges_from_existing _ _ mg2_endpoints) as (_ & Hhn).
    rewrite mcompose_unfold, Hhn. apply mg2_has.
  Qed.

  Lemma mnode_attr_mcompose x :
    mnode_attr (mcompose g h) x =
    match mnode_attr h x with
    | Some b => Some (match mnode_attr g x with Some a => na_update a b | None => b end)
    | None => mnode_attr g x
    end.
  Proof.
    destruct mg1_facts as (H1a & _ & _).
    destruct (madd_edges_from_existing _ _ mg2_endpoints) as (Ha & _).
    rewrite mcompose_unfold, Ha. unfold g2.
    rewrite (mnode_attr_madd_nodes_from _ _ _ mnd_h), alookup_mnodes_data, H1a. reflexivity.
  Qed.

  (* the bundle of h is written key by key onto the bundle of g *)
  Lemma mkd_mcompose x y :
    mkd (mcompose g h) x y =
    match mkd h x y with Some kd => kd_apply kd (mkd g x y) | None => mkd g x y end.
  Proof.
    destruct mg1_facts as (_ & _ & H1e).
    rewrite mcompose_unfold, mkd_madd_edges_from, (kd_fold_medges h Hh).
    unfold g2. rewrite mkd_madd_nodes_from, H1e. reflexivity.
  Qed.
End MCompose.

Lemma mwf_mcompose g h : mwf (mcompose g h).
Proof.
  unfold mcompose.
  apply mwf_madd_edges_from, mwf_madd_nodes_from, mwf_madd_edges_from, mwf_madd_nodes_from, mwf_empty.
Qed.

(** * no two entries of [medges] describe the same keyed edge *)

Definition qconf (q1 q2 : Z * Z * Z * label) : Prop :=
  let '(u, v, k, _) := q1 in
  let '(u', v', k', _) := q2 in
  k = k' /\ ((u = u' /\ v = v') \/ (u = v' /\ v = u')).

Definition distinct_edges (es : list (Z * Z * Z * label)) : Prop :=
  ForallOrdPairs (fun a b => ~ qconf a b) es.

Lemma FOP_app {A} (R : A -> A -> Prop) a : forall b,
  ForallOrdPairs R a -> ForallOrdPairs R b -> (forall x y, In x a -> In y b -> R x y) ->
  ForallOrdPairs R (a ++ b).
Proof.
  induction a as [|x t IH]; intros b Ha Hb Hab; [exact Hb|].
  inversion Ha as [|? ? Hx Ht]; subst. simpl. constructor.
  - apply Forall_app. split; [exact Hx|]. apply Forall_forall. intros y Hy. apply Hab; [left; reflexivity|exact Hy].
  - apply IH; [exact Ht|exact Hb|]. intros x' y Hx' Hy. apply Hab; [right; exact Hx'|exact Hy].
Qed.

Lemma FOP_map {A B} (R : A -> A -> Prop) (R' : B -> B -> Prop) (f : A -> B) l :
  ForallOrdPairs R l -> (forall x y, In x l -> In y l -> R x y -> R' (f x) (f y)) ->
  ForallOrdPairs R' (map f l).
Proof.
  induction 1 as [|a t Ha Ht IH]; intros Hf; simpl; constructor.
  - apply Forall_forall. intros y Hy. apply in_map_iff in Hy. destruct Hy as (z & <- & Hz).
    rewrite Forall_forall in Ha. apply Hf; [left; reflexivity|right; exact Hz|apply Ha; exact Hz].
  - apply IH. intros x y Hx Hy. apply Hf; right; assumption.
Qed.

Lemma distinct_bundle n v kd : NoDup (map fst kd) -> distinct_edges (map (quad n v) kd).
Proof.
  unfold distinct_edges. induction kd as [|[k l] t IH]; intros Hnd; simpl; constructor.
  - simpl in Hnd. inversion Hnd as [|? ? Hni _]; subst. apply Forall_forall.
    intros q Hq. apply in_map_iff in Hq. destruct Hq as ([k' l'] & <- & Hin).
    cbn [quad qconf fst snd]. intros [-> _]. apply Hni. apply (in_map fst) in Hin. exact Hin.
  - apply IH. simpl in Hnd. inversion Hnd; assumption.
Qed.

Lemma in_entry_quads seen n ad q :
  In q (entry_quads seen n ad) ->
  exists v kd k l, q = (n, v, k, l) /\ In (v, kd) ad /\ In (k, l) kd /\ ~ In v seen.
Proof.
  unfold entry_quads. intros H. apply in_flat_map in H. destruct H as ([v kd] & Hin & Hq).
  destruct (zmem v seen) eqn:Es; [contradiction|].
  apply in_map_iff in Hq. destruct Hq as ([k l] & <- & Hkl).
  exists v, kd, k, l. split; [reflexivity|]. split; [exact Hin|]. split; [exact Hkl|].
  apply zmem_false. exact Es.
Qed.

Lemma distinct_entry seen n ad :
  NoDup (map fst ad) -> (forall v kd, In (v, kd) ad -> NoDup (map fst kd)) ->
  distinct_edges (entry_quads seen n ad).
Proof.
  unfold distinct_edges. induction ad as [|[v kd] t IH]; intros Hnd Hk; [constructor|].
  simpl in Hnd. inversion Hnd as [|? ? Hni Hnd']; subst.
  unfold entry_quads. cbn [flat_map]. fold (entry_quads seen n t). apply FOP_app.
  - destruct (zmem v seen); [constructor|]. rewrite map_quad. apply distinct_bundle.
    apply (Hk v kd). left. reflexivity.
  - apply IH; [exact Hnd'|]. intros v' kd' Hin. apply (Hk v' kd'). right. exact Hin.
  - intros q1 q2 H1 H2. destruct (zmem v seen); [contradiction|].
    rewrite map_quad in H1. apply in_map_iff in H1. destruct H1 as ([k l] & <- & _).
    destruct (in_entry_quads _ _ _ _ H2) as (v' & kd' & k' & l' & -> & Hin' & _ & _).
    cbn [quad qconf fst snd]. intros [_ [[_ ->]|[-> ->]]]; apply Hni; apply (in_map fst) in Hin'; exact Hin'.
Qed.

Lemma distinct_medges g : mwf g -> distinct_edges (medges g).
Proof.
  intros Hwf. pose proof Hwf as (Hnd & Hnb & H3).
  assert (Hgen : forall g0 seen,
    NoDup (mnodes g0) -> (forall n a ad, In (n, (a, ad)) g0 -> ad = madj g n) ->
    distinct_edges (medges_aux seen g0)).
  { induction g0 as [|[n [a ad]] t IH]; intros seen Hnd0 Hent; [constructor|].
    cbn [mnodes map fst] in Hnd0. inversion Hnd0 as [|? ? Hni Hnd0']; subst.
    assert (Had : ad = madj g n) by (apply (Hent n a ad); left; reflexivity).
    rewrite medges_aux_cons. apply FOP_app.
    - apply distinct_entry; [rewrite Had; apply Hnb|].
      intros v kd Hin. assert (E : mkd g n v = Some kd).
      { unfold mkd. rewrite <- Had. apply NoDup_alookup; [rewrite Had; apply Hnb|exact Hin]. }
      apply H3 in E. apply E.
    - apply IH; [exact Hnd0'|]. intros n' a' ad' Hin. apply (Hent n' a' ad'). right. exact Hin.
    - intros q1 q2 H1 H2.
      destruct (in_entry_quads _ _ _ _ H1) as (v & kd & k & l & -> & _ & _ & _).
      destruct q2 as [[[n' v'] k'] l'].
      destruct (in_medges_aux _ _ _ _ _ _ H2) as (a' & ad' & kd' & Hin' & _ & _ & Hseen).
      cbn [qconf]. intros [_ [[-> _]|[-> _]]].
      + apply Hni. apply (in_map fst) in Hin'. exact Hin'.
      + apply Hseen. left. reflexivity. }
  apply Hgen; [exact Hnd|]. intros n a ad Hin. symmetry. apply (In_entry_madj g n a ad Hnd Hin).
Qed.

(** dedup_keys leaves a conflict-free list alone *)

Definition conf3 (t3 : Z * Z * Z) (q : Z * Z * Z * label) : Prop :=
  let '(s, t, k) := t3 in
  let '(u, v, k', _) := q in
  k = k' /\ ((s = u /\ t = v) \/ (s = v /\ t = u)).

Lemma dedup_keys_id es : forall seen,
  distinct_edges es -> (forall t3 q, In t3 seen -> In q es -> ~ conf3 t3 q) ->
  dedup_keys seen es = Some es.
Proof.
  induction es as [|[[[s t] k] l] r IH]; intros seen Hd Hs; [reflexivity|].
  inversion Hd as [|? ? Hhead Htail]; subst.
  cbn [dedup_keys free_key3].
  assert (Hm : mem3 (s, t, k) seen = false).
  { destruct (mem3 (s, t, k) seen) eqn:E; [|reflexivity]. exfalso. apply mem3_In in E.
    apply (Hs (s, t, k) (s, t, k, l) E (or_introl eq_refl)). cbn. auto. }
  rewrite Hm. rewrite IH; [reflexivity|exact Htail|].
  intros t3 q [<-|[<-|Hin]] Hq.
  - rewrite Forall_forall in Hhead. specialize (Hhead q Hq). destruct q as [[[u v] k'] l'].
    cbn [conf3 qconf] in *. intros [Hk [[-> ->]|[-> ->]]]; apply Hhead; auto.
  - rewrite Forall_forall in Hhead. specialize (Hhead q Hq). destruct q as [[[u v] k'] l'].
    cbn [conf3 qconf] in *. intros [Hk [[-> ->]|[-> ->]]]; apply Hhead; auto.
  - apply Hs; [exact Hin|right; exact Hq].
Qed.

(** * mrelabel with a function that is injective on the nodes *)

Section MRelabel.
  Variable f : Z -> Z.
  Variable g : mgraph.
  Hypothesis Hg : mwf g.
  Hypothesis Hinj : forall x y, In x (mnodes g) -> In y (mnodes g) -> f x = f y -> x = y.

  Let l0 := map (fun '(n, _) => (f n, na_empty)) (mnodes_data g).
  Let h0 := madd_nodes_from mempty l0.
  Let F := fun (acc : mgraph) '(n, a) => mset_attr acc (f n) a.
  Let h1 := fold_left F (mnodes_data g) h0.
  Let Q : Z * Z * Z * label -> Z * Z * Z * label := fun '(u, v, k, l) => (f u, f v, k, l).
  Let E' := map Q (medges g).

  Local Lemma feq a b : In a (mnodes g) -> In b (mnodes g) -> (f a =? f b) = (a =? b).
  Proof.
    intros Ha Hb. destruct (Z.eqb_spec a b) as [->|Hne]; [apply Z.eqb_refl|].
    apply Z.eqb_neq. intros Hf. apply Hne. apply Hinj; assumption.
  Qed.

  Local Lemma medges_nodes u v k l : In (u, v, k, l) (medges g) -> In u (mnodes g) /\ In v (mnodes g).
  Proof.
    intros Hin. destruct (medges_endpoints _ Hg _ _ _ _ Hin) as [Hu Hv].
    split; apply mhas_node_In; assumption.
  Qed.

  Local Lemma E'_distinct : distinct_edges E'.
  Proof.
    unfold E'. apply (FOP_map (fun a b => ~ qconf a b)); [apply distinct_medges; exact Hg|].
    intros [[[u v] k] l] [[[u' v'] k'] l'] H1 H2 Hn. cbn [Q qconf]. intros [Hk Hc]. apply Hn. cbn [qconf].
    destruct (medges_nodes _ _ _ _ H1) as [Hu Hv]. destruct (medges_nodes _ _ _ _ H2) as [Hu' Hv'].
    split; [exact Hk|]. destruct Hc as [[E1 E2]|[E1 E2]]; [left|right]; split; apply Hinj; assumption.
  Qed.

  Lemma mrelabel_unfold : mrelabel f g = Some (madd_edges_from h1 E').
  Proof.
    unfold mrelabel. fold l0. fold h0. fold F. fold h1.
    change (map (fun '(u, v, k, l) => (f u, f v, k, l)) (medges g)) with E'.
    rewrite dedup_keys_id; [reflexivity|exact E'_distinct|]. intros t3 q [].
  Qed.

  Local Lemma ml0_fst : map fst l0 = map f (mnodes g).
  Proof.
    unfold l0, mnodes, mnodes_data. rewrite !map_map.
    apply map_ext. intros [n [a ad]]. reflexivity.
  Qed.

  Local Lemma mh0_has z : mhas_node h0 z = zmem z (map f (mnodes g)).
  Proof. unfold h0. rewrite mhas_node_madd_nodes_from, ml0_fst. reflexivity. Qed.

  Local Lemma mfold_F_inv l : forall h,
    (forall z, mhas_node (fold_left F l h) z = mhas_node h z)
    /\ (forall x y, mkd (fold_left F l h) x y = mkd h x y)
    /\ (mwf h -> mwf (fold_left F l h)).
  Proof.
    induction l as [|[n a] t IH]; intros h;
      [split; [reflexivity|split; [reflexivity|intros Hw; exact Hw]]|].
    cbn [fold_left]. destruct (IH (F h (n, a))) as (H1 & H2 & H3). split; [|split].
    - intros z. rewrite H1. unfold F. apply mhas_node_mset_attr.
    - intros x y. rewrite H2. unfold F. apply mkd_mset_attr.
    - intros Hw. apply H3. unfold F. apply mwf_mset_attr. exact Hw.
  Qed.

  Local Lemma mfold_F_other l : forall h z,
    ~ In z (map (fun p => f (fst p)) l) -> mnode_attr (fold_left F l h) z = mnode_attr h z.
  Proof.
    induction l as [|[n a] t IH]; intros h z Hni; [reflexivity|].
    cbn [fold_left]. rewrite IH; [|intros Hin; apply Hni; right; exact Hin].
    unfold F. rewrite mnode_attr_mset_attr. destruct (Z.eqb_spec z (f n)) as [->|Hne]; [|reflexivity].
    exfalso. apply Hni. left. reflexivity.
  Qed.

  Local Lemma mfold_F_hit l : forall h x a,
    NoDup (map (fun p => f (fst p)) l) -> In (x, a) l -> mhas_node h (f x) = true ->
    mnode_attr (fold_left F l h) (f x) = Some a.
  Proof.
    induction l as [|[n b] t IH]; intros h x a Hnd Hin Hh; [contradiction|].
    simpl in Hnd. inversion Hnd as [|? ? Hni Hnd']; subst. cbn [fold_left].
    destruct Hin as [[= -> ->]|Hin].
    - rewrite mfold_F_other; [|exact Hni]. unfold F. rewrite mnode_attr_mset_attr, Z.eqb_refl, Hh. reflexivity.
    - apply IH; [exact Hnd'|exact Hin|]. unfold F. rewrite mhas_node_mset_attr. exact Hh.
  Qed.

  Local Lemma mnd_fn : NoDup (map (fun p : Z * nattr => f (fst p)) (mnodes_data g)).
  Proof.
    rewrite <- (map_map (@fst Z nattr) f (mnodes_data g)), mnodes_data_fst.
    apply (NoDup_map_inj_in f (mnodes g)); [exact Hinj|]. destruct Hg as (Hnd & _). exact Hnd.
  Qed.

  Local Lemma mh1_attr x : In x (mnodes g) -> mnode_attr h1 (f x) = mnode_attr g x.
  Proof.
    intros Hx. apply mhas_node_In in Hx. pose proof Hx as Hx'.
    apply mnode_attr_has_node in Hx'. destruct Hx' as (a & Ha).
    rewrite Ha. unfold h1. apply mfold_F_hit.
    - exact mnd_fn.
    - apply alookup_In. rewrite alookup_mnodes_data. exact Ha.
    - rewrite mh0_has. apply zmem_In. apply in_map. apply mhas_node_In. exact Hx.
  Qed.

  Local Lemma mh1_has z : mhas_node h1 z = zmem z (map f (mnodes g)).
  Proof. unfold h1. destruct (mfold_F_inv (mnodes_data g) h0) as (H1 & _ & _). rewrite H1. apply mh0_has. Qed.

  Local Lemma mh1_kd x y : mkd h1 x y = None.
  Proof.
    unfold h1. destruct (mfold_F_inv (mnodes_data g) h0) as (_ & H2 & _). rewrite H2.
    unfold h0. rewrite mkd_madd_nodes_from. reflexivity.
  Qed.

  Local Lemma mh1_wf : mwf h1.
  Proof.
    unfold h1. destruct (mfold_F_inv (mnodes_data g) h0) as (_ & _ & H3). apply H3.
    unfold h0. apply mwf_madd_nodes_from. apply mwf_empty.
  Qed.

  Local Lemma mE'_endpoints : mendpoints_in h1 E'.
  Proof.
    intros u v k l Hin. unfold E' in Hin. apply in_map_iff in Hin.
    destruct Hin as ([[[u0 v0] k0] l0'] & Heq & Hin). cbn [Q] in Heq. injection Heq as <- <- <- <-.
    destruct (medges_nodes _ _ _ _ Hin) as [Hu Hv].
    rewrite !mh1_has. split; apply zmem_In; apply in_map; assumption.
  Qed.

  Local Lemma kd_fold_map_inj es x y o :
    (forall u v k l, In (u, v, k, l) es -> In u (mnodes g) /\ In v (mnodes g)) ->
    In x (mnodes g) -> In y (mnodes g) ->
    kd_fold (map Q es) (f x) (f y) o = kd_fold es x y o.
  Proof.
    intros Hes Hx Hy. revert o. induction es as [|[[[u v] k] l] t IH]; intros o; [reflexivity|].
    unfold kd_fold. cbn [map Q fold_left kd_step].
    destruct (Hes u v k l (or_introl eq_refl)) as [Hu Hv].
    assert (Em : ematch (f u) (f v) (f x) (f y) = ematch u v x y).
    { unfold ematch. rewrite !feq by assumption. reflexivity. }
    rewrite Em. apply IH. intros u' v' k' l' Hin. apply (Hes u' v' k' l'). right. exact Hin.
  Qed.

  Lemma mrelabel_facts :
    exists g', mrelabel f g = Some g' /\ mwf g'
      /\ (forall z, mhas_node g' z = zmem z (map f (mnodes g)))
      /\ (forall x, In x (mnodes g) -> mnode_attr g' (f x) = mnode_attr g x)
      /\ (forall x y, In x (mnodes g) -> In y (mnodes g) -> mkd g' (f x) (f y) = mkd g x y).
  Proof.
    exists (madd_edges_from h1 E'). split; [exact mrelabel_unfold|].
    destruct (madd_edges_from_existing _ _ mE'_endpoints) as (Ha & Hh).
    split; [apply mwf_madd_edges_from; exact mh1_wf|]. split; [|split].
    - intros z. rewrite Hh. apply mh1_has.
    - intros x Hx. rewrite Ha. apply mh1_attr. exact Hx.
    - intros x y Hx Hy. rewrite mkd_madd_edges_from, mh1_kd. unfold E'.
      rewrite kd_fold_map_inj; [|exact medges_nodes|exact Hx|exact Hy].
      rewrite (kd_fold_medges g Hg). destruct (mkd g x y) as [kd|] eqn:E; [|reflexivity].
      destruct Hg as (_ & _ & H3). destruct (H3 _ _ _ E) as (Hne & Hnd & _).
      apply kd_apply_None; assumption.
  Qed.
End MRelabel.

Lemma mrelabel_ext f f' g : mwf g -> (forall x, In x (mnodes g) -> f x = f' x) -> mrelabel f g = mrelabel f' g.
Proof.
  intros Hwf Hff. unfold mrelabel.
  assert (E1 : map (fun '(n, _) => (f n, na_empty)) (mnodes_data g)
               = map (fun '(n, _) => (f' n, na_empty)) (mnodes_data g)).
  { apply map_ext_in. intros [n a] Hin. rewrite (Hff n); [reflexivity|].
    rewrite <- mnodes_data_fst. apply (in_map fst) in Hin. exact Hin. }
  assert (E3 : map (fun '(u, v, k, l) => (f u, f v, k, l)) (medges g)
               = map (fun '(u, v, k, l) => (f' u, f' v, k, l)) (medges g)).
  { apply map_ext_in. intros [[[u v] k] l] Hin. destruct (medges_endpoints _ Hwf _ _ _ _ Hin) as [Hu Hv].
    apply mhas_node_In in Hu. apply mhas_node_In in Hv. rewrite (Hff u Hu), (Hff v Hv). reflexivity. }
  rewrite E1, E3.
  assert (E2 : forall h0, fold_left (fun acc '(n, a) => mset_attr acc (f n) a) (mnodes_data g) h0
                        = fold_left (fun acc '(n, a) => mset_attr acc (f' n) a) (mnodes_data g) h0).
  { intros h0. apply fold_left_ext_in. intros acc [n a] Hin. rewrite (Hff n); [reflexivity|].
    rewrite <- mnodes_data_fst. apply (in_map fst) in Hin. exact Hin. }
  rewrite E2. reflexivity.
Qed.

(** * the boolean well-formedness check reflects [mwf] *)

Lemma keyd_eqb_eq x y : keyd_eqb x y = true -> x = y.
Proof.
  unfold keyd_eqb. revert y. induction x as [|[k l] t IH]; intros [|[k' l'] t']; simpl; try discriminate; [reflexivity|].
  rewrite !andb_true_iff. intros [[E1 E2] E3]. apply Z.eqb_eq in E1. apply label_eqb_eq in E2.
  subst. f_equal. apply IH. exact E3.
Qed.

Lemma mwfb_mwf g : mwfb g = true -> mwf g.
Proof.
  unfold mwfb. rewrite andb_true_iff, forallb_forall. intros [Hn Hall].
  apply nodupb_NoDup in Hn. split; [exact Hn|]. split.
  - intros u. unfold madj. destruct (alookup u g) as [[a ad]|] eqn:E; [|constructor].
    apply alookup_In in E. specialize (Hall _ E). simpl in Hall. apply andb_true_iff in Hall.
    destruct Hall as [Hd _]. apply nodupb_NoDup. exact Hd.
  - intros u v kd H. unfold mkd in H. pose proof (alookup_In _ _ _ H) as Hin.
    unfold madj in Hin. destruct (alookup u g) as [[a ad]|] eqn:E; [|contradiction].
    apply alookup_In in E. specialize (Hall _ E). simpl in Hall. apply andb_true_iff in Hall.
    destruct Hall as [_ Hs]. rewrite forallb_forall in Hs. specialize (Hs _ Hin). simpl in Hs.
    rewrite !andb_true_iff in Hs. destruct Hs as [[Hne Hnd] Hsym].
    split; [destruct kd; [discriminate|discriminate]|]. split; [apply nodupb_NoDup; exact Hnd|].
    unfold mkd. destruct (alookup u (madj g v)) as [kd'|]; simpl in Hsym; [|discriminate].
    apply keyd_eqb_eq in Hsym. congruence.
Qed.
