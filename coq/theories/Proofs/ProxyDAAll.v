(** Every sample of the shipped Diels-Alder proxy, positive and negative mode, by evaluation of the
    model inside the kernel (vm_compute; a few minutes): the enumeration ends normally, has the
    documented number of samples, and every sample passes da_sample_ok. The bound of this finite
    check is the shipped configuration itself (Gen/ProxyDA.v). *)
From Coq Require Import ZArith List Bool String.
From FGV Require Import Base.Util Base.Bond Base.NX Base.NXMulti Model.Proxy Model.Its Model.ProxyGen
  Spec.ProxyGenSpec Spec.ProxyGenCheck Gen.ProxyDA.
Import ListNotations.
Set Warnings "-abstract-large-number".

Definition da_all_okb (cfg : config) (n : nat) : bool :=
  let r := proxy_all cfg in
  gstatus_eqb (snd r) GDone && Nat.eqb (List.length (fst r)) n
  && forallb da_sample_ok (map split_its (fst r)).

Lemma DA_pos_all_okb : da_all_okb DA_pos 10470 = true.
Proof. vm_cast_no_check (eq_refl true). Qed.

Lemma DA_neg_all_okb : da_all_okb DA_neg 12875 = true.
Proof. vm_cast_no_check (eq_refl true). Qed.

Lemma da_all_okb_spec cfg n :
  da_all_okb cfg n = true ->
  snd (proxy_all cfg) = GDone /\ List.length (fst (proxy_all cfg)) = n
  /\ forallb da_sample_ok (fst (reaction_all cfg)) = true.
Proof.
  unfold da_all_okb, reaction_all. destruct (proxy_all cfg) as [l st]. simpl.
  intros H. apply andb_true_iff in H. destruct H as [H H3]. apply andb_true_iff in H. destruct H as [H1 H2].
  split; [destruct st; [reflexivity|discriminate]|]. split; [apply Nat.eqb_eq; exact H2|exact H3].
Qed.
