(** is_subgroup never raises anything but the "matches in both directions" AssertionError on parsed
    configurations (totality of the matcher, Proofs/MatchTotal.v), and the concrete Hasse theorem of
    C07 without the premise "is_subgroup does not raise on the list".

    Two remarks on that premise.  (1) As it was stated (for ALL pairs a, b of the list, a = b
    included) it cannot hold for a non-empty list: is_subgroup(a, a) raises the AssertionError, a
    pattern embeds into itself ([is_subgroup_self]).  The tree builder never makes that call -- it only
    compares a configuration with configurations inserted earlier -- which is what [build_tree_ext]
    below establishes.  (2) For DISTINCT members the AssertionError is a genuine outcome that the other
    hypotheses do not exclude: "CO" and "OC" are both parsed, anti-pattern-free, have distinct sort keys
    (the pattern strings differ) and embed into each other.  The remaining premise is therefore
    [no_mutual]: no two distinct members of the list embed into each other. *)
From Coq Require Import ZArith List Bool String Lia Permutation.
From FGV Require Import Base.Util Base.UtilFacts Base.Bond Base.NX Base.NXFacts Base.Sym
  Model.Permute Model.Match Model.FGTree
  Spec.Embedding Spec.EmbSearch Spec.FGSpec Spec.QuerySpec
  Proofs.NXLookup Proofs.SortFacts Proofs.KeyOrder Proofs.FGTreeProofs Proofs.EmbeddingOrder Proofs.SubgroupSem
  Proofs.KeyStrict Proofs.ConcreteHasse Proofs.QueryClosed Proofs.MatchTotal.
Import ListNotations.
Open Scope Z_scope.
Open Scope list_scope.

(** * is_subgroup: the only error value is the AssertionError *)

Lemma to_graph_total mp G P :
  wfb G = true -> wfb P = true -> has_syms G -> has_syms P -> contig G ->
  exists b, to_graph mp G P = Good b.
Proof.
  intros HG HP HsG HsP Hc.
  destruct (map_subgraph_to_graph_total_contig G P mp HG HP HsG HsP Hc) as [b Hb].
  exists b. unfold to_graph. rewrite Hb. reflexivity.
Qed.

Lemma anti_veto_total mp child : wfb child = true -> has_syms child -> contig child ->
  forall antis, (forall ap, In ap antis -> wfb ap = true /\ has_syms ap) ->
  exists t, anti_veto mp child antis = Good t.
Proof.
  intros Hc Hs Hcon. induction antis as [|ap rest IH]; intros Hok; simpl; [eauto|].
  destruct (Hok ap (or_introl eq_refl)) as [Hw Hsa].
  destruct (to_graph_total mp child ap Hc Hw Hs Hsa Hcon) as [r ->]. simpl.
  destruct r; [eauto|]. apply IH. intros; apply Hok; right; assumption.
Qed.

(* any mapper: is_subgroup returns a Boolean or raises the AssertionError, nothing else *)
Theorem is_subgroup_good_or_assert mp a b :
  cfg_parsed a -> cfg_parsed b -> (forall ap, In ap (fg_anti a) -> has_syms ap) ->
  (exists t, is_subgroup mp a b = Good t) \/ is_subgroup mp a b = Bad AssertErr.
Proof.
  intros [[[_ [Hawf _]] Haanti] [Has Hac]] [[[_ [Hbwf _]] _] [Hbs Hbc]] Hanti.
  unfold is_subgroup.
  destruct (to_graph_total mp (fg_pattern b) (fg_pattern a) Hbwf Hawf Hbs Has Hbc) as [p2c ->].
  destruct (to_graph_total mp (fg_pattern a) (fg_pattern b) Hawf Hbwf Has Hbs Hac) as [c2p ->].
  simpl. destruct p2c; [|left; eauto]. destruct c2p; [right; reflexivity|left].
  apply anti_veto_total; auto. intros ap Hin. destruct (Haanti ap Hin) as [_ [Hw _]]. auto.
Qed.

Section Sem.
  Variables (w : option string) (ic : bool).
  Let mp := mk_mapper w ic [].

  (* the AssertionError is raised exactly when the two patterns embed into each other *)
  Theorem is_subgroup_assert_iff a b :
    cfg_parsed a -> cfg_parsed b -> (forall ap, In ap (fg_anti a) -> has_syms ap) ->
    (is_subgroup mp a b = Bad AssertErr <->
     Embeds w ic (fg_pattern a) (fg_pattern b) /\ Embeds w ic (fg_pattern b) (fg_pattern a)).
  Proof.
    intros Ha Hb Hanti.
    pose proof Ha as [[[Hane [Hawf Hacon]] Haanti] [Has Hac]].
    pose proof Hb as [[[Hbne [Hbwf Hbcon]] _] [Hbs Hbc]].
    unfold is_subgroup.
    destruct (to_graph_total mp (fg_pattern b) (fg_pattern a) Hbwf Hawf Hbs Has Hbc) as [p2c E1].
    destruct (to_graph_total mp (fg_pattern a) (fg_pattern b) Hawf Hbwf Has Hbs Hac) as [c2p E2].
    pose proof (to_graph_sem w ic (matcher_complete w ic) (matcher_sound w ic) _ _ _ Hbwf Hbs Hbc
                  (conj Hane (conj Hawf Hacon)) (to_graph_of_match w ic _ _ _ E1)) as H1.
    pose proof (to_graph_sem w ic (matcher_complete w ic) (matcher_sound w ic) _ _ _ Hawf Has Hac
                  (conj Hbne (conj Hbwf Hbcon)) (to_graph_of_match w ic _ _ _ E2)) as H2.
    fold mp in E1, E2. rewrite E1, E2. simpl.
    destruct p2c.
    - destruct c2p.
      + split; [intros _|reflexivity]. split; [apply H1|apply H2]; reflexivity.
      + split.
        * intros H. exfalso.
          destruct (anti_veto_total mp (fg_pattern b) Hbwf Hbs Hbc (fg_anti a)) as [t Ht].
          { intros ap Hin. destruct (Haanti ap Hin) as [_ [Hw _]]. auto. }
          rewrite Ht in H. discriminate.
        * intros [_ He]. apply H2 in He. discriminate.
    - split; [discriminate|]. intros [He _]. apply H1 in He. discriminate.
  Qed.

  Corollary is_subgroup_total a b :
    cfg_parsed a -> cfg_parsed b -> (forall ap, In ap (fg_anti a) -> has_syms ap) ->
    ~ (Embeds w ic (fg_pattern a) (fg_pattern b) /\ Embeds w ic (fg_pattern b) (fg_pattern a)) ->
    exists t, is_subgroup mp a b = Good t.
  Proof.
    intros Ha Hb Hanti Hno.
    destruct (is_subgroup_good_or_assert mp a b Ha Hb Hanti) as [H|H]; [exact H|].
    exfalso. apply Hno. apply (is_subgroup_assert_iff a b Ha Hb Hanti). exact H.
  Qed.
End Sem.

(** a pattern embeds into itself, so is_subgroup(a, a) always raises *)
Lemma adm_refl w ic s : adm w ic s s = true.
Proof. unfold adm. rewrite String.eqb_refl. apply orb_true_r. Qed.

Lemma embeds_self w ic P : P <> [] -> has_syms P -> Embeds w ic P P.
Proof.
  intros Hne Hs. destruct P as [|[n0 x] t] eqn:EP; [congruence|]. rewrite <- EP in *.
  assert (Hn0 : In n0 (nodes P)) by (rewrite EP; left; reflexivity).
  exists n0, n0, (fun p => Some p). constructor.
  - auto.
  - eauto.
  - intros p q n _ _ H1 H2. congruence.
  - intros p n Hp [= <-]. destruct (Hs p Hp) as [s Hsym]. exists s, s. auto using adm_refl.
  - intros p q l n n' Hl [= <-] [= <-]. exact Hl.
Qed.

Theorem is_subgroup_self w ic a :
  cfg_parsed a -> (forall ap, In ap (fg_anti a) -> has_syms ap) ->
  is_subgroup (mk_mapper w ic []) a a = Bad AssertErr.
Proof.
  intros Ha Hanti. apply (is_subgroup_assert_iff w ic a a Ha Ha Hanti).
  destruct Ha as [[[Hne _] _] [Hs _]]. split; apply embeds_self; assumption.
Qed.

(** * the tree builder only compares a configuration with configurations inserted before it *)

Section Ext.
  Context {A : Type}.
  Variables sub sub' : A -> A -> res bool.
  Variable kltb : A -> A -> bool.

  Lemma sp_loop_ext ns below below' child :
    (forall nd, In nd ns -> sub (n_cfg nd) child = sub' (n_cfg nd) child) ->
    (forall nd, below nd = below' nd) ->
    forall l parents, sp_loop sub ns below child l parents = sp_loop sub' ns below' child l parents.
  Proof.
    intros Hs Hb. induction l as [|r t IH]; intros parents; simpl; [reflexivity|].
    destruct (nth_error ns r) as [nd|] eqn:E; [|reflexivity].
    rewrite (Hs nd (nth_error_In _ _ E)), (Hb nd).
    destruct (sub' (n_cfg nd) child) as [b|e]; simpl; [|reflexivity].
    destruct b; [|apply IH]. destruct (below' nd) as [ps|e]; simpl; [|reflexivity]. apply IH.
  Qed.

  Lemma search_parents_ext ns child :
    (forall nd, In nd ns -> sub (n_cfg nd) child = sub' (n_cfg nd) child) ->
    forall fuel roots, search_parents sub fuel ns roots child = search_parents sub' fuel ns roots child.
  Proof.
    intros Hs. induction fuel as [|f IH]; intros roots; simpl; [reflexivity|].
    apply sp_loop_ext; [exact Hs|]. intros nd. apply IH.
  Qed.

  Lemma insert_node_ext st c :
    (forall nd, In nd (t_nodes st) -> sub (n_cfg nd) c = sub' (n_cfg nd) c) ->
    insert_node sub kltb st c = insert_node sub' kltb st c.
  Proof.
    intros Hs. unfold insert_node. rewrite (search_parents_ext _ _ Hs). reflexivity.
  Qed.

  Lemma map_update_nth {B C} (g : B -> C) (f : B -> B) : (forall x, g (f x) = g x) ->
    forall i l, map g (update_nth i f l) = map g l.
  Proof.
    intros H. induction i as [|i IH]; intros [|x t]; simpl; try reflexivity.
    - rewrite H. reflexivity.
    - rewrite IH. reflexivity.
  Qed.

  Lemma add_child_cfgs (ns : list (tnode (A := A))) p c : map n_cfg (add_child kltb ns p c) = map n_cfg ns.
  Proof.
    unfold add_child. rewrite !map_update_nth; auto.
  Qed.

  Lemma insert_node_cfgs st c st' :
    insert_node sub' kltb st c = Good st' -> map n_cfg (t_nodes st') = map n_cfg (t_nodes st) ++ [c].
  Proof.
    unfold insert_node. destruct (search_parents _ _ _ _ _) as [ps|e]; simpl; [|discriminate].
    destruct ps as [|p0 ps'].
    - intros [= <-]. simpl. rewrite map_app. reflexivity.
    - intros [= <-]. simpl.
      assert (H : forall l ns, map n_cfg (fold_left (fun acc p => add_child kltb acc p (List.length (t_nodes st))) l ns)
                               = map n_cfg ns).
      { induction l as [|p t IH]; intros ns; simpl; [reflexivity|]. rewrite IH. apply add_child_cfgs. }
      rewrite H, add_child_cfgs, map_app. reflexivity.
  Qed.

  Lemma insert_all_ext : forall l st,
    NoDup (map n_cfg (t_nodes st) ++ l) ->
    (forall a c, In a (map n_cfg (t_nodes st) ++ l) -> In c l -> a <> c -> sub a c = sub' a c) ->
    insert_all sub kltb st l = insert_all sub' kltb st l.
  Proof.
    induction l as [|c t IH]; intros st Hnd Hs; simpl; [reflexivity|].
    assert (Hstep : insert_node sub kltb st c = insert_node sub' kltb st c).
    { apply insert_node_ext. intros nd Hin.
      assert (Hcfg : In (n_cfg nd) (map n_cfg (t_nodes st))) by (apply in_map; exact Hin).
      apply Hs; [apply in_or_app; left; exact Hcfg | left; reflexivity |].
      intros Heq. apply NoDup_remove_2 in Hnd. apply Hnd. apply in_or_app. left. rewrite <- Heq. exact Hcfg. }
    rewrite Hstep. destruct (insert_node sub' kltb st c) as [st'|e] eqn:E; simpl; [|reflexivity].
    pose proof (insert_node_cfgs st c st' E) as Hc.
    apply IH.
    - rewrite Hc, <- app_assoc. exact Hnd.
    - intros a c' Ha Hc' Hne. apply Hs; [|right; exact Hc'|exact Hne].
      rewrite Hc, <- app_assoc in Ha. exact Ha.
  Qed.

  Theorem build_tree_ext l :
    NoDup l -> (forall a c, In a l -> In c l -> a <> c -> sub a c = sub' a c) ->
    build_tree sub kltb l = build_tree sub' kltb l.
  Proof.
    intros Hnd Hs. unfold build_tree. apply insert_all_ext; simpl.
    - eapply Permutation_NoDup; [apply Permutation_sym, sorted_asc_perm | exact Hnd].
    - intros a c Ha Hc Hne. apply Hs; [| |exact Hne]; apply (Permutation_in _ (sorted_asc_perm kltb l)); assumption.
  Qed.
End Ext.

(** * the concrete Hasse theorem without the "does not raise" premise *)

(* no two distinct members of the list embed into each other *)
Definition no_mutual (w : option string) (ic : bool) (l : list fgconfig) : Prop :=
  forall a b, In a l -> In b l -> a <> b ->
    ~ (Embeds w ic (fg_pattern a) (fg_pattern b) /\ Embeds w ic (fg_pattern b) (fg_pattern a)).

Theorem configs_hasse_concrete_total ic (l : list fgconfig) :
  NoDup (map order_key l) ->
  (forall c, In c l -> cfg_plain ic c) ->
  no_mutual (Some "R"%string) ic l ->
  (forall a b, In a l -> In b l -> a <> b ->
     exists t, is_subgroup (mk_mapper (Some "R"%string) ic []) a b = Good t) /\
  (forall a b, In a l -> In b l ->
     (subb_of (Some "R"%string) ic a b = true <-> StrictlyBelow (Some "R"%string) ic (fg_pattern a) (fg_pattern b))) /\
  exists t, build_config_tree_from_list (mk_mapper (Some "R"%string) ic []) l = Good t /\
            hasse_of (subb_of (Some "R"%string) ic) cfg_ltb l t.
Proof.
  intros Hk Hl Hno.
  set (w := Some "R"%string). set (mp := mk_mapper w ic []).
  assert (Hparsed : forall c, In c l -> cfg_parsed c) by (intros c Hc; apply (Hl c Hc)).
  assert (Hanti : forall c, In c l -> forall ap, In ap (fg_anti c) -> has_syms ap).
  { intros c Hc ap Hin. destruct (Hl c Hc) as [_ [Hnil _]]. rewrite Hnil in Hin. destruct Hin. }
  assert (Htot : forall a b, In a l -> In b l -> a <> b -> exists t, is_subgroup mp a b = Good t).
  { intros a b Ha Hb Hne.
    apply (is_subgroup_total w ic a b (Hparsed a Ha) (Hparsed b Hb) (Hanti a Ha)). exact (Hno a b Ha Hb Hne). }
  pose proof (distinct_keys_nodup l Hk) as Hnd.
  pose proof (cfg_ltb_total l Hk) as Htotal.
  (* the value of is_subgroup is the strict embedding order, also on the diagonal (false / not below) *)
  assert (Hsem : forall a b, In a l -> In b l ->
             (subb_of w ic a b = true <-> StrictlyBelow w ic (fg_pattern a) (fg_pattern b))).
  { intros a b Ha Hb. unfold subb_of. fold mp.
    destruct (is_subgroup mp a b) as [t|e] eqn:Et.
    - rewrite (is_subgroup_sem_closed w ic a b t (Hparsed a Ha) (Hparsed b Hb) Et).
      split; [tauto|]. intros H. split; [exact H|]. intros [ap [Hin _]].
      destruct (Hl a Ha) as [_ [Hnil _]]. rewrite Hnil in Hin. destruct Hin.
    - split; [discriminate|]. intros Hsb. exfalso.
      destruct (Htotal a b Ha Hb) as [Heq|Hlt].
      + subst b. exact (strictly_below_irrefl _ _ _ Hsb).
      + assert (Hne : a <> b).
        { intros ->. rewrite cfg_ltb_irrefl in Hlt. destruct Hlt; discriminate. }
        destruct (Htot a b Ha Hb Hne) as [t Ht]. congruence. }
  split; [exact Htot|]. split; [exact Hsem|].
  set (sub' := fun a b : fgconfig => if (cfg_ltb a b || cfg_ltb b a)%bool then is_subgroup mp a b else Good false).
  destruct (hasse_insert sub' (subb_of w ic) cfg_ltb cfg_ltb_irrefl cfg_ltb_trans l Hnd Htotal) as [t [Et Ht]].
  - intros a b Ha Hb. unfold sub'.
    destruct (cfg_ltb a b || cfg_ltb b a)%bool eqn:Ec.
    + assert (Hne : a <> b).
      { intros ->. rewrite cfg_ltb_irrefl in Ec. discriminate. }
      destruct (Htot a b Ha Hb Hne) as [t Et]. rewrite Et. unfold subb_of. fold mp. rewrite Et. reflexivity.
    + apply orb_false_iff in Ec. destruct Ec as [E1 E2].
      destruct (Htotal a b Ha Hb) as [->|[H|H]]; [|congruence|congruence].
      f_equal. symmetry. destruct (subb_of w ic b b) eqn:Es; [|reflexivity].
      exfalso. apply (Hsem b b Hb Hb) in Es. exact (strictly_below_irrefl _ _ _ Es).
  - intros a b Ha Hb H. apply (key_strict_holds ic l Hl a b Ha Hb). apply Hsem; auto.
  - intros a b c Ha Hb Hc H1 H2. apply Hsem; auto.
    eapply strictly_below_trans; [apply (Hsem a b)|apply (Hsem b c)]; auto.
  - exists t. split; [|exact Ht]. unfold build_config_tree_from_list. fold mp. rewrite <- Et.
    apply build_tree_ext; [exact Hnd|]. intros a c Ha Hc Hne. unfold sub'.
    destruct (Htotal a c Ha Hc) as [?|[H|H]]; [contradiction| |]; rewrite H; [reflexivity|].
    rewrite orb_true_r. reflexivity.
Qed.

(** * deciding the hypotheses of [configs_hasse_concrete_total] for a concrete list (non-vacuity) *)

Fixpoint closure (P : graph) (fuel : nat) (seen : list Z) : list Z :=
  match fuel with
  | O => seen
  | S f => closure P f (seen ++ flat_map (neighbors P) seen)
  end.

Lemma closure_reach P s : forall fuel seen,
  (forall x, In x seen -> reach P s x) -> forall x, In x (closure P fuel seen) -> reach P s x.
Proof.
  induction fuel as [|f IH]; intros seen Hs x Hx; simpl in Hx; [auto|].
  apply (IH (seen ++ flat_map (neighbors P) seen)); [|exact Hx].
  intros y Hy. apply in_app_or in Hy. destruct Hy as [Hy|Hy]; [auto|].
  apply in_flat_map in Hy. destruct Hy as (z & Hz & Hyz). eapply reach_step; [apply Hs; exact Hz|exact Hyz].
Qed.

Definition connectedb (P : graph) : bool :=
  forallb (fun s => forallb (fun p => zmem p (closure P (List.length P) [s])) (nodes P)) (nodes P).

Lemma connectedb_sound P : connectedb P = true -> connected P.
Proof.
  unfold connectedb. rewrite forallb_forall. intros H s Hs p Hp.
  specialize (H s Hs). rewrite forallb_forall in H. specialize (H p Hp). apply zmem_In in H.
  apply (closure_reach P s (List.length P) [s]); [|exact H]. intros x [<-|[]]. constructor.
Qed.

Definition cfg_plainb (c : fgconfig) : bool :=
  let P := fg_pattern c in
  negb (Nat.eqb (List.length P) 0) && wfb P && connectedb P && has_symsb P
  && forallb (fun n => (0 <=? n) && (n <? Z.of_nat (List.length P))) (nodes P)
  && Nat.eqb (List.length (fg_anti c)) 0
  && list_eqb String.eqb (fg_len_excl c) ["R"%string]
  && forallb (fun e => negb (option_eqb String.eqb (a_sym (fst (snd e))) (Some "r"%string))) P.

Lemma cfg_plainb_sound ic c : cfg_plainb c = true -> cfg_plain ic c.
Proof.
  unfold cfg_plainb. rewrite !andb_true_iff. intros [[[[[[[H1 H2] H3] H4] H5] H6] H7] H8].
  assert (Hanti : fg_anti c = []) by (destruct (fg_anti c); [reflexivity|discriminate]).
  split; [|split; [exact Hanti|split]].
  - split; [split|split].
    + split; [|split; [exact H2 | apply connectedb_sound; exact H3]].
      intros E. rewrite E in H1. discriminate.
    + rewrite Hanti. intros ap [].
    + apply EmbeddingFacts.has_symsb_spec. exact H4.
    + intros n Hn. rewrite forallb_forall in H5. specialize (H5 n Hn). apply andb_true_iff in H5. lia.
  - destruct (fg_len_excl c) as [|x [|y t]]; simpl in H7; try discriminate.
    + rewrite andb_true_r in H7. apply String.eqb_eq in H7. subst. reflexivity.
    + rewrite andb_false_r in H7. discriminate.
  - intros n Hsym. unfold sym_of, node_attr in Hsym.
    destruct (alookup n (fg_pattern c)) as [[a ad]|] eqn:E; [|discriminate].
    apply alookup_In in E. rewrite forallb_forall in H8. specialize (H8 _ E). simpl in H8.
    rewrite Hsym in H8. simpl in H8. discriminate.
Qed.

(* no two members at different positions embed into each other (decided with the reference search) *)
Definition no_mutualb (w : option string) (ic : bool) (l : list fgconfig) : bool :=
  forallb (fun a => forallb (fun b =>
    negb (embedsb w ic (fg_pattern a) (fg_pattern b) && embedsb w ic (fg_pattern b) (fg_pattern a))
    || negb (cfg_ltb a b || cfg_ltb b a)) l) l.

Lemma no_mutualb_sound w ic l :
  NoDup (map order_key l) -> (forall c, In c l -> wfb (fg_pattern c) = true) ->
  no_mutualb w ic l = true -> no_mutual w ic l.
Proof.
  intros Hk Hwf H a b Ha Hb Hne [E1 E2]. unfold no_mutualb in H. rewrite forallb_forall in H.
  specialize (H a Ha). rewrite forallb_forall in H. specialize (H b Hb).
  apply (embedsb_exact_closed w ic _ _ (wfb_wf _ (Hwf a Ha))) in E1.
  apply (embedsb_exact_closed w ic _ _ (wfb_wf _ (Hwf b Hb))) in E2.
  rewrite E1, E2 in H. simpl in H. apply negb_true_iff, orb_false_iff in H. destruct H as [H1 H2].
  destruct (cfg_ltb_total l Hk a b Ha Hb) as [?|[?|?]]; [contradiction|congruence|congruence].
Qed.

Definition concrete_total_hypsb (ic : bool) (l : list fgconfig) : bool :=
  keys_distinctb (map order_key l) && forallb cfg_plainb l && no_mutualb (Some "R"%string) ic l.

Lemma concrete_total_hyps_sound ic l :
  concrete_total_hypsb ic l = true ->
  NoDup (map order_key l) /\ (forall c, In c l -> cfg_plain ic c) /\ no_mutual (Some "R"%string) ic l.
Proof.
  unfold concrete_total_hypsb. rewrite !andb_true_iff. intros [[H1 H2] H3].
  apply keys_distinctb_NoDup in H1. rewrite forallb_forall in H2.
  assert (Hp : forall c, In c l -> cfg_plain ic c) by (intros c Hc; apply cfg_plainb_sound; auto).
  split; [exact H1|]. split; [exact Hp|].
  apply no_mutualb_sound; [exact H1| |exact H3].
  intros c Hc. destruct (Hp c Hc) as [[[[_ [Hw _]] _] _] _]. exact Hw.
Qed.
