(** get_unreachable_nodes satisfies its specification for every well-formed graph, any ids. *)
From Coq Require Import ZArith List Bool Lia Sorted.
From FGV Require Import Base.Util Base.UtilFacts Base.Bond Base.NX Base.NXFacts
  Model.Matrix Model.Prune Spec.WalkDef Spec.PruneSpec Proofs.Walk.
Import ListNotations.
Open Scope Z_scope.

Lemma has_edge_src g w v : has_edge g w v = true -> has_node g w = true.
Proof.
  unfold has_edge. destruct (edge_label g w v) as [l|] eqn:El; [|discriminate].
  intros _. eapply edge_label_has_node. exact El.
Qed.

Lemma has_edge_sym g w v : wf g -> has_edge g w v = true -> has_edge g v w = true.
Proof.
  intros (_ & _ & Hs). unfold has_edge. destruct (edge_label g w v) as [l|] eqn:El; [|discriminate].
  intros _. rewrite (Hs _ _ _ El). reflexivity.
Qed.

Lemma has_edge_tgt g w v : wf g -> has_edge g w v = true -> has_node g v = true.
Proof. intros Hwf H. eapply has_edge_src. eapply has_edge_sym; eauto. Qed.

Lemma has_edge_src_sorted g w v : has_edge g w v = true -> In w (zsort (nodes g)).
Proof. intros H. apply zsort_In. apply has_node_In. eapply has_edge_src. exact H. Qed.

Lemma zmem_zsort_nodes g s : zmem s (zsort (nodes g)) = has_node g s.
Proof.
  apply eq_true_iff_eq. rewrite zmem_In, zsort_In, has_node_In. reflexivity.
Qed.

Lemma adj_matrix_A g N : adj_matrix g N = A (has_edge g) N.
Proof. reflexivity. Qed.

(* the number the code tests against 0 for column v *)
Definition colsum (g : graph) (S : list Z) (r : nat) (v : Z) : Z :=
  sumf (fun s => csum (has_edge g) (zsort (nodes g)) r s v) S.

Theorem get_unreachable_closed g S r :
  wf g ->
  get_unreachable_nodes g S r =
  match nodes g with
  | [] => Err NetworkXError
  | _ :: _ =>
      if forallb (has_node g) S
      then Ok (filter (fun v => colsum g S r v =? 0) (zsort (nodes g)))
      else Err KeyError
  end.
Proof.
  intros (Hnd & _). unfold get_unreachable_nodes.
  destruct (nodes g) as [|x t] eqn:En; [reflexivity|]. rewrite <- En.
  assert (Hne : zsort (nodes g) <> []).
  { intros H. apply (proj1 (zsort_nil _)) in H. rewrite En in H. discriminate. }
  remember (zsort (nodes g)) as N eqn:EN.
  destruct N as [|n0 N']; [congruence|]. rewrite EN. rewrite EN in Hne.
  assert (HndN : NoDup (zsort (nodes g))) by (apply zsort_NoDup; rewrite En; exact Hnd).
  pose proof (unreachable_core (has_edge g) (zsort (nodes g)) r S HndN) as Hc.
  rewrite adj_matrix_A.
  assert (Hfb : forallb (fun s => zmem s (zsort (nodes g))) S = forallb (has_node g) S).
  { clear. induction S as [|s t IH]; simpl; [reflexivity|]. rewrite zmem_zsort_nodes, IH. reflexivity. }
  rewrite Hfb in Hc.
  destruct (select_rows S (zsort (nodes g)) _) as [rows|].
  - destruct Hc as (Hall & Heq). rewrite Hall, Heq. reflexivity.
  - rewrite Hc. reflexivity.
Qed.

Lemma colsum_zero_iff g S r v :
  colsum g S r v = 0 <-> forall s, In s S -> ~ greach g r s v.
Proof.
  unfold colsum. apply (colsum_zero (has_edge g) (zsort (nodes g)) (has_edge_src_sorted g)).
Qed.

Theorem unreachable_spec_holds g S r L :
  wf g -> get_unreachable_nodes g S r = Ok L -> unreachable_spec g S r L.
Proof.
  intros Hwf H. rewrite (get_unreachable_closed g S r Hwf) in H.
  assert (HL : nodes g <> [] /\ L = filter (fun v => colsum g S r v =? 0) (zsort (nodes g))).
  { destruct (nodes g) as [|x t]; [discriminate|].
    destruct (forallb (has_node g) S); [|discriminate]. injection H as <-.
    split; [discriminate|reflexivity]. }
  destruct HL as (_ & ->). split.
  - intros v. rewrite filter_In, zsort_In, Z.eqb_eq, colsum_zero_iff, has_node_In.
    reflexivity.
  - apply filter_sorted. apply zsort_strict. apply Hwf.
Qed.

(* when does the call succeed / which exception is raised *)
Theorem unreachable_result g S r :
  wf g ->
  match get_unreachable_nodes g S r with
  | Ok _ => nodes g <> [] /\ forall s, In s S -> has_node g s = true
  | Err NetworkXError => nodes g = []
  | Err KeyError => nodes g <> [] /\ exists s, In s S /\ has_node g s = false
  | Err _ => False
  end.
Proof.
  intros Hwf. rewrite (get_unreachable_closed g S r Hwf).
  destruct (nodes g) as [|x t] eqn:En; [reflexivity|].
  destruct (forallb (has_node g) S) eqn:Ef.
  - split; [discriminate|]. rewrite forallb_forall in Ef. exact Ef.
  - split; [discriminate|].
    assert (Hex : existsb (fun s => negb (has_node g s)) S = true).
    { clear -Ef. induction S as [|s t IH]; simpl in *; [discriminate|].
      destruct (has_node g s); simpl in *; [apply IH; exact Ef|reflexivity]. }
    apply existsb_exists in Hex. destruct Hex as (s & Hs & Hn). exists s.
    split; [exact Hs|]. destruct (has_node g s); [discriminate|reflexivity].
Qed.

(* start nodes count as distance 0: never reported, for every radius *)
Corollary start_never_unreachable g S r L s :
  wf g -> get_unreachable_nodes g S r = Ok L -> In s S -> ~ In s L.
Proof.
  intros Hwf H Hs Hin. destruct (unreachable_spec_holds g S r L Hwf H) as (Hspec & _).
  apply Hspec in Hin. destruct Hin as (_ & Hno). apply (Hno s Hs). apply reach_refl.
Qed.

(** [greach] read as a distance bound *)
Lemma greach_O g s v : greach g O s v <-> s = v.
Proof. apply reach_O. Qed.

Lemma greach_S g r s v :
  greach g (S r) s v <-> greach g r s v \/ exists w, greach g r s w /\ has_edge g w v = true.
Proof. apply reach_S. Qed.

Lemma greach_has_node g r s v : wf g -> has_node g s = true -> greach g r s v -> has_node g v = true.
Proof.
  intros Hwf Hs (k & _ & Hw).
  apply (walk_inv (gedge g) (fun x => has_node g x = true) k s v); auto.
  intros w x He. eapply has_edge_tgt; eauto.
Qed.

(* the executable test used by the checkers *)
Lemma reachb_greach g r s v : wf g -> reachb g r s v = true <-> greach g r s v.
Proof.
  intros Hwf. unfold reachb, gball. rewrite zmem_In. apply ball_reach.
  intros w x He. apply has_node_In. eapply has_edge_tgt; eauto.
Qed.

Lemma gball_greach g r s v : wf g -> In v (gball g r s) <-> greach g r s v.
Proof.
  intros Hwf. unfold gball. apply ball_reach.
  intros w x He. apply has_node_In. eapply has_edge_tgt; eauto.
Qed.

(* a node that is not reported is within reach of some start node (constructively) *)
Theorem unreachable_complement g S r L v :
  wf g -> get_unreachable_nodes g S r = Ok L -> has_node g v = true -> ~ In v L ->
  exists s, In s S /\ greach g r s v.
Proof.
  intros Hwf H Hv Hni. rewrite (get_unreachable_closed g S r Hwf) in H.
  assert (HL : L = filter (fun v => colsum g S r v =? 0) (zsort (nodes g))).
  { destruct (nodes g) as [|x t]; [discriminate|].
    destruct (forallb (has_node g) S); [|discriminate]. injection H as <-. reflexivity. }
  subst L.
  assert (Hnz : colsum g S r v <> 0).
  { intros Hz. apply Hni. apply filter_In. split.
    - apply zsort_In. apply has_node_In. exact Hv.
    - apply Z.eqb_eq. exact Hz. }
  unfold colsum in Hnz.
  assert (Hnn : forall s, In s S -> 0 <= csum (has_edge g) (zsort (nodes g)) r s v)
    by (intros s _; apply csum_nonneg).
  pose proof (sumf_nonneg _ _ Hnn) as H0.
  assert (Hpos : 0 < sumf (fun s => csum (has_edge g) (zsort (nodes g)) r s v) S) by lia.
  apply (sumf_pos _ _ Hnn) in Hpos. destruct Hpos as (s & Hs & Hp). exists s. split; [exact Hs|].
  apply (csum_pos (has_edge g) (zsort (nodes g)) (has_edge_src_sorted g)) in Hp. exact Hp.
Qed.

(** the matrix facts read on a graph: N = sorted node list, i/j = positions of u/v in it *)
Theorem graph_power_entry g k u v i j :
  wf g ->
  let N := zsort (nodes g) in
  index_of u N = Some i -> index_of v N = Some j ->
  let x := entry (mat_pow (adj_matrix g N) (List.length N) k) i j in
  0 <= x /\ (0 < x <-> gwalk g k u v).
Proof.
  intros Hwf N Hi Hj. apply (adj_power_entry (has_edge g) N (has_edge_src_sorted g)); auto.
  apply zsort_NoDup. apply Hwf.
Qed.

Theorem graph_power_sum_entry g r u v i j :
  wf g ->
  let N := zsort (nodes g) in
  index_of u N = Some i -> index_of v N = Some j ->
  let x := entry (iter_sum r (adj_matrix g N) (ident (List.length N)) (ident (List.length N))) i j in
  0 <= x /\ (0 < x <-> greach g r u v).
Proof.
  intros Hwf N Hi Hj. apply (adj_power_sum_entry (has_edge g) N (has_edge_src_sorted g)); auto.
  apply zsort_NoDup. apply Hwf.
Qed.
