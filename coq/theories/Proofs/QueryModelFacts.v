(** Structural facts about the query model (Model/Query.v) that do not depend on any property
    of the matcher: what the loops of is_functional_group, __find_best_node_rec and
    __get_functional_groups compute in terms of the individual map_anchored_subgraph calls. *)
From Coq Require Import ZArith List Bool String Lia Permutation.
From FGV Require Import Base.Util Base.UtilFacts Base.StrMap Base.Bond Base.NX Base.Sym Model.Permute Model.Match
                        Model.Hydrogens Model.FGTree Model.Query Proofs.SortFacts.
Import ListNotations.
Open Scope Z_scope.

(** * map_subgraph with subgraph_anchor=None: one anchored call per pattern node, in order *)
Definition anchored_is (G P : graph) (mp : mapper) (a pa : Z) (r : bool * list (Z * Z)) : Prop :=
  exists vis, map_anchored_subgraph G P mp a pa = Ok (fst r, snd r, vis).

Lemma anchors_loop_inv G P mp a : forall l rs,
  anchors_loop G P mp a l = Ok rs -> Forall2 (anchored_is G P mp a) l rs.
Proof.
  induction l as [|pa t IH]; intros rs H; simpl in H.
  - inversion H. constructor.
  - destruct (map_anchored_subgraph G P mp a pa) as [[[b m] vis]| |] eqn:E; try discriminate.
    destruct (anchors_loop G P mp a t) as [r| |] eqn:El; try discriminate.
    inversion H; subst. constructor; [exists vis; exact E|]. apply IH. reflexivity.
Qed.

Lemma map_subgraph_inv G P mp a ms :
  P <> [] -> map_subgraph G P mp a None = Ok ms -> Forall2 (anchored_is G P mp a) (nodes P) ms.
Proof.
  intros HP H. unfold map_subgraph in H. destruct P as [|e P']; [congruence|].
  destruct (anchors_loop G (e :: P') mp a (nodes (e :: P'))) as [rs| |] eqn:El; try discriminate.
  pose proof (anchors_loop_inv _ _ _ _ _ _ El) as HF.
  destruct rs as [|r rs'].
  - inversion HF.
  - inversion H; subst. exact HF.
Qed.

Lemma Forall2_In_r {A B} (R : A -> B -> Prop) l l' y : Forall2 R l l' -> In y l' -> exists x, In x l /\ R x y.
Proof.
  induction 1 as [|x y' l l' Hxy HF IH]; intros Hin; [destruct Hin|].
  destruct Hin as [->|Hin]; [exists x; split; [left; reflexivity|exact Hxy]|].
  destruct (IH Hin) as [x' [H1 H2]]. exists x'. split; [right; exact H1|exact H2].
Qed.

Lemma Forall2_In_l {A B} (R : A -> B -> Prop) l l' x : Forall2 R l l' -> In x l -> exists y, In y l' /\ R x y.
Proof.
  induction 1 as [|x' y l l' Hxy HF IH]; intros Hin; [destruct Hin|].
  destruct Hin as [->|Hin]; [exists y; split; [left; reflexivity|exact Hxy]|].
  destruct (IH Hin) as [y' [H1 H2]]. exists y'. split; [right; exact H1|exact H2].
Qed.

Local Opaque map_subgraph.

(** * the first loop of is_functional_group *)
Lemma pattern_loop_true index ga mx : forall ms cur idx,
  pattern_loop index ga mx ms cur = (true, idx) ->
  exists m, In (true, m) ms /\ idx = fg_indices_of ga mx m /\ zmem index idx = true.
Proof.
  induction ms as [|[b m] t IH]; intros cur idx H; simpl in H; [discriminate|].
  destruct b.
  - destruct (zmem index (fg_indices_of ga mx m)) eqn:E.
    + inversion H; subst. exists m. split; [left; reflexivity|]. split; auto.
    + destruct (IH _ _ H) as [m' [H1 H2]]. exists m'. split; [right; exact H1|exact H2].
  - destruct (IH _ _ H) as [m' [H1 H2]]. exists m'. split; [right; exact H1|exact H2].
Qed.

Lemma pattern_loop_false index ga mx : forall ms cur idx,
  pattern_loop index ga mx ms cur = (false, idx) ->
  forall m, In (true, m) ms -> zmem index (fg_indices_of ga mx m) = false.
Proof.
  induction ms as [|[b m] t IH]; intros cur idx H m' Hin; simpl in H; [destruct Hin|].
  destruct b.
  - destruct (zmem index (fg_indices_of ga mx m)) eqn:E; [discriminate|].
    destruct Hin as [Hin|Hin]; [inversion Hin; subst; exact E|]. eapply IH; eauto.
  - destruct Hin as [Hin|Hin]; [discriminate|]. eapply IH; eauto.
Qed.

(** * the anti-pattern loops *)
Lemma anti_inner_false ms : anti_inner ms false = false.
Proof. destruct ms as [|[b m] t]; reflexivity. Qed.

Lemma anti_inner_true ms : anti_inner ms true = true <-> forall b m, In (b, m) ms -> b = false.
Proof.
  induction ms as [|[b m] t IH]; simpl.
  - split; auto. intros _ b m [].
  - destruct b; simpl.
    + split; [intros H; discriminate H|]. intros H. specialize (H true m (or_introl eq_refl)). discriminate H.
    + rewrite IH. split.
      * intros H b' m' [E|Hin]; [inversion E; reflexivity|eauto].
      * intros H b' m' Hin. eapply H. right. exact Hin.
Qed.

(* the loop returns normally only if every map_subgraph call does; it answers true exactly when it
   was entered with true and no anchored call of any anti-pattern succeeded *)
Lemma anti_loop_spec mp g a : forall aps b0 b,
  anti_loop mp g a aps b0 = Good b ->
  Forall (fun ap => exists ms, map_subgraph g ap mp a None = Ok ms) aps /\
  (b = true <-> b0 = true /\
                forall ap ms bb m, In ap aps -> map_subgraph g ap mp a None = Ok ms -> In (bb, m) ms -> bb = false).
Proof.
  induction aps as [|ap t IH]; intros b0 b H; simpl in H.
  - inversion H; subst. split; [constructor|]. split; [intros ->; split; auto; intros ap ms bb m []|tauto].
  - destruct (map_subgraph g ap mp a None) as [ms| |] eqn:E; simpl in H; try discriminate.
    2:{ destruct e; cbn in *; discriminate. }
    destruct (IH _ _ H) as [HF Hb]. split; [constructor; [exists ms; exact E|exact HF]|].
    rewrite Hb. split.
    + intros [Hi Ht]. destruct b0; [|rewrite anti_inner_false in Hi; discriminate].
      split; auto. intros ap' ms' bb m [<-|Hin] E' Hm.
      * rewrite E in E'. inversion E'; subst ms'. eapply (proj1 (anti_inner_true ms)); eauto.
      * eapply Ht; eauto.
    + intros [-> Hall]. split.
      * apply anti_inner_true. intros bb m Hm. eapply Hall; [left; reflexivity|exact E|exact Hm].
      * intros ap' ms' bb m Hin. apply Hall. right. exact Hin.
Qed.

Lemma anti_loop_false_witness mp G a : forall aps b0,
  anti_loop mp G a aps b0 = Good false -> b0 = true ->
  exists ap ms m, In ap aps /\ map_subgraph G ap mp a None = Ok ms /\ In (true, m) ms.
Proof.
  induction aps as [|ap t IH]; intros b0 H Hb0; simpl in H; [inversion H; congruence|].
  destruct (map_subgraph G ap mp a None) as [ms'| |] eqn:E'; simpl in H; try discriminate.
  2:{ destruct e; cbn in *; discriminate. }
  subst b0. destruct (anti_inner ms' true) eqn:Ei.
  - destruct (IH _ H eq_refl) as [ap' [ms'' [m [H1 H2]]]]. exists ap', ms'', m. split; [right; exact H1|exact H2].
  - assert (Hn : ~ forall b m, In (b, m) ms' -> b = false).
    { intros Hall. apply anti_inner_true in Hall. congruence. }
    assert (Hex : exists m, In (true, m) ms').
    { clear -Hn. induction ms' as [|[b m] t IH].
      - exfalso. apply Hn. intros b m [].
      - destruct b; [exists m; left; reflexivity|].
        destruct IH as [m' Hm'].
        + intros Hall. apply Hn. intros b' m' [E|Hin]; [inversion E; reflexivity|eauto].
        + exists m'. right. exact Hm'. }
    destruct Hex as [m Hm]. exists ap, ms', m. split; [left; reflexivity|]. split; auto.
Qed.

Lemma sorted_desc_In_graph (l : list graph) x : In x (sorted_desc graph_size_ltb l) <-> In x l.
Proof.
  split; apply Permutation_in.
  - clear. induction l as [|y t IH]; simpl; auto. unfold sorted_desc in *. simpl.
    rewrite <- IH at 2. clear IH. generalize (fold_right (insert_desc graph_size_ltb) [] t) as s.
    induction s as [|z s IH]; simpl; auto. destruct (graph_size_ltb y z); auto.
    rewrite IH. apply perm_swap.
  - symmetry. clear. induction l as [|y t IH]; simpl; auto. unfold sorted_desc in *. simpl.
    rewrite <- IH at 2. clear IH. generalize (fold_right (insert_desc graph_size_ltb) [] t) as s.
    induction s as [|z s IH]; simpl; auto. destruct (graph_size_ltb y z); auto.
    rewrite IH. apply perm_swap.
Qed.

(** * is_functional_group in terms of anchored calls *)
Section IFG.
  Variable mp : mapper.
  Variable G : graph.
  Variable a : Z.             (* index *)
  Variable c : fgconfig.
  Variable mx : Z.            (* max_id *)
  Hypothesis pattern_nonempty : fg_pattern c <> [].
  Hypothesis antis_nonempty : forall ap, In ap (fg_anti c) -> ap <> [].

  Definition anchored_true (P : graph) (pa : Z) (pairs : list (Z * Z)) : Prop :=
    exists vis, map_anchored_subgraph G P mp a pa = Ok (true, pairs, vis).
  Definition anchored_false (P : graph) (pa : Z) : Prop :=
    exists pairs vis, map_anchored_subgraph G P mp a pa = Ok (false, pairs, vis).

  Lemma ifg_true idx :
    is_functional_group mp G a c (Some mx) = Good (true, idx) ->
    (exists pa pairs, In pa (nodes (fg_pattern c)) /\ anchored_true (fg_pattern c) pa pairs /\
                      idx = sort_ids (fg_indices_of (fg_group_atoms c) mx pairs) /\
                      In a (fg_indices_of (fg_group_atoms c) mx pairs)) /\
    (forall ap pa, In ap (fg_anti c) -> In pa (nodes ap) -> anchored_false ap pa).
  Proof.
    unfold is_functional_group. simpl.
    destruct (map_subgraph G (fg_pattern c) mp a None) as [ms| |] eqn:E; simpl; try discriminate.
    2:{ destruct e; cbn in *; discriminate. }
    destruct (pattern_loop a (fg_group_atoms c) mx ms []) as [is_fg fg_idx] eqn:Ep.
    destruct is_fg; simpl; [|discriminate].
    destruct (anti_loop mp G a (sorted_desc graph_size_ltb (fg_anti c)) true) as [b|e] eqn:Ea; simpl; [|discriminate].
    intros H. inversion H; subst b idx. clear H.
    pose proof (map_subgraph_inv _ _ _ _ _ pattern_nonempty E) as HF.
    destruct (pattern_loop_true _ _ _ _ _ _ Ep) as [m [Hm [-> Hz]]].
    destruct (Forall2_In_r _ _ _ _ HF Hm) as [pa [Hpa [vis Hvis]]]. simpl in Hvis.
    split.
    - exists pa, m. split; [exact Hpa|]. split; [exists vis; exact Hvis|]. split; [reflexivity|].
      apply zmem_In. exact Hz.
    - destruct (anti_loop_spec _ _ _ _ _ _ Ea) as [HFa Hb].
      destruct (proj1 Hb eq_refl) as [_ Hall].
      intros ap pa' Hap Hpa'.
      assert (Hap' : In ap (sorted_desc graph_size_ltb (fg_anti c))) by (apply sorted_desc_In_graph; exact Hap).
      rewrite Forall_forall in HFa. destruct (HFa _ Hap') as [ms' Ems'].
      pose proof (map_subgraph_inv _ _ _ _ _ (antis_nonempty _ Hap) Ems') as HF'.
      destruct (Forall2_In_l _ _ _ _ HF' Hpa') as [[bb m'] [Hin [vis' Hvis']]]. simpl in Hvis'.
      rewrite (Hall ap ms' bb m' Hap' Ems' Hin) in Hvis'. exists m', vis'. exact Hvis'.
  Qed.

  Lemma ifg_false idx :
    is_functional_group mp G a c (Some mx) = Good (false, idx) ->
    (forall pa pairs, In pa (nodes (fg_pattern c)) -> anchored_true (fg_pattern c) pa pairs ->
                      ~ In a (fg_indices_of (fg_group_atoms c) mx pairs))
    \/ (exists ap pa pairs, In ap (fg_anti c) /\ In pa (nodes ap) /\ anchored_true ap pa pairs).
  Proof.
    unfold is_functional_group. simpl.
    destruct (map_subgraph G (fg_pattern c) mp a None) as [ms| |] eqn:E; simpl; try discriminate.
    2:{ destruct e; cbn in *; discriminate. }
    destruct (pattern_loop a (fg_group_atoms c) mx ms []) as [is_fg fg_idx] eqn:Ep.
    pose proof (map_subgraph_inv _ _ _ _ _ pattern_nonempty E) as HF.
    destruct is_fg; simpl.
    - destruct (anti_loop mp G a (sorted_desc graph_size_ltb (fg_anti c)) true) as [b|e] eqn:Ea; simpl; [|discriminate].
      intros H. inversion H; subst b idx. clear H. right.
      destruct (anti_loop_spec _ _ _ _ _ _ Ea) as [HFa Hb].
      (* some anchored call of some anti-pattern succeeded *)
      pose proof (anti_loop_false_witness mp G a _ _ Ea eq_refl) as Hex.
      destruct Hex as [ap [ms' [m [Hap [Ems' Hm]]]]].
      apply (proj1 (sorted_desc_In_graph _ _)) in Hap.
      pose proof (map_subgraph_inv _ _ _ _ _ (antis_nonempty _ Hap) Ems') as HF'.
      destruct (Forall2_In_r _ _ _ _ HF' Hm) as [pa [Hpa [vis Hvis]]]. simpl in Hvis.
      exists ap, pa, m. split; [exact Hap|]. split; [exact Hpa|]. exists vis. exact Hvis.
    - intros H. inversion H; subst idx. clear H. left.
      intros pa pairs Hpa [vis Hvis] Hin.
      destruct (Forall2_In_l _ _ _ _ HF Hpa) as [[bb m] [Hm [vis' Hvis']]]. simpl in Hvis'.
      rewrite Hvis in Hvis'. inversion Hvis'; subst bb m.
      pose proof (pattern_loop_false _ _ _ _ _ _ Ep pairs Hm) as Hz.
      apply zmem_In in Hin. congruence.
  Qed.
End IFG.

(** * __find_best_node_rec *)
Section FindBest.
  Variable mp : mapper.
  Variable ns : list (tnode (A := fgconfig)).
  Variable G : graph.
  Variable a : Z.
  Variable max_id : option Z.

  (* node i answers (b, idx) for the atom a *)
  Definition node_fg (i : nat) (b : bool) (idx : list Z) : Prop :=
    exists nd, nth_error ns i = Some nd /\ is_functional_group mp G a (n_cfg nd) max_id = Good (b, idx).

  Definition all_false (l : list nat) : Prop := forall x, In x l -> exists idx, node_fg x false idx.

  (* j answers true with the listed atoms [ind], and none of its children does *)
  Definition best_at (j : nat) (ind : list Z) : Prop :=
    node_fg j true ind /\
    exists nd, nth_error ns j = Some nd /\ all_false (n_children nd).

  Definition below_ok (below : tnode (A := fgconfig) -> res (option nat * list Z)) (l : list nat) : Prop :=
    forall i nd rn ri, In i l -> nth_error ns i = Some nd -> below nd = Good (rn, ri) ->
      (rn = None /\ all_false (n_children nd)) \/ (exists j, rn = Some j /\ best_at j ri).

  Lemma fb_loop_spec below : forall l best0 ind0 best ind,
    below_ok below l ->
    fb_loop mp ns G a max_id below l best0 ind0 = Good (best, ind) ->
    (best = best0 /\ ind = ind0 /\ all_false l) \/ (exists j, best = Some j /\ best_at j ind).
  Proof.
    induction l as [|i t IH]; intros best0 ind0 best ind Hb H; simpl in H.
    - inversion H; subst. left. split; auto. split; auto. intros x [].
    - destruct (nth_error ns i) as [nd|] eqn:End; [|discriminate].
      destruct (is_functional_group mp G a (n_cfg nd) max_id) as [[is_fg fg_idx]|e] eqn:Eifg; simpl in H; [|discriminate].
      assert (Hb' : below_ok below t).
      { intros i' nd' rn ri Hi'. apply Hb. right. exact Hi'. }
      destruct is_fg.
      + destruct (below nd) as [[rn ri]|e] eqn:Ebel; simpl in H; [|discriminate].
        destruct (Hb i nd rn ri (or_introl eq_refl) End Ebel) as [[-> Hch]|[j [-> Hj]]].
        * destruct (IH _ _ _ _ Hb' H) as [[-> [-> _]]|Hj]; [|right; exact Hj].
          right. exists i. split; auto. split; [exists nd; auto|]. exists nd. auto.
        * destruct (IH _ _ _ _ Hb' H) as [[-> [-> _]]|Hj']; [|right; exact Hj'].
          right. exists j. auto.
      + destruct (IH _ _ _ _ Hb' H) as [[-> [-> Hall]]|Hj]; [|right; exact Hj].
        left. split; auto. split; auto. intros x [<-|Hx]; [|apply Hall; exact Hx].
        exists fg_idx, nd. auto.
  Qed.

  Lemma find_best_spec : forall fuel l best ind,
    find_best_node_rec fuel mp ns l G a max_id = Good (best, ind) ->
    (best = None /\ all_false l) \/ (exists j, best = Some j /\ best_at j ind).
  Proof.
    induction fuel as [|f IH]; intros l best ind H; simpl in H; [discriminate|].
    destruct (fb_loop_spec _ _ _ _ _ _ (fun i nd rn ri _ _ Hbel => IH _ _ _ Hbel) H) as [[-> [_ Hall]]|Hj]; auto.
  Qed.
End FindBest.

(** * the worklist of __get_functional_groups *)
Lemma remove_first_In x i l : In x l -> x = i \/ In x (remove_first i l).
Proof.
  induction l as [|y t IH]; simpl; [tauto|].
  intros [->|H].
  - destruct (Z.eqb_spec i x) as [->|Hne]; [left; reflexivity|right; left; reflexivity].
  - destruct (Z.eqb_spec i y) as [->|Hy]; [right; exact H|].
    destruct (IH H) as [->|H']; [left; reflexivity|right; right; exact H'].
Qed.

Lemma remove_first_sub x i l : In x (remove_first i l) -> In x l.
Proof.
  induction l as [|y t IH]; simpl; [tauto|].
  destruct (Z.eqb_spec i y); [tauto|]. intros [->|H]; auto.
Qed.

Lemma strike_spec indices : forall cands unident c' u',
  strike indices cands unident = (c', u') ->
  (forall x, In x cands -> In x c' \/ In x indices) /\ (forall x, In x c' -> In x cands).
Proof.
  unfold strike. induction indices as [|i t IH]; intros cands unident c' u' H; simpl in H.
  - inversion H; subst. split; auto.
  - destruct (zmem i cands) eqn:Ec.
    + destruct (IH _ _ _ _ H) as [H1 H2]. split.
      * intros x Hx. destruct (remove_first_In x i cands Hx) as [->|Hx']; [right; left; reflexivity|].
        destruct (H1 x Hx'); auto. right. right. assumption.
      * intros x Hx. eapply remove_first_sub. apply H2. exact Hx.
    + destruct (zmem i unident).
      * destruct (IH _ _ _ _ H) as [H1 H2]. split; auto. intros x Hx. destruct (H1 x Hx); auto. right. right. assumption.
      * destruct (IH _ _ _ _ H) as [H1 H2]. split; auto. intros x Hx. destruct (H1 x Hx); auto. right. right. assumption.
Qed.

Section Worklist.
  Variable mp : mapper.
  Variable tr : tree (A := fgconfig).
  Variable G : graph.
  Variable max_id : option Z.

  Definition FB (x : Z) : res (option nat * list Z) :=
    find_best_node_rec (S (List.length (t_nodes tr))) mp (t_nodes tr) (t_roots tr) G x max_id.

  (* an entry produced for the candidate atom x *)
  Definition entry_from (P : Z -> Prop) (e : string * list Z) : Prop :=
    exists x i nd, P x /\ FB x = Good (Some i, snd e) /\ nth_error (t_nodes tr) i = Some nd /\
                   fst e = fg_name (n_cfg nd) /\ In x (snd e).

  Lemma worklist_spec (P : Z -> Prop) : forall fuel cands unident acc r,
    (forall x, In x cands -> P x) ->
    worklist fuel mp tr G max_id cands unident acc = Good r ->
    (forall e, In e acc -> In e r) /\
    (forall e, In e r -> In e acc \/ entry_from P e) /\
    (forall x, In x cands -> (exists ind, FB x = Good (None, ind)) \/ exists e, In e r /\ In x (snd e)).
  Proof.
    induction fuel as [|f IH]; intros cands unident acc r HP H; [discriminate|].
    cbn [worklist] in H.
    destruct cands as [|atom rest].
    - inversion H; subst. split; auto. split; auto. intros x [].
    - change (find_best_node_rec (S (List.length (t_nodes tr))) mp (t_nodes tr) (t_roots tr) G atom max_id)
        with (FB atom) in H.
      destruct (FB atom) as [[node indices]|e] eqn:Efb; cbn [bind] in H; [|discriminate].
      assert (HP' : forall x, In x rest -> P x) by (intros x Hx; apply HP; right; exact Hx).
      destruct node as [i|].
      + destruct (nth_error (t_nodes tr) i) as [nd|] eqn:End; [|discriminate].
        destruct (zmem atom indices) eqn:Ez; [|discriminate].
        destruct (strike indices rest unident) as [c' u'] eqn:Es.
        destruct (strike_spec _ _ _ _ _ Es) as [Hs1 Hs2].
        destruct (IH c' u' _ r (fun x Hx => HP' x (Hs2 x Hx)) H) as [Hacc [Hent Hcov]].
        assert (Hnew : In (fg_name (n_cfg nd), indices) r) by (apply Hacc; apply in_or_app; right; left; reflexivity).
        split; [intros e He; apply Hacc; apply in_or_app; left; exact He|]. split.
        * intros e He. destruct (Hent e He) as [Hin|Hin]; auto.
          apply in_app_or in Hin. destruct Hin as [Hin|[<-|[]]]; auto.
          right. exists atom, i, nd. simpl. split; [apply HP; left; reflexivity|]. split; auto. split; auto. split; auto.
          apply zmem_In. exact Ez.
        * intros x [<-|Hx].
          -- right. exists (fg_name (n_cfg nd), indices). split; auto. simpl. apply zmem_In. exact Ez.
          -- destruct (Hs1 x Hx) as [Hc|Hi]; [apply Hcov; exact Hc|].
             right. exists (fg_name (n_cfg nd), indices). split; auto.
      + destruct (IH rest _ acc r HP' H) as [Hacc [Hent Hcov]].
        split; auto. split; auto.
        intros x [<-|Hx]; [left; exists indices; exact Efb|apply Hcov; exact Hx].
  Qed.
End Worklist.
