(** C10: split_its satisfies its specification for ALL well-formed ITS graphs, the two round
    trips (re-superimposing the halves; splitting a superposition), soundness of the checkers. *)
From Coq Require Import ZArith List Bool String Lia.
From FGV Require Import Base.Util Base.UtilFacts Base.Bond Base.NX Base.NXFacts.
From FGV Require Import Model.Aam Model.Its Spec.ItsSpec Spec.ItsCheck.
From FGV Require Import Proofs.AamProofs Proofs.NXCopyFacts Proofs.ItsProofs.
Import ListNotations.
Open Scope Z_scope.

(** * _set_rc_edge *)

Lemma edge_label_set_rc_edge g u v b x y :
  edge_label (set_rc_edge g u v b) x y =
  if ematch x y u v then (if b =? 0 then None else Some (Scalar b)) else edge_label g x y.
Proof.
  unfold set_rc_edge. destruct (b =? 0).
  - apply edge_label_remove_edge.
  - apply edge_label_add_edge'.
Qed.

Lemma node_attr_set_rc_edge g u v b m :
  has_node g u = true -> has_node g v = true -> node_attr (set_rc_edge g u v b) m = node_attr g m.
Proof.
  intros Hu Hv. unfold set_rc_edge. destruct (b =? 0).
  - apply node_attr_remove_edge.
  - apply node_attr_add_edge_present; assumption.
Qed.

Lemma nodes_set_rc_edge g u v b :
  has_node g u = true -> has_node g v = true -> nodes (set_rc_edge g u v b) = nodes g.
Proof.
  intros Hu Hv. unfold set_rc_edge. destruct (b =? 0).
  - apply nodes_remove_edge.
  - apply nodes_add_edge_present; assumption.
Qed.

Lemma wf_set_rc_edge g u v b : wf g -> wf (set_rc_edge g u v b).
Proof. intros H. unfold set_rc_edge. destruct (b =? 0); [apply wf_remove_edge|apply wf_add_edge]; exact H. Qed.

(** * split_its as two independent folds *)

Definition side_step (proj : label -> option Z) (g : graph) (e : Z * Z * label) : graph :=
  let '(u, v, lb) := e in
  match proj lb with None => g | Some b => set_rc_edge g u v b end.

Definition split_side (proj : label -> option Z) (es : list (Z * Z * label)) (g0 : graph) : graph :=
  fold_left (side_step proj) es g0.

Lemma split_fold_sides es : forall g h,
  fold_left split_step es (g, h) = (split_side lab_fst es g, split_side lab_snd es h).
Proof.
  unfold split_side. induction es as [|[[u v] lb] t IH]; intros g h; simpl; [reflexivity|].
  destruct lb as [o|a b|a b]; simpl; apply IH.
Qed.

Lemma split_its_sides its :
  split_its its = (split_side lab_fst (edges its) (copy its), split_side lab_snd (edges its) (copy its)).
Proof. unfold split_its. cbv zeta. apply split_fold_sides. Qed.

Section Side.
  Variable proj : label -> option Z.
  Variable its : graph.
  Hypothesis Hwf : wf its.

  Lemma split_side_edge_label es :
    (forall u v l, In (u, v, l) es -> edge_label its u v = Some l) ->
    forall g0, (forall x y, edge_label g0 x y = edge_label its x y) ->
    forall x y, edge_label (split_side proj es g0) x y =
                if existsb (fun e => ematch x y (fst (fst e)) (snd (fst e))) es
                then obind (tr_side proj) (edge_label its x y)
                else edge_label its x y.
  Proof.
    unfold split_side. induction es as [|[[u v] l] es IH] using rev_ind; intros Hes g0 Hg0 x y.
    - simpl. apply Hg0.
    - rewrite fold_left_app, existsb_app. cbn [fold_left existsb fst snd]. rewrite orb_false_r.
      assert (Huv : edge_label its u v = Some l) by (apply Hes; apply in_or_app; right; left; reflexivity).
      assert (IH' := IH (fun u0 v0 l0 Hin => Hes u0 v0 l0 (in_or_app _ _ _ (or_introl Hin))) g0 Hg0 x y).
      assert (Hm : ematch x y u v = true -> edge_label its x y = Some l).
      { intros Hm. apply ematch_true in Hm. destruct Hm as [[-> ->]|[-> ->]]; [exact Huv|].
        destruct Hwf as (_ & _ & Hs). apply Hs. exact Huv. }
      unfold side_step at 1. destruct (proj l) as [b|] eqn:Ep.
      + rewrite edge_label_set_rc_edge. destruct (ematch x y u v) eqn:Em.
        * rewrite orb_true_r, (Hm eq_refl). simpl. unfold tr_side. rewrite Ep. reflexivity.
        * rewrite orb_false_r. exact IH'.
      + rewrite IH'. destruct (ematch x y u v) eqn:Em; [|rewrite orb_false_r; reflexivity].
        rewrite orb_true_r, (Hm eq_refl). simpl. unfold tr_side. rewrite Ep.
        destruct (existsb _ es); reflexivity.
  Qed.

  Lemma split_side_nodes es : forall g0,
    (forall u v l, In (u, v, l) es -> has_node g0 u = true /\ has_node g0 v = true) ->
    (forall m, node_attr (split_side proj es g0) m = node_attr g0 m)
    /\ nodes (split_side proj es g0) = nodes g0.
  Proof.
    unfold split_side. induction es as [|[[u v] l] t IH]; intros g0 Hin; cbn [fold_left]; [split; reflexivity|].
    destruct (Hin u v l (or_introl eq_refl)) as [Hu Hv].
    assert (Hstep : (forall m, node_attr (side_step proj g0 (u, v, l)) m = node_attr g0 m)
                    /\ nodes (side_step proj g0 (u, v, l)) = nodes g0).
    { unfold side_step. destruct (proj l) as [b|]; [|split; reflexivity].
      split; [intros m; apply node_attr_set_rc_edge; assumption|apply nodes_set_rc_edge; assumption]. }
    destruct Hstep as [Hs1 Hs2].
    destruct (IH (side_step proj g0 (u, v, l))) as [H1 H2].
    - intros u' v' l' H'. destruct (Hin u' v' l' (or_intror H')) as [Hu' Hv'].
      rewrite !has_node_node_attr, !Hs1, <- !has_node_node_attr. split; assumption.
    - split; [intros m; rewrite H1; apply Hs1|rewrite H2; exact Hs2].
  Qed.

  Lemma split_side_wf es : forall g0, wf g0 -> wf (split_side proj es g0).
  Proof.
    unfold split_side. induction es as [|[[u v] l] t IH]; intros g0 H0; simpl; [exact H0|].
    apply IH. unfold side_step. destruct (proj l); [apply wf_set_rc_edge|]; exact H0.
  Qed.

  Lemma edges_present u v l :
    In (u, v, l) (edges its) -> has_node (copy its) u = true /\ has_node (copy its) v = true.
  Proof.
    intros Hin. apply in_edges_label in Hin; [|exact Hwf]. rewrite !has_node_copy by exact Hwf.
    eapply wf_edge_nodes; eauto.
  Qed.

  Lemma existsb_edges x y l :
    edge_label its x y = Some l ->
    existsb (fun e => ematch x y (fst (fst e)) (snd (fst e))) (edges its) = true.
  Proof.
    intros H. apply existsb_exists. destruct (edges_complete its x y l Hwf H) as [Hin|Hin].
    - exists (x, y, l). split; [exact Hin|apply ematch_refl].
    - exists (y, x, l). split; [exact Hin|apply ematch_swap].
  Qed.

  Let side := split_side proj (edges its) (copy its).

  Lemma side_node_attr n : node_attr side n = node_attr its n.
  Proof.
    unfold side. rewrite (proj1 (split_side_nodes (edges its) (copy its) edges_present)).
    apply node_attr_copy. exact Hwf.
  Qed.

  Lemma side_nodes : nodes side = nodes its.
  Proof.
    unfold side. rewrite (proj2 (split_side_nodes (edges its) (copy its) edges_present)).
    apply nodes_copy. exact Hwf.
  Qed.

  Lemma side_edge_label u v : edge_label side u v = obind (tr_side proj) (edge_label its u v).
  Proof.
    unfold side. rewrite split_side_edge_label.
    - destruct (edge_label its u v) as [l|] eqn:E.
      + rewrite (existsb_edges u v l E). reflexivity.
      + destruct (existsb _ (edges its)); reflexivity.
    - intros a b l Hin. apply in_edges_label; assumption.
    - intros x y. apply edge_label_copy. exact Hwf.
  Qed.

  Lemma side_wf : wf side.
  Proof. unfold side. apply split_side_wf. apply wf_copy. Qed.

  Lemma side_spec : split_side_spec proj its side.
  Proof. split; [exact side_node_attr|exact side_edge_label]. Qed.
End Side.

Theorem split_its_spec its : wf its -> split_spec its (split_its its).
Proof. intros Hwf. rewrite split_its_sides. split; simpl; apply side_spec; exact Hwf. Qed.

Theorem split_its_nodes its :
  wf its -> nodes (fst (split_its its)) = nodes its /\ nodes (snd (split_its its)) = nodes its.
Proof. intros Hwf. rewrite split_its_sides. split; simpl; apply side_nodes; exact Hwf. Qed.

Theorem split_its_wf its : wf its -> wf (fst (split_its its)) /\ wf (snd (split_its its)).
Proof. intros Hwf. rewrite split_its_sides. split; simpl; apply side_wf. Qed.

(** * soundness of split_okb *)

Lemma split_side_okb_sound proj its g :
  wf its -> split_side_okb proj its g = true -> split_side_spec proj its g.
Proof.
  intros Hwf Hok. unfold split_side_okb in Hok. rewrite !andb_true_iff, !forallb_forall in Hok.
  destruct Hok as [[HN HA] HE].
  assert (Hattr : forall n, node_attr g n = node_attr its n).
  { intros n. destruct (in_dec Z.eq_dec n (nodes its ++ nodes g)) as [Hin|Hni].
    - specialize (HN n Hin). revert HN. apply option_eqb_sound. apply nattr_eqb_sound.
    - rewrite !node_attr_None_not_In; [reflexivity| |]; intros Hx; apply Hni; apply in_or_app; auto. }
  split; [exact Hattr|]. intros u v.
  destruct (in_dec Z.eq_dec u (nodes its)) as [Hu|Hu]; [destruct (in_dec Z.eq_dec v (nodes its)) as [Hv|Hv]|].
  - specialize (HE u Hu). rewrite forallb_forall in HE. specialize (HE v Hv).
    apply label_opt_eqb_sound. exact HE.
  - assert (E1 : edge_label its u v = None).
    { destruct (edge_label its u v) as [l|] eqn:E; [|reflexivity]. exfalso. apply Hv.
      apply has_node_In. eapply wf_edge_nodes; eauto. }
    rewrite E1. simpl. destruct (edge_label g u v) as [l|] eqn:E; [|reflexivity]. exfalso. apply Hv.
    apply has_node_In. pose proof (edge_label_In_adj _ _ _ _ E) as Hin. unfold adj in Hin.
    destruct (alookup u g) as [[a ad]|] eqn:Eu; [|contradiction]. apply alookup_In in Eu.
    specialize (HA _ Eu). simpl in HA. rewrite forallb_forall in HA. apply (HA _ Hin).
  - assert (E1 : edge_label its u v = None).
    { destruct (edge_label its u v) as [l|] eqn:E; [|reflexivity]. exfalso. apply Hu.
      apply has_node_In. eapply edge_label_has_node; eauto. }
    rewrite E1. simpl. destruct (edge_label g u v) as [l|] eqn:E; [|reflexivity]. exfalso. apply Hu.
    apply has_node_In. apply edge_label_has_node in E. rewrite has_node_node_attr in *.
    rewrite <- Hattr. exact E.
Qed.

Theorem split_okb_sound its gh : wf its -> split_okb its gh = true -> split_spec its gh.
Proof.
  intros Hwf Hok. unfold split_okb in Hok. apply andb_true_iff in Hok. destruct Hok as [H1 H2].
  split; apply split_side_okb_sound; assumption.
Qed.

(** * round trips *)

Lemma ids_are_aam_mapped g n k : ids_are_aam g -> (mapped g n k <-> has_node g n = true /\ k = n).
Proof.
  intros Hid. split.
  - intros Hm. split; [eapply mapped_has_node; eauto|]. destruct Hm as (a & Ha & Hk & _).
    destruct (Hid n a Ha) as [Hk' _]. congruence.
  - intros [Hn ->]. apply node_attr_has_node in Hn. destruct Hn as (a & Ha).
    destruct (Hid n a Ha) as [Hk Hpos]. exists a. split; [exact Ha|]. split; [exact Hk|lia].
Qed.

Lemma ids_are_aam_injective g : ids_are_aam g -> aam_injective g.
Proof.
  intros Hid n m k Hn Hm. apply (ids_are_aam_mapped g n k Hid) in Hn.
  apply (ids_are_aam_mapped g m k Hid) in Hm. destruct Hn as [_ ->]. destruct Hm as [_ ->]. reflexivity.
Qed.

Lemma ids_are_aam_ext g g' : (forall n, node_attr g' n = node_attr g n) -> ids_are_aam g -> ids_are_aam g'.
Proof. intros He Hid n a Ha. rewrite He in Ha. apply Hid. exact Ha. Qed.

Lemma ids_are_aam_pos g n : ids_are_aam g -> has_node g n = true -> 0 < n.
Proof. intros Hid Hn. apply node_attr_has_node in Hn. destruct Hn as (a & Ha). apply (Hid n a Ha). Qed.

Lemma oorder_side b : oorder (if b =? 0 then None else Some (Scalar b)) = b.
Proof. destruct (Z.eqb_spec b 0) as [->|H]; reflexivity. Qed.

Lemma combine_sides l :
  combine_orders (tr_side lab_fst l) (tr_side lab_snd l) = norm_label l.
Proof.
  destruct l as [c|a b|a b]; [reflexivity| |];
    unfold tr_side; simpl lab_fst; simpl lab_snd; cbn [norm_label];
    destruct (Z.eqb_spec a 0) as [->|Ha]; destruct (Z.eqb_spec b 0) as [->|Hb]; reflexivity.
Qed.

Theorem resuperimpose : resuperimpose_statement.
Proof.
  intros its Hwf Hid. cbv zeta.
  set (g := fst (split_its its)). set (h := snd (split_its its)).
  destruct (split_its_spec its Hwf) as [[Ag Eg] [Ah Eh]]. fold g in Ag, Eg. fold h in Ah, Eh.
  destruct (split_its_wf its Hwf) as [Wg Wh]. fold g in Wg. fold h in Wh.
  pose proof (ids_are_aam_ext its g Ag Hid) as Idg. pose proof (ids_are_aam_ext its h Ah Hid) as Idh.
  pose proof (ids_are_aam_injective g Idg) as Ig. pose proof (ids_are_aam_injective h Idh) as Ih.
  assert (Hng : forall n, has_node g n = has_node its n) by (intros n; rewrite !has_node_node_attr, Ag; reflexivity).
  assert (Hnh : forall n, has_node h n = has_node its n) by (intros n; rewrite !has_node_node_attr, Ah; reflexivity).
  assert (Hmap : forall n, has_node its n = true -> mapped g n n /\ mapped h n n).
  { intros n Hn. split; [apply (ids_are_aam_mapped g n n Idg)|apply (ids_are_aam_mapped h n n Idh)];
      split; try reflexivity; [rewrite Hng|rewrite Hnh]; exact Hn. }
  pose proof (get_its_nodes_spec g h Wg Wh Ig Ih) as HN.
  assert (Hnodes : forall n, node_attr (get_its g h) n =
                             option_map (fun a => its_node_attr (a_sym a) n (n, n)) (node_attr its n)).
  { intros n. destruct (node_attr its n) as [a|] eqn:Ea; simpl.
    - assert (Hn : has_node its n = true) by (apply node_attr_has_node; exists a; exact Ea).
      destruct (Hmap n Hn) as [Mg Mh]. replace (a_sym a) with (sym_of g n).
      + apply HN. exists n, n. split; [exact Mg|]. split; [exact Mh|reflexivity].
      + unfold sym_of. rewrite Ag, Ea. reflexivity.
    - destruct (node_attr (get_its g h) n) as [x|] eqn:Ex; [|reflexivity]. exfalso.
      apply HN in Ex. destruct Ex as (n' & m' & Mg & _).
      apply (ids_are_aam_mapped g n' n Idg) in Mg. destruct Mg as [Hn' ->].
      rewrite Hng, has_node_node_attr, Ea in Hn'. discriminate. }
  split; [exact Hnodes|]. intros u v.
  destruct (has_node its u) eqn:Hu; [destruct (has_node its v) eqn:Hv|].
  - destruct (Hmap u Hu) as [Mgu Mhu]. destruct (Hmap v Hv) as [Mgv Mhv].
    rewrite (get_its_edge_label g h u v u v u v Wg Wh Ig Ih Mgu Mgv Mhu Mhv
               (ids_are_aam_pos its u Hid Hu) (ids_are_aam_pos its v Hid Hv)).
    rewrite Eg, Eh. destruct (edge_label its u v) as [l|]; [apply combine_sides|reflexivity].
  - assert (E1 : edge_label its u v = None).
    { destruct (edge_label its u v) as [l|] eqn:E; [|reflexivity].
      destruct (wf_edge_nodes its u v l Hwf E) as [_ Hv']. congruence. }
    rewrite E1. simpl. destruct (edge_label (get_its g h) u v) as [lb|] eqn:E; [|reflexivity]. exfalso.
    destruct (get_its_edge_nodes g h u v lb Wg Wh Ig Ih E) as (_ & _ & _ & Hv').
    rewrite has_node_node_attr, Hnodes in Hv'.
    rewrite has_node_node_attr in Hv. destruct (node_attr its v); simpl in *; congruence.
  - assert (E1 : edge_label its u v = None).
    { destruct (edge_label its u v) as [l|] eqn:E; [|reflexivity].
      apply edge_label_has_node in E. congruence. }
    rewrite E1. simpl. destruct (edge_label (get_its g h) u v) as [lb|] eqn:E; [|reflexivity]. exfalso.
    destruct (get_its_edge_nodes g h u v lb Wg Wh Ig Ih E) as (_ & _ & Hu' & _).
    rewrite has_node_node_attr, Hnodes in Hu'.
    rewrite has_node_node_attr in Hu. destruct (node_attr its u); simpl in *; congruence.
Qed.

(* for an ITS as get_its makes it (tuple labels, never (0,0)) the labels come back unchanged *)
Corollary resuperimpose_exact its :
  wf its -> ids_are_aam its -> its_labelled its ->
  forall u v, edge_label (get_its (fst (split_its its)) (snd (split_its its))) u v = edge_label its u v.
Proof.
  intros Hwf Hid Hlab u v. rewrite (proj2 (resuperimpose its Hwf Hid)).
  destruct (edge_label its u v) as [l|] eqn:E; [|reflexivity]. simpl.
  destruct (Hlab u v l E) as (a & b & -> & Hab). simpl.
  destruct (Z.eqb_spec a 0) as [->|Ha]; [|reflexivity].
  destruct (Z.eqb_spec b 0) as [->|Hb]; [|reflexivity]. destruct Hab; congruence.
Qed.

Theorem split_after_its : split_after_its_statement.
Proof.
  intros G H WG WH (IdG & IdH & Hsame) ZG ZH. cbv zeta.
  pose proof (ids_are_aam_injective G IdG) as IG. pose proof (ids_are_aam_injective H IdH) as IH.
  set (X := get_its G H).
  pose proof (get_its_wf G H WG WH IG IH) as WX. fold X in WX.
  destruct (split_its_spec X WX) as [[Ag Eg] [Ah Eh]].
  pose proof (get_its_nodes_spec G H WG WH IG IH) as HN. fold X in HN.
  assert (Hmap : forall n, has_node G n = true -> mapped G n n /\ mapped H n n).
  { intros n Hn. split; [apply (ids_are_aam_mapped G n n IdG)|apply (ids_are_aam_mapped H n n IdH)];
      split; try reflexivity; [|rewrite <- Hsame]; exact Hn. }
  assert (Hnodes : forall n, node_attr X n =
                             option_map (fun a => its_node_attr (a_sym a) n (n, n)) (node_attr G n)).
  { intros n. destruct (node_attr G n) as [a|] eqn:Ea; simpl.
    - assert (Hn : has_node G n = true) by (apply node_attr_has_node; exists a; exact Ea).
      destruct (Hmap n Hn) as [Mg Mh]. replace (a_sym a) with (sym_of G n).
      + apply HN. exists n, n. split; [exact Mg|]. split; [exact Mh|reflexivity].
      + unfold sym_of. rewrite Ea. reflexivity.
    - destruct (node_attr X n) as [x|] eqn:Ex; [|reflexivity]. exfalso.
      apply HN in Ex. destruct Ex as (n' & m' & Mg & _).
      apply (ids_are_aam_mapped G n' n IdG) in Mg. destruct Mg as [Hn' ->].
      rewrite has_node_node_attr, Ea in Hn'. discriminate. }
  assert (Hedges : forall u v, edge_label X u v = combine_orders (edge_label G u v) (edge_label H u v)).
  { intros u v. destruct (has_node G u) eqn:Hu; [destruct (has_node G v) eqn:Hv|].
    - destruct (Hmap u Hu) as [Mgu Mhu]. destruct (Hmap v Hv) as [Mgv Mhv].
      apply (get_its_edge_label G H u v u v u v WG WH IG IH Mgu Mgv Mhu Mhv
               (ids_are_aam_pos G u IdG Hu) (ids_are_aam_pos G v IdG Hv)).
    - assert (E1 : edge_label G u v = None).
      { destruct (edge_label G u v) as [l|] eqn:E; [|reflexivity].
        destruct (wf_edge_nodes G u v l WG E) as [_ Hv']. congruence. }
      assert (E2 : edge_label H u v = None).
      { destruct (edge_label H u v) as [l|] eqn:E; [|reflexivity].
        destruct (wf_edge_nodes H u v l WH E) as [_ Hv']. rewrite <- Hsame in Hv'. congruence. }
      rewrite E1, E2. simpl. destruct (edge_label X u v) as [lb|] eqn:E; [|reflexivity]. exfalso.
      destruct (get_its_edge_nodes G H u v lb WG WH IG IH E) as (_ & _ & _ & Hv'). fold X in Hv'.
      rewrite has_node_node_attr, Hnodes in Hv'.
      rewrite has_node_node_attr in Hv. destruct (node_attr G v); simpl in *; congruence.
    - assert (E1 : edge_label G u v = None).
      { destruct (edge_label G u v) as [l|] eqn:E; [|reflexivity]. apply edge_label_has_node in E. congruence. }
      assert (E2 : edge_label H u v = None).
      { destruct (edge_label H u v) as [l|] eqn:E; [|reflexivity]. apply edge_label_has_node in E.
        rewrite <- Hsame in E. congruence. }
      rewrite E1, E2. simpl. destruct (edge_label X u v) as [lb|] eqn:E; [|reflexivity]. exfalso.
      destruct (get_its_edge_nodes G H u v lb WG WH IG IH E) as (_ & _ & Hu' & _). fold X in Hu'.
      rewrite has_node_node_attr, Hnodes in Hu'.
      rewrite has_node_node_attr in Hu. destruct (node_attr G u); simpl in *; congruence. }
  split; [intros n; rewrite Ag; apply Hnodes|].
  split; [intros n; rewrite Ah, Ag; reflexivity|].
  split; intros u v.
  - rewrite Eg, Hedges. destruct (edge_label G u v) as [l|] eqn:EG.
    + destruct (ZG u v l EG) as (o & -> & Ho). rewrite combine_Some_l. simpl. unfold tr_side. simpl.
      destruct (Z.eqb_spec o 0); [contradiction|reflexivity].
    + destruct (edge_label H u v) as [l|]; reflexivity.
  - rewrite Eh, Hedges. destruct (edge_label H u v) as [l|] eqn:EH.
    + destruct (ZH u v l EH) as (o & -> & Ho).
      destruct (edge_label G u v) as [lg|]; simpl; unfold tr_side; simpl;
        (destruct (Z.eqb_spec o 0); [contradiction|reflexivity]).
    + destruct (edge_label G u v) as [l|] eqn:EG; [|reflexivity].
      simpl. unfold tr_side. simpl. reflexivity.
Qed.

(** * soundness of the round-trip checkers (they decide the round-trip clauses pointwise) *)

Lemma forallb_app_In {A} (f : A -> bool) l1 l2 x :
  forallb f (l1 ++ l2) = true -> In x l1 \/ In x l2 -> f x = true.
Proof. intros H Hin. rewrite forallb_forall in H. apply H. apply in_or_app. exact Hin. Qed.

Theorem resuperimpose_okb_sound its out :
  wf its -> wf out -> resuperimpose_okb its out = true ->
  (forall n, node_attr out n =
             option_map (fun a => its_node_attr (a_sym a) n (n, n)) (node_attr its n))
  /\ (forall u v, edge_label out u v = obind norm_label (edge_label its u v)).
Proof.
  intros Wi Wo Hok. unfold resuperimpose_okb in Hok. apply andb_true_iff in Hok. destruct Hok as [HN HE].
  split.
  - intros n. destruct (in_dec Z.eq_dec n (nodes its ++ nodes out)) as [Hin|Hni].
    + rewrite forallb_forall in HN. specialize (HN n Hin). revert HN.
      apply option_eqb_sound. apply nattr_eqb_sound.
    + rewrite !node_attr_None_not_In; [reflexivity| |]; intros Hx; apply Hni; apply in_or_app; auto.
  - intros u v. rewrite forallb_forall in HE.
    destruct (in_dec Z.eq_dec u (nodes its ++ nodes out)) as [Hu|Hu];
      [destruct (in_dec Z.eq_dec v (nodes its ++ nodes out)) as [Hv|Hv]|].
    + specialize (HE u Hu). rewrite forallb_forall in HE. specialize (HE v Hv).
      apply label_opt_eqb_sound. exact HE.
    + assert (E1 : edge_label its u v = None).
      { destruct (edge_label its u v) as [l|] eqn:E; [|reflexivity]. exfalso. apply Hv. apply in_or_app. left.
        apply has_node_In. eapply wf_edge_nodes; eauto. }
      assert (E2 : edge_label out u v = None).
      { destruct (edge_label out u v) as [l|] eqn:E; [|reflexivity]. exfalso. apply Hv. apply in_or_app. right.
        apply has_node_In. eapply wf_edge_nodes; eauto. }
      rewrite E1, E2. reflexivity.
    + assert (E1 : edge_label its u v = None).
      { destruct (edge_label its u v) as [l|] eqn:E; [|reflexivity]. exfalso. apply Hu. apply in_or_app. left.
        apply has_node_In. eapply edge_label_has_node; eauto. }
      assert (E2 : edge_label out u v = None).
      { destruct (edge_label out u v) as [l|] eqn:E; [|reflexivity]. exfalso. apply Hu. apply in_or_app. right.
        apply has_node_In. eapply edge_label_has_node; eauto. }
      rewrite E1, E2. reflexivity.
Qed.

Theorem split_after_its_okb_sound G H g h :
  wf G -> wf H -> wf g -> wf h -> split_after_its_okb G H g h = true ->
  (forall n, node_attr g n = option_map (fun a => its_node_attr (a_sym a) n (n, n)) (node_attr G n))
  /\ (forall n, node_attr h n = node_attr g n)
  /\ (forall u v, edge_label g u v = edge_label G u v)
  /\ (forall u v, edge_label h u v = edge_label H u v).
Proof.
  intros WG WH Wg Wh Hok. unfold split_after_its_okb in Hok. cbv zeta in Hok.
  set (ns := nodes G ++ nodes H ++ nodes g ++ nodes h) in Hok.
  apply andb_true_iff in Hok. destruct Hok as [HN HE]. rewrite forallb_forall in HN, HE.
  assert (SG : forall x, In x (nodes G) -> In x ns) by (intros x Hx; unfold ns; rewrite !in_app_iff; auto).
  assert (SH : forall x, In x (nodes H) -> In x ns) by (intros x Hx; unfold ns; rewrite !in_app_iff; auto).
  assert (Sg : forall x, In x (nodes g) -> In x ns) by (intros x Hx; unfold ns; rewrite !in_app_iff; auto).
  assert (Sh : forall x, In x (nodes h) -> In x ns) by (intros x Hx; unfold ns; rewrite !in_app_iff; auto).
  assert (HNn : forall n, node_attr g n = option_map (fun a => its_node_attr (a_sym a) n (n, n)) (node_attr G n)
                          /\ node_attr h n = node_attr g n).
  { intros n. destruct (in_dec Z.eq_dec n ns) as [Hin|Hni].
    - specialize (HN n Hin). apply andb_true_iff in HN. destruct HN as [H1 H2]. split.
      + revert H1. apply option_eqb_sound. apply nattr_eqb_sound.
      + revert H2. apply option_eqb_sound. apply nattr_eqb_sound.
    - rewrite (node_attr_None_not_In g n), (node_attr_None_not_In G n), (node_attr_None_not_In h n); auto. }
  assert (HEe : forall u v, edge_label g u v = edge_label G u v /\ edge_label h u v = edge_label H u v).
  { intros u v. destruct (in_dec Z.eq_dec u ns) as [Hu|Hu]; [destruct (in_dec Z.eq_dec v ns) as [Hv|Hv]|].
    - specialize (HE u Hu). rewrite forallb_forall in HE. specialize (HE v Hv).
      apply andb_true_iff in HE. destruct HE as [H1 H2]. split; apply label_opt_eqb_sound; assumption.
    - rewrite (edge_None_outside g ns u v), (edge_None_outside G ns u v),
        (edge_None_outside h ns u v), (edge_None_outside H ns u v); auto.
    - rewrite (edge_None_outside g ns u v), (edge_None_outside G ns u v),
        (edge_None_outside h ns u v), (edge_None_outside H ns u v); auto. }
  split; [intros n; apply HNn|]. split; [intros n; apply HNn|].
  split; intros u v; apply HEe.
Qed.

Lemma ids_are_aamb_sound g : ids_are_aamb g = true -> ids_are_aam g.
Proof.
  unfold ids_are_aamb. rewrite forallb_forall. intros Hall n a Ha. unfold node_attr in Ha.
  destruct (alookup n g) as [[a0 ad]|] eqn:E; [|discriminate]. injection Ha as ->.
  apply alookup_In in E. specialize (Hall _ E). simpl in Hall. apply andb_true_iff in Hall.
  destruct Hall as [H1 H2]. split; [|apply Z.ltb_lt; exact H2].
  revert H1. apply option_eqb_sound. intros x y. apply Z.eqb_eq.
Qed.

(** * the round trips for arbitrary node ids: results are named by map number *)

Lemma mapped_ext g g' n k : (forall m, node_attr g' m = node_attr g m) -> (mapped g' n k <-> mapped g n k).
Proof. intros He. unfold mapped. rewrite He. reflexivity. Qed.

Lemma aam_injective_ext g g' : (forall m, node_attr g' m = node_attr g m) -> aam_injective g -> aam_injective g'.
Proof.
  intros He Hinj n m k Hn Hm. apply (mapped_ext g g' n k He) in Hn. apply (mapped_ext g g' m k He) in Hm.
  apply (Hinj n m k); assumption.
Qed.

(* an ITS with ANY node ids whose nodes carry (injective) map numbers: re-superimposing its
   halves gives the ITS renamed by map number *)
Theorem resuperimpose_by_aam its :
  wf its -> aam_injective its ->
  let its' := get_its (fst (split_its its)) (snd (split_its its)) in
  (forall k a, node_attr its' k = Some a <->
               exists n, mapped its n k /\ a = its_node_attr (sym_of its n) k (n, n))
  /\ (forall n1 n2 k l, mapped its n1 k -> mapped its n2 l -> 0 < k -> 0 < l ->
        edge_label its' k l = obind norm_label (edge_label its n1 n2))
  /\ (forall k l lb, edge_label its' k l = Some lb ->
        exists n1 n2, mapped its n1 k /\ mapped its n2 l /\ 0 < k /\ 0 < l).
Proof.
  intros Hwf Hinj. cbv zeta.
  set (g := fst (split_its its)). set (h := snd (split_its its)).
  destruct (split_its_spec its Hwf) as [[Ag Eg] [Ah Eh]]. fold g in Ag, Eg. fold h in Ah, Eh.
  destruct (split_its_wf its Hwf) as [Wg Wh]. fold g in Wg. fold h in Wh.
  pose proof (aam_injective_ext its g Ag Hinj) as Ig. pose proof (aam_injective_ext its h Ah Hinj) as Ih.
  pose proof (get_its_nodes_spec g h Wg Wh Ig Ih) as HN.
  pose proof (get_its_edges_spec g h Wg Wh Ig Ih) as HE.
  split; [|split].
  - intros k a. split.
    + intros Ha. apply HN in Ha. destruct Ha as (n & m & Mg & Mh & ->). apply (mapped_ext its g n k Ag) in Mg.
      apply (mapped_ext its h m k Ah) in Mh. rewrite (Hinj m n k Mh Mg).
      exists n. split; [exact Mg|]. unfold sym_of. rewrite Ag. reflexivity.
    + intros (n & Mn & ->). apply HN. exists n, n. split; [apply (mapped_ext its g n k Ag); exact Mn|].
      split; [apply (mapped_ext its h n k Ah); exact Mn|]. unfold sym_of. rewrite Ag. reflexivity.
  - intros n1 n2 k l M1 M2 Hk Hl.
    rewrite (get_its_edge_label g h k l n1 n2 n1 n2 Wg Wh Ig Ih); try assumption;
      try (apply (mapped_ext its g _ _ Ag); assumption); try (apply (mapped_ext its h _ _ Ah); assumption).
    rewrite Eg, Eh. destruct (edge_label its n1 n2) as [lb|]; [apply combine_sides|reflexivity].
  - intros k l lb EL. apply HE in EL. destruct EL as (n1 & n2 & _ & _ & G1 & G2 & _ & _ & Hk & Hl & _).
    exists n1, n2. split; [apply (mapped_ext its g n1 k Ag); exact G1|].
    split; [apply (mapped_ext its g n2 l Ag); exact G2|]. split; assumption.
Qed.

(* a mapped reaction with ANY node ids: the two halves of its ITS carry, between the map
   numbers present on both sides, exactly the bonds of G respectively H *)
Theorem split_after_its_by_aam G H :
  wf G -> wf H -> aam_injective G -> aam_injective H -> no_zero_bond G -> no_zero_bond H ->
  let gh := split_its (get_its G H) in
  (forall k, node_attr (fst gh) k = node_attr (get_its G H) k /\ node_attr (snd gh) k = node_attr (get_its G H) k)
  /\ (forall k l n1 n2 m1 m2,
        mapped G n1 k -> mapped G n2 l -> mapped H m1 k -> mapped H m2 l -> 0 < k -> 0 < l ->
        edge_label (fst gh) k l = edge_label G n1 n2 /\ edge_label (snd gh) k l = edge_label H m1 m2).
Proof.
  intros WG WH IG IH ZG ZH. cbv zeta.
  pose proof (get_its_wf G H WG WH IG IH) as WX.
  destruct (split_its_spec (get_its G H) WX) as [[Ag Eg] [Ah Eh]].
  split; [intros k; split; [apply Ag|apply Ah]|].
  intros k l n1 n2 m1 m2 G1 G2 H1 H2 Hk Hl.
  rewrite Eg, Eh, (get_its_edge_label G H k l n1 n2 m1 m2) by assumption.
  destruct (edge_label G n1 n2) as [lg|] eqn:EG; destruct (edge_label H m1 m2) as [lh|] eqn:EH.
  - destruct (ZG _ _ _ EG) as (a & -> & Ha). destruct (ZH _ _ _ EH) as (b & -> & Hb).
    simpl. unfold tr_side. simpl.
    destruct (Z.eqb_spec a 0); [contradiction|]. destruct (Z.eqb_spec b 0); [contradiction|]. split; reflexivity.
  - destruct (ZG _ _ _ EG) as (a & -> & Ha). simpl. unfold tr_side. simpl.
    destruct (Z.eqb_spec a 0); [contradiction|]. split; reflexivity.
  - destruct (ZH _ _ _ EH) as (b & -> & Hb). simpl. unfold tr_side. simpl.
    destruct (Z.eqb_spec b 0); [contradiction|]. split; reflexivity.
  - split; reflexivity.
Qed.
