(** C16 proofs, part 8: the modelled nx.is_connected decides connectedness. *)
From Coq Require Import ZArith List Bool String Lia.
From FGV Require Import Base.Util Base.UtilFacts Base.Bond Base.NX Base.NXFacts Model.Rule Spec.RuleSpec.
Import ListNotations.
Open Scope Z_scope.

Definition add_new (acc : list Z) (ws : list Z) : list Z :=
  fold_left (fun acc2 w => if zmem w acc2 then acc2 else acc2 ++ [w]) ws acc.

Lemma NoDup_snoc' {A} (l : list A) x : NoDup l -> ~ In x l -> NoDup (l ++ [x]).
Proof.
  intros Hnd Hni. induction l as [|y t IH]; simpl.
  - constructor; [intros []|constructor].
  - inversion Hnd as [|? ? Hy Ht]; subst. constructor.
    + rewrite in_app_iff. simpl. intros [H|[H|[]]]; [auto|]. subst. apply Hni. left. reflexivity.
    + apply IH; [exact Ht|]. intros H. apply Hni. right. exact H.
Qed.

Lemma add_new_spec ws : forall acc,
  exists added, add_new acc ws = acc ++ added
    /\ (forall w, In w (acc ++ added) <-> In w acc \/ In w ws)
    /\ (NoDup acc -> NoDup (acc ++ added)).
Proof.
  induction ws as [|x t IH]; intros acc.
  - exists []. rewrite app_nil_r. split; [reflexivity|]. split; [intros w; simpl; tauto|auto].
  - unfold add_new. simpl fold_left. fold (add_new (if zmem x acc then acc else acc ++ [x]) t).
    destruct (zmem x acc) eqn:E.
    + destruct (IH acc) as (added & H1 & H2 & H3). exists added. split; [exact H1|]. split; [|exact H3].
      intros w. rewrite H2. simpl. apply zmem_In in E. split; [tauto|].
      intros [H|[<-|H]]; auto.
    + destruct (IH (acc ++ [x])) as (added & H1 & H2 & H3). exists (x :: added).
      replace (acc ++ x :: added) with ((acc ++ [x]) ++ added) by (rewrite <- app_assoc; reflexivity).
      split; [exact H1|]. split.
      * intros w. rewrite H2, in_app_iff. simpl. tauto.
      * intros Hnd. apply H3. apply zmem_false in E. apply NoDup_snoc'; assumption.
Qed.

Definition expand_from (g : graph) (vs acc : list Z) : list Z :=
  fold_left (fun acc v => add_new acc (neighbors g v)) vs acc.

Lemma expand_from_spec g vs : forall acc,
  exists added, expand_from g vs acc = acc ++ added
    /\ (forall w, In w (acc ++ added) <-> In w acc \/ exists v, In v vs /\ In w (neighbors g v))
    /\ (NoDup acc -> NoDup (acc ++ added)).
Proof.
  induction vs as [|x t IH]; intros acc.
  - exists []. rewrite app_nil_r. split; [reflexivity|]. split; [|auto].
    intros w. split; [auto|]. intros [H|(v & [] & _)]. exact H.
  - unfold expand_from. simpl fold_left. fold (expand_from g t (add_new acc (neighbors g x))).
    destruct (add_new_spec (neighbors g x) acc) as (a1 & A1 & A2 & A3). rewrite A1.
    destruct (IH (acc ++ a1)) as (a2 & B1 & B2 & B3). exists (a1 ++ a2). rewrite app_assoc.
    split; [exact B1|]. split.
    + intros w. rewrite B2, A2. split.
      * intros [[H|H]|(v & Hv & Hw)]; [left; exact H|right; exists x; split; [left; reflexivity|exact H]|].
        right. exists v. split; [right; exact Hv|exact Hw].
      * intros [H|(v & [<-|Hv] & Hw)]; [left; left; exact H|left; right; exact Hw|].
        right. exists v. auto.
    + intros Hnd. apply B3. apply A3. exact Hnd.
Qed.

Lemma expand_unfold g seen : expand g seen = expand_from g seen seen.
Proof. reflexivity. Qed.

Lemma expand_spec g seen :
  exists added, expand g seen = seen ++ added
    /\ (forall w, In w (seen ++ added) <-> In w seen \/ exists v, In v seen /\ In w (neighbors g v))
    /\ (NoDup seen -> NoDup (seen ++ added)).
Proof. rewrite expand_unfold. apply expand_from_spec. Qed.

Lemma sweep_succ g k : forall seen, sweep (S k) g seen = expand g (sweep k g seen).
Proof.
  induction k as [|k IH]; intros seen; [reflexivity|].
  change (sweep (S (S k)) g seen) with (sweep (S k) g (expand g seen)). rewrite IH. reflexivity.
Qed.

Lemma neighbors_has_edge g v w : In w (neighbors g v) <-> has_edge g v w = true.
Proof.
  unfold neighbors, has_edge, edge_label. split.
  - intros H. apply In_alookup in H. destruct H as (l & ->). reflexivity.
  - destruct (alookup w (adj g v)) eqn:E; [|discriminate]. intros _. eapply alookup_Some_key. exact E.
Qed.

Section Conn.
  Variables (x : graph) (s : Z).
  Hypothesis Hwf : wf x.
  Hypothesis Hs : In s (nodes x).

  Definition S_ (k : nat) : list Z := sweep k x [s].

  Lemma S_inv k :
    NoDup (S_ k) /\ In s (S_ k) /\ (forall v, In v (S_ k) -> In v (nodes x) /\ reachable x s v).
  Proof.
    induction k as [|k (I1 & I2 & I3)].
    - split; [constructor; [intros []|constructor]|]. split; [left; reflexivity|].
      intros v [<-|[]]. split; [exact Hs|constructor].
    - unfold S_ in *. rewrite sweep_succ. destruct (expand_spec x (sweep k x [s])) as (added & E1 & E2 & E3).
      rewrite E1. split; [apply E3; exact I1|]. split; [apply in_or_app; left; exact I2|].
      intros v Hv. apply E2 in Hv. destruct Hv as [Hv|(u & Hu & Hv)]; [apply I3; exact Hv|].
      destruct (I3 u Hu) as (_ & Hr). apply neighbors_has_edge in Hv. split.
      + unfold has_edge in Hv. destruct (edge_label x u v) as [l|] eqn:E; [|discriminate].
        destruct (wf_edge_nodes x u v l Hwf E) as (_ & H2). apply has_node_In. exact H2.
      + econstructor; eauto.
  Qed.

  Lemma S_progress k : expand x (S_ k) = S_ k \/ (k + 1 <= List.length (S_ k))%nat.
  Proof.
    induction k as [|k IH]; [right; simpl; lia|].
    assert (Hstep : S_ (S k) = expand x (S_ k)) by (unfold S_; apply sweep_succ).
    destruct IH as [IH|IH].
    - left. rewrite Hstep, IH. exact IH.
    - destruct (expand_spec x (S_ k)) as (added & E1 & _). destruct added as [|a added'].
      + rewrite app_nil_r in E1. left. rewrite Hstep, E1. exact E1.
      + right. rewrite Hstep, E1, app_length. simpl. lia.
  Qed.

  Lemma S_bound k : (List.length (S_ k) <= List.length (nodes x))%nat.
  Proof.
    destruct (S_inv k) as (I1 & _ & I3). apply NoDup_incl_length; [exact I1|].
    intros v Hv. apply (I3 v Hv).
  Qed.

  Lemma S_closed : expand x (S_ (List.length (nodes x))) = S_ (List.length (nodes x)).
  Proof.
    destruct (S_progress (List.length (nodes x))) as [H|H]; [exact H|].
    pose proof (S_bound (List.length (nodes x))). lia.
  Qed.

  Lemma S_complete_aux u v : reachable x u v -> u = s -> In v (S_ (List.length (nodes x))).
  Proof.
    induction 1 as [u|u v w Hr IH He]; intros Heq.
    - subst u. apply (S_inv (List.length (nodes x))).
    - rewrite <- S_closed. destruct (expand_spec x (S_ (List.length (nodes x)))) as (added & E1 & E2 & _).
      rewrite E1. apply E2. right. exists v. split; [apply IH; exact Heq|]. apply neighbors_has_edge. exact He.
  Qed.

  Lemma S_complete v : reachable x s v -> In v (S_ (List.length (nodes x))).
  Proof. intros H. apply (S_complete_aux s v H eq_refl). Qed.

  Lemma sweep_all_iff :
    List.length (S_ (List.length (nodes x))) = List.length (nodes x)
    <-> forall v, In v (nodes x) -> reachable x s v.
  Proof.
    destruct (S_inv (List.length (nodes x))) as (I1 & _ & I3). destruct Hwf as (Hnd & _). split.
    - intros Hlen v Hv.
      assert (Hincl : incl (nodes x) (S_ (List.length (nodes x)))).
      { apply NoDup_length_incl; [exact I1|lia|]. intros u Hu. apply (I3 u Hu). }
      apply (I3 v). apply Hincl. exact Hv.
    - intros Hall. apply Nat.le_antisymm; [apply S_bound|].
      apply NoDup_incl_length; [exact Hnd|]. intros v Hv. apply S_complete. apply Hall. exact Hv.
  Qed.
End Conn.

Theorem is_connected_correct x s e t :
  wf x -> x = (s, e) :: t ->
  (is_connected x = Some true <-> forall v, In v (nodes x) -> reachable x s v).
Proof.
  intros Hwf Hx.
  assert (Hs : In s (nodes x)) by (rewrite Hx; left; reflexivity).
  rewrite <- (sweep_all_iff x s Hwf Hs). unfold S_.
  assert (Hlen : List.length (nodes x) = List.length x) by (unfold nodes; apply map_length).
  rewrite Hlen. subst x. unfold is_connected. split.
  - intros [= H]. apply Nat.eqb_eq in H. exact H.
  - intros H. f_equal. apply Nat.eqb_eq. exact H.
Qed.
