(** C16 proofs, part 4: the reference enumerator [all_monos] lists exactly the embeddings
    (canonical presentation), without repetition. *)
From Coq Require Import ZArith List Bool String Lia Sorting.Permutation.
From FGV Require Import Base.Util Base.UtilFacts Base.Bond Base.NX Base.NXFacts Model.Rule
                        Spec.RuleSpec Proofs.AamProofs.
Import ListNotations.
Open Scope Z_scope.

(* a partial embedding: everything except totality / injectivity on the rule side *)
Definition pemb (L g : graph) (f : mapping) : Prop :=
  NoDup (map fst f)
  /\ (forall u a, In (u, a) f -> In u (nodes g) /\ sym_of g u = sym_of L a)
  /\ (forall u a v b l, In (u, a) f -> In (v, b) f -> edge_label L a b = Some l -> edge_label g u v = Some l).

Lemma string_eqb_sound : forall x y : string, String.eqb x y = true -> x = y.
Proof. intros x y. apply String.eqb_eq. Qed.

Lemma label_eqb_sound : forall x y : label, label_eqb x y = true -> x = y.
Proof. intros x y. apply label_eqb_eq. Qed.

Lemma edge_okb_true L g a b u v :
  edge_okb L g a b u v = true <-> (forall l, edge_label L a b = Some l -> edge_label g u v = Some l).
Proof.
  unfold edge_okb. destruct (edge_label L a b) as [l|].
  - split.
    + intros H l' [= <-]. destruct (edge_label g u v) as [l2|]; simpl in H; [|discriminate].
      apply label_eqb_eq in H. congruence.
    + intros H. rewrite (H l eq_refl). simpl. apply label_eqb_refl.
  - split; [intros _ l H; discriminate|reflexivity].
Qed.

Lemma sym_eqb_true (x y : option string) : option_eqb String.eqb x y = true <-> x = y.
Proof.
  destruct x as [s|], y as [t|]; simpl; try (split; [discriminate|congruence]); [|tauto].
  rewrite String.eqb_eq. split; congruence.
Qed.

Lemma pemb_nil L g : pemb L g [].
Proof. split; [constructor|]. split; [intros u a []|intros u a v b l []]. Qed.

Lemma NoDup_app_l {A} (l1 l2 : list A) : NoDup (l1 ++ l2) -> NoDup l1.
Proof.
  induction l1 as [|x t IH]; simpl; intros H; [constructor|]. inversion H; subst. constructor.
  - intros Hin. apply H2. apply in_or_app. left. exact Hin.
  - apply IH. assumption.
Qed.

Lemma pemb_prefix L g x y : pemb L g (x ++ y) -> pemb L g x.
Proof.
  intros (H1 & H2 & H3). split; [|split].
  - rewrite map_app in H1. apply NoDup_app_l in H1. exact H1.
  - intros u a Hin. apply H2. apply in_or_app. left. exact Hin.
  - intros u a v b l Hu Hv. apply H3; apply in_or_app; left; assumption.
Qed.

Lemma NoDup_snoc {A} (l : list A) x : NoDup l -> ~ In x l -> NoDup (l ++ [x]).
Proof.
  intros Hnd Hni. induction l as [|y t IH]; simpl.
  - constructor; [intros []|constructor].
  - inversion Hnd; subst. constructor.
    + rewrite in_app_iff. simpl. intros [H|[H|[]]]; [auto|]. subst. apply Hni. left. reflexivity.
    + apply IH; [assumption|]. intros H. apply Hni. right. exact H.
Qed.

Lemma NoDup_snoc_inv {A} (l : list A) x : NoDup (l ++ [x]) -> NoDup l /\ ~ In x l.
Proof.
  intros H. split; [apply NoDup_app_l in H; exact H|].
  intros Hin. apply NoDup_remove_2 in H. apply H. rewrite app_nil_r. exact Hin.
Qed.

Lemma compat_sound L g m u a :
  pemb L g m -> In u (nodes g) -> compatb L g m u a = true -> pemb L g (m ++ [(u, a)]).
Proof.
  intros (H1 & H2 & H3) Hu Hc. unfold compatb in Hc. rewrite !andb_true_iff in Hc.
  destruct Hc as (((Hnew & Hsym) & Hself) & Hall).
  apply negb_true_iff in Hnew. apply zmem_false in Hnew. apply sym_eqb_true in Hsym.
  rewrite forallb_forall in Hall. split; [|split].
  - rewrite map_app. simpl. apply NoDup_snoc; assumption.
  - intros u' a' Hin. apply in_app_or in Hin. destruct Hin as [Hin|[Heq|[]]]; [apply H2; exact Hin|].
    injection Heq as <- <-. auto.
  - intros u1 a1 u2 a2 l Hin1 Hin2 Hl.
    apply in_app_or in Hin1. apply in_app_or in Hin2.
    destruct Hin1 as [Hin1|[Heq1|[]]], Hin2 as [Hin2|[Heq2|[]]].
    + eapply H3; eauto.
    + injection Heq2 as <- <-. specialize (Hall _ Hin1). simpl in Hall. apply andb_true_iff in Hall.
      destruct Hall as (_ & Hb). apply (proj1 (edge_okb_true _ _ _ _ _ _) Hb). exact Hl.
    + injection Heq1 as <- <-. specialize (Hall _ Hin2). simpl in Hall. apply andb_true_iff in Hall.
      destruct Hall as (Ha & _). apply (proj1 (edge_okb_true _ _ _ _ _ _) Ha). exact Hl.
    + injection Heq1 as <- <-. injection Heq2 as <- <-.
      apply (proj1 (edge_okb_true _ _ _ _ _ _) Hself). exact Hl.
Qed.

Lemma compat_complete L g m u a : pemb L g (m ++ [(u, a)]) -> compatb L g m u a = true.
Proof.
  intros (H1 & H2 & H3). unfold compatb. rewrite !andb_true_iff.
  assert (Hlast : In (u, a) (m ++ [(u, a)])) by (apply in_or_app; right; left; reflexivity).
  split; [split; [split|]|].
  - apply negb_true_iff. apply zmem_false. rewrite map_app in H1. simpl in H1.
    apply NoDup_snoc_inv in H1. apply H1.
  - apply sym_eqb_true. apply (H2 u a Hlast).
  - apply edge_okb_true. intros l Hl. eapply H3; eauto.
  - apply forallb_forall. intros [u' a'] Hin. apply andb_true_iff.
    assert (Hin' : In (u', a') (m ++ [(u, a)])) by (apply in_or_app; left; exact Hin).
    split; apply edge_okb_true; intros l Hl; eapply H3; eauto.
Qed.

Section Enum.
  Variables (L g : graph).

  Lemma in_extend_iff a t m f :
    In f (extend L g (a :: t) m) <->
    exists u, In u (nodes g) /\ compatb L g m u a = true /\ In f (extend L g t (m ++ [(u, a)])).
  Proof.
    simpl. rewrite in_flat_map. split.
    - intros (u & Hu & Hin). exists u. destruct (compatb L g m u a); [auto|contradiction].
    - intros (u & Hu & Hc & Hin). exists u. rewrite Hc. auto.
  Qed.

  Lemma extend_spec ls : forall m f, pemb L g m ->
    (In f (extend L g ls m) <-> exists f', f = m ++ f' /\ map snd f' = ls /\ pemb L g (m ++ f')).
  Proof.
    induction ls as [|a t IH]; intros m f Hm.
    - simpl. split.
      + intros [<-|[]]. exists []. rewrite app_nil_r. auto.
      + intros (f' & -> & Hs & _). destruct f'; [|discriminate]. rewrite app_nil_r. left. reflexivity.
    - rewrite in_extend_iff. split.
      + intros (u & Hu & Hc & Hin).
        pose proof (compat_sound L g m u a Hm Hu Hc) as Hm'.
        apply (IH _ _ Hm') in Hin. destruct Hin as (f'' & -> & Hs & Hp).
        exists ((u, a) :: f''). rewrite <- app_assoc in *. simpl in *. split; [reflexivity|].
        split; [rewrite Hs; reflexivity|exact Hp].
      + intros (f' & -> & Hs & Hp). destruct f' as [|[u a'] f'']; [discriminate|].
        simpl in Hs. injection Hs as -> Hs.
        replace (m ++ (u, a) :: f'') with ((m ++ [(u, a)]) ++ f'') in * by (rewrite <- app_assoc; reflexivity).
        pose proof (pemb_prefix _ _ _ _ Hp) as Hm'.
        exists u. split; [|split].
        * destruct Hm' as (_ & H2 & _). apply (H2 u a). apply in_or_app. right. left. reflexivity.
        * apply compat_complete. exact Hm'.
        * apply (IH _ _ Hm'). exists f''. auto.
  Qed.

  Lemma extend_prefix ls : forall m f, In f (extend L g ls m) -> exists f', f = m ++ f'.
  Proof.
    induction ls as [|a t IH]; intros m f.
    - simpl. intros [<-|[]]. exists []. rewrite app_nil_r. reflexivity.
    - rewrite in_extend_iff. intros (u & _ & _ & Hin). apply IH in Hin. destruct Hin as (f' & ->).
      exists ((u, a) :: f'). rewrite <- app_assoc. reflexivity.
  Qed.

  Lemma NoDup_app_intro {A} (l1 l2 : list A) :
    NoDup l1 -> NoDup l2 -> (forall x, In x l1 -> In x l2 -> False) -> NoDup (l1 ++ l2).
  Proof.
    induction l1 as [|x t IH]; intros H1 H2 Hd; simpl; [exact H2|].
    inversion H1; subst. constructor.
    - rewrite in_app_iff. intros [H|H]; [contradiction|]. apply (Hd x); [left; reflexivity|exact H].
    - apply IH; [assumption|assumption|]. intros y Hy. apply Hd. right. exact Hy.
  Qed.

  Lemma NoDup_flat_map {A B} (f : A -> list B) l :
    NoDup l -> (forall x, In x l -> NoDup (f x)) ->
    (forall x y z, In x l -> In y l -> x <> y -> In z (f x) -> In z (f y) -> False) ->
    NoDup (flat_map f l).
  Proof.
    induction l as [|x t IH]; intros Hnd Hf Hdis; simpl; [constructor|].
    inversion Hnd as [|? ? Hni Hnd']; subst. apply NoDup_app_intro.
    - apply Hf. left. reflexivity.
    - apply IH; [exact Hnd'|intros y Hy; apply Hf; right; exact Hy|].
      intros y1 y2 z H1 H2. apply Hdis; right; assumption.
    - intros z Hz1 Hz2. apply in_flat_map in Hz2. destruct Hz2 as (y & Hy & Hzy).
      apply (Hdis x y z); [left; reflexivity|right; exact Hy|intros ->; contradiction|exact Hz1|exact Hzy].
  Qed.

  Lemma NoDup_extend ls : forall m, NoDup (nodes g) -> NoDup (extend L g ls m).
  Proof.
    induction ls as [|a t IH]; intros m Hnd; simpl.
    - constructor; [intros []|constructor].
    - apply NoDup_flat_map; [exact Hnd| |].
      + intros u _. destruct (compatb L g m u a); [apply IH; exact Hnd|constructor].
      + intros u1 u2 f _ _ Hne H1 H2.
        destruct (compatb L g m u1 a); [|contradiction]. destruct (compatb L g m u2 a); [|contradiction].
        apply extend_prefix in H1. apply extend_prefix in H2.
        destruct H1 as (f1 & ->). destruct H2 as (f2 & Heq).
        rewrite <- !app_assoc in Heq. apply app_inv_head in Heq. simpl in Heq. congruence.
  Qed.

  (** the enumerator is exact *)
  Theorem all_monos_exact f :
    NoDup (nodes L) -> (In f (all_monos L g) <-> embedding L g f).
  Proof.
    intros HL. unfold all_monos. rewrite (extend_spec (nodes L) [] f (pemb_nil L g)). simpl. split.
    - intros (f' & -> & Hs & (H1 & H2 & H3)). split; [exact Hs|].
      split; [exact H1|]. split; [rewrite Hs; exact HL|]. split; [rewrite Hs; tauto|]. split; [exact H2|exact H3].
    - intros (Hs & H1 & _ & _ & H2 & H3). exists f. split; [reflexivity|]. split; [exact Hs|].
      split; [exact H1|]. split; [exact H2|exact H3].
  Qed.

  Theorem all_monos_NoDup : NoDup (nodes g) -> NoDup (all_monos L g).
  Proof. apply NoDup_extend. Qed.
End Enum.

(** * what the theorems use of a mapping supplied by the oracle *)

Lemma embedding_set_perm L g f m : Permutation m f -> embedding_set L g f -> embedding_set L g m.
Proof.
  intros Hp (H1 & H2 & H3 & H4 & H5).
  assert (Hin : forall p, In p m <-> In p f).
  { intros p. split; apply Permutation_in; [exact Hp|apply Permutation_sym; exact Hp]. }
  split; [|split; [|split; [|split]]].
  - apply (Permutation_NoDup (l := map fst f)); [apply Permutation_map; apply Permutation_sym; exact Hp|exact H1].
  - apply (Permutation_NoDup (l := map snd f)); [apply Permutation_map; apply Permutation_sym; exact Hp|exact H2].
  - intros a. rewrite H3. split; apply Permutation_in; apply Permutation_map;
      [apply Permutation_sym; exact Hp|exact Hp].
  - intros u a Hu. apply H4. apply Hin. exact Hu.
  - intros u a v b l Hu Hv. apply H5; apply Hin; assumption.
Qed.

Lemma monos_valid_embedding L g monos :
  NoDup (nodes L) -> monos_valid L g monos -> forall m, In m monos -> embedding_set L g m.
Proof.
  intros HL (cs & Hf2 & Hperm) m Hin.
  assert (Hex : exists c, In c cs /\ Permutation m c).
  { clear Hperm. induction Hf2 as [|m' c' t t' Hmc Ht IH]; [destruct Hin|].
    destruct Hin as [<-|Hin]; [exists c'; split; [left; reflexivity|exact Hmc]|].
    destruct (IH Hin) as (c & Hc & Hp). exists c. split; [right; exact Hc|exact Hp]. }
  destruct Hex as (c & Hc & Hp). apply (Permutation_in _ Hperm) in Hc.
  apply (all_monos_exact L g c HL) in Hc. destruct Hc as (_ & Hc).
  eapply embedding_set_perm; eauto.
Qed.
