(** Matrix-walk facts for the tensor prune (C18): an entry of I + A + ... + A^r computed with the
    list matrices of Model/Torch.v is positive exactly when there is a walk of length <= r.
    (Walk counts are integers here; the float32 exactness assumption is listed in the harness.) *)
From Coq Require Import ZArith List Bool Lia.
From FGV Require Import Base.Util Base.UtilFacts Model.Torch Spec.TorchSpec Proofs.TorchUtil.
Import ListNotations.
Open Scope Z_scope.

(** * sums *)

Lemma sumf_nonneg f n : (forall w, (w < n)%nat -> 0 <= f w) -> 0 <= sumf f n.
Proof.
  induction n as [|n IH]; intros H; simpl; [lia|].
  assert (0 <= sumf f n) by (apply IH; intros w Hw; apply H; lia).
  assert (0 <= f n) by (apply H; lia). lia.
Qed.

Lemma sumf_pos f n :
  (forall w, (w < n)%nat -> 0 <= f w) -> (0 < sumf f n <-> exists w, (w < n)%nat /\ 0 < f w).
Proof.
  induction n as [|n IH]; intros H; simpl.
  - split; [lia | intros (w & Hw & _); lia].
  - assert (Hn : forall w, (w < n)%nat -> 0 <= f w) by (intros w Hw; apply H; lia).
    pose proof (sumf_nonneg f n Hn) as H0. assert (0 <= f n) by (apply H; lia).
    specialize (IH Hn). split.
    + intros Hpos. destruct (Z_lt_le_dec 0 (f n)) as [Hf|Hf].
      * exists n. split; [lia | exact Hf].
      * assert (Hs : 0 < sumf f n) by lia. apply IH in Hs. destruct Hs as (w & Hw & Hfw).
        exists w. split; [lia | exact Hfw].
    + intros (w & Hw & Hfw). destruct (Nat.eq_dec w n) as [->|Hne]; [lia|].
      assert (0 < sumf f n) by (apply IH; exists w; split; [lia | exact Hfw]). lia.
Qed.

Lemma sum_list_pos (l : list Z) :
  (forall x, In x l -> 0 <= x) -> (0 < fold_right Z.add 0 l <-> exists x, In x l /\ 0 < x).
Proof.
  induction l as [|a t IH]; intros H; simpl.
  - split; [lia | intros (x & [] & _)].
  - assert (Ht : forall x, In x t -> 0 <= x) by (intros x Hx; apply H; right; exact Hx).
    assert (Ha : 0 <= a) by (apply H; left; reflexivity).
    assert (Hs : 0 <= fold_right Z.add 0 t).
    { clear -Ht. induction t as [|b r IHr]; simpl; [lia|].
      assert (0 <= b) by (apply Ht; left; reflexivity).
      assert (0 <= fold_right Z.add 0 r) by (apply IHr; intros x Hx; apply Ht; right; exact Hx). lia. }
    specialize (IH Ht). split.
    + intros Hpos. destruct (Z_lt_le_dec 0 a) as [Hlt|Hle].
      * exists a. split; [left; reflexivity | exact Hlt].
      * assert (Hp : 0 < fold_right Z.add 0 t) by lia. apply IH in Hp. destruct Hp as (x & Hx & Hx0).
        exists x. split; [right; exact Hx | exact Hx0].
    + intros (x & [<-|Hx] & Hx0); [lia|].
      assert (0 < fold_right Z.add 0 t) by (apply IH; exists x; auto). lia.
Qed.

(** * entries of the list matrices *)

Lemma nth_map_seq {A} (F : nat -> A) n i d : (i < n)%nat -> nth i (map F (seq 0 n)) d = F i.
Proof.
  intros Hi. rewrite (nth_indep _ d (F 0%nat)) by (rewrite map_length, seq_length; exact Hi).
  rewrite map_nth, seq_nth by exact Hi. reflexivity.
Qed.

Lemma mget_tab (F : nat -> nat -> Z) n i j :
  (i < n)%nat -> (j < n)%nat ->
  mget (map (fun i0 => map (fun j0 => F i0 j0) (seq 0 n)) (seq 0 n)) i j = F i j.
Proof. intros Hi Hj. unfold mget. rewrite nth_map_seq by exact Hi. apply nth_map_seq. exact Hj. Qed.

Definition mshape (r c : nat) (m : matrix) : Prop :=
  List.length m = r /\ Forall (fun row => List.length row = c) m.

Lemma mshape_tab (F : nat -> nat -> Z) n :
  mshape n n (map (fun i0 => map (fun j0 => F i0 j0) (seq 0 n)) (seq 0 n)).
Proof.
  split; [rewrite map_length, seq_length; reflexivity|].
  apply Forall_forall. intros row Hr. apply in_map_iff in Hr. destruct Hr as (i & <- & _).
  rewrite map_length, seq_length. reflexivity.
Qed.

Lemma mget_matmul n d a i j :
  (i < List.length d)%nat -> (j < n)%nat ->
  mget (matmul n d a) i j = sumf (fun w => mget d i w * mget a w j) n.
Proof.
  intros Hi Hj. unfold matmul, mget at 1.
  set (G := fun row : list Z => map (fun j0 => sumf (fun w => nth w row 0 * mget a w j0) n) (seq 0 n)).
  rewrite (nth_indep _ [] (G [])) by (rewrite map_length; exact Hi).
  rewrite map_nth. unfold G. rewrite nth_map_seq by exact Hj. reflexivity.
Qed.

Lemma mshape_matmul n r d a : List.length d = r -> mshape r n (matmul n d a).
Proof.
  intros Hd. split; [unfold matmul; rewrite map_length; exact Hd|].
  apply Forall_forall. intros row Hr. unfold matmul in Hr. apply in_map_iff in Hr.
  destruct Hr as (x & <- & _). rewrite map_length, seq_length. reflexivity.
Qed.

Lemma vadd_nth x : forall y j, List.length x = List.length y -> nth j (vadd x y) 0 = nth j x 0 + nth j y 0.
Proof.
  induction x as [|a t IH]; intros [|b r] j H; simpl in *; try discriminate.
  - destruct j; reflexivity.
  - destruct j as [|j]; [reflexivity|]. apply IH. lia.
Qed.

Lemma vadd_length x : forall y, List.length x = List.length y -> List.length (vadd x y) = List.length x.
Proof.
  induction x as [|a t IH]; intros [|b r] H; simpl in *; try discriminate; [reflexivity|].
  f_equal. apply IH. lia.
Qed.

Lemma mget_madd r c a : forall b i j,
  mshape r c a -> mshape r c b -> mget (madd a b) i j = mget a i j + mget b i j.
Proof.
  revert r. induction a as [|x t IH]; intros r [|y u] i j [Ha1 Ha2] [Hb1 Hb2]; simpl in *.
  - unfold mget. simpl. destruct i, j; reflexivity.
  - subst r. discriminate.
  - subst r. discriminate.
  - inversion Ha2 as [|? ? Hx Ht]; subst. inversion Hb2 as [|? ? Hy Hu]; subst.
    destruct i as [|i].
    + unfold mget. simpl. apply vadd_nth. congruence.
    + change (mget (vadd x y :: madd t u) (S i) j) with (mget (madd t u) i j).
      change (mget (x :: t) (S i) j) with (mget t i j). change (mget (y :: u) (S i) j) with (mget u i j).
      apply (IH (List.length t)); (split; [simpl in *; lia | assumption]).
Qed.

Lemma mshape_madd r c a : forall b, mshape r c a -> mshape r c b -> mshape r c (madd a b).
Proof.
  revert r. induction a as [|x t IH]; intros r [|y u] [Ha1 Ha2] [Hb1 Hb2]; simpl in *;
    try (subst r; discriminate); [split; [exact Ha1 | constructor]|].
  inversion Ha2 as [|? ? Hx Ht]; subst. inversion Hb2 as [|? ? Hy Hu]; subst.
  destruct (IH (List.length t) u) as [H1 H2]; [split; auto | split; [simpl in Hb1; lia | auto] |].
  split; [simpl; rewrite H1; reflexivity|]. constructor; [|exact H2].
  rewrite vadd_length; congruence.
Qed.

Lemma mget_eye n i j : (i < n)%nat -> (j < n)%nat -> mget (eye n) i j = if Nat.eqb i j then 1 else 0.
Proof. intros Hi Hj. unfold eye. apply (mget_tab (fun i0 j0 => if Nat.eqb i0 j0 then 1 else 0)); assumption. Qed.

(** * positivity of the power sum = bounded walks *)

Section Walks.
  Variable n : nat.
  Variable ei : list (Z * Z).
  Hypothesis Hrange : forall p, In p ei -> 0 <= fst p < Z.of_nat n /\ 0 <= snd p < Z.of_nat n.

  Definition arcP (u v : Z) : Prop := In (u, v) ei.
  Definition WK (k i j : nat) : Prop := walk arcP k (Z.of_nat i) (Z.of_nat j).

  Definition adjm : matrix :=
    map (fun i => map (fun j => if arc_mem (Z.of_nat i) (Z.of_nat j) ei then 1 else 0) (seq 0 n)) (seq 0 n).

  (* every entry is >= 0, and positive exactly when P holds *)
  Definition ent_ok (m : matrix) (P : nat -> nat -> Prop) : Prop :=
    forall i j, (i < n)%nat -> (j < n)%nat -> 0 <= mget m i j /\ (0 < mget m i j <-> P i j).

  Lemma arc_mem_In u v : arc_mem u v ei = true <-> In (u, v) ei.
  Proof.
    unfold arc_mem. rewrite existsb_exists. split.
    - intros ([a b] & Hin & H). simpl in H. apply andb_true_iff in H. destruct H as [H1 H2].
      apply Z.eqb_eq in H1. apply Z.eqb_eq in H2. subst. exact Hin.
    - intros H. exists (u, v). split; [exact H|]. simpl. rewrite !Z.eqb_refl. reflexivity.
  Qed.

  Lemma adjm_ok : ent_ok adjm (fun w j => arcP (Z.of_nat w) (Z.of_nat j)).
  Proof.
    intros i j Hi Hj. unfold adjm.
    rewrite (mget_tab (fun i0 j0 => if arc_mem (Z.of_nat i0) (Z.of_nat j0) ei then 1 else 0)) by assumption.
    unfold arcP. destruct (arc_mem (Z.of_nat i) (Z.of_nat j) ei) eqn:E.
    - split; [lia|]. split; [intros _; apply arc_mem_In; exact E | lia].
    - split; [lia|]. split; [lia|]. intros H. apply arc_mem_In in H. congruence.
  Qed.

  Lemma eye_ok : ent_ok (eye n) (WK 0).
  Proof.
    intros i j Hi Hj. rewrite mget_eye by assumption. unfold WK.
    destruct (Nat.eqb_spec i j) as [->|Hne].
    - split; [lia|]. split; [intros _; constructor | lia].
    - split; [lia|]. split; [lia|]. intros H. inversion H; subst. lia.
  Qed.

  Lemma step_ok d k : List.length d = n -> ent_ok d (WK k) -> ent_ok (matmul n d adjm) (WK (S k)).
  Proof.
    intros Hd Hok i j Hi Hj. rewrite mget_matmul by (try rewrite Hd; assumption).
    assert (Hnn : forall w, (w < n)%nat -> 0 <= mget d i w * mget adjm w j).
    { intros w Hw. destruct (Hok i w Hi Hw) as [H1 _]. destruct (adjm_ok w j Hw Hj) as [H2 _]. nia. }
    split; [apply sumf_nonneg; exact Hnn|].
    rewrite (sumf_pos _ n Hnn). unfold WK. split.
    - intros (w & Hw & Hpos). destruct (Hok i w Hi Hw) as [H1 H1']. destruct (adjm_ok w j Hw Hj) as [H2 H2'].
      assert (0 < mget d i w) by nia. assert (0 < mget adjm w j) by nia.
      econstructor; [apply H1'; eassumption | apply H2'; assumption].
    - intros H. inversion H as [|k0 u w v Hwalk Harc]; subst.
      destruct (Hrange _ Harc) as [Hw _]. simpl in Hw.
      exists (Z.to_nat w). assert (Hwn : (Z.to_nat w < n)%nat) by lia. split; [exact Hwn|].
      destruct (Hok i (Z.to_nat w) Hi Hwn) as [H1 H1']. destruct (adjm_ok (Z.to_nat w) j Hwn Hj) as [H2 H2'].
      assert (0 < mget d i (Z.to_nat w)).
      { apply H1'. unfold WK. rewrite Z2Nat.id by lia. exact Hwalk. }
      assert (0 < mget adjm (Z.to_nat w) j).
      { apply H2'. rewrite Z2Nat.id by lia. exact Harc. }
      nia.
  Qed.

  Lemma sum_ok s d k :
    mshape n n s -> mshape n n d ->
    ent_ok s (fun i j => exists q, (q <= k)%nat /\ WK q i j) -> ent_ok d (WK (S k)) ->
    ent_ok (madd s d) (fun i j => exists q, (q <= S k)%nat /\ WK q i j).
  Proof.
    intros Hs Hd Hsok Hdok i j Hi Hj. rewrite (mget_madd n n s d i j Hs Hd).
    destruct (Hsok i j Hi Hj) as [H1 H1']. destruct (Hdok i j Hi Hj) as [H2 H2'].
    split; [lia|]. split.
    - intros Hpos. destruct (Z_lt_le_dec 0 (mget s i j)) as [Hlt|Hle].
      + apply H1' in Hlt. destruct Hlt as (q & Hq & Hw). exists q. split; [lia | exact Hw].
      + exists (S k). split; [lia|]. apply H2'. lia.
    - intros (q & Hq & Hw). destruct (Nat.eq_dec q (S k)) as [->|Hne].
      + assert (0 < mget d i j) by (apply H2'; exact Hw). lia.
      + assert (0 < mget s i j) by (apply H1'; exists q; split; [lia | exact Hw]). lia.
  Qed.

  Lemma power_sum_ok : forall k m d s,
    mshape n n d -> mshape n n s ->
    ent_ok d (WK m) -> ent_ok s (fun i j => exists q, (q <= m)%nat /\ WK q i j) ->
    ent_ok (power_sum n adjm k d s) (fun i j => exists q, (q <= m + k)%nat /\ WK q i j).
  Proof.
    induction k as [|k IH]; intros m d s Hd Hs Hdok Hsok.
    - simpl. replace (m + 0)%nat with m by lia. exact Hsok.
    - simpl. replace (m + S k)%nat with (S m + k)%nat by lia.
      destruct Hd as [Hd1 Hd2].
      assert (Hd' : mshape n n (matmul n d adjm)) by (apply mshape_matmul; exact Hd1).
      apply IH.
      + exact Hd'.
      + apply mshape_madd; assumption.
      + apply step_ok; assumption.
      + apply sum_ok; try assumption; try (apply step_ok; assumption).
  Qed.

  Theorem power_sum_walks r :
    ent_ok (power_sum n adjm r (eye n) (eye n)) (fun i j => exists q, (q <= r)%nat /\ WK q i j).
  Proof.
    apply (power_sum_ok r 0 (eye n) (eye n)).
    - unfold eye. apply (mshape_tab (fun i0 j0 => if Nat.eqb i0 j0 then 1 else 0)).
    - unfold eye. apply (mshape_tab (fun i0 j0 => if Nat.eqb i0 j0 then 1 else 0)).
    - exact eye_ok.
    - intros i j Hi Hj. destruct (eye_ok i j Hi Hj) as [H1 H2]. split; [exact H1|].
      rewrite H2. split.
      + intros H. exists 0%nat. split; [lia | exact H].
      + intros (q & Hq & H). assert (q = 0%nat) by lia. subst. exact H.
  Qed.
End Walks.
