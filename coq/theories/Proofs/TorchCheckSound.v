(** C18: soundness of the decidable checkers that the harness runs on implementation outputs. *)
From Coq Require Import ZArith List Bool String Lia.
From FGV Require Import Base.Util Base.UtilFacts Base.Bond Base.NX Base.NXFacts
  Model.Torch Spec.PeriodicRef Spec.TorchSpec Spec.TorchCheck
  Proofs.TorchUtil Proofs.TorchRound Proofs.TorchBatch Proofs.TorchInduced Proofs.WalkT Proofs.TorchPrune.
Import ListNotations.
Open Scope Z_scope.

(** * equality tests *)

Lemma opt_eqb_sound {A} (eqb : A -> A -> bool) :
  (forall a b, eqb a b = true -> a = b) -> forall x y, option_eqb eqb x y = true -> x = y.
Proof. intros H [a|] [b|]; simpl; try discriminate; auto. intros E. f_equal. auto. Qed.

Lemma lst_eqb_sound {A} (eqb : A -> A -> bool) :
  (forall a b, eqb a b = true -> a = b) -> forall x y, list_eqb eqb x y = true -> x = y.
Proof.
  intros H. induction x as [|a x IH]; intros [|b y]; simpl; try discriminate; auto.
  intros E. apply andb_true_iff in E. destruct E as [E1 E2]. f_equal; auto.
Qed.

Lemma zeqb_sound a b : (a =? b) = true -> a = b.
Proof. apply Z.eqb_eq. Qed.

Lemma zrow_eqb_sound a b : zrow_eqb a b = true -> a = b.
Proof. apply lst_eqb_sound. exact zeqb_sound. Qed.

Lemma zpair_eqb_sound' a b : zpair_eqb a b = true -> a = b.
Proof.
  destruct a, b. unfold zpair_eqb. simpl. intros E. apply andb_true_iff in E. destruct E as [E1 E2].
  apply Z.eqb_eq in E1. apply Z.eqb_eq in E2. congruence.
Qed.

Lemma tdata_eqb_sound a b : tdata_eqb a b = true -> a = b.
Proof.
  destruct a as [x1 e1 a1 b1], b as [x2 e2 a2 b2]. unfold tdata_eqb. simpl.
  rewrite !andb_true_iff. intros [[[H1 H2] H3] H4].
  apply (lst_eqb_sound _ zrow_eqb_sound) in H1.
  apply (lst_eqb_sound _ zpair_eqb_sound') in H2.
  apply (opt_eqb_sound _ (lst_eqb_sound _ zrow_eqb_sound)) in H3.
  apply (opt_eqb_sound _ (lst_eqb_sound _ zeqb_sound)) in H4. congruence.
Qed.

Lemma nattr_eqb_sound a b : nattr_eqb a b = true -> a = b.
Proof.
  destruct a as [s1 m1 l1 i1 x1], b as [s2 m2 l2 i2 x2]. unfold nattr_eqb. simpl.
  rewrite !andb_true_iff. intros [[[[H1 H2] H3] H4] H5].
  apply (opt_eqb_sound _ (fun x y => proj1 (String.eqb_eq x y))) in H1.
  apply (opt_eqb_sound _ zeqb_sound) in H2.
  apply (opt_eqb_sound _ (lst_eqb_sound _ (fun x y => proj1 (String.eqb_eq x y)))) in H3.
  apply (opt_eqb_sound _ Bool.eqb_prop) in H4.
  apply (opt_eqb_sound _ (fun x y => zpair_eqb_sound' x y)) in H5. congruence.
Qed.

Lemma label_opt_eqb_sound x y : option_eqb label_eqb x y = true -> x = y.
Proof. apply opt_eqb_sound. intros a b. apply label_eqb_eq. Qed.

Lemma all2b_Forall2 {A B} (f : A -> B -> bool) (R : A -> B -> Prop) :
  (forall a b, f a b = true -> R a b) -> forall x y, all2b f x y = true -> Forall2 R x y.
Proof.
  intros H. induction x as [|a x IH]; intros [|b y]; simpl; try discriminate; [constructor|].
  intros E. apply andb_true_iff in E. destruct E. constructor; auto.
Qed.

Lemma forallb_seq (P : nat -> bool) n : forallb P (seq 0 n) = true -> forall i, (i < n)%nat -> P i = true.
Proof. intros H i Hi. rewrite forallb_forall in H. apply H. apply in_seq. lia. Qed.

(** * the decided domain is the domain of the theorems *)

Lemma adj_of_entry g u a ad : wf g -> In (u, (a, ad)) g -> adj g u = ad.
Proof. intros (Hnd & _) H. apply (In_entry_adj g u a ad Hnd H). Qed.

Theorem to_torch_domainb_sound g :
  to_torch_domainb g = true -> wf g /\ tabulated g /\ pair_labelled g.
Proof.
  unfold to_torch_domainb. rewrite !andb_true_iff. intros [[H1 H2] H3].
  pose proof (wfb_wf g H1) as Hwf. split; [exact Hwf|]. split.
  - intros n a ad Hin. unfold tabulatedb in H2. rewrite forallb_forall in H2. specialize (H2 _ Hin).
    simpl in H2. destruct (a_sym a) as [s|]; [|discriminate].
    destruct (ref_atomic_number s) as [z|] eqn:Ez; [|discriminate]. eauto.
  - intros u v l Hl. pose proof (edge_label_In_adj g u v l Hl) as Hin.
    unfold adj in Hin. destruct (alookup u g) as [[a ad]|] eqn:E; [|contradiction].
    apply alookup_In in E. unfold pair_labelledb in H3. rewrite forallb_forall in H3.
    specialize (H3 _ E). simpl in H3. rewrite forallb_forall in H3. apply (H3 _ Hin).
Qed.

Theorem its_domainb_sound g : its_domainb g = true -> its_domain g.
Proof.
  unfold its_domainb. rewrite andb_true_iff. intros [H1 H2].
  destruct (to_torch_domainb_sound g H1) as (Hwf & Htab & Hpl).
  split; [exact Hwf|]. split; [exact Htab|]. split; [exact Hpl|].
  unfold has_edgeb in H2. apply existsb_exists in H2. destruct H2 as ([u [a ad]] & Hin & Had).
  simpl in Had. destruct ad as [|[v l] r]; [discriminate|].
  assert (Hl : edge_label g u v = Some l).
  { apply In_adj_edge_label; [exact Hwf|]. rewrite (adj_of_entry g u a _ Hwf Hin). left. reflexivity. }
  intros Hnil. destruct (edges_complete g u v l Hwf Hl) as [H|H]; rewrite Hnil in H; contradiction.
Qed.

(** * round trip *)

Theorem roundtrip_graph_okb_sound g g' : roundtrip_graph_okb g g' = true -> roundtrip_spec g g'.
Proof.
  unfold roundtrip_graph_okb. cbv zeta. rewrite !andb_true_iff. intros [[[H1 H2] H3] H4].
  apply (lst_eqb_sound _ zeqb_sound) in H1. pose proof (wfb_wf g' H4) as Hwf'.
  unfold roundtrip_spec. cbv zeta. split; [exact H1|]. split; [|split; [|split]].
  - intros i Hi. pose proof (forallb_seq _ _ H2 i Hi) as H. simpl in H.
    destruct (sym_of g (nth i (nodes g) 0)) as [s|]; [|discriminate].
    exists s. split; [reflexivity|]. apply (opt_eqb_sound _ nattr_eqb_sound) in H. exact H.
  - intros i j Hi Hj. pose proof (forallb_seq _ _ H3 i Hi) as H. simpl in H.
    pose proof (forallb_seq _ _ H j Hj) as H'. simpl in H'. apply label_opt_eqb_sound. exact H'.
  - intros x y l Hl. destruct (wf_edge_nodes g' x y l Hwf' Hl) as [Hx Hy]. split; apply has_node_In; assumption.
  - destruct Hwf' as (_ & H & _). exact H.
Qed.

Theorem roundtrip_okb_sound g g' :
  its_domainb g = true -> roundtrip_okb g (Ok (One g')) = true -> roundtrip_spec g g'.
Proof.
  intros Hd. unfold roundtrip_okb. rewrite Hd. apply roundtrip_graph_okb_sound.
Qed.

(* outside the domain the checker demands a refusal *)
Theorem roundtrip_okb_refuses g out :
  its_domainb g = false -> roundtrip_okb g out = true -> exists e, out = Err e.
Proof.
  intros Hd. unfold roundtrip_okb. rewrite Hd. destruct out; simpl; [discriminate | eauto].
Qed.

(** * batches *)

Lemma batch_tensor_of_spec ms : batch_spec ms (batch_tensor_of ms).
Proof. unfold batch_spec, batch_tensor_of. simpl. auto. Qed.

Theorem batch_okb_sound gs ms b gs' :
  forallb its_domainb gs = true -> forallb (fun g : graph => (2 <=? List.length g)%nat) gs = true -> gs <> [] ->
  batch_okb gs ms (Ok b) (Ok (Many gs')) = true ->
  batch_spec ms b /\ Forall2 roundtrip_spec gs gs'.
Proof.
  intros H1 H2 Hne. unfold batch_okb. rewrite H1, H2. destruct gs as [|g0 r]; [contradiction|].
  cbn [is_nil negb andb]. rewrite !andb_true_iff. intros [[_ Hb] Hg].
  apply tdata_eqb_sound in Hb. subst b. split; [apply batch_tensor_of_spec|].
  revert Hg. apply all2b_Forall2. apply roundtrip_graph_okb_sound.
Qed.

(** * induced subgraphs *)

Lemma is_nil_false {A} (l : list A) : negb (is_nil l) = true -> l <> [].
Proof. destruct l; simpl; [discriminate | intros _ H; discriminate]. Qed.

Lemma zin_rangeb_spec n v : zin_rangeb n v = true <-> 0 <= v < Z.of_nat n.
Proof. unfold zin_rangeb. rewrite andb_true_iff, Z.leb_le, Z.ltb_lt. tauto. Qed.

Lemma in_rangeb_spec n p : in_rangeb n p = true <-> 0 <= fst p < Z.of_nat n /\ 0 <= snd p < Z.of_nat n.
Proof. unfold in_rangeb. rewrite !andb_true_iff, !Z.leb_le, !Z.ltb_lt. tauto. Qed.

Lemma cols_in_rangeb_sound t : forallb (in_rangeb (List.length (t_x t))) (t_ei t) = true -> cols_in_range t.
Proof. intros H p Hp. rewrite forallb_forall in H. apply in_rangeb_spec. apply H. exact Hp. Qed.

Lemma ea_lenb_sound t :
  ea_lenb t = true -> t_ea t = None \/ exists ea, t_ea t = Some ea /\ List.length ea = List.length (t_ei t).
Proof.
  unfold ea_lenb. destruct (t_ea t) as [ea|]; [|auto]. intros H. right. exists ea. split; [reflexivity|].
  apply Nat.eqb_eq. exact H.
Qed.

(* on the checker's domain the model computes the tensor form of the induced subgraph ... *)
Theorem node_induced_domain_model t ns :
  node_induced_domainb t ns = true -> node_induced_subgraph t ns = Ok (induced_tensor t ns).
Proof.
  unfold node_induced_domainb. rewrite !andb_true_iff. intros [[[[H1 H2] H3] H4] H5].
  apply node_induced_ok.
  - apply nodupb_NoDup. exact H1.
  - apply is_nil_false. exact H2.
  - intros v Hv. rewrite forallb_forall in H3. apply zin_rangeb_spec. apply H3. exact Hv.
  - destruct (ea_lenb_sound t H4) as [Hn|(ea & Hs & Hl)]; [left; exact Hn|].
    right. exists ea. split; [exact Hs|]. split; [exact Hl|]. rewrite Hs in H5. simpl in H5.
    apply is_nil_false. exact H5.
Qed.

(* ... and an implementation output accepted by the checker is that tensor form *)
Theorem node_induced_okb_sound t ns t' :
  node_induced_domainb t ns = true -> node_induced_okb t ns (Ok t') = true -> t' = induced_tensor t ns.
Proof. intros Hd. unfold node_induced_okb. rewrite Hd. apply tdata_eqb_sound. Qed.

Lemma chosen_nodes_spec t es v :
  cols_in_range t -> (forall e, In e es -> 0 <= e < Z.of_nat (List.length (t_ei t))) ->
  (In v (chosen_nodes t es) <->
   exists e, In e es /\ exists p, nth_error (t_ei t) (Z.to_nat e) = Some p /\ (v = fst p \/ v = snd p)).
Proof.
  intros Hr Hes. unfold chosen_nodes. rewrite filter_In, znats_In, existsb_exists. split.
  - intros (_ & e & He & Hv). exists e. split; [exact He|]. eexists. split.
    + apply (nth_error_nth' (t_ei t) (0, 0)). specialize (Hes e He). lia.
    + cbv zeta in Hv. apply orb_true_iff in Hv. rewrite !Z.eqb_eq in Hv. destruct Hv as [Hv|Hv]; [left|right]; symmetry; exact Hv.
  - intros (e & He & p & Hp & Hv).
    assert (Hnth : nth (Z.to_nat e) (t_ei t) (0, 0) = p) by (apply nth_error_nth; exact Hp).
    split.
    + apply nth_error_In in Hp. destruct (Hr p Hp) as [H1 H2]. destruct Hv as [->| ->]; assumption.
    + exists e. split; [exact He|]. cbv zeta. rewrite Hnth. apply orb_true_iff. rewrite !Z.eqb_eq.
      destruct Hv; [left|right]; congruence.
Qed.

Theorem edge_induced_okb_sound t es t' :
  edge_induced_domainb t es = true -> edge_induced_okb t es (Ok t') = true -> edge_induced_spec t es t'.
Proof.
  intros Hd. unfold edge_induced_okb. rewrite Hd. intros H. apply tdata_eqb_sound in H. subst t'.
  unfold edge_induced_domainb in Hd. rewrite !andb_true_iff in Hd. destruct Hd as [[[H1 H2] H3] H4].
  pose proof (cols_in_rangeb_sound t H3) as Hr.
  assert (Hes : forall e, In e es -> 0 <= e < Z.of_nat (List.length (t_ei t))).
  { intros e He. rewrite forallb_forall in H2. apply zin_rangeb_spec. apply H2. exact He. }
  exists (chosen_nodes t es). unfold edge_induced_tensor. cbn [t_x t_ei t_ea t_batch].
  split; [apply ssorted_ascending; unfold chosen_nodes; apply ssorted_filter; apply (ssorted_zr 0)|].
  split; [intros v; apply chosen_nodes_spec; assumption|]. repeat split; reflexivity.
Qed.

(** * pruning: the breadth-first ball is "within k steps" *)

Lemma ball_spec ei k s v :
  In v (ball ei k s) <-> exists u q, In u s /\ (q <= k)%nat /\ walk (fun a b => In (a, b) ei) q u v.
Proof.
  revert v. induction k as [|k IH]; intros v; simpl.
  - split.
    + intros H. exists v, 0%nat. split; [exact H|]. split; [lia | constructor].
    + intros (u & q & Hu & Hq & Hw). assert (q = 0%nat) by lia. subst. inversion Hw; subst. exact Hu.
  - rewrite in_app_iff. split.
    + intros [H|H].
      * apply IH in H. destruct H as (u & q & Hu & Hq & Hw). exists u, q. split; [exact Hu|]. split; [lia | exact Hw].
      * apply in_map_iff in H. destruct H as ([a b] & <- & Hf). apply filter_In in Hf. destruct Hf as [Hin Hm].
        simpl in Hm. apply zmem_In in Hm. apply IH in Hm. destruct Hm as (u & q & Hu & Hq & Hw).
        exists u, (S q). split; [exact Hu|]. split; [lia|]. econstructor; [exact Hw | exact Hin].
    + intros (u & q & Hu & Hq & Hw). destruct (Nat.eq_dec q (S k)) as [->|Hne].
      * right. inversion Hw as [|k0 u0 w v0 Hw' Harc]; subst.
        apply in_map_iff. exists (w, v). split; [reflexivity|]. apply filter_In. split; [exact Harc|].
        simpl. apply zmem_In. apply IH. exists u, k. split; [exact Hu|]. split; [lia | exact Hw'].
      * left. apply IH. exists u, q. split; [exact Hu|]. split; [lia | exact Hw].
Qed.

Theorem prune_okb_sound t start radius t' :
  prune_domainb t start = true -> prune_okb t start radius (Ok t') = true -> prune_spec t start radius t'.
Proof.
  intros Hd. unfold prune_okb. rewrite Hd. intros H. apply tdata_eqb_sound in H. subst t'.
  exists (kept_nodes t start radius). split; [|split; [|reflexivity]].
  - apply ssorted_ascending. unfold kept_nodes. apply ssorted_filter. apply (ssorted_zr 0).
  - intros v. unfold kept_nodes. rewrite filter_In, znats_In, zmem_In, ball_spec. unfold reach, arc_of.
    split.
    + intros (Hv & u & q & Hu & Hq & Hw). split; [exact Hv|]. exists u, q. auto.
    + intros (Hv & u & q & Hu & Hq & Hw). split; [exact Hv|]. exists u, q. auto.
Qed.

(* on the checker's domain the model satisfies the prune specification *)
Theorem prune_domain_model t start radius :
  prune_domainb t start = true -> exists t', prune t start radius = Ok t' /\ prune_spec t start radius t'.
Proof.
  unfold prune_domainb. rewrite !andb_true_iff. intros [[H1 H2] H3].
  apply torch_prune_ok.
  - apply cols_in_rangeb_sound. exact H1.
  - intros s Hs. rewrite forallb_forall in H2. apply zin_rangeb_spec. apply H2. exact Hs.
  - apply ea_lenb_sound. exact H3.
Qed.

Theorem edge_induced_domain_model t es :
  edge_induced_domainb t es = true -> exists t', edge_induced_subgraph t es = Ok t' /\ edge_induced_spec t es t'.
Proof.
  unfold edge_induced_domainb. rewrite !andb_true_iff. intros [[[H1 H2] H3] H4].
  apply edge_induced_ok.
  - apply is_nil_false. exact H1.
  - intros e He. rewrite forallb_forall in H2. apply zin_rangeb_spec. apply H2. exact He.
  - apply cols_in_rangeb_sound. exact H3.
  - apply ea_lenb_sound. exact H4.
Qed.

(* the specification determines the pruned tensors: two outputs that satisfy it are equal *)
Lemma ascending_unique l1 : forall l2,
  ssorted l1 -> ssorted l2 -> (forall v, In v l1 <-> In v l2) -> l1 = l2.
Proof.
  induction l1 as [|a t IH]; intros [|b u] H1 H2 Hiff.
  - reflexivity.
  - exfalso. apply (proj2 (Hiff b)). left. reflexivity.
  - exfalso. apply (proj1 (Hiff a)). left. reflexivity.
  - destruct H1 as [Ha Ht]. destruct H2 as [Hb Hu].
    assert (a = b).
    { destruct (proj1 (Hiff a) (or_introl eq_refl)) as [->|Hin]; [reflexivity|].
      destruct (proj2 (Hiff b) (or_introl eq_refl)) as [->|Hin']; [reflexivity|].
      specialize (Ha b Hin'). specialize (Hb a Hin). lia. }
    subst b. f_equal. apply IH; try assumption.
    intros v. split; intros Hv.
    + destruct (proj1 (Hiff v) (or_intror Hv)) as [->|H]; [specialize (Ha v Hv); lia | exact H].
    + destruct (proj2 (Hiff v) (or_intror Hv)) as [->|H]; [specialize (Hb v Hv); lia | exact H].
Qed.
