(** The facts about [Model.Permute.permute] that the matcher theorems use, proved here so
    that they need no premise:
    - [permute_sound]        : every mapper, every returned assignment is [assign_ok];
    - [permute_total_nil]    : without can_map_to_nothing no position is mapped to nothing;
    - [permute_complete_nil] : without can_map_to_nothing every admissible total assignment of a
                               non-empty pattern list is returned.
    (The full characterisation of permute, including can_map_to_nothing, is property C08.) *)
From Coq Require Import ZArith List Bool String Lia Permutation.
From FGV Require Import Base.Util Base.UtilFacts Base.Sym Model.Permute Spec.Embedding Spec.PermuteAssign
  Proofs.PermuteShape.
Import ListNotations.
Open Scope Z_scope.
Open Scope list_scope.

Lemma filter_all' {A} (f : A -> bool) l : (forall x, In x l -> f x = true) -> filter f l = l.
Proof.
  induction l as [|x t IH]; simpl; intros H; [reflexivity|].
  rewrite (H x (or_introl eq_refl)). f_equal. apply IH. intros; apply H; right; assumption.
Qed.

Lemma NoDup_app_intro {A} (l1 l2 : list A) :
  NoDup l1 -> NoDup l2 -> (forall x, In x l1 -> In x l2 -> False) -> NoDup (l1 ++ l2).
Proof.
  induction l1 as [|x t IH]; simpl; intros H1 H2 Hd; [exact H2|].
  inversion H1 as [|? ? Hni Hnd]; subst. constructor.
  - rewrite in_app_iff. intros [H|H]; [contradiction | apply (Hd x); auto].
  - apply IH; [exact Hnd | exact H2 | intros y Hy1 Hy2; apply (Hd y); auto].
Qed.

Lemma NoDup_app_l {A} (l1 l2 : list A) : NoDup (l1 ++ l2) -> NoDup l1.
Proof.
  induction l1 as [|x t IH]; simpl; intros H; [constructor|].
  inversion H as [|? ? Hni Hnd]; subst. constructor; [|apply IH; exact Hnd].
  intros Hin. apply Hni. apply in_or_app. left. exact Hin.
Qed.

(** * selects / perms *)

Lemma selects_spec {A} (l : list A) x r :
  In (x, r) (selects l) <-> exists l1 l2, l = l1 ++ x :: l2 /\ r = l1 ++ l2.
Proof.
  revert x r. induction l as [|y t IH]; intros x r; simpl.
  - split; [tauto|]. intros (l1 & l2 & H & _). destruct l1; discriminate.
  - split.
    + intros [H|H].
      * injection H as <- <-. exists [], t. auto.
      * apply in_map_iff in H. destruct H as ([z r'] & Heq & Hin). injection Heq as <- <-.
        apply IH in Hin. destruct Hin as (l1 & l2 & -> & ->). exists (y :: l1), l2. auto.
    + intros (l1 & l2 & H & ->). destruct l1 as [|y' l1']; simpl in H; injection H as <- ->.
      * left. reflexivity.
      * right. apply in_map_iff. exists (x, l1' ++ l2). split; [reflexivity|]. apply IH. eauto.
Qed.

Lemma perms_fuel_sound {A} fuel : forall (l l' : list A),
  (List.length l <= fuel)%nat -> In l' (perms_fuel fuel l) -> Permutation l l'.
Proof.
  induction fuel as [|f IH]; intros l l' Hlen H; simpl in H.
  - destruct l; [|simpl in Hlen; lia]. destruct H as [<-|[]]. constructor.
  - destruct l as [|a t]; [destruct H as [<-|[]]; constructor|].
    apply in_flat_map in H. destruct H as ([x r] & Hsel & H).
    apply in_map_iff in H. destruct H as (t' & <- & Ht').
    apply selects_spec in Hsel. destruct Hsel as (l1 & l2 & Hl & ->).
    rewrite Hl. apply Permutation_sym, Permutation_cons_app, Permutation_sym.
    apply IH; [|exact Ht'].
    assert (Hl' : List.length (a :: t) = List.length (l1 ++ x :: l2)) by (rewrite Hl; reflexivity).
    rewrite app_length in *. simpl in *. lia.
Qed.

Lemma perms_fuel_complete {A} fuel : forall (l l' : list A),
  (List.length l <= fuel)%nat -> Permutation l l' -> In l' (perms_fuel fuel l).
Proof.
  induction fuel as [|f IH]; intros l l' Hlen H; simpl.
  - destruct l; [|simpl in Hlen; lia]. apply Permutation_nil in H. subst. left. reflexivity.
  - destruct l as [|a t]; [apply Permutation_nil in H; subst; left; reflexivity|].
    destruct l' as [|x t']; [apply Permutation_sym, Permutation_nil in H; discriminate|].
    assert (Hx : In x (a :: t)) by (eapply Permutation_in; [apply Permutation_sym; exact H | left; reflexivity]).
    apply in_split in Hx. destruct Hx as (l1 & l2 & Hl).
    apply in_flat_map. exists (x, l1 ++ l2). split; [apply selects_spec; eauto|].
    apply in_map_iff. exists t'. split; [reflexivity|]. apply IH.
    + assert (Hl' : List.length (a :: t) = List.length (l1 ++ x :: l2)) by (rewrite Hl; reflexivity).
      rewrite app_length in *. simpl in *. lia.
    + rewrite Hl in H. apply Permutation_sym in H. apply Permutation_cons_app_inv in H.
      apply Permutation_sym. exact H.
Qed.

Lemma perms_spec {A} (l l' : list A) : In l' (perms l) <-> Permutation l l'.
Proof.
  unfold perms. split; [apply perms_fuel_sound | apply perms_fuel_complete]; lia.
Qed.

(** * enumerate *)

Lemma In_enumerate_gen {A} (l : list A) : forall off j s,
  In (j, s) (combine (map Z.of_nat (seq off (List.length l))) l) <->
  exists t, j = Z.of_nat (off + t) /\ nth_error l t = Some s.
Proof.
  induction l as [|x r IH]; intros off j s; simpl.
  - split; [tauto|]. intros ([|t] & _ & H); discriminate.
  - split.
    + intros [H|H].
      * injection H as <- <-. exists 0%nat. split; [f_equal; lia|reflexivity].
      * apply IH in H. destruct H as (t & -> & Ht). exists (S t). split; [f_equal; lia|exact Ht].
    + intros ([|t] & -> & Ht); simpl in Ht.
      * left. injection Ht as <-. f_equal. f_equal. lia.
      * right. apply IH. exists t. split; [f_equal; lia|exact Ht].
Qed.

Lemma In_enumerate {A} (l : list A) j s :
  In (j, s) (enumerate l) <-> exists t, j = Z.of_nat t /\ nth_error l t = Some s.
Proof. unfold enumerate. rewrite In_enumerate_gen. simpl. tauto. Qed.

Lemma map_fst_combine' {A B} (l1 : list A) (l2 : list B) :
  List.length l1 = List.length l2 -> map fst (combine l1 l2) = l1.
Proof.
  revert l2. induction l1 as [|x t IH]; intros [|y r]; simpl; intros H; try discriminate; [reflexivity|].
  f_equal. apply IH. lia.
Qed.

Lemma map_fst_enumerate {A} (l : list A) : map fst (enumerate l) = zseq (List.length l).
Proof.
  unfold enumerate, zseq. apply map_fst_combine'. rewrite map_length, seq_length. reflexivity.
Qed.

Lemma NoDup_zseq n : NoDup (zseq n).
Proof.
  unfold zseq. apply FinFun.Injective_map_NoDup; [intros x y H; lia | apply seq_NoDup].
Qed.

Lemma NoDup_map_inv' {A B} (g : A -> B) l : NoDup (map g l) -> NoDup l.
Proof. apply NoDup_map_inv. Qed.

(** * match_perm *)

Definition cond (w : option string) (p s : string) : bool := sym_eqb_opt w p || String.eqb p s.

Lemma match_perm_sound w : forall pattern i sp m,
  match_perm w i pattern sp = Some m ->
  exists pre rest, sp = pre ++ rest /\ List.length pre = List.length pattern /\
    map snd m = map fst pre /\
    Forall2 (fun p e => cond w p (snd e) = true) pattern pre.
Proof.
  induction pattern as [|p pt IH]; intros i sp m H; simpl in H.
  - injection H as <-. exists [], sp. repeat split; constructor.
  - destruct sp as [|[si s] st]; [discriminate|].
    destruct (sym_eqb_opt w p || String.eqb p s)%bool eqn:Ec; [|discriminate].
    destruct (match_perm w (i + 1) pt st) as [m'|] eqn:E; [|discriminate].
    simpl in H. injection H as <-. destruct (IH _ _ _ E) as (pre & rest & -> & Hl & Hs & HF).
    exists ((si, s) :: pre), rest. simpl. repeat split; [f_equal; exact Hl | f_equal; exact Hs|].
    constructor; [exact Ec | exact HF].
Qed.

Lemma match_perm_complete w : forall pattern i pre rest,
  Forall2 (fun p e => cond w p (snd e) = true) pattern pre ->
  match_perm w i pattern (pre ++ rest)
  = Some (combine (map (fun t => i + Z.of_nat t) (seq 0 (List.length pattern))) (map fst pre)).
Proof.
  induction pattern as [|p pt IH]; intros i pre rest HF; inversion HF as [|? [si s] ? pre' Hc HF']; subst; simpl.
  - reflexivity.
  - unfold cond in Hc. simpl in Hc. rewrite Hc. rewrite (IH (i + 1) pre' rest HF'). simpl.
    f_equal. f_equal; [f_equal; lia|]. f_equal.
    rewrite <- seq_shift, map_map. apply map_ext. intros t. lia.
Qed.

Lemma Forall2_nth_error {A B} (R : A -> B -> Prop) l1 l2 :
  Forall2 R l1 l2 -> forall t x y, nth_error l1 t = Some x -> nth_error l2 t = Some y -> R x y.
Proof.
  induction 1 as [|a b l1 l2 HR F IH]; intros [|t] x y H1 H2; simpl in *; try discriminate.
  - injection H1 as <-. injection H2 as <-. exact HR.
  - eapply IH; eauto.
Qed.

Lemma Forall2_of_nth {A B} (R : A -> B -> Prop) l1 l2 :
  List.length l1 = List.length l2 ->
  (forall t x y, nth_error l1 t = Some x -> nth_error l2 t = Some y -> R x y) -> Forall2 R l1 l2.
Proof.
  revert l2. induction l1 as [|a l1 IH]; intros [|b l2] Hl H; simpl in Hl; try discriminate; constructor.
  - apply (H 0%nat); reflexivity.
  - apply IH; [lia|]. intros t x y H1 H2. apply (H (S t)); assumption.
Qed.

Lemma In_pair_nth {A B} (m : list (A * B)) i j :
  In (i, j) m -> exists t, nth_error (map fst m) t = Some i /\ nth_error (map snd m) t = Some j.
Proof.
  intros H. apply In_nth_error in H. destruct H as [t Ht]. exists t.
  rewrite !nth_error_map, Ht. auto.
Qed.

Lemma nth_error_zseq' n t x : nth_error (zseq n) t = Some x -> x = Z.of_nat t /\ (t < n)%nat.
Proof.
  unfold zseq. rewrite nth_error_map. destruct (nth_error (seq 0 n) t) as [k|] eqn:E; [|discriminate].
  simpl. intros [= <-].
  assert (Hlt : (t < List.length (seq 0 n))%nat) by (apply nth_error_Some; congruence).
  rewrite seq_length in Hlt. apply (nth_error_nth _ _ 0%nat) in E. rewrite seq_nth in E by lia.
  subst k. split; [reflexivity|lia].
Qed.

Lemma snth_nth_error l t s : nth_error l t = Some s -> snth l (Z.of_nat t) = s.
Proof. intros H. unfold snth. rewrite Nat2Z.id. apply nth_error_nth. exact H. Qed.

Lemma adm_cond w ic p s :
  adm w ic p s = cond (option_map (fold_case ic) w) (fold_case ic p) (fold_case ic s).
Proof. unfold adm, cond. destruct w; reflexivity. Qed.

(** * the padding loop *)

Lemma pad_spec w pattern : forall cmtn s adds s2 adds2,
  pad w pattern cmtn s adds = (s2, adds2) ->
  (exists extra, s2 = s ++ extra) /\
  (forall z, In z adds2 <-> In z adds \/ Z.of_nat (List.length s) <= z < Z.of_nat (List.length s2)).
Proof.
  induction cmtn as [|c ct IH]; intros s adds s2 adds2 H; simpl in H.
  - injection H as <- <-. split; [exists []; rewrite app_nil_r; reflexivity|]. intros z. split; [auto|].
    intros [H|H]; [exact H|lia].
  - apply IH in H. destruct H as [[extra ->] Hadds].
    set (n := Z.to_nat (if sym_eqb_opt w c
                        then Z.of_nat (List.length pattern) - Z.of_nat (List.length s)
                        else count_sym c pattern - count_sym c s)) in *.
    split; [exists (repeat c n ++ extra); rewrite app_assoc; reflexivity|].
    intros z. rewrite Hadds. rewrite in_app_iff, in_map_iff. rewrite !app_length, repeat_length.
    split.
    + intros [[H|(i & <- & Hi)]|H]; [auto| |right; lia]. apply in_seq in Hi. right. lia.
    + intros [H|H]; [auto|].
      destruct (Z_lt_le_dec z (Z.of_nat (List.length s) + Z.of_nat n)) as [Hlt|Hge].
      * left. right. exists (Z.to_nat (z - Z.of_nat (List.length s))). split; [lia|]. apply in_seq. lia.
      * right. lia.
Qed.

Lemma filter_map_adds adds l :
  (forall x, In x l -> 0 <= x) ->
  filter (fun j => negb (j =? -1)) (map (fun si => if zmem si adds then -1 else si) l)
  = filter (fun si => negb (zmem si adds)) l.
Proof.
  induction l as [|x t IH]; simpl; intros H; [reflexivity|].
  assert (Hx : 0 <= x) by (apply H; left; reflexivity).
  rewrite IH by (intros; apply H; right; assumption).
  destruct (zmem x adds); simpl; [reflexivity|].
  destruct (Z.eqb_spec x (-1)); [lia|reflexivity].
Qed.

(** * soundness, every mapper *)

Theorem permute_sound : forall mp, permute_sound_for mp.
Proof.
  intros mp ps ss a Ha. pose proof (permute_fst _ _ _ _ Ha) as Hfst.
  split; [exact Hfst|].
  unfold permute in Ha.
  set (ic := m_ignore_case mp) in *. set (w := m_wildcard mp) in *.
  change (fun s : string => if ic then lower s else s) with (fold_case ic) in Ha.
  destruct (pad (option_map (fold_case ic) w) (map (fold_case ic) ps) (map (fold_case ic) (m_cmtn mp))
                (map (fold_case ic) ss) []) as [s2 adds] eqn:Epad.
  apply pad_spec in Epad. destruct Epad as [[extra Hs2] Hadds].
  apply dedup_In in Ha. apply in_map_iff in Ha. destruct Ha as (m0 & <- & Hm0).
  unfold generate_mapping_permutations in Hm0.
  destruct (map (fold_case ic) ps) as [|p0 pt] eqn:Eps; [destruct Hm0|]. rewrite <- Eps in *.
  apply in_flat_map in Hm0. destruct Hm0 as (sp & Hsp & Hm0).
  destruct (match_perm _ 0 (map (fold_case ic) ps) sp) as [m'|] eqn:Em; [|destruct Hm0].
  destruct Hm0 as [<-|[]].
  apply perms_spec in Hsp.
  pose proof (match_perm_fst _ _ _ _ _ Em) as Hfst0.
  apply match_perm_sound in Em. destruct Em as (pre & rest & -> & Hlen & Hsnd & HF).
  (* the structure positions used are distinct and in range *)
  assert (Hnd : NoDup (map fst (pre ++ rest))).
  { eapply Permutation_NoDup; [apply Permutation_map; exact Hsp|].
    rewrite map_fst_enumerate. apply NoDup_zseq. }
  assert (Hnd0 : NoDup (map snd m')).
  { rewrite Hsnd. rewrite map_app in Hnd. apply NoDup_app_l in Hnd. exact Hnd. }
  assert (Hpre : forall e, In e pre -> exists t, fst e = Z.of_nat t /\ nth_error s2 t = Some (snd e)).
  { intros [j s] He. apply In_enumerate. eapply Permutation_in; [apply Permutation_sym; exact Hsp|].
    apply in_or_app. left. exact He. }
  assert (Hrange : forall x, In x (map snd m') -> 0 <= x).
  { intros x Hx. rewrite Hsnd in Hx. apply in_map_iff in Hx. destruct Hx as (e & <- & He).
    destruct (Hpre e He) as (t & -> & _). lia. }
  assert (Hmap : map snd (map (fun '(pi, si) => if zmem si adds then (pi, -1) else (pi, si)) m')
                 = map (fun si => if zmem si adds then -1 else si) (map snd m')).
  { rewrite !map_map. apply map_ext. intros [pi si]. simpl. destruct (zmem si adds); reflexivity. }
  split.
  - rewrite Hmap, filter_map_adds by exact Hrange. apply NoDup_filter. exact Hnd0.
  - intros i j Hin. apply in_map_iff in Hin. destruct Hin as ([pi si] & Heq & Hin).
    destruct (zmem si adds) eqn:Ez; injection Heq as <- <-; [left; reflexivity|right].
    apply zmem_false in Ez.
    apply In_pair_nth in Hin. destruct Hin as (t & Hi & Hj).
    rewrite Hfst0 in Hi. rewrite nth_error_map in Hi.
    destruct (nth_error (seq 0 (List.length (map (fold_case ic) ps))) t) as [k|] eqn:Ek; [|discriminate].
    simpl in Hi. injection Hi as <-.
    assert (Hk : k = t /\ (t < List.length ps)%nat).
    { assert (Hlt : (t < List.length (seq 0 (List.length (map (fold_case ic) ps))))%nat)
        by (apply nth_error_Some; congruence).
      rewrite seq_length, map_length in Hlt. apply (nth_error_nth _ _ 0%nat) in Ek.
      rewrite seq_nth in Ek by (rewrite map_length; lia). split; [lia|exact Hlt]. }
    destruct Hk as [-> Ht]. simpl.
    rewrite Hsnd, nth_error_map in Hj. destruct (nth_error pre t) as [[j' s']|] eqn:Epre; [|discriminate].
    simpl in Hj. injection Hj as ->.
    destruct (Hpre _ (nth_error_In _ _ Epre)) as (u & Hu & Hs'). simpl in Hu, Hs'. subst si.
    (* not an added position: it lies in the original structure *)
    assert (Hu : (u < List.length ss)%nat).
    { destruct (Nat.lt_ge_cases u (List.length ss)) as [|Hge]; [assumption|exfalso].
      apply Ez. apply Hadds. right. rewrite map_length.
      assert ((u < List.length s2)%nat) by (apply nth_error_Some; congruence). lia. }
    split; [lia|].
    destruct (nth_error ps t) as [p1|] eqn:Ep1; [|apply nth_error_None in Ep1; lia].
    destruct (nth_error ss u) as [s1|] eqn:Es1; [|apply nth_error_None in Es1; lia].
    replace (Z.of_nat 0 + Z.of_nat t) with (Z.of_nat t) by lia.
    rewrite (snth_nth_error _ _ _ Ep1), (snth_nth_error _ _ _ Es1), adm_cond.
    assert (Hp' : nth_error (map (fold_case ic) ps) t = Some (fold_case ic p1))
      by (rewrite nth_error_map, Ep1; reflexivity).
    assert (Hs1' : s' = fold_case ic s1).
    { rewrite Hs2, nth_error_app1 in Hs' by (rewrite map_length; exact Hu).
      rewrite nth_error_map, Es1 in Hs'. simpl in Hs'. congruence. }
    pose proof (Forall2_nth_error _ _ _ HF _ _ _ Hp' Epre) as Hc. simpl in Hc. rewrite Hs1' in Hc. exact Hc.
Qed.

(** * without can_map_to_nothing *)

Lemma permute_nil w ic ps ss :
  permute (mkMapper w ic []) ps ss
  = dedup [] (generate_mapping_permutations (map (fold_case ic) ps) (map (fold_case ic) ss)
                                            (option_map (fold_case ic) w)).
Proof.
  unfold permute. simpl. f_equal.
  change (fun s : string => if ic then lower s else s) with (fold_case ic).
  rewrite <- (map_id (generate_mapping_permutations _ _ _)) at 2.
  apply map_ext. intros m. rewrite <- (map_id m) at 2. apply map_ext. intros [pi si]. reflexivity.
Qed.

Theorem permute_total_nil w ic : permute_total_for (mkMapper w ic []).
Proof.
  intros ps ss a Ha i j Hin Hj. subst j.
  rewrite permute_nil in Ha. apply dedup_In in Ha.
  unfold generate_mapping_permutations in Ha.
  destruct (map (fold_case ic) ps) as [|p0 pt] eqn:Eps; [destruct Ha|]. rewrite <- Eps in *.
  apply in_flat_map in Ha. destruct Ha as (sp & Hsp & Hm0).
  destruct (match_perm _ 0 (map (fold_case ic) ps) sp) as [m'|] eqn:Em; [|destruct Hm0].
  destruct Hm0 as [<-|[]]. apply perms_spec in Hsp.
  apply match_perm_sound in Em. destruct Em as (pre & rest & -> & _ & Hsnd & _).
  apply (in_map snd) in Hin. simpl in Hin. rewrite Hsnd in Hin. apply in_map_iff in Hin.
  destruct Hin as ([j s] & Hj & He). simpl in Hj. subst j.
  assert (H : In (-1, s) (enumerate (map (fold_case ic) ss))).
  { eapply Permutation_in; [apply Permutation_sym; exact Hsp|]. apply in_or_app. left. exact He. }
  apply In_enumerate in H. destruct H as (t & Ht & _). lia.
Qed.

Lemma list_zz_eqb_eq x y : list_zz_eqb x y = true <-> x = y.
Proof.
  unfold list_zz_eqb. revert y. induction x as [|[a b] t IH]; intros [|[c d] r]; simpl;
    try (split; [discriminate|congruence]); [tauto|].
  rewrite !andb_true_iff, !Z.eqb_eq, IH. split; [intros [[-> ->] ->]; reflexivity | intros [= -> -> ->]; auto].
Qed.

Lemma dedup_complete l x : forall seen,
  In x l -> existsb (list_zz_eqb x) seen = true \/ In x (dedup seen l).
Proof.
  induction l as [|m t IH]; intros seen H; simpl; [destruct H|].
  destruct (existsb (list_zz_eqb m) seen) eqn:Em.
  - destruct H as [->|H]; [left; exact Em | apply IH; exact H].
  - destruct H as [->|H]; [right; left; reflexivity|].
    destruct (IH (seen ++ [m]) H) as [Hs|Hd]; [|right; right; exact Hd].
    rewrite existsb_app in Hs. apply orb_true_iff in Hs. destruct Hs as [Hs|Hs]; [left; exact Hs|].
    simpl in Hs. rewrite orb_false_r in Hs. apply list_zz_eqb_eq in Hs. subst. right. left. reflexivity.
Qed.

Theorem permute_complete_nil w ic : permute_complete_for (mkMapper w ic []).
Proof.
  intros ps ss a Hne (Hfst & Hnd & Hadm) Htot. simpl in Hadm.
  rewrite permute_nil.
  destruct (dedup_complete (generate_mapping_permutations (map (fold_case ic) ps) (map (fold_case ic) ss)
                              (option_map (fold_case ic) w)) a []) as [H|H]; [|discriminate|exact H].
  set (w' := option_map (fold_case ic) w). set (ps' := map (fold_case ic) ps). set (ss' := map (fold_case ic) ss).
  set (js := map snd a).
  assert (Hjs : forall j, In j js -> 0 <= j < Z.of_nat (List.length ss)).
  { intros j Hj. unfold js in Hj. apply in_map_iff in Hj. destruct Hj as ([i j'] & <- & Hin).
    destruct (Hadm _ _ Hin) as [H|[H _]]; [exfalso; exact (Htot _ _ Hin H)|exact H]. }
  assert (Hndjs : NoDup js).
  { unfold js. rewrite <- (filter_all' (fun j => negb (j =? -1)) (map snd a)); [exact Hnd|].
    intros j Hj. apply Hjs in Hj. destruct (Z.eqb_spec j (-1)); [lia|reflexivity]. }
  (* the structure permutation: the assigned positions first, the others after them *)
  set (at' := fun j => (j, nth (Z.to_nat j) ss' EmptyString)).
  set (pre := map at' js).
  set (rest := filter (fun e => negb (zmem (fst e) js)) (enumerate ss')).
  assert (Hat : forall j, 0 <= j < Z.of_nat (List.length ss) -> In (at' j) (enumerate ss')).
  { intros j Hj. unfold at'. apply In_enumerate. exists (Z.to_nat j). split; [lia|].
    apply nth_error_nth'. unfold ss'. rewrite map_length. lia. }
  assert (Henum : forall j s, In (j, s) (enumerate ss') -> (j, s) = at' j /\ 0 <= j < Z.of_nat (List.length ss)).
  { intros j s He. apply In_enumerate in He. destruct He as (t & -> & Ht). unfold at'. rewrite Nat2Z.id.
    split; [f_equal; symmetry; apply nth_error_nth; exact Ht|].
    assert ((t < List.length ss')%nat) by (apply nth_error_Some; congruence).
    unfold ss' in H. rewrite map_length in H. lia. }
  assert (Hperm : Permutation (enumerate ss') (pre ++ rest)).
  { apply NoDup_Permutation.
    - apply (NoDup_map_inv fst). rewrite map_fst_enumerate. apply NoDup_zseq.
    - apply NoDup_app_intro.
      + apply (NoDup_map_inv fst). unfold pre. rewrite map_map. simpl. rewrite map_id. exact Hndjs.
      + apply NoDup_filter. apply (NoDup_map_inv fst). rewrite map_fst_enumerate. apply NoDup_zseq.
      + intros e H1 H2. unfold pre in H1. apply in_map_iff in H1. destruct H1 as (j & <- & Hj).
        unfold rest in H2. apply filter_In in H2. destruct H2 as [_ H2]. simpl in H2.
        apply negb_true_iff, zmem_false in H2. contradiction.
    - intros [j s]. split.
      + intros He. destruct (Henum _ _ He) as [Heq Hr]. apply in_or_app.
        destruct (zmem j js) eqn:Ez.
        * left. apply zmem_In in Ez. rewrite Heq. unfold pre. apply in_map. exact Ez.
        * right. unfold rest. apply filter_In. split; [exact He|]. simpl. rewrite Ez. reflexivity.
      + intros He. apply in_app_or in He. destruct He as [He|He].
        * unfold pre in He. apply in_map_iff in He. destruct He as (j' & Heq & Hj'). rewrite <- Heq.
          apply Hat. apply Hjs. exact Hj'.
        * unfold rest in He. apply filter_In in He. tauto. }
  assert (Hlen : List.length js = List.length ps).
  { unfold js. rewrite map_length, <- (map_length fst), Hfst. unfold zseq. rewrite map_length, seq_length. reflexivity. }
  assert (HF : Forall2 (fun p e => cond w' p (snd e) = true) ps' pre).
  { apply Forall2_of_nth; [unfold ps', pre; rewrite !map_length; lia|].
    intros t p e Hp He. unfold pre in He. rewrite nth_error_map in He.
    destruct (nth_error js t) as [j|] eqn:Ej; [|discriminate]. simpl in He. injection He as <-. simpl.
    unfold ps' in Hp. rewrite nth_error_map in Hp. destruct (nth_error ps t) as [p1|] eqn:Ep1; [|discriminate].
    simpl in Hp. injection Hp as <-.
    assert (Hin : In (Z.of_nat t, j) a).
    { assert (Ht : (t < List.length a)%nat).
      { rewrite <- (map_length snd). apply nth_error_Some. fold js. congruence. }
      destruct (nth_error a t) as [[i0 j0]|] eqn:Ea; [|apply nth_error_None in Ea; lia].
      assert (Hi0 : nth_error (map fst a) t = Some i0) by (rewrite nth_error_map, Ea; reflexivity).
      rewrite Hfst in Hi0. apply nth_error_zseq' in Hi0. destruct Hi0 as [-> _].
      unfold js in Ej. rewrite nth_error_map, Ea in Ej. simpl in Ej. injection Ej as ->.
      eapply nth_error_In; eauto. }
    destruct (Hadm _ _ Hin) as [H|[Hr Ha]]; [exfalso; exact (Htot _ _ Hin H)|].
    rewrite (snth_nth_error _ _ _ Ep1), adm_cond in Ha.
    unfold snth in Ha. unfold ss'.
    rewrite (nth_indep _ EmptyString (fold_case ic EmptyString)) by (rewrite map_length; lia).
    rewrite map_nth. exact Ha. }
  unfold generate_mapping_permutations. fold ps' ss' w'.
  destruct ps' as [|p0 pt] eqn:Eps'; [unfold ps' in Eps'; destruct ps; [contradiction|discriminate]|].
  rewrite <- Eps' in *.
  apply in_flat_map. exists (pre ++ rest). split; [apply perms_spec; exact Hperm|].
  rewrite (match_perm_complete w' ps' 0 pre rest HF). left.
  assert (Ea : a = combine (map fst a) (map snd a)).
  { clear. induction a as [|[i j] t IH]; simpl; [reflexivity|f_equal; exact IH]. }
  symmetry. etransitivity; [exact Ea|]. f_equal.
  - rewrite Hfst. unfold zseq, ps'. rewrite map_length. apply map_ext. intros t. lia.
  - unfold pre. rewrite map_map. simpl. rewrite map_id. reflexivity.
Qed.

Theorem permute_spec_nil w ic : permute_spec_holds w ic.
Proof.
  split; [apply permute_sound|]. split; [apply permute_total_nil | apply permute_complete_nil].
Qed.
