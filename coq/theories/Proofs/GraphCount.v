(** Counting facts about the networkx model used by key_strict (C07): Graph.edges() lists every
    undirected bond exactly once. *)
From Coq Require Import ZArith List Bool String Lia Permutation.
From FGV Require Import Base.Util Base.UtilFacts Base.Bond Base.NX Base.NXFacts.
Import ListNotations.
Open Scope Z_scope.

(* an edge reported by edges_aux comes from a source entry; the target is neither in [seen] nor
   among the nodes before the source *)
Lemma in_edges_aux_pos : forall g seen u v l,
  In (u, v, l) (edges_aux seen g) ->
  exists g1 a ad g2, g = (g1 ++ (u, (a, ad)) :: g2)%list /\ In (v, l) ad /\ ~ In v seen /\ ~ In v (nodes g1).
Proof.
  induction g as [|[n [a ad]] t IH]; simpl; intros seen u v l H; [contradiction|].
  apply in_app_or in H. destruct H as [H|H].
  - apply in_map_iff in H. destruct H as [[v' l'] [Heq Hf]]. injection Heq as -> -> ->.
    apply filter_In in Hf. destruct Hf as [Hin Hns].
    exists [], a, ad, t. split; [reflexivity|]. split; [exact Hin|]. split; [|intros []].
    apply zmem_false. apply negb_true_iff. exact Hns.
  - destruct (IH _ _ _ _ H) as [g1 [a' [ad' [g2 [E [H1 [H2 H3]]]]]]].
    exists ((n, (a, ad)) :: g1), a', ad', g2. split; [rewrite E; reflexivity|]. split; [exact H1|].
    split; [intros Hs; apply H2; right; exact Hs|].
    simpl. intros [Hn|Hn]; [apply H2; left; exact Hn|exact (H3 Hn)].
Qed.

Lemma nodes_app_cons (g1 g2 : graph) e : nodes (g1 ++ e :: g2) = (nodes g1 ++ fst e :: nodes g2)%list.
Proof. unfold nodes. rewrite map_app. reflexivity. Qed.

(* every undirected bond once: the two orientations are never both listed *)
Lemma edges_once g u v l l' :
  NoDup (nodes g) -> In (u, v, l) (edges g) -> In (v, u, l') (edges g) -> u = v.
Proof.
  intros Hnd H1 H2. unfold edges in *.
  destruct (in_edges_aux_pos _ _ _ _ _ H1) as [g1 [a [ad [g2 [E1 [_ [_ Hv]]]]]]].
  destruct (in_edges_aux_pos _ _ _ _ _ H2) as [g1' [a' [ad' [g2' [E2 [_ [_ Hu]]]]]]].
  destruct (Z.eq_dec u v) as [|Hne]; auto. exfalso.
  (* u sits at the end of g1, v at the end of g1': one of them precedes the other *)
  assert (Hsplit : forall (x y : Z) (h1 h2 h1' h2' : list Z),
             NoDup (h1 ++ x :: h2) -> (h1 ++ x :: h2 = h1' ++ y :: h2')%list -> x <> y ->
             In x h1' \/ In y h1).
  { clear. intros x y h1. induction h1 as [|z h1 IH]; intros h2 h1' h2' Hnd E Hne.
    - destruct h1' as [|z' h1']; simpl in E; inversion E; subst; [congruence|]. left. left. reflexivity.
    - destruct h1' as [|z' h1']; simpl in E; inversion E; subst.
      + right. left. reflexivity.
      + simpl in Hnd. inversion Hnd as [|? ? Hz Hnd0]; subst. destruct (IH _ _ _ Hnd0 H1 Hne) as [H|H]; [left; right; exact H|right; right; exact H]. }
  assert (En1 : nodes g = (nodes g1 ++ u :: nodes g2)%list) by (rewrite E1 at 1; rewrite nodes_app_cons; reflexivity).
  assert (En2 : nodes g = (nodes g1' ++ v :: nodes g2')%list) by (rewrite E2 at 1; rewrite nodes_app_cons; reflexivity).
  assert (En : (nodes g1 ++ u :: nodes g2 = nodes g1' ++ v :: nodes g2')%list) by congruence.
  assert (Hnd' : NoDup (nodes g1 ++ u :: nodes g2)) by (rewrite <- En1; exact Hnd).
  destruct (Hsplit u v _ _ _ _ Hnd' En Hne) as [H|H]; contradiction.
Qed.

Lemma NoDup_app_intro_local {A} (l1 l2 : list A) :
  NoDup l1 -> NoDup l2 -> (forall x, In x l1 -> In x l2 -> False) -> NoDup (l1 ++ l2).
Proof.
  induction l1 as [|x t IH]; simpl; intros H1 H2 H; auto.
  inversion H1; subst. constructor.
  - intros Hin. apply in_app_or in Hin. destruct Hin as [Hin|Hin]; [contradiction|]. eapply H; eauto.
  - apply IH; auto. intros y Hy1 Hy2. eapply H; eauto.
Qed.

Definition pair_of (e : Z * Z * label) : Z * Z := (fst (fst e), snd (fst e)).

Lemma edges_aux_NoDup : forall g seen,
  NoDup (nodes g) -> (forall n a ad, In (n, (a, ad)) g -> NoDup (map fst ad)) ->
  NoDup (map pair_of (edges_aux seen g)).
Proof.
  induction g as [|[n [a ad]] t IH]; intros seen Hnd Had; simpl; [constructor|].
  simpl in Hnd. inversion Hnd as [|? ? Hn Ht]; subst.
  rewrite map_app. apply NoDup_app_intro_local.
  - assert (Ha : NoDup (map fst ad)) by (apply (Had n a ad); left; reflexivity).
    clear -Ha. induction ad as [|[v l] ad' IHa]; simpl; [constructor|].
    simpl in Ha. inversion Ha as [|? ? Hv Ht]; subst.
    destruct (negb (zmem v seen)); simpl; auto. constructor; auto.
    intros Hin. apply Hv. apply in_map_iff in Hin. destruct Hin as [[[u' v'] l'] [E Hin]].
    apply in_map_iff in Hin. destruct Hin as [[v'' l''] [E' Hin]]. inversion E'; subst. unfold pair_of in E. simpl in E.
    inversion E; subst. apply filter_In in Hin. apply in_map_iff. exists (v, l'). split; auto. apply Hin.
  - apply IH; auto. intros n' a' ad' Hin. apply (Had n' a' ad'). right. exact Hin.
  - intros x Hx1 Hx2. apply in_map_iff in Hx1. destruct Hx1 as [[[u v] l] [E1 H1]].
    apply in_map_iff in H1. destruct H1 as [[v' l'] [E' _]]. inversion E'; subst.
    apply in_map_iff in Hx2. destruct Hx2 as [[[u2 v2] l2] [E2 H2]]. unfold pair_of in E2. simpl in E2.
    inversion E2; subst. destruct (in_edges_aux _ _ _ _ _ H2) as [a2 [ad2 [Hin2 _]]].
    apply Hn. unfold nodes. apply in_map_iff. exists (u, (a2, ad2)). auto.
Qed.
